(* C09 - the rollback of NetworkService.__init__ restores the pre-state: disconnecting the interfaces
   connected so far and removing the service deletes exactly what the constructor added - including a
   ServicePort that a half-finished connect_interface left on the service ("orphan"). *)
From Coq Require Import List NArith Bool Lia.
From FIM Require Import Base.Str Gen.T9Names Model.T9Graph Model.T9Ops Proofs.T9Monad Proofs.T9Simple Proofs.T9Ext.
Import ListNotations.
Open Scope N_scope.

Lemma NoDup_mid {A} (a b : list A) x : NoDup (a ++ x :: b) -> ~ In x a /\ ~ In x b /\ NoDup (a ++ b).
Proof.
  intro H. split; [|split].
  - intro Hin. apply NoDup_remove_2 in H. apply H. apply in_app_iff; auto.
  - intro Hin. apply NoDup_remove_2 in H. apply H. apply in_app_iff; auto.
  - eapply NoDup_remove_1; eauto.
Qed.

Lemma good_tail g nsn c cs : good g nsn (c :: cs) -> good g nsn cs.
Proof.
  intros [Hnd Hc Hcp Hifs Hpeers]. constructor; auto.
  - unfold new_ids, conn_ids in *. simpl in Hnd.
    replace (ids g ++ nid nsn :: k_p c :: k_l c :: flat_map (fun c0 => [k_p c0; k_l c0]) cs)
      with ((ids g ++ [nid nsn]) ++ k_p c :: k_l c :: flat_map (fun c0 => [k_p c0; k_l c0]) cs) in Hnd
      by (rewrite <- app_assoc; reflexivity).
    apply NoDup_mid in Hnd as (_ & _ & Hnd).
    apply NoDup_mid in Hnd as (_ & _ & Hnd). rewrite <- app_assoc in Hnd. exact Hnd.
  - intros; apply Hcp; right; auto.
  - simpl in Hifs. inversion Hifs; auto.
  - intros; apply Hpeers; right; auto.
Qed.

Lemma conns_untouched x ns cs :
  x <> ns -> (forall c', In c' cs -> k_p c' <> x /\ k_l c' <> x /\ k_i c' <> x) ->
  untouched x (flat_map (conn_edges ns) cs).
Proof.
  intros Hns H e He. apply in_flat_map in He as [c' [Hin He]]. destruct (H c' Hin) as (Hp & Hl & Hi).
  simpl in He. unfold touches.
  destruct He as [<-|[<-|[<-|[]]]]; simpl; apply orb_false_iff; split; apply N.eqb_neq; auto.
Qed.

Lemma cls_of_app_old g X e y : In y (ids g) -> cls_of (mkGraph (gnodes g ++ X) e) y = cls_of g y.
Proof.
  intro Hin. unfold cls_of, find_nodes; simpl. rewrite filter_app.
  apply in_map_iff in Hin as [n [He Hin]].
  destruct (filter (fun n0 => nid n0 =? y) (gnodes g)) as [|m l] eqn:E.
  - exfalso. assert (In n (filter (fun n0 => nid n0 =? y) (gnodes g))).
    { apply filter_In; split; auto. apply N.eqb_eq; auto. }
    rewrite E in H; contradiction.
  - reflexivity.
Qed.
Lemma has_cls_app_old g X e k y : In y (ids g) -> has_cls (mkGraph (gnodes g ++ X) e) k y = has_cls g k y.
Proof. intro H. unfold has_cls. rewrite cls_of_app_old; auto. Qed.

Lemma filter_nodes_notin (L : list node) x : (forall n, In n L -> nid n <> x) ->
  filter (fun n => negb (nid n =? x)) L = L.
Proof. intro H. apply filter_all. intros n Hn. apply negb_true_iff. apply N.eqb_neq. auto. Qed.

(* ---------------------------------------------------------------- the first connection, any tail *)
Section Head.
  Variables (g : graph) (nsn : node) (c : conn) (RN : list node) (RE : list edge).
  Let ns := nid nsn.
  Let p := k_p c.
  Let l := k_l c.
  Let i := k_i c.
  Let E := mkGraph (gnodes g ++ nsn :: conn_nodes c ++ RN) (gedges g ++ conn_edges ns c ++ RE).
  Hypothesis Hclosed : closed g.
  Hypothesis Hnd : NoDup (ids g ++ ns :: p :: l :: map nid RN).
  Hypothesis Hcls : ncls nsn = cNS.
  Hypothesis Hcp : has_cls g cCP i = true.
  Hypothesis Hpeers : peer_cps g i = Ok [].
  Hypothesis Hup : untouched p RE.
  Hypothesis Hul : untouched l RE.
  Hypothesis Hui : untouched i RE.
  Hypothesis Hulinks : forall l0, In l0 (ids g) -> has_cls g cLink l0 = true -> untouched l0 RE.

  Lemma hd_facts : ~ In ns (ids g) /\ ~ In p (ids g) /\ ~ In l (ids g) /\ ns <> p /\ ns <> l /\ p <> l /\
                   (forall n, In n RN -> nid n <> ns /\ nid n <> p /\ nid n <> l).
  Proof.
    assert (H := Hnd). apply NoDup_mid in H as (A1 & A2 & H).
    assert (H' : NoDup (ids g ++ p :: l :: map nid RN)) by exact H.
    apply NoDup_mid in H' as (B1 & B2 & H').
    apply NoDup_mid in H' as (C1 & C2 & H').
    repeat split; auto.
    - intro X. apply A2. rewrite X. left; auto.
    - intro X. apply A2. rewrite X. right; left; auto.
    - intro X. apply B2. rewrite X. left; auto.
    - intro X. apply A2. rewrite <- X. right; right. apply in_map; auto.
    - intro X. apply B2. rewrite <- X. right. apply in_map; auto.
    - intro X. apply C2. rewrite <- X. apply in_map; auto.
  Qed.
  Lemma hf_i' : In i (ids g). Proof. eapply has_cls_In; eauto. Qed.
  Lemma i_ne_ns : i <> ns. Proof. intro X. apply (proj1 hd_facts). rewrite <- X. apply hf_i'. Qed.
  Lemma i_ne_p : i <> p. Proof. intro X. apply (proj1 (proj2 hd_facts)). rewrite <- X. apply hf_i'. Qed.
  Lemma i_ne_l : i <> l. Proof. intro X. apply (proj1 (proj2 (proj2 hd_facts))). rewrite <- X. apply hf_i'. Qed.
  Lemma ns_ne_p : ns <> p. Proof. destruct hd_facts as (_&_&_&H&_). exact H. Qed.
  Lemma ns_ne_l : ns <> l. Proof. destruct hd_facts as (_&_&_&_&H&_). exact H. Qed.
  Lemma p_ne_l : p <> l. Proof. destruct hd_facts as (_&_&_&_&_&H&_). exact H. Qed.

  Lemma g_untouched_p : untouched p (gedges g).
  Proof. apply closed_untouched; auto. destruct hd_facts as (_&H&_). exact H. Qed.
  Lemma g_untouched_l : untouched l (gedges g).
  Proof. apply closed_untouched; auto. destruct hd_facts as (_&_&H&_). exact H. Qed.

  Lemma adj_rel_E x r : adj_rel E x r = adj_es (gedges g) x r ++ adj_es (conn_edges ns c) x r ++ adj_es RE x r.
  Proof. unfold adj_rel, adj_es, E. cbn [gedges]. rewrite !flat_map_app. reflexivity. Qed.
  Lemma adj_any_E x : adj_any E x = adj_any_es (gedges g) x ++ adj_any_es (conn_edges ns c) x ++ adj_any_es RE x.
  Proof. unfold adj_any, adj_any_es, E. cbn [gedges]. rewrite !flat_map_app. reflexivity. Qed.

  Ltac eqbs :=
    repeat first [ rewrite N.eqb_refl
                 | rewrite (neqb_of_neq ns p) by apply ns_ne_p
                 | rewrite (neqb_of_neq ns l) by apply ns_ne_l
                 | rewrite (neqb_of_neq p l) by apply p_ne_l
                 | rewrite (neqb_of_neq l p) by (intro X; apply p_ne_l; auto)
                 | rewrite (neqb_of_neq p ns) by (intro X; apply ns_ne_p; auto)
                 | rewrite (neqb_of_neq l ns) by (intro X; apply ns_ne_l; auto)
                 | rewrite (neqb_of_neq i p) by apply i_ne_p
                 | rewrite (neqb_of_neq i l) by apply i_ne_l
                 | rewrite (neqb_of_neq i ns) by apply i_ne_ns
                 | rewrite (neqb_of_neq p i) by (intro X; apply i_ne_p; auto)
                 | rewrite (neqb_of_neq l i) by (intro X; apply i_ne_l; auto)
                 | rewrite (neqb_of_neq ns i) by (intro X; apply i_ne_ns; auto) ].

  Lemma adj_p : adj_rel E p rConnects = [ns; l].
  Proof.
    rewrite adj_rel_E. rewrite (adj_es_untouched _ _ _ g_untouched_p), (adj_es_untouched _ _ _ Hup).
    unfold adj_es, conn_edges, other_end; simpl. fold ns p l i. eqbs. reflexivity.
  Qed.
  Lemma adj_l : adj_rel E l rConnects = [i; p].
  Proof.
    rewrite adj_rel_E. rewrite (adj_es_untouched _ _ _ g_untouched_l), (adj_es_untouched _ _ _ Hul).
    unfold adj_es, conn_edges, other_end; simpl. fold ns p l i. eqbs. reflexivity.
  Qed.
  Lemma adj_any_l : adj_any E l = [i; p].
  Proof.
    rewrite adj_any_E. rewrite (adj_any_es_untouched _ _ g_untouched_l), (adj_any_es_untouched _ _ Hul).
    unfold adj_any_es, conn_edges, other_end; simpl. fold ns p l i. eqbs. reflexivity.
  Qed.
  Lemma adj_i : adj_rel E i rConnects = adj_rel g i rConnects ++ [l].
  Proof.
    rewrite adj_rel_E. rewrite (adj_es_untouched _ _ _ Hui).
    unfold adj_es at 2. unfold conn_edges, other_end; simpl. fold ns p l i. eqbs. rewrite app_nil_r. reflexivity.
  Qed.

  Let pnode := mkNode (k_p c) cCP (k_pname c) tServicePort 0.
  Let lnode := mkNode (k_l c) cLink (k_pname c ++ suffix_link) (k_lty c) 0.

  Lemma nodupE : NoDup (ids E).
  Proof. unfold ids, E; simpl. rewrite map_app. simpl. exact Hnd. Qed.

  Lemma find_in_E n : In n (gnodes E) -> find_nodes E (nid n) = [n].
  Proof. intro H. unfold find_nodes. apply find_nodes_unique; auto. apply nodupE. Qed.
  Lemma In_E_ns : In nsn (gnodes E). Proof. unfold E; simpl. apply in_app_iff. right. left. auto. Qed.
  Lemma In_E_pn : In pnode (gnodes E). Proof. unfold E; simpl. apply in_app_iff. right. right. left. auto. Qed.
  Lemma In_E_ln : In lnode (gnodes E). Proof. unfold E; simpl. apply in_app_iff. right. right. right. left. auto. Qed.

  Lemma cls_ns : cls_of E ns = Some cNS.
  Proof. unfold cls_of, ns. rewrite (find_in_E nsn In_E_ns). rewrite Hcls. reflexivity. Qed.
  Lemma cls_p : cls_of E p = Some cCP.
  Proof. unfold cls_of. assert (H := find_in_E pnode In_E_pn). simpl in H. fold p in H. rewrite H. reflexivity. Qed.
  Lemma cls_l : cls_of E l = Some cLink.
  Proof. unfold cls_of. assert (H := find_in_E lnode In_E_ln). simpl in H. fold l in H. rewrite H. reflexivity. Qed.
  Lemma cls_i : has_cls E cCP i = true.
  Proof. unfold E. rewrite has_cls_app_old by apply hf_i'. exact Hcp. Qed.

  Lemma find_E x : In x (ids E) -> exists n, find_node E x = Ok n.
  Proof. intro H. destruct (In_ids_find E x nodupE H) as [n [Hn _]]; eauto. Qed.
  Lemma In_E_p : In p (ids E). Proof. apply in_map_iff. exists pnode. split; auto. apply In_E_pn. Qed.
  Lemma In_E_l : In l (ids E). Proof. apply in_map_iff. exists lnode. split; auto. apply In_E_ln. Qed.
  Lemma In_E_i : In i (ids E).
  Proof. unfold ids, E; simpl. rewrite map_app. apply in_app_iff. left. apply hf_i'. Qed.

  (* D1: the peers of the first connected interface are exactly its ServicePort *)
  Lemma peers_head : peer_cps E i = Ok [p].
  Proof.
    unfold peer_cps. destruct (find_E i In_E_i) as [n ->].
    rewrite adj_i. rewrite filter_app. simpl.
    assert (Hl : has_cls E cLink l = true) by (unfold has_cls; rewrite cls_l; reflexivity).
    rewrite Hl. rewrite flat_map_app. simpl. rewrite app_nil_r.
    rewrite adj_any_l. simpl. rewrite cls_i.
    assert (Hp : has_cls E cCP p = true) by (unfold has_cls; rewrite cls_p; reflexivity).
    rewrite Hp. simpl. fold ns p l i. eqbs.
    assert (Hold : flat_map (fun l0 => remove_N i (filter (has_cls E cCP) (adj_any E l0)))
                     (filter (has_cls E cLink) (adj_rel g i rConnects)) = []).
    { assert (Hg := Hpeers).
      unfold peer_cps in Hg. destruct (find_node g i); [|discriminate]. injection Hg as Hg'.
      etransitivity; [|exact Hg'].
      rewrite (filter_ext_in' (has_cls E cLink) (has_cls g cLink)).
      2:{ intros y Hy. unfold E. apply has_cls_app_old. eapply adj_in_closed; eauto. }
      apply flat_map_ext_in. intros l0 Hl0. apply filter_In in Hl0 as [Hl0 Hcl0].
      assert (Hin0 : In l0 (ids g)) by (eapply adj_in_closed; eauto).
      f_equal.
      assert (Hadj : adj_any E l0 = adj_any g l0).
      { rewrite adj_any_E.
        assert (U1 : untouched l0 (conn_edges ns c)).
        { assert (N1 : l0 <> ns) by (intro X; apply (proj1 hd_facts); rewrite <- X; auto).
          assert (N2 : l0 <> p) by (intro X; apply (proj1 (proj2 hd_facts)); rewrite <- X; auto).
          assert (N3 : l0 <> l) by (intro X; apply (proj1 (proj2 (proj2 hd_facts))); rewrite <- X; auto).
          assert (N4 : l0 <> i).
          { intro X. assert (Hcp' := Hcp). rewrite <- X in Hcp'. unfold has_cls in Hcp', Hcl0.
            destruct (cls_of g l0); [|discriminate].
            apply N.eqb_eq in Hcp'. apply N.eqb_eq in Hcl0. subst. discriminate. }
          intros e He. simpl in He. unfold touches.
          destruct He as [<-|[<-|[<-|[]]]]; simpl; fold ns p l i; apply orb_false_iff; split; apply N.eqb_neq; auto. }
        rewrite (adj_any_es_untouched _ _ U1). rewrite (adj_any_es_untouched _ _ (Hulinks l0 Hin0 Hcl0)).
        rewrite app_nil_r. reflexivity. }
      rewrite Hadj. apply filter_ext_in'. intros y Hy. unfold E. apply has_cls_app_old.
      eapply adj_any_in_closed; eauto. }
    rewrite Hold. reflexivity.
  Qed.

  Lemma fn_p_cp : first_neighbor E p rConnects cCP = Ok [].
  Proof.
    unfold first_neighbor. destruct (find_E p In_E_p) as [n ->]. rewrite adj_p. simpl.
    unfold has_cls. rewrite cls_ns, cls_l. reflexivity.
  Qed.
  Lemma fn_p_link : first_neighbor E p rConnects cLink = Ok [l].
  Proof.
    unfold first_neighbor. destruct (find_E p In_E_p) as [n ->]. rewrite adj_p. simpl.
    unfold has_cls. rewrite cls_ns, cls_l. reflexivity.
  Qed.
  Lemma fn_l_cp : first_neighbor E l rConnects cCP = Ok [i; p].
  Proof.
    unfold first_neighbor. destruct (find_E l In_E_l) as [n ->]. rewrite adj_l. simpl.
    rewrite cls_i. unfold has_cls. rewrite cls_p. reflexivity.
  Qed.

  Let E1 := mkGraph (gnodes g ++ nsn :: lnode :: RN) (gedges g ++ mkEdge l i rConnects :: RE).
  Let E2 := mkGraph (gnodes g ++ nsn :: RN) (gedges g ++ RE).

  Lemma E_minus_p : remove_node_raw p E = E1.
  Proof.
    unfold remove_node_raw, E, E1. simpl. f_equal.
    - rewrite filter_app. simpl. fold ns p l i. eqbs. simpl.
      rewrite filter_nodes_notin
        by (intros n Hn X; apply (proj1 (proj2 hd_facts)); rewrite <- X; apply in_map; auto).
      f_equal. f_equal. f_equal.
      apply filter_nodes_notin. intros n Hn. apply (proj2 (proj2 (proj2 (proj2 (proj2 (proj2 hd_facts))))) n Hn).
    - rewrite filter_app. rewrite (filter_untouched _ _ g_untouched_p). f_equal.
      simpl. unfold touches; simpl. fold ns p l i. eqbs. simpl.
      f_equal. apply (filter_untouched _ _ Hup).
  Qed.

  Lemma E1_minus_l : remove_node_raw l E1 = E2.
  Proof.
    unfold remove_node_raw, E2, E1. simpl. f_equal.
    - rewrite filter_app. simpl. fold ns p l i. eqbs. simpl.
      rewrite filter_nodes_notin
        by (intros n Hn X; apply (proj1 (proj2 (proj2 hd_facts))); rewrite <- X; apply in_map; auto).
      f_equal. f_equal.
      apply filter_nodes_notin. intros n Hn. apply (proj2 (proj2 (proj2 (proj2 (proj2 (proj2 hd_facts))))) n Hn).
    - rewrite filter_app. rewrite (filter_untouched _ _ g_untouched_l). f_equal.
      simpl. unfold touches; simpl. fold ns p l i. eqbs. simpl.
      apply (filter_untouched _ _ Hul).
  Qed.

  Lemma find_E1_l : exists n, find_node E1 l = Ok n.
  Proof.
    exists lnode. apply (find_node_unique E1 lnode).
    - unfold ids, E1; simpl. rewrite map_app. simpl.
      assert (H := Hnd).
      replace (ids g ++ ns :: p :: l :: map nid RN) with ((ids g ++ [ns]) ++ p :: l :: map nid RN) in H
        by (rewrite <- app_assoc; reflexivity).
      apply NoDup_mid in H as (_ & _ & H). rewrite <- app_assoc in H. exact H.
    - unfold E1; simpl. apply in_app_iff. right. right. left. reflexivity.
  Qed.

  Lemma remove_cp_head fr : remove_cp_and_links p (mkSt E fr) = (mkSt E2 fr, Ok tt).
  Proof.
    unfold remove_cp_and_links, bind, ask. simpl sg.
    rewrite fn_p_cp. simpl. rewrite fn_p_link. rewrite fn_l_cp. simpl.
    fold p l. eqbs. simpl.
    unfold bind, m_delete_node, mutate. simpl sg. unfold g_delete_node.
    destruct (find_E p In_E_p) as [n ->]. rewrite E_minus_p. simpl sg.
    destruct find_E1_l as [n' ->]. rewrite E1_minus_l. reflexivity.
  Qed.

  Lemma p_is_service_port : is_service_port E p = true.
  Proof.
    unfold is_service_port. assert (H := find_in_E pnode In_E_pn). simpl in H. fold p in H. rewrite H. reflexivity.
  Qed.

  Lemma disconnect_head fr : disconnect_interface (k_if c) (mkSt E fr) = (mkSt E2 fr, Ok tt).
  Proof.
    unfold disconnect_interface, bind, ask. simpl sg. fold (k_i c). fold i. rewrite peers_head.
    unfold filter.
    replace (is_service_port (sg {| sg := E; sfresh := fr |}) p) with true by (symmetry; exact p_is_service_port).
    apply remove_cp_head.
  Qed.
End Head.

(* ---------------------------------------------------------------- the extended graph with orphan ports *)
Definition orphan_edge (ns : N) (o : node) : edge := mkEdge ns (nid o) rConnects.
Definition tail_nodes (cs : list conn) (os : list node) : list node := flat_map conn_nodes cs ++ os.
Definition tail_edges (ns : N) (cs : list conn) (os : list node) : list edge :=
  flat_map (conn_edges ns) cs ++ map (orphan_edge ns) os.
Definition extO (g : graph) (nsn : node) (cs : list conn) (os : list node) : graph :=
  mkGraph (gnodes g ++ nsn :: tail_nodes cs os) (gedges g ++ tail_edges (nid nsn) cs os).

Lemma extO_nil g nsn cs : extO g nsn cs [] = ext g nsn cs.
Proof. unfold extO, ext, tail_nodes, tail_edges. simpl. rewrite !app_nil_r. reflexivity. Qed.

Record goodO (g : graph) (nsn : node) (cs : list conn) (os : list node) : Prop := mkGoodO {
  go_good : good g nsn cs;
  go_nodup : NoDup (ids g ++ new_ids nsn cs ++ map nid os);
  go_cls : forall o, In o os -> ncls o = cCP }.

Lemma goodO_tail g nsn c cs os : goodO g nsn (c :: cs) os -> goodO g nsn cs os.
Proof.
  intros [G Hnd Hc]. constructor; auto; [eapply good_tail; eauto|].
  unfold new_ids, conn_ids in *. simpl in Hnd.
  replace (ids g ++ nid nsn :: k_p c :: k_l c :: flat_map (fun c0 => [k_p c0; k_l c0]) cs ++ map nid os)
    with ((ids g ++ [nid nsn]) ++ k_p c :: k_l c :: flat_map (fun c0 => [k_p c0; k_l c0]) cs ++ map nid os) in Hnd
    by (rewrite <- app_assoc; reflexivity).
  apply NoDup_mid in Hnd as (_ & _ & Hnd).
  apply NoDup_mid in Hnd as (_ & _ & Hnd). rewrite <- app_assoc in Hnd. exact Hnd.
Qed.

Lemma map_nid_conn_nodes cs : map nid (flat_map conn_nodes cs) = conn_ids cs.
Proof. unfold conn_ids. induction cs as [|c cs IH]; simpl; auto. f_equal. f_equal. auto. Qed.

Lemma orphans_untouched x ns os : x <> ns -> ~ In x (map nid os) -> untouched x (map (orphan_edge ns) os).
Proof.
  intros Hns Hx e He. apply in_map_iff in He as [o [<- Ho]]. unfold touches, orphan_edge; simpl.
  apply orb_false_iff; split; apply N.eqb_neq; auto. intro X. apply Hx. rewrite <- X. apply in_map; auto.
Qed.

(* the head connection of a good extended graph can be disconnected *)
Lemma disconnect_headO g nsn c cs os fr : closed g -> goodO g nsn (c :: cs) os ->
  disconnect_interface (k_if c) (mkSt (extO g nsn (c :: cs) os) fr) = (mkSt (extO g nsn cs os) fr, Ok tt).
Proof.
  intros Hcl GO. destruct GO as [G Hnd Hcls].
  assert (E1 : extO g nsn (c :: cs) os =
               mkGraph (gnodes g ++ nsn :: conn_nodes c ++ tail_nodes cs os)
                       (gedges g ++ conn_edges (nid nsn) c ++ tail_edges (nid nsn) cs os)).
  { unfold extO, tail_nodes, tail_edges. cbn [flat_map]. rewrite <- !app_assoc. reflexivity. }
  rewrite E1.
  assert (Hnd' : NoDup (ids g ++ nid nsn :: k_p c :: k_l c :: map nid (tail_nodes cs os))).
  { unfold tail_nodes. rewrite map_app, map_nid_conn_nodes.
    unfold new_ids, conn_ids in Hnd. simpl in Hnd. exact Hnd. }
  assert (Hall : forall x, In x (nid nsn :: k_p c :: k_l c :: conn_ids cs ++ map nid os) -> ~ In x (ids g)).
  { intros x Hx Ho. eapply (nodup_app_disj (ids g)); [exact Hnd| exact Ho|].
    unfold new_ids, conn_ids. simpl. exact Hx. }
  assert (Hsplit := Hnd'). apply NoDup_mid in Hsplit as (_ & A2 & Hs1).
  assert (Hs1' : NoDup (ids g ++ k_p c :: k_l c :: map nid (tail_nodes cs os))) by exact Hs1.
  apply NoDup_mid in Hs1' as (_ & B2 & Hs2). apply NoDup_mid in Hs2 as (_ & C2 & _).
  unfold tail_nodes in A2, B2, C2. rewrite map_app, map_nid_conn_nodes in A2, B2, C2.
  assert (Hi : In (k_i c) (ids g)) by (eapply good_i_old; eauto; left; auto).
  (* untouched facts for x in {p, l, i} and for old Link nodes *)
  assert (Hunt : forall x, x <> nid nsn -> ~ In x (conn_ids cs ++ map nid os) ->
                           (forall c', In c' cs -> k_i c' <> x) ->
                           untouched x (tail_edges (nid nsn) cs os)).
  { intros x Hns Hx Hxi. unfold tail_edges. apply untouched_app.
    - apply conns_untouched; auto. intros c' Hc'. repeat split.
      + intro X. apply Hx. apply in_app_iff. left. rewrite <- X. apply conn_ids_In_p; auto.
      + intro X. apply Hx. apply in_app_iff. left. rewrite <- X. apply conn_ids_In_l; auto.
      + auto.
    - apply orphans_untouched; auto. intro X. apply Hx. apply in_app_iff. right; auto. }
  assert (Hci : forall c', In c' cs -> In (k_i c') (ids g)).
  { intros c' Hc'. eapply good_i_old; eauto. right; auto. }
  apply (disconnect_head g nsn c (tail_nodes cs os) (tail_edges (nid nsn) cs os)); auto.
  - apply (gd_cls _ _ _ G).
  - apply (gd_cp _ _ _ G). left; auto.
  - apply (gd_peers _ _ _ G). left; auto.
  - apply Hunt.
    + intro X. apply A2. rewrite <- X. left; auto.
    + intro X. apply B2. right. exact X.
    + intros c' Hc' X. apply (Hall (k_p c)); [right; left; auto|]. rewrite <- X. auto.
  - apply Hunt.
    + intro X. apply A2. rewrite <- X. right; left; auto.
    + exact C2.
    + intros c' Hc' X. apply (Hall (k_l c)); [right; right; left; auto|]. rewrite <- X. auto.
  - apply Hunt.
    + intro X. apply (Hall (nid nsn)); [left; auto|]. rewrite <- X. exact Hi.
    + intro X. apply (Hall (k_i c)); [right; right; right; exact X|exact Hi].
    + intros c' Hc' X. assert (Hifs := gd_ifs _ _ _ G). simpl in Hifs. inversion Hifs; subst.
      apply H1. rewrite <- X. apply in_map; auto.
  - intros l0 Hl0 Hcl0. apply Hunt.
    + intro X. apply (Hall (nid nsn)); [left; auto|]. rewrite <- X. exact Hl0.
    + intro X. apply (Hall l0); [right; right; right; exact X|exact Hl0].
    + intros c' Hc' X. assert (Hcp' := gd_cp _ _ _ G c' (or_intror Hc')). rewrite X in Hcp'.
      unfold has_cls in Hcp', Hcl0. destruct (cls_of g l0); [|discriminate].
      apply N.eqb_eq in Hcp'. apply N.eqb_eq in Hcl0. subst. discriminate.
Qed.

(* ---------------------------------------------------------------- removing isolated fresh ports *)
Lemma remove_isolated g : closed g -> forall (os : list node) fr,
  NoDup (ids g ++ map nid os) ->
  for_each (map nid os) remove_cp_and_links (mkSt (mkGraph (gnodes g ++ os) (gedges g)) fr) = (mkSt g fr, Ok tt).
Proof.
  intros Hcl. induction os as [|o os IH]; intros fr Hnd.
  - simpl. rewrite app_nil_r. destruct g; reflexivity.
  - simpl map. simpl for_each. unfold bind at 1.
    set (G := mkGraph (gnodes g ++ o :: os) (gedges g)).
    assert (HndG : NoDup (ids G)) by (unfold ids, G; simpl; rewrite map_app; exact Hnd).
    assert (Hfind : find_node G (nid o) = Ok o).
    { apply find_node_unique; auto. unfold G; simpl. apply in_app_iff. right. left. auto. }
    assert (Hnew : ~ In (nid o) (ids g)) by (apply NoDup_mid in Hnd as (A & _ & _); exact A).
    assert (Hunt : untouched (nid o) (gedges G)) by (unfold G; simpl; apply closed_untouched; auto).
    assert (Hfn : forall k, first_neighbor G (nid o) rConnects k = Ok []).
    { intro k. unfold first_neighbor. rewrite Hfind. unfold adj_rel.
      fold (adj_es (gedges G) (nid o) rConnects). rewrite (adj_es_untouched _ _ _ Hunt). reflexivity. }
    assert (Hrm : remove_cp_and_links (nid o) (mkSt G fr) = (mkSt (mkGraph (gnodes g ++ os) (gedges g)) fr, Ok tt)).
    { unfold remove_cp_and_links, bind, ask. simpl sg. rewrite Hfn. simpl. rewrite Hfn. simpl.
      unfold bind, m_delete_node, mutate, g_delete_node. simpl sg. rewrite Hfind.
      unfold ret. f_equal. f_equal. unfold remove_node_raw. rewrite (filter_untouched _ _ Hunt).
      unfold G; simpl. f_equal. rewrite filter_app. simpl. rewrite N.eqb_refl. simpl.
      apply NoDup_mid in Hnd as (A & B & _).
      rewrite filter_nodes_notin by (intros n Hn X; apply A; rewrite <- X; apply in_map; auto).
      f_equal. apply filter_nodes_notin. intros n Hn X. apply B. rewrite <- X. apply in_map; auto. }
    rewrite Hrm. apply IH. apply NoDup_mid in Hnd as (_ & _ & H). exact H.
Qed.

(* the service with no connection left, only orphan ports: removing it restores g *)
Lemma remove_ns_orphans g nsn os fr : closed g -> goodO g nsn [] os ->
  remove_ns_with_cps_and_links (nid nsn) (mkSt (extO g nsn [] os) fr) = (mkSt g fr, Ok tt).
Proof.
  intros Hcl [G Hnd Hcls].
  set (E := extO g nsn [] os).
  assert (HE : E = mkGraph (gnodes g ++ nsn :: os) (gedges g ++ map (orphan_edge (nid nsn)) os)) by reflexivity.
  unfold new_ids, conn_ids in Hnd. simpl in Hnd.
  assert (HndE : NoDup (ids E)).
  { rewrite HE. unfold ids; simpl. rewrite map_app. simpl. exact Hnd. }
  assert (Hns : ~ In (nid nsn) (ids g)) by (apply NoDup_mid in Hnd as (A & _ & _); exact A).
  assert (Hns_os : ~ In (nid nsn) (map nid os)) by (apply NoDup_mid in Hnd as (_ & B & _); exact B).
  assert (Hfind : find_node E (nid nsn) = Ok nsn).
  { apply find_node_unique; auto. rewrite HE; simpl. apply in_app_iff. right. left. reflexivity. }
  assert (Hadj : adj_rel E (nid nsn) rConnects = map nid os).
  { unfold adj_rel. rewrite HE. simpl gedges. rewrite flat_map_app.
    fold (adj_es (gedges g) (nid nsn) rConnects).
    rewrite (adj_es_untouched _ _ _ (closed_untouched g _ Hcl Hns)). simpl.
    clear -Hns_os. induction os as [|o os IH]; simpl; auto.
    unfold other_end; simpl. rewrite N.eqb_refl. simpl. f_equal. apply IH.
    intro X. apply Hns_os. right; auto. }
  assert (Hflt : filter (has_cls E cCP) (map nid os) = map nid os).
  { apply filter_all. intros x Hx. apply in_map_iff in Hx as [o [<- Ho]].
    unfold has_cls, cls_of. assert (Hin : In o (gnodes E)) by (rewrite HE; simpl; apply in_app_iff; right; right; auto).
    unfold find_nodes. rewrite (find_nodes_unique (gnodes E) o HndE Hin). rewrite (Hcls o Ho). reflexivity. }
  unfold remove_ns_with_cps_and_links, bind, ask. simpl sg. fold E.
  unfold node_cls. rewrite Hfind. rewrite (gd_cls _ _ _ G). simpl.
  unfold first_neighbor. rewrite Hfind. rewrite Hadj, Hflt.
  unfold m_delete_node, mutate, g_delete_node. simpl sg. rewrite Hfind.
  assert (Hraw : remove_node_raw (nid nsn) E = mkGraph (gnodes g ++ os) (gedges g)).
  { unfold remove_node_raw. rewrite HE. simpl. f_equal.
    - rewrite filter_app. simpl. rewrite N.eqb_refl. simpl.
      rewrite filter_nodes_notin by (intros n Hn X; apply Hns; rewrite <- X; apply in_map; auto).
      f_equal. apply filter_nodes_notin. intros n Hn X. apply Hns_os. rewrite <- X. apply in_map; auto.
    - rewrite filter_app. rewrite (filter_untouched _ _ (closed_untouched g _ Hcl Hns)).
      rewrite filter_none; [apply app_nil_r|].
      intros e He. apply in_map_iff in He as [o [<- Ho]]. unfold touches, orphan_edge; simpl.
      rewrite N.eqb_refl. reflexivity. }
  rewrite Hraw. apply remove_isolated; auto.
  apply NoDup_mid in Hnd as (_ & _ & H). exact H.
Qed.

(* ---------------------------------------------------------------- the handler restores the pre-state *)
Lemma rollback_restores g nsn cs os fr e : closed g -> goodO g nsn cs os ->
  rollback_service (nid nsn) (map k_if cs) e (mkSt (extO g nsn cs os) fr) = (mkSt g fr, Err e).
Proof.
  intros Hc. unfold rollback_service. induction cs as [|c cs IH]; intro G.
  - simpl. unfold bind at 1. unfold ret at 1. unfold bind. rewrite remove_ns_orphans; auto.
  - simpl map. simpl for_each. unfold bind at 1. unfold bind at 1.
    rewrite (disconnect_headO g nsn c cs os fr Hc G).
    specialize (IH (goodO_tail _ _ _ _ _ G)). unfold bind at 1 in IH. exact IH.
Qed.

(* C09 - the rollback of NetworkService.__init__ restores the pre-state: disconnecting the interfaces
   connected so far and removing the service deletes exactly what the constructor added. *)
From Coq Require Import List NArith Bool Lia.
From FIM Require Import Base.Str Gen.T9Names Model.T9Graph Model.T9Ops Proofs.T9Monad Proofs.T9Simple Proofs.T9Ext.
Import ListNotations.
Open Scope N_scope.

(* ---------------------------------------------------------------- facts about the first connection *)
Lemma NoDup_mid {A} (a b : list A) x : NoDup (a ++ x :: b) -> ~ In x a /\ ~ In x b /\ NoDup (a ++ b).
Proof.
  intro H. split; [|split].
  - intro Hin. apply NoDup_remove_2 in H. apply H. apply in_app_iff; auto.
  - intro Hin. apply NoDup_remove_2 in H. apply H. apply in_app_iff; auto.
  - eapply NoDup_remove_1; eauto.
Qed.

Lemma good_tail g nsn c cs : good g nsn (c :: cs) -> good g nsn cs.
Proof.
  intros [Hnd Hc Hcp Hifs Hpeers]. constructor; auto.
  - unfold new_ids, conn_ids in *. simpl in Hnd.
    replace (ids g ++ nid nsn :: k_p c :: k_l c :: flat_map (fun c0 => [k_p c0; k_l c0]) cs)
      with ((ids g ++ [nid nsn]) ++ k_p c :: k_l c :: flat_map (fun c0 => [k_p c0; k_l c0]) cs) in Hnd
      by (rewrite <- app_assoc; reflexivity).
    apply NoDup_mid in Hnd as (_ & _ & Hnd).
    replace ((ids g ++ [nid nsn]) ++ k_l c :: flat_map (fun c0 => [k_p c0; k_l c0]) cs)
      with ((ids g ++ [nid nsn]) ++ k_l c :: flat_map (fun c0 => [k_p c0; k_l c0]) cs) in Hnd by reflexivity.
    apply NoDup_mid in Hnd as (_ & _ & Hnd). rewrite <- app_assoc in Hnd. exact Hnd.
  - intros; apply Hcp; right; auto.
  - simpl in Hifs. inversion Hifs; auto.
  - intros; apply Hpeers; right; auto.
Qed.

Record head_facts (g : graph) (nsn : node) (c : conn) (cs : list conn) : Prop := mkHead {
  hf_ns : ~ In (nid nsn) (ids g);
  hf_p : ~ In (k_p c) (ids g);
  hf_l : ~ In (k_l c) (ids g);
  hf_i : In (k_i c) (ids g);
  hf_ns_p : nid nsn <> k_p c;
  hf_ns_l : nid nsn <> k_l c;
  hf_p_l : k_p c <> k_l c;
  hf_rest : forall c', In c' cs ->
     k_p c' <> nid nsn /\ k_p c' <> k_p c /\ k_p c' <> k_l c /\
     k_l c' <> nid nsn /\ k_l c' <> k_p c /\ k_l c' <> k_l c /\
     k_i c' <> k_i c /\ In (k_i c') (ids g) /\ ~ In (k_p c') (ids g) /\ ~ In (k_l c') (ids g) }.

Lemma good_head g nsn c cs : good g nsn (c :: cs) -> head_facts g nsn c cs.
Proof.
  intro G. assert (Gt := good_tail _ _ _ _ G). destruct G as [Hnd Hc Hcp Hifs Hpeers].
  unfold new_ids, conn_ids in Hnd. simpl in Hnd.
  set (R := flat_map (fun c0 => [k_p c0; k_l c0]) cs) in *.
  assert (Hnd0 := Hnd).
  apply NoDup_mid in Hnd as (Hns1 & Hns2 & Hnd1).
  assert (Hnd1' : NoDup ((ids g) ++ k_p c :: k_l c :: R)) by exact Hnd1.
  apply NoDup_mid in Hnd1' as (Hp1 & Hp2 & Hnd2).
  apply NoDup_mid in Hnd2 as (Hl1 & Hl2 & Hnd3).
  constructor; auto.
  - eapply has_cls_In. apply Hcp. left; auto.
  - intro E. apply Hns2. rewrite E. left; auto.
  - intro E. apply Hns2. rewrite E. right; left; auto.
  - intro E. apply Hp2. rewrite E. left; auto.
  - intros c' Hin.
    assert (Hp' : In (k_p c') R) by (apply conn_ids_In_p; auto).
    assert (Hl' : In (k_l c') R) by (apply conn_ids_In_l; auto).
    assert (Hi' : In (k_i c') (ids g)) by (eapply has_cls_In; apply Hcp; right; auto).
    repeat split; auto.
    + intro E. apply Hns2. rewrite <- E. right; right; auto.
    + intro E. apply Hp2. rewrite <- E. right; auto.
    + intro E. apply Hl2. rewrite <- E. auto.
    + intro E. apply Hns2. rewrite <- E. right; right; auto.
    + intro E. apply Hp2. rewrite <- E. right; auto.
    + intro E. apply Hl2. rewrite <- E. auto.
    + simpl in Hifs. inversion Hifs; subst. intro E. apply H1. rewrite <- E. apply in_map; auto.
    + intro Ho. eapply (nodup_app_disj (ids g) R); eauto.
    + intro Ho. eapply (nodup_app_disj (ids g) R); eauto.
Qed.

Lemma conns_untouched x ns cs :
  x <> ns -> (forall c', In c' cs -> k_p c' <> x /\ k_l c' <> x /\ k_i c' <> x) ->
  untouched x (flat_map (conn_edges ns) cs).
Proof.
  intros Hns H e He. apply in_flat_map in He as [c' [Hin He]]. destruct (H c' Hin) as (Hp & Hl & Hi).
  simpl in He. unfold touches.
  destruct He as [<-|[<-|[<-|[]]]]; simpl; apply orb_false_iff; split; apply N.eqb_neq; auto.
Qed.

Section Head.
  Variables (g : graph) (nsn : node) (c : conn) (cs : list conn).
  Hypothesis Hclosed : closed g.
  Hypothesis G : good g nsn (c :: cs).
  Let HF := good_head g nsn c cs G.
  Let E := ext g nsn (c :: cs).
  Let ns := nid nsn.
  Let p := k_p c.
  Let l := k_l c.
  Let i := k_i c.

  Lemma i_ne_ns : i <> ns. Proof. intro X. apply (hf_ns _ _ _ _ HF). fold ns. rewrite <- X. apply (hf_i _ _ _ _ HF). Qed.
  Lemma i_ne_p : i <> p. Proof. intro X. apply (hf_p _ _ _ _ HF). fold p. rewrite <- X. apply (hf_i _ _ _ _ HF). Qed.
  Lemma i_ne_l : i <> l. Proof. intro X. apply (hf_l _ _ _ _ HF). fold l. rewrite <- X. apply (hf_i _ _ _ _ HF). Qed.

  Lemma rest_untouched_p : untouched p (flat_map (conn_edges ns) cs).
  Proof.
    apply conns_untouched.
    - intro X. apply (hf_ns_p _ _ _ _ HF). auto.
    - intros c' Hin. destruct (hf_rest _ _ _ _ HF c' Hin) as (A1 & A2 & A3 & A4 & A5 & A6 & A7 & A8 & A9 & A10).
      repeat split; auto. intro X. apply (hf_p _ _ _ _ HF). fold p. rewrite <- X. auto.
  Qed.
  Lemma rest_untouched_l : untouched l (flat_map (conn_edges ns) cs).
  Proof.
    apply conns_untouched.
    - intro X. apply (hf_ns_l _ _ _ _ HF). auto.
    - intros c' Hin. destruct (hf_rest _ _ _ _ HF c' Hin) as (A1 & A2 & A3 & A4 & A5 & A6 & A7 & A8 & A9 & A10).
      repeat split; auto. intro X. apply (hf_l _ _ _ _ HF). fold l. rewrite <- X. auto.
  Qed.
  Lemma rest_untouched_i : untouched i (flat_map (conn_edges ns) cs).
  Proof.
    apply conns_untouched.
    - apply i_ne_ns.
    - intros c' Hin. destruct (hf_rest _ _ _ _ HF c' Hin) as (A1 & A2 & A3 & A4 & A5 & A6 & A7 & A8 & A9 & A10).
      repeat split; auto.
      + intro X. apply A9. rewrite X. apply (hf_i _ _ _ _ HF).
      + intro X. apply A10. rewrite X. apply (hf_i _ _ _ _ HF).
  Qed.

  Lemma g_untouched_p : untouched p (gedges g).
  Proof. apply closed_untouched; auto. apply (hf_p _ _ _ _ HF). Qed.
  Lemma g_untouched_l : untouched l (gedges g).
  Proof. apply closed_untouched; auto. apply (hf_l _ _ _ _ HF). Qed.

  Lemma E_edges : gedges E = gedges g ++ conn_edges ns c ++ flat_map (conn_edges ns) cs.
  Proof. reflexivity. Qed.

  Lemma adj_rel_E x r : adj_rel E x r = adj_es (gedges g) x r ++ adj_es (conn_edges ns c) x r
                                        ++ adj_es (flat_map (conn_edges ns) cs) x r.
  Proof. unfold adj_rel. fold (adj_es (gedges E) x r). rewrite E_edges, !adj_es_app. reflexivity. Qed.
  Lemma adj_any_E x : adj_any E x = adj_any_es (gedges g) x ++ adj_any_es (conn_edges ns c) x
                                    ++ adj_any_es (flat_map (conn_edges ns) cs) x.
  Proof. unfold adj_any. fold (adj_any_es (gedges E) x). rewrite E_edges, !adj_any_es_app. reflexivity. Qed.

  Ltac eqbs :=
    repeat first [ rewrite N.eqb_refl
                 | rewrite (neqb_of_neq ns p) by (apply (hf_ns_p _ _ _ _ HF))
                 | rewrite (neqb_of_neq ns l) by (apply (hf_ns_l _ _ _ _ HF))
                 | rewrite (neqb_of_neq p l) by (apply (hf_p_l _ _ _ _ HF))
                 | rewrite (neqb_of_neq l p) by (intro X; apply (hf_p_l _ _ _ _ HF); auto)
                 | rewrite (neqb_of_neq p ns) by (intro X; apply (hf_ns_p _ _ _ _ HF); auto)
                 | rewrite (neqb_of_neq l ns) by (intro X; apply (hf_ns_l _ _ _ _ HF); auto)
                 | rewrite (neqb_of_neq i p) by apply i_ne_p
                 | rewrite (neqb_of_neq i l) by apply i_ne_l
                 | rewrite (neqb_of_neq i ns) by apply i_ne_ns
                 | rewrite (neqb_of_neq p i) by (intro X; apply i_ne_p; auto)
                 | rewrite (neqb_of_neq l i) by (intro X; apply i_ne_l; auto)
                 | rewrite (neqb_of_neq ns i) by (intro X; apply i_ne_ns; auto) ].

  Lemma adj_p : adj_rel E p rConnects = [ns; l].
  Proof.
    rewrite adj_rel_E. rewrite (adj_es_untouched _ _ _ g_untouched_p), (adj_es_untouched _ _ _ rest_untouched_p).
    unfold adj_es, conn_edges, other_end; simpl. fold ns p l i. eqbs. reflexivity.
  Qed.
  Lemma adj_l : adj_rel E l rConnects = [i; p].
  Proof.
    rewrite adj_rel_E. rewrite (adj_es_untouched _ _ _ g_untouched_l), (adj_es_untouched _ _ _ rest_untouched_l).
    unfold adj_es, conn_edges, other_end; simpl. fold ns p l i. eqbs. reflexivity.
  Qed.
  Lemma adj_any_l : adj_any E l = [i; p].
  Proof.
    rewrite adj_any_E. rewrite (adj_any_es_untouched _ _ g_untouched_l), (adj_any_es_untouched _ _ rest_untouched_l).
    unfold adj_any_es, conn_edges, other_end; simpl. fold ns p l i. eqbs. reflexivity.
  Qed.
  Lemma adj_i : adj_rel E i rConnects = adj_rel g i rConnects ++ [l].
  Proof.
    rewrite adj_rel_E. rewrite (adj_es_untouched _ _ _ rest_untouched_i).
    unfold adj_es at 2. unfold conn_edges, other_end; simpl. fold ns p l i. eqbs. rewrite app_nil_r. reflexivity.
  Qed.

  Lemma nodupE : NoDup (ids g ++ new_ids nsn (c :: cs)).
  Proof. apply (gd_nodup _ _ _ G). Qed.

  Lemma cls_ns : cls_of E ns = Some cNS.
  Proof.
    unfold E, ns. rewrite (cls_of_ext_new g nsn (c :: cs) nsn nodupE) by (left; auto).
    rewrite (gd_cls _ _ _ G). reflexivity.
  Qed.
  Lemma cls_p : cls_of E p = Some cCP.
  Proof.
    unfold E, p.
    apply (cls_of_ext_new g nsn (c :: cs) (mkNode (k_p c) cCP (k_pname c) tServicePort 0) nodupE).
    right. apply conn_p_node. left; auto.
  Qed.
  Lemma cls_l : cls_of E l = Some cLink.
  Proof.
    unfold E, l.
    apply (cls_of_ext_new g nsn (c :: cs) (mkNode (k_l c) cLink (k_pname c ++ suffix_link) (k_lty c) 0) nodupE).
    right. apply conn_l_node. left; auto.
  Qed.
  Lemma cls_i : has_cls E cCP i = true.
  Proof. unfold E. rewrite has_cls_ext_old by (apply (hf_i _ _ _ _ HF)). apply (gd_cp _ _ _ G). left; auto. Qed.

  Lemma find_E x : In x (ids E) -> exists n, find_node E x = Ok n.
  Proof.
    intro H. destruct (In_ids_find E x) as [n [Hn _]]; eauto. unfold E. rewrite ids_ext. apply nodupE.
  Qed.
  Lemma In_E_p : In p (ids E).
  Proof. unfold E. rewrite ids_ext. apply in_app_iff. right. right. left. reflexivity. Qed.
  Lemma In_E_l : In l (ids E).
  Proof. unfold E. rewrite ids_ext. apply in_app_iff. right. right. right. left. reflexivity. Qed.
  Lemma In_E_i : In i (ids E).
  Proof. unfold E. rewrite ids_ext. apply in_app_iff. left. apply (hf_i _ _ _ _ HF). Qed.

  (* D1: the peers of the first connected interface are exactly its ServicePort *)
  Lemma peers_head : peer_cps E i = Ok [p].
  Proof.
    unfold peer_cps. destruct (find_E i In_E_i) as [n ->].
    rewrite adj_i. rewrite filter_app. simpl.
    assert (Hl : has_cls E cLink l = true) by (unfold has_cls; rewrite cls_l; reflexivity).
    rewrite Hl. rewrite flat_map_app. simpl. rewrite app_nil_r.
    rewrite adj_any_l. simpl. rewrite cls_i.
    assert (Hp : has_cls E cCP p = true) by (unfold has_cls; rewrite cls_p; reflexivity).
    rewrite Hp. simpl. fold ns p l i. eqbs.
    (* the links i already had in g contribute nothing, as in g *)
    assert (Hold : flat_map (fun l0 => remove_N i (filter (has_cls E cCP) (adj_any E l0)))
                     (filter (has_cls E cLink) (adj_rel g i rConnects)) = []).
    { assert (Hg := gd_peers _ _ _ G c (or_introl eq_refl)). fold i in Hg.
      unfold peer_cps in Hg. destruct (find_node g i); [|discriminate]. injection Hg as Hg'.
      etransitivity; [|exact Hg'].
      rewrite (filter_ext_in' (has_cls E cLink) (has_cls g cLink)).
      2:{ intros y Hy. unfold E. apply has_cls_ext_old. eapply adj_in_closed; eauto. }
      apply flat_map_ext_in. intros l0 Hl0. apply filter_In in Hl0 as [Hl0 Hcl0].
      assert (Hin0 : In l0 (ids g)) by (eapply adj_in_closed; eauto).
      f_equal.
      (* adj_any E l0 = adj_any g l0: no new edge touches a Link node of g *)
      assert (Hadj : adj_any E l0 = adj_any g l0).
      { rewrite adj_any_E.
        assert (U1 : untouched l0 (conn_edges ns c ++ flat_map (conn_edges ns) cs)).
        { change (conn_edges ns c ++ flat_map (conn_edges ns) cs) with (flat_map (conn_edges ns) (c :: cs)).
          apply conns_untouched.
          - intro X. apply (hf_ns _ _ _ _ HF). fold ns. rewrite <- X. auto.
          - intros c' Hc'.
            assert (Hcp' : has_cls g cCP (k_i c') = true) by (apply (gd_cp _ _ _ G); auto).
            assert (Hnew : ~ In (k_p c') (ids g) /\ ~ In (k_l c') (ids g)).
            { destruct Hc' as [<-|Hc']; [split; [apply (hf_p _ _ _ _ HF)|apply (hf_l _ _ _ _ HF)]|].
              destruct (hf_rest _ _ _ _ HF c' Hc') as (_ & _ & _ & _ & _ & _ & _ & _ & A9 & A10). auto. }
            destruct Hnew as [N1 N2].
            repeat split.
            + intro X. apply N1. rewrite X. auto.
            + intro X. apply N2. rewrite X. auto.
            + intro X. rewrite X in Hcp'. unfold has_cls in Hcp', Hcl0.
              destruct (cls_of g l0); [|discriminate].
              apply N.eqb_eq in Hcp'. apply N.eqb_eq in Hcl0. subst. discriminate. }
        rewrite <- adj_any_es_app. rewrite (adj_any_es_untouched _ _ U1). rewrite app_nil_r. reflexivity. }
      rewrite Hadj. apply filter_ext_in'. intros y Hy. unfold E. apply has_cls_ext_old.
      eapply adj_any_in_closed; eauto. }
    rewrite Hold. reflexivity.
  Qed.

  Lemma fn_p_cp : first_neighbor E p rConnects cCP = Ok [].
  Proof.
    unfold first_neighbor. destruct (find_E p In_E_p) as [n ->]. rewrite adj_p. simpl.
    unfold has_cls. rewrite cls_ns, cls_l. reflexivity.
  Qed.
  Lemma fn_p_link : first_neighbor E p rConnects cLink = Ok [l].
  Proof.
    unfold first_neighbor. destruct (find_E p In_E_p) as [n ->]. rewrite adj_p. simpl.
    unfold has_cls. rewrite cls_ns, cls_l. reflexivity.
  Qed.
  Lemma fn_l_cp : first_neighbor E l rConnects cCP = Ok [i; p].
  Proof.
    unfold first_neighbor. destruct (find_E l In_E_l) as [n ->]. rewrite adj_l. simpl.
    rewrite cls_i. unfold has_cls. rewrite cls_p. reflexivity.
  Qed.

  Lemma filter_nodes_notin (L : list node) x : (forall n, In n L -> nid n <> x) ->
    filter (fun n => negb (nid n =? x)) L = L.
  Proof. intro H. apply filter_all. intros n Hn. apply negb_true_iff. apply N.eqb_neq. auto. Qed.

  Lemma rest_nodes_ne x : (forall c', In c' cs -> k_p c' <> x /\ k_l c' <> x) ->
    forall n, In n (flat_map conn_nodes cs) -> nid n <> x.
  Proof.
    intros H n Hn. apply in_flat_map in Hn as [c' [Hc' Hn]]. destruct (H c' Hc') as [A B].
    simpl in Hn. destruct Hn as [<-|[<-|[]]]; simpl; auto.
  Qed.

  Let pnode := mkNode (k_p c) cCP (k_pname c) tServicePort 0.
  Let lnode := mkNode (k_l c) cLink (k_pname c ++ suffix_link) (k_lty c) 0.
  Let E1 := mkGraph (gnodes g ++ nsn :: lnode :: flat_map conn_nodes cs)
                    (gedges g ++ mkEdge l i rConnects :: flat_map (conn_edges ns) cs).

  Lemma E_minus_p : remove_node_raw p E = E1.
  Proof.
    unfold remove_node_raw, E, ext, E1. simpl. f_equal.
    - rewrite filter_app. simpl. fold ns p l i. eqbs. simpl.
      rewrite filter_nodes_notin by (intros n Hn X; apply (hf_p _ _ _ _ HF); fold p; rewrite <- X; apply in_map; auto).
      f_equal. f_equal. f_equal.
      apply filter_nodes_notin. apply rest_nodes_ne. intros c' Hc'.
      destruct (hf_rest _ _ _ _ HF c' Hc') as (A1 & A2 & A3 & A4 & A5 & A6 & _). split; auto.
    - rewrite filter_app. rewrite (filter_untouched _ _ g_untouched_p). f_equal.
      simpl. unfold touches; simpl. fold ns p l i. eqbs. simpl.
      f_equal. apply (filter_untouched _ _ rest_untouched_p).
  Qed.

  Lemma E1_minus_l : remove_node_raw l E1 = ext g nsn cs.
  Proof.
    unfold remove_node_raw, ext, E1. simpl. f_equal.
    - rewrite filter_app. simpl. fold ns p l i. eqbs. simpl.
      rewrite filter_nodes_notin by (intros n Hn X; apply (hf_l _ _ _ _ HF); fold l; rewrite <- X; apply in_map; auto).
      f_equal. f_equal.
      apply filter_nodes_notin. apply rest_nodes_ne. intros c' Hc'.
      destruct (hf_rest _ _ _ _ HF c' Hc') as (A1 & A2 & A3 & A4 & A5 & A6 & _). split; auto.
    - rewrite filter_app. rewrite (filter_untouched _ _ g_untouched_l). f_equal.
      simpl. unfold touches; simpl. fold ns p l i. eqbs. simpl.
      apply (filter_untouched _ _ rest_untouched_l).
  Qed.

  Lemma find_E1_l : exists n, find_node E1 l = Ok n.
  Proof.
    exists lnode. apply (find_node_unique E1 lnode).
    - unfold ids, E1; simpl. rewrite map_app. simpl.
      assert (H := nodupE). unfold new_ids, conn_ids in H. simpl in H.
      replace (ids g ++ nid nsn :: k_p c :: k_l c :: flat_map (fun c0 => [k_p c0; k_l c0]) cs)
        with ((ids g ++ [nid nsn]) ++ k_p c :: k_l c :: flat_map (fun c0 => [k_p c0; k_l c0]) cs) in H
        by (rewrite <- app_assoc; reflexivity).
      apply NoDup_mid in H as (_ & _ & H). rewrite <- app_assoc in H. simpl in H.
      replace (map nid (flat_map conn_nodes cs)) with (flat_map (fun c0 => [k_p c0; k_l c0]) cs); [exact H|].
      clear. induction cs as [|c0 cs0 IH]; simpl; auto. f_equal. f_equal. auto.
    - unfold E1; simpl. apply in_app_iff. right. right. left. reflexivity.
  Qed.

  (* D2: removing the ServicePort deletes it and the Link, nothing else *)
  Lemma remove_cp_head fr : remove_cp_and_links p (mkSt E fr) = (mkSt (ext g nsn cs) fr, Ok tt).
  Proof.
    unfold remove_cp_and_links, bind, ask. simpl sg.
    rewrite fn_p_cp. simpl. rewrite fn_p_link. rewrite fn_l_cp. simpl.
    fold p l. eqbs. simpl.
    unfold bind, m_delete_node, mutate. simpl sg. unfold g_delete_node.
    destruct (find_E p In_E_p) as [n ->]. rewrite E_minus_p. simpl sg.
    destruct find_E1_l as [n' ->]. rewrite E1_minus_l. reflexivity.
  Qed.

  Lemma p_is_service_port : is_service_port E p = true.
  Proof.
    unfold is_service_port.
    assert (H : find_nodes E p = [pnode]).
    { unfold find_nodes. apply (find_nodes_unique (gnodes E) pnode).
      - fold (ids E). unfold E. rewrite ids_ext. apply nodupE.
      - unfold E, ext; simpl. apply in_app_iff. right. right. left. reflexivity. }
    rewrite H. reflexivity.
  Qed.

  Lemma disconnect_head fr :
    disconnect_interface (k_if c) (mkSt E fr) = (mkSt (ext g nsn cs) fr, Ok tt).
  Proof.
    unfold disconnect_interface, bind, ask. simpl sg. fold (k_i c). fold i. rewrite peers_head.
    unfold filter.
    replace (is_service_port (sg {| sg := E; sfresh := fr |}) p) with true by (symmetry; exact p_is_service_port).
    apply remove_cp_head.
  Qed.
End Head.

(* ---------------------------------------------------------------- the handler restores the pre-state *)
Lemma ext_nil_remove g nsn fr : closed g -> good g nsn [] ->
  remove_ns_with_cps_and_links (nid nsn) (mkSt (ext g nsn []) fr) = (mkSt g fr, Ok tt).
Proof.
  intros Hc G.
  assert (Hnd : NoDup (ids (ext g nsn []))) by (rewrite ids_ext; apply (gd_nodup _ _ _ G)).
  assert (Hns : ~ In (nid nsn) (ids g)).
  { apply (good_new_not_old g nsn [] (nid nsn) G). left; reflexivity. }
  assert (Hfind : find_node (ext g nsn []) (nid nsn) = Ok nsn).
  { apply find_node_unique; auto. unfold ext; simpl. apply in_app_iff. right. left. reflexivity. }
  assert (Hunt : untouched (nid nsn) (gedges (ext g nsn []))).
  { unfold ext; simpl. rewrite app_nil_r. apply closed_untouched; auto. }
  unfold remove_ns_with_cps_and_links, bind, ask. simpl sg.
  unfold node_cls. rewrite Hfind. rewrite (gd_cls _ _ _ G). simpl.
  unfold first_neighbor. rewrite Hfind.
  unfold adj_rel. fold (adj_es (gedges (ext g nsn [])) (nid nsn) rConnects).
  rewrite (adj_es_untouched _ _ _ Hunt). simpl.
  unfold m_delete_node, mutate, g_delete_node. simpl sg. rewrite Hfind.
  unfold bind, ret. f_equal. f_equal.
  unfold remove_node_raw. rewrite (filter_untouched _ _ Hunt).
  unfold ext; simpl. rewrite filter_app. simpl. rewrite N.eqb_refl. simpl.
  rewrite !app_nil_r.
  rewrite filter_all.
  - destruct g; reflexivity.
  - intros n Hn. apply negb_true_iff. apply N.eqb_neq. intro X. apply Hns. rewrite <- X. apply in_map; auto.
Qed.

Lemma rollback_restores g nsn cs fr : closed g -> good g nsn cs ->
  (for_each (map k_if cs) disconnect_interface ;;;
   remove_ns_with_cps_and_links (nid nsn) ;;; @raise unit ETopology) (mkSt (ext g nsn cs) fr)
  = (mkSt g fr, Err ETopology).
Proof.
  intros Hc. induction cs as [|c cs IH]; intro G.
  - simpl. unfold bind at 1. unfold ret at 1. unfold bind. rewrite ext_nil_remove; auto.
  - simpl map. simpl for_each. unfold bind at 1. unfold bind at 1.
    rewrite (disconnect_head g nsn c cs Hc G fr).
    specialize (IH (good_tail _ _ _ _ G)). unfold bind at 1 in IH. exact IH.
Qed.

(* C18: the comparison handed to list.sort and the equality used by values.index in Model/Catalog18.v
   (clt3 / ceq3 on the three fields the catalogue sets) ARE Capacities.__lt__ / __eq__ as regenerated from
   fim/slivers/capacities_labels.py by translator/gen_caps.py (Gen/CapsGen.v, Model/Caps.v of C15), applied to
   Capacities objects whose other fields are 0.  If __lt__ or __eq__ or the field list changes, this file
   stops compiling. *)
From Coq Require Import List ZArith Bool String.
From FIM Require Import Gen.CapsGen Model.Caps Model.Catalog18.
Import ListNotations.
Open Scope Z_scope.

(* Capacities(core=c, ram=r, disk=d) in the regenerated field order *)
Definition embed (x : caps3) : caps :=
  map (fun f => if String.eqb f "core" then core x
                else if String.eqb f "ram" then ram x
                else if String.eqb f "disk" then disk x
                else 0) cap_fields.

Lemma embed_wf x : wfb (embed x) = true.
Proof. reflexivity. Qed.

Lemma embed_covers_three_fields :
  existsb (String.eqb "core") cap_fields && existsb (String.eqb "ram") cap_fields
  && existsb (String.eqb "disk") cap_fields = true.
Proof. vm_compute. reflexivity. Qed.

Theorem clt3_is_capacities_lt : forall a b, clt3 a b = clt (embed a) (embed b).
Proof.
  intros [[c r] d] [[c' r'] d']. unfold clt3, clt, embed, core, ram, disk, lt_reject. cbn -[Z.gtb].
  destruct (c >? c'), (r >? r'), (d >? d'); reflexivity.
Qed.

Theorem ceq3_is_capacities_eq : forall a b, ceq3 a b = ceq (embed a) (embed b).
Proof.
  intros [[c r] d] [[c' r'] d']. unfold ceq3, ceq, embed, core, ram, disk, eq_reject. cbn -[Z.eqb].
  destruct (c =? c'), (r =? r'), (d =? d'); reflexivity.
Qed.

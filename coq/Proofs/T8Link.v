(* C08 proofs, part 14: which LINKS are deleted - the exact characterisation, including links of three or more
   ends.  The code deletes a link inside remove_cp_and_links "when exactly two interfaces connect to it" at the
   moment of that call.  Under WL (no link has two ends inside one port family, i.e. two ends that are next to each
   other or hang on a common connection point) every call takes at most one end of a given link, the test is
   evaluated once per lost end, and the outcome does not depend on the order of the calls:

       a link is deleted  <->  it had at least two ends, lost at least one, and at most one survives.

   When WL fails (a port and its sub-interface, or two sub-interfaces of one port, on the same link of >= 3 ends) the
   ends of one family disappear in ONE call after ONE test, and for a node with several components / services the
   result depends on Python's set iteration order - see link_iff_needs_WL in T8Witness.v. *)
From Coq Require Import List NArith Bool Lia Arith PeanoNat Permutation.
From FIM Require Import Model.T8Graph Model.T8Ops Proofs.T8Frame Proofs.T8Query Proofs.T8Hoare Proofs.T8Sound
     Proofs.T8Complete Proofs.T8Closed Proofs.T8Top Proofs.T8Inv.
Import ListNotations.

Definition surv (D E : list N) : list N := filter (fun e => negb (memN e D)) E.

Definition WL (g : graph) : Prop :=
  forall l e1 e2, class_of g l = CLink -> In e1 (cpn g l) -> In e2 (cpn g l) -> e1 <> e2 ->
    ~ In e1 (cpn g e2) /\ (forall p, class_of g p = CCP -> In e1 (cpn g p) -> In e2 (cpn g p) -> False).

Definition KL (g : graph) (D : list N) : Prop :=
  forall l, class_of g l = CLink ->
    (In l D <-> (2 <= length (cpn g l) /\ length (surv D (cpn g l)) <= 1 /\ exists e, In e (cpn g l) /\ In e D)).

Lemma surv_In D E e : In e (surv D E) <-> In e E /\ ~ In e D.
Proof. unfold surv. rewrite filter_In, negb_true_iff, memN_false. tauto. Qed.

Lemma len_same (a b : list N) : NoDup a -> NoDup b -> (forall x, In x a <-> In x b) -> length a = length b.
Proof. intros Ha Hb H. apply Permutation_length. apply NoDup_Permutation; assumption. Qed.

Lemma surv_NoDup D E : NoDup E -> NoDup (surv D E).
Proof. intros H. unfold surv. apply NoDup_filter. exact H. Qed.

Lemma filter_len_lt {A} (f : A -> bool) (l : list A) :
  length (filter f l) < length l -> exists x, In x l /\ f x = false.
Proof.
  induction l as [|a l IH]; simpl; [lia|]. destruct (f a) eqn:E; simpl; intros H.
  - destruct (IH ltac:(lia)) as [x [Hx Hf]]. exists x. auto.
  - exists a. auto.
Qed.

Lemma filter_len_le {A} (f : A -> bool) (l : list A) : length (filter f l) <= length l.
Proof. induction l as [|a l IH]; simpl; [lia|]. destruct (f a); simpl; lia. Qed.

Section Link.
Variable g0 : graph.
Hypothesis HW : WL g0.

Lemma cpn_NoDup l : NoDup (cpn g0 l).
Proof. apply first_neighbor_NoDup. Qed.

Lemma KL_del D n : KL g0 D -> ~ In n D ->
  class_of g0 n = CNS \/ class_of g0 n = CComp \/ class_of g0 n = CNode -> KL g0 (n :: D).
Proof.
  intros K Hn Hc l Hl.
  assert (Hln : l <> n) by (intros ->; destruct Hc as [H|[H|H]]; congruence).
  assert (HE : forall e, In e (cpn g0 l) -> e <> n).
  { intros e He ->. apply (cpn_class g0 l) in He. destruct Hc as [H|[H|H]]; congruence. }
  assert (HS : surv (n :: D) (cpn g0 l) = surv D (cpn g0 l)).
  { unfold surv. apply filter_ext_in. intros e He. rewrite memN_cons.
    destruct (N.eqb e n) eqn:E; [apply N.eqb_eq in E; exfalso; exact (HE e He E) | reflexivity]. }
  rewrite HS. split.
  - intros [H|H]; [congruence|]. apply (K l Hl) in H. destruct H as [A [B [e [He Hd]]]].
    split; [exact A|]. split; [exact B|]. exists e. split; [exact He | right; exact Hd].
  - intros [A [B [e [He [H|Hd]]]]]; [exfalso; exact (HE e He (eq_sym H))|].
    right. apply (K l Hl). split; [exact A|]. split; [exact B|]. exists e. auto.
Qed.

Lemma fam_facts s n dp i :
  cons g0 s -> class_of g0 n = CCP -> In i (cp_family (fst s) n dp) ->
  class_of g0 i = CCP /\ ~ In i (snd s) /\ (i = n \/ In i (cpn g0 n)) \/ (i = n /\ class_of g0 i = CCP).
Proof.
  intros C Hn Hi. unfold cp_family in Hi. rewrite dedup_In in Hi. destruct Hi as [<-|Hi]; [right; auto|].
  apply filter_In in Hi. destruct Hi as [Hi _]. rewrite C in Hi.
  apply first_neighbor_restrict in Hi; [|discriminate]. destruct Hi as [Hi [_ Hd]].
  left. split; [apply (cpn_class g0 n); exact Hi|]. split; [exact Hd | right; exact Hi].
Qed.

Lemma fam_class s n dp i : cons g0 s -> class_of g0 n = CCP -> In i (cp_family (fst s) n dp) -> class_of g0 i = CCP.
Proof. intros C Hn Hi. destruct (fam_facts s n dp i C Hn Hi) as [[A _]|[_ A]]; exact A. Qed.

Lemma fam_shape s n dp i : cons g0 s -> class_of g0 n = CCP -> In i (cp_family (fst s) n dp) -> i = n \/ In i (cpn g0 n).
Proof. intros C Hn Hi. destruct (fam_facts s n dp i C Hn Hi) as [[_ [_ A]]|[A _]]; auto. Qed.

(* under WL two members of one family that are ends of the same link coincide *)
Lemma fam_one_end s n dp l f1 f2 :
  cons g0 s -> class_of g0 n = CCP -> class_of g0 l = CLink ->
  In f1 (cp_family (fst s) n dp) -> In f2 (cp_family (fst s) n dp) ->
  In f1 (cpn g0 l) -> In f2 (cpn g0 l) -> f1 = f2.
Proof.
  intros C Hn Hl H1 H2 E1 E2. destruct (N.eq_dec f1 f2) as [|Hne]; [assumption|]. exfalso.
  destruct (fam_shape s n dp f1 C Hn H1) as [->|A1]; destruct (fam_shape s n dp f2 C Hn H2) as [->|A2].
  - apply Hne. reflexivity.
  - destruct (HW l f2 n Hl E2 E1 (fun H => Hne (eq_sym H))) as [W _]. exact (W A2).
  - destruct (HW l f1 n Hl E1 E2 Hne) as [W _]. exact (W A1).
  - destruct (HW l f1 f2 Hl E1 E2 Hne) as [_ W]. exact (W n Hn A1 A2).
Qed.

Lemma KL_cp s s' n dp :
  cons g0 s -> KL g0 (snd s) -> class_of g0 n = CCP -> remove_cp_and_links n dp s = (inl tt, s') -> KL g0 (snd s').
Proof.
  intros C K Hn E. destruct (remove_cp_ok g0 n dp s s' C E) as [_ [_ H]].
  set (D := snd s) in *. set (D' := snd s') in *. set (F := cp_family (fst s) n dp).
  assert (Hsub : forall x, In x D -> In x D') by (intros x Hx; apply H; right; exact Hx).
  (* the new elements: members of the family, or links *)
  assert (Hnew : forall x, In x D' -> In x D \/ In x F \/ (class_of g0 x = CLink /\ In x (cp_links (fst s) F))).
  { intros x Hx. apply H in Hx. destruct Hx as [Hx|Hx]; [|left; exact Hx].
    apply cp_del_list_In in Hx. destruct Hx as [Hx|Hx]; [right; left; exact Hx|]. right. right. split; [|exact Hx].
    apply cp_links_In in Hx. destruct Hx as [i [_ [Hx _]]]. rewrite C in Hx.
    apply first_neighbor_restrict in Hx; [|discriminate]. destruct Hx as [Hx _].
    apply first_neighbor_In in Hx. tauto. }
  assert (HF : forall x, In x F -> In x D') by (intros x Hx; apply H; left; apply cp_del_list_In; left; exact Hx).
  intros l Hl. set (E0 := cpn g0 l).
  assert (HEc : forall e, In e E0 -> class_of g0 e = CCP) by (intros e He; apply (cpn_class g0 l); exact He).
  destruct (in_dec N.eq_dec l D) as [HlD|HlD].
  - (* the link was already gone *)
    split; [intros _|intros _; apply Hsub; exact HlD].
    apply (K l Hl) in HlD. destruct HlD as [A [B [e [He Hd]]]].
    split; [exact A|]. split; [|exists e; auto].
    apply (Nat.le_trans _ (length (surv D E0))); [|exact B].
    apply NoDup_incl_length; [apply surv_NoDup; apply cpn_NoDup|].
    intros y Hy. apply surv_In in Hy. apply surv_In. split; [tauto|]. intros Hd'. apply (proj2 Hy). apply Hsub. exact Hd'.
  - (* the link is still there *)
    assert (Hcur : forall y, In y (cpn (fst s) l) <-> In y (surv D E0)).
    { intros y. unfold cpn. rewrite C, first_neighbor_restrict; [|discriminate]. rewrite surv_In. fold (cpn g0 l). tauto. }
    assert (Hclen : length (cpn (fst s) l) = length (surv D E0)).
    { apply len_same; [apply first_neighbor_NoDup | apply surv_NoDup; apply cpn_NoDup | exact Hcur]. }
    destruct (existsb (fun f => memN f E0) F) eqn:EX.
    + (* the family holds an end e of the link *)
      apply existsb_exists in EX. destruct EX as [e [HeF HeE]]. apply memN_In in HeE.
      assert (HeD : ~ In e D).
      { destruct (fam_facts s n dp e C Hn HeF) as [[_ [A _]]|[-> _]]; [exact A|].
        destruct (remove_cp_ok g0 n dp s s' C E) as [_ [A _]]. exact A. }
      assert (Hend : forall y, In y E0 -> (In y D' <-> In y D \/ y = e)).
      { intros y Hy. split.
        - intros Hd'. destruct (Hnew y Hd') as [A|[A|[A _]]]; [left; exact A | | ].
          + right. apply (fam_one_end s n dp l y e C Hn Hl A HeF Hy HeE).
          + rewrite (HEc y Hy) in A. discriminate.
        - intros [A| ->]; [apply Hsub; exact A | apply HF; exact HeF]. }
      assert (Hperm : length (surv D E0) = S (length (surv D' E0))).
      { apply (len_same (surv D E0) (e :: surv D' E0)); [apply surv_NoDup; apply cpn_NoDup | |].
        - constructor; [|apply surv_NoDup; apply cpn_NoDup]. rewrite surv_In. intros [_ A]. apply A. apply HF. exact HeF.
        - intros y. simpl. rewrite !surv_In. split.
          + intros [A B]. destruct (N.eq_dec e y) as [->|Hne]; [left; reflexivity|]. right. split; [exact A|].
            intros Hd'. apply (Hend y A) in Hd'. destruct Hd' as [Hd'| ->]; [exact (B Hd') | apply Hne; reflexivity].
          + intros [<-|[A B]]; [split; assumption|]. split; [exact A|]. intros Hd. apply B. apply Hsub. exact Hd. }
      assert (HlL : In l D' <-> length (cpn (fst s) l) = 2).
      { split.
        - intros Hd'. destruct (Hnew l Hd') as [A|[A|[_ A]]]; [contradiction | |].
          + rewrite (fam_class s n dp l C Hn A) in Hl. discriminate.
          + apply cp_links_In in A. destruct A as [i [_ [_ A]]]. exact A.
        - intros Hlen. apply H. left. apply cp_del_list_In. right. apply cp_links_In. exists e.
          split; [exact HeF|]. split; [|exact Hlen].
          rewrite C. apply first_neighbor_restrict; [discriminate|]. split; [|auto].
          apply (first_neighbor_sym g0 l e RConnects CCP CLink); [exact HeE | exact Hl]. }
      rewrite HlL, Hclen.
      assert (HeS : In e (surv D E0)) by (apply surv_In; auto).
      assert (Hlen1 : 1 <= length (surv D E0)) by (destruct (surv D E0); [destruct HeS | simpl; lia]).
      assert (HlenE : length (surv D E0) <= length E0) by (apply filter_len_le).
      split.
      * intros Hc2. split; [lia|]. split; [lia|]. exists e. split; [exact HeE | apply HF; exact HeF].
      * intros [A [B _]]. destruct (Nat.eq_dec (length (surv D E0)) 2) as [|Hne]; [assumption|]. exfalso.
        assert (Hc1 : length (surv D E0) = 1) by lia.
        apply HlD. apply (K l Hl). fold E0. split; [exact A|]. split; [lia|].
        destruct (filter_len_lt (fun e0 => negb (memN e0 D)) E0) as [x [Hx Hf]]; [fold (surv D E0); lia|].
        exists x. split; [exact Hx|]. apply memN_In. apply negb_false_iff. exact Hf.
    + (* no member of the family is an end of the link: nothing changes for it *)
      assert (HFE : forall f, In f F -> ~ In f E0).
      { intros f Hf He. assert (A : existsb (fun f => memN f E0) F = true).
        { apply existsb_exists. exists f. split; [exact Hf | apply memN_In; exact He]. } congruence. }
      assert (Hend : forall y, In y E0 -> (In y D' <-> In y D)).
      { intros y Hy. split; [|apply Hsub]. intros Hd'. destruct (Hnew y Hd') as [A|[A|[A _]]]; [exact A | | ].
        - exfalso. exact (HFE y A Hy).
        - rewrite (HEc y Hy) in A. discriminate. }
      assert (HlD' : ~ In l D').
      { intros Hd'. destruct (Hnew l Hd') as [A|[A|[_ A]]]; [contradiction | |].
        - rewrite (fam_class s n dp l C Hn A) in Hl. discriminate.
        - apply cp_links_In in A. destruct A as [i [Hi [A _]]]. rewrite C in A.
          apply first_neighbor_restrict in A; [|discriminate]. destruct A as [A _].
          apply (HFE i Hi). apply (first_neighbor_sym g0 i l RConnects CLink CCP); [exact A|].
          apply (fam_class s n dp i C Hn Hi). }
      assert (HS : length (surv D' E0) = length (surv D E0)).
      { apply len_same; [apply surv_NoDup; apply cpn_NoDup | apply surv_NoDup; apply cpn_NoDup|].
        intros y. rewrite !surv_In. split; intros [A B]; split; try assumption; rewrite <- (Hend y A) || rewrite (Hend y A); exact B. }
      rewrite HS. split; [intros A; contradiction|]. intros [A [B [e [He Hd']]]]. exfalso.
      apply HlD. apply (K l Hl). fold E0. split; [exact A|]. split; [exact B|]. exists e. split; [exact He|].
      apply (Hend e He). exact Hd'.
Qed.

End Link.

Lemma KL_nil g : KL g [].
Proof.
  intros l Hl. split; [intros []|]. intros [_ [_ [e [_ []]]]].
Qed.

(* THE LINK EQUATION: for every operation except remove_link (and the legacy path-based unpeer), on normal return,
   under WL: a link is among the deleted ids iff it had at least two ends, lost at least one of them, and at most
   one of them survives.  In particular a link of >= 3 ends that keeps >= 2 of them survives, one that keeps <= 1
   goes, and a link of one end stays (without its end). *)
Theorem link_deleted_iff ex o cs g r g' tr :
  WL g -> liftable o = true -> run (exec ex o cs) g = (inl r, (g', tr)) ->
  forall l, class_of g l = CLink ->
    (In l tr <-> (2 <= length (cpn g l) /\ length (surv tr (cpn g l)) <= 1 /\ exists e, In e (cpn g l) /\ In e tr)).
Proof.
  intros HW Hl E.
  exact (lift_exec g (KL g) (KL_del g) (KL_cp g HW) (KL_nil g) ex o cs r g' tr Hl E).
Qed.

(* ---- a decidable version of WL, for concrete graphs ---- *)
Definition wlb (g : graph) : bool :=
  forallb (fun x =>
    if cls_eqb (class_of g (nid x)) CLink
    then forallb (fun e1 => forallb (fun e2 =>
           N.eqb e1 e2 ||
           (negb (memN e1 (cpn g e2)) &&
            forallb (fun p => negb (cls_eqb (class_of g p) CCP && memN e1 (cpn g p) && memN e2 (cpn g p)))
                    (map fst (nbrs g e1))))
           (cpn g (nid x))) (cpn g (nid x))
    else true) (gnodes g).

Lemma wlb_sound g : wlb g = true -> WL g.
Proof.
  intros H l e1 e2 Hl H1 H2 Hne. unfold wlb in H. rewrite forallb_forall in H.
  assert (Hx : exists x, In x (gnodes g) /\ nid x = l).
  { unfold class_of in Hl. destruct (find_node g l) as [x|] eqn:F; [|discriminate].
    unfold find_node in F. apply find_some in F. destruct F as [A B]. apply N.eqb_eq in B. exists x. auto. }
  destruct Hx as [x [Hx <-]]. specialize (H x Hx). rewrite Hl in H. simpl in H.
  rewrite forallb_forall in H. specialize (H e1 H1). rewrite forallb_forall in H. specialize (H e2 H2).
  apply orb_true_iff in H. destruct H as [H|H]; [apply N.eqb_eq in H; contradiction|].
  apply andb_true_iff in H. destruct H as [A B]. split.
  - apply negb_true_iff in A. apply memN_false. exact A.
  - intros p Pc P1 P2. rewrite forallb_forall in B.
    assert (Hp : In p (map fst (nbrs g e1))).
    { unfold cpn in P1. apply first_neighbor_In in P1. destruct P1 as [P1 _]. apply nbrs_sym in P1.
      apply in_map_iff. exists (p, RConnects). auto. }
    specialize (B p Hp). apply negb_true_iff in B. rewrite Pc in B. simpl in B. apply andb_false_iff in B.
    destruct B as [B|B]; apply memN_false in B; contradiction.
Qed.

(* C08 proofs, part 4: "and nothing else".  For every operation, every graph and every outcome, each
   deleted id belongs to a set described on the INITIAL graph only: the addressed element, what hangs
   below it by containment, the connection points next to a removed connection point, the links
   attached to those, and (API level) the connection points peering with an interface of the element
   across a link.  No other element can be deleted. *)
From Coq Require Import List NArith Bool Lia.
From FIM Require Import Model.T8Graph Model.T8Ops Proofs.T8Frame Proofs.T8Query Proofs.T8Hoare.
Import ListNotations.

Definition cpn (g : graph) (i : N) : list N := first_neighbor g i RConnects CCP.
Definition lks (g : graph) (i : N) : list N := first_neighbor g i RConnects CLink.

(* the family remove_cp_and_links may delete with n: n, and (when parents may go) the CPs next to n *)
Definition fam (g : graph) (n : N) (dp : bool) (i : N) : Prop := i = n \/ (dp = true /\ In i (cpn g n)).
Definition U_cp (g : graph) (n : N) (dp : bool) (x : N) : Prop :=
  fam g n dp x \/ exists i, fam g n dp i /\ In x (lks g i).
Definition U_ns (g : graph) (s : N) (x : N) : Prop :=
  x = s \/ exists i, In i (cpn g s) /\ U_cp g i true x.
Definition U_comp (g : graph) (c : N) (x : N) : Prop :=
  x = c \/ exists s, In s (first_neighbor g c RHas CNS) /\ U_ns g s x.
Definition U_node (g : graph) (n : N) (x : N) : Prop :=
  x = n \/ (exists c, In c (first_neighbor g n RHas CComp) /\ U_comp g c x)
        \/ (exists s, In s (first_neighbor g n RHas CNS) /\ U_ns g s x).
(* disconnecting interface i: a ServicePort across one of its links, with its family and links *)
Definition U_disc (g : graph) (i : N) (x : N) : Prop :=
  exists p, In p (peer_cps g i) /\ type_of g p = T_ServicePort /\ U_cp g p true x.
Definition A_node (g : graph) (nm : N) (x : N) : Prop :=
  exists n, In n (by_name g CNode nm) /\
            (U_node g n x \/ exists i, In i (disc_list g (node_interface_list g n)) /\ U_disc g i x).
(* removing service s through the API: what hangs below it, and what disconnecting its ports may delete *)
Definition A_ns (g : graph) (s : N) (x : N) : Prop :=
  U_ns g s x \/ exists i, In i (disc_list g (cpn g s)) /\ U_disc g i x.
Definition A_comp (g : graph) (n cname : N) (x : N) : Prop :=
  exists c, In c (first_neighbor g n RHas CComp) /\ name_of g c = cname /\
            (U_comp g c x \/ exists i, In i (disc_list g (comp_interface_list g c)) /\ U_disc g i x).

Section Sound.
Variable g0 : graph.

Ltac ne := discriminate.

Lemma fn_mono d x r c y : c <> COther ->
  In y (first_neighbor (restrict g0 d) x r c) -> In y (first_neighbor g0 x r c).
Proof. intros Hc H. apply first_neighbor_restrict in H; [tauto | exact Hc]. Qed.

Lemma fn_mono' d x r c y : c <> COther ->
  In y (first_neighbor (restrict g0 d) x r c) -> In y (first_neighbor g0 x r c) /\ ~ In y d.
Proof. intros Hc H. apply first_neighbor_restrict in H; [tauto | exact Hc]. Qed.

Lemma cp_family_sound d n dp i : In i (cp_family (restrict g0 d) n dp) -> fam g0 n dp i.
Proof.
  unfold cp_family. rewrite dedup_In. intros [<-|H]; [left; reflexivity|].
  apply filter_In in H. destruct H as [H1 H2]. apply andb_true_iff in H2. destruct H2 as [_ H2].
  right. split; [exact H2|]. apply (fn_mono d); [ne | exact H1].
Qed.

Lemma cp_del_list_sound d n dp x : In x (cp_del_list (restrict g0 d) n dp) -> U_cp g0 n dp x.
Proof.
  unfold cp_del_list. rewrite dedup_In, in_app_iff. intros [H|H].
  - left. apply (cp_family_sound d). exact H.
  - right. unfold cp_links in H. rewrite dedup_In, in_flat_map in H. destruct H as [i [Hi H]].
    apply filter_In in H. destruct H as [H _]. exists i. split; [apply (cp_family_sound d); exact Hi|].
    apply (fn_mono d); [ne | exact H].
Qed.

Lemma Sound_remove_cp n dp : Sound g0 (U_cp g0 n dp) (remove_cp_and_links n dp).
Proof.
  unfold remove_cp_and_links.
  apply Sound_bind'; [apply Inv_read | apply Sound_read | intros _].
  apply Sound_bind'; [apply Inv_need_node | apply Sound_read | intros _].
  apply Sound_bind_get. intros d. apply Sound_for_each_set. intros x Hx.
  split; [apply Inv_delete | apply Sound_delete]. apply (cp_del_list_sound d). exact Hx.
Qed.

Lemma Sound_need_class P n c : Sound g0 P (need_class n c).
Proof.
  unfold need_class. apply Sound_bind'; [apply Inv_need_node | apply Sound_read | intros x; apply Sound_guard].
Qed.

Lemma Sound_remove_ns s : Sound g0 (U_ns g0 s) (remove_ns s).
Proof.
  unfold remove_ns.
  apply Sound_bind'; [apply Inv_need_class | apply Sound_need_class | intros _].
  apply Sound_bind_get. intros d.
  apply Sound_bind'; [apply Inv_delete | apply Sound_delete; left; reflexivity | intros _].
  apply Sound_for_each_set. intros i Hi. split; [apply Inv_remove_cp|].
  apply (Sound_weaken g0 (U_cp g0 i true)); [|apply Sound_remove_cp].
  intros x Hx. right. exists i. split; [|exact Hx]. apply (fn_mono d); [ne | exact Hi].
Qed.

Lemma Sound_remove_component c : Sound g0 (U_comp g0 c) (remove_component c).
Proof.
  unfold remove_component.
  apply Sound_bind'; [apply Inv_need_class | apply Sound_need_class | intros _].
  apply Sound_bind_get. intros d.
  apply Sound_bind'; [apply Inv_delete | apply Sound_delete; left; reflexivity | intros _].
  apply Sound_for_each_set. intros s Hs. split; [apply Inv_remove_ns|].
  apply (Sound_weaken g0 (U_ns g0 s)); [|apply Sound_remove_ns].
  intros x Hx. right. exists s. split; [|exact Hx]. apply (fn_mono d); [ne | exact Hs].
Qed.

Lemma Sound_remove_node_graph n : Sound g0 (U_node g0 n) (remove_node_graph n).
Proof.
  unfold remove_node_graph.
  apply Sound_bind'; [apply Inv_need_class | apply Sound_need_class | intros _].
  apply Sound_bind_get. intros d.
  apply Sound_bind'.
  - apply Inv_for_each_set. intros c. apply Inv_remove_component.
  - apply Sound_for_each_set. intros c Hc. split; [apply Inv_remove_component|].
    apply (Sound_weaken g0 (U_comp g0 c)); [|apply Sound_remove_component].
    intros x Hx. right. left. exists c. split; [|exact Hx]. apply (fn_mono d); [ne | exact Hc].
  - intros _. apply Sound_bind_get. intros d'.
    apply Sound_bind'; [apply Inv_delete | apply Sound_delete; left; reflexivity | intros _].
    apply Sound_for_each_set. intros s Hs. split; [apply Inv_remove_ns|].
    apply (Sound_weaken g0 (U_ns g0 s)); [|apply Sound_remove_ns].
    intros x Hx. right. right. exists s. split; [|exact Hx]. apply (fn_mono d'); [ne | exact Hs].
Qed.

(* ---- API level ---- *)
Lemma peer_cps_mono d i p : In p (peer_cps (restrict g0 d) i) -> In p (peer_cps g0 i).
Proof.
  unfold peer_cps. rewrite !in_flat_map. intros [l [Hl Hp]].
  exists l. split; [apply (fn_mono d); [ne | exact Hl]|].
  apply removeN_In in Hp. destruct Hp as [Hp Hne]. apply removeN_In. split; [|exact Hne].
  apply nbrs_cls_restrict in Hp; [tauto | ne].
Qed.

Lemma owner_cps_mono d p i : In i (owner_cps (restrict g0 d) p) -> In i (owner_cps g0 p).
Proof.
  unfold owner_cps. rewrite !in_flat_map. intros [s [Hs Hi]].
  exists s. split; [apply (fn_mono d); [ne | exact Hs]|].
  apply removeN_In in Hi. destruct Hi as [Hi Hne]. apply removeN_In. split; [|exact Hne].
  apply nbrs_cls_restrict in Hi; [tauto | ne].
Qed.

Lemma node_interface_list_mono d n i :
  In i (node_interface_list (restrict g0 d) n) -> In i (node_interface_list g0 n).
Proof.
  unfold node_interface_list, comp_interface_list. rewrite !in_app_iff, !in_flat_map. intros [H|[c [Hc H]]].
  - left. apply (owner_cps_mono d). exact H.
  - right. exists c. split; [apply (fn_mono d); [ne | exact Hc] | apply (owner_cps_mono d); exact H].
Qed.

Lemma type_of_restrict_eq d x t : type_of (restrict g0 d) x = t -> t <> 0%N -> type_of g0 x = t /\ ~ In x d.
Proof.
  unfold type_of. rewrite find_node_restrict. destruct (memN x d) eqn:E.
  - intros <- H. exfalso. apply H. reflexivity.
  - intros H _. split; [exact H | apply memN_false; exact E].
Qed.

Lemma get_peers_typed_In g i t l x :
  get_peers_typed g i t = Some l -> In x l -> In x (peer_cps g i) /\ type_of g x = t.
Proof.
  unfold get_peers_typed, get_peers. remember (peer_cps g i) as pc eqn:E. destruct pc as [|a r]; [discriminate|].
  intros H Hx.
  assert (Hl : l = filter (fun p : N => N.eqb (type_of g p) t) (a :: r)) by congruence.
  rewrite Hl in Hx. apply filter_In in Hx. destruct Hx as [Hx Ht]. apply N.eqb_eq in Ht. auto.
Qed.

Lemma Sound_disconnect_interface i : Sound g0 (U_disc g0 i) (disconnect_interface i).
Proof.
  unfold disconnect_interface.
  apply Sound_bind'; [apply Inv_need_node | apply Sound_read | intros _].
  apply Sound_bind_get. intros d.
  destruct (get_peers_typed (restrict g0 d) i T_ServicePort) as [[|x [|y r]]|] eqn:E;
    try apply Sound_ret; try apply Sound_fail.
  apply Sound_bind'; [apply Inv_remove_cp | | intros _; apply Sound_ret].
  apply (Sound_weaken g0 (U_cp g0 x true)); [|apply Sound_remove_cp].
  destruct (get_peers_typed_In _ _ _ _ x E (or_introl eq_refl)) as [Hp Ht].
  destruct (type_of_restrict_eq d x _ Ht ltac:(discriminate)) as [Ht0 _].
  intros z Hz. exists x. split; [apply (peer_cps_mono d); exact Hp | split; [exact Ht0 | exact Hz]].
Qed.

Lemma Sound_disconnect_peers_of i : Sound g0 (U_disc g0 i) (disconnect_peers_of i).
Proof.
  unfold disconnect_peers_of.
  apply Sound_bind'; [apply Inv_need_node | apply Sound_read | intros _].
  apply Sound_bind'; [apply Inv_get | apply Sound_get | intros p].
  destruct p as [[|x [|y r]]|]; try apply Sound_ret; try apply Sound_fail.
  apply Sound_bind'; [apply Inv_get | apply Sound_get | intros par].
  destruct par as [|s [|s' r']]; try apply Sound_fail.
  apply Sound_bind'; [apply Inv_disconnect_interface | apply Sound_disconnect_interface | intros _; apply Sound_ret].
Qed.

Lemma Sound_disconnect_step i : Sound g0 (U_disc g0 i) (disconnect_step i).
Proof.
  unfold disconnect_step. apply Sound_bind'; [apply Inv_get | apply Sound_get | intros b].
  destruct b; [apply Sound_disconnect_peers_of | apply Sound_ret].
Qed.


Lemma disc_list_mono d (l : list N) ii :
  (forall i, In i l -> True) ->
  In ii (disc_list (restrict g0 d) l) -> In ii (disc_list g0 l).
Proof.
  intros _. unfold disc_list. rewrite !in_flat_map. intros [i [Hi H]]. exists i. split; [exact Hi|].
  unfold with_children in *. destruct H as [<-|H]; [left; reflexivity|]. right.
  destruct (N.eqb (type_of (restrict g0 d) i) T_DedicatedPort) eqn:E; [|destruct H].
  apply N.eqb_eq in E. destruct (type_of_restrict_eq d i _ E ltac:(discriminate)) as [E0 _].
  rewrite E0. simpl. apply (fn_mono d); [discriminate | exact H].
Qed.

Lemma disc_list_sub (g : graph) (l l' : list N) ii :
  (forall i, In i l -> In i l') -> In ii (disc_list g l) -> In ii (disc_list g l').
Proof.
  intros H. unfold disc_list. rewrite !in_flat_map. intros [i [Hi Hx]]. exists i. auto.
Qed.

Lemma Sound_get_uniq {B} P (q : graph -> list N) e1 e2 (f : N -> M B) :
  (forall d n, q (restrict g0 d) = [n] -> Sound g0 P (f n)) ->
  Sound g0 P (bind (m_get q) (fun x => bind (uniq x e1 e2) f)).
Proof.
  intros H. apply Sound_bind_get. intros d.
  destruct (q (restrict g0 d)) as [|a [|b r]] eqn:E; simpl.
  - intros s Hs y Hy. left. exact Hy.
  - intros s Hs y Hy. unfold bind, ret in Hy. simpl in Hy. exact (H d a E s Hs y Hy).
  - intros s Hs y Hy. left. exact Hy.
Qed.

Lemma topo_nodes_sub d nm n : In n (topo_nodes (restrict g0 d) nm) -> In n (by_name g0 CNode nm).
Proof.
  unfold topo_nodes. intros H. apply filter_In in H. destruct H as [H _].
  apply by_name_restrict in H. tauto.
Qed.

Lemma by_name_sub d c nm n : In n (by_name (restrict g0 d) c nm) -> In n (by_name g0 c nm).
Proof. intros H. apply by_name_restrict in H. tauto. Qed.

Lemma Sound_peers_loop (P : N -> Prop) (q : N -> Prop) l :
  (forall i, In i l -> q i) -> (forall i x, q i -> U_disc g0 i x -> P x) ->
  Sound g0 P (for_each_set disconnect_step l).
Proof.
  intros Hl HP. apply Sound_for_each_set. intros i Hi. split; [apply Inv_disconnect_step|].
  apply (Sound_weaken g0 (U_disc g0 i)); [|apply Sound_disconnect_step].
  intros x Hx. apply (HP i x); [apply Hl; exact Hi | exact Hx].
Qed.

Lemma Sound_node_tail nm n :
  In n (by_name g0 CNode nm) ->
  Sound g0 (A_node g0 nm)
    (bind (m_get (fun g => disc_list g (node_interface_list g n))) (fun ifs =>
     bind (for_each_set disconnect_step ifs) (fun _ =>
     bind (m_get (fun g => by_name g CNode nm)) (fun all =>
     bind (uniq all EQuery EQuery) (fun n' => remove_node_graph n'))))).
Proof.
  intros Hn. apply Sound_bind_get. intros d1.
  apply Sound_bind'.
  - apply Inv_for_each_set. intros i. apply Inv_disconnect_step.
  - apply (Sound_peers_loop _ (fun i => In i (disc_list g0 (node_interface_list g0 n)))).
    + intros i Hi. apply (disc_list_sub g0 (node_interface_list (restrict g0 d1) n)); [apply (node_interface_list_mono d1)|].
      apply (disc_list_mono d1); [auto | exact Hi].
    + intros i x Hi Hx. exists n. split; [exact Hn|]. right. exists i. auto.
  - intros _. apply Sound_get_uniq. intros d2 n' E'.
    assert (Hn' : In n' (by_name g0 CNode nm)) by (apply (by_name_sub d2); rewrite E'; left; reflexivity).
    apply (Sound_weaken g0 (U_node g0 n')); [|apply Sound_remove_node_graph].
    intros x Hx. exists n'. split; [exact Hn' | left; exact Hx].
Qed.

Lemma Sound_api_remove_node nm : Sound g0 (A_node g0 nm) (api_remove_node nm).
Proof.
  unfold api_remove_node. apply Sound_get_uniq. intros d n E.
  apply Sound_node_tail. apply (topo_nodes_sub d). rewrite E. left. reflexivity.
Qed.

Lemma Sound_api_remove_facility nm : Sound g0 (A_node g0 nm) (api_remove_facility nm).
Proof.
  unfold api_remove_facility. apply Sound_get_uniq. intros d n E.
  apply Sound_bind'; [apply Inv_get | apply Sound_get | intros t].
  apply Sound_bind'; [apply Inv_guard | apply Sound_guard | intros _].
  apply Sound_node_tail. apply (by_name_sub d). rewrite E. left. reflexivity.
Qed.

Lemma Sound_api_remove_switch nm : Sound g0 (A_node g0 nm) (api_remove_switch nm).
Proof.
  unfold api_remove_switch. apply Sound_get_uniq. intros d n E.
  apply Sound_bind'; [apply Inv_get | apply Sound_get | intros t].
  apply Sound_bind'; [apply Inv_guard | apply Sound_guard | intros _].
  apply Sound_api_remove_node.
Qed.

Lemma Sound_api_remove_link nm : Sound g0 (fun x => In x (by_name g0 CLink nm)) (api_remove_link nm).
Proof.
  unfold api_remove_link. apply Sound_get_uniq. intros d n E.
  apply Sound_bind'; [apply Inv_get | apply Sound_get | intros sp].
  apply Sound_bind'; [apply Inv_guard | apply Sound_guard | intros _].
  unfold remove_link_graph.
  apply Sound_bind'; [apply Inv_need_class | apply Sound_need_class | intros _].
  apply Sound_delete. apply (by_name_sub d). rewrite E. left. reflexivity.
Qed.

Lemma Sound_remove_ns_disconnecting s : Sound g0 (A_ns g0 s) (remove_ns_disconnecting s).
Proof.
  unfold remove_ns_disconnecting. apply Sound_bind_get. intros d.
  apply Sound_bind'.
  - apply Inv_for_each_set. intros i. apply Inv_disconnect_step.
  - apply (Sound_peers_loop _ (fun i => In i (disc_list g0 (cpn g0 s)))).
    + intros i Hi. apply (disc_list_sub g0 (first_neighbor (restrict g0 d) s RConnects CCP)).
      * intros y Hy. apply (fn_mono d); [discriminate | exact Hy].
      * apply (disc_list_mono d); [auto | exact Hi].
    + intros i x Hi Hx. right. exists i. auto.
  - intros _. apply (Sound_weaken g0 (U_ns g0 s)); [|apply Sound_remove_ns]. intros x Hx. left. exact Hx.
Qed.

Lemma Sound_api_remove_ns_topo nm :
  Sound g0 (fun x => exists s, In s (by_name g0 CNS nm) /\ A_ns g0 s x) (api_remove_ns_topo nm).
Proof.
  unfold api_remove_ns_topo. apply Sound_get_uniq. intros d n E.
  apply (Sound_weaken g0 (A_ns g0 n)); [|apply Sound_remove_ns_disconnecting].
  intros x Hx. exists n. split; [|exact Hx]. apply (by_name_sub d). rewrite E. left. reflexivity.
Qed.

Lemma child_by_name_sub d (cands : list N) nm c :
  (forall y, In y cands -> ~ In y d) ->
  In c (child_by_name (restrict g0 d) cands nm) -> In c cands /\ name_of g0 c = nm.
Proof.
  intros Hd H. unfold child_by_name in H. apply filter_In in H. destruct H as [H1 H2].
  split; [exact H1|]. apply N.eqb_eq in H2. rewrite name_of_restrict in H2; [exact H2|].
  apply memN_false. apply Hd. exact H1.
Qed.

Lemma Sound_api_remove_component n cname : Sound g0 (A_comp g0 n cname) (api_remove_component n cname).
Proof.
  unfold api_remove_component.
  apply Sound_bind'; [apply Inv_need_class | apply Sound_need_class | intros _].
  apply Sound_get_uniq. intros d c E.
  assert (Hc : In c (first_neighbor g0 n RHas CComp) /\ name_of g0 c = cname).
  { destruct (child_by_name_sub d (first_neighbor (restrict g0 d) n RHas CComp) cname c) as [A B].
    - intros y Hy. apply fn_mono' in Hy; [tauto | discriminate].
    - rewrite E. left. reflexivity.
    - split; [apply (fn_mono d); [discriminate | exact A] | exact B]. }
  destruct Hc as [Hc1 Hc2].
  apply Sound_bind_get. intros d1.
  apply Sound_bind'.
  - apply Inv_for_each_set. intros i. apply Inv_disconnect_step.
  - apply (Sound_peers_loop _ (fun i => In i (disc_list g0 (comp_interface_list g0 c)))).
    + intros i Hi. apply (disc_list_sub g0 (comp_interface_list (restrict g0 d1) c)); [apply (owner_cps_mono d1)|].
      apply (disc_list_mono d1); [auto | exact Hi].
    + intros i x Hi Hx. exists c. split; [exact Hc1|]. split; [exact Hc2|]. right. exists i. auto.
  - intros _. apply (Sound_weaken g0 (U_comp g0 c)); [|apply Sound_remove_component].
    intros x Hx. exists c. split; [exact Hc1|]. split; [exact Hc2|]. left. exact Hx.
Qed.

Lemma Sound_api_node_remove_ns n sname :
  Sound g0 (fun x => exists s, In s (first_neighbor g0 n RHas CNS) /\ name_of g0 s = sname /\ A_ns g0 s x)
        (api_node_remove_ns n sname).
Proof.
  unfold api_node_remove_ns.
  apply Sound_bind'; [apply Inv_need_node | apply Sound_read | intros x0].
  apply Sound_bind'; [apply Inv_guard | apply Sound_guard | intros _].
  apply Sound_get_uniq. intros d s E.
  destruct (child_by_name_sub d (first_neighbor (restrict g0 d) n RHas CNS) sname s) as [A B].
  - intros y Hy. apply fn_mono' in Hy; [tauto | discriminate].
  - rewrite E. left. reflexivity.
  - apply (Sound_weaken g0 (A_ns g0 s)); [|apply Sound_remove_ns_disconnecting].
    intros x Hx. exists s. split; [apply (fn_mono d); [discriminate | exact A]|]. split; [exact B | exact Hx].
Qed.

Lemma Sound_api_disconnect i c : Sound g0 (U_disc g0 i) (api_disconnect i c).
Proof.
  unfold api_disconnect.
  apply Sound_bind'; [apply Inv_disconnect_interface | apply Sound_disconnect_interface | intros r].
  destruct r; apply Sound_ret.
Qed.

Lemma Sound_api_remove_interface ex s iname c :
  Sound g0 (fun x => exists i, In i (cpn g0 s) /\ name_of g0 i = iname /\ U_cp g0 i true x)
        (api_remove_interface ex s iname c).
Proof.
  unfold api_remove_interface.
  apply Sound_bind'; [apply Inv_guard | apply Sound_guard | intros _].
  apply Sound_bind'; [apply Inv_need_node | apply Sound_read | intros x0].
  apply Sound_bind'; [apply Inv_guard | apply Sound_guard | intros _].
  apply Sound_get_uniq. intros d i E.
  destruct (child_by_name_sub d (first_neighbor (restrict g0 d) s RConnects CCP) iname i) as [A B].
  - intros y Hy. apply fn_mono' in Hy; [tauto | discriminate].
  - rewrite E. left. reflexivity.
  - apply Sound_bind'; [apply Inv_remove_cp | | intros _; apply Sound_ret].
    apply (Sound_weaken g0 (U_cp g0 i true)); [|apply Sound_remove_cp].
    intros x Hx. exists i. split; [apply (fn_mono d); [discriminate | exact A]|]. split; [exact B | exact Hx].
Qed.

Lemma Sound_api_remove_child p iname c :
  Sound g0 (fun x => exists i, In i (cpn g0 p) /\ name_of g0 i = iname /\ (U_cp g0 i false x \/ U_disc g0 i x))
        (api_remove_child p iname c).
Proof.
  unfold api_remove_child.
  apply Sound_bind'; [apply Inv_need_node | apply Sound_read | intros x0].
  apply Sound_bind'; [apply Inv_guard | apply Sound_guard | intros _].
  apply Sound_bind'; [apply Inv_guard | apply Sound_guard | intros _].
  apply Sound_get_uniq. intros d i E.
  destruct (child_by_name_sub d (first_neighbor (restrict g0 d) p RConnects CCP) iname i) as [A B].
  - intros y Hy. apply fn_mono' in Hy; [tauto | discriminate].
  - rewrite E. left. reflexivity.
  - assert (Hi : In i (cpn g0 p)) by (apply (fn_mono d); [discriminate | exact A]).
    apply Sound_bind'; [apply Inv_disconnect_peers_of | | intros _].
    + apply (Sound_weaken g0 (U_disc g0 i)); [|apply Sound_disconnect_peers_of].
      intros x Hx. exists i. auto.
    + apply Sound_bind'; [apply Inv_remove_cp | | intros _; apply Sound_ret].
      apply (Sound_weaken g0 (U_cp g0 i false)); [|apply Sound_remove_cp].
      intros x Hx. exists i. auto.
Qed.

Lemma Sound_api_unpeer_with xy ca cb :
  Sound g0 (fun x => U_cp g0 (fst xy) true x \/ U_cp g0 (snd xy) true x) (api_unpeer_with xy ca cb).
Proof.
  unfold api_unpeer_with.
  apply Sound_bind'; [apply Inv_remove_cp | | intros _].
  - apply (Sound_weaken g0 (U_cp g0 (fst xy) true)); [tauto | apply Sound_remove_cp].
  - apply Sound_bind'; [apply Inv_remove_cp | | intros _; apply Sound_ret].
    apply (Sound_weaken g0 (U_cp g0 (snd xy) true)); [tauto | apply Sound_remove_cp].
Qed.

Lemma Sound_api_unpeer_checked xy ca cb :
  Sound g0 (fun x => U_cp g0 (fst xy) true x \/ U_cp g0 (snd xy) true x) (api_unpeer_checked xy ca cb).
Proof.
  unfold api_unpeer_checked.
  apply Sound_bind'; [apply Inv_get | apply Sound_get | intros ok].
  apply Sound_bind'; [apply Inv_guard | apply Sound_guard | intros _]. apply Sound_api_unpeer_with.
Qed.

End Sound.

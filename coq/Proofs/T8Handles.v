(* C08 proofs, part 9: two-ended links for every operation; handle caches vs a fresh look-up. *)
From Coq Require Import List NArith Bool Lia Arith PeanoNat.
From FIM Require Import Model.T8Graph Model.T8Ops Proofs.T8Frame Proofs.T8Query Proofs.T8Hoare Proofs.T8Sound
     Proofs.T8Complete Proofs.T8Closed Proofs.T8Top Proofs.T8Inv.
Import ListNotations.

Lemma J1_init g : J1 g (g, []).
Proof. split; [apply cons_init | intros l i j _ []]. Qed.

Lemma LI_del g D n : LI g D -> ~ In n D ->
  class_of g n = CNS \/ class_of g n = CComp \/ class_of g n = CNode -> LI g (n :: D).
Proof.
  intros H _ Hc l i j Hl [<-|Hi]; [|right; apply (H l i j Hl Hi)].
  exfalso. destruct Hl as [_ [_ Hm]]. assert (class_of g n = CCP) by (apply (cpn_class g l); apply Hm; auto).
  destruct Hc as [A|[A|A]]; congruence.
Qed.

Lemma LI_cp g s s' n dp : cons g s -> LI g (snd s) -> class_of g n = CCP ->
  remove_cp_and_links n dp s = (inl tt, s') -> LI g (snd s').
Proof. intros C L _ E. destruct (remove_cp_LI g n dp s s' (conj C L) E) as [_ H]. exact H. Qed.

Theorem links2_exec ex o cs g r g' tr :
  run (exec ex o cs) g = (inl r, (g', tr)) -> LI g tr.
Proof.
  intros E. destruct (closing o) eqn:Hc.
  - destruct (closed_exec ex o cs g r g' tr Hc E) as [H _]. exact H.
  - unfold run in E. destruct o; simpl in Hc; try discriminate; simpl in E.
    + (* unpeer *)
      apply bind_ok in E. destruct E as [cc [s1 [E E2]]]. apply ret_ok in E2. destruct E2 as [_ E2]. subst s1.
      unfold api_unpeer in E.
      apply bind_ok in E. destruct E as [x0 [s1 [E1 E]]]. apply need_node_ok in E1. destruct E1 as [_ ->].
      apply bind_ok in E. destruct E as [x1 [s1 [E1 E]]]. apply need_node_ok in E1. destruct E1 as [_ ->].
      apply bind_ok in E. destruct E as [e [s1 [E1 E]]]. apply get_ok in E1. destruct E1 as [-> ->].
      simpl in E. destruct (unpeer_ends g a b) as [[|xy [|xy' l]]|]; try discriminate;
        [| apply bind_ok in E; destruct E as [b0 [s1 [_ E]]]; destruct b0; discriminate].
      unfold api_unpeer_checked in E.
      apply bind_ok in E. destruct E as [okb [s1 [E1 E]]]. apply get_ok in E1. destruct E1 as [-> ->].
      apply bind_ok in E. destruct E as [[] [s1 [E1 E]]]. apply guard_ok in E1. destruct E1 as [_ ->].
      unfold api_unpeer_with in E.
      apply bind_ok in E. destruct E as [[] [s1 [E1 E]]].
      apply bind_ok in E. destruct E as [[] [s2 [E2 E]]]. apply ret_ok in E. destruct E as [_ E]. rewrite <- E in *.
      pose proof (remove_cp_LI g _ _ _ _ (J1_init g) E1) as H1.
      destruct (remove_cp_LI g _ _ _ _ H1 E2) as [_ H2]. exact H2.
    + (* remove_child_interface *)
      apply bind_ok in E. destruct E as [c [s1 [E E2]]]. apply ret_ok in E2. destruct E2 as [_ E2]. subst s1.
      unfold api_remove_child in E.
      apply bind_ok in E. destruct E as [x0 [s1 [E1 E]]]. apply need_node_ok in E1. destruct E1 as [_ ->].
      apply bind_ok in E. destruct E as [[] [s1 [E1 E]]]. apply guard_ok in E1. destruct E1 as [_ ->].
      apply bind_ok in E. destruct E as [[] [s1 [E1 E]]]. apply guard_ok in E1. destruct E1 as [_ ->].
      apply bind_ok in E. destruct E as [is_ [s1 [E1 E]]]. apply get_ok in E1. destruct E1 as [-> ->].
      apply bind_ok in E. destruct E as [i [s1 [E1 E]]]. apply uniq_ok in E1. destruct E1 as [_ ->].
      apply bind_ok in E. destruct E as [[] [s1 [E0 E]]].
      apply bind_ok in E. destruct E as [[] [s2 [E1 E]]]. apply ret_ok in E. destruct E as [_ E]. rewrite <- E in *.
      pose proof (PresJ_disconnect_peers_of g (fun _ => False) i _ _ _ (J4_init g) E0) as [HJ _].
      destruct HJ as [[C1 [L1 _]] _].
      destruct (remove_cp_LI g _ _ _ _ (conj C1 L1) E1) as [_ H]. exact H.
    + (* prune after C08-8: not closing (a sub-interface goes without its port), LI by the generic lifting *)
      assert (E' : run (exec ex OPrune8 cs) g = (inl r, (g', tr))) by exact E.
      exact (lift_exec g (LI g) (LI_del g) (LI_cp g) (fun l i j _ H => match H with end) ex OPrune8 cs r g' tr eq_refl E').    + assert (E' : run (exec ex OPrune9 cs) g = (inl r, (g', tr))) by exact E.
      exact (lift_exec g (LI g) (LI_del g) (LI_cp g) (fun l i j _ H => match H with end) ex OPrune9 cs r g' tr eq_refl E').
Qed.

(* a fresh look-up of a surviving service / port handle after the operation: the old interfaces that survive *)
Lemma fresh_after g tr s y :
  ~ In s tr -> (In y (cpn (restrict g tr) s) <-> In y (cpn g s) /\ ~ In y tr).
Proof. intros Hs. unfold cpn. rewrite first_neighbor_restrict; [tauto | discriminate]. Qed.

(* what a connection point without neighbouring connection points takes with it: itself and links *)
Lemma del_list_cp_only g0 s n z :
  cons g0 s -> cpn g0 n = [] -> In z (cp_del_list (fst s) n true) -> class_of g0 z = CCP -> z = n.
Proof.
  intros C Hn Hz Hc. apply cp_del_list_In in Hz. destruct Hz as [Hz|Hz].
  - unfold cp_family in Hz. rewrite dedup_In in Hz. destruct Hz as [<-|Hz]; [reflexivity|].
    apply filter_In in Hz. destruct Hz as [Hz _]. rewrite C in Hz.
    apply first_neighbor_restrict in Hz; [|discriminate]. destruct Hz as [Hz _].
    unfold cpn in Hn. rewrite Hn in Hz. destruct Hz.
  - apply cp_links_In in Hz. destruct Hz as [i [_ [Hz _]]]. rewrite C in Hz.
    apply first_neighbor_restrict in Hz; [|discriminate]. destruct Hz as [Hz _].
    apply first_neighbor_In in Hz. destruct Hz as [_ Hz]. congruence.
Qed.

Lemma del_list_classes g0 s n z :
  cons g0 s -> cpn g0 n = [] -> In z (cp_del_list (fst s) n true) -> z = n \/ class_of g0 z = CLink.
Proof.
  intros C Hn Hz. apply cp_del_list_In in Hz. destruct Hz as [Hz|Hz].
  - unfold cp_family in Hz. rewrite dedup_In in Hz. destruct Hz as [<-|Hz]; [left; reflexivity|].
    apply filter_In in Hz. destruct Hz as [Hz _]. rewrite C in Hz.
    apply first_neighbor_restrict in Hz; [|discriminate]. destruct Hz as [Hz _].
    unfold cpn in Hn. rewrite Hn in Hz. destruct Hz.
  - apply cp_links_In in Hz. destruct Hz as [i [_ [Hz _]]]. rewrite C in Hz.
    apply first_neighbor_restrict in Hz; [|discriminate]. destruct Hz as [Hz _].
    apply first_neighbor_In in Hz. right. tauto.
Qed.

Definition same (a b : list N) : Prop := forall y, In y a <-> In y b.

(* NetworkService.disconnect_interface: the handle's list afterwards is what a fresh look-up reports *)
Theorem handles_disconnect ex s i c g cs' g' tr :
  run (exec ex (ODisconnect s i) [c]) g = (inl cs', (g', tr)) ->
  class_of g s = CNS ->
  same c (cpn g s) ->
  (forall x, get_peers_typed g i T_ServicePort = Some [x] -> cpn g x = []) ->
  exists c', cs' = [c'] /\ same c' (cpn g' s).
Proof.
  intros E Hs Hc Hp. pose proof (frame_exec _ _ _ _ _ _ _ E) as Hg. subst g'.
  unfold run in E. simpl in E.
  apply bind_ok in E. destruct E as [c' [s1 [E E2]]]. apply ret_ok in E2. destruct E2 as [-> E2]. subst s1.
  exists c'. split; [reflexivity|].
  unfold api_disconnect in E. apply bind_ok in E. destruct E as [rr [s1 [E E2]]].
  unfold disconnect_interface in E.
  apply bind_ok in E. destruct E as [x0 [s0 [E1 E]]]. apply need_node_ok in E1. destruct E1 as [_ ->].
  apply bind_ok in E. destruct E as [p [s0 [E1 E]]]. apply get_ok in E1. destruct E1 as [-> ->].
  simpl in E. destruct (get_peers_typed g i T_ServicePort) as [[|x [|x' l]]|] eqn:Hgp; try discriminate.
  - apply ret_ok in E. destruct E as [-> E]. subst s1. apply ret_ok in E2. destruct E2 as [-> E2].
    injection E2 as Eg Et. intros y. rewrite Et, restrict_nil. exact (Hc y).
  - apply bind_ok in E. destruct E as [[] [s2 [E1 E]]]. apply ret_ok in E. destruct E as [-> E]. subst s2.
    apply ret_ok in E2. destruct E2 as [-> E2]. subst s1.
    destruct (remove_cp_ok g x true _ _ (cons_init g) E1) as [_ [_ H]]. simpl in H.
    assert (Hx0 : cpn g x = []) by (apply Hp; reflexivity).
    assert (Hxc : class_of g x = CCP).
    { apply (peer_cps_class g (g, []) i x (cons_init g)). simpl.
      apply (get_peers_typed_In g i T_ServicePort [x] x Hgp). left. reflexivity. }
    assert (Hst : ~ In s tr).
    { intros Hin. apply H in Hin. destruct Hin as [Hin|[]].
      destruct (del_list_classes g (g, []) x s (cons_init g) Hx0 Hin) as [->|Hl]; congruence. }
    intros y. rewrite (fresh_after g tr s y Hst), removeN_In, (Hc y). split.
    + intros [Hy Hne]. split; [exact Hy|]. intros Hin. apply H in Hin. destruct Hin as [Hin|[]].
      apply Hne. apply (del_list_cp_only g (g, []) x y (cons_init g) Hx0 Hin). apply (cpn_class g s). exact Hy.
    + intros [Hy Hnt]. split; [exact Hy|]. intros ->. apply Hnt. apply H. left.
      apply cp_del_list_In. left. apply (in_family_cur (g, [])).
  - apply ret_ok in E. destruct E as [-> E]. subst s1. apply ret_ok in E2. destruct E2 as [-> E2].
    injection E2 as Eg Et. intros y. rewrite Et, restrict_nil. exact (Hc y).
Qed.

(* NetworkService.unpeer: both handles' lists afterwards are what fresh look-ups report *)
Theorem handles_unpeer ex a b ca cb g cs' g' tr :
  run (exec ex (OUnpeer a b) [ca; cb]) g = (inl cs', (g', tr)) ->
  class_of g a = CNS -> class_of g b = CNS ->
  same ca (cpn g a) -> same cb (cpn g b) ->
  (forall xy, unpeer_ends g a b = Some [xy] ->
     cpn g (fst xy) = [] /\ cpn g (snd xy) = [] /\
     class_of g (fst xy) = CCP /\ class_of g (snd xy) = CCP /\
     ~ In (snd xy) (cpn g a) /\ ~ In (fst xy) (cpn g b)) ->
  exists ca' cb', cs' = [ca'; cb'] /\ same ca' (cpn g' a) /\ same cb' (cpn g' b).
Proof.
  intros E Ha Hb Hca Hcb Hp. pose proof (frame_exec _ _ _ _ _ _ _ E) as Hg. subst g'.
  unfold run in E. simpl in E.
  apply bind_ok in E. destruct E as [cc [s1 [E E2]]]. apply ret_ok in E2. destruct E2 as [-> E2]. subst s1.
  exists (fst cc), (snd cc). split; [reflexivity|].
  unfold api_unpeer in E.
  apply bind_ok in E. destruct E as [x0 [s0 [E1 E]]]. apply need_node_ok in E1. destruct E1 as [_ ->].
  apply bind_ok in E. destruct E as [x1 [s0 [E1 E]]]. apply need_node_ok in E1. destruct E1 as [_ ->].
  apply bind_ok in E. destruct E as [e [s0 [E1 E]]]. apply get_ok in E1. destruct E1 as [-> ->].
  simpl in E. destruct (unpeer_ends g a b) as [[|[x y] [|xy' l]]|] eqn:Hu; try discriminate;
    [| apply bind_ok in E; destruct E as [b0 [s1 [_ E]]]; destruct b0; discriminate].
  destruct (Hp (x, y) eq_refl) as [Hx0 [Hy0 [Hxc [Hyc [Hya Hxb]]]]]. simpl in *.
  unfold api_unpeer_checked in E.
  apply bind_ok in E. destruct E as [okb [s1 [E1 E]]]. apply get_ok in E1. destruct E1 as [-> ->].
  apply bind_ok in E. destruct E as [[] [s1 [E1 E]]]. apply guard_ok in E1. destruct E1 as [_ ->].
  unfold api_unpeer_with in E. simpl in E.
  apply bind_ok in E. destruct E as [[] [s1 [E1 E]]].
  apply bind_ok in E. destruct E as [[] [s2 [E2 E]]]. apply ret_ok in E. destruct E as [-> E]. subst s2.
  simpl.
  pose proof (cons_to g _ _ _ _ (Inv_remove_cp _ _) (cons_init g) E1) as C1.
  destruct (remove_cp_ok g x true _ _ (cons_init g) E1) as [_ [_ H1]]. simpl in H1.
  destruct (remove_cp_ok g y true _ _ C1 E2) as [_ [_ H2]]. simpl in H2.
  (* membership of a connection point / of a service in the trace *)
  assert (Hcp : forall z, class_of g z = CCP -> (In z tr <-> z = x \/ z = y)).
  { intros z Hz. rewrite H2, H1. split.
    - intros [Hin|[Hin|[]]].
      + right. apply (del_list_cp_only g s1 y z C1 Hy0 Hin Hz).
      + left. apply (del_list_cp_only g (g, []) x z (cons_init g) Hx0 Hin Hz).
    - intros [->| ->].
      + right. left. apply cp_del_list_In. left. apply (in_family_cur (g, [])).
      + left. apply cp_del_list_In. left. apply in_family_cur. }
  assert (Hns : forall s, class_of g s = CNS -> ~ In s tr).
  { intros s Hs Hin. apply H2 in Hin. destruct Hin as [Hin|Hin].
    - destruct (del_list_classes g s1 y s C1 Hy0 Hin) as [->|Hl]; congruence.
    - apply H1 in Hin. destruct Hin as [Hin|[]].
      destruct (del_list_classes g (g, []) x s (cons_init g) Hx0 Hin) as [->|Hl]; congruence. }
  split.
  - intros z. rewrite (fresh_after g tr a z (Hns a Ha)), removeN_In, (Hca z). split.
    + intros [Hz Hne]. split; [exact Hz|]. rewrite (Hcp z (cpn_class g a z Hz)).
      intros [->| ->]; [apply Hne; reflexivity | apply Hya; exact Hz].
    + intros [Hz Hnt]. split; [exact Hz|]. intros ->. apply Hnt. apply (Hcp x Hxc). left. reflexivity.
  - intros z. rewrite (fresh_after g tr b z (Hns b Hb)), removeN_In, (Hcb z). split.
    + intros [Hz Hne]. split; [exact Hz|]. rewrite (Hcp z (cpn_class g b z Hz)).
      intros [->| ->]; [apply Hxb; exact Hz | apply Hne; reflexivity].
    + intros [Hz Hnt]. split; [exact Hz|]. intros ->. apply Hnt. apply (Hcp y Hyc). right. reflexivity.
Qed.

(* every operation: a surviving handle's fresh list is its old list filtered by the survivors *)
Theorem fresh_is_filtered ex o cs g r g' tr s :
  run (exec ex o cs) g = (r, (g', tr)) -> ~ In s tr ->
  forall y, In y (cpn g' s) <-> In y (cpn g s) /\ ~ In y tr.
Proof. intros E Hs y. rewrite (frame_exec _ _ _ _ _ _ _ E). apply fresh_after. exact Hs. Qed.

(* C03: Gateway = the Labels codec composed with the Gateway constructor, which is idempotent *)
From Coq Require Import String List NArith ZArith Bool Lia Permutation.
From FIM Require Import Base.Str Base.Json Base.JsonRT Gen.CodecGen Model.CodecField Model.CodecMisc Model.CodecWf
     Proofs.CodecAssoc Proofs.CodecFieldRT.
Import ListNotations.

Section GatewayProofs.
  Variable V : str -> json -> bool.

  Lemma fld_aset k k' v o : fld k (aset k' v o) = if str_eqb k k' then v else fld k o.
  Proof. unfold fld. rewrite aget_aset. destruct (str_eqb k k'); reflexivity. Qed.

  (* construct with two known fields *)
  Lemma construct_two a b va vb o : ahas a (jc_fields cls_Labels) = true -> ahas b (jc_fields cls_Labels) = true ->
    construct V cls_Labels [(a, va); (b, vb)] = Ok o -> o = aset b vb (aset a va (jc_fields cls_Labels)).
  Proof.
    intros Ha Hb H. unfold construct in H.
    destruct (set_fields_strict_inv V cls_Labels _ _ _ H) as [E _]. exact E.
  Qed.

  Definition two_of (a b : str) (l : obj) : res obj := construct V cls_Labels [(a, fld a l); (b, fld b l)].
  Definition with_mac (l o : obj) : obj := if is_null (fld k_mac l) then o else aset k_mac (fld k_mac l) o.

  Lemma gw_make_unfold l : gw_make V (Some l) =
    if negb (is_null (fld k_v4s l)) && negb (is_null (fld k_v4 l))
    then match two_of k_v4s k_v4 l with Ok o => Ok (Some (with_mac l o)) | Err e => Err e end
    else if negb (is_null (fld k_v6s l)) && negb (is_null (fld k_v6 l))
    then match two_of k_v6s k_v6 l with Ok o => Ok (Some (with_mac l o)) | Err e => Err e end
    else Err (S"GatewayException").
  Proof. reflexivity. Qed.

  Lemma labels_fields_facts :
    ahas k_v4s (jc_fields cls_Labels) = true /\ ahas k_v4 (jc_fields cls_Labels) = true /\
    ahas k_v6s (jc_fields cls_Labels) = true /\ ahas k_v6 (jc_fields cls_Labels) = true /\
    fld k_v4s (jc_fields cls_Labels) = JNull /\ fld k_v4 (jc_fields cls_Labels) = JNull /\
    fld k_v6s (jc_fields cls_Labels) = JNull /\ fld k_v6 (jc_fields cls_Labels) = JNull /\
    fld k_mac (jc_fields cls_Labels) = JNull.
  Proof. repeat split; reflexivity. Qed.

  (* Gateway(g.lab) rebuilds g.lab: the constructor is idempotent *)
  Theorem gw_make_idempotent l g : gw_make V (Some l) = Ok (Some g) -> gw_make V (Some g) = Ok (Some g).
  Proof.
    destruct labels_fields_facts as (A1 & A2 & A3 & A4 & D1 & D2 & D3 & D4 & D5).
    rewrite (gw_make_unfold l).
    destruct (negb (is_null (fld k_v4s l)) && negb (is_null (fld k_v4 l))) eqn:C4.
    - destruct (two_of k_v4s k_v4 l) as [o|] eqn:T; [|discriminate]. intros [= <-].
      pose proof (construct_two _ _ _ _ _ A1 A2 T) as Eo.
      apply andb_true_iff in C4 as [N1 N2].
      assert (F1 : fld k_v4s (with_mac l o) = fld k_v4s l).
      { unfold with_mac. destruct (is_null (fld k_mac l)); rewrite Eo, ?fld_aset; reflexivity. }
      assert (F2 : fld k_v4 (with_mac l o) = fld k_v4 l).
      { unfold with_mac. destruct (is_null (fld k_mac l)); rewrite Eo, ?fld_aset; reflexivity. }
      assert (F3 : fld k_mac (with_mac l o) = fld k_mac l).
      { unfold with_mac. destruct (is_null (fld k_mac l)) eqn:M; rewrite Eo, ?fld_aset.
        - change (str_eqb k_mac k_v4) with false. change (str_eqb k_mac k_v4s) with false. cbv iota.
          rewrite D5. destruct (fld k_mac l); try discriminate. reflexivity.
        - reflexivity. }
      rewrite (gw_make_unfold (with_mac l o)). rewrite F1, F2, N1, N2. cbn [andb].
      unfold two_of in *. rewrite F1, F2, T. unfold with_mac at 1. rewrite F3. reflexivity.
    - destruct (negb (is_null (fld k_v6s l)) && negb (is_null (fld k_v6 l))) eqn:C6; [|discriminate].
      destruct (two_of k_v6s k_v6 l) as [o|] eqn:T; [|discriminate]. intros [= <-].
      pose proof (construct_two _ _ _ _ _ A3 A4 T) as Eo.
      apply andb_true_iff in C6 as [N1 N2].
      assert (F0 : fld k_v4s (with_mac l o) = JNull).
      { unfold with_mac. destruct (is_null (fld k_mac l)); rewrite Eo, ?fld_aset;
          change (str_eqb k_v4s k_mac) with false; change (str_eqb k_v4s k_v6) with false;
          change (str_eqb k_v4s k_v6s) with false; cbv iota; exact D1. }
      assert (F1 : fld k_v6s (with_mac l o) = fld k_v6s l).
      { unfold with_mac. destruct (is_null (fld k_mac l)); rewrite Eo, ?fld_aset; reflexivity. }
      assert (F2 : fld k_v6 (with_mac l o) = fld k_v6 l).
      { unfold with_mac. destruct (is_null (fld k_mac l)); rewrite Eo, ?fld_aset; reflexivity. }
      assert (F3 : fld k_mac (with_mac l o) = fld k_mac l).
      { unfold with_mac. destruct (is_null (fld k_mac l)) eqn:M; rewrite Eo, ?fld_aset.
        - change (str_eqb k_mac k_v6) with false. change (str_eqb k_mac k_v6s) with false. cbv iota.
          rewrite D5. destruct (fld k_mac l); try discriminate. reflexivity.
        - reflexivity. }
      rewrite (gw_make_unfold (with_mac l o)). rewrite F0, F1, F2, N1, N2. cbn [andb is_null negb].
      unfold two_of in *. rewrite F1, F2, T. unfold with_mac at 1. rewrite F3. reflexivity.
  Qed.

  (* the Gateway codec: encode = Labels.to_json of the kept labels, decode = Labels.from_json then Gateway() *)
  Theorem gw_roundtrip g : cls_ok V cls_Labels = true -> wf_obj V cls_Labels g = true ->
    nothing_kept cls_Labels g = false -> gw_make V (Some g) = Ok (Some g) ->
    gw_from_json V (gw_to_json (Some g)) = Ok (Some (Some g)).
  Proof.
    intros C W K I. unfold gw_from_json, gw_to_json.
    rewrite (field_roundtrip V cls_Labels g C W). rewrite K. cbn [andb]. rewrite I. reflexivity.
  Qed.

  (* nothing recorded reads back as ABSENT (not as an empty Gateway object): for the None that Gateway(None).to_json()
     returns, for the empty text, and for every text the Labels decoder treats as absent *)
  Theorem gw_none_roundtrip : gw_to_json None = None /\ gw_from_json V None = Ok None /\ gw_from_json V (Some []) = Ok None.
  Proof. repeat split; reflexivity. Qed.

  Theorem gw_absent_labels_absent_gateway t : from_json V cls_Labels t = Ok None -> gw_from_json V t = Ok None.
  Proof. intro H. unfold gw_from_json. rewrite H. reflexivity. Qed.

  (* the decoder never yields an empty Gateway object *)
  Theorem gw_decoded_has_labels t g : gw_from_json V t = Ok (Some g) -> g <> None.
  Proof.
    unfold gw_from_json. destruct (from_json V cls_Labels t) as [[l|]|]; try discriminate.
    rewrite (gw_make_unfold l).
    destruct (negb (is_null (fld k_v4s l)) && negb (is_null (fld k_v4 l))).
    - destruct (two_of k_v4s k_v4 l); [|discriminate]. intros [= <-]. discriminate.
    - destruct (negb (is_null (fld k_v6s l)) && negb (is_null (fld k_v6 l))); [|discriminate].
      destruct (two_of k_v6s k_v6 l); [|discriminate]. intros [= <-]. discriminate.
  Qed.
End GatewayProofs.

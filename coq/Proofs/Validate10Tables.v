(* C10: obligations on the regenerated tables, all by computation on finite data. *)
From Coq Require Import List ZArith String Bool NArith.
From FIM Require Import Base.C10Types Gen.Constraints Model.Validate10 Model.C10Pinned Model.C10Spec.
Import ListNotations.

Lemma gen_ok_true : gen_ok = true.
Proof. reflexivity. Qed.

(* the source's tables, enums and guardrail are exactly the pinned specification *)
Lemma table_pinned : gen_tables = pinned_tables.
Proof. reflexivity. Qed.

Lemma pinned_table_ok : table_ok pinned_tables = true.
Proof. vm_compute. reflexivity. Qed.

Lemma pinned_tables_total : tables_total pinned_tables = true.
Proof. vm_compute. reflexivity. Qed.

Lemma pinned_guard_consistent : guard_consistent pinned_tables = true.
Proof. vm_compute. reflexivity. Qed.

(* C15 proofs.  Every lemma is about the operator bodies regenerated from the source
   (Gen/CapsGen.v): add_f, sub_f, gt_reject, ... are unfolded and the arithmetic closed by lia, so a
   semantically equivalent rewrite of the Python still proves and a changed operator does not. *)
From Coq Require Import List ZArith String Bool NArith Lia ZifyBool Ascii.
From Coq Require Import DecimalString.
From FIM Require Import Base.Str Base.Corr Gen.CapsGen Model.Caps.
Import ListNotations.
Open Scope Z_scope.

Ltac gen_unfold := unfold free_f in *;
  unfold add_f, sub_f, gt_reject, lt_reject, eq_reject, neg_test, pos_reject, drop_test, set_reject, fdrop_test in *.

Lemma gen_ok_true : gen_ok = true.
Proof. reflexivity. Qed.

Lemma fields_nodup : NoDup cap_fields.
Proof. repeat constructor; simpl; intuition discriminate. Qed.

Lemma units_cover : forallb (fun f => existsb (fun u => String.eqb (fst u) f) cap_units) cap_fields = true.
Proof. vm_compute. reflexivity. Qed.

Lemma map2_length {A B C} (f : A -> B -> C) a b :
  List.length a = List.length b -> List.length (map2 f a b) = List.length a.
Proof. revert b; induction a as [|x a IH]; destruct b as [|y b]; simpl; intros H; try discriminate; auto. Qed.

Lemma add_sub_cancel a b : List.length a = List.length b -> csub (cadd a b) b = a.
Proof.
  unfold csub, cadd. revert b; induction a as [|x a IH]; destruct b as [|y b]; simpl; intros H; try discriminate; auto.
  f_equal; [gen_unfold; lia | apply IH; lia].
Qed.

Lemma add_comm a b : cadd a b = cadd b a.
Proof.
  unfold cadd. revert b; induction a as [|x a IH]; destruct b as [|y b]; simpl; auto.
  f_equal; [gen_unfold; lia | apply IH].
Qed.

Lemma add_assoc a b c : cadd (cadd a b) c = cadd a (cadd b c).
Proof.
  unfold cadd. revert b c; induction a as [|x a IH]; destruct b as [|y b]; destruct c as [|z c]; simpl; auto.
  f_equal; [gen_unfold; lia | apply IH].
Qed.

Lemma free_is_sub t a : cfree t a = csub t a.
Proof.
  unfold cfree, csub. revert a; induction t as [|x t IH]; destruct a as [|y a]; cbn [map2]; auto;
    try (rewrite IH; f_equal; gen_unfold; lia).
Qed.

Lemma free_plus_allocated t a : List.length t = List.length a -> cadd (cfree t a) a = t.
Proof.
  unfold cfree, cadd. revert a; induction t as [|x t IH]; destruct a as [|y a]; simpl; intros H; try discriminate; auto.
  f_equal; [gen_unfold; lia | apply IH; lia].
Qed.

Lemma fieldwise_add a b i : (i < List.length a)%nat -> (i < List.length b)%nat ->
  nth i (cadd a b) 0 = nth i a 0 + nth i b 0.
Proof.
  unfold cadd. revert b i; induction a as [|x a IH]; destruct b as [|y b]; simpl; intros i Ha Hb; try lia.
  destruct i; [gen_unfold; lia | apply IH; lia].
Qed.

Lemma fieldwise_sub a b i : (i < List.length a)%nat -> (i < List.length b)%nat ->
  nth i (csub a b) 0 = nth i a 0 - nth i b 0.
Proof.
  unfold csub. revert b i; induction a as [|x a IH]; destruct b as [|y b]; simpl; intros i Ha Hb; try lia.
  destruct i; [gen_unfold; lia | apply IH; lia].
Qed.

(* negative fields over an arbitrary name list (so the induction is not tied to cap_fields) *)
Definition negf (names : list string) (c : caps) : list string :=
  map fst (filter (fun fv => neg_test (snd fv)) (combine names c)).

Lemma negative_fields_negf c : negative_fields c = negf cap_fields c.
Proof. reflexivity. Qed.

Lemma lt_iff_gen names a b : List.length a = List.length b -> List.length names = List.length a ->
  clt a b = true <-> negf names (csub b a) = [].
Proof.
  unfold clt, negf, csub. revert names b; induction a as [|x a IH]; destruct b as [|y b]; destruct names as [|n names];
    simpl; intros H Hn; try discriminate; [tauto|].
  specialize (IH names b ltac:(lia) ltac:(lia)).
  rewrite negb_orb, andb_true_iff, IH.
  destruct (neg_test (sub_f y x)) eqn:E1; destruct (lt_reject x y) eqn:E2; gen_unfold; simpl; try lia;
    intuition (try discriminate; auto).
Qed.

Lemma gt_iff_gen names a b : List.length a = List.length b -> List.length names = List.length a ->
  cgt a b = true <-> negf names (csub a b) = [].
Proof.
  unfold cgt, negf, csub. revert names b; induction a as [|x a IH]; destruct b as [|y b]; destruct names as [|n names];
    simpl; intros H Hn; try discriminate; [tauto|].
  specialize (IH names b ltac:(lia) ltac:(lia)).
  rewrite negb_orb, andb_true_iff, IH.
  destruct (neg_test (sub_f x y)) eqn:E1; destruct (gt_reject x y) eqn:E2; gen_unfold; simpl; try lia;
    intuition (try discriminate; auto).
Qed.

Lemma lt_iff a b : wf a -> wf b -> clt a b = true <-> negative_fields (csub b a) = [].
Proof. unfold wf, nfields; intros Ha Hb. rewrite negative_fields_negf. apply lt_iff_gen; lia. Qed.

Lemma gt_iff a b : wf a -> wf b -> cgt a b = true <-> negative_fields (csub a b) = [].
Proof. unfold wf, nfields; intros Ha Hb. rewrite negative_fields_negf. apply gt_iff_gen; lia. Qed.

Lemma negf_exact names c f : In f (negf names c) <-> exists v, In (f, v) (combine names c) /\ v < 0.
Proof.
  unfold negf. rewrite in_map_iff. split.
  - intros [[f' v] [Hf Hin]]. simpl in Hf; subst. apply filter_In in Hin as [Hin Hn]. exists v; split; auto.
    simpl in Hn. gen_unfold. lia.
  - intros [v [Hin Hv]]. exists (f, v). split; auto. apply filter_In. split; auto. simpl. gen_unfold. lia.
Qed.

Lemma negative_fields_exact c f : In f (negative_fields c) <-> exists v, In (f, v) (named c) /\ v < 0.
Proof. apply negf_exact. Qed.

Lemma eq_iff a b : List.length a = List.length b -> ceq a b = true <-> a = b.
Proof.
  unfold ceq. revert b; induction a as [|x a IH]; destruct b as [|y b]; simpl; intros H; try discriminate; [tauto|].
  specialize (IH b ltac:(lia)). rewrite negb_orb, andb_true_iff, IH.
  split.
  - intros [H1 H2]. f_equal; auto. gen_unfold. lia.
  - intros E. inversion E; subst. split; auto. gen_unfold. lia.
Qed.

Lemma eq_refl a : ceq a a = true.
Proof. apply eq_iff; reflexivity. Qed.

Lemma eq_sym a b : ceq a b = ceq b a.
Proof.
  unfold ceq. f_equal. revert b; induction a as [|x a IH]; destruct b as [|y b]; simpl; auto.
  rewrite IH. f_equal. gen_unfold. lia.
Qed.

(* a negative (or any non-zero) field is never dropped by the printers *)
Lemma negative_kept c f v : In (f, v) (named c) -> v < 0 -> In (f, v) (kept c).
Proof. intros Hin Hv. unfold kept. apply filter_In. split; auto. simpl. gen_unfold. lia. Qed.

(* sign and magnitude survive the decimal printer (stdlib DecimalString round trip) *)
Lemma print_int_roundtrip z : Z_of_str (str_of_Z z) = Some z.
Proof. apply Z_of_str_of_Z. Qed.

(* the thousands separators only insert commas *)
Definition strip_commas (s : str) : str := filter (fun c => negb (N.eqb c 44)) s.

Lemma group3_strip n l : filter (fun c => negb (N.eqb c 44)) (group3 n l) = filter (fun c => negb (N.eqb c 44)) l.
Proof.
  revert n; induction l as [|d r IH]; intros n; [reflexivity|].
  cbn [group3]. destruct r as [|d' r']; [reflexivity|].
  destruct (Nat.eqb n 2).
  - cbn [filter]. change (negb (44 =? 44)%N) with false. cbn iota. rewrite IH. reflexivity.
  - cbn [filter]. rewrite IH. reflexivity.
Qed.

Lemma filter_rev {A} (p : A -> bool) l : filter p (rev l) = rev (filter p l).
Proof.
  induction l as [|x l IH]; simpl; auto. rewrite filter_app, IH. simpl. destruct (p x); simpl; auto using app_nil_r.
Qed.

Lemma uint_digits_nocomma d : Forall (fun c => N.eqb c 44 = false) (of_string (NilZero.string_of_uint d)).
Proof.
  unfold NilZero.string_of_uint. destruct d; try (repeat constructor; fail);
  unfold of_string; simpl; constructor; try reflexivity;
  match goal with |- Forall _ (map _ (list_ascii_of_string (NilEmpty.string_of_uint ?d))) => induction d; simpl; constructor; auto end.
Qed.

Lemma filter_all {A} (p : A -> bool) l : Forall (fun x => p x = true) l -> filter p l = l.
Proof. induction 1 as [|x l Hx _ IH]; simpl; auto. rewrite Hx, IH. reflexivity. Qed.

Lemma str_of_Z_abs z : str_of_Z z = (if z <? 0 then [45%N] else []) ++ str_of_Z (Z.abs z).
Proof. destruct z; reflexivity. Qed.

Lemma abs_digits_nocomma z : Forall (fun c => negb (N.eqb c 44) = true) (str_of_Z (Z.abs z)).
Proof.
  unfold str_of_Z. destruct z as [|p|p]; simpl Z.abs; simpl Z.to_int; unfold NilZero.string_of_int;
    try (repeat constructor; fail);
    (eapply Forall_impl; [|apply uint_digits_nocomma]); intros c Hc; simpl in Hc; rewrite Hc; reflexivity.
Qed.

Lemma commas_strip z : strip_commas (commas z) = str_of_Z z.
Proof.
  unfold commas, strip_commas. rewrite filter_app, filter_rev, group3_strip, <- filter_rev, rev_involutive.
  rewrite (filter_all _ _ (abs_digits_nocomma z)).
  rewrite (str_of_Z_abs z). destruct (z <? 0); reflexivity.
Qed.

(* ---------------- further laws (extension round) ---------------- *)
From Coq Require Import Permutation.

Lemma sub_add_cancel a b : List.length a = List.length b -> cadd (csub a b) b = a.
Proof.
  unfold csub, cadd. revert b; induction a as [|x a IH]; destruct b as [|y b]; simpl; intros H; try discriminate; auto.
  f_equal; [gen_unfold; lia | apply IH; lia].
Qed.

Lemma sub_self a : csub a a = repeat 0 (List.length a).
Proof. unfold csub. induction a as [|x a IH]; simpl; auto. f_equal; [gen_unfold; lia | exact IH]. Qed.

Lemma add_zero_r a : cadd a (repeat 0 (List.length a)) = a.
Proof. unfold cadd. induction a as [|x a IH]; simpl; auto. f_equal; [gen_unfold; lia | exact IH]. Qed.

Lemma sub_zero_r a : csub a (repeat 0 (List.length a)) = a.
Proof. unfold csub. induction a as [|x a IH]; simpl; auto. f_equal; [gen_unfold; lia | exact IH]. Qed.

Lemma czero_repeat : czero = repeat 0 nfields.
Proof. vm_compute. reflexivity. Qed.

Lemma czero_wf : wf czero.
Proof. vm_compute. reflexivity. Qed.

Lemma free_none t : wf t -> cfree_none t = t.
Proof. unfold cfree_none, wf. intros H. rewrite free_is_sub, czero_repeat, <- H. apply sub_zero_r. Qed.

Lemma lt_gt_dual a b : clt a b = cgt b a.
Proof.
  unfold clt, cgt. f_equal. revert b; induction a as [|x a IH]; destruct b as [|y b]; simpl; auto.
  rewrite IH. f_equal. gen_unfold. lia.
Qed.

Lemma fits_refl a : clt a a = true.
Proof. unfold clt. induction a as [|x a IH]; simpl; auto. rewrite negb_orb, IH. gen_unfold. lia. Qed.

Lemma fits_antisym a b : List.length a = List.length b -> clt a b = true -> clt b a = true -> a = b.
Proof.
  unfold clt. revert b; induction a as [|x a IH]; destruct b as [|y b]; simpl; intros H; try discriminate; auto.
  rewrite !negb_orb, !andb_true_iff. intros [H1 H2] [H3 H4]. f_equal; [gen_unfold; lia | apply IH; auto].
Qed.

Lemma fits_trans a b c : List.length a = List.length b -> List.length b = List.length c ->
  clt a b = true -> clt b c = true -> clt a c = true.
Proof.
  unfold clt. revert b c; induction a as [|x a IH]; destruct b as [|y b]; destruct c as [|z c]; simpl;
    intros Hab Hbc; try discriminate; auto.
  rewrite !negb_orb, !andb_true_iff. intros [H1 H2] [H3 H4]. split; [gen_unfold; lia | apply (IH b c); auto; lia].
Qed.

(* a fits in b exactly when every field of a is at most the same field of b *)
Lemma fits_fieldwise a b : List.length a = List.length b ->
  (clt a b = true <-> forall i, (i < List.length a)%nat -> nth i a 0 <= nth i b 0).
Proof.
  unfold clt. revert b; induction a as [|x a IH]; destruct b as [|y b]; simpl; intros H; try discriminate.
  - split; auto. intros _ i Hi. lia.
  - rewrite negb_orb, andb_true_iff, (IH b ltac:(lia)). split.
    + intros [H1 H2] [|i] Hi; [gen_unfold; lia | apply H2; lia].
    + intros Hall. split; [specialize (Hall 0%nat ltac:(lia)); simpl in Hall; gen_unfold; lia |].
      intros i Hi. apply (Hall (Datatypes.S i)). lia.
Qed.

Lemma positive_fields_true c fs :
  positive_fields c fs = Some true <-> Forall (fun f => exists v, getf f c = Some v /\ v > 0) fs.
Proof.
  induction fs as [|f r IH]; simpl.
  - split; auto.
  - destruct (getf f c) as [v|] eqn:E.
    + destruct (pos_reject v) eqn:P.
      * split; [discriminate|]. intros HF. inversion HF as [|? ? [v' [Hv Hp]] _]; subst.
        assert (v' = v) by congruence. subst v'. gen_unfold. lia.
      * rewrite IH. split.
        -- intros HF. constructor; auto. exists v. split; auto. gen_unfold. lia.
        -- intros HF. inversion HF; auto.
    + split; [discriminate|]. intros HF. inversion HF as [|? ? [v' [Hv _]] _]. congruence.
Qed.

Lemma positive_fields_false c fs :
  positive_fields c fs = Some false -> exists f v, In f fs /\ getf f c = Some v /\ v <= 0.
Proof.
  induction fs as [|f r IH]; simpl; [discriminate|].
  destruct (getf f c) as [v|] eqn:E; [|discriminate].
  destruct (pos_reject v) eqn:P.
  - intros _. exists f, v. repeat split; auto. gen_unfold. lia.
  - intros H. destruct (IH H) as [f' [v' [Hin Hr]]]. exists f', v'. split; auto.
Qed.

Lemma positive_fields_keyerror c fs :
  positive_fields c fs = None -> exists f, In f fs /\ getf f c = None.
Proof.
  induction fs as [|f r IH]; simpl; [discriminate|].
  destruct (getf f c) as [v|] eqn:E.
  - destruct (pos_reject v); [discriminate|]. intros H. destruct (IH H) as [f' [Hin Hn]]. exists f'. auto.
  - intros _. exists f. auto.
Qed.

(* ---- allocation histories: the accumulated allocation is the field-wise sum, in any order ---- *)
Lemma cadd_swap z x y : cadd (cadd z x) y = cadd (cadd z y) x.
Proof. rewrite !add_assoc. f_equal. apply add_comm. Qed.

Lemma fold_cadd_perm l l' : Permutation l l' -> forall z, fold_left cadd l z = fold_left cadd l' z.
Proof.
  induction 1 as [|x l l' _ IH|x y l|l l' l'' _ IH1 _ IH2]; intros z; simpl; auto.
  - rewrite cadd_swap. reflexivity.
  - rewrite IH1. apply IH2.
Qed.

Lemma alloc_all_perm l l' : Permutation l l' -> alloc_all l = alloc_all l'.
Proof. intros H. apply fold_cadd_perm, H. Qed.

Lemma cadd_wf a b : wf a -> wf b -> wf (cadd a b).
Proof. unfold wf, cadd. intros Ha Hb. rewrite map2_length; lia. Qed.

Lemma fold_cadd_wf l : Forall wf l -> forall z, wf z -> wf (fold_left cadd l z).
Proof. induction 1 as [|x l Hx _ IH]; intros z Hz; simpl; auto. apply IH, cadd_wf; auto. Qed.

Lemma alloc_all_wf l : Forall wf l -> wf (alloc_all l).
Proof. intros H. apply fold_cadd_wf; auto. apply czero_wf. Qed.

Lemma alloc_all_snoc l x : alloc_all (l ++ [x]) = cadd (alloc_all l) x.
Proof. unfold alloc_all. rewrite fold_left_app. reflexivity. Qed.

Lemma release_last l x : Forall wf l -> wf x -> csub (alloc_all (l ++ [x])) x = alloc_all l.
Proof.
  intros Hl Hx. rewrite alloc_all_snoc. apply add_sub_cancel.
  pose proof (alloc_all_wf l Hl) as H. unfold wf in *. lia.
Qed.

Lemma free_after_history t l : wf t -> Forall wf l -> cadd (cfree t (alloc_all l)) (alloc_all l) = t.
Proof.
  intros Ht Hl. apply free_plus_allocated. pose proof (alloc_all_wf l Hl) as H. unfold wf in *. lia.
Qed.

Lemma fold_cadd_field l : Forall wf l -> forall z i, wf z -> (i < nfields)%nat ->
  nth i (fold_left cadd l z) 0 = fold_left Z.add (map (fun c => nth i c 0) l) (nth i z 0).
Proof.
  induction 1 as [|x l Hx _ IH]; intros z i Hz Hi; simpl; auto.
  rewrite IH; auto using cadd_wf. f_equal. apply fieldwise_add; unfold wf in *; lia.
Qed.

Lemma alloc_all_field l i : Forall wf l -> (i < nfields)%nat ->
  nth i (alloc_all l) 0 = fold_left Z.add (map (fun c => nth i c 0) l) 0.
Proof.
  intros Hl Hi. unfold alloc_all. rewrite fold_cadd_field; auto using czero_wf.
  f_equal. rewrite czero_repeat. apply nth_repeat.
Qed.

(* ---- FreeCapacity printer: a field is shown unless free and total are both dropped ---- *)
Lemma fkept_exact t a f fr tot :
  In (f, (fr, tot)) (fkept t a) <-> In (f, (fr, tot)) (fnamed t a) /\ ~ (fr = 0 /\ tot = 0).
Proof.
  unfold fkept. rewrite filter_In. simpl. split; intros [H1 H2]; split; auto; gen_unfold; lia.
Qed.

Lemma negative_free_kept t a f fr tot : In (f, (fr, tot)) (fnamed t a) -> fr < 0 -> In (f, (fr, tot)) (fkept t a).
Proof. intros Hin Hv. apply fkept_exact. split; auto. lia. Qed.

Lemma free_get_is_difference t a i f : wf t -> wf a -> nth_error cap_fields i = Some f ->
  free_get f t a = Some (nth i t 0 - nth i a 0).
Proof.
  intros Ht Ha Hf. unfold free_get. rewrite free_is_sub.
  assert (Hi : (i < nfields)%nat) by (apply nth_error_Some; congruence).
  assert (Hlen : List.length (csub t a) = nfields) by (unfold csub; rewrite map2_length; unfold wf in *; lia).
  rewrite <- (fieldwise_sub t a i) by (unfold wf in *; lia).
  revert Hlen. generalize (csub t a) as c. intros c Hlen.
  unfold getf, named.
  (* the i-th name is found first at position i because the names are distinct *)
  pose proof fields_nodup as ND. unfold nfields in *.
  revert c i Hf Hi Hlen ND. generalize cap_fields as names.
  induction names as [|n names IH]; intros c i Hf Hi Hlen ND; [simpl in Hi; lia|].
  destruct c as [|v c]; [simpl in Hlen; lia|]. simpl.
  destruct i as [|i]; simpl in Hf.
  - injection Hf as ->. rewrite String.eqb_refl. reflexivity.
  - inversion ND as [|? ? Hnot ND']; subst.
    destruct (String.eqb n f) eqn:E.
    + apply String.eqb_eq in E; subst. exfalso. apply Hnot. eapply nth_error_In; eauto.
    + simpl. apply IH; auto; simpl in *; lia.
Qed.

(* C02: set_properties with several keywords - what is read back, the frame, independence of the
   keyword order, and agreement with the fold of single set_property calls.  Generic in the class and
   in the completion flag (proposed fix C02-4). *)
From Coq Require Import List String NArith Bool Permutation.
From FIM Require Import Base.Str Model.Sliver2Kinds Gen.PropMap Model.Sliver2Map Model.Sliver2WF
  Proofs.Sliver2Assoc Proofs.Sliver2MapRT Proofs.Sliver2Elem.
Import ListNotations.

Local Opaque enums type_enum to_base from_base to_specific from_specific setters getters init_attrs
  sliver_property_to_graph no_unset_properties child_keys node_id_prop node_completes_image_pair.

Definition kvs := list (string * option fval).

(* what one keyword assigns *)
Definition kv_val (k : kind) (kv : string * option fval) (xv : string * option fval) : Prop :=
  exists st, find_setter k (fst kv) = Some (fst xv, st) /\ apply_setter st (snd kv) = Ok (snd xv).

Lemma blank_with_spec k : forall (l : kvs) a a1,
  blank_with k l a = Ok a1 -> exists xs, Forall2 (kv_val k) l xs /\ a1 = asets xs a.
Proof.
  induction l as [|[kw v] l IH]; intros a a1 H; simpl in H.
  - inversion H; subst. exists []. split; [constructor | reflexivity].
  - destruct (find_setter k kw) as [[x st]|] eqn:Efs; [|discriminate H].
    destruct (apply_setter st v) as [v'|] eqn:Eas; cbn [bind] in H; [|discriminate H].
    destruct (IH _ _ H) as [xs [HF Ha1]]. exists ((x, v') :: xs). split.
    + constructor; [|exact HF]. exists st. split; [exact Efs | exact Eas].
    + exact Ha1.
Qed.

Lemma blank_with_build k : forall (l : kvs) xs a,
  Forall2 (kv_val k) l xs -> blank_with k l a = Ok (asets xs a).
Proof.
  induction l as [|[kw v] l IH]; intros xs a HF; inversion HF; subst; [reflexivity|].
  destruct H1 as [st [Efs Eas]]. simpl in Efs, Eas. destruct y as [x v']. simpl in *.
  rewrite Efs, Eas. cbn [bind]. apply IH. exact H3.
Qed.

Lemma targets_of_vals k : forall (l : kvs) xs, Forall2 (kv_val k) l xs -> akeys xs = kw_targets k l.
Proof.
  induction 1 as [|kv xv l xs H HF IH]; [reflexivity|].
  destruct H as [st [Efs _]]. unfold kw_targets. simpl. rewrite Efs. simpl. f_equal. exact IH.
Qed.

Lemma kws_ok_parts k (l : kvs) : kws_ok k l = true ->
  NoDup (kw_targets k l) /\ forall x, In x (kw_targets k l) -> In x (data_attrs k).
Proof.
  unfold kws_ok. intro H. apply andb_true_iff in H as [H1 H2]. split; [apply nodupb_NoDup; exact H1|].
  intros x Hx. unfold kw_targets in Hx. apply in_flat_map in Hx as [kv [Hkv Hx]].
  rewrite forallb_forall in H2. specialize (H2 kv Hkv).
  destruct (find_setter k (fst kv)) as [[y st]|]; [|contradiction].
  destruct Hx as [E|[]]. subst y. apply mem_true_iff. exact H2.
Qed.

Lemma asets_lookup_other {V} (xs cur : list (string * V)) x :
  ~ In x (akeys xs) -> alookup x (asets xs cur) = alookup x cur.
Proof. apply asets_lookup_notin. Qed.

Lemma NoDup_nodupb l : NoDup l -> nodupb l = true.
Proof.
  induction 1 as [|x l NI ND IH]; [reflexivity|]. simpl. rewrite IH.
  destruct (mem x l) eqn:E; [apply mem_true_iff in E; contradiction | reflexivity].
Qed.

Lemma aset_nodup {V} x (v : V) l : NoDup (akeys l) -> NoDup (akeys (aset x v l)).
Proof.
  intro ND. destruct (in_dec string_dec x (akeys l)) as [Hin|Hn].
  - rewrite akeys_aset_in by exact Hin. exact ND.
  - rewrite akeys_aset_notin by exact Hn. apply NoDup_snoc; assumption.
Qed.

Lemma asets_nodup {V} (xs cur : list (string * V)) : NoDup (akeys cur) -> NoDup (akeys (asets xs cur)).
Proof.
  revert cur. induction xs as [|[x v] xs IH]; intros cur ND; [exact ND|].
  unfold asets in *. simpl. apply IH. apply aset_nodup. exact ND.
Qed.

Section Multi.
  Variables (c : bool) (k : kind) (l l' : kvs) (d : props).
  Hypothesis Hs : tables_symmetric k = true.
  Hypothesis Hc : completed_kvs c k l d = Ok l'.
  Hypothesis Hkw : kws_ok k l' = true.
  Hypothesis Hv : values_ok k l' = true.
  Hypothesis Hrd : readable k d = true.

  (* WHAT IS READ BACK after set_properties: every keyword's stored value; every other property
     (except an always-rewritten flag) as before *)
  Theorem multi_get :
    exists d', set_properties_with c k l d = Ok d' /\ readable k d' = true /\
      (forall p v x, In (p, Some v) l' -> settable k p = Some x -> get_property k p d' = Ok (stored k p v)) /\
      (forall q y, settable k q = Some y -> ~ In y (kw_targets k l') -> aget y (blank k) = None ->
                   always_written k y = false -> get_property k q d' = get_property k q d).
  Proof.
    unfold values_ok in Hv. destruct (blank_with k l' (blank k)) as [a1|] eqn:Eb; [|discriminate Hv].
    destruct (blank_with_spec k l' _ _ Eb) as [xs [HF Ha1]].
    destruct (kws_ok_parts k l' Hkw) as [NDt Hin].
    assert (Hkeys_xs := targets_of_vals k l' xs HF).
    destruct (weak_parts k a1 Hv) as [Hkeys Hweak].
    destruct (to_props_defined_weak k a1 Hs Hkeys Hweak) as [pd Hpd].
    exists (aupdate d pd). split; [|split; [|split]].
    - unfold set_properties_with. rewrite Hc. cbn [bind]. rewrite Eb. cbn [bind]. rewrite Hpd. reflexivity.
    - destruct (upd_readable k a1 d pd Hs Hv Hrd Hpd) as [r [Hr _]].
      destruct (readable_parts k d Hrd) as [_ NDd].
      unfold readable. rewrite Hr. cbn [is_ok andb].
      rewrite aupdate_is_asets. apply NoDup_nodupb. apply asets_nodup. exact NDd.
    - intros p v x Hp Hset.
      destruct (settable_parts k p x Hset) as [st [gk [Hfs [Hfg Hxd]]]].
      destruct (Forall2_in_l _ _ _ (p, Some v) HF Hp) as [[x' o] [Hxo [st' [Efs Eas]]]].
      cbn [fst snd] in Efs, Eas. rewrite Hfs in Efs. inversion Efs; subst x' st'.
      destruct (apply_setter_some _ _ _ Eas) as [w Hw]. subst o.
      assert (Hst : stored k p v = Some w) by (unfold stored; rewrite Hfs, Eas; reflexivity).
      rewrite Hst. apply (upd_get_written k a1 d pd Hs Hv Hrd Hpd p x w Hset).
      unfold aget. rewrite Ha1. rewrite (asets_lookup_in xs (blank k) x (Some w)); [reflexivity | rewrite Hkeys_xs; exact NDt | exact Hxo].
    - intros q y Hset Hny Hblank Hal.
      apply (upd_get_frame k a1 d pd Hs Hv Hrd Hpd q y Hset); [|exact Hal].
      unfold aget in *. rewrite Ha1. rewrite asets_lookup_notin by (rewrite Hkeys_xs; exact Hny). exact Hblank.
  Qed.
End Multi.

(* ---------- the order of the keywords is irrelevant ---------- *)
Lemma aset_comm {V} x y (v w : V) a :
  x <> y -> In x (akeys a) -> In y (akeys a) -> aset x v (aset y w a) = aset y w (aset x v a).
Proof.
  intros Hxy. induction a as [|[z u] a IH]; simpl; intros Hx Hy; [contradiction|].
  destruct (String.eqb y z) eqn:Eyz; destruct (String.eqb x z) eqn:Exz.
  - apply String.eqb_eq in Eyz. apply String.eqb_eq in Exz. congruence.
  - simpl. rewrite Exz, Eyz. reflexivity.
  - simpl. rewrite Exz, Eyz. reflexivity.
  - simpl. rewrite Exz, Eyz. f_equal. apply IH.
    + destruct Hx as [E|Hx]; [|exact Hx]. rewrite E in Exz. rewrite String.eqb_refl in Exz. discriminate Exz.
    + destruct Hy as [E|Hy]; [|exact Hy]. rewrite E in Eyz. rewrite String.eqb_refl in Eyz. discriminate Eyz.
Qed.

Lemma kw_targets_perm k (l l2 : kvs) : Permutation l l2 -> Permutation (kw_targets k l) (kw_targets k l2).
Proof. intro H. unfold kw_targets. apply Permutation_flat_map. exact H. Qed.

Lemma blank_with_perm k (l l2 : kvs) : Permutation l l2 -> forall a a1,
  NoDup (kw_targets k l) -> (forall x, In x (kw_targets k l) -> In x (akeys a)) ->
  blank_with k l a = Ok a1 -> blank_with k l2 a = Ok a1.
Proof.
  induction 1 as [|[kw v] l l2 HP IH|[kw1 v1] [kw2 v2] l|l l2 l3 HP1 IH1 HP2 IH2]; intros a a1 ND Hin H.
  - exact H.
  - simpl in *. unfold kw_targets in ND, Hin. simpl in ND, Hin.
    destruct (find_setter k kw) as [[x st]|] eqn:Efs; [|discriminate H].
    destruct (apply_setter st v) as [v'|]; cbn [bind] in *; [|discriminate H].
    simpl in ND, Hin. inversion ND; subst. apply IH; [assumption | | exact H].
    intros y Hy. rewrite akeys_aset_in by (apply Hin; left; reflexivity). apply Hin. right. exact Hy.
  - simpl in *. unfold kw_targets in ND, Hin. simpl in ND, Hin.
    destruct (find_setter k kw2) as [[x2 st2]|] eqn:E2; [|discriminate H].
    destruct (apply_setter st2 v2) as [v2'|]; cbn [bind] in *; [|discriminate H].
    destruct (find_setter k kw1) as [[x1 st1]|] eqn:E1; [|discriminate H].
    destruct (apply_setter st1 v1) as [v1'|]; cbn [bind] in *; [|discriminate H].
    simpl in ND, Hin. inversion ND as [|? ? NI ND']; subst.
    rewrite aset_comm; [exact H | | apply Hin; left; reflexivity | apply Hin; right; left; reflexivity].
    intro E. subst. apply NI. left. reflexivity.
  - apply (IH2 a a1).
    + apply (Permutation_NoDup (kw_targets_perm k _ _ HP1) ND).
    + intros x Hx. apply Hin. apply (Permutation_in x (Permutation_sym (kw_targets_perm k _ _ HP1)) Hx).
    + apply (IH1 a a1 ND Hin H).
Qed.

Theorem multi_perm c k (l l2 : kvs) d d1 :
  completed_kvs c k l d = Ok l -> completed_kvs c k l2 d = Ok l2 ->
  kws_ok k l = true -> Permutation l l2 ->
  set_properties_with c k l d = Ok d1 -> set_properties_with c k l2 d = Ok d1.
Proof.
  intros Hc1 Hc2 Hkw HP H. destruct (kws_ok_parts k l Hkw) as [ND Hin].
  unfold set_properties_with in *. rewrite Hc1 in H. rewrite Hc2. cbn [bind] in *.
  destruct (blank_with k l (blank k)) as [a1|] eqn:Eb; cbn [bind] in H; [|discriminate H].
  rewrite (blank_with_perm k l l2 HP (blank k) a1 ND Hin Eb). exact H.
Qed.

(* keyword lists that do not mention the image pair are never completed *)
Definition no_pair_kw (l : kvs) : bool :=
  forallb (fun kv => negb (mem (fst kv) ["image_ref"; "image_type"]%string)) l.

Lemma kv_get_nopair (l : kvs) p :
  no_pair_kw l = true -> mem p ["image_ref"; "image_type"]%string = true -> kv_get p l = None.
Proof.
  intros Hn Hp. unfold kv_get. destruct (alookup p l) as [o|] eqn:E; [|reflexivity].
  apply alookup_some_in in E. unfold no_pair_kw in Hn. rewrite forallb_forall in Hn.
  specialize (Hn _ E). cbn [fst] in Hn. rewrite Hp in Hn. discriminate Hn.
Qed.

Lemma completed_nopair c k (l : kvs) d : no_pair_kw l = true -> completed_kvs c k l d = Ok l.
Proof.
  intro Hn. unfold completed_kvs. destruct (c && kind_eqb k KNode); [|reflexivity].
  unfold image_pairs. cbn [complete_pairs].
  rewrite (kv_get_nopair l "image_ref" Hn eq_refl). rewrite (kv_get_nopair l "image_type" Hn eq_refl).
  reflexivity.
Qed.

(* ---------- set_properties agrees with setting the keywords one after the other ---------- *)
Fixpoint set_each (c : bool) (k : kind) (l : list (string * fval)) (d : props) : res props :=
  match l with
  | [] => Ok d
  | (p, v) :: r => bind (set_property_with c k p (Some v) d) (set_each c k r)
  end.

Definition opt_kvs (l : list (string * fval)) : kvs := map (fun pv => (fst pv, Some (snd pv))) l.

(* every keyword is a settable property on a plain attribute (not the always-rewritten flag), its
   value accepted by its setter *)
Definition kw_plain (k : kind) (pv : string * fval) : bool :=
  negb (mem (fst pv) ["image_ref"; "image_type"]%string) &&
  match settable k (fst pv) with
  | Some x => negb (always_written k x) && match aget x (blank k) with None => true | Some _ => false end
              && values_ok k [(fst pv, Some (snd pv))]
  | None => false
  end.

Lemma get_same_attr k p q y d :
  settable k p = Some y -> settable k q = Some y -> get_property k q d = get_property k p d.
Proof.
  intros Hp Hq. destruct (settable_parts k p y Hp) as [_ [gp [_ [Hgp _]]]].
  destruct (settable_parts k q y Hq) as [_ [gq [_ [Hgq _]]]].
  unfold get_property. rewrite Hgp, Hgq. destruct gp, gq; reflexivity.
Qed.

Lemma settable_target k p x : settable k p = Some x -> kw_targets k [(p, @None fval)] = [x].
Proof.
  intro H. destruct (settable_parts k p x H) as [st [_ [Hfs _]]]. unfold kw_targets. simpl. rewrite Hfs. reflexivity.
Qed.

Lemma kw_targets_cons k p (v : option fval) (r : kvs) x :
  settable k p = Some x -> kw_targets k ((p, v) :: r) = x :: kw_targets k r.
Proof.
  intro H. destruct (settable_parts k p x H) as [st [_ [Hfs _]]]. unfold kw_targets. simpl. rewrite Hfs. reflexivity.
Qed.

Lemma kws_ok_single k p v x : settable k p = Some x -> kws_ok k [(p, Some v)] = true.
Proof.
  intro H. destruct (settable_parts k p x H) as [st [_ [Hfs [_ Hxd]]]].
  unfold kws_ok, kw_targets. simpl. rewrite Hfs. simpl. apply mem_true_iff in Hxd. rewrite Hxd. reflexivity.
Qed.

Lemma set_each_spec c k : tables_symmetric k = true -> forall l d,
  forallb (kw_plain k) l = true -> NoDup (kw_targets k (opt_kvs l)) -> readable k d = true ->
  exists df, set_each c k l d = Ok df /\ readable k df = true /\
    (forall p v x, In (p, v) l -> settable k p = Some x -> get_property k p df = Ok (stored k p v)) /\
    (forall q y, settable k q = Some y -> ~ In y (kw_targets k (opt_kvs l)) -> aget y (blank k) = None ->
                 always_written k y = false -> get_property k q df = get_property k q d).
Proof.
  intro Hs. induction l as [|[p v] r IH]; intros d Hpl ND Hrd.
  - exists d. split; [reflexivity|]. split; [exact Hrd|]. split; [intros ? ? ? []| intros; reflexivity].
  - simpl in Hpl. apply andb_true_iff in Hpl as [Hp Hr]. unfold kw_plain in Hp. cbn [fst snd] in Hp.
    apply andb_true_iff in Hp as [Hnp Hp].
    assert (Hcomp : completed_kvs c k [(p, Some v)] d = Ok [(p, Some v)]).
    { apply completed_nopair. unfold no_pair_kw. cbn [forallb fst]. rewrite Hnp. reflexivity. }
    destruct (settable k p) as [x|] eqn:Eset; [|discriminate Hp].
    apply andb_true_iff in Hp as [Hp Hval]. apply andb_true_iff in Hp as [Hal Hbl].
    apply negb_true_iff in Hal. destruct (aget x (blank k)) eqn:Ebl; [discriminate Hbl|].
    change (opt_kvs ((p, v) :: r)) with ((p, Some v) :: opt_kvs r) in ND.
    rewrite (kw_targets_cons k p (Some v) (opt_kvs r) x Eset) in ND. inversion ND as [|? ? NI ND']; subst.
    destruct (multi_get c k [(p, Some v)] [(p, Some v)] d Hs Hcomp (kws_ok_single k p v x Eset) Hval Hrd)
      as [d1 [Hd1 [Hrd1 [Hw1 Hf1]]]].
    destruct (IH d1 Hr ND' Hrd1) as [df [Hdf [Hrdf [Hw Hf]]]].
    exists df. split; [|split; [exact Hrdf|split]].
    + simpl. unfold set_property_with. rewrite Hd1. cbn [bind]. exact Hdf.
    + intros p' v' x' Hin Hset'. destruct Hin as [E|Hin].
      * inversion E; subst p' v'. rewrite Eset in Hset'. inversion Hset'; subst x'.
        rewrite (Hf p x Eset NI Ebl Hal). apply (Hw1 p v x (or_introl eq_refl) Eset).
      * apply (Hw p' v' x' Hin Hset').
    + intros q y Hq Hny Hb Ha. change (opt_kvs ((p, v) :: r)) with ((p, Some v) :: opt_kvs r) in Hny.
      rewrite (kw_targets_cons k p (Some v) (opt_kvs r) x Eset) in Hny.
      rewrite (Hf q y Hq (fun H => Hny (or_intror H)) Hb Ha).
      apply (Hf1 q y Hq); [|exact Hb|exact Ha].
      rewrite (kw_targets_cons k p (Some v) [] x Eset). intros [E|[]]. apply Hny. left. exact E.
Qed.

(* observationally (every settable property but the always-rewritten flag), one set_properties call
   is the fold of set_property calls *)
Lemma plain_nopair k (l : list (string * fval)) : forallb (kw_plain k) l = true -> no_pair_kw (opt_kvs l) = true.
Proof.
  intro H. unfold no_pair_kw, opt_kvs. rewrite forallb_forall in *. intros kv Hkv.
  apply in_map_iff in Hkv as [pv [E Hpv]]. subst kv. cbn [fst]. specialize (H pv Hpv).
  unfold kw_plain in H. apply andb_true_iff in H as [H _]. exact H.
Qed.

Theorem multi_is_fold c k (l : list (string * fval)) d :
  tables_symmetric k = true ->
  forallb (kw_plain k) l = true -> kws_ok k (opt_kvs l) = true -> values_ok k (opt_kvs l) = true ->
  readable k d = true ->
  exists df dm, set_each c k l d = Ok df /\ set_properties_with c k (opt_kvs l) d = Ok dm /\
    forall q y, settable k q = Some y -> aget y (blank k) = None -> always_written k y = false ->
                get_property k q df = get_property k q dm.
Proof.
  intros Hs Hpl Hkw Hv Hrd. destruct (kws_ok_parts k _ Hkw) as [ND _].
  destruct (set_each_spec c k Hs l d Hpl ND Hrd) as [df [Hdf [_ [Hwf Hff]]]].
  destruct (multi_get c k (opt_kvs l) (opt_kvs l) d Hs (completed_nopair c k _ d (plain_nopair k l Hpl)) Hkw Hv Hrd)
    as [dm [Hdm [_ [Hwm Hfm]]]].
  exists df, dm. split; [exact Hdf | split; [exact Hdm|]].
  intros q y Hq Hb Ha.
  destruct (in_dec string_dec y (kw_targets k (opt_kvs l))) as [Hin|Hn].
  - unfold kw_targets in Hin. apply in_flat_map in Hin as [[p ov] [Hpin Hy]].
    unfold opt_kvs in Hpin. apply in_map_iff in Hpin as [[p' v] [E Hpv]]. inversion E; subst p ov. cbn [fst] in Hy.
    rewrite forallb_forall in Hpl. assert (Hp := Hpl _ Hpv). unfold kw_plain in Hp. cbn [fst snd] in Hp.
    apply andb_true_iff in Hp as [_ Hp].
    destruct (settable k p') as [x|] eqn:Eset; [|discriminate Hp].
    destruct (settable_parts k p' x Eset) as [st [_ [Hfs _]]]. rewrite Hfs in Hy. destruct Hy as [E'|[]]. subst x.
    rewrite (get_same_attr k p' q y df Eset Hq), (get_same_attr k p' q y dm Eset Hq).
    rewrite (Hwf p' v y Hpv Eset).
    rewrite (Hwm p' v y); [reflexivity | | exact Eset].
    unfold opt_kvs. apply in_map_iff. exists (p', v). split; [reflexivity | exact Hpv].
  - rewrite (Hff q y Hq Hn Hb Ha), (Hfm q y Hq Hn Hb Ha). reflexivity.
Qed.

(* the completion only adds or overrides keywords that were None: given values survive *)
Lemma aset_keeps {V} x (o2 : V) p o l :
  In (p, o) l -> (p = x -> alookup x l <> Some o) -> In (p, o) (aset x o2 l).
Proof.
  induction l as [|[z u] l IH]; simpl; intros Hin Hne; [contradiction|].
  destruct (String.eqb x z) eqn:E.
  - apply String.eqb_eq in E. subst z. destruct Hin as [Hin|Hin].
    + inversion Hin; subst. exfalso. apply (Hne eq_refl). reflexivity.
    + right. exact Hin.
  - destruct Hin as [Hin|Hin]; [left; exact Hin|]. right. apply IH; [exact Hin|].
    intros Ep. specialize (Hne Ep). exact Hne.
Qed.

Lemma complete_keeps k d : forall pairs (l l' : kvs) p v,
  complete_pairs k d pairs l = Ok l' -> In (p, Some v) l -> In (p, Some v) l'.
Proof.
  induction pairs as [|[one other] pairs IH]; intros l l' p v H Hin; simpl in H.
  - inversion H; subst. exact Hin.
  - destruct (kv_get one l) as [w1|]; [|apply (IH _ _ _ _ H Hin)].
    destruct (kv_get other l) as [w2|] eqn:Eo; [apply (IH _ _ _ _ H Hin)|].
    destruct (get_property k other d) as [[w|]|]; cbn [bind] in H; try discriminate H.
    apply (IH _ _ _ _ H). apply aset_keeps; [exact Hin|].
    intros Ep Ec. subst p. unfold kv_get in Eo. rewrite Ec in Eo. discriminate Eo.
Qed.

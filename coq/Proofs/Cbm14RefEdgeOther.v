(* C14 - refinement, connections: merge_adm leaves the connections of every other graph alone. *)
From Coq Require Import List NArith Bool Lia.
From FIM Require Import Model.Cbm14Store Model.Cbm14Spec Model.Cbm14Abs Proofs.Cbm14Assoc Proofs.Cbm14Merge
     Proofs.Cbm14Frame Proofs.Cbm14RefBase Proofs.Cbm14RefPrep Proofs.Cbm14RefFold Proofs.Cbm14RefMerge
     Proofs.Cbm14RefUnmerge Proofs.Cbm14RefEdge Proofs.Cbm14RefEdgePrep Proofs.Cbm14RefEdgeLoop Proofs.Cbm14RefEdgeMerge.
Import ListNotations.
Open Scope N_scope.

Lemma reattach_other u v es e i j : i <> u -> j <> u -> edat (reattach u v es e) i j = edat es i j.
Proof.
  intros Iu Ju. unfold reattach.
  set (x := if (if e_a e =? v then e_b e else e_a e) =? v then u else (if e_a e =? v then e_b e else e_a e)).
  destruct (has_edge u x es).
  - unfold flag_edge. apply edat_map. intro e0. destruct (joins u x e0); simpl; auto.
  - rewrite edat_app. destruct (edat es i j); auto. unfold edat; simpl. rewrite joins_mk.
    unfold pairb. assert (i =? u = false) as -> by (apply N.eqb_neq; auto).
    assert (j =? u = false) as -> by (apply N.eqb_neq; auto). rewrite andb_false_r. reflexivity.
Qed.

Lemma contract_other u v st i j :
  i <> u -> j <> u -> i <> v -> j <> v -> edat (s_edges (contract u v st)) i j = edat (s_edges st) i j.
Proof.
  intros Iu Ju Iv Jv.
  change (s_edges (contract u v st)) with
    (pop_contraction u (fold_left (reattach u v) (filter (fun e => (e_a e =? v) || (e_b e =? v)) (s_edges st))
                                  (filter (fun e => negb (e_a e =? v) && negb (e_b e =? v)) (s_edges st)))).
  assert (forall es, edat (pop_contraction u es) i j = edat es i j) as PP.
  { intro es. unfold pop_contraction. apply edat_map. intro e. destruct ((e_a e =? u) || (e_b e =? u)); simpl; auto. }
  rewrite PP.
  assert (forall ev es, edat (fold_left (reattach u v) ev es) i j = edat es i j) as FF.
  { induction ev as [|e r IH]; intro es; simpl; auto. rewrite IH. apply reattach_other; auto. }
  rewrite FF. apply edat_filter_keep. intros e _ Jn.
  assert (incident v e = false) as X by (apply (joins_not_incident i j v e Jn); auto).
  unfold incident in X. rewrite <- negb_orb, X. reflexivity.
Qed.

(* no node of the two graphs being merged has internal id i or j *)
Definition clear_of (cbm tmp i j : N) (ns : list node) : Prop :=
  forall n, In n ns -> n_gid n = cbm \/ n_gid n = tmp -> n_int n <> i /\ n_int n <> j.

Lemma fold_other cbm tmp adm i j : forall todo s st3,
  clear_of cbm tmp i j (s_nodes s) ->
  fold_left (merge_one cbm tmp adm) todo (Some s) = Some st3 ->
  edat (s_edges st3) i j = edat (s_edges s) i j.
Proof.
  induction todo as [|x r IH]; intros s st3 CL H.
  - simpl in H. inversion H; reflexivity.
  - change (fold_left (merge_one cbm tmp adm) (x :: r) (Some s))
      with (fold_left (merge_one cbm tmp adm) r (merge_one cbm tmp adm (Some s) x)) in H.
    destruct (merge_one cbm tmp adm (Some s) x) as [s1|] eqn:M.
    2:{ exfalso. clear - H. induction r; simpl in H; [discriminate|auto]. }
    simpl in M. rewrite !find_node_at in M.
    destruct (at_ cbm x (s_nodes s)) as [c|] eqn:Hc; [|discriminate].
    destruct (at_ tmp x (s_nodes s)) as [t|] eqn:Ht; [|discriminate].
    destruct (n_si c) as [| |l] eqn:Si; try discriminate. inversion M as [M']. clear M.
    apply at_In in Hc as (Hc & Gc & _). apply at_In in Ht as (Ht & Gt & _).
    destruct (CL c Hc (or_introl Gc)) as [C1 C2]. destruct (CL t Ht (or_intror Gt)) as [T1 T2].
    rewrite (IH s1 st3); auto.
    + rewrite <- M'. rewrite contract_other; auto.
    + rewrite <- M'. intros n Hn Gn. simpl in Hn. apply filter_In in Hn as [Hn _].
      apply in_map_iff in Hn as (m0 & E & Hm). destruct (n_int m0 =? n_int c) eqn:Q.
      * subst n. simpl. auto.
      * subst n. apply (CL m0 Hm Gn).
Qed.

Theorem merge_other_edges cbm adm tmp st st' h :
  J (s_next st) (s_nodes st) -> ebelow (s_next st) (s_edges st) -> cbm_wf cbm (s_nodes st) ->
  cbm <> tmp -> adm <> cbm -> gexists tmp st = false ->
  merge_adm cbm adm tmp st = OOk st' -> h <> cbm -> h <> tmp ->
  forall e, gete e (abs_edges h st') = gete e (abs_edges h st).
Proof.
  intros Jst EB W NE NA FR H H1 H2. pose proof Jst as (U & B & K).
  destruct (merge_refines_nodes cbm adm tmp st st' Jst W NE NA FR H) as (_ & _ & J' & _ & OT & _).
  pose proof J' as (U' & _ & K').
  (* the connections between old internal ids that belong to neither graph are unchanged *)
  assert (forall i j, i < s_next st -> j < s_next st ->
            (forall n, In n (s_nodes st) -> n_gid n = cbm -> n_int n <> i /\ n_int n <> j) ->
            edat (s_edges st') i j = edat (s_edges st) i j) as OE.
  { intros i j Li Lj CL. rewrite merge_adm_eq in H.
    destruct (negb (gexists adm st)); [discriminate|].
    destruct (rw_nodes adm tmp (s_nodes (clone adm tmp st))) as [ns2|] eqn:R; [|discriminate].
    destruct (prep_full adm tmp st ns2 Jst EB FR R) as (tn & m & E2 & EE & IM & RN & J2 & EB2 & LE).
    set (st2 := prep_store adm tmp st ns2) in *. cbv zeta in H.
    pose proof (notmp_of_fresh tmp st FR) as NT.
    assert (edat (s_edges st2) i j = edat (s_edges st) i j) as E0.
    { rewrite EE, edat_app. destruct (edat (s_edges st) i j); auto. apply (clone_edges_old (s_next st)); auto. }
    assert (clear_of cbm tmp i j (s_nodes st2)) as CL2.
    { intros n Hn Gn. rewrite E2 in Hn. apply in_app_iff in Hn as [Hn|Hn].
      - destruct Gn as [Gn|Gn]; [apply CL; auto|exfalso; apply (NT n Hn Gn)].
      - destruct (Forall2_in_r _ _ _ _ IM Hn) as (a & _ & (_ & L)). apply RN in L. lia. }
    destruct (negb (gexists cbm st2)).
    - unfold rehome in H. destruct (gexists tmp st2); [|discriminate]. inversion H; subst st'. exact E0.
    - destruct (existsb _ _); [discriminate|].
      destruct (fold_left (merge_one cbm tmp adm) _ (Some st2)) as [st3|] eqn:F; [|discriminate].
      assert (s_edges st' = s_edges st3) as ->.
      { destruct (gexists tmp st3); [unfold rehome in H; destruct (gexists tmp st3) in H|]; inversion H; reflexivity. }
      rewrite (fold_other cbm tmp adm i j _ st2 st3 CL2 F). exact E0. }
  intros [x y]. destruct (N.ltb_spec y x) as [L|L]; [rewrite !abs_edges_unordered; auto|].
  rewrite (ordered_minmax x y L), (abs_edges_get h st' x y U' K'), (abs_edges_get h st x y U K), !OT; auto.
  destruct (at_ h x (s_nodes st)) as [nx0|] eqn:Ax; auto. destruct (at_ h y (s_nodes st)) as [ny0|] eqn:Ay; auto.
  apply at_In in Ax as (Hx & Gx & _). apply at_In in Ay as (Hy & Gy & _).
  apply OE; auto.
  intros n Hn Gn. split; intro X.
  - assert (n = nx0) by (apply (uniq_inj (s_nodes st)); auto). congruence.
  - assert (n = ny0) by (apply (uniq_inj (s_nodes st)); auto). congruence.
Qed.

(* C14 - the invariant of every history of merge / unmerge / snapshot / rollback over the abstract model,
   and what it gives for families: elements appear once, contributors are exactly the merged models that
   have the element, delegations are keyed by the contributor that supplied them, the node set is the union. *)
From Coq Require Import List NArith Bool Lia Permutation.
From FIM Require Import Model.Cbm14Spec Proofs.Cbm14Assoc Proofs.Cbm14Merge Proofs.Cbm14Unmerge.
Import ListNotations.
Open Scope N_scope.

Definition contributors_exact (Ms : list adm) (C : cbm) : Prop :=
  forall k, match getn k (nodes C) with
            | Some c => forall g, In g (c_con c) <-> exists A, In A Ms /\ adm_id A = g /\ hasn k (adm_nodes A) = true
            | None => forall A, In A Ms -> hasn k (adm_nodes A) = false
            end.
Definition keyed_by (Ms : list adm) (C : cbm) : Prop :=
  forall k c g x, getn k (nodes C) = Some c ->
    (c_ld c = Some (g, x) -> exists A a, In A Ms /\ adm_id A = g /\ getn k (adm_nodes A) = Some a /\ a_ld a = Some x) /\
    (c_cd c = Some (g, x) -> exists A a, In A Ms /\ adm_id A = g /\ getn k (adm_nodes A) = Some a /\ a_cd a = Some x).

Definition Inv (Ms : list adm) (C : cbm) : Prop :=
  nodup_keys C /\ all_alive C /\ no_dangling C /\ NoDup (map adm_id Ms) /\ Forall wf_adm Ms /\
  contributors_exact Ms C /\ keyed_by Ms C.

Lemma hasn_get {V} k (l : list (N * V)) v : getn k l = Some v -> hasn k l = true.
Proof. unfold hasn, has, getn. intros ->. reflexivity. Qed.
Lemma hasn_none {V} k (l : list (N * V)) : getn k l = None -> hasn k l = false.
Proof. unfold hasn, has, getn. intros ->. reflexivity. Qed.

Lemma Inv_keyed Ms C : Inv Ms C -> keyed C.
Proof.
  intros (_ & _ & _ & _ & _ & CE & KB) k c g x Hc HK.
  specialize (CE k). rewrite Hc in CE. apply CE.
  destruct (KB k c g x Hc) as [K1 K2].
  destruct HK as [HK|HK]; [destruct (K1 HK) as (A & a & ? & ? & Ha & _) | destruct (K2 HK) as (A & a & ? & ? & Ha & _)];
    exists A; repeat split; auto; eapply hasn_get; eauto.
Qed.

Lemma Inv_wf_cbm Ms C : Inv Ms C -> wf_cbm C.
Proof. intro H. pose proof (Inv_keyed _ _ H). destruct H as (? & ? & ? & _). split; [|split; [|split]]; auto. Qed.

Lemma Inv_empty : Inv [] empty.
Proof.
  unfold Inv, nodup_keys, all_alive, no_dangling, contributors_exact, keyed_by, empty; simpl.
  repeat split; try constructor; try discriminate; intros; try contradiction.
Qed.

Lemma Inv_not_contributor Ms C g : Inv Ms C -> ~ In g (map adm_id Ms) -> not_contributor g C.
Proof.
  intros (_ & _ & _ & _ & _ & CE & _) NI k c Hc Hin.
  specialize (CE k). rewrite Hc in CE. apply CE in Hin as (A & HA & E & _).
  apply NI. rewrite <- E. apply in_map. exact HA.
Qed.

(* ---- merge preserves the invariant ---- *)
Lemma NoDup_snoc {A} (l : list A) x : NoDup l -> ~ In x l -> NoDup (l ++ [x]).
Proof.
  induction l as [|y r IH]; simpl; intros ND NI.
  - constructor; auto.
  - inversion ND; subst. constructor.
    + rewrite in_app_iff. simpl. intros [?|[?|[]]]; [contradiction|subst; apply NI; auto].
    + apply IH; auto.
Qed.

Lemma alive_app (l : list N) (g : N) : match l ++ [g] with [] => false | _ => true end = true.
Proof. destruct l; reflexivity. Qed.

Lemma Inv_smerge Ms C A C' :
  Inv Ms C -> wf_adm A -> ~ In (adm_id A) (map adm_id Ms) -> smerge C A = Some C' -> Inv (Ms ++ [A]) C'.
Proof.
  intros I WA NI H. pose proof I as (ND & AL & DG & NDI & WF & CE & KB).
  unfold Inv. repeat split.
  - apply (smerge_nodup _ _ _ WA ND H).
  - apply (smerge_nodup _ _ _ WA ND H).
  - intros k c'. rewrite (smerge_get_node _ _ _ k H).
    destruct (getn k (nodes C)) as [c|] eqn:Hc, (getn k (adm_nodes A)) as [a|]; intro E; inversion E; subst; clear E.
    + unfold alive, upd; simpl. apply alive_app.
    + eauto.
    + reflexivity.
  - (* no dangling connection *)
    assert (forall k, hasn k (nodes C') = hasn k (nodes C) || hasn k (adm_nodes A)) as HN.
    { intro k. unfold hasn, has. fold (@getn cnode) (@getn anode). rewrite (smerge_get_node _ _ _ k H).
      destruct (getn k (nodes C)), (getn k (adm_nodes A)); reflexivity. }
    rewrite !HN.
    unfold hase, has in H0. fold (@gete edata) in H0. rewrite (smerge_get_edge _ _ _ e H) in H0.
    destruct (gete e (edges C)) as [d0|] eqn:Ec.
    + assert (hase e (edges C) = true) as X by (unfold hase, has; fold (@gete edata); rewrite Ec; reflexivity).
      destruct (DG e X) as [-> _]. reflexivity.
    + destruct (gete e (adm_edges A)) as [d|] eqn:Ea; [|discriminate].
      destruct WA as (_ & _ & WE).
      destruct (WE e) as [-> _]; [|apply orb_true_r].
      apply (has_true_iff ekey_eqb ekey_eqb_eq). unfold has. fold (@gete edata). rewrite Ea. reflexivity.
  - assert (forall k, hasn k (nodes C') = hasn k (nodes C) || hasn k (adm_nodes A)) as HN.
    { intro k. unfold hasn, has. fold (@getn cnode) (@getn anode). rewrite (smerge_get_node _ _ _ k H).
      destruct (getn k (nodes C)), (getn k (adm_nodes A)); reflexivity. }
    rewrite !HN.
    unfold hase, has in H0. fold (@gete edata) in H0. rewrite (smerge_get_edge _ _ _ e H) in H0.
    destruct (gete e (edges C)) as [d0|] eqn:Ec.
    + assert (hase e (edges C) = true) as X by (unfold hase, has; fold (@gete edata); rewrite Ec; reflexivity).
      destruct (DG e X) as [_ ->]. reflexivity.
    + destruct (gete e (adm_edges A)) as [d|] eqn:Ea; [|discriminate].
      destruct WA as (_ & _ & WE).
      destruct (WE e) as [_ ->]; [|apply orb_true_r].
      apply (has_true_iff ekey_eqb ekey_eqb_eq). unfold has. fold (@gete edata). rewrite Ea. reflexivity.
  - rewrite map_app. simpl. apply NoDup_snoc; assumption.
  - apply Forall_app; split; auto.
  - (* contributors exact *)
    intro k. rewrite (smerge_get_node _ _ _ k H). specialize (CE k).
    destruct (getn k (nodes C)) as [c|] eqn:Hc, (getn k (adm_nodes A)) as [a|] eqn:Ha.
    + intro g. unfold upd; simpl. rewrite in_app_iff, CE. simpl. split.
      * intros [(B & HB & E & X)|[E|[]]].
        -- exists B. rewrite in_app_iff. auto.
        -- exists A. rewrite in_app_iff. simpl. repeat split; auto. eapply hasn_get; eauto.
      * intros (B & HB & E & X). rewrite in_app_iff in HB. destruct HB as [HB|[HB|[]]]; [left; eauto|subst; auto].
    + intro g. rewrite CE. split.
      * intros (B & HB & E & X). exists B. rewrite in_app_iff. auto.
      * intros (B & HB & E & X). rewrite in_app_iff in HB. destruct HB as [HB|[HB|[]]]; [eauto|].
        subst. rewrite (hasn_none _ _ Ha) in X. discriminate.
    + intro g. simpl. split.
      * intros [E|[]]. exists A. rewrite in_app_iff. simpl. repeat split; auto. eapply hasn_get; eauto.
      * intros (B & HB & E & X). rewrite in_app_iff in HB. destruct HB as [HB|[HB|[]]]; [|subst; auto].
        rewrite (CE B HB) in X. discriminate.
    + intros B HB. rewrite in_app_iff in HB. destruct HB as [HB|[HB|[]]]; [auto|subst; apply hasn_none; auto].
  - (* label delegation keyed by its contributor *)
    revert H0. rewrite (smerge_get_node _ _ _ k H).
    destruct (getn k (nodes C)) as [c0|] eqn:Hc, (getn k (adm_nodes A)) as [a|] eqn:Ha; intro E; inversion E; subst; clear E.
    + unfold upd; simpl. destruct (c_ld c0) as [[g0 x0]|] eqn:L; simpl.
      * intro E; inversion E; subst. destruct (KB k c0 g x Hc) as [K1 _].
        destruct (K1 L) as (B & b & ? & ? & ? & ?). exists B, b. rewrite in_app_iff. auto.
      * destruct (a_ld a) eqn:La; simpl; [|discriminate]. intro E; inversion E; subst.
        exists A, a. rewrite in_app_iff. simpl. auto.
    + intro L. destruct (KB k c g x Hc) as [K1 _]. destruct (K1 L) as (B & b & ? & ? & ? & ?).
      exists B, b. rewrite in_app_iff. auto.
    + unfold stamp; simpl. destruct (a_ld a) eqn:La; simpl; [|discriminate]. intro E; inversion E; subst.
      exists A, a. rewrite in_app_iff. simpl. auto.
  - revert H0. rewrite (smerge_get_node _ _ _ k H).
    destruct (getn k (nodes C)) as [c0|] eqn:Hc, (getn k (adm_nodes A)) as [a|] eqn:Ha; intro E; inversion E; subst; clear E.
    + unfold upd; simpl. destruct (c_cd c0) as [[g0 x0]|] eqn:L; simpl.
      * intro E; inversion E; subst. destruct (KB k c0 g x Hc) as [_ K2].
        destruct (K2 L) as (B & b & ? & ? & ? & ?). exists B, b. rewrite in_app_iff. auto.
      * destruct (a_cd a) eqn:La; simpl; [|discriminate]. intro E; inversion E; subst.
        exists A, a. rewrite in_app_iff. simpl. auto.
    + intro L. destruct (KB k c g x Hc) as [_ K2]. destruct (K2 L) as (B & b & ? & ? & ? & ?).
      exists B, b. rewrite in_app_iff. auto.
    + unfold stamp; simpl. destruct (a_cd a) eqn:La; simpl; [|discriminate]. intro E; inversion E; subst.
      exists A, a. rewrite in_app_iff. simpl. auto.
Qed.

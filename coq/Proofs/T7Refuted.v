(* C07 - the full statement "every building call keeps WF" is FALSE of the faithful model: concrete witnesses,
   each replayed on the real API by the harness on every run (harness/c07.py WITNESSES). *)
From Coq Require Import String List NArith Bool.
From FIM Require Import Base.Str Gen.Rules Model.T7Graph Model.T7Ops Model.T7WF Model.T7Steps
     Proofs.T7Tables Proofs.T7WFRefl.
Import ListNotations.

Lemma not_WF_by_b g : wf_b g = false -> ~ WF g.
Proof. intros H W. apply wf_b_reflect in W. congruence. Qed.

(* two nodes, then rename the second to the name of the first (model_element.py:69 checks nothing) *)
Definition w_rename_hist : list hstep :=
  [(OAddNode (S "n1") (Some (S "a")) (S "VM"), [], []); (OAddNode (S "n2") (Some (S "b")) (S "VM"), [], [])].
Definition w_rename_op : op := ORename (RNode (S "b")) (S "n1").
Lemma rename_refuted :
  let g := run_hist false flags_off empty_graph w_rename_hist in
  WF g /\ ~ WF (fst (step false flags_off g w_rename_op [] [])).
Proof. split; [apply wf_b_reflect; vm_compute; reflexivity | apply not_WF_by_b; vm_compute; reflexivity]. Qed.

(* connect an interface to a service, then remove the peering link by name (topology.py:361) *)
Definition w_link_hist : list hstep :=
  [(OAddNode (S "n1") (Some (S "a")) (S "VM"), [], []);
   (OAddComponent (S "a") (S "c1") (Some (S "c")) (S "SharedNIC") (S "ConnectX-6") (Some (S "s")) (Some [S "i"]), [], []);
   (OAddNS (S "s1") (Some (S "b")) (S "L2Bridge") [S "i"], [S "g3x0"; S "g3x1"], [])].
Definition w_link_op : op := ORemoveLink (S "n1-c1-p1-link").
Lemma remove_link_refuted :
  let g := run_hist false flags_off empty_graph w_link_hist in
  WF g /\ ~ WF (fst (step false flags_off g w_link_op [] [])).
Proof. split; [apply wf_b_reflect; vm_compute; reflexivity | apply not_WF_by_b; vm_compute; reflexivity]. Qed.

(* the outcomes of the witnesses are normal returns: the violation is not an artefact of an error path *)
Lemma witnesses_return_normally :
  snd (step false flags_off (run_hist false flags_off empty_graph w_rename_hist) w_rename_op [] []) = None /\
  snd (step false flags_off (run_hist false flags_off empty_graph w_link_hist) w_link_op [] []) = None.
Proof. vm_compute. repeat split. Qed.

(* with the proposed repairs (flags_on) the same calls are refused and leave the model untouched *)
Lemma witnesses_refused_when_repaired :
  step false flags_on (run_hist false flags_on empty_graph w_rename_hist) w_rename_op [] []
    = (run_hist false flags_on empty_graph w_rename_hist, Some ETopology) /\
  step false flags_on (run_hist false flags_on empty_graph w_link_hist) w_link_op [] []
    = (run_hist false flags_on empty_graph w_link_hist, Some ETopology).
Proof. vm_compute. split; reflexivity. Qed.

(* add_facility with a repeated interface name is refused and rolled back (fixes 18a115a, 2982a89) *)
Definition w_facility_op : op := OAddFacility (S "f1") (Some (S "f")) (Some [S "p"; S "p"]).
Lemma add_facility_duplicate_refused :
  forall fl, step false fl empty_graph w_facility_op [] [] = (empty_graph, Some ETopology).
Proof. intro fl. vm_compute. reflexivity. Qed.

(* peer of a service with itself (through two handles, as topology.network_services hands them out): two service ports
   of one name under the service (network_service.py:436 checks neither) *)
Definition w_selfpeer_hist : list hstep := [(OAddNS (S "s1") (Some (S "a")) (S "L2Bridge") [], [], [])].
Definition w_selfpeer_op : op := OPeer (S "a") (S "a").
Definition w_selfpeer_ids : list str := [S "p1"; S "p2"; S "l1"].
Lemma peer_self_refuted :
  let g := run_hist false flags_off empty_graph w_selfpeer_hist in
  WF g /\ ~ WF (fst (step false flags_off g w_selfpeer_op w_selfpeer_ids [])) /\
  snd (step false flags_off g w_selfpeer_op w_selfpeer_ids []) = None.
Proof. split; [apply wf_b_reflect; vm_compute; reflexivity | split; [apply not_WF_by_b; vm_compute; reflexivity | vm_compute; reflexivity]]. Qed.

(* peer when a link already carries the derived name <a>-<b>-link: a second link of that name *)
Definition w_peerlink_hist : list hstep :=
  [(OAddNode (S "n1") (Some (S "n")) (S "VM"), [], []);
   (OAddComponent (S "n") (S "c1") (Some (S "c")) (S "SmartNIC") (S "ConnectX-6") (Some (S "s")) (Some [S "i"; S "j"]), [], []);
   (OAddNS (S "s1") (Some (S "a")) (S "L2Bridge") [], [], []);
   (OAddNS (S "s2") (Some (S "b")) (S "L2Bridge") [], [], []);
   (OAddLink (S "s1-s2-link") (Some (S "l")) (S "Patch") [S "i"; S "j"], [], [])].
Definition w_peerlink_op : op := OPeer (S "a") (S "b").
Lemma peer_link_name_refuted :
  let g := run_hist false flags_off empty_graph w_peerlink_hist in
  WF g /\ ~ WF (fst (step false flags_off g w_peerlink_op w_selfpeer_ids [])) /\
  snd (step false flags_off g w_peerlink_op w_selfpeer_ids []) = None.
Proof. split; [apply wf_b_reflect; vm_compute; reflexivity | split; [apply not_WF_by_b; vm_compute; reflexivity | vm_compute; reflexivity]]. Qed.

(* with the proposed check (C07-7) both are refused and nothing changes *)
Lemma peer_witnesses_refused_when_repaired :
  step false flags_on (run_hist false flags_on empty_graph w_selfpeer_hist) w_selfpeer_op w_selfpeer_ids []
    = (run_hist false flags_on empty_graph w_selfpeer_hist, Some ETopology) /\
  step false flags_on (run_hist false flags_on empty_graph w_peerlink_hist) w_peerlink_op w_selfpeer_ids []
    = (run_hist false flags_on empty_graph w_peerlink_hist, Some ETopology).
Proof. vm_compute. split; reflexivity. Qed.

(* the PLURAL entry point set_properties(name=...) is not covered by the uniqueness check of 6648cd3 *)
Definition w_setprops_op : op := OSetProp (RNode (S "b")) PNames (S "n1").
Definition flags_rename_only : flags := mkFlags true true true true true true true false true true true.
Lemma set_properties_name_refuted :
  let g := run_hist false flags_rename_only empty_graph w_rename_hist in
  WF g /\ ~ WF (fst (step false flags_rename_only g w_setprops_op [] [])) /\
  snd (step false flags_rename_only g w_setprops_op [] []) = None /\
  step false flags_rename_only g w_rename_op [] [] = (g, Some ETopology) /\
  step false flags_on g w_setprops_op [] [] = (g, Some ETopology).
Proof.
  split; [apply wf_b_reflect; vm_compute; reflexivity|]. split; [apply not_WF_by_b; vm_compute; reflexivity|].
  vm_compute. repeat split.
Qed.

(* ---- round 5: three more entry points ------------------------------------------------------------------------------- *)
(* the library at HEAD a4fc126: every landed repair, not the proposed C07-9 / C07-10 *)
Definition flags_head : flags := mkFlags true true true true true true true true false false true.

(* add_link handed two Node objects: the graph layer only looks whether the ids exist, the Link joins two NetworkNodes *)
Definition w_linknodes_op : op := OAddLink (S "l1") (Some (S "l")) (S "Patch") [S "a"; S "b"].
Lemma add_link_non_interfaces_refuted :
  let g := run_hist false flags_head empty_graph w_rename_hist in
  WF g /\ ~ WF (fst (step false flags_head g w_linknodes_op [] [])) /\
  snd (step false flags_head g w_linknodes_op [] []) = None /\
  step false flags_on g w_linknodes_op [] [] = (g, Some ETopology).
Proof.
  split; [apply wf_b_reflect; vm_compute; reflexivity|]. split; [apply not_WF_by_b; vm_compute; reflexivity|].
  vm_compute. repeat split.
Qed.

(* disconnect_interface handed the service's own peering port: the other service's port and the link go, the port
   itself stays without peer *)
Definition w_discpeer_hist : list hstep :=
  [(OAddNS (S "sA") (Some (S "a")) (S "L2Bridge") [], [], []); (OAddNS (S "sB") (Some (S "b")) (S "L2Bridge") [], [], []);
   (OPeer (S "a") (S "b"), [S "p1"; S "p2"; S "l1"], [])].
Definition w_discpeer_op : op := ODisconnect (S "a") (S "p1").
Lemma disconnect_peering_port_refuted :
  let g := run_hist false flags_head empty_graph w_discpeer_hist in
  WF g /\ ~ WF (fst (step false flags_head g w_discpeer_op [] [])) /\
  snd (step false flags_head g w_discpeer_op [] []) = None /\
  step false flags_on g w_discpeer_op [] [] = (g, Some ETopology).
Proof.
  split; [apply wf_b_reflect; vm_compute; reflexivity|]. split; [apply not_WF_by_b; vm_compute; reflexivity|].
  vm_compute. repeat split.
Qed.

(* add_interface through the handle of a service that is gone, before a4fc126: the interface node is added, the owner
   edge fails, an interface without owner stays; since a4fc126 the parent is looked up first and nothing is left *)
Definition w_stale_op : op := OStaleAddIface (S "gone") (S "p1") (Some (S "x")) (S "TrunkPort").
Definition flags_before_parent_first : flags := mkFlags true true true true true true true true false false false.
Lemma stale_add_interface_refuted :
  ~ WF (fst (step false flags_before_parent_first empty_graph w_stale_op [] [])) /\
  snd (step false flags_before_parent_first empty_graph w_stale_op [] []) = Some EQuery /\
  step false flags_head empty_graph w_stale_op [] [] = (empty_graph, Some EQuery).
Proof. split; [apply not_WF_by_b; vm_compute; reflexivity | vm_compute; split; reflexivity]. Qed.

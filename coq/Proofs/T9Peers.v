(* C09 - peers of an interface of g in the extended graph: unchanged if the interface has not been
   connected by the constructor, and containing the new ServicePort if it has. *)
From Coq Require Import List NArith Bool Lia.
From FIM Require Import Base.Str Gen.T9Names Model.T9Graph Model.T9Ops Proofs.T9Monad Proofs.T9Simple Proofs.T9Ext.
Import ListNotations.
Open Scope N_scope.

Lemma conns_untouched' x ns cs :
  x <> ns -> (forall c', In c' cs -> k_p c' <> x /\ k_l c' <> x /\ k_i c' <> x) ->
  untouched x (flat_map (conn_edges ns) cs).
Proof.
  intros Hns H e He. apply in_flat_map in He as [c' [Hin He]]. destruct (H c' Hin) as (Hp & Hl & Hi).
  simpl in He. unfold touches.
  destruct He as [<-|[<-|[<-|[]]]]; simpl; apply orb_false_iff; split; apply N.eqb_neq; auto.
Qed.

Section Peers.
  Variables (g : graph) (nsn : node) (cs : list conn).
  Hypothesis Hclosed : closed g.
  Hypothesis G : good g nsn cs.
  Let E := ext g nsn cs.
  Let ns := nid nsn.

  Lemma ns_new : ~ In ns (ids g).
  Proof. apply (good_new_not_old g nsn cs ns G). left; reflexivity. Qed.
  Lemma p_new c : In c cs -> ~ In (k_p c) (ids g).
  Proof. intro H. apply (good_new_not_old g nsn cs _ G). right. apply conn_ids_In_p; auto. Qed.
  Lemma l_new c : In c cs -> ~ In (k_l c) (ids g).
  Proof. intro H. apply (good_new_not_old g nsn cs _ G). right. apply conn_ids_In_l; auto. Qed.

  Lemma adj_rel_ext x r : adj_rel E x r = adj_rel g x r ++ adj_es (flat_map (conn_edges ns) cs) x r.
  Proof. unfold adj_rel, E, ext; simpl. rewrite flat_map_app. reflexivity. Qed.
  Lemma adj_any_ext x : adj_any E x = adj_any g x ++ adj_any_es (flat_map (conn_edges ns) cs) x.
  Proof. unfold adj_any, E, ext; simpl. rewrite flat_map_app. reflexivity. Qed.

  (* a Link-class node of g is not touched by the new edges *)
  Lemma old_link_untouched l0 : In l0 (ids g) -> has_cls g cLink l0 = true ->
    untouched l0 (flat_map (conn_edges ns) cs).
  Proof.
    intros Hin Hcl. apply conns_untouched'.
    - intro X. apply ns_new. rewrite <- X. auto.
    - intros c' Hc'. repeat split.
      + intro X. apply (p_new c' Hc'). rewrite X. auto.
      + intro X. apply (l_new c' Hc'). rewrite X. auto.
      + intro X. assert (Hcp := gd_cp _ _ _ G c' Hc'). rewrite X in Hcp.
        unfold has_cls in Hcp, Hcl. destruct (cls_of g l0); [|discriminate].
        apply N.eqb_eq in Hcp. apply N.eqb_eq in Hcl. subst. discriminate.
  Qed.

  Lemma old_links_same i :
    flat_map (fun l0 => remove_N i (filter (has_cls E cCP) (adj_any E l0)))
             (filter (has_cls E cLink) (adj_rel g i rConnects))
    = flat_map (fun l0 => remove_N i (filter (has_cls g cCP) (adj_any g l0)))
               (filter (has_cls g cLink) (adj_rel g i rConnects)).
  Proof.
    rewrite (filter_ext_in' (has_cls E cLink) (has_cls g cLink)).
    2:{ intros y Hy. unfold E. apply has_cls_ext_old. eapply adj_in_closed; eauto. }
    apply flat_map_ext_in. intros l0 Hl0. apply filter_In in Hl0 as [Hl0 Hcl0].
    assert (Hin0 : In l0 (ids g)) by (eapply adj_in_closed; eauto).
    f_equal. rewrite adj_any_ext.
    rewrite (adj_any_es_untouched _ _ (old_link_untouched l0 Hin0 Hcl0)). rewrite app_nil_r.
    apply filter_ext_in'. intros y Hy. unfold E. apply has_cls_ext_old. eapply adj_any_in_closed; eauto.
  Qed.

  Lemma nodupE : NoDup (ids E).
  Proof. unfold E. rewrite ids_ext. apply (gd_nodup _ _ _ G). Qed.

  Lemma find_E_old x : In x (ids g) -> exists n, find_node E x = Ok n.
  Proof.
    intro H. destruct (In_ids_find E x nodupE) as [n [Hn _]]; eauto.
    unfold E. rewrite ids_ext. apply in_app_iff; auto.
  Qed.

  (* PT: an interface of g that the constructor has not connected has the peers it had in g *)
  Lemma peers_transport i : In i (ids g) -> NoDup (ids g) -> ~ In i (map k_i cs) ->
    peer_cps E i = peer_cps g i.
  Proof.
    intros Hin Hndg Hnot. unfold peer_cps.
    destruct (find_E_old i Hin) as [n ->]. destruct (In_ids_find g i Hndg Hin) as [m [-> _]].
    f_equal. rewrite adj_rel_ext.
    assert (U : untouched i (flat_map (conn_edges ns) cs)).
    { apply conns_untouched'.
      - intro X. apply ns_new. rewrite <- X. auto.
      - intros c' Hc'. repeat split.
        + intro X. apply (p_new c' Hc'). rewrite X. auto.
        + intro X. apply (l_new c' Hc'). rewrite X. auto.
        + intro X. apply Hnot. rewrite <- X. apply in_map; auto. }
    rewrite (adj_es_untouched _ _ _ U). rewrite app_nil_r. apply old_links_same.
  Qed.

  Lemma In_remove_N x y l : In y l -> y <> x -> In y (remove_N x l).
  Proof.
    induction l; simpl; intros Hin Hne; [contradiction|].
    destruct (a =? x) eqn:Ea.
    - destruct Hin as [->|Hin]; [apply N.eqb_eq in Ea; contradiction|auto].
    - destruct Hin as [->|Hin]; [left; auto|right; auto].
  Qed.

  (* PM: an interface the constructor has connected has the new ServicePort among its peers *)
  Lemma peers_member c : In c cs -> exists L, peer_cps E (k_i c) = Ok L /\ In (k_p c) L.
  Proof.
    intro Hc. assert (Hi : In (k_i c) (ids g)) by (eapply good_i_old; eauto).
    assert (Hnp := p_new c Hc). assert (Hnl := l_new c Hc).
    unfold peer_cps. destruct (find_E_old _ Hi) as [n ->]. eexists. split; [reflexivity|].
    apply in_flat_map. exists (k_l c). split.
    - apply filter_In. split.
      + rewrite adj_rel_ext. apply in_app_iff. right. unfold adj_es. apply in_flat_map.
        exists (mkEdge (k_l c) (k_i c) rConnects). split.
        * apply in_flat_map. exists c. split; auto. right; left; reflexivity.
        * simpl. unfold other_end; simpl.
          rewrite (neqb_of_neq (k_l c) (k_i c)) by (intro X; apply Hnl; rewrite X; auto).
          rewrite N.eqb_refl. left; reflexivity.
      + unfold has_cls, E.
        assert (X := cls_of_ext_new g nsn cs (mkNode (k_l c) cLink (k_pname c ++ suffix_link) (k_lty c) 0)
                                (gd_nodup _ _ _ G) (or_intror (conn_l_node c cs Hc))).
        simpl in X. rewrite X. reflexivity.
    - apply In_remove_N; [|intro X; apply Hnp; rewrite X; auto].
      apply filter_In. split.
      + rewrite adj_any_ext. apply in_app_iff. right. unfold adj_any_es. apply in_flat_map.
        exists (mkEdge (k_l c) (k_p c) rConnects). split.
        * apply in_flat_map. exists c. split; auto. right; right; left; reflexivity.
        * unfold other_end; simpl. rewrite N.eqb_refl. left; reflexivity.
      + unfold has_cls, E.
        assert (X := cls_of_ext_new g nsn cs (mkNode (k_p c) cCP (k_pname c) tServicePort 0)
                                (gd_nodup _ _ _ G) (or_intror (conn_p_node c cs Hc))).
        simpl in X. rewrite X. reflexivity.
  Qed.
End Peers.

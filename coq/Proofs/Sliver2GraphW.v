(* C02, graph route, part 1: what the add_*_sliver writers build - the graph gapp g (nodes of the
   tree, parents first) (edges in creation order). *)
From Coq Require Import List String NArith Bool.
From FIM Require Import Base.Str Model.Sliver2Kinds Gen.PropMap Model.Sliver2Map Model.Sliver2WF
  Model.Sliver2Deep Model.Sliver2DeepWF Model.Sliver2Graph Model.Sliver2GraphWF
  Proofs.Sliver2Assoc Proofs.Sliver2MapRT Proofs.Sliver2Elem Proofs.Sliver2DeepRT.
Import ListNotations.

Local Opaque enums type_enum to_base from_base to_specific from_specific setters getters init_attrs
  sliver_property_to_graph no_unset_properties child_keys node_id_prop add_interface_descends all_tables_ok.

Definition gapp (g : graph) (N : list gnode) (E : list gedge) : graph :=
  {| g_nodes := g_nodes g ++ N; g_edges := g_edges g ++ E |}.
Definition edges_closed (g : graph) : Prop :=
  forall a r b, In (a, r, b) (g_edges g) -> In a (gids g) /\ In b (gids g).
Definition good (g : graph) : Prop := NoDup (gids g) /\ edges_closed g.

Lemma gapp_nil g : gapp g [] [] = g.
Proof. destruct g. unfold gapp. simpl. rewrite !app_nil_r. reflexivity. Qed.

Lemma gapp_gapp g N1 E1 N2 E2 : gapp (gapp g N1 E1) N2 E2 = gapp g (N1 ++ N2) (E1 ++ E2).
Proof. unfold gapp. simpl. rewrite !app_assoc. reflexivity. Qed.

Lemma gids_gapp g N E : gids (gapp g N E) = gids g ++ map g_id N.
Proof. unfold gids, gapp. simpl. apply map_app. Qed.

Lemma good_empty : good empty_graph.
Proof. split; [constructor | intros a r b []]. Qed.

(* ---------- shapes ---------- *)
Lemma subtrees_eq t : subtrees t = t :: flat_map subtrees (kids t).
Proof.
  destruct t as [k nid a c n i]. simpl. f_equal. rewrite !flat_map_app.
  destruct (has_comps k), (has_nss k), (has_ifs k), c, n, i; reflexivity.
Qed.

Lemma edges_of_eq t : edges_of t = flat_map (fun u => link_to t u :: edges_of u) (kids t).
Proof.
  destruct t as [k nid a c n i]. simpl. rewrite !flat_map_app.
  destruct (has_comps k), (has_nss k), (has_ifs k), c, n, i; reflexivity.
Qed.

Lemma ids_rec l : map g_id (map rec_of l) = map id_of l.
Proof. rewrite map_map. reflexivity. Qed.

Lemma in_kids_subtrees t c : In c (kids t) -> In c (subtrees t).
Proof.
  intro H. rewrite subtrees_eq. right. apply in_flat_map. exists c. split; [exact H|].
  rewrite subtrees_eq. left. reflexivity.
Qed.

Lemma subtrees_trans : forall t u v, In u (subtrees t) -> In v (subtrees u) -> In v (subtrees t).
Proof.
  apply (tree_ind' (fun t => forall u v, In u (subtrees t) -> In v (subtrees u) -> In v (subtrees t))).
  intros k nid a c n i Hc Hn Hi u v Hu Hv.
  rewrite subtrees_eq in Hu. destruct Hu as [E|Hu]; [subst u; exact Hv|].
  rewrite subtrees_eq. right. apply in_flat_map in Hu as [w [Hw Hu]]. apply in_flat_map. exists w.
  split; [exact Hw|].
  assert (HP : forall u v, In u (subtrees w) -> In v (subtrees u) -> In v (subtrees w)).
  { unfold kids in Hw. apply in_app_or in Hw as [Hw|Hw]; [|apply in_app_or in Hw as [Hw|Hw]].
    - destruct (has_comps k); [|contradiction]. destruct c as [l|]; [|contradiction]. simpl in Hc, Hw.
      rewrite Forall_forall in Hc. apply Hc. exact Hw.
    - destruct (has_nss k); [|contradiction]. destruct n as [l|]; [|contradiction]. simpl in Hn, Hw.
      rewrite Forall_forall in Hn. apply Hn. exact Hw.
    - destruct (has_ifs k); [|contradiction]. destruct i as [l|]; [|contradiction]. simpl in Hi, Hw.
      rewrite Forall_forall in Hi. apply Hi. exact Hw. }
  apply (HP u v Hu Hv).
Qed.

(* induction over the kids of a tree *)
Lemma kids_ind (P : tree -> Prop) :
  (forall t, (forall c, In c (kids t) -> P c) -> P t) -> forall t, P t.
Proof.
  intro H. apply tree_ind'. intros k nid a c n i Hc Hn Hi. apply H. intros w Hw.
  unfold kids in Hw. apply in_app_or in Hw as [Hw|Hw]; [|apply in_app_or in Hw as [Hw|Hw]].
  - destruct (has_comps k); [|contradiction]. destruct c as [l|]; [|contradiction]. simpl in Hc, Hw.
    rewrite Forall_forall in Hc. apply Hc. exact Hw.
  - destruct (has_nss k); [|contradiction]. destruct n as [l|]; [|contradiction]. simpl in Hn, Hw.
    rewrite Forall_forall in Hn. apply Hn. exact Hw.
  - destruct (has_ifs k); [|contradiction]. destruct i as [l|]; [|contradiction]. simpl in Hi, Hw.
    rewrite Forall_forall in Hi. apply Hi. exact Hw.
Qed.

Lemma edges_of_ids : forall t a r b, In (a, r, b) (edges_of t) ->
  In a (map id_of (subtrees t)) /\ In b (map id_of (subtrees t)).
Proof.
  apply (kids_ind (fun t => forall a r b, In (a, r, b) (edges_of t) ->
           In a (map id_of (subtrees t)) /\ In b (map id_of (subtrees t)))).
  intros t IH a r b H. rewrite edges_of_eq in H. apply in_flat_map in H as [c [Hc H]].
  destruct H as [E|H].
  - unfold link_to in E. inversion E; subst. split.
    + rewrite subtrees_eq. left. reflexivity.
    + apply in_map. apply in_kids_subtrees. exact Hc.
  - destruct (IH c Hc a r b H) as [Ha Hb].
    assert (Hsub : forall x, In x (map id_of (subtrees c)) -> In x (map id_of (subtrees t))).
    { intros x Hx. apply in_map_iff in Hx as [v [E Hv]]. subst x. apply in_map.
      apply (subtrees_trans t c v); [apply in_kids_subtrees; exact Hc | exact Hv]. }
    split; apply Hsub; assumption.
Qed.

(* ---------- the primitive writers ---------- *)
Lemma find_node_none g id : ~ In id (gids g) -> find_node g id = None.
Proof.
  unfold find_node, gids. induction (g_nodes g) as [|n l IH]; simpl; intro H; [reflexivity|].
  destruct (str_eqb (g_id n) id) eqn:E.
  - apply str_eqb_eq in E. exfalso. apply H. left. exact E.
  - apply IH. intro Hc. apply H. right. exact Hc.
Qed.

Lemma find_node_in g n : NoDup (gids g) -> In n (g_nodes g) -> find_node g (g_id n) = Some n.
Proof.
  unfold find_node, gids. induction (g_nodes g) as [|m l IH]; simpl; intros ND H; [contradiction|].
  inversion ND as [|? ? NI ND']; subst. destruct H as [E|H].
  - subst m. rewrite str_eqb_refl. reflexivity.
  - destruct (str_eqb (g_id m) (g_id n)) eqn:E.
    + apply str_eqb_eq in E. exfalso. apply NI. rewrite E. apply in_map. exact H.
    + apply IH; assumption.
Qed.

Lemma find_node_some_in g id n : find_node g id = Some n -> In n (g_nodes g) /\ g_id n = id.
Proof.
  unfold find_node. intro H. apply find_some in H as [H1 H2]. apply str_eqb_eq in H2. auto.
Qed.

Lemma in_gids_find g id : In id (gids g) -> exists n, find_node g id = Some n.
Proof.
  unfold find_node, gids. induction (g_nodes g) as [|m l IH]; simpl; intro H; [contradiction|].
  destruct (str_eqb (g_id m) id) eqn:E; [eexists; reflexivity|].
  apply IH. destruct H as [H|H]; [|exact H]. subst. rewrite str_eqb_refl in E. discriminate.
Qed.

Definition mknode (id : str) (label : string) (p : props) : gnode :=
  {| g_id := id; g_label := label; g_props := node_props id p |}.

Lemma add_node_ok g id label p :
  ~ In id (gids g) -> add_node g id label p = Ok (gapp g [mknode id label p] []).
Proof.
  intro H. unfold add_node. rewrite (find_node_none g id H). unfold gapp, mknode, node_props.
  rewrite app_nil_r. reflexivity.
Qed.

Lemma filter_all {A} (f : A -> bool) l : (forall x, In x l -> f x = true) -> filter f l = l.
Proof.
  induction l as [|x l IH]; simpl; intro H; [reflexivity|].
  rewrite (H x (or_introl eq_refl)). f_equal. apply IH. intros y Hy. apply H. right. exact Hy.
Qed.

Lemma str_eqb_neq a b : a <> b -> str_eqb a b = false.
Proof. intro H. destruct (str_eqb a b) eqn:E; [apply str_eqb_eq in E; contradiction | reflexivity]. Qed.

(* linking to a node that no edge mentions yet *)
Lemma add_link_ok g a r b :
  In a (gids g) -> In b (gids g) ->
  (forall x r' y, In (x, r', y) (g_edges g) -> x <> b /\ y <> b) ->
  add_link g a r b = Ok (gapp g [] [(a, r, b)]).
Proof.
  intros Ha Hb Hfree. unfold add_link.
  destruct (in_gids_find g a Ha) as [na Hna]. destruct (in_gids_find g b Hb) as [nb Hnb].
  rewrite Hna, Hnb. unfold gapp. rewrite app_nil_r. f_equal. f_equal.
  f_equal. apply filter_all. intros [[x r'] y] He. destruct (Hfree x r' y He) as [Hx Hy].
  unfold same_edge. rewrite (str_eqb_neq y b Hy), (str_eqb_neq x b Hx). rewrite !andb_false_r. reflexivity.
Qed.

(* a new node, linked to its parent (if any) *)
Definition plink (parent : option tree) (t : tree) : list gedge :=
  match parent with Some p => [link_to p t] | None => [] end.

Lemma node_and_link g (parent : option tree) id label rel p :
  good g -> ~ In id (gids g) ->
  (forall pt, parent = Some pt -> In (id_of pt) (gids g)) ->
  bind (add_node g id label p) (fun g1 =>
    match option_map id_of parent with
    | Some pid => add_link g1 pid rel id
    | None => Ok g1
    end)
  = Ok (gapp g [mknode id label p]
          (match parent with Some pt => [(id_of pt, rel, id)] | None => [] end)).
Proof.
  intros [ND EC] Hfresh Hp. rewrite (add_node_ok g id label p Hfresh). cbn [bind].
  destruct parent as [pt|]; cbn [option_map]; [|reflexivity].
  rewrite add_link_ok.
  - rewrite gapp_gapp. reflexivity.
  - rewrite gids_gapp. apply in_or_app. left. apply Hp. reflexivity.
  - rewrite gids_gapp. apply in_or_app. right. left. reflexivity.
  - intros x r' y He. unfold gapp in He. simpl in He. rewrite app_nil_r in He.
    destruct (EC x r' y He) as [Hx Hy]. split; intro E; subst; contradiction.
Qed.

Lemma good_grow g N E :
  good g -> NoDup (gids g ++ map g_id N) ->
  (forall a r b, In (a, r, b) E -> In a (gids g ++ map g_id N) /\ In b (gids g ++ map g_id N)) ->
  good (gapp g N E).
Proof.
  intros [ND EC] ND' HE. split.
  - rewrite gids_gapp. exact ND'.
  - intros a r b H. rewrite gids_gapp. unfold gapp in H. simpl in H. apply in_app_or in H as [H|H].
    + destruct (EC a r b H). split; apply in_or_app; left; assumption.
    + apply HE in H. exact H.
Qed.

(* the graph grown by one subtree hanging under parent *)
Definition grown (g : graph) (parent : option tree) (t : tree) : graph :=
  gapp g (map rec_of (subtrees t)) (plink parent t ++ edges_of t).

Lemma good_grown g parent t :
  good g -> (forall pt, parent = Some pt -> In (id_of pt) (gids g)) ->
  NoDup (gids g ++ map id_of (subtrees t)) -> good (grown g parent t).
Proof.
  intros Hg Hp ND. unfold grown. apply good_grow; [exact Hg | rewrite ids_rec; exact ND |].
  rewrite ids_rec. intros a r b H. apply in_app_or in H as [H|H].
  - destruct parent as [pt|]; [|contradiction]. destruct H as [E|[]]. unfold link_to in E. inversion E; subst.
    split; apply in_or_app; [left; apply Hp; reflexivity | right].
    rewrite subtrees_eq. left. reflexivity.
  - apply edges_of_ids in H as [Ha Hb]. split; apply in_or_app; right; assumption.
Qed.

Lemma gids_grown g parent t : gids (grown g parent t) = gids g ++ map id_of (subtrees t).
Proof. unfold grown. rewrite gids_gapp, ids_rec. reflexivity. Qed.

Lemma NoDup_app_left {A} (l1 l2 : list A) : NoDup (l1 ++ l2) -> NoDup l1.
Proof.
  induction l1 as [|x l1 IH]; simpl; intro H; [constructor|].
  inversion H; subst. constructor; [|apply IH; assumption].
  intro Hc. apply H2. apply in_or_app. left. exact Hc.
Qed.

Lemma NoDup_app_right {A} (l1 l2 : list A) : NoDup (l1 ++ l2) -> NoDup l2.
Proof. induction l1 as [|x l1 IH]; simpl; intro H; [exact H|]. inversion H; subst. apply IH. assumption. Qed.

Lemma NoDup_app_disj {A} (l1 l2 : list A) x : NoDup (l1 ++ l2) -> In x l1 -> In x l2 -> False.
Proof.
  induction l1 as [|y l1 IH]; simpl; intros H H1 H2; [contradiction|].
  inversion H; subst. destruct H1 as [E|H1].
  - subst. apply H4. apply in_or_app. right. exact H2.
  - apply IH; assumption.
Qed.

(* writing the kids of pt one after the other *)
Lemma foldM_err {A} (f : graph -> A -> res graph) l e :
  fold_left (fun acc x => bind acc (fun s' => f s' x)) l (Err e) = Err e.
Proof. induction l; simpl; [reflexivity | exact IHl]. Qed.

Lemma foldM_kids (add : graph -> tree -> res graph) (pt : tree) : forall l g,
  (forall c g', In c l -> good g' -> In (id_of pt) (gids g') ->
       NoDup (gids g' ++ map id_of (subtrees c)) -> add g' c = Ok (grown g' (Some pt) c)) ->
  good g -> In (id_of pt) (gids g) ->
  NoDup (gids g ++ flat_map (fun c => map id_of (subtrees c)) l) ->
  foldM add l g = Ok (gapp g (flat_map (fun c => map rec_of (subtrees c)) l)
                            (flat_map (fun c => link_to pt c :: edges_of c) l)).
Proof.
  induction l as [|c l IH]; intros g Hadd Hg Hp ND.
  - simpl. rewrite gapp_nil. reflexivity.
  - simpl in ND. rewrite app_assoc in ND.
    assert (NDc : NoDup (gids g ++ map id_of (subtrees c))).
    { apply NoDup_app_left in ND. exact ND. }
    unfold foldM. simpl. rewrite (Hadd c g (or_introl eq_refl) Hg Hp NDc). cbn [bind].
    change (foldM add l (grown g (Some pt) c) = Ok (gapp g (map rec_of (subtrees c) ++ flat_map (fun c0 => map rec_of (subtrees c0)) l)
             ((link_to pt c :: edges_of c) ++ flat_map (fun c0 => link_to pt c0 :: edges_of c0) l))).
    rewrite IH.
    + unfold grown. rewrite gapp_gapp. reflexivity.
    + intros c' g' Hc'. apply Hadd. right. exact Hc'.
    + apply good_grown; [exact Hg | intros p E; inversion E; subst; exact Hp | exact NDc].
    + rewrite gids_grown. apply in_or_app. left. exact Hp.
    + rewrite gids_grown. exact ND.
Qed.

(* ---------- facts about well-formed trees ---------- *)
Lemma has_id_nid t : has_id t = true -> t_nid t = Some (id_of t).
Proof. unfold has_id, id_of. destruct (t_nid t); [reflexivity | discriminate]. Qed.

Lemma forallb_subtrees_kid (f : tree -> bool) t c :
  forallb f (subtrees t) = true -> In c (kids t) -> forallb f (subtrees c) = true.
Proof.
  intros H Hc. rewrite forallb_forall in *. intros v Hv. apply H.
  apply (subtrees_trans t c v); [apply in_kids_subtrees; exact Hc | exact Hv].
Qed.

Lemma forallb_subtrees_root (f : tree -> bool) t : forallb f (subtrees t) = true -> f t = true.
Proof. rewrite subtrees_eq. simpl. intro H. apply andb_true_iff in H as [H _]. exact H. Qed.

Lemma tree_wf_attrs t : tree_wf t = true -> attrs_wf (t_kind t) (t_attrs t) = true.
Proof. destruct t. simpl. intro H. repeat rewrite andb_true_iff in H. tauto. Qed.

Lemma props_of_ok t : all_tables_ok = true -> tree_wf t = true ->
  to_props (t_kind t) (t_attrs t) = Ok (props_of t).
Proof.
  intros Hok Hwf. destruct (tables_ok_parts (t_kind t) Hok) as [Hs _].
  destruct (wf_parts _ _ (tree_wf_attrs t Hwf)) as [Hk Ha].
  destruct (to_props_defined_weak _ _ Hs Hk) as [p Hp]; [intros x Hx; right; apply Ha; exact Hx|].
  unfold props_of. rewrite Hp. reflexivity.
Qed.

Lemma slot_kid_wf b ck o c l :
  slot_ok tree_wf b ck o = true -> (if b then olist o else []) = l -> In c l ->
  tree_wf c = true /\ t_kind c = ck.
Proof.
  intros Hs El Hc. destruct b; [|subst l; contradiction]. simpl in Hs.
  destruct o as [l'|]; [|subst l; contradiction]. simpl in El. subst l'.
  simpl in Hs. apply andb_true_iff in Hs as [Hs _]. apply andb_true_iff in Hs as [_ Hall].
  rewrite forallb_forall in Hall. specialize (Hall c Hc).
  apply andb_true_iff in Hall as [Hall _]. apply andb_true_iff in Hall as [Hall _].
  apply andb_true_iff in Hall as [Hk Hwf]. split; [exact Hwf | apply kind_eqb_eq; exact Hk].
Qed.

(* the kids of a well-formed tree, by class of the parent *)
Lemma wf_kids t c : tree_wf t = true -> In c (kids t) ->
  tree_wf c = true /\
  match t_kind t with
  | KNode => t_kind c = KComponent \/ t_kind c = KService
  | KComponent => t_kind c = KService
  | KService | KInterface => t_kind c = KInterface
  | KLink => False
  end.
Proof.
  destruct t as [k nid a cs ns is]. simpl. intros Hwf Hc.
  repeat rewrite andb_true_iff in Hwf. destruct Hwf as [[[Ha Hsc] Hsn] Hsi].
  apply in_app_or in Hc as [Hc|Hc]; [|apply in_app_or in Hc as [Hc|Hc]].
  - destruct (slot_kid_wf _ _ _ c _ Hsc eq_refl Hc) as [H1 H2]. split; [exact H1|].
    destruct k; simpl in Hc; try contradiction. left. exact H2.
  - destruct (slot_kid_wf _ _ _ c _ Hsn eq_refl Hc) as [H1 H2]. split; [exact H1|].
    destruct k; simpl in Hc; try contradiction; [right; exact H2 | exact H2].
  - destruct (slot_kid_wf _ _ _ c _ Hsi eq_refl Hc) as [H1 H2]. split; [exact H1|].
    destruct k; simpl in Hc; try contradiction; exact H2.
Qed.

Lemma go_foldM (f : graph -> tree -> res graph) : forall l g,
  (fix go (l : list tree) (g : graph) : res graph :=
     match l with [] => Ok g | u :: r => bind (f g u) (go r) end) l g = foldM f l g.
Proof.
  induction l as [|u l IH]; intro g; [reflexivity|].
  unfold foldM. simpl. destruct (f g u) as [g'|e]; simpl.
  - rewrite IH. reflexivity.
  - rewrite foldM_err. reflexivity.
Qed.

Lemma map_flat_map {A B C} (f : B -> C) (h : A -> list B) l :
  map f (flat_map h l) = flat_map (fun x => map f (h x)) l.
Proof. induction l as [|x l IH]; simpl; [reflexivity|]. rewrite map_app, IH. reflexivity. Qed.

Lemma nodup_kids_split g t :
  NoDup (gids g ++ map id_of (subtrees t)) ->
  ~ In (id_of t) (gids g) /\
  NoDup ((gids g ++ [id_of t]) ++ flat_map (fun c => map id_of (subtrees c)) (kids t)).
Proof.
  intro ND. rewrite subtrees_eq in ND. simpl in ND. split.
  - intro Hc. apply (NoDup_app_disj _ _ (id_of t) ND Hc). left. reflexivity.
  - rewrite <- app_assoc. simpl. rewrite <- map_flat_map. exact ND.
Qed.

Definition writes (chk : bool) (add : graph -> option str -> tree -> res graph) (t : tree) : Prop :=
  forall g parent,
    (chk = true -> parent = None -> check_node_unique g (class_label (t_kind t)) (t_name t) = true) ->
    good g -> (forall pt, parent = Some pt -> In (id_of pt) (gids g)) ->
    NoDup (gids g ++ map id_of (subtrees t)) ->
    add g (option_map id_of parent) t = Ok (grown g parent t).

(* after the node and its link: the kids *)
Lemma after_kids (add : graph -> tree -> res graph) t g parent :
  (forall c g', In c (kids t) -> good g' -> In (id_of t) (gids g') ->
     NoDup (gids g' ++ map id_of (subtrees c)) -> add g' c = Ok (grown g' (Some t) c)) ->
  good g -> (forall pt, parent = Some pt -> In (id_of pt) (gids g)) ->
  NoDup (gids g ++ map id_of (subtrees t)) ->
  foldM add (kids t) (gapp g [rec_of t] (plink parent t)) = Ok (grown g parent t).
Proof.
  intros Hadd Hg Hp ND. destruct (nodup_kids_split g t ND) as [Hfresh ND2].
  set (g1 := gapp g [rec_of t] (plink parent t)).
  assert (Hids : gids g1 = gids g ++ [id_of t]) by (unfold g1; rewrite gids_gapp; reflexivity).
  assert (Hg1 : good g1).
  { apply good_grow; [exact Hg | simpl; apply (NoDup_app_left _ _ ND2) |].
    intros a r b H. destruct parent as [pt|]; [|contradiction]. destruct H as [E|[]].
    unfold link_to in E. inversion E; subst. simpl.
    split; apply in_or_app; [left; apply Hp; reflexivity | right; left; reflexivity]. }
  rewrite (foldM_kids add t (kids t) g1 Hadd Hg1).
  - unfold g1, grown. rewrite gapp_gapp. rewrite (subtrees_eq t), (edges_of_eq t). simpl.
    rewrite map_flat_map. reflexivity.
  - rewrite Hids. apply in_or_app. right. left. reflexivity.
  - rewrite Hids. exact ND2.
Qed.

(* the node and the link to the parent, as the writers do them *)
Lemma node_link_step g parent t label rel :
  all_tables_ok = true -> tree_wf t = true ->
  good g -> ~ In (id_of t) (gids g) -> (forall pt, parent = Some pt -> In (id_of pt) (gids g)) ->
  label = class_label (t_kind t) -> rel = relk (t_kind t) ->
  bind (add_node g (id_of t) label (props_of t)) (fun g1 =>
    match option_map id_of parent with
    | Some pid => add_link g1 pid rel (id_of t)
    | None => Ok g1
    end) = Ok (gapp g [rec_of t] (plink parent t)).
Proof.
  intros Hok Hwf Hg Hfresh Hp El Er. subst label rel.
  rewrite (node_and_link g parent (id_of t) _ _ (props_of t) Hg Hfresh Hp).
  destruct parent; reflexivity.
Qed.

Lemma node_link_then {A} (K : graph -> res A) g parent t label rel :
  all_tables_ok = true -> tree_wf t = true ->
  good g -> ~ In (id_of t) (gids g) -> (forall pt, parent = Some pt -> In (id_of pt) (gids g)) ->
  label = class_label (t_kind t) -> rel = relk (t_kind t) ->
  bind (add_node g (id_of t) label (props_of t)) (fun g1 =>
    bind (match option_map id_of parent with
          | Some pid => add_link g1 pid rel (id_of t)
          | None => Ok g1
          end) K) = K (gapp g [rec_of t] (plink parent t)).
Proof.
  intros Hok Hwf Hg Hfresh Hp El Er.
  assert (E := node_link_step g parent t label rel Hok Hwf Hg Hfresh Hp El Er).
  destruct (add_node g (id_of t) label (props_of t)) as [g1|e]; cbn [bind] in *; [|discriminate E].
  rewrite E. reflexivity.
Qed.

Lemma foldM_app {A} (f : graph -> A -> res graph) l1 l2 g :
  foldM f (l1 ++ l2) g = bind (foldM f l1 g) (foldM f l2).
Proof.
  unfold foldM. rewrite fold_left_app.
  destruct (fold_left (fun acc x => bind acc (fun s' => f s' x)) l1 (Ok g)) as [g'|e]; [reflexivity|].
  simpl. apply foldM_err.
Qed.

Lemma foldM_ext_in {A} (f h : graph -> A -> res graph) l :
  (forall x g, In x l -> f g x = h g x) -> forall g, foldM f l g = foldM h l g.
Proof.
  induction l as [|x l IH]; intros H g; [reflexivity|].
  unfold foldM. simpl. rewrite (H x g (or_introl eq_refl)).
  destruct (h g x) as [g'|e]; simpl.
  - apply IH. intros y g0 Hy. apply H. right. exact Hy.
  - rewrite !foldM_err. reflexivity.
Qed.

Section Writers.
  Hypothesis Hok : all_tables_ok = true.
  Hypothesis Hdesc : add_interface_descends = true.

  Lemma W_if : forall t, t_kind t = KInterface -> tree_wf t = true ->
    forallb has_id (subtrees t) = true -> writes false add_interface_sliver t.
  Proof.
    apply (kids_ind (fun t => t_kind t = KInterface -> tree_wf t = true ->
             forallb has_id (subtrees t) = true -> writes false add_interface_sliver t)).
    intros t IH Hk Hwf Hid g parent _ Hg Hp ND.
    assert (Hprops := props_of_ok t Hok Hwf).
    assert (Hnid := has_id_nid t (forallb_subtrees_root _ _ Hid)).
    destruct (nodup_kids_split g t ND) as [Hfresh _].
    assert (Hkids : forall c g', In c (kids t) -> good g' -> In (id_of t) (gids g') ->
              NoDup (gids g' ++ map id_of (subtrees c)) ->
              add_interface_sliver g' (Some (id_of t)) c = Ok (grown g' (Some t) c)).
    { intros c g' Hc Hg' Hin NDc. destruct (wf_kids t c Hwf Hc) as [Hwc Hkc]. rewrite Hk in Hkc.
      apply (IH c Hc Hkc Hwc (forallb_subtrees_kid _ t c Hid Hc) g' (Some t)); try assumption.
      - intro E0; discriminate E0.
      - intros pt E. inversion E; subst. exact Hin. }
    assert (Hfinal := after_kids (fun g' u => add_interface_sliver g' (Some (id_of t)) u) t g parent Hkids Hg Hp ND).
    assert (Hstep := fun K => node_link_then (A:=graph) K g parent t (class_label KInterface) rel_connects
                               Hok Hwf Hg Hfresh Hp).
    destruct t as [k [id|] a c n i]; [|discriminate Hnid]. simpl in Hk. subst k.
    simpl in Hprops. cbn [add_interface_sliver]. rewrite Hprops. cbn [bind].
    change id with (id_of (T KInterface (Some id) a c n i)) at 1 2.
    rewrite (Hstep _ eq_refl eq_refl). rewrite Hdesc.
    destruct i as [l|]; [|exact Hfinal].
    rewrite (go_foldM (fun g0 u => add_interface_sliver g0 (Some id) u)). exact Hfinal.
  Qed.

  (* a service with its interfaces *)
  Lemma W_ns t : t_kind t = KService -> tree_wf t = true ->
    forallb has_id (subtrees t) = true -> writes true add_network_service_sliver t.
  Proof.
    intros Hk Hwf Hid g parent Hroot Hg Hp ND.
    assert (Hprops := props_of_ok t Hok Hwf).
    assert (Hnid := has_id_nid t (forallb_subtrees_root _ _ Hid)).
    destruct (nodup_kids_split g t ND) as [Hfresh _].
    assert (Hkids : forall c g', In c (kids t) -> good g' -> In (id_of t) (gids g') ->
              NoDup (gids g' ++ map id_of (subtrees c)) ->
              add_interface_sliver g' (Some (id_of t)) c = Ok (grown g' (Some t) c)).
    { intros c g' Hc Hg' Hin NDc. destruct (wf_kids t c Hwf Hc) as [Hwc Hkc]. rewrite Hk in Hkc.
      apply (W_if c Hkc Hwc (forallb_subtrees_kid _ t c Hid Hc) g' (Some t)); try assumption.
      - intro E0; discriminate E0.
      - intros pt E. inversion E; subst. exact Hin. }
    assert (Hfinal := after_kids (fun g' u => add_interface_sliver g' (Some (id_of t)) u) t g parent Hkids Hg Hp ND).
    assert (Hstep := fun K => node_link_then (A:=graph) K g parent t (class_label KService) rel_has
                               Hok Hwf Hg Hfresh Hp).
    unfold add_network_service_sliver, need_id. rewrite Hnid. cbn [bind].
    assert (Hchk : match option_map id_of parent with
                   | None => negb (check_node_unique g (class_label KService) (t_name t))
                   | Some _ => false end = false).
    { destruct parent; [reflexivity|]. cbn [option_map]. rewrite <- Hk. rewrite (Hroot eq_refl eq_refl). reflexivity. }
    rewrite Hchk. rewrite Hk in Hprops. rewrite Hprops. cbn [bind].
    rewrite Hk in Hstep. rewrite (Hstep _ eq_refl eq_refl).
    destruct t as [k nid a c n i]. simpl in Hk. subst k. exact Hfinal.
  Qed.

  (* a component with its services *)
  Lemma W_comp t g pt : t_kind t = KComponent -> tree_wf t = true ->
    forallb has_id (subtrees t) = true ->
    good g -> In (id_of pt) (gids g) -> NoDup (gids g ++ map id_of (subtrees t)) ->
    add_component_sliver g (id_of pt) t = Ok (grown g (Some pt) t).
  Proof.
    intros Hk Hwf Hid Hg Hin ND.
    assert (Hp : forall p, Some pt = Some p -> In (id_of p) (gids g)) by (intros p E; inversion E; subst; exact Hin).
    assert (Hprops := props_of_ok t Hok Hwf).
    assert (Hnid := has_id_nid t (forallb_subtrees_root _ _ Hid)).
    destruct (nodup_kids_split g t ND) as [Hfresh _].
    assert (Hkids : forall c g', In c (kids t) -> good g' -> In (id_of t) (gids g') ->
              NoDup (gids g' ++ map id_of (subtrees c)) ->
              add_network_service_sliver g' (Some (id_of t)) c = Ok (grown g' (Some t) c)).
    { intros c g' Hc Hg' Hin' NDc. destruct (wf_kids t c Hwf Hc) as [Hwc Hkc]. rewrite Hk in Hkc.
      apply (W_ns c Hkc Hwc (forallb_subtrees_kid _ t c Hid Hc) g' (Some t)); try assumption.
      - intros _ E0; discriminate E0.
      - intros p E. inversion E; subst. exact Hin'. }
    assert (Hfinal := after_kids (fun g' u => add_network_service_sliver g' (Some (id_of t)) u) t g (Some pt) Hkids Hg Hp ND).
    assert (Hstep := fun K => node_link_then (A:=graph) K g (Some pt) t (class_label KComponent) rel_has
                               Hok Hwf Hg Hfresh Hp).
    unfold add_component_sliver, need_id. rewrite Hnid. cbn [bind].
    rewrite Hk in Hprops. rewrite Hprops. cbn [bind].
    rewrite Hk in Hstep. cbn [option_map] in Hstep.
    rewrite (Hstep _ eq_refl eq_refl).
    destruct t as [k nid a c n i]. simpl in Hk. subst k. simpl t_nss.
    simpl kids in Hfinal. rewrite ?app_nil_r in Hfinal. destruct n as [l|]; exact Hfinal.
  Qed.

  (* a node with its components and services *)
  Lemma W_node t g : t_kind t = KNode -> tree_wf t = true ->
    forallb has_id (subtrees t) = true -> good g -> NoDup (gids g ++ map id_of (subtrees t)) ->
    check_node_unique g (class_label KNode) (t_name t) = true ->
    add_network_node_sliver g t = Ok (grown g None t).
  Proof.
    intros Hk Hwf Hid Hg ND Hchk.
    assert (Hp : forall p, @None tree = Some p -> In (id_of p) (gids g)) by (intros p E; discriminate E).
    assert (Hprops := props_of_ok t Hok Hwf).
    assert (Hnid := has_id_nid t (forallb_subtrees_root _ _ Hid)).
    destruct (nodup_kids_split g t ND) as [Hfresh _].
    set (addk := fun g' u => match t_kind u with
                             | KComponent => add_component_sliver g' (id_of t) u
                             | _ => add_network_service_sliver g' (Some (id_of t)) u end).
    assert (Hkids : forall c g', In c (kids t) -> good g' -> In (id_of t) (gids g') ->
              NoDup (gids g' ++ map id_of (subtrees c)) -> addk g' c = Ok (grown g' (Some t) c)).
    { intros c g' Hc Hg' Hin' NDc. destruct (wf_kids t c Hwf Hc) as [Hwc Hkc]. rewrite Hk in Hkc.
      unfold addk. destruct Hkc as [Hkc|Hkc]; rewrite Hkc.
      - apply W_comp; try assumption. apply (forallb_subtrees_kid _ t c Hid Hc).
      - apply (W_ns c Hkc Hwc (forallb_subtrees_kid _ t c Hid Hc) g' (Some t)); try assumption.
        + intros _ E0; discriminate E0.
        + intros p E. inversion E; subst. exact Hin'. }
    assert (Hfinal := after_kids addk t g None Hkids Hg Hp ND).
    unfold add_network_node_sliver, need_id. rewrite Hnid. cbn [bind].
    rewrite Hchk.
    cbn [negb]. rewrite Hk in Hprops. rewrite Hprops. cbn [bind].
    rewrite (add_node_ok g (id_of t) (class_label KNode) (props_of t) Hfresh). cbn [bind].
    replace (mknode (id_of t) (class_label KNode) (props_of t)) with (rec_of t)
      by (unfold rec_of, mknode; rewrite Hk; reflexivity).
    change (@nil gedge) with (plink None t).
    set (G1 := gapp g [rec_of t] (plink None t)) in *.
    destruct t as [k [id|] a c n i]; [|discriminate Hnid]. simpl in Hk. subst k. simpl t_comps. simpl t_nss.
    simpl kids in Hfinal. rewrite app_nil_r in Hfinal. rewrite foldM_app in Hfinal.
    assert (Hc' : forall u, In u (olist c) -> t_kind u = KComponent).
    { intros u Hu. simpl in Hwf. repeat rewrite andb_true_iff in Hwf. destruct Hwf as [[[_ Hsc] _] _].
      apply (slot_kid_wf true KComponent c u _ Hsc eq_refl Hu). }
    assert (Hn' : forall u, In u (olist n) -> t_kind u = KService).
    { intros u Hu. simpl in Hwf. repeat rewrite andb_true_iff in Hwf. destruct Hwf as [[[_ _] Hsn] _].
      apply (slot_kid_wf true KService n u _ Hsn eq_refl Hu). }
    rewrite (foldM_ext_in addk (fun g' u => add_component_sliver g' (id_of (T KNode (Some id) a c n i)) u) (olist c)) in Hfinal
      by (intros u g0 Hu; unfold addk; rewrite (Hc' u Hu); reflexivity).
    destruct (foldM (fun g' u => add_component_sliver g' (id_of (T KNode (Some id) a c n i)) u) (olist c) G1) as [g2|e] eqn:E2;
      cbn [bind] in Hfinal; [|discriminate Hfinal].
    rewrite (foldM_ext_in addk (fun g' u => add_network_service_sliver g' (Some (id_of (T KNode (Some id) a c n i))) u) (olist n)) in Hfinal
      by (intros u g0 Hu; unfold addk; rewrite (Hn' u Hu); reflexivity).
    cbn [bind]. exact Hfinal.
  Qed.

  Lemma W_link t g : t_kind t = KLink -> tree_wf t = true -> has_id t = true ->
    ~ In (id_of t) (gids g) ->
    add_network_link_sliver g t [] = Ok (grown g None t).
  Proof.
    intros Hk Hwf Hid Hfresh.
    assert (Hprops := props_of_ok t Hok Hwf). assert (Hnid := has_id_nid t Hid).
    unfold add_network_link_sliver, need_id. rewrite Hnid. cbn [bind mapM].
    rewrite Hk in Hprops. rewrite Hprops. cbn [bind].
    rewrite (add_node_ok g (id_of t) (class_label KLink) (props_of t) Hfresh).
    cbn [bind]. unfold foldM. cbn [fold_left].
    unfold grown. rewrite subtrees_eq, edges_of_eq.
    destruct t as [k nid a c n i]. simpl in Hk. subst k. reflexivity.
  Qed.
End Writers.

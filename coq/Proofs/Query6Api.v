(* C06 proofs, part 3: the path queries at the level of the store API. *)
From Coq Require Import List NArith ZArith Bool Lia Arith.
From FIM Require Import Model.Query6 Proofs.Query6Nbr Proofs.Query6Path.
Import ListNotations.
Open Scope N_scope.

Definition rel_ok (rel : option N) (r : N) : Prop := match rel with Some r0 => r = r0 | None => True end.

Lemma g_rel_extracted_iff s gid x y r :
  g_rel (extracted s gid) x y = Some r <->
  (In x (map n_int (graph_nodes s gid)) /\ In y (map n_int (graph_nodes s gid)) /\
   edge_rel (s_edges s) x y = Some r).
Proof.
  simpl. destruct (mem x (map n_int (graph_nodes s gid))) eqn:Mx;
    destruct (mem y (map n_int (graph_nodes s gid))) eqn:My; simpl.
  - apply mem_In in Mx, My. tauto.
  - apply mem_false in My. split; [discriminate|tauto].
  - apply mem_false in Mx. split; [discriminate|tauto].
  - apply mem_false in Mx. split; [discriminate|tauto].
Qed.

Lemma graph_for_Ok s gid rel G :
  graph_for s gid rel = Ok G ->
  g_nodes G = graph_nodes s gid /\
  forall x y, adjb G x y = true <->
              (In x (map n_int (graph_nodes s gid)) /\ In y (map n_int (graph_nodes s gid)) /\
               exists r, edge_rel (s_edges s) x y = Some r /\ rel_ok rel r).
Proof.
  unfold graph_for, bind. destruct (extract s gid) as [G0|] eqn:E; try discriminate.
  apply extract_Ok in E as [-> _]. intros H. inversion H; subst. clear H.
  split; [destruct rel; reflexivity|]. intros x y.
  rewrite adjb_true. destruct rel as [r0|]; cbn [g_rel drop_edges_not_of_type rel_ok].
  - split.
    + intros [r H]. destruct (g_rel (extracted s gid) x y) as [r1|] eqn:GE; try discriminate.
      apply g_rel_extracted_iff in GE as (Hx & Hy & He). destruct (r1 =? r0) eqn:C; try discriminate.
      apply N.eqb_eq in C. subst. repeat split; auto. exists r0; auto.
    + intros (Hx & Hy & r & He & ->). exists r0.
      rewrite (proj2 (g_rel_extracted_iff s gid x y r0) (conj Hx (conj Hy He))). rewrite N.eqb_refl. reflexivity.
  - split.
    + intros [r H]. apply g_rel_extracted_iff in H as (Hx & Hy & He). repeat split; auto. exists r; auto.
    + intros (Hx & Hy & r & He & _). exists r. apply g_rel_extracted_iff. auto.
Qed.

Lemma graph_for_find s gid rel id n :
  find_node s gid id = Ok n -> exists G, graph_for s gid rel = Ok G.
Proof. intros H. unfold graph_for. rewrite (find_node_extract _ _ _ _ H). cbn [bind]. eauto. Qed.

Lemma node_key_in s gid rel G id n :
  graph_for s gid rel = Ok G -> find_node s gid id = Ok n -> In (n_int n) (ints G).
Proof.
  intros HG FN. apply graph_for_Ok in HG as [E _]. unfold ints. rewrite E.
  apply in_map. apply graph_nodes_In. apply find_node_Ok in FN. tauto.
Qed.

Lemma find_key {A} (f : A -> N) l m :
  NoDup (map f l) -> In m l -> find (fun n => f n =? f m) l = Some m.
Proof.
  induction l as [|a l IH]; simpl; intros ND H. contradiction.
  inversion ND as [|? ? Hn ND']; subst. destruct H as [->|H].
  - rewrite N.eqb_refl. reflexivity.
  - destruct (f a =? f m) eqn:E; auto. apply N.eqb_eq in E. exfalso. apply Hn. rewrite E. apply in_map; auto.
Qed.

(* _get_node_ids_for_list gives the NodeIDs of the path's nodes *)
Lemma id_of_node s gid rel G m :
  keys_distinct s = true -> graph_for s gid rel = Ok G -> in_graph s gid m -> id_of G (n_int m) = n_id m.
Proof.
  intros K HG Hm. apply graph_for_Ok in HG as [E _]. unfold id_of. rewrite E.
  rewrite (find_key n_int); auto. apply keys_graph_nodes; auto. apply graph_nodes_In; auto.
Qed.

(* ---------- get_nodes_on_shortest_path ---------- *)
Lemma shortest_path_unfold s gid a z rel :
  shortest_path s gid a z rel =
  bind (graph_for s gid rel) (fun G =>
  bind (find_node s gid a) (fun na =>
  bind (find_node s gid z) (fun nz =>
  Ok (match sp_int G (n_int na) (n_int nz) with Some p => ids_of G p | None => [] end)))).
Proof. unfold shortest_path, graph_for, bind. destruct (extract s gid); reflexivity. Qed.

Lemma shortest_path_parts s gid a z rel ids :
  shortest_path s gid a z rel = Ok ids ->
  exists G na nz, graph_for s gid rel = Ok G /\ find_node s gid a = Ok na /\ find_node s gid z = Ok nz /\
                  ids = match sp_int G (n_int na) (n_int nz) with Some p => ids_of G p | None => [] end.
Proof.
  rewrite shortest_path_unfold. unfold bind.
  destruct (graph_for s gid rel) as [G|]; try discriminate.
  destruct (find_node s gid a) as [na|]; try discriminate.
  destruct (find_node s gid z) as [nz|]; try discriminate.
  intros H. inversion H. exists G, na, nz. auto.
Qed.

Lemma shortest_path_sound_min s gid a z rel ids :
  shortest_path s gid a z rel = Ok ids -> ids <> [] ->
  exists G na nz p,
    graph_for s gid rel = Ok G /\ find_node s gid a = Ok na /\ find_node s gid z = Ok nz /\
    ids = ids_of G p /\ is_path G p (n_int na) (n_int nz) = true /\
    forall q, is_path G q (n_int na) (n_int nz) = true -> (length ids <= length q)%nat.
Proof.
  intros H Hne. destruct (shortest_path_parts _ _ _ _ _ _ H) as (G & na & nz & HG & FA & FZ & E).
  destruct (sp_int G (n_int na) (n_int nz)) as [p|] eqn:SP; [|congruence].
  destruct (sp_sound_min G _ _ _ (node_key_in _ _ _ _ _ _ HG FA) SP) as [IP MIN].
  exists G, na, nz, p. repeat split; auto. intros q Hq. subst ids. unfold ids_of. rewrite map_length. auto.
Qed.

Lemma shortest_path_empty_iff s gid a z rel ids :
  shortest_path s gid a z rel = Ok ids ->
  exists G na nz,
    graph_for s gid rel = Ok G /\ find_node s gid a = Ok na /\ find_node s gid z = Ok nz /\
    (ids = [] <-> forall q, is_path G q (n_int na) (n_int nz) = false).
Proof.
  intros H. destruct (shortest_path_parts _ _ _ _ _ _ H) as (G & na & nz & HG & FA & FZ & E).
  exists G, na, nz. repeat split; auto.
  - intros E0 q. destruct (sp_int G (n_int na) (n_int nz)) as [p|] eqn:SP.
    + exfalso. destruct (sp_sound_min G _ _ _ (node_key_in _ _ _ _ _ _ HG FA) SP) as [IP _].
      apply is_path_iff in IP as (r & Ep & _). subst p. rewrite E0 in E. discriminate.
    + apply (sp_none G _ _ (node_key_in _ _ _ _ _ _ HG FA) SP).
  - intros Hno. destruct (sp_int G (n_int na) (n_int nz)) as [p|] eqn:SP; auto.
    destruct (sp_sound_min G _ _ _ (node_key_in _ _ _ _ _ _ HG FA) SP) as [IP _].
    rewrite Hno in IP. discriminate.
Qed.

(* the call raises only when an end node is missing: never because of edges of other relations *)
Lemma shortest_path_total s gid a z rel :
  (exists na nz, find_node s gid a = Ok na /\ find_node s gid z = Ok nz) <->
  (exists ids, shortest_path s gid a z rel = Ok ids).
Proof.
  split.
  - intros (na & nz & FA & FZ). destruct (graph_for_find s gid rel _ _ FA) as [G HG].
    rewrite shortest_path_unfold, HG, FA, FZ. cbn [bind]. eauto.
  - intros [ids H]. destruct (shortest_path_parts _ _ _ _ _ _ H) as (G & na & nz & _ & FA & FZ & _). eauto.
Qed.

(* ---------- get_nodes_on_path_with_hops ---------- *)
Lemma path_with_hops_parts s gid a z hops cutoff ids :
  path_with_hops s gid a z hops cutoff = Ok ids ->
  exists G na nz, graph_for s gid None = Ok G /\ find_node s gid a = Ok na /\ find_node s gid z = Ok nz /\
                  ids = ids_of G (pwh_int G (n_int na) (n_int nz) hops cutoff).
Proof.
  unfold path_with_hops, graph_for, bind.
  destruct (extract s gid) as [G|]; try discriminate.
  destruct (find_node s gid a) as [na|]; try discriminate.
  destruct (find_node s gid z) as [nz|]; try discriminate.
  intros H. inversion H. exists G, na, nz. auto.
Qed.

Lemma path_with_hops_spec s gid a z hops cutoff ids :
  path_with_hops s gid a z hops cutoff = Ok ids ->
  exists G na nz p,
    graph_for s gid None = Ok G /\ find_node s gid a = Ok na /\ find_node s gid z = Ok nz /\
    ids = ids_of G p /\
    (ids = [] <-> forall q, ~ hop_path G (n_int na) (n_int nz) hops cutoff q) /\
    (ids <> [] -> hop_path G (n_int na) (n_int nz) hops cutoff p /\
                  forall q, hop_path G (n_int na) (n_int nz) hops cutoff q -> (length ids <= length q)%nat).
Proof.
  intros H. destruct (path_with_hops_parts _ _ _ _ _ _ _ H) as (G & na & nz & HG & FA & FZ & E).
  exists G, na, nz, (pwh_int G (n_int na) (n_int nz) hops cutoff).
  destruct (pwh_spec G (n_int na) (n_int nz) hops cutoff (node_key_in _ _ _ _ _ _ HG FA)) as [S1 S2].
  assert (EN : ids = [] <-> pwh_int G (n_int na) (n_int nz) hops cutoff = []).
  { subst ids. unfold ids_of. split; intros E0.
    - destruct (pwh_int G (n_int na) (n_int nz) hops cutoff); [auto|discriminate].
    - rewrite E0. reflexivity. }
  split; [exact HG|]. split; [exact FA|]. split; [exact FZ|]. split; [exact E|]. split.
  - rewrite EN. exact S1.
  - intros Hne. assert (Hp : pwh_int G (n_int na) (n_int nz) hops cutoff <> []) by (intro E0; apply Hne; apply EN; auto).
    destruct (S2 Hp) as [S3 S4]. split; auto.
    intros q Hq. subst ids. unfold ids_of. rewrite map_length. apply S4; auto.
Qed.

Lemma path_with_hops_total s gid a z hops cutoff :
  (exists na nz, find_node s gid a = Ok na /\ find_node s gid z = Ok nz) <->
  (exists ids, path_with_hops s gid a z hops cutoff = Ok ids).
Proof.
  split.
  - intros (na & nz & FA & FZ). unfold path_with_hops. rewrite (find_node_extract _ _ _ _ FA). cbn [bind].
    rewrite FA, FZ. cbn [bind]. eauto.
  - intros [ids H]. destruct (path_with_hops_parts _ _ _ _ _ _ _ H) as (G & na & nz & _ & FA & FZ & _). eauto.
Qed.

(* C10: validation is a function of the current slice, and its own side effect (the recorded sites, also the
   partial ones of a FAILING validation) never changes its verdict: validating again gives the same outcome
   and the same sites.  Sessions (mutations interleaved with validations on one topology) are memoryless. *)
From Coq Require Import List ZArith String Bool NArith Lia.
From FIM Require Import Base.C10Types Gen.Constraints Model.Validate10 Model.C10Pinned Model.C10Spec
  Proofs.Validate10Lemmas Proofs.Validate10Tables Proofs.Validate10Main.
Import ListNotations.
Open Scope Z_scope.
Open Scope list_scope.

Section Generic.
Variable T : tables.
Variable cf es : bool.

Lemma check_props_with_site : forall r s a eps x, check_props r (with_site s a) eps x = check_props r s eps x.
Proof. reflexivity. Qed.

Lemma validate_service_stable : forall s a res,
  validate_service T es s = (a, res) -> validate_service T es (with_site s a) = (a, res).
Proof.
  intros [ty site pset ifs] a res. unfold validate_service, with_site. cbn [s_type s_site s_set s_ifaces].
  destruct (assoc ty (t_services T)) as [r|]; [|intros H; inversion H; reflexivity].
  destruct (node_ifaces ifs) as [eps|]; [|intros H; inversion H; reflexivity].
  destruct (negb (sc_min_interfaces r =? NL T) && _); [intros H; inversion H; reflexivity|].
  destruct (negb (sc_num_interfaces r =? NL T) && _); [intros H; inversion H; reflexivity|].
  destruct (if sc_num_sites r =? NL T then Some [] else option_map (nodup osite_eq_dec) (owner_sites eps))
    as [sites|]; [|intros H; inversion H; reflexivity].
  destruct (negb (sc_num_sites r =? NL T) && _); [intros H; inversion H; reflexivity|].
  destruct sites as [|a0 [|b t]].
  - intros H. inversion H. subst. reflexivity.
  - destruct site as [d|].
    + destruct (es && negb (if osite_eq_dec a0 (Some d) then true else false)) eqn:E.
      * intros H. inversion H. subst. rewrite E. reflexivity.
      * intros H. inversion H. subst. rewrite E. reflexivity.
    + intros H. inversion H. subst a res. destruct a0 as [x|]; [|reflexivity].
      destruct (osite_eq_dec (Some x) (Some x)) as [_|C]; [|congruence].
      rewrite andb_false_r. reflexivity.
  - destruct site as [d|]; intros H; inversion H; subst; reflexivity.
Qed.

Lemma validate_services_length : forall l sts res, validate_services T es l = (sts, res) -> List.length sts = List.length l.
Proof.
  induction l as [|s r IH]; intros sts res; simpl.
  - intros H. inversion H. reflexivity.
  - destruct (validate_service T es s) as [st rs]. destruct rs as [|e].
    + destruct (validate_services T es r) as [sts' res'] eqn:E. intros H. inversion H. simpl. f_equal. eapply IH. reflexivity.
    + intros H. inversion H. simpl. rewrite map_length. reflexivity.
Qed.

Lemma record_own_sites : forall l, map s_site (record_sites l (map s_site l)) = map s_site l.
Proof. induction l as [|s r IH]; simpl; [reflexivity|]. rewrite IH. reflexivity. Qed.

Lemma validate_services_stable : forall l sts res,
  validate_services T es l = (sts, res) -> validate_services T es (record_sites l sts) = (sts, res).
Proof.
  induction l as [|s r IH]; intros sts res; simpl.
  - intros H. inversion H. reflexivity.
  - destruct (validate_service T es s) as [st rs] eqn:Es. apply validate_service_stable in Es. destruct rs as [|e].
    + destruct (validate_services T es r) as [sts' res'] eqn:Er. intros H. inversion H. subst. simpl.
      rewrite Es. rewrite (IH sts' res eq_refl). reflexivity.
    + intros H. inversion H. subst. simpl. rewrite Es. rewrite record_own_sites. reflexivity.
Qed.

Lemma instance_limited_recorded : forall l sts,
  existsb (instance_limited T) (record_sites l sts) = existsb (instance_limited T) l.
Proof.
  induction l as [|s r IH]; intros [|a t]; simpl; try reflexivity. rewrite IH. reflexivity.
Qed.

Theorem validate_stable : forall sl sts res,
  validate T cf es sl = (sts, res) -> validate T cf es (recorded sl sts) = (sts, res).
Proof.
  intros [nodes svcs] sts res. unfold validate, recorded. cbn [sl_nodes sl_services].
  destruct (check_all (validate_node T) (filter (visible cf) nodes)) as [|e].
  - destruct (validate_services T es svcs) as [sts' res'] eqn:E. apply validate_services_stable in E.
    destruct res' as [|e'].
    + destruct (existsb (instance_limited T) svcs) eqn:Ei; intros H; inversion H; subst;
        rewrite E, instance_limited_recorded, Ei; reflexivity.
    + intros H. inversion H. subst. rewrite E. reflexivity.
  - intros H. inversion H. subst. rewrite record_own_sites. reflexivity.
Qed.

End Generic.

Theorem validate_cur_stable : forall sl sts res,
  validate_cur sl = (sts, res) -> validate_cur (recorded sl sts) = (sts, res).
Proof. intros sl sts res. apply validate_stable. Qed.

(* the outcomes of the validations after a prefix of a session are those of a fresh session started from the
   slice as it is at that moment: nothing else is remembered *)
Theorem session_memoryless : forall pre post st,
  session st (pre ++ post) = session st pre ++ session (state_after st pre) post.
Proof.
  induction pre as [|[f|] r IH]; intros post st; simpl; [reflexivity | apply IH | rewrite IH; reflexivity].
Qed.

(* validating twice in a row: the second outcome equals the first, and the slice is left as after the first *)
Theorem session_revalidate : forall st,
  session st [Validate; Validate] = [validate_cur st; validate_cur st] /\
  state_after st [Validate; Validate] = state_after st [Validate].
Proof.
  intros st. simpl. unfold vstep. destruct (validate_cur st) as [sts res] eqn:E. simpl.
  rewrite (validate_cur_stable st sts res E). simpl.
  split; [reflexivity|]. unfold recorded. simpl. f_equal.
  clear E. generalize (sl_services st). intros l. revert sts. induction l as [|s r IH]; intros [|a t]; simpl; try reflexivity.
  f_equal. apply IH.
Qed.

(* a concrete session: a valid two-site L2STS, validated; a node moved to a third site; validated again: rejected *)
Definition ex_sts (c : N) : slice :=
  mk_slice []
   [mk_asvc "L2STS" None [] [mk_if "ServicePort" None (Some [mk_ep "DedicatedPort" (Some (Some 1%N))]);
                             mk_if "ServicePort" None (Some [mk_ep "DedicatedPort" (Some (Some 2%N))]);
                             mk_if "ServicePort" None (Some [mk_ep "DedicatedPort" (Some (Some c))])]].
Theorem example_session :
  map snd (session (ex_sts 2%N) [Validate; Mutate (fun _ => ex_sts 3%N); Validate; Mutate (fun _ => ex_sts 1%N); Validate])
  = [Ok; Err ETopology; Ok].
Proof. vm_compute. reflexivity. Qed.

(* a service with a DECLARED site 1 is emptied and connected again on a node at site 2: rejected (the declared site
   survives the disconnection; only set_property or validate's inference ever write it) *)
Definition ex_bridge (sites : list N) : slice :=
  mk_slice [] [mk_asvc "L2Bridge" (Some 1%N) []
                 (map (fun a => mk_if "ServicePort" None (Some [mk_ep "DedicatedPort" (Some (Some a))])) sites)].
Theorem example_reconnect :
  map snd (session (ex_bridge [1%N]) [Validate; Mutate (fun _ => ex_bridge []); Validate;
                                      Mutate (fun _ => ex_bridge [2%N]); Validate;
                                      Mutate (fun _ => ex_bridge [1%N; 1%N]); Validate])
  = [Ok; Err ETopology; Err ETopology; Ok].
Proof. vm_compute. reflexivity. Qed.

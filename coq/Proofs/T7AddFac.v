(* C07 - add_facility / add_switch, every outcome: the construct is built element by element, each with its owner edge;
   a rejected later step removes the node again (2982a89, bf534cb).  Nothing but this call has touched the new node, so
   its interfaces carry no link: the removal strands nothing. *)
From Coq Require Import String List NArith ZArith Bool Arith Lia.
From FIM Require Import Base.Str Gen.Rules Model.T7Graph Model.T7Ops Model.T7WF Model.T7Steps Model.T7Rel
     Proofs.T7Tables Proofs.T7WFRefl Proofs.T7Frame Proofs.T7Units Proofs.T7Api Proofs.T7Api2 Proofs.T7Api3
     Proofs.T7RelUnits Proofs.T7RelRun Proofs.T7RelCp Proofs.T7Api4 Proofs.T7RelAdd Proofs.T7Api5 Proofs.T7Api6
     Proofs.T7Rem Proofs.T7Rem2 Proofs.T7Rem3 Proofs.T7Rem4 Proofs.T7Rem5.
Import ListNotations.

(* the node n has no components, and the interfaces of its services hang off their service by one edge and nothing else *)
Definition Lonely (g : graph) (n : str) : Prop :=
  first_nb g n Has KComp = [] /\
  forall sv x, In sv (first_nb g n Has KNS) -> In x (first_nb g sv Connects KCP) -> nbrs g x = [(sv, Connects)].

(* ---- element + owner edge: what it leaves alone ------------------------------------------------------------------------ *)
Section OwnedFrame.
Variables (g : graph) (nd : node) (a : str) (r : rel).
Hypothesis W : WF g.
Hypothesis Hf : has_id g (nid nd) = false.
Let g' := add_owned g nd a r.

Lemma of_nbrs y : nbrs g' y = nbrs g y ++ nb_of y {| ea := a; eb := nid nd; erel := r |}.
Proof.
  unfold g', add_owned. rewrite nbrs_add_edge; [rewrite nbrs_add_node; reflexivity|].
  rewrite no_edge_add_node. apply no_edge_fresh; [apply (wf_edge_ends _ W) | exact Hf].
Qed.
Lemma of_nbrs_other y : y <> a -> y <> nid nd -> nbrs g' y = nbrs g y.
Proof.
  intros H1 H2. rewrite of_nbrs. unfold nb_of. simpl.
  assert (E1 : str_eqb a y = false) by (apply str_eqb_neq; congruence).
  assert (E2 : str_eqb (nid nd) y = false) by (apply str_eqb_neq; congruence). rewrite E1, E2. apply app_nil_r.
Qed.
Lemma of_nbrs_a : nbrs g' a = nbrs g a ++ [(nid nd, r)].
Proof. rewrite of_nbrs. unfold nb_of. simpl. rewrite str_eqb_refl. reflexivity. Qed.
Lemma of_nbrs_new : has_id g a = true -> nbrs g' (nid nd) = [(a, r)].
Proof.
  intro Ha. rewrite of_nbrs, (nbrs_fresh_nil _ _ (wf_edge_ends _ W) Hf). unfold nb_of. simpl.
  assert (E : str_eqb a (nid nd) = false) by (apply str_eqb_neq; intro E; rewrite E in Ha; congruence).
  rewrite E, str_eqb_refl. reflexivity.
Qed.
Lemma of_cls_old y k : has_id g y = true -> cls_is g' y k = cls_is g y k.
Proof. intro H. apply ao_cls_old. intro E. subst y. congruence. Qed.
Lemma of_cls_new k : cls_is g' (nid nd) k = cls_eqb (ncls nd) k.
Proof.
  unfold g', add_owned, cls_is, cls_of.
  assert (F : find_nodes (g_add_edge (g_add_node g nd) a r (nid nd)) (nid nd) = find_nodes (g_add_node g nd) (nid nd)) by reflexivity.
  rewrite F, (find_nodes_add_node_same _ _ Hf). reflexivity.
Qed.
Lemma of_first_nb_old y r' k : y <> a -> y <> nid nd -> first_nb g' y r' k = first_nb g y r' k.
Proof.
  intros H1 H2. unfold first_nb. rewrite (of_nbrs_other y H1 H2). f_equal. apply filter_ext_in. intros [j rj] Hj. simpl.
  rewrite (of_cls_old j k); [reflexivity|]. apply (nbrs_has_id _ _ _ _ (wf_edge_ends _ W)) in Hj. tauto.
Qed.
Lemma of_first_nb_a r' k : has_id g a = true ->
  first_nb g' a r' k = first_nb g a r' k ++ (if rel_eqb r r' && cls_eqb (ncls nd) k then [nid nd] else []).
Proof.
  intro Ha. unfold first_nb. rewrite of_nbrs_a, filter_app, map_app. f_equal.
  - f_equal. apply filter_ext_in. intros [j rj] Hj. simpl.
    rewrite (of_cls_old j k); [reflexivity|]. apply (nbrs_has_id _ _ _ _ (wf_edge_ends _ W)) in Hj. tauto.
  - simpl. rewrite of_cls_new. destruct (rel_eqb r r' && cls_eqb (ncls nd) k); reflexivity.
Qed.
End OwnedFrame.

(* a service for the node *)
Lemma lonely_add_service g n nsn : WF g -> has_id g (nid nsn) = false -> cls_is g n KNode = true -> ncls nsn = KNS ->
  Lonely g n -> Lonely (add_owned g nsn n Has) n.
Proof.
  intros W Hf Cn Kn [L1 L2]. pose proof (cls_is_has_id _ _ _ Cn) as Hn. split.
  - rewrite (of_first_nb_a g nsn n Has W Hf Has KComp Hn), L1, Kn. reflexivity.
  - intros sv x Hsv Hx. rewrite (of_first_nb_a g nsn n Has W Hf Has KNS Hn), Kn in Hsv. simpl in Hsv.
    apply in_app_or in Hsv as [Hsv|[<-|[]]].
    + assert (Csv : cls_is g sv KNS = true) by (apply In_first_nb in Hsv; tauto).
      assert (N1 : sv <> n) by (intro E; subst sv; rewrite (cls_is_unique _ _ _ KNS Cn) in Csv; discriminate).
      assert (N2 : sv <> nid nsn) by (intro E; subst sv; rewrite (cls_is_has_id _ _ _ Csv) in Hf; discriminate).
      rewrite (of_first_nb_old g nsn n Has W Hf sv _ _ N1 N2) in Hx.
      assert (Cx : cls_is g x KCP = true) by (apply In_first_nb in Hx; tauto).
      assert (M1 : x <> n) by (intro E; subst x; rewrite (cls_is_unique _ _ _ KCP Cn) in Cx; discriminate).
      assert (M2 : x <> nid nsn) by (intro E; subst x; rewrite (cls_is_has_id _ _ _ Cx) in Hf; discriminate).
      rewrite (of_nbrs_other g nsn n Has W Hf x M1 M2). apply L2; assumption.
    + exfalso. apply In_first_nb in Hx as [Hx Cx]. rewrite (of_nbrs_new g nsn n Has W Hf Hn) in Hx. destruct Hx as [Hx|[]].
      inversion Hx.
Qed.

(* an interface for one of its services *)
Lemma lonely_add_iface g n sv0 nd : WF g -> has_id g (nid nd) = false -> cls_is g n KNode = true -> cls_is g sv0 KNS = true ->
  ncls nd = KCP -> Lonely g n -> Lonely (add_owned g nd sv0 Connects) n.
Proof.
  intros W Hf Cn Cs0 Kn [L1 L2]. pose proof (cls_is_has_id _ _ _ Cn) as Hn. pose proof (cls_is_has_id _ _ _ Cs0) as Hs0.
  assert (Nn1 : n <> sv0) by (intro E; subst sv0; rewrite (cls_is_unique _ _ _ KNS Cn) in Cs0; discriminate).
  assert (Nn2 : n <> nid nd) by (intro E; rewrite <- E in Hf; congruence).
  split.
  - rewrite (of_first_nb_old g nd sv0 Connects W Hf n _ _ Nn1 Nn2). exact L1.
  - intros sv x Hsv Hx. rewrite (of_first_nb_old g nd sv0 Connects W Hf n _ _ Nn1 Nn2) in Hsv.
    assert (Csv : cls_is g sv KNS = true) by (apply In_first_nb in Hsv; tauto).
    assert (N2 : sv <> nid nd) by (intro E; subst sv; rewrite (cls_is_has_id _ _ _ Csv) in Hf; discriminate).
    assert (Old : In x (first_nb g sv Connects KCP) -> nbrs (add_owned g nd sv0 Connects) x = [(sv, Connects)]).
    { intro Hx0. assert (Cx : cls_is g x KCP = true) by (apply In_first_nb in Hx0; tauto).
      assert (M1 : x <> sv0) by (intro E; subst x; rewrite (cls_is_unique _ _ _ KCP Cs0) in Cx; discriminate).
      assert (M2 : x <> nid nd) by (intro E; subst x; rewrite (cls_is_has_id _ _ _ Cx) in Hf; discriminate).
      rewrite (of_nbrs_other g nd sv0 Connects W Hf x M1 M2). apply L2; assumption. }
    destruct (str_eq_dec sv sv0) as [->|Ne].
    + rewrite (of_first_nb_a g nd sv0 Connects W Hf Connects KCP Hs0), Kn in Hx. simpl in Hx.
      apply in_app_or in Hx as [Hx|[<-|[]]]; [apply Old; exact Hx|]. apply (of_nbrs_new g nd sv0 Connects W Hf Hs0).
    + rewrite (of_first_nb_old g nd sv0 Connects W Hf sv _ _ Ne N2) in Hx. apply Old. exact Hx.
Qed.

(* ---- the removal of such a node ------------------------------------------------------------------------------------------ *)
Lemma remove_lonely_node g n st st' r :
  sg st = g -> WF g -> cls_is g n KNode = true -> Lonely g n -> remove_network_node n st = (st', r) -> WF (sg st').
Proof.
  intros G W Cn [L1 L2] H.
  set (NSS := first_nb g n Has KNS).
  set (PORTS := flat_map (fun sv => first_nb g sv Connects KCP) NSS).
  set (E := fun y => str_eqb y n || mem_str y NSS || mem_str y PORTS).
  pose proof (InvD_init g W E st G) as I0.
  destruct (remove_node_run g W E (fun _ => false) st n I0 (cls_is_has_id _ _ _ Cn) eq_refl Cn) as [d2 [R2 [I2 [_ [D2n [_ [D2s PG2]]]]]]].
  - intros c Hc. rewrite L1 in Hc. destruct Hc.
  - intros sv Hsv. split; [unfold E; apply mem_str_In in Hsv; fold NSS in Hsv; rewrite Hsv, orb_true_r; reflexivity|]. split.
    + intros x Hx. unfold E. apply orb_true_iff. right. apply mem_str_In. unfold PORTS. apply in_flat_map. exists sv. auto.
    + intros x c z Hx _ Hc Hz _. exfalso. rewrite remove_set_none in Hc, Hz. pose proof (L2 sv x Hsv Hx) as Nx.
      assert (Csv : cls_is g sv KNS = true) by (apply In_first_nb in Hsv; tauto).
      assert (F1 : forall k, k <> KNS -> first_nb g x Connects k = []).
      { intros k Hk. unfold first_nb. rewrite Nx. simpl. rewrite (cls_is_unique _ _ _ k Csv (fun Q => Hk (eq_sym Q))). reflexivity. }
      rewrite (F1 KCP) in Hc by discriminate. destruct Hc as [->|[]].
      unfold peers in Hz. rewrite (F1 KLink) in Hz by discriminate. destruct Hz.
  - rewrite R2 in H. inversion H; subst st' r. simpl. apply (finish g E d2 _ I2).
    intros y Hy _. unfold E in Hy. repeat (apply orb_true_iff in Hy as [Hy|Hy]).
    + apply str_eqb_eq in Hy. subst y. exact D2n.
    + apply mem_str_In in Hy. apply D2s. exact Hy.
    + apply mem_str_In in Hy. unfold PORTS in Hy. apply in_flat_map in Hy as [sv [Hsv Hy]].
      assert (Csv : cls_is g sv KNS = true) by (apply In_first_nb in Hsv; tauto).
      apply (PG2 (fun sv' x _ D _ => ltac:(discriminate D)) sv y Csv (D2s sv Hsv) Hy).
Qed.

(* ---- the steps as runs: done entirely or not at all ------------------------------------------------------------------------ *)
Lemma new_iface_run sub name iid parent itype lab s s' r :
  NoDup (map nid (gnodes (sg s))) -> has_id (sg s) parent = true ->
  new_interface sub name iid parent itype lab s = (s', r) ->
  (exists id, r = Ok id /\ has_id (sg s) id = false /\ sg s' = add_owned (sg s) (mk id KCP (Some itype) name lab) parent Connects) \/
  (exists e, r = Err e /\ sg s' = sg s).
Proof.
  intros ND Hp H. unfold new_interface in H.
  apply bind_reads in H; [|auto with reads]. destruct H as [[s1 [[] [_ [Hg0 H]]]]|[e [Hr Hg]]]; [|right; eauto].
  apply bind_reads in H; [|auto with reads]. destruct H as [[s2 [id [_ [Hg H]]]]|[e [Hr Hg]]]; [|right; exists e; split; [exact Hr | congruence]].
  apply bind_reads in H; [|auto with reads]. destruct H as [[s3 [[] [_ [Hg2 H]]]]|[e [Hr Hg2]]]; [|right; exists e; split; [exact Hr | congruence]].
  assert (G3 : sg s3 = sg s) by congruence.
  apply bind_inv in H as [[s4 [[] [H1 H2]]]|[e [H1 Hr]]].
  - apply ret_inv in H2 as [-> ->]. unfold add_interface_sliver in H1.
    apply add_owned_run in H1; [| rewrite G3; exact ND | rewrite G3; exact Hp].
    destruct H1 as [[_ [Hf Hq]]|[e [He _]]]; [|discriminate]. left. exists id. rewrite G3 in *. auto.
  - unfold add_interface_sliver in H1.
    apply add_owned_run in H1; [| rewrite G3; exact ND | rewrite G3; exact Hp].
    destruct H1 as [[H1 _]|[e' [_ Hq]]]; [discriminate|]. right. exists e. split; [exact Hr | congruence].
Qed.

Lemma node_add_ns_shape n name sid nstype s s' r :
  NoDup (map nid (gnodes (sg s))) -> has_id (sg s) n = true ->
  node_add_ns n name sid nstype s = (s', r) ->
  (exists id, r = Ok id /\ has_id (sg s) id = false /\ sg s' = add_owned (sg s) (mk id KNS (Some nstype) name false) n Has) \/
  (exists e, r = Err e /\ sg s' = sg s).
Proof.
  intros ND Hn H. unfold node_add_ns in H.
  apply bind_reads in H; [|auto with reads]. destruct H as [[s1 [ss [_ [Hg0 H]]]]|[e [Hr Hg]]]; [|right; eauto].
  apply bind_reads in H; [|auto with reads]. destruct H as [[s2 [g0 [_ [Hg1 H]]]]|[e [Hr Hg]]]; [|right; exists e; split; [exact Hr | congruence]].
  apply bind_reads in H; [|auto with reads]. destruct H as [[s3 [[] [_ [Hg2 H]]]]|[e [Hr Hg]]]; [|right; exists e; split; [exact Hr | congruence]].
  unfold new_service in H.
  apply bind_reads in H; [|auto with reads]. destruct H as [[s4 [id [_ [Hg3 H]]]]|[e [Hr Hg]]]; [|right; exists e; split; [exact Hr | congruence]].
  apply bind_reads in H; [|auto with reads]. destruct H as [[s5 [[] [_ [Hg4 H]]]]|[e [Hr Hg]]]; [|right; exists e; split; [exact Hr | congruence]].
  apply bind_reads in H; [|auto with reads]. destruct H as [[s6 [[] [_ [Hg5 H]]]]|[e [Hr Hg]]]; [|right; exists e; split; [exact Hr | congruence]].
  assert (G6 : sg s6 = sg s) by congruence.
  rewrite bind_assoc in H.
  apply bind_inv in H as [[s7 [[] [H1 H2]]]|[e [H1 Hr]]].
  - apply ret_inv in H2 as [-> ->].
    apply add_owned_run in H1; [| rewrite G6; exact ND | rewrite G6; exact Hn].
    destruct H1 as [[_ [Hf Hq]]|[e [He _]]]; [|discriminate]. left. exists id. rewrite G6 in *. auto.
  - apply add_owned_run in H1; [| rewrite G6; exact ND | rewrite G6; exact Hn].
    destruct H1 as [[H1 _]|[e' [_ Hq]]]; [discriminate|]. right. exists e. split; [exact Hr | congruence].
Qed.

Lemma name_of_add_owned_new g nd a r : has_id g (nid nd) = false -> name_of (add_owned g nd a r) (nid nd) = nname nd.
Proof.
  intro Hf. unfold name_of, add_owned.
  assert (F : find_nodes (g_add_edge (g_add_node g nd) a r (nid nd)) (nid nd) = find_nodes (g_add_node g nd) (nid nd)) by reflexivity.
  rewrite F, (find_nodes_add_node_same _ _ Hf). reflexivity.
Qed.

(* the interfaces of the new node's service, every outcome *)
Lemma add_ifaces_lonely sub n sv : forall l cache s s' r,
  WF (sg s) -> cls_is (sg s) n KNode = true -> cls_is (sg s) sv KNS = true -> Forall iface_spec_ok l ->
  (forall y, In y (first_nb (sg s) sv Connects KCP) -> In (name_of (sg s) y) cache) ->
  Lonely (sg s) n ->
  add_ifaces sub sv cache l s = (s', r) -> WF (sg s') /\ cls_is (sg s') n KNode = true /\ Lonely (sg s') n.
Proof.
  induction l as [|[[name iid] itype] l IH]; intros cache s s' r W Cn Cs Hl Hc Lo H.
  - simpl in H. apply ret_inv in H as [-> _]. auto.
  - pose proof H as Hall. simpl in H. inversion Hl as [|? ? Hspec Hl']; subst.
    apply bind_inv in H as [[s1 [id [H1 H2]]]|[e [H1 Hr]]].
    + (* this interface was added *)
      assert (W1 : WF (sg s1)).
      { apply (add_ifaces_loop sub sv [(name, iid, itype)] cache s s1 (Ok tt) W Cs); [constructor; [exact Hspec | constructor] | exact Hc|].
        simpl. unfold bind at 1. rewrite H1. reflexivity. }
      unfold ns_add_interface in H1. apply bind_inv in H1 as [[s0 [[] [Hgd H1]]]|[e [_ Q]]]; [|discriminate Q].
      apply guard_ok_val in Hgd as [-> _].
      destruct (new_iface_run _ _ _ _ _ _ _ _ _ (wf_ids _ W) (cls_is_has_id _ _ _ Cs) H1) as [[id' [Q [Hf G1]]]|[e [Q _]]]; [|discriminate Q].
      inversion Q; subst id'. clear Q. set (nd := mk id KCP (Some itype) name true) in *.
      change (has_id (sg s) (nid nd) = false) in Hf.
      pose proof (cls_is_has_id _ _ _ Cn) as Hn. pose proof (cls_is_has_id _ _ _ Cs) as Hs.
      apply (IH (cache ++ [Some name]) s1 s' r W1); [| | exact Hl' | | | exact H2]; rewrite G1.
      * rewrite (of_cls_old (sg s) nd sv Connects Hf n KNode Hn). exact Cn.
      * rewrite (of_cls_old (sg s) nd sv Connects Hf sv KNS Hs). exact Cs.
      * intros y Hy. rewrite (of_first_nb_a (sg s) nd sv Connects W Hf Connects KCP Hs) in Hy. simpl in Hy.
        apply in_app_or in Hy as [Hy|[<-|[]]].
        -- assert (Hyn : y <> nid nd) by (intro E; subst y; rewrite (first_nb_has_id _ _ _ _ _ (wf_edge_ends _ W) Hy) in Hf; discriminate).
           rewrite (ao_name_old (sg s) nd sv Connects y Hyn). apply in_or_app. left. apply Hc. exact Hy.
        -- change id with (nid nd). rewrite (name_of_add_owned_new (sg s) nd sv Connects Hf). apply in_or_app. right. left. reflexivity.
      * apply lonely_add_iface; auto.
    + (* it was refused: nothing changed *)
      assert (G : sg s' = sg s).
      { unfold ns_add_interface in H1. apply bind_inv in H1 as [[s0 [[] [Hgd H1]]]|[e' [Hgd _]]].
        - apply guard_ok_val in Hgd as [-> _].
          destruct (new_iface_run _ _ _ _ _ _ _ _ _ (wf_ids _ W) (cls_is_has_id _ _ _ Cs) H1) as [[id' [Q _]]|[e' [_ Q]]]; [discriminate Q | exact Q].
        - eapply reads_guard; eauto. }
      rewrite G. auto.
Qed.

(* the inner part of add_facility / add_switch: the service, then the interfaces *)
Lemma node_service_and_ifaces sub n sname ssid nstype (specs : list (str * option str * str)) s s' r :
  WF (sg s) -> type_allowed KNS nstype = true -> cls_is (sg s) n KNode = true -> Lonely (sg s) n ->
  Forall iface_spec_ok specs ->
  (sv <- node_add_ns n sname ssid nstype ;; add_ifaces sub sv [] specs) s = (s', r) ->
  WF (sg s') /\ cls_is (sg s') n KNode = true /\ Lonely (sg s') n.
Proof.
  intros W T Cn Lo Hl H. pose proof (cls_is_has_id _ _ _ Cn) as Hn.
  apply bind_inv in H as [[s1 [sv [H1 H2]]]|[e [H1 _]]].
  - destruct (api_node_add_ns_post _ _ _ _ _ _ _ W T Cn H1) as [W1 [Cs Es]].
    destruct (node_add_ns_shape _ _ _ _ _ _ _ (wf_ids _ W) Hn H1) as [[id [Q [Hf G1]]]|[e [Q _]]]; [|discriminate Q].
    inversion Q; subst id. clear Q. set (nsn := mk sv KNS (Some nstype) sname false) in *.
    change (has_id (sg s) (nid nsn) = false) in Hf.
    apply (add_ifaces_lonely sub n sv specs [] s1 s' r W1); [| exact Cs | exact Hl | | | exact H2].
    + rewrite G1, (of_cls_old (sg s) nsn n Has Hf n KNode Hn). exact Cn.
    + rewrite Es. intros y [].
    + rewrite G1. apply lonely_add_service; auto.
  - pose proof (api_node_add_ns _ _ _ _ _ _ _ W T H1) as W1.
    destruct (node_add_ns_shape _ _ _ _ _ _ _ (wf_ids _ W) Hn H1) as [[id [Q _]]|[e' [_ G]]]; [discriminate Q|].
    rewrite G. auto.
Qed.

Lemma lonely_new_node g n : nbrs g n = [] -> Lonely g n.
Proof. intro H. unfold Lonely, first_nb. rewrite H. simpl. split; [reflexivity | intros sv x []]. Qed.

(* node, then `inner`, with the rollback *)
Lemma node_construct sub name nid ntype (inner : str -> M unit) s s' r :
  WF (sg s) -> type_allowed KNode ntype = true ->
  (forall n sa sb rr, WF (sg sa) -> cls_is (sg sa) n KNode = true -> Lonely (sg sa) n -> inner n sa = (sb, rr) ->
                      WF (sg sb) /\ cls_is (sg sb) n KNode = true /\ Lonely (sg sb) n) ->
  (n <- t_add_node sub name nid ntype ;; try_any (inner n) (fun e => remove_network_node n ;;; raise e)) s = (s', r) ->
  WF (sg s').
Proof.
  intros W T Hin H.
  apply bind_inv in H as [[s1 [n [H1 H2]]]|[e [H1 _]]]; [|eapply api_add_node; eauto].
  destruct (api_add_node_post _ _ _ _ _ _ _ W T H1) as [W1 [Cn Nn]].
  unfold try_any in H2. destruct (inner n s1) as [sX [v|e]] eqn:E.
  - inversion H2; subst. destruct (Hin n s1 s' (Ok v) W1 Cn (lonely_new_node _ _ Nn) E) as [X _]. exact X.
  - destruct (Hin n s1 sX (Err e) W1 Cn (lonely_new_node _ _ Nn) E) as [WX [CX LX]].
    apply bind_inv in H2 as [[s2 [[] [H3 H4]]]|[e' [H3 _]]].
    + apply raise_inv in H4 as [-> _]. eapply remove_lonely_node; eauto.
    + eapply remove_lonely_node; eauto.
Qed.

(* Topology.add_facility, every outcome *)
Theorem api_add_facility sub name nid ifnames s s' r :
  WF (sg s) -> t_add_facility sub name nid ifnames s = (s', r) -> WF (sg s').
Proof.
  intros W H. destruct facility_types_ok as [T1 [_ [T3 [_ [[I1 [I2 I3]] _]]]]]. unfold t_add_facility in H.
  eapply (node_construct sub name nid sFacility _ s s' r W T1); [|exact H].
  intros n sa sb rr Wa Ca La Hi. cbv beta in Hi.
  destruct ifnames as [[|x l]|]; (eapply node_service_and_ifaces; [exact Wa | exact T3 | exact Ca | exact La | | exact Hi]).
  - constructor; [repeat split; assumption | constructor].
  - apply Forall_forall. intros z Hz. apply in_map_iff in Hz as [kx [E _]]. subst z. repeat split; assumption.
  - constructor; [repeat split; assumption | constructor].
Qed.

(* Topology.add_switch, every outcome *)
Theorem api_add_switch sub name nid nports s s' r :
  WF (sg s) -> t_add_switch sub name nid nports s = (s', r) -> WF (sg s').
Proof.
  intros W H. destruct facility_types_ok as [_ [T2 [_ [T4 [_ [I1 [I2 I3]]]]]]]. unfold t_add_switch in H.
  eapply (node_construct sub name nid sSwitch _ s s' r W T2); [|exact H].
  intros n sa sb rr Wa Ca La Hi. cbv beta in Hi.
  eapply node_service_and_ifaces; [exact Wa | exact T4 | exact Ca | exact La | | exact Hi].
  apply Forall_forall. intros z Hz. apply in_map_iff in Hz as [k [E _]]. subst z. repeat split; assumption.
Qed.

(* C17 - what the comparison reports for single edits applied to a copy (corollaries of node_diff_exact). *)
From Coq Require Import List NArith ZArith Bool.
Import ListNotations.
From FIM Require Import Model.Diff17 Proofs.Diff17Lemmas.

Lemma filter_nil {A} (f : A -> bool) l : (forall x, In x l -> f x = false) -> filter f l = [].
Proof.
  induction l as [|x l IH]; cbn; intros H; auto.
  rewrite (H x (or_introl eq_refl)). apply IH. intros; apply H; now right.
Qed.

Lemma flat_map_nil {A B} (g : A -> list B) l : (forall x, In x l -> g x = []) -> flat_map g l = [].
Proof.
  induction l as [|x l IH]; cbn; intros H; auto.
  rewrite (H x (or_introl eq_refl)). apply IH. intros; apply H; now right.
Qed.

Lemma exp_self_refl p : exp_self p p = [].
Proof. unfold exp_self. now rewrite props_same_refl. Qed.

Section Gen.
  Context {E : Type} (nm : E -> N).

  Lemma has_self e l : In e l -> has nm (nm e) l = true.
  Proof. intros H. apply has_in. now apply in_map. Qed.

  Lemma exp_added_self oa : exp_added nm oa oa = [].
  Proof. unfold exp_added. apply filter_nil. intros x Hx. now rewrite has_self. Qed.

  Lemma exp_removed_self oa : exp_removed nm oa oa = [].
  Proof. unfold exp_removed. apply filter_nil. intros x Hx. now rewrite has_self. Qed.

  Lemma exp_mod_self fl oa :
    NoDup (map nm (dflt oa)) -> (forall e, In e (dflt oa) -> is_none (fl e e) = true) -> exp_mod nm fl oa oa = [].
  Proof.
    intros ND H. unfold exp_mod. apply flat_map_nil. intros e He.
    rewrite dget_nodup; auto. now rewrite H.
  Qed.

  Lemma exp_added_app oa c :
    has nm (nm c) (dflt oa) = false -> exp_added nm oa (Some (dflt oa ++ [c])) = [c].
  Proof.
    intros H. unfold exp_added. cbn [dflt]. rewrite filter_app. cbn. rewrite H. cbn.
    rewrite filter_nil; auto. intros x Hx. now rewrite has_self.
  Qed.

  Lemma exp_removed_app oa c : exp_removed nm oa (Some (dflt oa ++ [c])) = [].
  Proof.
    unfold exp_removed. cbn [dflt]. apply filter_nil. intros x Hx.
    rewrite has_self; auto. apply in_or_app. now left.
  Qed.

  Lemma exp_mod_app fl oa c :
    NoDup (map nm (dflt oa ++ [c])) -> (forall e, In e (dflt oa) -> is_none (fl e e) = true) ->
    exp_mod nm fl oa (Some (dflt oa ++ [c])) = [].
  Proof.
    intros ND H. unfold exp_mod. cbn [dflt]. apply flat_map_nil. intros e He.
    rewrite dget_nodup; auto.
    - now rewrite H.
    - apply in_or_app. now left.
  Qed.

  Lemma nodup_app_fresh l c : NoDup (map nm (l ++ [c])) -> has nm (nm c) l = false.
  Proof.
    rewrite map_app. cbn. intros ND. apply NoDup_remove_2 in ND. rewrite app_nil_r in ND.
    destruct (has nm (nm c) l) eqn:Q; auto. apply has_in in Q. tauto.
  Qed.
End Gen.

Lemma compat_node_add s c : wf_node (add_comp c s) = true -> compat_node s (add_comp c s) = true.
Proof.
  intros W. unfold compat_node. rewrite kids_common_dflt. apply forallb_forall. intros [x y] H.
  apply in_common in H. destruct H as [H1 H2]. cbn [add_comp n_comps dflt] in H2.
  pose proof (wf_node_nodup_c _ W) as ND. cbn [add_comp n_comps dflt] in ND.
  rewrite dget_nodup in H2; auto.
  - inversion H2; subst. cbn. apply compat_comp_refl. apply (wf_node_comps (add_comp c s)); auto.
    cbn [add_comp n_comps dflt]. apply in_or_app. now left.
  - apply in_or_app. now left.
Qed.

(* adding one component to a copy is reported as exactly that component added, nothing else *)
Lemma add_comp_reported s c :
  wf_node s = true -> wf_node (add_comp c s) = true ->
  node_diff s (add_comp c s) = Ok (Some (mkNdiff [c] [] [] [] [] [] [])).
Proof.
  intros Ws W. rewrite node_diff_exact; auto using compat_node_add.
  pose proof (wf_node_nodup_c _ W) as ND. cbn [add_comp n_comps dflt] in ND.
  unfold node_expected. cbn [add_comp n_comps n_svcs n_props].
  rewrite exp_added_app by (now apply nodup_app_fresh).
  rewrite exp_removed_app, exp_added_self, exp_removed_self, exp_self_refl.
  rewrite exp_mod_app; auto.
  - rewrite exp_mod_self; auto using wf_node_nodup_s.
    intros e He. rewrite is_none_nsvc_flags. apply props_same_refl.
  - intros e He. rewrite is_none_comp_flags. apply comp_same_refl. now apply (wf_node_comps s).
Qed.

(* ... and seen from the other side it is exactly that component removed *)
Lemma add_comp_reported_reverse s c :
  wf_node s = true -> wf_node (add_comp c s) = true ->
  exists o, node_diff (add_comp c s) s = Ok o /\ nd_removed_c o = [c] /\ nd_added_c o = [] /\
            nd_added_s o = [] /\ nd_removed_s o = [].
Proof.
  intros Ws W. destruct (node_diff (add_comp c s) s) as [o|e] eqn:Q.
  - exists o. split; auto.
    destruct (node_antisym _ _ _ _ (add_comp_reported s c Ws W) Q) as [A [B [C D]]]. cbn in A, B, C, D.
    repeat split; congruence.
  - exfalso.
    assert (compat_node (add_comp c s) s = true) as Cm.
    { unfold compat_node. rewrite kids_common_dflt. apply forallb_forall. intros [x y] H.
      apply in_common in H. destruct H as [H1 H2]. cbn [add_comp n_comps dflt] in H1.
      pose proof (dget_some _ _ _ _ H2) as [H3 H4].
      pose proof (wf_node_nodup_c _ W) as ND. cbn [add_comp n_comps dflt] in ND.
      assert (x = y) as ->.
      { assert (dget c_name (c_name y) (dflt (n_comps s) ++ [c]) = Some y) as G
          by (apply dget_nodup; auto; apply in_or_app; now left).
        assert (dget c_name (c_name x) (dflt (n_comps s) ++ [c]) = Some x) as G' by (apply dget_nodup; auto).
        rewrite <- H4 in G'. congruence. }
      cbn. apply compat_comp_refl. now apply (wf_node_comps s). }
    rewrite node_diff_exact in Q; auto. discriminate.
Qed.

(* changing the node's own tracked properties is reported as exactly those flags on the node, nothing else *)
Lemma set_props_reported s p :
  wf_node s = true ->
  node_diff s (set_node_props p s)
  = Ok (if props_same (n_props s) p then None else Some (mkNdiff [] [] [] [] (exp_self (n_props s) p) [] [])).
Proof.
  intros W.
  assert (wf_node (set_node_props p s) = true) as W' by exact W.
  assert (compat_node s (set_node_props p s) = true) as C by exact (compat_node_refl s W).
  rewrite node_diff_exact; auto.
  unfold node_expected. cbn [set_node_props n_comps n_svcs n_props].
    rewrite !exp_added_self, !exp_removed_self.
  rewrite !exp_mod_self; auto using wf_node_nodup_s, wf_node_nodup_c.
    + unfold mk_opt, ndiff_empty. cbn. rewrite isnil_exp_self. reflexivity.
    + intros e He. rewrite is_none_nsvc_flags. apply props_same_refl.
    + intros e He. rewrite is_none_comp_flags. apply comp_same_refl. now apply (wf_node_comps s).
Qed.

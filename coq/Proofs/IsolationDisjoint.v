(* C04 on the one-graph-per-id store: per-graph allocator invariant over all histories and the frame
   theorem (an operation addressed to g leaves the nx.Graph of every other id literally unchanged). *)
From Coq Require Import List NArith Bool Lia.
From FIM Require Import Base.Assoc Model.Store Model.StoreDisjoint Proofs.IsolationBase Proofs.IsolationShared.
Import ListNotations.
Open Scope N_scope.

Definition DInv (d : dstore) : Prop := forall g, SInv (mkS (dget d g) (dcounter d g)).

Lemma dget_dput d g G g' : dget (dput d g G) g' = if N.eqb g' g then G else dget d g'.
Proof. unfold dget, dput. simpl. rewrite aget_aset. now destruct (N.eqb g' g). Qed.

Lemma dget_dput_ctr d g c g' : dget (dput_ctr d g c) g' = dget d g'.
Proof. reflexivity. Qed.

Lemma dcounter_dput d g G g' : dcounter (dput d g G) g' = dcounter d g'.
Proof. reflexivity. Qed.

Lemma dcounter_dput_ctr d g c g' : dcounter (dput_ctr d g c) g' = if N.eqb g' g then c else dcounter d g'.
Proof. unfold dcounter, dput_ctr. simpl. rewrite aget_aset. now destruct (N.eqb g' g). Qed.

Lemma DInv_put d g G : DInv d -> SInv (mkS G (dcounter d g)) -> DInv (dput d g G).
Proof.
  intros H HG g'. rewrite dget_dput, dcounter_dput.
  destruct (N.eqb g' g) eqn:E; [apply N.eqb_eq in E; now subst | apply H].
Qed.

Lemma DInv_put_ctr d g G c : DInv d -> SInv (mkS G c) -> DInv (dput_ctr (dput d g G) g c).
Proof.
  intros H HG g'. rewrite dget_dput_ctr, dget_dput, dcounter_dput_ctr, dcounter_dput.
  destruct (N.eqb g' g); [exact HG | apply H].
Qed.

Lemma DInv_lift d g x : DInv d -> keeps (fst x) (dget d g) -> DInv (fst (dlift d g x)).
Proof.
  intros H K. unfold dlift. simpl. apply DInv_put; [exact H|].
  apply (SInv_keeps (mkS (dget d g) (dcounter d g))); [apply H | exact K].
Qed.

Lemma SInv_empty c : SInv (mkS empty_nxg c).
Proof. split; simpl; [constructor | intros i []]. Qed.

Lemma SInv_fresh_graph ns es :
  map fst ns = seqN 1 (length ns) ->
  SInv (mkS (nx_add_all empty_nxg ns es) (N.of_nat (length ns) + 1)).
Proof.
  intro H. rewrite N.add_comm.
  apply (SInv_add_all (mkS empty_nxg 1)); [apply SInv_empty | exact H].
Qed.

Lemma d_clone_cases d g g2 :
  (gn (dget d g) = [] /\ d_clone d g g2 = (d, Err EQuery)) \/
  (gn (dget d g) <> [] /\ d_clone d g g2 = d_add_graph d g2 (d_extract d g)).
Proof.
  unfold d_clone, d_extract. destruct (gn (dget d g)) eqn:E; [left; now split | right; split; [discriminate | reflexivity]].
Qed.

Lemma DInv_add_graph d g ig : DInv d -> DInv (fst (d_add_graph d g ig)).
Proof.
  intro H. unfold d_add_graph. destruct (gn (dget d g)); [|exact H].
  destruct (existsb node_id_missing (inodes (relabel ig 1))); cbn [fst]; [exact H|].
  apply DInv_put_ctr; [exact H|].
  replace (length (inodes (relabel ig 1))) with (length (stamp g (inodes (relabel ig 1))))
    by (unfold stamp; apply map_length).
  apply SInv_fresh_graph. rewrite map_fst_stamp. unfold stamp. rewrite map_length. apply relabel_inodes_fst.
Qed.

Lemma DInv_add_graph_direct d g ig : DInv d -> DInv (fst (d_add_graph_direct d g ig)).
Proof.
  intro H. unfold d_add_graph_direct. cbn [fst]. apply DInv_put_ctr; [exact H|].
  apply SInv_fresh_graph. apply relabel_inodes_fst.
Qed.

Lemma DInv_del_graph d g : DInv d -> DInv (d_del_graph d g).
Proof.
  intro H. unfold d_del_graph. destruct (gn (dget d g)); [exact H|].
  apply DInv_put; [exact H | apply SInv_empty].
Qed.

Theorem DInv_step d o : DInv d -> DInv (fst (dstep d o)).
Proof.
  intro H. destruct o; simpl; try exact H.
  - now apply DInv_add_graph.
  - now apply DInv_add_graph_direct.
  - now apply DInv_del_graph.
  - destruct (d_clone_cases d g g2) as [[_ E]|[_ E]]; rewrite E; [exact H | now apply DInv_add_graph].
  - destruct (pg_add_node (dget d g) g (dcounter d g) n c ps) eqn:E; simpl; [|exact H].
    apply DInv_put_ctr; [exact H|].
    apply (SInv_add_node (mkS (dget d g) (dcounter d g)) g n c ps); [apply H | exact E].
  - apply DInv_lift; [exact H | apply keeps_delete_node].
  - apply DInv_lift; [exact H | apply keeps_add_link].
  - apply DInv_lift; [exact H | apply keeps_update_node].
  - apply DInv_lift; [exact H | apply keeps_unset_node].
  - apply DInv_lift; [exact H | apply keeps_update_nodes].
  - apply DInv_lift; [exact H | apply keeps_update_node_props].
  - apply DInv_lift; [exact H | apply keeps_with_link].
  - apply DInv_lift; [exact H | apply keeps_with_link].
  - apply DInv_lift; [exact H | apply keeps_with_link].
Qed.

Lemma DInv_init : DInv init_dstore.
Proof. intro g. apply SInv_empty. Qed.

Theorem DInv_run ops : forall d, DInv d -> DInv (drun ops d).
Proof.
  induction ops as [|o r IH]; intros d H; simpl; [exact H|]. apply IH. now apply DInv_step.
Qed.

Theorem ids_unique_all_disjoint ops g :
  NoDup (ids (dget (drun ops init_dstore) g)) /\
  forall i, In i (ids (dget (drun ops init_dstore) g)) -> i < dcounter (drun ops init_dstore) g.
Proof. exact (DInv_run ops init_dstore DInv_init g). Qed.

(* ---------- frame: nothing but the addressed id's nx.Graph is touched ---------- *)
Lemma dget_dlift d g x g' : g <> g' -> dget (fst (dlift d g x)) g' = dget d g'.
Proof.
  intro H. unfold dlift. simpl. rewrite dget_dput.
  destruct (N.eqb g' g) eqn:E; [apply N.eqb_eq in E; congruence | reflexivity].
Qed.

Lemma dget_put_other d g G g' : g <> g' -> dget (dput d g G) g' = dget d g'.
Proof.
  intro H. rewrite dget_dput. destruct (N.eqb g' g) eqn:E; [apply N.eqb_eq in E; congruence | reflexivity].
Qed.

Lemma frame_d_add_graph d g ig g' : g <> g' -> dget (fst (d_add_graph d g ig)) g' = dget d g'.
Proof.
  intro H. unfold d_add_graph. destruct (gn (dget d g)); [|reflexivity].
  destruct (existsb node_id_missing (inodes (relabel ig 1))); cbn [fst]; [reflexivity|].
  rewrite dget_dput_ctr. now apply dget_put_other.
Qed.

Theorem frame_step_disjoint d o g' : target o <> g' -> dget (fst (dstep d o)) g' = dget d g'.
Proof.
  intro Hne. destruct o; simpl in Hne; simpl; try reflexivity;
    try (now apply dget_dlift).
  - now apply frame_d_add_graph.
  - unfold d_add_graph_direct. cbn [fst]. rewrite dget_dput_ctr. now apply dget_put_other.
  - unfold d_del_graph. destruct (gn (dget d g)); [reflexivity | now apply dget_put_other].
  - destruct (d_clone_cases d g g2) as [[_ E]|[_ E]]; rewrite E; [reflexivity | now apply frame_d_add_graph].
  - destruct (pg_add_node (dget d g) g (dcounter d g) n c ps); simpl; [|reflexivity].
    rewrite dget_dput_ctr. now apply dget_put_other.
Qed.

Theorem frame_histories_disjoint ops : forall d g',
  (forall o, In o ops -> target o <> g') -> dget (drun ops d) g' = dget d g'.
Proof.
  induction ops as [|o r IH]; intros d g' H; simpl; [reflexivity|].
  rewrite IH; [apply frame_step_disjoint; apply H; now left | intros o' Ho'; apply H; now right].
Qed.

(* C09 - composite builders with a rollback (add_facility since fix 2982a89, add_switch when it has one):
   whatever step after the node is rejected, removing the node with its service and ports restores the graph. *)
From Coq Require Import List NArith Bool Lia.
From FIM Require Import Base.Str Gen.T9Names Model.T9Graph Model.T9Ops Proofs.T9Monad Proofs.T9Simple Proofs.T9Ext
     Proofs.T9Rollback Proofs.T9Connect.
Import ListNotations.
Open Scope N_scope.

Lemma NoDup_app_l {A} (a b : list A) : NoDup (a ++ b) -> NoDup a.
Proof.
  induction a; simpl; intro H; [constructor|]. inversion H; subst. constructor; auto.
  intro X. apply H2. apply in_app_iff; auto.
Qed.

(* the graph while the builder runs: pre-state, the new node, its service, the ports made so far *)
Definition FS (g : graph) (fac nsn : node) (os : list node) : graph :=
  mkGraph (gnodes g ++ fac :: nsn :: os)
          (gedges g ++ mkEdge (nid fac) (nid nsn) rHas :: map (orphan_edge (nid nsn)) os).

Record fs_ok (g : graph) (fac nsn : node) (os : list node) : Prop := mkFsOk {
  fo_nodup : NoDup (ids g ++ nid fac :: nid nsn :: map nid os);
  fo_fac : ncls fac = cNN;
  fo_ns : ncls nsn = cNS;
  fo_os : forall o, In o os -> ncls o = cCP }.

Lemma ids_FS g fac nsn os : ids (FS g fac nsn os) = ids g ++ nid fac :: nid nsn :: map nid os.
Proof. unfold ids, FS; simpl. rewrite map_app. reflexivity. Qed.

Lemma FS_closed g fac nsn os : closed g -> closed (FS g fac nsn os).
Proof.
  intros Hc e He. rewrite ids_FS. unfold FS in He; simpl in He.
  apply in_app_iff in He as [He|[<-|He]].
  - destruct (Hc e He). split; apply in_app_iff; auto.
  - simpl. split; apply in_app_iff; right; simpl; auto.
  - apply in_map_iff in He as [o [<- Ho]]. simpl. split; apply in_app_iff; right; simpl; auto.
    right; right. apply in_map; auto.
Qed.

(* ---------------------------------------------------------------- the handler *)
Lemma fs_handler g fac nsn os fr : closed g -> fs_ok g fac nsn os ->
  remove_network_node_with_all (nid fac) (mkSt (FS g fac nsn os) fr) = (mkSt g fr, Ok tt).
Proof.
  intros Hcl [Hnd Hfac Hns Hos].
  set (E := FS g fac nsn os).
  assert (HndE : NoDup (ids E)) by (unfold E; rewrite ids_FS; exact Hnd).
  assert (Hf_new : ~ In (nid fac) (ids g)) by (apply NoDup_mid in Hnd as (A & _ & _); exact A).
  assert (Hf_rest : ~ In (nid fac) (nid nsn :: map nid os)) by (apply NoDup_mid in Hnd as (_ & B & _); exact B).
  assert (Hfind : find_node E (nid fac) = Ok fac).
  { apply find_node_unique; auto. unfold E, FS; simpl. apply in_app_iff. right. left. reflexivity. }
  assert (Hadj : adj_rel E (nid fac) rHas = [nid nsn]).
  { unfold adj_rel, E, FS. cbn [gedges]. rewrite flat_map_app.
    fold (adj_es (gedges g) (nid fac) rHas). rewrite (adj_es_untouched _ _ _ (closed_untouched g _ Hcl Hf_new)).
    simpl. unfold other_end at 1; simpl. rewrite N.eqb_refl. simpl. f_equal.
    apply flat_map_nil. intros e He. apply in_map_iff in He as [o [<- Ho]]. reflexivity. }
  assert (Hcls_ns : cls_of E (nid nsn) = Some cNS).
  { unfold cls_of, find_nodes. rewrite (find_nodes_unique (gnodes E) nsn HndE).
    - rewrite Hns. reflexivity.
    - unfold E, FS; simpl. apply in_app_iff. right. right. left. reflexivity. }
  assert (Hfc : first_neighbor E (nid fac) rHas cComp = Ok []).
  { unfold first_neighbor. rewrite Hfind, Hadj. simpl. unfold has_cls. rewrite Hcls_ns. reflexivity. }
  assert (Hfs : first_neighbor E (nid fac) rHas cNS = Ok [nid nsn]).
  { unfold first_neighbor. rewrite Hfind, Hadj. simpl. unfold has_cls. rewrite Hcls_ns. reflexivity. }
  unfold remove_network_node_with_all, bind, ask. simpl sg.
  unfold node_cls. rewrite Hfind. rewrite Hfac. simpl. fold E.
  rewrite Hfc. simpl. rewrite Hfs.
  unfold m_delete_node, mutate, g_delete_node. simpl sg. rewrite Hfind.
  assert (Hraw : remove_node_raw (nid fac) E = extO g nsn [] os).
  { unfold remove_node_raw, E, FS, extO, tail_nodes, tail_edges. simpl. f_equal.
    - rewrite filter_app. simpl. rewrite N.eqb_refl. simpl.
      rewrite filter_nodes_notin by (intros n Hn X; apply Hf_new; rewrite <- X; apply in_map; auto).
      f_equal.
      rewrite (neqb_of_neq (nid nsn) (nid fac)) by (intro X; apply Hf_rest; left; auto). simpl. f_equal.
      apply filter_nodes_notin. intros n Hn X. apply Hf_rest. right. rewrite <- X. apply in_map; auto.
    - rewrite filter_app. rewrite (filter_untouched _ _ (closed_untouched g _ Hcl Hf_new)). f_equal.
      simpl. unfold touches at 1; simpl. rewrite N.eqb_refl. simpl.
      apply filter_all. intros e He. apply in_map_iff in He as [o [<- Ho]]. unfold touches, orphan_edge; simpl.
      rewrite (neqb_of_neq (nid nsn) (nid fac)) by (intro X; apply Hf_rest; left; auto).
      rewrite (neqb_of_neq (nid o) (nid fac))
        by (intro X; apply Hf_rest; right; rewrite <- X; apply in_map; auto). reflexivity. }
  rewrite Hraw. simpl for_each. unfold bind at 1.
  rewrite (remove_ns_orphans g nsn os fr Hcl); [reflexivity|].
  apply NoDup_mid in Hnd as (_ & _ & Hnd').
  constructor.
  - constructor.
    + unfold new_ids, conn_ids; simpl.
      assert (X : NoDup ((ids g ++ [nid nsn]) ++ map nid os)) by (rewrite <- app_assoc; exact Hnd').
      apply NoDup_app_l in X. exact X.
    + exact Hns.
    + intros c Hc; destruct Hc.
    + constructor.
    + intros c Hc; destruct Hc.
  - unfold new_ids, conn_ids; simpl. exact Hnd'.
  - exact Hos.
Qed.

(* only the node was made (the service step failed): removing it restores g *)
Lemma node_handler g fac fr : closed g -> ~ In (nid fac) (ids g) -> NoDup (ids g) -> ncls fac = cNN ->
  remove_network_node_with_all (nid fac) (mkSt (mkGraph (gnodes g ++ [fac]) (gedges g)) fr) = (mkSt g fr, Ok tt).
Proof.
  intros Hcl Hnew Hnd Hfac.
  set (E := mkGraph (gnodes g ++ [fac]) (gedges g)).
  assert (HndE : NoDup (ids E)) by (unfold ids, E; simpl; rewrite map_app; simpl; apply NoDup_snoc; auto).
  assert (Hfind : find_node E (nid fac) = Ok fac).
  { apply find_node_unique; auto. unfold E; simpl. apply in_app_iff. right. left. reflexivity. }
  assert (Hunt : untouched (nid fac) (gedges E)) by (unfold E; simpl; apply closed_untouched; auto).
  assert (Hfn : forall k, first_neighbor E (nid fac) rHas k = Ok []).
  { intro k. unfold first_neighbor. rewrite Hfind. unfold adj_rel. fold (adj_es (gedges E) (nid fac) rHas).
    rewrite (adj_es_untouched _ _ _ Hunt). reflexivity. }
  assert (Hraw : remove_node_raw (nid fac) E = g).
  { unfold remove_node_raw. rewrite (filter_untouched _ _ Hunt). unfold E; simpl.
    rewrite filter_app. simpl. rewrite N.eqb_refl. simpl. rewrite app_nil_r.
    rewrite filter_nodes_notin by (intros n Hn X; apply Hnew; rewrite <- X; apply in_map; auto).
    destruct g; reflexivity. }
  unfold remove_network_node_with_all, bind, ask. simpl sg.
  unfold node_cls. rewrite Hfind. rewrite Hfac. simpl. fold E.
  rewrite Hfn. cbn [for_each]. unfold ret. cbn [sg]. rewrite Hfn.
  unfold m_delete_node, mutate, g_delete_node. simpl sg. rewrite Hfind. rewrite Hraw. reflexivity.
Qed.

(* ---------------------------------------------------------------- shapes of the successful steps *)
Lemma op_add_node_shape fl name node_id ty pure s s1 id :
  op_add_node fl name node_id (Some ty) pure s = (s1, Ok id) ->
  has_node (sg s) id = false /\ sg s1 = mkGraph (gnodes (sg s) ++ [mkNode id cNN name ty 0]) (gedges (sg s)).
Proof.
  intro H. unfold op_add_node in H.
  apply bind_ok in H as (s' & names & H1 & H). apply ask_ok in H1 as [-> _].
  apply bind_ok in H as (s' & u1 & H1 & H). apply guard_ok in H1 as [-> _].
  apply bind_ok in H as (s' & u2 & H1 & H). apply guard_ok in H1 as [-> _].
  apply bind_ok in H as (s0 & id0 & H1 & H). apply id_or_draw_ok in H1 as (G0 & _ & _).
  apply bind_ok in H as (s' & u3 & H1 & H). apply guard_ok in H1 as [-> _].
  apply bind_ok in H as (s' & u4 & H1 & H). apply opt_raise_ok in H1 as ->.
  apply bind_ok in H as (s' & tk & H1 & H). apply ask_ok in H1 as [-> _].
  apply bind_ok in H as (s' & u5 & H1 & H). apply guard_ok in H1 as [-> _].
  apply bind_ok in H as (s' & u6 & H1 & H). apply mutate_ok in H1 as (g1 & Hg1 & ->).
  apply add_node_result in Hg1 as [Hnew ->]. simpl nid in Hnew.
  apply ret_ok in H as [-> <-]. simpl. rewrite G0 in *. auto.
Qed.

Lemma op_add_node_service_shape fl pn name node_id ty pure s s1 id :
  closed (sg s) ->
  op_add_node_service fl pn name node_id (Some ty) pure s = (s1, Ok id) ->
  has_node (sg s) id = false /\
  sg s1 = mkGraph (gnodes (sg s) ++ [mkNode id cNS name ty 0]) (gedges (sg s) ++ [mkEdge pn id rHas]).
Proof.
  intros Hcl H. unfold op_add_node_service in H.
  apply bind_ok in H as (s' & names & H1 & H). apply ask_ok in H1 as [-> _].
  apply bind_ok in H as (s' & u1 & H1 & H). apply guard_ok in H1 as [-> _].
  unfold new_service in H.
  apply bind_ok in H as (s0 & id0 & H1 & H). apply id_or_draw_ok in H1 as (G0 & _ & _).
  apply bind_ok in H as (s' & u3 & H1 & H). apply guard_ok in H1 as [-> _].
  apply bind_ok in H as (s' & u4 & H1 & H). apply opt_raise_ok in H1 as ->.
  apply bind_ok in H as (s' & u5 & H1 & H). apply ret_ok in H1 as [-> _].
  apply bind_ok in H as (s' & u6 & H1 & H). apply mutate_ok in H1 as (g1 & Hg1 & ->).
  apply add_node_result in Hg1 as [Hnew ->]. simpl nid in Hnew.
  apply bind_ok in H as (s' & u7 & H1 & H). apply mutate_ok in H1 as (g2 & Hg2 & ->). simpl in Hg2.
  apply bind_ok in H as (s' & u8 & H1 & H). simpl in H1. apply ret_ok in H1 as [-> _].
  apply ret_ok in H as [-> <-]. simpl. rewrite G0 in *.
  assert (Hunt : untouched id (gedges (sg s))).
  { apply closed_untouched; auto. apply has_node_false_In; auto. }
  apply add_edge_result in Hg2; [|simpl; apply same_pair_untouched; exact Hunt]. simpl in Hg2. auto.
Qed.

(* one more port on the service of the builder *)
Lemma port_step fl g fac nsn os cached name nid0 ty pure s s1 r :
  closed g -> fs_ok g fac nsn os -> sg s = FS g fac nsn os ->
  add_interface_cached fl (nid nsn) cached name nid0 (Some ty) pure s = (s1, r) ->
  match r with
  | Err _ => sg s1 = FS g fac nsn os
  | Ok _ => exists o, sg s1 = FS g fac nsn (os ++ [o]) /\ fs_ok g fac nsn (os ++ [o])
  end.
Proof.
  intros Hcl F Hsg H. unfold add_interface_cached in H.
  assert (HclS : closed (sg s)) by (rewrite Hsg; apply FS_closed; auto).
  destruct r as [p|e].
  - apply bind_ok in H as (s' & u & H1 & H). apply guard_ok in H1 as [-> _].
    destruct (new_interface_shape _ _ _ _ _ _ _ _ _ HclS H) as (Hnew & Hs1 & _ & _).
    rewrite Hsg in Hnew, Hs1.
    exists (mkNode p cCP name ty 0). split.
    + rewrite Hs1. unfold FS; simpl. rewrite map_app. simpl. unfold orphan_edge at 2; simpl.
      rewrite <- !app_assoc. reflexivity.
    + destruct F as [Hnd Hf Hn Ho]. constructor; auto.
      * rewrite map_app. simpl.
        apply has_node_false_In in Hnew. rewrite ids_FS in Hnew.
        replace (ids g ++ nid fac :: nid nsn :: map nid os ++ [p])
          with ((ids g ++ nid fac :: nid nsn :: map nid os) ++ [p]) by (rewrite <- app_assoc; reflexivity).
        apply NoDup_snoc; auto.
      * intros o Hin. apply in_app_iff in Hin as [Hin|[<-|[]]]; auto.
  - rewrite <- Hsg.
    apply bind_err_cases in H as [H|(s' & u & H1 & H)]; [exact (no_mut_guard _ _ _ _ _ H)|].
    apply guard_ok in H1 as [-> _].
    refine (new_interface_atomic fl name nid0 (nid nsn) (Some ty) pure s s1 e _ H).
    unfold parent_found. rewrite Hsg. apply parent_found_In.
    + rewrite ids_FS. apply in_app_iff. right. right. left. reflexivity.
    + rewrite ids_FS. apply (fo_nodup _ _ _ _ F).
Qed.

(* ---------------------------------------------------------------- the loops fail in a state the handler undoes *)
Lemma facility_ports_fail fl g fac nsn with_id d_intk : closed g ->
  forall ports cached k os s s1 e, fs_ok g fac nsn os -> sg s = FS g fac nsn os ->
  facility_ports fl (nid nsn) cached ports with_id d_intk k s = (s1, Err e) ->
  exists os', sg s1 = FS g fac nsn os' /\ fs_ok g fac nsn os'.
Proof.
  intros Hcl. induction ports as [|p ports IH]; intros cached k os s s1 e F Hsg H; simpl in H.
  - discriminate.
  - unfold bind at 1 in H.
    destruct (add_interface_cached fl (nid nsn) cached (fp_name p) (if with_id then Some (nth k d_intk 0) else None)
                                   (Some tFacilityPort) (fp_pure p) s) as [s2 r] eqn:E.
    assert (P := port_step fl g fac nsn os _ _ _ _ _ s s2 r Hcl F Hsg E).
    destruct r as [x|e2].
    + destruct P as (o & Hs2 & F2). eapply IH; eauto.
    + inversion H; subst. eauto.
Qed.

Lemma switch_ports_fail fl g fac nsn with_id d_intk pure_port : closed g ->
  forall n cached k os s s1 e, fs_ok g fac nsn os -> sg s = FS g fac nsn os ->
  switch_ports fl (nid nsn) cached n k with_id d_intk pure_port s = (s1, Err e) ->
  exists os', sg s1 = FS g fac nsn os' /\ fs_ok g fac nsn os'.
Proof.
  intros Hcl. induction n as [|n IH]; intros cached k os s s1 e F Hsg H; simpl in H.
  - discriminate.
  - unfold bind at 1 in H.
    destruct (add_interface_cached fl (nid nsn) cached (port_name k)
                (if with_id then Some (nth (Nat.pred k) d_intk 0) else None)
                (Some tDedicatedPort) pure_port s) as [s2 r] eqn:E.
    assert (P := port_step fl g fac nsn os _ _ _ _ _ s s2 r Hcl F Hsg E).
    destruct r as [x|e2].
    + destruct P as (o & Hs2 & F2). eapply IH; eauto.
    + inversion H; subst. eauto.
Qed.

(* ---------------------------------------------------------------- the builders *)
Lemma catch_any_err {A} (m : M A) (h : exn -> M A) s s' e :
  catch_any m h s = (s', Err e) -> exists s2 e2, m s = (s2, Err e2) /\ h e2 s2 = (s', Err e).
Proof. unfold catch_any. destruct (m s) as [s2 [a|e2]]; intro H; [discriminate|eauto]. Qed.

Lemma handler_to_g g (G : graph) n fr e2 s' e :
  remove_network_node_with_all n (mkSt G fr) = (mkSt g fr, Ok tt) ->
  (remove_network_node_with_all n ;;; @raise unit e2) (mkSt G fr) = (s', Err e) -> sg s' = g.
Proof. intros Hr H. unfold bind in H. rewrite Hr in H. unfold raise in H. inversion H. reflexivity. Qed.

(* after the node step: whatever fails in a tail that makes the service and then ports, the handler restores g *)
Section Builder.
  Variables (fl : flavour) (g : graph) (fac : node) (tail : M unit).
  Hypothesis Hcl : closed g.
  Hypothesis Hnd : NoDup (ids g).
  Hypothesis Hnew : ~ In (nid fac) (ids g).
  Hypothesis Hfac : ncls fac = cNN.
  Let G1 := mkGraph (gnodes g ++ [fac]) (gedges g).
  (* the tail either fails leaving G1, or leaves some FS *)
  Hypothesis Htail : forall fr s2 e2, tail (mkSt G1 fr) = (s2, Err e2) ->
     sg s2 = G1 \/ exists nsn os, sg s2 = FS g fac nsn os /\ fs_ok g fac nsn os.

  Lemma builder_restores fr s' e :
    catch_any tail (fun e0 => remove_network_node_with_all (nid fac) ;;; raise e0) (mkSt G1 fr) = (s', Err e) ->
    sg s' = g.
  Proof.
    intro H. apply catch_any_err in H as (s2 & e2 & Ht & Hh).
    destruct s2 as [g2 fr2]. destruct (Htail _ _ _ Ht) as [Hs|(nsn & os & Hs & F)]; simpl in Hs; subst g2.
    - eapply handler_to_g; [|exact Hh]. apply node_handler; auto.
    - eapply handler_to_g; [|exact Hh]. apply fs_handler; auto.
  Qed.
End Builder.

Lemma service_step_cases fl g fac name2 nid2 ty pure_ns fr s3 r :
  closed g -> NoDup (ids g) -> ~ In (nid fac) (ids g) -> ncls fac = cNN ->
  op_add_node_service fl (nid fac) name2 nid2 (Some ty) pure_ns
                      (mkSt (mkGraph (gnodes g ++ [fac]) (gedges g)) fr) = (s3, r) ->
  match r with
  | Err _ => sg s3 = mkGraph (gnodes g ++ [fac]) (gedges g)
  | Ok facs => exists nsn, nid nsn = facs /\ sg s3 = FS g fac nsn [] /\ fs_ok g fac nsn []
  end.
Proof.
  intros Hcl Hnd Hnew Hfac H.
  set (G1 := mkGraph (gnodes g ++ [fac]) (gedges g)) in *.
  assert (HclG1 : closed G1).
  { intros e He. unfold G1, ids in *; simpl in *. rewrite map_app. destruct (Hcl e He).
    split; apply in_app_iff; left; auto. }
  destruct r as [facs|e].
  - destruct (op_add_node_service_shape fl (nid fac) name2 nid2 ty pure_ns (mkSt G1 fr) s3 facs HclG1 H) as [Hn Hs].
    simpl sg in Hn.
    exists (mkNode facs cNS name2 ty 0). split; [reflexivity|]. split.
    + simpl sg in Hs. rewrite Hs. unfold FS, G1; simpl. rewrite <- !app_assoc. reflexivity.
    + constructor; auto; [|intros o []]. simpl.
      apply has_node_false_In in Hn. unfold G1, ids in Hn; simpl in Hn. rewrite map_app in Hn. simpl in Hn.
      replace (ids g ++ [nid fac; facs]) with ((ids g ++ [nid fac]) ++ [facs]) by (rewrite <- app_assoc; reflexivity).
      apply NoDup_snoc; [apply NoDup_snoc; auto|exact Hn].
  - exact (op_add_node_service_atomic fl (nid fac) name2 nid2 (Some ty) pure_ns _ s3 e I H).
Qed.

Lemma add_facility_atomic fl name node_id d_ns d_int d_intk nstype pure_ns ports pure_single g fresh s' e :
  wf_graph g = true ->
  op_add_facility fl name node_id d_ns d_int d_intk nstype pure_ns ports pure_single (mkSt g fresh) = (s', Err e) ->
  sg s' = g.
Proof.
  intros Hwf H. assert (Hcl := wf_closed g Hwf). assert (Hnd := wf_nodup g Hwf).
  unfold op_add_facility in H.
  apply bind_err_cases in H as [H|(s1 & facn & H1 & H)].
  { exact (op_add_node_atomic fl name node_id (Some tFacility) None _ s' e I H). }
  apply op_add_node_shape in H1 as [Hnew Hs1]. simpl sg in Hnew, Hs1.
  apply has_node_false_In in Hnew.
  set (fac := mkNode facn cNN name tFacility 0) in *.
  apply bind_err_cases in H as [H|(s2 & u & H2 & H)]; [|unfold ret in H; discriminate].
  destruct s1 as [g1 fr1]. simpl in Hs1. subst g1.
  eapply (builder_restores g fac _ Hcl Hnd Hnew eq_refl); [|exact H].
  intros fr s2 e2 Ht. unfold facility_tail in Ht.
  apply bind_err_cases in Ht as [Ht|(s3 & facs & H3 & Ht)].
  - left. exact (service_step_cases fl g fac _ _ _ _ fr s2 (Err e2) Hcl Hnd Hnew eq_refl Ht).
  - right. destruct (service_step_cases fl g fac _ _ _ _ fr s3 (Ok facs) Hcl Hnd Hnew eq_refl H3)
      as (nsn & Hid & Hs3 & F). subst facs. exists nsn.
    destruct ports as [[|p l]|].
    + apply bind_err_cases in Ht as [Ht|(s4 & x & _ & Ht)]; [|unfold ret in Ht; discriminate].
      exists []. split; auto. exact (port_step fl g fac nsn [] _ _ _ _ _ s3 s2 (Err e2) Hcl F Hs3 Ht).
    + apply (facility_ports_fail fl g fac nsn _ d_intk Hcl (p :: l) [] 0%nat [] s3 s2 e2 F Hs3 Ht).
    + apply bind_err_cases in Ht as [Ht|(s4 & x & _ & Ht)]; [|unfold ret in Ht; discriminate].
      exists []. split; auto. exact (port_step fl g fac nsn [] _ _ _ _ _ s3 s2 (Err e2) Hcl F Hs3 Ht).
Qed.

(* add_switch with the rollback of proposed_fixes/C09-5.patch *)
Lemma add_switch_atomic_rb fl name node_id d_ns d_intk nstype pure_ns nports pure_port g fresh s' e :
  wf_graph g = true ->
  op_add_switch true fl name node_id d_ns d_intk nstype pure_ns nports pure_port (mkSt g fresh) = (s', Err e) ->
  sg s' = g.
Proof.
  intros Hwf H. assert (Hcl := wf_closed g Hwf). assert (Hnd := wf_nodup g Hwf).
  unfold op_add_switch in H.
  apply bind_err_cases in H as [H|(s1 & sw & H1 & H)].
  { exact (op_add_node_atomic fl name node_id (Some tSwitch) None _ s' e I H). }
  apply op_add_node_shape in H1 as [Hnew Hs1]. simpl sg in Hnew, Hs1.
  apply has_node_false_In in Hnew.
  set (fac := mkNode sw cNN name tSwitch 0) in *.
  apply bind_err_cases in H as [H|(s2 & u & H2 & H)]; [|unfold ret in H; discriminate].
  destruct s1 as [g1 fr1]. simpl in Hs1. subst g1.
  eapply (builder_restores g fac _ Hcl Hnd Hnew eq_refl); [|exact H].
  intros fr s2 e2 Ht. unfold switch_tail in Ht.
  apply bind_err_cases in Ht as [Ht|(s3 & sws & H3 & Ht)].
  - left. exact (service_step_cases fl g fac _ _ _ _ fr s2 (Err e2) Hcl Hnd Hnew eq_refl Ht).
  - right. destruct (service_step_cases fl g fac _ _ _ _ fr s3 (Ok sws) Hcl Hnd Hnew eq_refl H3)
      as (nsn & Hid & Hs3 & F). subst sws. exists nsn.
    apply (switch_ports_fail fl g fac nsn _ d_intk pure_port Hcl nports [] 1%nat [] s3 s2 e2 F Hs3 Ht).
Qed.

(* add_switch without it: atomic only when the node step itself is rejected *)
Lemma add_switch_first_step rb fl name node_id d_ns d_intk nstype pure_ns nports pure_port s s' e :
  op_add_switch rb fl name node_id d_ns d_intk nstype pure_ns nports pure_port s = (s', Err e) ->
  (forall s1 id, op_add_node fl name node_id (Some tSwitch) None s <> (s1, Ok id)) ->
  sg s' = sg s.
Proof.
  intros H Hno. unfold op_add_switch in H.
  apply bind_err_cases in H as [H|(s1 & id & H1 & H)].
  - exact (op_add_node_atomic fl name node_id (Some tSwitch) None s s' e I H).
  - exfalso. eapply Hno; eauto.
Qed.

(* C01 proofs: the store invariant store_wf (distinct internal ids below the counter, edges between
   stored nodes) is kept by every load and import, so the hypothesis `store_wf s` of the round-trip
   theorems holds in every reachable store. *)
From Coq Require Import String.
From Coq Require Import List NArith ZArith Bool Lia.
From FIM Require Import Base.Str Model.Serial1Text Model.Serial1Graph.
From FIM Require Import Proofs.Serial1Text Proofs.Serial1Doc Proofs.Serial1Store Proofs.Serial1Main.
Import ListNotations.
Open Scope N_scope.
Local Arguments N.eqb : simpl nomatch.

Definition swf (s : store) : Prop :=
  NoDup (map fst (s_nodes s))
  /\ (forall n, In n (s_nodes s) -> fst n < s_next s)
  /\ (forall e, In e (s_edges s) -> In (fst (fst e)) (map fst (s_nodes s)) /\ In (snd (fst e)) (map fst (s_nodes s))).

Lemma store_wf_swf s : store_wf s = true <-> swf s.
Proof.
  unfold store_wf, swf. rewrite !andb_true_iff, !forallb_forall, nodupN_NoDup. split.
  - intros [[A B] C]. split; [exact A|]. split.
    + intros n Hn. apply N.ltb_lt, B, Hn.
    + intros [[u v] ps] He. specialize (C _ He). simpl in C. apply andb_true_iff in C as [C1 C2].
      split; apply memN_In; assumption.
  - intros (A & B & C). split; [split; [exact A|]|].
    + intros n Hn. apply N.ltb_lt, B, Hn.
    + intros [[u v] ps] He. destruct (C _ He) as [C1 C2]. simpl in *. apply andb_true_iff. split; apply memN_In; assumption.
Qed.

Lemma NoDup_map_filter {A} (f : A -> N) (p : A -> bool) l : NoDup (map f l) -> NoDup (map f (filter p l)).
Proof.
  induction l as [|x l IH]; simpl; intro H; [constructor|]. inversion H; subst.
  destruct (p x); simpl; [constructor|]; auto.
  intro Hin. apply H2. apply in_map_iff in Hin as (y & E & Hy). apply filter_In in Hy as [Hy _].
  rewrite <- E. apply in_map, Hy.
Qed.

Lemma NoDup_app_disjoint {A} (a b : list A) : NoDup a -> NoDup b -> (forall x, In x a -> ~ In x b) -> NoDup (a ++ b).
Proof.
  induction a as [|x a IH]; intros Ha Hb D; [exact Hb|]. inversion Ha; subst. simpl. constructor.
  - intro H. apply in_app_or in H as [H|H]; [contradiction|]. exact (D x (or_introl eq_refl) H).
  - apply IH; [assumption|assumption|]. intros y Hy. apply D. right. exact Hy.
Qed.

Lemma del_graph_swf s gid : swf s -> swf (del_graph s gid).
Proof.
  intros (A & B & C). split; [|split]; simpl.
  - apply NoDup_map_filter, A.
  - intros n Hn. apply filter_In in Hn as [Hn _]. apply B, Hn.
  - intros [[u v] ps] He. apply filter_In in He as [He K]. apply andb_true_iff in K as [K1 K2].
    apply negb_true_iff, memN_false in K1. apply negb_true_iff, memN_false in K2.
    destruct (C _ He) as [C1 C2]. simpl in *.
    assert (keep : forall w, In w (map fst (s_nodes s)) ->
                   ~ In w (map fst (filter (has_gid gid) (s_nodes s))) ->
                   In w (map fst (filter (fun n => negb (has_gid gid n)) (s_nodes s)))).
    { intros w Hw NW. apply in_map_iff in Hw as (n & <- & Hn). apply in_map. apply filter_In. split; [exact Hn|].
      destruct (has_gid gid n) eqn:E; [|reflexivity]. exfalso. apply NW. apply in_map. apply filter_In. split; assumption. }
    split; apply keep; assumption.
Qed.

Lemma cleared_swf s gid : swf s -> swf (cleared s gid).
Proof. unfold cleared. destruct (existsb _ _); [apply del_graph_swf|auto]. Qed.

Lemma merge_swf s t : swf s -> NoDup (map fst (g_nodes t)) -> closed t ->
  (forall i, In i (map fst (g_nodes t)) -> s_next s <= i < s_next s + N.of_nat (List.length (g_nodes t))) ->
  swf (merge s t).
Proof.
  intros (A & B & C) ND CL R. split; [|split]; simpl.
  - rewrite map_app. apply NoDup_app_disjoint; [exact A|exact ND|].
    intros x Hx Hx2. apply in_map_iff in Hx as (n & <- & Hn). specialize (B _ Hn). specialize (R _ Hx2). lia.
  - intros n Hn. apply in_app_or in Hn as [Hn|Hn]; [specialize (B _ Hn); lia|].
    specialize (R _ (in_map fst _ _ Hn)). lia.
  - intros e He. rewrite map_app. apply in_app_or in He as [He|He].
    + destruct (C _ He) as [C1 C2]. split; apply in_or_app; left; assumption.
    + destruct (CL _ He) as [C1 C2]. split; apply in_or_app; right; assumption.
Qed.

Lemma zip_ids_length k ns : List.length (zip_ids k ns) = List.length ns.
Proof. revert k. induction ns as [|[key ps] r IH]; intro k; [reflexivity|]. simpl. rewrite IH. reflexivity. Qed.

Lemma relabelled_merge_swf s g : swf s -> graph_shape g = true -> swf (merge s (relabelled (s_next s) g)).
Proof.
  intros W SH. destruct (graph_shape_parts g SH) as [ND CL]. apply merge_swf; [exact W| | |].
  - simpl. apply zip_ids_nodup.
  - apply relabelled_closed; assumption.
  - intros i Hi. simpl in Hi. apply zip_ids_range in Hi. simpl. rewrite zip_ids_length. exact Hi.
Qed.

Lemma stamp_merge_swf s gid g : swf s -> graph_shape g = true -> swf (merge s (stamp gid (relabelled (s_next s) g))).
Proof.
  intros W SH. pose proof (relabelled_merge_swf s g W SH) as (A & B & C).
  assert (K : map fst (g_nodes (stamp gid (relabelled (s_next s) g))) = map fst (g_nodes (relabelled (s_next s) g))).
  { simpl. rewrite map_map. reflexivity. }
  split; [|split]; simpl in *.
  - rewrite map_app in *. rewrite map_map. simpl. exact A.
  - intros n Hn. rewrite map_length. apply in_app_or in Hn as [Hn|Hn].
    + apply (B n). apply in_or_app. left. exact Hn.
    + apply in_map_iff in Hn as (n0 & <- & H0). simpl.
      specialize (B n0 (in_or_app _ _ _ (or_intror H0))). exact B.
  - intros e He. rewrite map_app, map_map in *. simpl. apply C, He.
Qed.

Theorem add_graph_wf s gid g : store_wf s = true -> graph_shape g = true -> store_wf (fst (add_graph s gid g)) = true.
Proof.
  intros W SH. apply store_wf_swf. apply store_wf_swf in W. unfold add_graph. fold (cleared s gid).
  destruct (graph_shape_parts g SH) as [ND CL]. rewrite (relabel_spec _ g ND CL).
  pose proof (cleared_swf s gid W) as W1.
  destruct (forallb _ _); simpl; [apply stamp_merge_swf; assumption|exact W1].
Qed.

Theorem add_graph_direct_wf s gid g : store_wf s = true -> graph_shape g = true ->
  store_wf (fst (add_graph_direct s gid g)) = true.
Proof.
  intros W SH. apply store_wf_swf. apply store_wf_swf in W. unfold add_graph_direct. fold (cleared s gid).
  destruct (graph_shape_parts g SH) as [ND CL]. rewrite (relabel_spec _ g ND CL). simpl.
  apply relabelled_merge_swf; [apply cleared_swf, W|exact SH].
Qed.

(* every import of a text that denotes an nx graph keeps the invariant, whatever the outcome *)
Theorem import_via_wf ep s t gid : store_wf s = true ->
  (forall g, text_graph t = Some g -> graph_shape g = true) ->
  store_wf (fst (import_via ep s t gid)) = true.
Proof.
  intros W SH. unfold text_graph in SH.
  assert (I1 : store_wf (fst (import_string s t gid)) = true).
  { unfold import_string. destruct (read_any t) as [g|] eqn:R; [|exact W].
    destruct (nonempty g); [apply add_graph_wf; [exact W|apply SH; reflexivity]|exact W]. }
  assert (I2 : store_wf (fst (import_string_direct s t)) = true).
  { unfold import_string_direct. destruct (get_graph_id t) as [x| |]; try exact W.
    destruct (read_any t) as [g|] eqn:R; [|exact W].
    destruct (nonempty g); [apply add_graph_direct_wf; [exact W|apply SH; reflexivity]|exact W]. }
  destruct ep; assumption.
Qed.

Theorem empty_store_wf : store_wf empty_store = true.
Proof. reflexivity. Qed.

Theorem loads_wf ops : Forall (fun x : bool * str * nxg => graph_shape (snd x) = true) ops ->
  store_wf (fold_left load_op ops empty_store) = true.
Proof.
  assert (G : forall s, store_wf s = true ->
              Forall (fun x : bool * str * nxg => graph_shape (snd x) = true) ops ->
              store_wf (fold_left load_op ops s) = true).
  { induction ops as [|[[d gid] g] r IH]; intros s W F; [exact W|]. inversion F; subst. simpl.
    apply IH; [|assumption]. simpl in H1. destruct d; [apply add_graph_direct_wf|apply add_graph_wf]; assumption. }
  apply G. reflexivity.
Qed.

(* C02, graph route, part 3: the readers rebuild every sliver of graph_of t, and the round trip
   graph_roundtrip t = Ok t for every sliver tree the graph route can carry (graph_wf). *)
From Coq Require Import List String NArith Bool.
From FIM Require Import Base.Str Model.Sliver2Kinds Gen.PropMap Model.Sliver2Map Model.Sliver2WF
  Model.Sliver2Deep Model.Sliver2DeepWF Model.Sliver2Graph Model.Sliver2GraphWF
  Proofs.Sliver2Assoc Proofs.Sliver2MapRT Proofs.Sliver2Elem Proofs.Sliver2DeepRT
  Proofs.Sliver2GraphW Proofs.Sliver2GraphR.
Import ListNotations.

Local Opaque enums type_enum to_base from_base to_specific from_specific setters getters init_attrs
  sliver_property_to_graph no_unset_properties child_keys node_id_prop add_interface_descends all_tables_ok.

(* ---------- the node's properties read back as the sliver's attributes ---------- *)
Lemma node_props_lookup id p g :
  NoDup (akeys p) -> g <> node_id_prop -> alookup g (node_props id p) = alookup g p.
Proof.
  intros ND Hg. unfold node_props. rewrite aupdate_is_asets.
  destruct (alookup g p) as [v|] eqn:E.
  - apply asets_lookup_in; [exact ND | apply alookup_some_in; exact E].
  - rewrite asets_lookup_notin.
    + simpl. destruct (String.eqb g node_id_prop) eqn:E2; [apply String.eqb_eq in E2; contradiction | reflexivity].
    + intro Hc. destruct (alookup_in_keys _ _ Hc) as [v Hv]. rewrite Hv in E. discriminate.
Qed.

Lemma node_props_id id p : ~ In node_id_prop (akeys p) -> node_id_of (node_props id p) = Some id.
Proof.
  intro Hn. unfold node_id_of, pget, node_props. rewrite aupdate_is_asets.
  rewrite asets_lookup_notin by exact Hn. simpl. rewrite String.eqb_refl. reflexivity.
Qed.

Lemma Forall2_from_val_cong k d1 d2 : forall F xs,
  (forall fe, In fe F -> pget (snd (fst fe)) d2 = pget (snd (fst fe)) d1) ->
  Forall2 (fun fe xv => from_val k d1 fe = Ok xv) F xs ->
  Forall2 (fun fe xv => from_val k d2 fe = Ok xv) F xs.
Proof.
  intros F xs Hc HF. induction HF as [|fe xv F xs H HF IH]; constructor.
  - rewrite <- H. apply from_val_cong. apply Hc. left. reflexivity.
  - apply IH. intros fe' Hfe'. apply Hc. right. exact Hfe'.
Qed.

Lemma from_props_node_props k id p r :
  tables_symmetric k = true -> dict_tables_ok k = true -> NoDup (akeys p) ->
  from_props k p = Ok r -> from_props k (node_props id p) = Ok r.
Proof.
  intros Hs Hd ND Hr. unfold from_props in *.
  destruct (fold_from_spec k p _ _ _ Hr) as [xs [HF Hrx]]. subst r.
  apply fold_from_build.
  unfold dict_tables_ok in Hd. apply andb_true_iff in Hd as [Hd _]. apply andb_true_iff in Hd as [_ Hd].
  rewrite forallb_forall in Hd.
  apply (Forall2_from_val_cong k p (node_props id p) _ _); [|exact HF].
  intros fe Hfe. unfold pget. rewrite node_props_lookup; [reflexivity | exact ND |].
  specialize (Hd fe Hfe). intro E. rewrite E in Hd. rewrite String.eqb_refl in Hd. discriminate Hd.
Qed.

Lemma tree_wf_sub : forall t, tree_wf t = true -> forall u, In u (subtrees t) -> tree_wf u = true.
Proof.
  apply (kids_ind (fun t => tree_wf t = true -> forall u, In u (subtrees t) -> tree_wf u = true)).
  intros t IH Hwf u Hu. rewrite subtrees_eq in Hu. destruct Hu as [E|Hu]; [subst; exact Hwf|].
  apply in_flat_map in Hu as [c [Hc Hu]]. apply (IH c Hc); [apply (wf_kids t c Hwf Hc) | exact Hu].
Qed.

Lemma mapM_ids (f : str -> res tree) l :
  (forall c, In c l -> f (id_of c) = Ok c) -> mapM f (map id_of l) = Ok l.
Proof.
  induction l as [|c l IH]; intro H; [reflexivity|].
  simpl. rewrite (H c (or_introl eq_refl)). simpl.
  change (mapM f (map id_of l)) with (mapM f (map id_of l)).
  rewrite IH by (intros c' Hc'; apply H; right; exact Hc'). reflexivity.
Qed.

(* the info object rebuilt from the kids of a slot *)
Lemma slot_info ck o :
  slot_ok tree_wf true ck o = true -> info_of ck (olist o) = Ok o.
Proof.
  intro Hs. simpl in Hs. destruct o as [l|]; [|reflexivity]. simpl in *.
  apply andb_true_iff in Hs as [Hs Hnd]. apply andb_true_iff in Hs as [Hne Hall].
  destruct l as [|u l]; [discriminate|]. unfold info_of.
  rewrite build_info_ok; [reflexivity | | exact Hnd].
  rewrite forallb_forall in *. intros x Hx. specialize (Hall x Hx).
  apply andb_true_iff in Hall as [Hall Hty]. apply andb_true_iff in Hall as [_ Hnm].
  unfold child_ok. rewrite Hnm. exact Hty.
Qed.

Lemma slot_none ck o : slot_ok tree_wf false ck o = true -> o = None.
Proof. simpl. destruct o; [discriminate | reflexivity]. Qed.

Lemma filter_all_kids (f : tree -> bool) l : (forall c, In c l -> f c = true) -> filter f l = l.
Proof. apply filter_all. Qed.

Section Readers.
  Variable t : tree.
  Hypothesis Hok : all_tables_ok = true.
  Hypothesis Hwf : tree_wf t = true.
  Hypothesis Hids : forallb has_id (subtrees t) = true.
  Hypothesis ND : NoDup (map id_of (subtrees t)).
  Hypothesis Hshape : forallb shape_ok (subtrees t) = true.
  (* the graph read from: it holds every sliver's node, and a sliver's neighbours in it are those it
     has in graph_of t whenever `rootx` (about what the tree hangs under) allows *)
  Variable G : graph.
  Variable rootx : tree -> string -> string -> Prop.
  Hypothesis HF : forall u, In u (subtrees t) -> find_node G (id_of u) = Some (rec_of u).
  Hypothesis HN : forall u rel L, In u (subtrees t) -> rootx u rel L ->
    get_first_neighbor G (id_of u) rel L = get_first_neighbor (graph_of t) (id_of u) rel L.
  Hypothesis HX_if : forall u, t_kind u = KInterface -> is_dedicated u = true ->
    rootx u rel_connects (class_label KInterface).
  Hypothesis HX_ns : forall u, t_kind u = KService -> rootx u rel_connects (class_label KInterface).
  Hypothesis HX_comp : forall u, t_kind u = KComponent -> rootx u rel_has (class_label KService).
  Hypothesis HX_node : forall u L, t_kind u = KNode -> rootx u rel_has L.

  Lemma sub_wf u : In u (subtrees t) -> tree_wf u = true.
  Proof. apply tree_wf_sub. exact Hwf. Qed.

  Lemma sub_id u : In u (subtrees t) -> t_nid u = Some (id_of u).
  Proof. intro Hu. apply has_id_nid. rewrite forallb_forall in Hids. apply Hids. exact Hu. Qed.

  (* get_node_properties and from_props at the node of u *)
  Lemma read_node u : In u (subtrees t) ->
    get_node_properties G (id_of u) = Ok (class_label (t_kind u), node_props (id_of u) (props_of u)) /\
    from_props (t_kind u) (node_props (id_of u) (props_of u)) = Ok (t_attrs u) /\
    node_id_of (node_props (id_of u) (props_of u)) = Some (id_of u).
  Proof.
    intro Hu. assert (Hwu := sub_wf u Hu).
    destruct (tables_ok_parts (t_kind u) Hok) as [Hs [Hd [_ Hnone]]].
    assert (Hp := props_of_ok u Hok Hwu).
    assert (Hrt := props_roundtrip_exact_generic _ _ Hs Hnone (tree_wf_attrs u Hwu)).
    rewrite Hp in Hrt. cbn [bind] in Hrt.
    assert (NDp := to_props_result_nodup _ _ _ Hs Hp).
    split; [|split].
    - unfold get_node_properties. rewrite (HF u Hu). reflexivity.
    - apply from_props_node_props; assumption.
    - apply node_props_id. intro Hc. destruct (alookup_in_keys _ _ Hc) as [v Hv].
      destruct (sym_parts _ Hs) as [_ [NDg _]]. unfold to_props in Hp.
      destruct (to_props_entries_spec _ _ [] _ NDg Hp) as [_ H2].
      rewrite H2 in Hv; [discriminate Hv|].
      unfold dict_tables_ok in Hd. apply andb_true_iff in Hd as [Hd _]. apply andb_true_iff in Hd as [Hd _].
      rewrite forallb_forall in Hd. intro Hin. apply in_map_iff in Hin as [te [E Hte]]. specialize (Hd te Hte).
      apply andb_true_iff in Hd as [_ Hd]. unfold gp in E. rewrite E in Hd. rewrite String.eqb_refl in Hd. discriminate Hd.
  Qed.

  Lemma with_label_ok u : In u (subtrees t) ->
    with_label G (id_of u) (t_kind u) = Ok (node_props (id_of u) (props_of u)).
  Proof.
    intro Hu. unfold with_label. destruct (read_node u Hu) as [H1 _]. rewrite H1. cbn [bind fst snd].
    rewrite String.eqb_refl. reflexivity.
  Qed.

  (* a leaf interface read without descending *)
  Lemma R_flat u : In u (subtrees t) -> t_kind u = KInterface -> childless u = true ->
    bind (get_node_properties G (id_of u)) (fun lp => flat_sliver KInterface (snd lp)) = Ok u.
  Proof.
    intros Hu Hk Hcl. destruct (read_node u Hu) as [H1 [H2 H3]]. rewrite H1. cbn [bind snd].
    unfold flat_sliver. rewrite Hk in H2. rewrite H2. cbn [bind]. rewrite H3.
    assert (Hn := sub_id u Hu).
    destruct u as [k nid a c n i]. simpl in *. subst k. rewrite Hn.
    destruct c, n, i; try discriminate Hcl. reflexivity.
  Qed.

  Lemma shape_of u : In u (subtrees t) -> shape_ok u = true.
  Proof. intro Hu. rewrite forallb_forall in Hshape. apply Hshape. exact Hu. Qed.

  Lemma R_if u : In u (subtrees t) -> t_kind u = KInterface ->
    build_deep_interface_sliver G (id_of u) = Ok u.
  Proof.
    intros Hu Hk. assert (Hwu := sub_wf u Hu). assert (Hsh := shape_of u Hu).
    destruct (read_node u Hu) as [_ [H2 H3]]. assert (Hn := sub_id u Hu).
    assert (Hwl := with_label_ok u Hu). rewrite Hk in Hwl, H2.
    unfold build_deep_interface_sliver. rewrite Hwl. cbn [bind].
    rewrite H2. cbn [bind]. rewrite H3.
    assert (Hkid : forall c, In c (kids u) -> t_kind c = KInterface /\ tree_wf c = true).
    { intros c Hc. destruct (wf_kids u c Hwu Hc) as [A B]. rewrite Hk in B. auto. }
    destruct u as [k [id|] a c n i]; [|discriminate Hn]. simpl in Hk. subst k. clear Hn.
    simpl in Hwu. repeat rewrite andb_true_iff in Hwu. destruct Hwu as [[[Ha Hsc] Hsn] Hsi].
    apply (slot_none KComponent) in Hsc. apply (slot_none KService) in Hsn. subst c n.
    unfold shape_ok in Hsh. simpl t_kind in Hsh. simpl t_ifs in Hsh. unfold is_dedicated in Hsh. simpl t_attrs in *.
    set (u := T KInterface (Some id) a None None i) in *.
    change id with (id_of u).
    destruct (alookup "resource_type" a) as [[ty|]|] eqn:Ety.
    2,3: (destruct i as [l|]; [simpl in Hsh; discriminate Hsh | reflexivity]).
    destruct (fval_eqb ty dedicated) eqn:Ed.
    2: (destruct i as [l|]; [simpl in Hsh; discriminate Hsh | reflexivity]).
    (* a DedicatedPort: its kids are its neighbours *)
    assert (Hnb := neighbours t ND u rel_connects (class_label KInterface) Hu).
    assert (Hded : is_dedicated u = true) by (unfold is_dedicated, u; simpl t_attrs; rewrite Ety; exact Ed).
    rewrite (HN u _ _ Hu (HX_if u eq_refl Hded)). rewrite Hnb.
    - cbn [bind].
      assert (Hfil : filter (fun c0 => String.eqb (class_label (t_kind c0)) (class_label KInterface)
                                      && String.eqb (relk (t_kind c0)) rel_connects) (kids u) = kids u).
      { apply filter_all. intros c0 Hc0. destruct (Hkid c0 Hc0) as [E _]. rewrite E. reflexivity. }
      rewrite Hfil.
      assert (Hleaves : forall c0, In c0 (kids u) -> childless c0 = true).
      { intros c0 Hc0. unfold u in Hc0. simpl in Hc0. destruct i as [l|]; [|contradiction].
        simpl in Hc0, Hsh. try (apply andb_true_iff in Hsh as [_ Hsh]). rewrite forallb_forall in Hsh.
        specialize (Hsh c0 Hc0). apply andb_true_iff in Hsh as [Hsh _]. exact Hsh. }
      rewrite (mapM_ids _ (kids u)).
      + cbn [bind]. unfold u at 1. simpl kids. rewrite (slot_info KInterface i Hsi). reflexivity.
      + intros c0 Hc0. apply R_flat.
        * apply (subtrees_trans t u c0 Hu). apply in_kids_subtrees. exact Hc0.
        * apply (Hkid c0 Hc0).
        * apply (Hleaves c0 Hc0).
    - intros v Hv Hkv _ Hl.
      assert (Hkv' : t_kind v = KInterface) by (destruct (t_kind v); simpl in Hl; try discriminate Hl; reflexivity).
      (* an interface parent only has leaves that are not DedicatedPorts, but u is one *)
      assert (Hsv := shape_of v Hv). unfold shape_ok in Hsv. rewrite Hkv' in Hsv.
      destruct v as [kv nv av cv nnv iv]. simpl in Hkv'. subst kv. simpl in Hkv, Hsv.
      destruct iv as [lv|]; [|contradiction]. simpl in Hkv.
      apply andb_true_iff in Hsv as [_ Hsv]. rewrite forallb_forall in Hsv. specialize (Hsv u Hkv).
      apply andb_true_iff in Hsv as [_ Hsv]. unfold is_dedicated in Hsv. unfold u in Hsv. simpl t_attrs in Hsv.
      rewrite Ety, Ed in Hsv. discriminate Hsv.
  Qed.

  Lemma R_ns u : In u (subtrees t) -> t_kind u = KService -> build_deep_ns_sliver G (id_of u) = Ok u.
  Proof.
    intros Hu Hk. assert (Hwu := sub_wf u Hu).
    destruct (read_node u Hu) as [_ [H2 H3]]. assert (Hn := sub_id u Hu).
    assert (Hwl := with_label_ok u Hu). rewrite Hk in Hwl, H2.
    unfold build_deep_ns_sliver. rewrite Hwl. cbn [bind]. rewrite H2. cbn [bind]. rewrite H3.
    assert (Hkid : forall c, In c (kids u) -> t_kind c = KInterface /\ tree_wf c = true).
    { intros c Hc. destruct (wf_kids u c Hwu Hc) as [A B]. rewrite Hk in B. auto. }
    assert (Hnb := neighbours t ND u rel_connects (class_label KInterface) Hu).
    rewrite (HN u _ _ Hu (HX_ns u Hk)). rewrite Hnb.
    - cbn [bind]. rewrite filter_all by (intros c0 Hc0; destruct (Hkid c0 Hc0) as [E _]; rewrite E; reflexivity).
      rewrite (mapM_ids _ (kids u)).
      + cbn [bind]. destruct u as [k [id|] a c n i]; [|discriminate Hn]. simpl in Hk. subst k.
        simpl in Hwu. repeat rewrite andb_true_iff in Hwu. destruct Hwu as [[[Ha Hsc] Hsn] Hsi].
        apply (slot_none KComponent) in Hsc. apply (slot_none KService) in Hsn. subst c n.
        simpl kids. rewrite (slot_info KInterface i Hsi). reflexivity.
      + intros c0 Hc0. apply R_if.
        * apply (subtrees_trans t u c0 Hu). apply in_kids_subtrees. exact Hc0.
        * apply (Hkid c0 Hc0).
    - intros v Hv Hkv Hr. rewrite Hk in Hr. discriminate Hr.
  Qed.

  Lemma R_comp u : In u (subtrees t) -> t_kind u = KComponent -> build_deep_component_sliver G (id_of u) = Ok u.
  Proof.
    intros Hu Hk. assert (Hwu := sub_wf u Hu).
    destruct (read_node u Hu) as [_ [H2 H3]]. assert (Hn := sub_id u Hu).
    assert (Hwl := with_label_ok u Hu). rewrite Hk in Hwl, H2.
    unfold build_deep_component_sliver. rewrite Hwl. cbn [bind]. rewrite H2. cbn [bind]. rewrite H3.
    assert (Hkid : forall c, In c (kids u) -> t_kind c = KService /\ tree_wf c = true).
    { intros c Hc. destruct (wf_kids u c Hwu Hc) as [A B]. rewrite Hk in B. auto. }
    assert (Hnb := neighbours t ND u rel_has (class_label KService) Hu).
    rewrite (HN u _ _ Hu (HX_comp u Hk)). rewrite Hnb.
    - cbn [bind]. rewrite filter_all by (intros c0 Hc0; destruct (Hkid c0 Hc0) as [E _]; rewrite E; reflexivity).
      rewrite (mapM_ids _ (kids u)).
      + cbn [bind]. destruct u as [k [id|] a c n i]; [|discriminate Hn]. simpl in Hk. subst k.
        simpl in Hwu. repeat rewrite andb_true_iff in Hwu. destruct Hwu as [[[Ha Hsc] Hsn] Hsi].
        apply (slot_none KComponent) in Hsc. apply (slot_none KInterface) in Hsi. subst c i.
        simpl kids. rewrite app_nil_r. rewrite (slot_info KService n Hsn). reflexivity.
      + intros c0 Hc0. apply R_ns.
        * apply (subtrees_trans t u c0 Hu). apply in_kids_subtrees. exact Hc0.
        * apply (Hkid c0 Hc0).
    - (* the parent of a component is a node, not a service *)
      intros v Hv Hkv _ Hl. destruct (wf_kids v u (sub_wf v Hv) Hkv) as [_ B]. rewrite Hk in B.
      destruct (t_kind v); simpl in Hl; try discriminate Hl; try contradiction;
        try (destruct B as [B|B]); discriminate B.
  Qed.

  Lemma R_node u : In u (subtrees t) -> t_kind u = KNode -> build_deep_node_sliver G (id_of u) = Ok u.
  Proof.
    intros Hu Hk. assert (Hwu := sub_wf u Hu).
    destruct (read_node u Hu) as [_ [H2 H3]]. assert (Hn := sub_id u Hu).
    assert (Hwl := with_label_ok u Hu). rewrite Hk in Hwl, H2.
    unfold build_deep_node_sliver. rewrite Hwl. cbn [bind]. rewrite H2. cbn [bind]. rewrite H3.
    assert (Hnopar : forall v, In v (subtrees t) -> In u (kids v) -> False).
    { intros v Hv Hkv. destruct (wf_kids v u (sub_wf v Hv) Hkv) as [_ B]. rewrite Hk in B.
      destruct (t_kind v); try contradiction; try discriminate B; destruct B as [B|B]; discriminate B. }
    assert (Hnb1 := neighbours t ND u rel_has (class_label KComponent) Hu).
    assert (Hnb2 := neighbours t ND u rel_has (class_label KService) Hu).
    rewrite (HN u _ _ Hu (HX_node u _ Hk)). rewrite Hnb1 by (intros v Hv Hkv; exfalso; exact (Hnopar v Hv Hkv)). cbn [bind].
    destruct u as [k [id|] a c n i]; [|discriminate Hn]. simpl in Hk. subst k.
    assert (Hwu' := Hwu). simpl in Hwu'. repeat rewrite andb_true_iff in Hwu'. destruct Hwu' as [[[Ha Hsc] Hsn] Hsi].
    apply (slot_none KInterface) in Hsi. subst i.
    set (u := T KNode (Some id) a c n None) in *.
    assert (Hkc : forall c0, In c0 (olist c) -> t_kind c0 = KComponent).
    { intros c0 Hc0. apply (slot_kid_wf true KComponent c c0 _ Hsc eq_refl Hc0). }
    assert (Hkn : forall c0, In c0 (olist n) -> t_kind c0 = KService).
    { intros c0 Hc0. apply (slot_kid_wf true KService n c0 _ Hsn eq_refl Hc0). }
    assert (Hk1 : filter (fun c0 => String.eqb (class_label (t_kind c0)) (class_label KComponent)
                                    && String.eqb (relk (t_kind c0)) rel_has) (kids u) = olist c).
    { unfold u. simpl kids. rewrite app_nil_r. rewrite filter_app.
      rewrite filter_all by (intros c0 Hc0; rewrite (Hkc c0 Hc0); reflexivity).
      rewrite filter_none by (intros c0 Hc0; rewrite (Hkn c0 Hc0); reflexivity). apply app_nil_r. }
    assert (Hk2 : filter (fun c0 => String.eqb (class_label (t_kind c0)) (class_label KService)
                                    && String.eqb (relk (t_kind c0)) rel_has) (kids u) = olist n).
    { unfold u. simpl kids. rewrite app_nil_r. rewrite filter_app.
      rewrite filter_none by (intros c0 Hc0; rewrite (Hkc c0 Hc0); reflexivity).
      rewrite filter_all by (intros c0 Hc0; rewrite (Hkn c0 Hc0); reflexivity). reflexivity. }
    rewrite Hk1. rewrite (mapM_ids _ (olist c)).
    - cbn [bind]. rewrite (slot_info KComponent c Hsc). cbn [bind].
      rewrite (HN u _ _ Hu (HX_node u _ eq_refl)). rewrite Hnb2 by (intros v Hv Hkv; exfalso; exact (Hnopar v Hv Hkv)). cbn [bind].
      rewrite Hk2. rewrite (mapM_ids _ (olist n)).
      + cbn [bind]. rewrite (slot_info KService n Hsn). reflexivity.
      + intros c0 Hc0. apply R_ns; [|exact (Hkn c0 Hc0)].
        apply (subtrees_trans t u c0 Hu). apply in_kids_subtrees. unfold u. simpl kids.
        apply in_or_app. right. apply in_or_app. left. exact Hc0.
    - intros c0 Hc0. apply R_comp; [|exact (Hkc c0 Hc0)].
      apply (subtrees_trans t u c0 Hu). apply in_kids_subtrees. unfold u. simpl kids.
      apply in_or_app. left. exact Hc0.
  Qed.

  Lemma R_link u : In u (subtrees t) -> t_kind u = KLink -> build_deep_link_sliver G (id_of u) = Ok u.
  Proof.
    intros Hu Hk. assert (Hwu := sub_wf u Hu).
    destruct (read_node u Hu) as [_ [H2 H3]]. assert (Hn := sub_id u Hu).
    assert (Hwl := with_label_ok u Hu). rewrite Hk in Hwl, H2.
    unfold build_deep_link_sliver. rewrite Hwl. cbn [bind]. unfold flat_sliver. rewrite H2. cbn [bind]. rewrite H3.
    destruct u as [k [id|] a c n i]; [|discriminate Hn]. simpl in Hk. subst k.
    simpl in Hwu. repeat rewrite andb_true_iff in Hwu. destruct Hwu as [[[Ha Hsc] Hsn] Hsi].
    apply (slot_none KComponent) in Hsc. apply (slot_none KService) in Hsn. apply (slot_none KInterface) in Hsi.
    subst c n i. reflexivity.
  Qed.
End Readers.

Lemma strs_nodup_NoDup l : strs_nodup l = true -> NoDup l.
Proof.
  induction l as [|x l IH]; simpl; intro H; [constructor|].
  apply andb_true_iff in H as [H1 H2]. constructor; [|apply IH; exact H2].
  intro Hin. apply negb_true_iff in H1. rewrite existsb_id_true in H1 by exact Hin. discriminate.
Qed.

Lemma NoDup_strs_nodup l : NoDup l -> strs_nodup l = true.
Proof.
  induction 1 as [|x l NI ND IH]; [reflexivity|]. simpl. rewrite IH.
  rewrite existsb_id_false by exact NI. reflexivity.
Qed.

Lemma existsb_str_in x l : existsb (str_eqb x) l = true <-> In x l.
Proof.
  split.
  - intro H. apply existsb_exists in H as [y [Hy E]]. apply str_eqb_eq in E. subst. exact Hy.
  - apply existsb_id_true.
Qed.

Lemma good_graph_good g : good_graph g = true <-> good g.
Proof.
  unfold good_graph, good, edges_closed. split.
  - intro H. apply andb_true_iff in H as [H1 H2]. split; [apply strs_nodup_NoDup; exact H1|].
    intros a r b Hin. rewrite forallb_forall in H2. specialize (H2 _ Hin). cbn in H2.
    apply andb_true_iff in H2 as [Ha Hb]. split; apply existsb_str_in; assumption.
  - intros [ND EC]. apply andb_true_iff. split; [apply NoDup_strs_nodup; exact ND|].
    apply forallb_forall. intros [[a r] b] Hin. destruct (EC a r b Hin) as [Ha Hb].
    apply andb_true_iff. split; apply existsb_str_in; assumption.
Qed.

(* a stand-in for the node the tree hangs under (only its id matters to the writers) *)
Definition ptree (pid : str) : tree := T KLink (Some pid) [] None None None.

Lemma grown_empty t : grown empty_graph None t = graph_of t.
Proof. reflexivity. Qed.

(* THE GRAPH ROUTE, any nesting, any graph: a sliver tree whose node ids are fresh is written with
   add_*_sliver into a well-formed graph - stand-alone or under an existing node of the right class -
   and rebuilt with build_deep_*_sliver identical; the graph only grows (frame): every old node keeps
   its record and its neighbours, except that the parent gains the tree's root. *)
Theorem graph_under_generic g parent t :
  all_tables_ok = true -> add_interface_descends = true ->
  good_graph g = true -> graph_wf_sub t = true -> fresh_in g t = true -> parent_ok g parent t = true ->
  exists g', add_under g parent t = Ok g' /\
    build_deep g' (t_kind t) (id_of t) = Ok t /\
    good_graph g' = true /\
    gids g' = gids g ++ map id_of (subtrees t) /\
    (forall x, In x (gids g) -> find_node g' x = find_node g x) /\
    (forall x rel L, In x (gids g) -> parent <> Some x ->
                     get_first_neighbor g' x rel L = get_first_neighbor g x rel L).
Proof.
  intros Hok Hdesc Hgg Hgw Hfr Hpo.
  apply good_graph_good in Hgg. unfold fresh_in in Hfr. apply strs_nodup_NoDup in Hfr.
  unfold graph_wf_sub in Hgw. repeat rewrite andb_true_iff in Hgw. destruct Hgw as [[Hwf Hids] Hshape].
  assert (Hroot : In t (subtrees t)) by (rewrite subtrees_eq; left; reflexivity).
  assert (Hn := has_id_nid t (forallb_subtrees_root _ _ Hids)).
  assert (NDt := NoDup_app_right _ _ Hfr).
  set (par := option_map ptree parent).
  assert (Hpar : forall pt, par = Some pt -> In (id_of pt) (gids g)).
  { intros pt E. unfold par in E. destruct parent as [pid|]; [|discriminate E]. inversion E; subst pt.
    unfold parent_ok in Hpo. destruct (find_node g pid) as [n|] eqn:Ef; [|discriminate Hpo].
    apply find_node_some_in in Ef as [Hin Eid]. change (id_of (ptree pid)) with pid. rewrite <- Eid.
    unfold gids. apply in_map. exact Hin. }
  assert (Hparid : option_map id_of par = parent) by (unfold par; destruct parent; reflexivity).
  (* the writer *)
  assert (HW : add_under g parent t = Ok (grown g par t)).
  { unfold add_under. unfold parent_ok in Hpo. destruct (t_kind t) eqn:Ek; destruct parent as [pid|] eqn:Ep;
      try (destruct (find_node g pid); discriminate Hpo); try discriminate Hpo.
    - apply (W_node Hok Hdesc t g Ek Hwf Hids Hgg Hfr). exact Hpo.
    - apply (W_comp Hok Hdesc t g (ptree pid) Ek Hwf Hids Hgg); [|exact Hfr]. apply (Hpar (ptree pid)). reflexivity.
    - rewrite <- Hparid. apply (W_ns Hok Hdesc t Ek Hwf Hids g par); try assumption. intros _ E; discriminate E.
    - rewrite <- Hparid. apply (W_ns Hok Hdesc t Ek Hwf Hids g par); try assumption. intros _ _. rewrite Ek. exact Hpo.
    - rewrite <- Hparid. apply (W_if Hok Hdesc t Ek Hwf Hids g par); try assumption. intro E; discriminate E.
    - rewrite <- Hparid. apply (W_if Hok Hdesc t Ek Hwf Hids g par); try assumption. intro E; discriminate E.
    - apply (W_link Hok t g Ek Hwf (forallb_subtrees_root _ _ Hids)).
      intro Hc. apply (NoDup_app_disj _ _ (id_of t) Hfr Hc). apply in_map. exact Hroot. }
  exists (grown g par t). split; [exact HW|].
  split; [|split; [|split; [|split]]].
  - (* the reader *)
    set (rootx := fun (u : tree) (rel L : string) =>
           forall pt n, par = Some pt -> find_node g (id_of pt) = Some n -> u = t ->
                        relk (t_kind t) = rel -> g_label n <> L).
    assert (HF : forall u, In u (subtrees t) -> find_node (grown g par t) (id_of u) = Some (rec_of u))
      by (intros u Hu; apply find_in_grown; assumption).
    assert (HN : forall u rel L, In u (subtrees t) -> rootx u rel L ->
              get_first_neighbor (grown g par t) (id_of u) rel L = get_first_neighbor (graph_of t) (id_of u) rel L).
    { intros u rel L Hu Hx. apply neighbours_grown; assumption. }
    assert (Hpn : forall pt n, par = Some pt -> find_node g (id_of pt) = Some n ->
              exists pid, parent = Some pid /\ find_node g pid = Some n).
    { intros pt n E Hf. unfold par in E. destruct parent as [pid|]; [|discriminate E]. inversion E; subst pt.
      exists pid. split; [reflexivity | exact Hf]. }
    assert (HX_if : forall u, t_kind u = KInterface -> is_dedicated u = true -> rootx u rel_connects (class_label KInterface)).
    { intros u Hku Hd pt n E Hf Eu _ Hl. subst u. destruct (Hpn pt n E Hf) as [pid [Ep Hfp]].
      unfold parent_ok in Hpo. rewrite Ep, Hfp, Hku in Hpo. rewrite Hl in Hpo. rewrite Hd in Hpo.
      simpl in Hpo. rewrite andb_false_r in Hpo. discriminate Hpo. }
    assert (HX_ns : forall u, t_kind u = KService -> rootx u rel_connects (class_label KInterface)).
    { intros u Hku pt n E Hf Eu Hr _. subst u. rewrite Hku in Hr. discriminate Hr. }
    assert (HX_comp : forall u, t_kind u = KComponent -> rootx u rel_has (class_label KService)).
    { intros u Hku pt n E Hf Eu _ Hl. subst u. destruct (Hpn pt n E Hf) as [pid [Ep Hfp]].
      unfold parent_ok in Hpo. rewrite Ep, Hfp, Hku in Hpo. rewrite Hl in Hpo. discriminate Hpo. }
    assert (HX_node : forall u L, t_kind u = KNode -> rootx u rel_has L).
    { intros u L Hku pt n E Hf Eu _ _. subst u. destruct (Hpn pt n E Hf) as [pid [Ep Hfp]].
      unfold parent_ok in Hpo. rewrite Ep, Hfp, Hku in Hpo. discriminate Hpo. }
    unfold build_deep. destruct (t_kind t) eqn:Ek.
    + apply (R_node t Hok Hwf Hids NDt Hshape (grown g par t) rootx HF HN HX_if HX_ns HX_comp HX_node t Hroot Ek).
    + apply (R_comp t Hok Hwf Hids NDt Hshape (grown g par t) rootx HF HN HX_if HX_ns HX_comp t Hroot Ek).
    + apply (R_ns t Hok Hwf Hids NDt Hshape (grown g par t) rootx HF HN HX_if HX_ns t Hroot Ek).
    + apply (R_if t Hok Hwf Hids NDt Hshape (grown g par t) rootx HF HN HX_if t Hroot Ek).
    + apply (R_link t Hok Hwf Hids (grown g par t) HF t Hroot Ek).
  - apply good_graph_good. apply good_grown; assumption.
  - apply gids_grown.
  - intros x Hx. apply frame_find; assumption.
  - intros x rel L Hx Hnp. apply frame_neighbours; try assumption.
    intros pt E Eid. apply Hnp. unfold par in E. destruct parent as [pid|]; [|discriminate E].
    inversion E; subst pt. simpl in Eid. subst. reflexivity.
Qed.

(* the special case of an empty graph: graph_roundtrip *)
Theorem graph_roundtrip_generic t :
  all_tables_ok = true -> add_interface_descends = true -> graph_wf t = true ->
  graph_roundtrip t = Ok t.
Proof.
  intros Hok Hdesc Hg. unfold graph_wf in Hg. repeat rewrite andb_true_iff in Hg.
  destruct Hg as [[[[Hwf Hk] Hids] Hnd] Hshape].
  assert (Hn := has_id_nid t (forallb_subtrees_root _ _ Hids)).
  assert (Hpo : parent_ok empty_graph None t = true).
  { unfold parent_ok. destruct (t_kind t); try reflexivity. discriminate Hk. }
  assert (Hk' := Hk).
  assert (Hgw : graph_wf_sub t = true) by (unfold graph_wf_sub; rewrite Hwf, Hids, Hshape; reflexivity).
  destruct (graph_under_generic empty_graph None t Hok Hdesc eq_refl Hgw Hnd Hpo) as [g' [HW [HR _]]].
  unfold graph_roundtrip. apply negb_true_iff in Hk. rewrite Hk. rewrite Hn.
  assert (HA : add_sliver empty_graph t = add_under empty_graph None t).
  { unfold add_sliver, add_under. destruct (t_kind t); reflexivity. }
  rewrite HA, HW. cbn [bind]. exact HR.
Qed.

(* C02: the graph route for slivers without children (node, stand-alone service, interface, link):
   written into an empty graph of the in-memory backend model and rebuilt, every attribute and the
   node id come back.  (Trees with children through the graph route are covered by the tie only.) *)
From Coq Require Import List String NArith Bool.
From FIM Require Import Base.Str Model.Sliver2Kinds Gen.PropMap Model.Sliver2Map Model.Sliver2WF
  Model.Sliver2Deep Model.Sliver2DeepWF Model.Sliver2Graph
  Proofs.Sliver2Assoc Proofs.Sliver2MapRT Proofs.Sliver2Elem Proofs.Sliver2DeepRT.
Import ListNotations.

Local Opaque enums type_enum to_base from_base to_specific from_specific setters getters init_attrs
  sliver_property_to_graph no_unset_properties child_keys node_id_prop.

(* the properties of the node add_node creates *)
Definition node_props (id : str) (p : props) : props := aupdate [(node_id_prop, Some id)] p.

Lemma node_props_lookup id p g :
  NoDup (akeys p) -> g <> node_id_prop -> alookup g (node_props id p) = alookup g p.
Proof.
  intros ND Hg. unfold node_props. rewrite aupdate_is_asets.
  destruct (alookup g p) as [v|] eqn:E.
  - apply asets_lookup_in; [exact ND | apply alookup_some_in; exact E].
  - rewrite asets_lookup_notin.
    + simpl. destruct (String.eqb g node_id_prop) eqn:E2; [apply String.eqb_eq in E2; contradiction | reflexivity].
    + intro Hc. destruct (alookup_in_keys _ _ Hc) as [v Hv]. rewrite Hv in E. discriminate.
Qed.

Lemma node_props_id id p :
  ~ In node_id_prop (akeys p) -> node_id_of (node_props id p) = Some id.
Proof.
  intro Hn. unfold node_id_of, pget, node_props. rewrite aupdate_is_asets.
  rewrite asets_lookup_notin by exact Hn. simpl. rewrite String.eqb_refl. reflexivity.
Qed.

Lemma Forall2_from_val_cong k d1 d2 : forall F xs,
  (forall fe, In fe F -> pget (snd (fst fe)) d2 = pget (snd (fst fe)) d1) ->
  Forall2 (fun fe xv => from_val k d1 fe = Ok xv) F xs ->
  Forall2 (fun fe xv => from_val k d2 fe = Ok xv) F xs.
Proof.
  intros F xs Hc HF. induction HF as [|fe xv F xs H HF IH]; constructor.
  - rewrite <- H. apply from_val_cong. apply Hc. left. reflexivity.
  - apply IH. intros fe' Hfe'. apply Hc. right. exact Hfe'.
Qed.

Lemma from_props_node_props k id p r :
  tables_symmetric k = true -> dict_tables_ok k = true -> NoDup (akeys p) ->
  from_props k p = Ok r -> from_props k (node_props id p) = Ok r.
Proof.
  intros Hs Hd ND Hr. unfold from_props in *.
  destruct (fold_from_spec k p _ _ _ Hr) as [xs [HF Hrx]]. subst r.
  apply fold_from_build.
  unfold dict_tables_ok in Hd. apply andb_true_iff in Hd as [Hd _]. apply andb_true_iff in Hd as [_ Hd].
  rewrite forallb_forall in Hd.
  apply (Forall2_from_val_cong k p (node_props id p) _ _); [|exact HF].
  intros fe Hfe. unfold pget. rewrite node_props_lookup; [reflexivity | exact ND |].
  specialize (Hd fe Hfe). intro E. rewrite E in Hd. rewrite String.eqb_refl in Hd. discriminate.
Qed.

Definition flat (k : kind) (id : str) (a : attrs) : tree := T k (Some id) a None None None.

Lemma single_node_find id label p :
  find_node {| g_nodes := [{| g_id := id; g_label := label; g_props := p |}]; g_edges := [] |} id
  = Some {| g_id := id; g_label := label; g_props := p |}.
Proof. unfold find_node. simpl. rewrite str_eqb_refl. reflexivity. Qed.

Theorem graph_flat_roundtrip_generic k id a :
  all_tables_ok = true -> kind_eqb k KComponent = false ->
  attrs_wf k a = true -> is_normal k a = true ->
  graph_roundtrip (flat k id a) = Ok (flat k id a).
Proof.
  intros Hok Hk Hwf Hn.
  destruct (tables_ok_parts k Hok) as [Hs [Hd _]].
  assert (Hrt := props_roundtrip_generic k a Hs Hwf).
  destruct (to_props k a) as [p|] eqn:Ep; [|discriminate]. cbn [bind] in Hrt.
  rewrite (normalize_normal k a Hn) in Hrt.
  assert (ND := to_props_result_nodup k a p Hs Ep).
  assert (Hnid : ~ In node_id_prop (akeys p)).
  { intro Hc. destruct (alookup_in_keys _ _ Hc) as [v Hv].
    assert (H0 := node_id_not_written k a p Hs Hd Ep). unfold node_id_of, pget in H0.
    destruct (sym_parts k Hs) as [_ [NDg _]]. unfold to_props in Ep.
    destruct (to_props_entries_spec a (to_table k) [] p NDg Ep) as [_ H2].
    rewrite H2 in Hv; [discriminate|].
    unfold dict_tables_ok in Hd. apply andb_true_iff in Hd as [Hd _]. apply andb_true_iff in Hd as [Hd _].
    rewrite forallb_forall in Hd. intro Hin. apply in_map_iff in Hin as [te [E Hte]]. specialize (Hd te Hte).
    apply andb_true_iff in Hd as [_ Hd]. unfold gp in E. rewrite E in Hd. rewrite String.eqb_refl in Hd. discriminate. }
  assert (Hfp := from_props_node_props k id p a Hs Hd ND Hrt).
  assert (Hid := node_props_id id p Hnid).
  fold (node_props id p) in *.
  unfold graph_roundtrip, flat. cbn [t_nid t_kind].
  destruct k; [ | discriminate Hk | | | ]; unfold add_sliver; cbn [t_kind].
  - (* node *)
    unfold add_network_node_sliver. cbn [need_id t_nid bind t_name t_attrs t_comps t_nss olist].
    unfold check_node_unique. cbn [empty_graph g_nodes existsb negb].
    rewrite Ep. cbn [bind]. unfold add_node. cbn [find_node empty_graph g_nodes find bind g_edges app].
    unfold foldM. cbn [fold_left bind].
    unfold build_deep, build_deep_node_sliver, with_label, get_node_properties.
    fold (node_props id p). rewrite single_node_find. cbn [bind fst snd g_label g_props class_label].
    rewrite String.eqb_refl. cbn [bind]. rewrite Hfp. cbn [bind].
    unfold get_first_neighbor. rewrite single_node_find. cbn [g_nodes filter g_label g_id map].
    simpl String.eqb. cbn [andb filter map mapM bind info_of]. rewrite Hid. reflexivity.
  - (* service *)
    unfold add_network_service_sliver. cbn [need_id t_nid bind t_name t_attrs t_ifs olist].
    unfold check_node_unique. cbn [empty_graph g_nodes existsb negb].
    rewrite Ep. cbn [bind]. unfold add_node. cbn [find_node empty_graph g_nodes find bind g_edges app].
    unfold foldM. cbn [fold_left bind].
    unfold build_deep, build_deep_ns_sliver, with_label, get_node_properties.
    fold (node_props id p). rewrite single_node_find. cbn [bind fst snd g_label g_props class_label].
    rewrite String.eqb_refl. cbn [bind]. rewrite Hfp. cbn [bind].
    unfold get_first_neighbor. rewrite single_node_find. cbn [g_nodes filter g_label g_id map].
    simpl String.eqb. cbn [andb filter map mapM bind info_of]. rewrite Hid. reflexivity.
  - (* interface *)
    unfold add_interface_sliver. cbn [need_id t_nid bind t_attrs].
    rewrite Ep. cbn [bind]. unfold add_node. cbn [find_node empty_graph g_nodes find bind g_edges app].
    unfold build_deep, build_deep_interface_sliver, with_label, get_node_properties.
    fold (node_props id p). rewrite single_node_find. cbn [bind fst snd g_label g_props class_label].
    rewrite String.eqb_refl. cbn [bind]. rewrite Hfp. cbn [bind]. rewrite Hid.
    destruct (alookup "resource_type" a) as [[ty|]|]; try reflexivity.
    destruct (fval_eqb ty dedicated); [|reflexivity].
    unfold get_first_neighbor. rewrite single_node_find. cbn [g_nodes filter g_label g_id map].
    rewrite String.eqb_refl. unfold adjacent_via. cbn [g_edges existsb andb filter map mapM bind info_of].
    reflexivity.
  - (* link *)
    unfold add_network_link_sliver. cbn [need_id t_nid bind t_attrs].
    rewrite Ep. cbn [bind]. unfold add_node. cbn [find_node empty_graph g_nodes find bind g_edges app].
    unfold foldM. cbn [fold_left bind].
    unfold build_deep, build_deep_link_sliver, with_label, get_node_properties.
    fold (node_props id p). rewrite single_node_find. cbn [bind fst snd g_label g_props class_label].
    rewrite String.eqb_refl. cbn [bind]. unfold flat_sliver. rewrite Hfp. cbn [bind]. rewrite Hid. reflexivity.
Qed.

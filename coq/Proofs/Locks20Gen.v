(* C20 proofs, part 3: the obligations about the REGENERATED method tables (finite: one boolean per method,
   decided by vm_compute), their combination with the soundness theorems, and the non-vacuity witnesses. *)
From Coq Require Import List NArith Bool String Lia.
From FIM Require Import Model.Locks20 Gen.Locks Model.Conc20 Proofs.Locks20Sound Proofs.Conc20Inv.
Import ListNotations.
Open Scope N_scope.

Definition all_methods : list (string * stmt) := shared_methods ++ disjoint_methods.

Lemma gen_ok_true : gen_ok = true.
Proof. vm_compute. reflexivity. Qed.

Lemma tables_nonempty : (List.length shared_methods >= 6)%nat /\ (List.length disjoint_methods >= 6)%nat.
Proof. vm_compute. split; repeat constructor. Qed.

Lemma all_lock_ok : forallb (fun m => lock_ok (snd m)) all_methods = true.
Proof. vm_compute. reflexivity. Qed.

Lemma all_data_ok : table_ok CGlobal shared_methods = true /\ table_ok CArg disjoint_methods = true.
Proof. split; vm_compute; reflexivity. Qed.

Lemma singletons_ok : singleton_ok shared_singleton = true /\ singleton_ok disjoint_singleton = true.
Proof. split; vm_compute; reflexivity. Qed.

Lemma store_identity n : replaces shared_singleton (Some n) = false /\ replaces disjoint_singleton (Some n) = false.
Proof. destruct singletons_ok as [A B]. split; apply singleton_identity; assumption. Qed.

Lemma method_lock_ok m : In m (map snd all_methods) -> lock_ok m = true.
Proof.
  intro H. apply in_map_iff in H as [[name m'] [E Hin]]. simpl in E. subst m'.
  pose proof all_lock_ok as A. rewrite forallb_forall in A. apply (A _ Hin).
Qed.

Lemma every_method_every_path m p :
  In m (map snd all_methods) ->
  let r := run AllFaults m p in
  out_of r <> OFuel /\ balanced (evs_of r) = true /\ count_acq (evs_of r) = count_rel (evs_of r).
Proof. intro H. apply lock_checker_sound. apply method_lock_ok. exact H. Qed.

Lemma method_lock_identity m p pre suf g :
  In m (map snd all_methods) -> evs_of (run AllFaults m p) = pre ++ suf -> lock_gen pre g = g.
Proof. intros H. apply lock_identity_constant. apply method_lock_ok. exact H. Qed.

Lemma sequences_identity cs :
  (forall c, In c cs -> In (fst c) (map snd all_methods)) ->
  forall pre suf g, run_calls cs = pre ++ suf -> lock_gen pre g = g.
Proof. intro H. apply sequences_lock_identity. intros c Hc. apply method_lock_ok. apply H. exact Hc. Qed.

Lemma sequences_free cs :
  (forall c, In c cs -> In (fst c) (map snd all_methods)) -> balanced (run_calls cs) = true.
Proof. intro H. apply sequences_balanced. intros c Hc. apply method_lock_ok. apply H. exact Hc. Qed.

Lemma interleavings_shared threads sched :
  calls_from shared_methods threads ->
  let S := run_sched (init (map (flatten DeclFaults) threads)) sched in
  bad S = false /\ NoDup (map nkey (nodes (sh S))) /\ (holder S = None -> Inv (sh S)).
Proof. apply (interleaving_table CGlobal). apply all_data_ok. Qed.

Lemma interleavings_disjoint threads sched :
  calls_from disjoint_methods threads ->
  let S := run_sched (init (map (flatten DeclFaults) threads)) sched in
  bad S = false /\ NoDup (map nkey (nodes (sh S))) /\ (holder S = None -> Inv (sh S)).
Proof. apply (interleaving_table CArg). apply all_data_ok. Qed.

Lemma no_deadlock_shared threads sched :
  calls_from shared_methods threads ->
  let S := run_sched (init (map (flatten DeclFaults) threads)) sched in
  unfinished S ->
  exists t i rest lo lo', nth_error (thr S) t = Some (i :: rest, lo) /\ nth_error (thr (step S t)) t = Some (rest, lo').
Proof. apply (no_deadlock_table CGlobal). apply all_data_ok. Qed.

Lemma no_deadlock_disjoint threads sched :
  calls_from disjoint_methods threads ->
  let S := run_sched (init (map (flatten DeclFaults) threads)) sched in
  unfinished S ->
  exists t i rest lo lo', nth_error (thr S) t = Some (i :: rest, lo) /\ nth_error (thr (step S t)) t = Some (rest, lo').
Proof. apply (no_deadlock_table CArg). apply all_data_ok. Qed.

(* ---------------- non-vacuity ---------------- *)
(* the disjoint add_graph as it was BEFORE fix 74c0984: explicit release in the duplicate-id branch AND in
   finally.  The checker rejects it and the path "graph present" releases twice. *)
Definition old_disjoint_add_graph : stmt :=
  SSeq (SAcq 100)
    (STry 101
       (SSeq (SIf 102 XRead FDecl CFree
                (SSeq (SIf 104 XLocal FDecl CFree (SAct 105 XLocal FDecl) SSkip)
                   (SSeq (SRel 107) (SReturn 108 XLocal FDecl)))
                SSkip)
          (SAct 110 XBase1 FDecl))
       (Some 121) (SRaise 122) (SRel 124)).

Lemma old_code_rejected :
  lock_ok old_disjoint_add_graph = false /\
  exists p, balanced (evs_of (run AllFaults old_disjoint_add_graph p)) = false.
Proof. split; [vm_compute; reflexivity|]. exists [false; true]. vm_compute. reflexivity. Qed.

Definition lookup_m (ms : list (string * stmt)) (n : string) : stmt :=
  match find (fun m => String.eqb (fst m) n) ms with Some m => snd m | None => SSkip end.

(* three paths of the current disjoint add_graph: early return on a duplicate id, a raising import (node
   without NodeID), a normal import of one node: one acquire and one release each, different outcomes *)
Lemma paths_example :
  let m := lookup_m disjoint_methods "add_graph" in
  let r1 := run AllFaults m [false; true] in
  let r2 := run AllFaults m [false; false; false; false; true; false; true] in
  let r3 := run AllFaults m [false; false; false; false; true; false; false; false; false] in
  (out_of r1, count_acq (evs_of r1), count_rel (evs_of r1)) = (OReturn, 1%nat, 1%nat) /\
  (out_of r2, count_acq (evs_of r2), count_rel (evs_of r2)) = (ORaise, 1%nat, 1%nat) /\
  (out_of r3, count_acq (evs_of r3), count_rel (evs_of r3)) = (ONormal, 1%nat, 1%nat).
Proof. vm_compute. repeat split. Qed.

(* two threads creating a node each in the shared store, interleaved: ids 1 and 2 *)
Definition blank_call : call := mkCall (lookup_m shared_methods "add_blank_node_to_graph") 1 0 [].
Lemma two_threads_example :
  let S := run_sched (init (map (flatten DeclFaults) [[blank_call]; [blank_call]])) [0;1;0;1;1;0;0;0;0;0;0;1;1;1;1;1;1;1]%nat in
  map nkey (nodes (sh S)) = [(0, 2); (0, 1)] /\ map (fun t => rets (snd t)) (thr S) = [[1]; [2]]
  /\ holder S = None /\ forallb (fun t => match fst t with [] => true | _ => false end) (thr S) = true.
Proof. vm_compute. repeat split. Qed.

(* the hypothesis of the interleaving theorem matters: the same two updates WITHOUT the lock are not accepted
   by the data automaton, and a schedule exists under which both threads insert node id 1 *)
Definition unlocked_blank : list instr :=
  [ICall 1 0; IEv (KAct (XInsCtr CGlobal)); IEv (KAct (XBump CGlobal AOne)); IEv (KAct (XRetCtrM1 CGlobal))].
Lemma unlocked_loses_a_node :
  accepti (dataA CGlobal) 0 unlocked_blank = None /\
  let S := run_sched (init [unlocked_blank; unlocked_blank]) [0;1;0;1;0;1;0;1]%nat in
  map nkey (nodes (sh S)) = [(0, 1); (0, 1)] /\ ~ NoDup (map nkey (nodes (sh S))).
Proof.
  split; [vm_compute; reflexivity|]. split; [vm_compute; reflexivity|].
  vm_compute. intro H. inversion H as [|x l Hn Hd]; subst. apply Hn. left. reflexivity.
Qed.

(* thread 1 is waiting for the lock held by thread 0 (its acquire step changes nothing); thread 0 can go on *)
Lemma waiting_example :
  let S := run_sched (init (map (flatten DeclFaults) [[blank_call]; [blank_call]])) [0;0;1]%nat in
  holder S = Some 0%nat /\ step S 1%nat = S /\ unfinished S /\ step S 0%nat <> S.
Proof.
  vm_compute. split; [reflexivity|]. split; [reflexivity|]. split.
  - exists 0%nat. eexists. eexists. eexists. reflexivity.
  - intro H. discriminate H.
Qed.

(* `with self.lock:` -- the context-manager form of acquire / try / finally release -- passes both checkers and
   is balanced also when its body raises; the same method re-running the constructor (which creates a new
   Lock()) is rejected: the lock object changes along its only path *)
Definition with_del_all : stmt := SWith 830 (SAct 831 XDelAll FDecl).
Definition reinit_del_all : stmt := SWith 830 (SAct 831 XNewLock FDecl).
Lemma with_form_example :
  lock_ok with_del_all = true /\ data_ok CGlobal with_del_all = true /\
  map ev_code (evs_of (run AllFaults with_del_all [true])) = [(830, 1); (831, 0); (830, 2)] /\
  out_of (run AllFaults with_del_all [true]) = ORaise /\
  lock_ok reinit_del_all = false /\ data_ok CGlobal reinit_del_all = false /\
  lock_gen (evs_of (run AllFaults reinit_del_all [])) 0 = 1.
Proof. vm_compute. repeat split. Qed.

(* ids must come from the counter, never from the size of the graph: the disjoint add_blank_node_to_graph rewritten
   to use len(nodes)+1 is rejected by the counter discipline (witness: its only fault-free path), and on the
   history "import 2 nodes; a caller deletes node 1; create a node" it hands out id 2 again (duplicate live key =
   the existing node is overwritten), where the regenerated method hands out 3 *)
Definition len_blank : stmt :=
  SSeq (SAcq 1) (SSeq (STry 2 (SSeq (SAct 3 (XBaseLen CArg) FDecl) (SSeq (SAct 4 (XSetCtrBase1 CArg) FWeak) (SAct 5 (XInsBase CArg) FDecl)))
                 (Some 6) (SRaise 7) (SRel 8)) (SReturn 9 XRetBase FNever)).
Definition imp2 : call :=
  mkCall (lookup_m disjoint_methods "add_graph") 1 2
         [false;false;false; true;false;false;false; true;false;false;false; false; false;false].
Definition rm1 : call := mkCall (SAct 0 (XRemove CArg) FNever) 1 1 [].
Lemma id_from_size_example :
  lock_ok len_blank = true /\ data_ok CArg len_blank = false /\
  find_bad (dataA CArg) DeclFaults 0 len_blank 8 2 = Some [] /\
  (let S := run_sched (init [flatten DeclFaults [imp2; rm1; mkCall len_blank 1 0 []]]) (repeat 0%nat 60) in
   map nkey (nodes (sh S)) = [(1, 2); (1, 2)] /\ map (fun t => rets (snd t)) (thr S) = [[2]]) /\
  (let S := run_sched (init [flatten DeclFaults [imp2; rm1; mkCall (lookup_m disjoint_methods "add_blank_node_to_graph") 1 0 []]]) (repeat 0%nat 60) in
   map nkey (nodes (sh S)) = [(1, 3); (1, 2)] /\ map (fun t => rets (snd t)) (thr S) = [[3]]).
Proof. vm_compute. repeat split. Qed.

(* acquire(timeout=..): ignoring the result is rejected (on the timed-out path the critical section runs without
   the lock and the finally releases a lock the caller does not hold); checking it (`if not ..: raise`) is fine *)
Definition acq_ignored : stmt :=
  SSeq (SAcqT 1 SSkip) (STry 2 (SAct 3 (XInsCtr CGlobal) FDecl) None SSkip (SRel 4)).
Definition acq_checked : stmt :=
  SSeq (SAcqT 1 (SRaise 2))
       (STry 3 (SSeq (SAct 4 (XInsCtr CGlobal) FDecl) (SAct 5 (XBump CGlobal AOne) FWeak)) None SSkip (SRel 6)).
Lemma acquire_timeout_example :
  lock_ok acq_ignored = false /\ find_bad lockA AllFaults 0 acq_ignored 6 2 = Some [true] /\
  data_ok CGlobal acq_ignored = false /\
  lock_ok acq_checked = true /\ data_ok CGlobal acq_checked = true /\
  out_of (run AllFaults acq_checked [true]) = ORaise /\ count_acq (evs_of (run AllFaults acq_checked [true])) = 0%nat.
Proof. vm_compute. repeat split. Qed.

(* a statement known to raise (del d[k] of a possibly absent key) is a fault point also OUTSIDE try/finally:
   acquire; if ..: pop graph; del counter entry; release  -- the checker finds the path that raises with the lock held *)
Definition tidy_del_graph : stmt :=
  SSeq (SAcq 1)
    (SSeq (SIf 2 XRead FNever CFree (SSeq (SAct 3 (XDel CArg) FNever) (SAct 4 (XDelCtr CArg) FMay)) SSkip)
          (SRel 5)).
Lemma raising_outside_try_example :
  lock_ok tidy_del_graph = false /\ find_bad lockA AllFaults 0 tidy_del_graph 6 2 = Some [true; true] /\
  out_of (run AllFaults tidy_del_graph [true; true]) = ORaise /\
  map ev_code (evs_of (run AllFaults tidy_del_graph [true; true])) = [(1, 1); (2, 0); (3, 0); (4, 0)] /\
  balanced (evs_of (run AllFaults tidy_del_graph [true; true])) = false.
Proof. vm_compute. repeat split. Qed.

(* the singleton guard `if not X.storage_instance:` stops being an identity test as soon as the inner class
   defines __len__ (or __bool__): an EMPTY store is then replaced by every new importer / topology *)
Lemma singleton_shape_example :
  singleton_ok (mkSing GTruthy false false) = true /\ singleton_ok (mkSing GIsNone true true) = true /\
  singleton_ok (mkSing GTruthy true false) = false /\ singleton_witness (mkSing GTruthy true false) = Some 0 /\
  replaces (mkSing GTruthy true false) (Some 0) = true /\ replaces (mkSing GTruthy true false) (Some 3) = false.
Proof. vm_compute. repeat split. Qed.

(* C08 proofs, part 3: reasoning rules for the delete-only monad relative to a fixed initial graph g0.
   cons s : the state graph is restrict g0 (trace).   Sound P m : every id m deletes satisfies P
   (all outcomes).  Inversion lemmas for runs that return normally. *)
From Coq Require Import List NArith Bool Lia.
From FIM Require Import Model.T8Graph Model.T8Ops Proofs.T8Frame Proofs.T8Query.
Import ListNotations.

Section Hoare.
Variable g0 : graph.

Definition cons (s : st) : Prop := fst s = restrict g0 (snd s).
Definition ext (s s' : st) : Prop := exists d, snd s' = d ++ snd s.

Lemma ext_refl s : ext s s.
Proof. exists []. reflexivity. Qed.

Lemma ext_trans a b c : ext a b -> ext b c -> ext a c.
Proof. intros [d1 H1] [d2 H2]. exists (d2 ++ d1). rewrite H2, H1, app_assoc. reflexivity. Qed.

Lemma ext_In a b x : ext a b -> In x (snd a) -> In x (snd b).
Proof. intros [d H] Hx. rewrite H. apply in_or_app. right. exact Hx. Qed.

Lemma Inv_cons {A} (m : M A) : Inv m -> forall s, cons s -> cons (snd (m s)) /\ ext s (snd (m s)).
Proof. intros Hm s Hs. exact (Hm g0 s Hs). Qed.

Lemma Inv_cons_eq {A} (m : M A) s r s' : Inv m -> cons s -> m s = (r, s') -> cons s' /\ ext s s'.
Proof. intros Hm Hs E. pose proof (Inv_cons m Hm s Hs) as P. rewrite E in P. exact P. Qed.

(* ---------- inversion of normal returns ---------- *)
Lemma bind_ok {A B} (m : M A) (f : A -> M B) s y s'' :
  bind m f s = (inl y, s'') -> exists x s', m s = (inl x, s') /\ f x s' = (inl y, s'').
Proof.
  unfold bind. destruct (m s) as [[x|e] s'] eqn:E; intros H.
  - exists x, s'. auto.
  - discriminate.
Qed.

Lemma ret_ok {A} (x y : A) s s' : ret x s = (inl y, s') -> y = x /\ s' = s.
Proof. unfold ret. intros H. inversion H. auto. Qed.

Lemma get_ok {A} (f : graph -> A) s x s' : m_get f s = (inl x, s') -> x = f (fst s) /\ s' = s.
Proof. unfold m_get. intros H. inversion H. auto. Qed.

Lemma read_ok {A} (f : graph -> A + exn) s x s' : m_read f s = (inl x, s') -> f (fst s) = inl x /\ s' = s.
Proof. unfold m_read. intros H. inversion H. auto. Qed.

Lemma guard_ok b e s u s' : guard b e s = (inl u, s') -> b = true /\ s' = s.
Proof. unfold guard. destruct b; unfold ret, fail; intros H; inversion H; auto. Qed.

Lemma need_node_ok n s x s' : need_node n s = (inl x, s') -> find_node (fst s) n = Some x /\ s' = s.
Proof.
  unfold need_node. intros H. apply read_ok in H. destruct H as [H ->].
  destruct (find_node (fst s) n); inversion H. auto.
Qed.

Lemma need_class_ok n c s u s' :
  need_class n c s = (inl u, s') -> has_node (fst s) n = true /\ class_of (fst s) n = c /\ s' = s.
Proof.
  unfold need_class. intros H. apply bind_ok in H. destruct H as [x [s1 [H1 H2]]].
  apply need_node_ok in H1. destruct H1 as [H1 ->]. apply guard_ok in H2. destruct H2 as [H2 ->].
  unfold has_node, class_of. rewrite H1. split; [reflexivity|]. split; [|reflexivity].
  destruct (ncls x), c; simpl in H2; try discriminate; reflexivity.
Qed.

Lemma delete_ok n s u s' :
  m_delete n s = (inl u, s') -> has_node (fst s) n = true /\ s' = (delete (fst s) n, n :: snd s).
Proof. unfold m_delete. destruct (has_node (fst s) n); intros H; inversion H. auto. Qed.

Lemma uniq_ok l e1 e2 s x s' : uniq l e1 e2 s = (inl x, s') -> l = [x] /\ s' = s.
Proof.
  unfold uniq. destruct l as [|a [|b r]]; unfold ret, fail; intros H; inversion H. auto.
Qed.

Lemma for_each_set_ok {A} (f : A -> M unit) l s u s' :
  for_each_set f l s = (inl u, s') -> for_each f l s = (inl u, s').
Proof.
  unfold for_each_set. destruct (for_each f l s) as [[v|e] s1]; intros H; [exact H | discriminate].
Qed.

Lemma for_each_set_state {A} (f : A -> M unit) l s : snd (for_each_set f l s) = snd (for_each f l s).
Proof. unfold for_each_set. destruct (for_each f l s) as [[v|e] s1]; reflexivity. Qed.

(* an invariant carried through a loop that returns normally, and a per-element postcondition that is
   stable under the later iterations *)
Lemma for_each_ok_all {A} (f : A -> M unit) (J : st -> Prop) (R : A -> st -> Prop) l :
  (forall x s1 s2, In x l -> J s1 -> f x s1 = (inl tt, s2) -> J s2 /\ R x s2) ->
  (forall x y s1 s2, In y l -> J s1 -> R x s1 -> f y s1 = (inl tt, s2) -> R x s2) ->
  forall s s', J s -> for_each f l s = (inl tt, s') -> J s' /\ forall x, In x l -> R x s'.
Proof.
  induction l as [|a l IH]; intros Hstep Hstab s s' HJ E.
  - simpl in E. apply ret_ok in E. destruct E as [_ ->]. split; [exact HJ | intros x []].
  - simpl in E. apply bind_ok in E. destruct E as [[] [s1 [E1 E2]]].
    destruct (Hstep a s s1 (or_introl eq_refl) HJ E1) as [HJ1 HR1].
    assert (Hstep' : forall x s1 s2, In x l -> J s1 -> f x s1 = (inl tt, s2) -> J s2 /\ R x s2).
    { intros x t1 t2 Hx. apply Hstep. right. exact Hx. }
    assert (Hstab' : forall x y s1 s2, In y l -> J s1 -> R x s1 -> f y s1 = (inl tt, s2) -> R x s2).
    { intros x y t1 t2 Hy. apply Hstab. right. exact Hy. }
    assert (G : forall l' s2 s3, (forall y, In y l' -> In y l) -> J s2 -> R a s2 ->
                                 for_each f l' s2 = (inl tt, s3) -> R a s3).
    { induction l' as [|b l' IH']; intros s2 s3 Hsub HJ2 HR2 E3.
      - simpl in E3. apply ret_ok in E3. destruct E3 as [_ ->]. exact HR2.
      - simpl in E3. apply bind_ok in E3. destruct E3 as [[] [s4 [E4 E5]]].
        assert (Hb : In b l) by (apply Hsub; left; reflexivity).
        apply (IH' s4 s3); [intros y Hy; apply Hsub; right; exact Hy
                           | exact (proj1 (Hstep' b s2 s4 Hb HJ2 E4))
                           | exact (Hstab' a b s2 s4 Hb HJ2 HR2 E4) | exact E5]. }
    destruct (IH Hstep' Hstab' s1 s' HJ1 E2) as [HJ' HR'].
    split; [exact HJ'|]. intros x [<-|Hx]; [exact (G l s1 s' (fun y H => H) HJ1 HR1 E2) | exact (HR' x Hx)].
Qed.

Lemma for_each_ok_inv {A} (f : A -> M unit) (J : st -> Prop) l :
  (forall x s1 s2, In x l -> J s1 -> f x s1 = (inl tt, s2) -> J s2) ->
  forall s s', J s -> for_each f l s = (inl tt, s') -> J s'.
Proof.
  induction l as [|a l IH]; intros Hstep s s' HJ E.
  - simpl in E. apply ret_ok in E. destruct E as [_ ->]. exact HJ.
  - simpl in E. apply bind_ok in E. destruct E as [[] [s1 [E1 E2]]].
    apply (IH (fun x s1 s2 Hx => Hstep x s1 s2 (or_intror Hx)) s1 s'); [|exact E2].
    exact (Hstep a s s1 (or_introl eq_refl) HJ E1).
Qed.

(* ---------- soundness: which ids may be deleted (all outcomes) ---------- *)
Definition Sound {A} (P : N -> Prop) (m : M A) : Prop :=
  forall s, cons s -> forall x, In x (snd (snd (m s))) -> In x (snd s) \/ P x.

Lemma Sound_weaken {A} (P Q : N -> Prop) (m : M A) : (forall x, P x -> Q x) -> Sound P m -> Sound Q m.
Proof. intros H Hm s Hs x Hx. destruct (Hm s Hs x Hx); auto. Qed.

Lemma Sound_ret {A} P (x : A) : Sound P (ret x).
Proof. intros s _ y Hy. left. exact Hy. Qed.

Lemma Sound_fail {A} P e : Sound P (@fail A e).
Proof. intros s _ y Hy. left. exact Hy. Qed.

Lemma Sound_get {A} P (f : graph -> A) : Sound P (m_get f).
Proof. intros s _ y Hy. left. exact Hy. Qed.

Lemma Sound_read {A} P (f : graph -> A + exn) : Sound P (m_read f).
Proof. intros s _ y Hy. left. exact Hy. Qed.

Lemma Sound_guard P b e : Sound P (guard b e).
Proof. unfold guard. destruct b; [apply Sound_ret | apply Sound_fail]. Qed.

Lemma Sound_uniq P l e1 e2 : Sound P (uniq l e1 e2).
Proof. unfold uniq. destruct l as [|a [|b r]]; [apply Sound_fail | apply Sound_ret | apply Sound_fail]. Qed.

Lemma Sound_delete (P : N -> Prop) n : P n -> Sound P (m_delete n).
Proof.
  intros Hn s _ y Hy. unfold m_delete in Hy. destruct (has_node (fst s) n); simpl in Hy.
  - destruct Hy as [<-|Hy]; auto.
  - auto.
Qed.

Lemma Sound_bind {A B} P (m : M A) (f : A -> M B) :
  Inv m -> Sound P m -> (forall x s, cons s -> m s = (inl x, snd (m s)) -> Sound P (f x)) -> Sound P (bind m f).
Proof.
  intros Im Hm Hf s Hs y Hy. unfold bind in Hy.
  pose proof (Inv_cons m Im s Hs) as [C1 _]. pose proof (Hm s Hs) as S1.
  destruct (m s) as [[x|e] s1] eqn:E; simpl in *.
  - assert (Hfx : Sound P (f x)). { apply (Hf x s Hs). rewrite E. reflexivity. }
    destruct (Hfx s1 C1 y Hy) as [H|H]; [apply S1; exact H | right; exact H].
  - apply S1. exact Hy.
Qed.

(* the common case: the continuation is sound whatever the value *)
Lemma Sound_bind' {A B} P (m : M A) (f : A -> M B) :
  Inv m -> Sound P m -> (forall x, Sound P (f x)) -> Sound P (bind m f).
Proof. intros Im Hm Hf. apply Sound_bind; auto. Qed.

(* a read of the current graph followed by a continuation: the value is a query on some restrict g0 d *)
Lemma Sound_bind_get {A B} P (q : graph -> A) (f : A -> M B) :
  (forall d, Sound P (f (q (restrict g0 d)))) -> Sound P (bind (m_get q) f).
Proof.
  intros Hf. apply Sound_bind; [apply Inv_get | apply Sound_get |].
  intros x s Hs E. unfold m_get in E. inversion E. subst x. rewrite Hs. apply Hf.
Qed.

Lemma Sound_for_each {A} P (f : A -> M unit) l :
  (forall x, In x l -> Inv (f x) /\ Sound P (f x)) -> Sound P (for_each f l).
Proof.
  induction l as [|a l IH]; intros H; simpl.
  - apply Sound_ret.
  - apply Sound_bind'; [apply H; simpl; auto | apply H; simpl; auto |].
    intros _. apply IH. intros x Hx. apply H. simpl. auto.
Qed.

Lemma Sound_for_each_set {A} P (f : A -> M unit) l :
  (forall x, In x l -> Inv (f x) /\ Sound P (f x)) -> Sound P (for_each_set f l).
Proof.
  intros H s Hs y Hy. rewrite for_each_set_state in Hy. exact (Sound_for_each P f l H s Hs y Hy).
Qed.

End Hoare.

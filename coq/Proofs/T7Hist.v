(* C07 - the claim about calls and histories: every call listed in op_pre keeps the rules, hence every history of such
   calls does. *)
From Coq Require Import String List NArith ZArith Bool Arith Lia.
From FIM Require Import Base.Str Gen.Rules Model.T7Graph Model.T7Ops Model.T7WF Model.T7Steps Model.T7Rel
     Proofs.T7Tables Proofs.T7WFRefl Proofs.T7Frame Proofs.T7Units Proofs.T7Api Proofs.T7Api2 Proofs.T7Api3
     Proofs.T7RelUnits Proofs.T7RelRun Proofs.T7RelCp Proofs.T7Api4 Proofs.T7RelAdd Proofs.T7Api5 Proofs.T7Api6
     Proofs.T7Rem Proofs.T7Rem2 Proofs.T7Rem3 Proofs.T7Rem4 Proofs.T7Rem5.
Import ListNotations.

Lemma resolve_cls g k x : resolve g k x = true -> cls_is g x k = true.
Proof.
  unfold resolve, get_node, cls_is, cls_of. destruct (find_nodes g x) as [|n [|m l]]; try discriminate.
  intro H. apply andb_true_iff in H as [H _]. exact H.
Qed.

Lemma run_op_preserves sub fl hint o s s' r :
  WF (sg s) -> op_pre fl (sg s) o = true -> run_op sub fl hint o s = (s', r) -> WF (sg s').
Proof.
  intros W P R. destruct o; cbv beta iota delta [op_pre] in P; try (eapply run_op_preserves_basic; eassumption); unfold run_op in R;
    try (unfold rem_pre in P; apply andb_true_iff in P as [P Q4]; apply andb_true_iff in P as [P Q3]; apply andb_true_iff in P as [Q1 Q2]).
  - (* remove_node *) eapply api_t_remove_node; eauto.
  - (* node.remove_component *) peel R W. eapply api_node_remove_component; eauto.
  - (* remove_facility *) eapply api_t_remove_facility; eauto.
  - (* remove_switch *) eapply api_t_remove_switch; eauto.
  - (* remove_network_service *) eapply api_t_remove_ns; eauto.
  - (* node.remove_network_service *) peel R W. eapply api_node_remove_ns; eauto.
  - (* connect_interface *)
    apply andb_true_iff in P as [P P3]. apply andb_true_iff in P as [P1 P2]. apply negb_true_iff in P3.
    peel R W. peel R W. apply resolve_cls in Hm. apply resolve_cls in Hm0.
    destruct (api_connect fl sub s0 i _ _ _ W P1 Hm Hm0 P3 R) as [X|[X _]]; [exact X | congruence].
  - (* disconnect_interface *)
    apply andb_true_iff in P as [P1 P2]. apply negb_true_iff in P2.
    peel R W. peel R W. apply resolve_cls in Hm0.
    eapply api_disconnect; eauto.
  - (* peer *)
    apply andb_true_iff in P as [P1 P2]. apply negb_true_iff in P1. apply str_eqb_neq in P1.
    peel R W. peel R W. apply resolve_cls in Hm. apply resolve_cls in Hm0.
    eapply api_peer; [exact W | exact Hm | exact Hm0 | exact P1 | | exact R].
    intros an bn Ea Eb. unfold peer_link_free in P2. rewrite Ea, Eb in P2. exact P2.
  - (* unpeer *)
    peel R W. peel R W. eapply api_unpeer; eauto.
  - (* remove_child_interface *)
    peel R W. eapply api_remove_child; eauto.
Qed.

Theorem step_preserves_partial sub fl g o drawn hint g' out :
  WF g -> op_pre fl g o = true -> step sub fl g o drawn hint = (g', out) -> WF g'.
Proof.
  intros W P H. unfold step in H.
  destruct (run_op sub fl hint o (mkSt g drawn)) as [s' [u|e]] eqn:R; inversion H; subst;
    eapply (run_op_preserves sub fl hint o (mkSt g drawn)); eauto.
Qed.

Theorem histories_partial sub fl h : forall g, WF g -> pre_along sub fl g h = true -> WF (run_hist sub fl g h).
Proof.
  induction h as [|[[o dr] hi] h IH]; intros g W P; simpl in *; [exact W|].
  apply andb_true_iff in P as [P1 P2]. apply IH; [|exact P2].
  destruct (step sub fl g o dr hi) as [g' out] eqn:E. simpl. eapply step_preserves_partial; eauto.
Qed.

Lemma WF_empty : WF empty_graph.
Proof. apply wf_b_reflect. reflexivity. Qed.

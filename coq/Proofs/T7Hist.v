(* C07 - the claim about calls and histories: every building call keeps the rules under its precondition op_pre, hence
   every history of such calls does. *)
From Coq Require Import String List NArith ZArith Bool Arith Lia.
From FIM Require Import Base.Str Gen.Rules Model.T7Graph Model.T7Ops Model.T7WF Model.T7Steps Model.T7Rel
     Proofs.T7Tables Proofs.T7WFRefl Proofs.T7Frame Proofs.T7Units Proofs.T7Api Proofs.T7Api2 Proofs.T7Api3
     Proofs.T7RelUnits Proofs.T7RelRun Proofs.T7RelCp Proofs.T7Api4 Proofs.T7RelAdd Proofs.T7Api5 Proofs.T7Api6
     Proofs.T7Rem Proofs.T7Rem2 Proofs.T7Rem3 Proofs.T7Rem4 Proofs.T7Rem5 Proofs.T7AddNs Proofs.T7AddFac.
Import ListNotations.

Lemma resolve_cls g k x : resolve g k x = true -> cls_is g x k = true.
Proof.
  unfold resolve, get_node, cls_is, cls_of. destruct (find_nodes g x) as [|n [|m l]]; try discriminate.
  intro H. apply andb_true_iff in H as [H _]. exact H.
Qed.

(* the public disconnect_interface: of an interface that is not a service port; or, by a library that refuses peering
   ports (proposed C07-10), of any interface *)
Lemma api_public_disconnect fl i s s' r :
  WF (sg s) -> subs_under_dedicated (sg s) = true -> cls_is (sg s) i KCP = true ->
  fl_disc_peering fl || negb (typ_is (sg s) i sServicePort) = true ->
  public_disconnect fl i s = (s', r) -> WF (sg s').
Proof.
  intros W X Ci P H. unfold public_disconnect in H.
  apply bind_reads in H; [| destruct (fl_disc_peering fl); solve [auto 8 with reads]].
  destruct H as [[s1 [[] [Hm [Hg H]]]] | [e [Hr Hg]]]; [| rewrite Hg; exact W].
  destruct (typ_is (sg s) i sServicePort) eqn:Ti.
  - (* a service port: the library has checked that it has no service-port peer, the call changes nothing *)
    rewrite orb_false_r in P. rewrite P in Hm.
    apply bind_inv in Hm as [[s2 [t [H1 Hm]]]|[e [_ Q]]]; [|discriminate Q]. apply type_is_val in H1 as [-> ->].
    apply bind_inv in Hm as [[s2 [ps [H2 Hm]]]|[e [_ Q]]]; [|discriminate Q]. apply get_peers_val in H2 as [-> Hps].
    apply guard_ok_val in Hm as [_ G]. rewrite Ti in G. simpl in G.
    assert (Sn : sane (sg s1)) by (rewrite Hg; apply WF_WFr in W; apply (WFr_sane _ _ _ W)).
    destruct (disconnect_run i s1 s' r Sn H) as [[G' _]|[p [Esp _]]]; [rewrite G', Hg; exact W|].
    exfalso. rewrite Hg in Esp. unfold sp_peers in Esp.
    destruct (raw_peers (sg s) i) as [|x l] eqn:Er; [discriminate Esp|]. rewrite Esp in Hps. subst ps. discriminate G.
  - rewrite <- Hg in W, X, Ci, Ti. eapply api_disconnect; eauto.
Qed.

Lemma need_all_cls k : forall l s s' (u : unit), for_each l (need k) s = (s', Ok u) -> forall j, In j l -> cls_is (sg s) j k = true.
Proof.
  induction l as [|x l IH]; intros s s' u H j Hj; [destruct Hj|]. simpl in H.
  apply bind_inv in H as [[s1 [[] [H1 H2]]]|[e [_ Q]]]; [|discriminate Q].
  apply need_val in H1 as [-> H1]. destruct Hj as [<-|Hj]; [apply resolve_cls; exact H1 | eapply IH; eauto].
Qed.

Lemma run_op_preserves sub fl hint o s s' r :
  WF (sg s) -> op_pre fl (sg s) o = true -> run_op sub fl hint o s = (s', r) -> WF (sg s').
Proof.
  intros W P R. destruct o; cbv beta iota delta [op_pre] in P; try (eapply run_op_preserves_basic; eassumption); unfold run_op in R;
    try (unfold rem_pre in P; apply andb_true_iff in P as [P Q4]; apply andb_true_iff in P as [P Q3]; apply andb_true_iff in P as [Q1 Q2]).
  - (* remove_node *) eapply api_t_remove_node; eauto.
  - (* node.remove_component *) peel R W. eapply api_node_remove_component; eauto.
  - (* add_facility *) eapply api_add_facility; eauto.
  - (* remove_facility *) eapply api_t_remove_facility; eauto.
  - (* add_switch *) eapply api_add_switch; eauto.
  - (* remove_switch *) eapply api_t_remove_switch; eauto.
  - (* add_network_service *)
    apply andb_true_iff in P as [P1 P2].
    apply bind_reads in R; [| apply (reads_for_each_need ifs) ].
    destruct R as [[s1 [u [Hm [Hg R]]]] | [e [Hr Hg]]]; [| rewrite Hg; exact W].
    destruct ifs as [|i0 ifs'].
    { rewrite <- Hg in W. eapply (api_add_ns_nil fl); [exact W | apply service_type_ok; exact P1 | exact R]. }
    unfold conn_pre in P2. apply andb_true_iff in P2 as [P2 Q4]. apply andb_true_iff in P2 as [P2 Q3]. apply andb_true_iff in P2 as [Q1 Q2].
    assert (HI : forall j, In j (i0 :: ifs') -> cls_is (sg s) j KCP = true /\ typ_is (sg s) j sServicePort = false).
    { intros j Hj. split; [|rewrite forallb_forall in Q4; apply negb_true_iff; apply Q4; exact Hj].
      apply (need_all_cls _ _ _ _ _ Hm j Hj). }
    rewrite <- Hg in W, Q3, HI.
    eapply api_add_ns; [exact W | exact Q3 | apply service_type_ok; exact P1 | exact Q1 | exact Q2 | exact HI | exact R].
  - (* add_port_mirror_service; the side conditions were split above *)
    peel R W. peel R W. apply resolve_cls in Hm. simpl in Q4. rewrite andb_true_r in Q4. apply negb_true_iff in Q4.
    eapply api_add_ns; [exact W | exact Q3 | apply port_mirror_type_ok | exact Q1 | exact Q2 | | exact R].
    intros j [<-|[]]. auto.
  - (* remove_network_service *) eapply api_t_remove_ns; eauto.
  - (* node.remove_network_service *) peel R W. eapply api_node_remove_ns; eauto.
  - (* connect_interface *)
    apply andb_true_iff in P as [P P3]. apply andb_true_iff in P as [P1 P2]. apply negb_true_iff in P3.
    peel R W. peel R W. apply resolve_cls in Hm. apply resolve_cls in Hm0.
    destruct (api_connect fl sub s0 i _ _ _ W P1 Hm Hm0 P3 R) as [X|[X _]]; [exact X | congruence].
  - (* disconnect_interface *)
    apply andb_true_iff in P as [P1 P2].
    peel R W. peel R W. apply resolve_cls in Hm0.
    eapply api_public_disconnect; eauto.
  - (* peer *)
    peel R W. peel R W. apply resolve_cls in Hm. apply resolve_cls in Hm0.
    eapply api_peer; [exact W | exact Hm | exact Hm0 | | exact R].
    intro FP. rewrite FP in P. simpl in P. apply andb_true_iff in P as [P1 P2]. apply negb_true_iff in P1. apply str_eqb_neq in P1.
    split; [exact P1|]. intros an bn Ea Eb. unfold peer_link_free in P2. rewrite Ea, Eb in P2. exact P2.
  - (* unpeer *)
    peel R W. peel R W. eapply api_unpeer; eauto.
  - (* remove_child_interface *)
    peel R W. eapply api_remove_child; eauto.
Qed.

Theorem step_preserves sub fl g o drawn hint g' out :
  WF g -> op_pre fl g o = true -> step sub fl g o drawn hint = (g', out) -> WF g'.
Proof.
  intros W P H. unfold step in H.
  destruct (run_op sub fl hint o (mkSt g drawn)) as [s' [u|e]] eqn:R; inversion H; subst;
    eapply (run_op_preserves sub fl hint o (mkSt g drawn)); eauto.
Qed.

Theorem histories sub fl h : forall g, WF g -> pre_along sub fl g h = true -> WF (run_hist sub fl g h).
Proof.
  induction h as [|[[o dr] hi] h IH]; intros g W P; simpl in *; [exact W|].
  apply andb_true_iff in P as [P1 P2]. apply IH; [|exact P2].
  destruct (step sub fl g o dr hi) as [g' out] eqn:E. simpl. eapply step_preserves; eauto.
Qed.

Lemma WF_empty : WF empty_graph.
Proof. apply wf_b_reflect. reflexivity. Qed.

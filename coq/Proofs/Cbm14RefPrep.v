(* C14 - refinement: the first half of merge_adm (temporary clone, rewrite_delegations, stamping adm_graph_ids)
   appends to the node list one image per node of the delegation model and touches nothing else. *)
From Coq Require Import List NArith Bool Lia.
From FIM Require Import Model.Cbm14Store Model.Cbm14Spec Model.Cbm14Abs Proofs.Cbm14Assoc Proofs.Cbm14Frame
     Proofs.Cbm14RefBase.
Import ListNotations.
Open Scope N_scope.

(* t is the temporary image of the source node a *)
Definition img (adm tmp : N) (a t : node) : Prop :=
  n_gid t = tmp /\ n_nid t = n_nid a /\ n_cls t = n_cls a /\ n_oth t = n_oth a /\ n_si t = SIds [adm] /\
  rw_d adm (n_ld a) = inl (n_ld t) /\ rw_d adm (n_cd a) = inl (n_cd t).

Definition copy_of (new : N) (a t : node) : Prop :=
  n_gid t = new /\ n_nid t = n_nid a /\ n_cls t = n_cls a /\ n_oth t = n_oth a /\ n_si t = n_si a /\
  n_ld t = n_ld a /\ n_cd t = n_cd a.

Lemma clone_nodes_copy new : forall l nx cn m,
  clone_nodes new nx l = (cn, m) -> Forall2 (copy_of new) l cn.
Proof.
  induction l as [|a r IH]; intros nx cn m H; simpl in H.
  - inversion H; subst. constructor.
  - destruct (clone_nodes new (N.succ nx) r) as [cn0 m0] eqn:E. inversion H; subst.
    constructor; [|eapply IH; eauto]. unfold copy_of; simpl. repeat split; reflexivity.
Qed.

Lemma rw_node_fields adm n n' :
  rw_node adm n = inl n' ->
  n_int n' = n_int n /\ n_gid n' = n_gid n /\ n_nid n' = n_nid n /\ n_cls n' = n_cls n /\ n_oth n' = n_oth n /\
  n_si n' = n_si n /\ rw_d adm (n_ld n) = inl (n_ld n') /\ rw_d adm (n_cd n) = inl (n_cd n').
Proof.
  unfold rw_node. destruct (rw_d adm (n_ld n)) as [ld|] eqn:L; [|discriminate].
  destruct (rw_d adm (n_cd n)) as [cd|] eqn:C; [|discriminate]. intro H; inversion H; subst; simpl;
  repeat split; auto.
Qed.

Lemma rw_nodes_notmp adm tmp ns : (forall n, In n ns -> n_gid n <> tmp) -> rw_nodes adm tmp ns = inl ns.
Proof.
  induction ns as [|n r IH]; simpl; auto. intro H.
  assert (n_gid n =? tmp = false) as -> by (apply N.eqb_neq; apply H; simpl; auto).
  rewrite IH; auto; intros; apply H; simpl; auto.
Qed.

Lemma rw_nodes_split adm tmp : forall ns cn ns2,
  (forall n, In n ns -> n_gid n <> tmp) -> (forall n, In n cn -> n_gid n = tmp) ->
  rw_nodes adm tmp (ns ++ cn) = inl ns2 ->
  exists cn', ns2 = ns ++ cn' /\ Forall2 (fun t t' => rw_node adm t = inl t') cn cn'.
Proof.
  induction ns as [|n r IH]; simpl; intros cn ns2 H1 H2 H.
  - revert ns2 H. induction cn as [|t c IHc]; simpl; intros ns2 H.
    + inversion H; subst. exists []. split; auto.
    + assert (n_gid t =? tmp = true) as E by (apply N.eqb_eq; apply H2; simpl; auto). rewrite E in H.
      destruct (rw_node adm t) as [t'|] eqn:R; [|discriminate].
      destruct (rw_nodes adm tmp c) as [c'|] eqn:RC; [|discriminate]. inversion H; subst.
      destruct (IHc (fun n Hn => H2 n (or_intror Hn)) c' eq_refl) as (cn' & E' & F).
      simpl in E'. subst. exists (t' :: cn'). split; auto.
  - assert (n_gid n =? tmp = false) as E by (apply N.eqb_neq; apply H1; simpl; auto). rewrite E in H.
    destruct (rw_nodes adm tmp (r ++ cn)) as [x|] eqn:R; [|discriminate]. inversion H; subst.
    destruct (IH cn x (fun m Hm => H1 m (or_intror Hm)) H2 R) as (cn' & E' & F). subst.
    exists cn'. split; auto.
Qed.

Lemma notmp_of_fresh tmp st : gexists tmp st = false -> forall n, In n (s_nodes st) -> n_gid n <> tmp.
Proof.
  unfold gexists. intros H n Hn E. assert (existsb (fun n => n_gid n =? tmp) (s_nodes st) = true); [|congruence].
  apply existsb_exists. exists n. split; auto. apply N.eqb_eq. exact E.
Qed.

Lemma map_gid_split tmp f ns cn :
  (forall n, In n ns -> n_gid n <> tmp) -> (forall n, In n cn -> n_gid n = tmp) ->
  map (fun n => if n_gid n =? tmp then f n else n) (ns ++ cn) = ns ++ map f cn.
Proof.
  intros H1 H2. rewrite map_app. f_equal.
  - rewrite <- (map_id ns) at 2. apply map_ext_in. intros n Hn.
    assert (n_gid n =? tmp = false) as -> by (apply N.eqb_neq; auto). reflexivity.
  - apply map_ext_in. intros n Hn. assert (n_gid n =? tmp = true) as -> by (apply N.eqb_eq; auto). reflexivity.
Qed.

(* the state after clone + rewrite_delegations + stamping *)
Definition prep_store (adm tmp : N) (st : store) (ns2 : list node) : store :=
  map_gid tmp (set_si (SIds [adm])) (mkStore ns2 (s_edges (clone adm tmp st)) (s_next (clone adm tmp st))).

Lemma Forall2_in_r {A B} (R : A -> B -> Prop) l l' y : Forall2 R l l' -> In y l' -> exists x, In x l /\ R x y.
Proof.
  induction 1; simpl; [tauto|]. intros [E|Hin]; [subst; eauto|]. destruct (IHForall2 Hin) as (x0 & ? & ?). eauto.
Qed.

Lemma Forall2_trans3 {A B C} (R1 : A -> B -> Prop) (R2 : B -> C -> Prop) (R : A -> C -> Prop) l1 l2 l3 :
  (forall a b c, R1 a b -> R2 b c -> R a c) -> Forall2 R1 l1 l2 -> Forall2 R2 l2 l3 -> Forall2 R l1 l3.
Proof.
  intros H F1. revert l3. induction F1; intros l3 F2; inversion F2; subst; constructor; eauto.
Qed.

Lemma Forall2_map_r {A B C} (R : A -> B -> Prop) (R' : A -> C -> Prop) (f : B -> C) l l' :
  (forall a b, R a b -> R' a (f b)) -> Forall2 R l l' -> Forall2 R' l (map f l').
Proof. intros H F. induction F; simpl; constructor; auto. Qed.

Lemma img_keys adm tmp l tn : Forall2 (img adm tmp) l tn -> NoDup (map n_nid l) -> NoDup (map key tn).
Proof.
  induction 1 as [|a0 t0 l l' R0 IM IH]; simpl; intro NN; [constructor|].
  inversion NN as [|? ? NI ND]; subst. constructor; auto.
  intro X. apply NI. apply in_map_iff in X as (t & Et & Ht).
  destruct (Forall2_in_r _ _ _ _ IM Ht) as (a & Ha & Ia).
  destruct R0 as (G1 & G2 & _). destruct Ia as (G1' & G2' & _).
  unfold key in Et. injection Et as Q1 Q2. assert (n_nid a = n_nid a0) as Q by congruence.
  rewrite <- Q. apply in_map. exact Ha.
Qed.

Lemma prep_spec adm tmp st ns2 :
  J (s_next st) (s_nodes st) -> gexists tmp st = false ->
  rw_nodes adm tmp (s_nodes (clone adm tmp st)) = inl ns2 ->
  exists tn, s_nodes (prep_store adm tmp st ns2) = s_nodes st ++ tn /\
             Forall2 (img adm tmp) (of_gid adm st) tn /\
             J (s_next (prep_store adm tmp st ns2)) (s_nodes st ++ tn).
Proof.
  intros (U & B & K) FR R.
  pose proof (notmp_of_fresh tmp st FR) as NT.
  unfold clone in *. destruct (clone_nodes tmp (s_next st) (of_gid adm st)) as [cn m] eqn:E.
  pose proof (clone_nodes_copy _ _ _ _ _ E) as CP.
  destruct (clone_nodes_spec _ _ _ _ _ E) as (S1 & S2 & _).
  simpl in R.
  assert (forall n, In n cn -> n_gid n = tmp) as CT by (intros n Hn; apply (S1 n Hn)).
  destruct (rw_nodes_split adm tmp _ _ _ NT CT R) as (cn' & -> & F).
  assert (forall n, In n cn' -> n_gid n = tmp) as CT'.
  { intros n Hn. destruct (Forall2_in_r _ _ _ _ F Hn) as (t & Ht & Rt).
    apply rw_node_fields in Rt as (_ & G & _). rewrite G. auto. }
  exists (map (set_si (SIds [adm])) cn'). unfold prep_store, map_gid, clone; rewrite E; simpl.
  rewrite (map_gid_split tmp (set_si (SIds [adm])) _ _ NT CT'). split; auto.
  assert (Forall2 (img adm tmp) (of_gid adm st) (map (set_si (SIds [adm])) cn')) as IM.
  { apply (Forall2_map_r (fun a t' => n_gid t' = tmp /\ n_nid t' = n_nid a /\ n_cls t' = n_cls a /\ n_oth t' = n_oth a /\
                                      rw_d adm (n_ld a) = inl (n_ld t') /\ rw_d adm (n_cd a) = inl (n_cd t'))).
    - intros a b (H1 & H2 & H3 & H4 & H5 & H6). unfold img; simpl. repeat split; auto.
    - eapply Forall2_trans3; [|exact CP|exact F].
      intros a b c (G1 & G2 & G3 & G4 & G5 & G6 & G7) Rb.
      apply rw_node_fields in Rb as (_ & Q1 & Q2 & Q3 & Q4 & _ & Q6 & Q7).
      repeat split; congruence. }
  split; auto.
  (* the invariant *)
  assert (map n_int (map (set_si (SIds [adm])) cn') = map n_int cn) as EI.
  { rewrite map_map. simpl. clear - F. induction F; simpl; auto. apply rw_node_fields in H as (-> & _). congruence. }
  split; [|split].
  - unfold uniq. rewrite map_app, EI. apply NoDup_app'; auto.
    intros x Hx Hy. apply in_map_iff in Hx as (n & En & Hn). apply in_map_iff in Hy as (n' & En' & Hn').
    specialize (B n Hn). destruct (S1 n' Hn') as (_ & ? & _). lia.
  - intros n Hn. apply in_app_iff in Hn as [Hn|Hn]; [specialize (B n Hn); lia|].
    assert (In (n_int n) (map n_int cn)) as X by (rewrite <- EI; apply in_map; auto).
    apply in_map_iff in X as (n' & En' & Hn'). destruct (S1 n' Hn') as (_ & _ & ?). lia.
  - unfold ukeys. rewrite map_app. apply NoDup_app'; auto.
    + (* keys of the images: (tmp, nid a) for the distinct nids of the source *)
      pose proof (ukeys_nids adm (s_nodes st) K) as NN. fold (of_gid adm st) in NN.
      exact (img_keys _ _ _ _ IM NN).
    + intros x Hx Hy. apply in_map_iff in Hx as (n & En & Hn). apply in_map_iff in Hy as (t & Et & Ht).
      apply (NT n Hn). destruct (Forall2_in_r _ _ _ _ IM Ht) as (a & _ & (G1 & _)).
      unfold key in *. rewrite <- En in Et. inversion Et. congruence.
Qed.

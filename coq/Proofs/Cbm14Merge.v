(* C14 - what smerge / sunmerge do, key by key; the equivalence of combined models; commutation of two
   merges; order independence of merging a consistent family. *)
From Coq Require Import List NArith Bool Lia Permutation.
From FIM Require Import Model.Cbm14Spec Proofs.Cbm14Assoc.
Import ListNotations.
Open Scope N_scope.

Definition Neq := N.eqb_eq.

(* ---------- smerge, key by key ---------- *)
Lemma get_merge_nodes g cn an k :
  getn k (merge_nodes g cn an) =
  match getn k cn, getn k an with
  | Some c, Some a => Some (upd g a c)
  | Some c, None => Some c
  | None, Some a => Some (stamp g a)
  | None, None => None
  end.
Proof.
  unfold merge_nodes, getn. rewrite (get_app N.eqb).
  rewrite (get_map N.eqb Neq (fun k c => match get N.eqb k an with Some a => upd g a c | None => c end)).
  destruct (get N.eqb k cn) as [c|] eqn:Ec; simpl.
  - destruct (get N.eqb k an); reflexivity.
  - rewrite (get_map N.eqb Neq (fun _ a => stamp g a)).
    rewrite (get_filter_key N.eqb Neq (fun k => negb (hasn k cn))).
    unfold hasn, has. rewrite Ec. simpl. destruct (get N.eqb k an); reflexivity.
Qed.

Lemma get_merge_edges ce ae e :
  gete e (merge_edges ce ae) =
  match gete e ce, gete e ae with
  | Some d, _ => Some d
  | None, Some d => Some d
  | None, None => None
  end.
Proof.
  unfold merge_edges, gete. rewrite (get_app ekey_eqb).
  destruct (get ekey_eqb e ce) as [d|] eqn:Ec; simpl; auto.
  rewrite (get_filter_key ekey_eqb ekey_eqb_eq (fun k => negb (hase k ce))).
  unfold hase, has. rewrite Ec. simpl. destruct (get ekey_eqb e ae); reflexivity.
Qed.

Lemma smerge_Some C A C' :
  smerge C A = Some C' ->
  conflict C A = false /\
  nodes C' = merge_nodes (adm_id A) (nodes C) (adm_nodes A) /\
  edges C' = merge_edges (edges C) (adm_edges A).
Proof.
  unfold smerge. destruct (conflict C A); [discriminate|]. intro H; inversion H; subst; simpl; auto.
Qed.

Lemma smerge_get_node C A C' k :
  smerge C A = Some C' ->
  getn k (nodes C') =
  match getn k (nodes C), getn k (adm_nodes A) with
  | Some c, Some a => Some (upd (adm_id A) a c)
  | Some c, None => Some c
  | None, Some a => Some (stamp (adm_id A) a)
  | None, None => None
  end.
Proof. intro H. apply smerge_Some in H as (_ & -> & _). apply get_merge_nodes. Qed.

Lemma smerge_get_edge C A C' e :
  smerge C A = Some C' ->
  gete e (edges C') =
  match gete e (edges C), gete e (adm_edges A) with
  | Some d, _ => Some d
  | None, Some d => Some d
  | None, None => None
  end.
Proof. intro H. apply smerge_Some in H as (_ & _ & ->). apply get_merge_edges. Qed.

(* well-formed delegation model: node ids unique, one connection per pair, connections join its own nodes *)
Definition wf_adm (A : adm) : Prop :=
  NoDup (map fst (adm_nodes A)) /\ NoDup (map fst (adm_edges A)) /\
  (forall e, In e (map fst (adm_edges A)) ->
             hasn (fst e) (adm_nodes A) = true /\ hasn (snd e) (adm_nodes A) = true).

Lemma conflict_false C A :
  wf_adm A ->
  (conflict C A = false <->
   forall k a c, getn k (adm_nodes A) = Some a -> getn k (nodes C) = Some c -> clash c a = false).
Proof.
  intros (ND & _). unfold conflict. split.
  - intros H k a c Ha Hc.
    apply (get_Some_In N.eqb Neq) in Ha.
    destruct (clash c a) eqn:E; auto.
    assert (existsb (fun ka => match getn (fst ka) (nodes C) with Some c => clash c (snd ka) | None => false end)
                    (adm_nodes A) = true) as X.
    { apply existsb_exists. exists (k, a). split; auto. simpl. rewrite Hc. exact E. }
    congruence.
  - intro H. destruct (existsb _ (adm_nodes A)) eqn:E; auto.
    apply existsb_exists in E as ([k a] & Hin & Hx). simpl in Hx.
    destruct (getn k (nodes C)) as [c|] eqn:Hc; [|discriminate].
    rewrite (H k a c) in Hx; auto. apply (In_get N.eqb Neq); auto.
Qed.

Lemma smerge_defined C A : conflict C A = false -> exists C', smerge C A = Some C'.
Proof. unfold smerge. intros ->. eauto. Qed.

(* ---------- equivalence of combined models ---------- *)
Definition eqv_node (c c' : cnode) : Prop :=
  c_cls c = c_cls c' /\ c_oth c = c_oth c' /\ (forall g, In g (c_con c) <-> In g (c_con c')) /\
  c_ld c = c_ld c' /\ c_cd c = c_cd c'.
Definition opt_rel {A} (R : A -> A -> Prop) (x y : option A) : Prop :=
  match x, y with Some a, Some b => R a b | None, None => True | _, _ => False end.
(* same elements, contributors as sets, same connections *)
Definition eqv (C C' : cbm) : Prop :=
  (forall k, opt_rel eqv_node (getn k (nodes C)) (getn k (nodes C'))) /\
  (forall e, gete e (edges C) = gete e (edges C')).

Lemma eqv_node_refl c : eqv_node c c.
Proof. unfold eqv_node; intuition. Qed.
Lemma eqv_node_sym c c' : eqv_node c c' -> eqv_node c' c.
Proof. unfold eqv_node; intros (?&?&H&?&?); repeat split; try congruence; apply H. Qed.
Lemma eqv_node_trans a b c : eqv_node a b -> eqv_node b c -> eqv_node a c.
Proof.
  unfold eqv_node; intros (?&?&H&?&?) (?&?&H'&?&?); repeat split; try congruence.
  - intro X; apply H', H, X.
  - intro X; apply H, H', X.
Qed.

Lemma eqv_refl C : eqv C C.
Proof. split; auto. intro k. destruct (getn k (nodes C)); simpl; auto using eqv_node_refl. Qed.
Lemma eqv_sym C C' : eqv C C' -> eqv C' C.
Proof.
  intros [H1 H2]; split; auto. intro k. specialize (H1 k).
  destruct (getn k (nodes C)), (getn k (nodes C')); simpl in *; auto using eqv_node_sym.
Qed.
Lemma eqv_trans A B C : eqv A B -> eqv B C -> eqv A C.
Proof.
  intros [H1 H2] [H3 H4]; split; [|congruence]. intro k. specialize (H1 k); specialize (H3 k).
  destruct (getn k (nodes A)), (getn k (nodes B)), (getn k (nodes C)); simpl in *; try tauto.
  eauto using eqv_node_trans.
Qed.
(* smerge respects the equivalence *)
Lemma upd_eqv g a c c' : eqv_node c c' -> eqv_node (upd g a c) (upd g a c').
Proof.
  intros (H1&H2&H3&H4&H5). unfold eqv_node, upd; simpl. rewrite H4, H5. repeat split; auto;
  rewrite !in_app_iff, H3; tauto.
Qed.
Lemma clash_eqv c c' a : eqv_node c c' -> clash c a = clash c' a.
Proof. intros (_&_&_&H4&H5). unfold clash. rewrite H4, H5. reflexivity. Qed.

Lemma smerge_eqv C C' A D :
  wf_adm A -> eqv C C' -> smerge C A = Some D -> exists D', smerge C' A = Some D' /\ eqv D D'.
Proof.
  intros WF [E1 E2] H.
  assert (conflict C' A = false) as CF.
  { apply smerge_Some in H as (CF & _). rewrite conflict_false in CF |- *; auto.
    intros k a c' Ha Hc'. specialize (E1 k). rewrite Hc' in E1.
    destruct (getn k (nodes C)) as [c|] eqn:Hc; simpl in E1; [|contradiction].
    rewrite <- (clash_eqv c c' a E1). eauto. }
  destruct (smerge_defined _ _ CF) as [D' HD']. exists D'; split; auto.
  split.
  - intro k. rewrite (smerge_get_node _ _ _ k H), (smerge_get_node _ _ _ k HD').
    specialize (E1 k).
    destruct (getn k (nodes C)), (getn k (nodes C')); simpl in E1; try contradiction;
    destruct (getn k (adm_nodes A)); simpl; auto using upd_eqv, eqv_node_refl.
  - intro e. rewrite (smerge_get_edge _ _ _ e H), (smerge_get_edge _ _ _ e HD'), E2. reflexivity.
Qed.

Lemma merge_from_None As : fold_left (fun acc A => match acc with Some C => smerge C A | None => None end) As None = None.
Proof. induction As; simpl; auto. Qed.

Lemma merge_from_cons C A As :
  merge_from C (A :: As) = match smerge C A with Some C1 => merge_from C1 As | None => None end.
Proof. unfold merge_from; simpl. destruct (smerge C A); auto. apply merge_from_None. Qed.

Lemma merge_from_eqv As : forall C C' D,
  Forall wf_adm As -> eqv C C' -> merge_from C As = Some D ->
  exists D', merge_from C' As = Some D' /\ eqv D D'.
Proof.
  induction As as [|A As IH]; intros C C' D WF E H.
  - unfold merge_from in *; simpl in *. inversion H; subst. eauto.
  - rewrite merge_from_cons in *. inversion WF; subst.
    destruct (smerge C A) as [C1|] eqn:S; [|discriminate].
    destruct (smerge_eqv _ _ _ _ H2 E S) as (C1' & -> & E1). eauto.
Qed.

(* ---------- two merges commute ---------- *)
(* a node id / connection found in both models is the same element in both *)
Definition compatible (A B : adm) : Prop :=
  (forall k a b, getn k (adm_nodes A) = Some a -> getn k (adm_nodes B) = Some b ->
                 a_cls a = a_cls b /\ a_oth a = a_oth b) /\
  (forall e d d', gete e (adm_edges A) = Some d -> gete e (adm_edges B) = Some d' -> d = d').

Lemma join_d_some g c a : is_some (join_d g c a) = is_some c || is_some a.
Proof. destruct c, a; reflexivity. Qed.

Lemma clash_upd g a c b :
  clash (upd g a c) b = false <-> (clash c b = false /\
     (is_some (a_ld a) && is_some (a_ld b) = false) /\ (is_some (a_cd a) && is_some (a_cd b) = false)).
Proof.
  unfold clash, upd; simpl. rewrite !join_d_some.
  destruct (is_some (c_ld c)), (is_some (c_cd c)), (is_some (a_ld a)), (is_some (a_cd a)),
           (is_some (a_ld b)), (is_some (a_cd b)); simpl; intuition congruence.
Qed.

Lemma clash_stamp g a b :
  clash (stamp g a) b = false <->
     ((is_some (a_ld a) && is_some (a_ld b) = false) /\ (is_some (a_cd a) && is_some (a_cd b) = false)).
Proof.
  unfold clash, stamp; simpl.
  destruct (a_ld a), (a_cd a), (a_ld b), (a_cd b); simpl; intuition congruence.
Qed.

Lemma join_d_swap g1 g2 c a b :
  is_some a && is_some b = false ->
  join_d g2 (join_d g1 c a) b = join_d g1 (join_d g2 c b) a.
Proof. destruct c, a, b; simpl; auto; discriminate. Qed.

Lemma smerge_swap C A B C1 C2 :
  wf_adm A -> wf_adm B -> compatible A B ->
  smerge C A = Some C1 -> smerge C1 B = Some C2 ->
  exists C1' C2', smerge C B = Some C1' /\ smerge C1' A = Some C2' /\ eqv C2 C2'.
Proof.
  intros WA WB [CN CE] H1 H2.
  pose proof (smerge_Some _ _ _ H1) as (F1 & _). pose proof (smerge_Some _ _ _ H2) as (F2 & _).
  rewrite conflict_false in F1, F2; auto.
  (* what the second refusal test saw *)
  assert (forall k b, getn k (adm_nodes B) = Some b ->
            match getn k (nodes C), getn k (adm_nodes A) with
            | Some c, Some a => clash (upd (adm_id A) a c) b = false
            | Some c, None => clash c b = false
            | None, Some a => clash (stamp (adm_id A) a) b = false
            | None, None => True end) as F2'.
  { intros k b Hb. specialize (F2 k b). rewrite (smerge_get_node _ _ _ k H1) in F2.
    destruct (getn k (nodes C)), (getn k (adm_nodes A)); auto. }
  assert (conflict C B = false) as G1.
  { apply conflict_false; auto. intros k b c Hb Hc. specialize (F2' k b Hb). rewrite Hc in F2'.
    destruct (getn k (adm_nodes A)); auto. apply clash_upd in F2'. tauto. }
  destruct (smerge_defined _ _ G1) as [C1' H1'].
  assert (conflict C1' A = false) as G2.
  { apply conflict_false; auto. intros k a c1 Ha Hc1.
    rewrite (smerge_get_node _ _ _ k H1') in Hc1.
    destruct (getn k (nodes C)) as [c|] eqn:Hc, (getn k (adm_nodes B)) as [b|] eqn:Hb;
      inversion Hc1; subst; clear Hc1.
    - specialize (F2' k b Hb). rewrite Hc, Ha in F2'. apply clash_upd in F2' as (X & Y & Z).
      apply clash_upd. split; [eapply F1; eauto|]. rewrite andb_comm in Y, Z. auto.
    - eapply F1; eauto.
    - specialize (F2' k b Hb). rewrite Hc, Ha in F2'. apply clash_stamp in F2' as (Y & Z).
      apply clash_stamp. rewrite andb_comm in Y, Z. auto. }
  destruct (smerge_defined _ _ G2) as [C2' H2'].
  exists C1', C2'. repeat split; auto.
  - intro k.
    rewrite (smerge_get_node _ _ _ k H2), (smerge_get_node _ _ _ k H1),
            (smerge_get_node _ _ _ k H2'), (smerge_get_node _ _ _ k H1').
    destruct (getn k (nodes C)) as [c|] eqn:Hc, (getn k (adm_nodes A)) as [a|] eqn:Ha,
             (getn k (adm_nodes B)) as [b|] eqn:Hb; simpl; auto using eqv_node_refl.
    + specialize (F2' k b Hb). rewrite Hc, Ha in F2'. apply clash_upd in F2' as (X & Y & Z).
      unfold eqv_node, upd; simpl. repeat split; auto using join_d_swap;
      rewrite !in_app_iff; simpl; tauto.
    + specialize (F2' k b Hb). rewrite Hc, Ha in F2'. apply clash_stamp in F2' as (Y & Z).
      destruct (CN k a b Ha Hb) as [Q1 Q2].
      unfold eqv_node, upd, stamp; simpl. repeat split; auto.
      * simpl; tauto.
      * simpl; tauto.
      * destruct (a_ld a), (a_ld b); simpl in *; auto; discriminate.
      * destruct (a_cd a), (a_cd b); simpl in *; auto; discriminate.
  - intro e.
    rewrite (smerge_get_edge _ _ _ e H2), (smerge_get_edge _ _ _ e H1),
            (smerge_get_edge _ _ _ e H2'), (smerge_get_edge _ _ _ e H1').
    destruct (gete e (edges C)) as [d|], (gete e (adm_edges A)) as [da|] eqn:Ea,
             (gete e (adm_edges B)) as [db|] eqn:Eb; auto.
    rewrite (CE e da db Ea Eb). reflexivity.
Qed.

(* ---------- order independence ---------- *)
Definition pairwise_compatible (As : list adm) : Prop :=
  NoDup (map adm_id As) /\
  forall A B, In A As -> In B As -> adm_id A <> adm_id B -> compatible A B.

Lemma pairwise_perm As As' : Permutation As As' -> pairwise_compatible As -> pairwise_compatible As'.
Proof.
  intros P [ND H]. split.
  - eapply Permutation_NoDup; [apply Permutation_map; exact P | exact ND].
  - intros A B HA HB. apply H; apply (Permutation_in _ (Permutation_sym P)); assumption.
Qed.

Lemma pairwise_tail A As : pairwise_compatible (A :: As) -> pairwise_compatible As.
Proof. intros [ND H]. split; [inversion ND; auto | intros; apply H; simpl; auto]. Qed.

Lemma merge_from_perm As As' :
  Permutation As As' ->
  forall C D, Forall wf_adm As -> pairwise_compatible As -> merge_from C As = Some D ->
  exists D', merge_from C As' = Some D' /\ eqv D D'.
Proof.
  induction 1 as [| x l l' P IH | x y l | l l' l'' P1 IH1 P2 IH2]; intros C D WF PC H.
  - exists D; split; auto using eqv_refl.
  - rewrite merge_from_cons in *. destruct (smerge C x) as [C1|]; [|discriminate].
    inversion WF; subst. eapply IH; eauto using pairwise_tail.
  - rewrite merge_from_cons in H.
    destruct (smerge C y) as [C1|] eqn:S1; [|discriminate].
    rewrite merge_from_cons in H.
    destruct (smerge C1 x) as [C2|] eqn:S2; [|discriminate].
    inversion WF as [|? ? Wy WF']; subst. inversion WF' as [|? ? Wx WF'']; subst.
    assert (compatible y x) as CP.
    { destruct PC as [ND HC]. apply HC; simpl; auto.
      simpl in ND. inversion ND; subst. intro E. apply H2. simpl. auto. }
    destruct (smerge_swap _ _ _ _ _ Wy Wx CP S1 S2) as (C1' & C2' & S1' & S2' & E).
    rewrite merge_from_cons, S1', merge_from_cons, S2'.
    eapply merge_from_eqv; eauto.
  - destruct (IH1 C D WF PC H) as (D1 & H1 & E1).
    assert (Forall wf_adm l') as WF'.
    { rewrite Forall_forall in *. intros A HA. apply WF. apply (Permutation_in _ (Permutation_sym P1)); assumption. }
    destruct (IH2 C D1 WF' (pairwise_perm _ _ P1 PC) H1) as (D2 & H2 & E2).
    exists D2; split; eauto using eqv_trans.
Qed.

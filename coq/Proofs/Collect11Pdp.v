(* C11: transform_to_pdp_request routes every collected attribute to exactly its category. *)
From Coq Require Import List ZArith NArith Bool String Permutation Lia.
From FIM Require Import Base.Str Gen.CollectGen Model.Collect11 Model.Collect11Spec Proofs.Collect11Tables Proofs.Collect11Attrs.
Import ListNotations.

Definition contrib (c : N) (kv : N * list aval) : list pdp_attr :=
  match lookupN (fst kv) attr_table with
  | Some (dt, cat) => if N.eqb c cat then [mkPA (fst kv) dt (snd kv)] else []
  | None => []
  end.

Lemma route_map (acc : N -> list pdp_attr) cat a cs :
  route (map (fun c => (c, acc c)) cs) cat a = map (fun c => (c, acc c ++ if N.eqb c cat then [a] else [])) cs.
Proof.
  unfold route. rewrite map_map. apply map_ext. intro c. simpl.
  destruct (N.eqb c cat); [reflexivity | rewrite app_nil_r; reflexivity].
Qed.

Lemma pdp_step_ok cs kv :
  pdp_step (Ok cs) kv = match lookupN (fst kv) attr_table with
                        | None => Err KeyError
                        | Some (dt, cat) => Ok (route cs cat (mkPA (fst kv) dt (snd kv)))
                        end.
Proof. reflexivity. Qed.

Lemma to_pdp_gen cs m : forall acc,
  (forall kv, In kv m -> lookupN (fst kv) attr_table <> None) ->
  fold_left pdp_step m (Ok (map (fun c => (c, acc c)) cs))
  = Ok (map (fun c => (c, acc c ++ flat_map (contrib c) m)) cs).
Proof.
  induction m as [|kv r IH]; intros acc H; cbn [fold_left flat_map].
  - f_equal. apply map_ext. intro c. rewrite app_nil_r. reflexivity.
  - assert (Hkv : lookupN (fst kv) attr_table <> None) by (apply H; left; reflexivity).
    rewrite pdp_step_ok.
    destruct (lookupN (fst kv) attr_table) as [[dt cat]|] eqn:E; [|congruence].
    rewrite route_map.
    etransitivity.
    { apply (IH (fun c => acc c ++ (if N.eqb c cat then [mkPA (fst kv) dt (snd kv)] else []))).
      intros kv' H'. apply H. right. exact H'. }
    cbv beta. f_equal. apply map_ext. intro c. unfold contrib at 2. rewrite E, <- app_assoc. reflexivity.
Qed.

Definition keys_in_table (m : attrs) : Prop := forall k, In k (keys m) -> lookupN k attr_table <> None.

Theorem pdp_closed m : keys_in_table m ->
  to_pdp m = Ok (map (fun c => (c, flat_map (contrib c) m)) pdp_cats).
Proof.
  intro H. unfold to_pdp.
  rewrite (to_pdp_gen pdp_cats m (fun _ => [])); [reflexivity|].
  intros kv Hkv. apply H. unfold keys. apply in_map. exact Hkv.
Qed.

Lemma flat_map_all_nil {A B} (g : A -> list B) l : (forall x, In x l -> g x = []) -> flat_map g l = [].
Proof.
  induction l as [|x r IH]; simpl; intro H; [reflexivity|].
  rewrite H by (left; reflexivity). apply IH. intros y Hy. apply H. right. exact Hy.
Qed.

Lemma attrs_of_cat_closed (g : N -> list pdp_attr) c cs :
  NoDup cs -> In c cs -> attrs_of_cat c (map (fun c => (c, g c)) cs) = g c.
Proof.
  intros Hnd Hc. unfold attrs_of_cat.
  induction cs as [|c0 r IH]; [destruct Hc|]. simpl.
  inversion Hnd; subst. destruct Hc as [Hc|Hc].
  - subst c0. rewrite N.eqb_refl.
    rewrite flat_map_all_nil; [apply app_nil_r|].
    intros e He. apply in_map_iff in He as [c' [E Hc']]. subst e. simpl.
    destruct (N.eqb c' c) eqn:E; [apply N.eqb_eq in E; subst; tauto | reflexivity].
  - destruct (N.eqb c0 c) eqn:E; [apply N.eqb_eq in E; subst; tauto|]. simpl. apply IH; assumption.
Qed.

Lemma attrs_of_cat_outside (g : N -> list pdp_attr) c cs :
  ~ In c cs -> attrs_of_cat c (map (fun c => (c, g c)) cs) = [].
Proof.
  intro H. unfold attrs_of_cat. apply flat_map_all_nil.
  intros e He. apply in_map_iff in He as [c' [E Hc']]. subst e. simpl.
  destruct (N.eqb c' c) eqn:E; [apply N.eqb_eq in E; subst; tauto | reflexivity].
Qed.

(* every collected attribute lands in its category, with its type and its whole value list *)
Theorem pdp_routing m p k l dt cat :
  keys_in_table m -> to_pdp m = Ok p -> In (k, l) m -> lookupN k attr_table = Some (dt, cat) ->
  In cat pdp_cats -> In (mkPA k dt l) (attrs_of_cat cat p).
Proof.
  intros Hk Hp Hin Hl Hc. rewrite (pdp_closed m Hk) in Hp.
  assert (Ep : p = map (fun c => (c, flat_map (contrib c) m)) pdp_cats) by congruence. subst p.
  rewrite (attrs_of_cat_closed (fun c => flat_map (contrib c) m)) by (try apply nodupN_NoDup, pdp_cats_distinct; exact Hc).
  apply in_flat_map. exists (k, l). split; [exact Hin|].
  unfold contrib. cbn [fst snd]. rewrite Hl, N.eqb_refl. left. reflexivity.
Qed.

(* and nothing else is in the request: every attribute of category c comes from the mapping and c is its category *)
Theorem pdp_only m p c a :
  keys_in_table m -> to_pdp m = Ok p -> In a (attrs_of_cat c p) ->
  exists l dt, In (pa_id a, l) m /\ lookupN (pa_id a) attr_table = Some (dt, c) /\ a = mkPA (pa_id a) dt l /\ In c pdp_cats.
Proof.
  intros Hk Hp Ha. rewrite (pdp_closed m Hk) in Hp.
  assert (Ep : p = map (fun c => (c, flat_map (contrib c) m)) pdp_cats) by congruence. subst p.
  destruct (in_dec N.eq_dec c pdp_cats) as [Hc|Hc].
  - rewrite (attrs_of_cat_closed (fun c => flat_map (contrib c) m)) in Ha by (try apply nodupN_NoDup, pdp_cats_distinct; exact Hc).
    apply in_flat_map in Ha as [[k l] [Hin Hc']]. unfold contrib in Hc'. cbn [fst snd] in Hc'.
    destruct (lookupN k attr_table) as [[dt cat]|] eqn:E; [|destruct Hc'].
    destruct (N.eqb c cat) eqn:Ec; [|destruct Hc']. apply N.eqb_eq in Ec. subst cat.
    destruct Hc' as [Hc'|[]]. subst a. cbn [pa_id]. exists l, dt. repeat split; assumption.
  - rewrite (attrs_of_cat_outside (fun c => flat_map (contrib c) m)) in Ha by exact Hc. destruct Ha.
Qed.

Theorem pdp_categories m p : keys_in_table m -> to_pdp m = Ok p -> map fst p = pdp_cats.
Proof.
  intros Hk Hp. rewrite (pdp_closed m Hk) in Hp.
  assert (Ep : p = map (fun c => (c, flat_map (contrib c) m)) pdp_cats) by congruence. subst p.
  rewrite map_map. cbn [fst]. apply map_id.
Qed.

(* ------------------------------------------------------------------ the keys any run can produce *)
Definition allowed_keys : list N := all_model_keys ++ map snd nstype_lut.

Definition Inv (m : attrs) : Prop := NoDup (keys m) /\ forall k, In k (keys m) -> In k allowed_keys.

Lemma keys_upd_shape k f m : keys (upd k f m) = if memN k (keys m) then keys m else keys m ++ [k].
Proof.
  unfold keys. induction m as [|[k0 l] r IH]; simpl; [reflexivity|].
  destruct (N.eqb k k0) eqn:E; simpl; [reflexivity|]. rewrite IH.
  destruct (memN k (map fst r)); reflexivity.
Qed.

Lemma Inv_upd k f m : Inv m -> In k allowed_keys -> Inv (upd k f m).
Proof.
  intros [Hn Hs] Hk. split.
  - rewrite keys_upd_shape. destruct (memN k (keys m)) eqn:E; [exact Hn|].
    apply NoDup_snoc; [exact Hn | apply memN_false; exact E].
  - intros k0 H0. apply keys_upd in H0 as [H0|H0]; [subst; exact Hk | exact (Hs k0 H0)].
Qed.

Ltac allowed := apply memN_In; vm_compute; reflexivity.

Lemma Inv_init : Inv init_attrs.
Proof.
  split; [simpl; constructor; [tauto | constructor]|].
  intros k [Hk|[]]. subst k. allowed.
Qed.

Lemma Inv_node m n : Inv m -> Inv (collect_node m n).
Proof.
  intro H. unfold collect_node.
  assert (H1 : Inv (if N.eqb (n_kind n) NT_Switch then dd_set A_RESOURCE_TYPE [AS (S"switch-p4")] m else m)).
  { destruct (N.eqb (n_kind n) NT_Switch); [apply Inv_upd; [exact H | allowed] | exact H]. }
  set (m1 := if N.eqb (n_kind n) NT_Switch then _ else _) in *.
  assert (H2 : Inv (match n_caps n with
                    | Some (c, r, d) => dd_append A_RESOURCE_DISK (AI d) (dd_append A_RESOURCE_RAM (AI r) (dd_append A_RESOURCE_CPU (AI c) m1))
                    | None => m1 end)).
  { destruct (n_caps n) as [[[c r] d]|]; [|exact H1]. repeat (apply Inv_upd; [|allowed]). exact H1. }
  set (m2 := match n_caps n with Some _ => _ | None => _ end) in *.
  assert (H3 : Inv (match n_site n with Some x => dd_append_unique A_RESOURCE_SITE (AS x) m2 | None => m2 end)).
  { destruct (n_site n); [apply Inv_upd; [exact H2 | allowed] | exact H2]. }
  set (m3 := match n_site n with Some _ => _ | None => _ end) in *.
  clearbody m3. clear - H3. revert m3 H3. induction (n_comps n) as [|c r IH]; simpl; intros m3 H3; [exact H3|].
  apply IH. apply Inv_upd; [exact H3 | allowed].
Qed.

Lemma Inv_svc ports m v : Inv m -> Inv (collect_svc_pure ports m v).
Proof.
  intro H. unfold collect_svc_pure.
  assert (H1 : Inv (collect_svc_base m v)).
  { unfold collect_svc_base.
    assert (H0 : Inv (match s_bw v with Some b => dd_append A_RESOURCE_BW (AI b) m | None => m end)).
    { destruct (s_bw v); [apply Inv_upd; [exact H | allowed] | exact H]. }
    destruct (s_site v); [apply Inv_upd; [exact H0 | allowed] | exact H0]. }
  destruct (is_special v); [|exact H1].
  destruct (lookupN (s_type v) nstype_lut) as [rn|] eqn:E; [|exact H1].
  destruct (in_slice_mirror ports v); [exact H1|].
  apply Inv_upd; [exact H1|]. unfold allowed_keys. apply in_app_iff. right.
  apply lookupN_In in E. apply (in_map snd) in E. exact E.
Qed.

Lemma Inv_topo m s : Inv m -> Inv (topo_pure m s).
Proof.
  intro H. unfold topo_pure.
  assert (H1 : Inv (fold_left collect_node (sl_nodes s) m)).
  { revert m H. induction (sl_nodes s) as [|n r IH]; simpl; intros m H; [exact H|]. apply IH, Inv_node, H. }
  assert (H2 : Inv (fold_left (collect_svc_pure (sl_ports s)) (sl_svcs s) (fold_left collect_node (sl_nodes s) m))).
  { revert H1. generalize (fold_left collect_node (sl_nodes s) m).
    induction (sl_svcs s) as [|v r IH]; simpl; intros m0 H0; [exact H0|]. apply IH, Inv_svc, H0. }
  revert H2. generalize (fold_left (collect_svc_pure (sl_ports s)) (sl_svcs s) (fold_left collect_node (sl_nodes s) m)).
  induction (sl_facs s) as [|f r IH]; simpl; intros m0 H0; [exact H0|].
  apply IH. apply Inv_upd; [exact H0 | allowed].
Qed.

Lemma Inv_arg k a m : Inv m -> In k allowed_keys -> Inv (apply_arg k a m).
Proof.
  intros H Hk. unfold apply_arg. destruct a as [|s|l]; [exact H | |].
  - destruct s; [exact H | apply Inv_upd; assumption].
  - destruct l; [exact H | apply Inv_upd; assumption].
Qed.

Lemma Inv_step m o m' : Inv m -> step m o = Ok m' -> Inv m'.
Proof.
  intros H Hs. destruct o; simpl in Hs.
  - rewrite collect_topo_ok in Hs. inversion Hs; subst. apply Inv_topo, H.
  - unfold collect_asm in Hs. rewrite collect_topo_ok in Hs. inversion Hs; subst. apply Inv_topo, H.
  - inversion Hs; subst. apply Inv_node, H.
  - rewrite collect_svc_ok in Hs. inversion Hs; subst. apply Inv_svc, H.
  - inversion Hs; subst. apply Inv_arg; [apply Inv_arg|]; try allowed.
    destruct sid as [|[|c s0]|]; try exact H. apply Inv_upd; [exact H | allowed].
  - inversion Hs; subst. destruct a as [|[|c s0]|]; try exact H. apply Inv_upd; [exact H | allowed].
  - inversion Hs; subst. apply Inv_arg; [apply Inv_arg|]; try allowed. exact H.
  - destruct ((days * 86400 + secs) * 1000000 + micros <=? 0)%Z; [discriminate|].
    inversion Hs; subst. apply Inv_upd; [exact H | allowed].
Qed.

Lemma Inv_run ops m : run ops = Ok m -> Inv m.
Proof.
  unfold run. assert (G : forall ops m0 m, Inv m0 -> fold_left (fun acc o => bind acc (fun m => step m o)) ops (Ok m0) = Ok m -> Inv m).
  { clear. induction ops as [|o r IH]; simpl; intros m0 m H0 H.
    - inversion H; subst. exact H0.
    - destruct (step m0 o) as [m1|e] eqn:E.
      + apply (IH m1 m); [eapply Inv_step; eassumption | exact H].
      + exfalso. clear - H. induction r as [|o' r' IH']; simpl in H; [discriminate | exact (IH' H)]. }
  apply G. apply Inv_init.
Qed.

Lemma Inv_in_table m : Inv m -> keys_in_table m.
Proof.
  intros [_ Hs] k Hk. destruct (table_covers k (Hs k Hk)) as (dt & c & E & _). rewrite E. discriminate.
Qed.

(* the request can always be produced (no KeyError) for whatever the collector accumulated *)
Theorem pdp_total ops m : run ops = Ok m -> exists p, to_pdp m = Ok p.
Proof.
  intro H. eexists. apply pdp_closed, Inv_in_table, (Inv_run ops), H.
Qed.

(* full routing statement for any run: each key of the mapping appears in the category of the table, with all values *)
Theorem pdp_routing_run ops m p k :
  run ops = Ok m -> to_pdp m = Ok p -> In k (keys m) ->
  exists dt cat, lookupN k attr_table = Some (dt, cat) /\ In cat pdp_cats /\ In (mkPA k dt (getk k m)) (attrs_of_cat cat p).
Proof.
  intros Hr Hp Hk. pose proof (Inv_run _ _ Hr) as [Hn Hs].
  destruct (table_covers k (Hs k Hk)) as (dt & c & E & Hc). exists dt, c. split; [exact E|]. split; [exact Hc|].
  eapply pdp_routing; try eassumption.
  - apply Inv_in_table. split; assumption.
  - clear - Hk Hn. unfold keys in *. induction m as [|[k0 l] r IH]; simpl in *; [destruct Hk|].
    inversion Hn; subst. destruct (N.eqb k k0) eqn:E.
    + apply N.eqb_eq in E. subst. left. reflexivity.
    + right. apply IH; [|assumption]. destruct Hk as [Hk|Hk]; [subst; rewrite N.eqb_refl in E; discriminate | exact Hk].
Qed.

(* each attribute id occurs once in the whole request *)
Lemma ids_of_cat c m : map pa_id (flat_map (contrib c) m)
  = filter (fun k => match lookupN k attr_table with Some (_, cat) => N.eqb c cat | None => false end) (keys m).
Proof.
  unfold keys. induction m as [|[k l] r IH]; cbn [map flat_map filter fst]; [reflexivity|].
  rewrite map_app, IH. unfold contrib. cbn [fst snd].
  destruct (lookupN k attr_table) as [[dt cat]|]; [|reflexivity].
  destruct (N.eqb c cat); reflexivity.
Qed.

Lemma NoDup_filter' {A} (f : A -> bool) l : NoDup l -> NoDup (filter f l).
Proof.
  induction 1; simpl; [constructor|]. destruct (f x); [|assumption].
  constructor; [|assumption]. intro Hi. apply filter_In in Hi. tauto.
Qed.

Lemma NoDup_app' {A} (a b : list A) : NoDup a -> NoDup b -> (forall x, In x a -> ~ In x b) -> NoDup (a ++ b).
Proof.
  induction a as [|x r IH]; simpl; intros Ha Hb Hd; [exact Hb|].
  inversion Ha; subst. constructor.
  - rewrite in_app_iff. intros [H|H]; [tauto | exact (Hd x (or_introl eq_refl) H)].
  - apply IH; [assumption | assumption | intros y Hy; apply Hd; right; exact Hy].
Qed.

Lemma ids_once_gen m cs : NoDup (keys m) -> NoDup cs ->
  NoDup (map pa_id (flat_map snd (map (fun c => (c, flat_map (contrib c) m)) cs))).
Proof.
  intros Hn Hc. induction cs as [|c r IH]; cbn [map flat_map snd]; [constructor|].
  inversion Hc as [|c0 r0 Hnotin Hr]; subst. rewrite map_app. apply NoDup_app'.
  - rewrite ids_of_cat. apply NoDup_filter', Hn.
  - apply IH. assumption.
  - intros k G1 G2. rewrite ids_of_cat in G1. apply filter_In in G1 as [_ H1].
    apply in_map_iff in G2 as [a [Ea Ha]]. apply in_flat_map in Ha as [e [He Ha]].
    apply in_map_iff in He as [c' [Ee Hc']]. subst e. cbn [snd] in Ha.
    assert (Hk' : In (pa_id a) (map pa_id (flat_map (contrib c') m))) by (apply in_map; exact Ha).
    rewrite ids_of_cat in Hk'. apply filter_In in Hk' as [_ Hk']. rewrite Ea in Hk'.
    destruct (lookupN k attr_table) as [[dt cat]|]; [|discriminate].
    apply N.eqb_eq in H1, Hk'. subst. tauto.
Qed.

Theorem pdp_ids_once m p : keys_in_table m -> NoDup (keys m) -> to_pdp m = Ok p ->
  NoDup (map pa_id (flat_map snd p)).
Proof.
  intros Hk Hn Hp. rewrite (pdp_closed m Hk) in Hp.
  assert (Ep : p = map (fun c => (c, flat_map (contrib c) m)) pdp_cats) by congruence. subst p.
  apply ids_once_gen; [exact Hn | apply nodupN_NoDup, pdp_cats_distinct].
Qed.

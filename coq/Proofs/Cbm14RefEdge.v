(* C14 - refinement, connections: the data of the connection joining two internal ids, and what the primitive
   store operations (append, filter, contracted_nodes) do to it. *)
From Coq Require Import List NArith Bool Lia.
From FIM Require Import Model.Cbm14Store Model.Cbm14Spec Model.Cbm14Abs Proofs.Cbm14Assoc Proofs.Cbm14Frame
     Proofs.Cbm14RefBase Proofs.Cbm14RefFold.
Import ListNotations.
Open Scope N_scope.

Definition edata_of (e : edge) : edata := (e_cls e, e_oth e).
(* the connection joining i and j (first in the list, as networkx has at most one) *)
Definition edat (es : list edge) (i j : N) : option edata := option_map edata_of (find (joins i j) es).
Definition other (v : N) (e : edge) : N := if e_a e =? v then e_b e else e_a e.
Definition incident (v : N) (e : edge) : bool := (e_a e =? v) || (e_b e =? v).
Definition pairb (u x i j : N) : bool := ((i =? u) && (j =? x)) || ((i =? x) && (j =? u)).

Lemma joins_sym i j e : joins i j e = joins j i e.
Proof. unfold joins. apply orb_comm. Qed.

Lemma edat_sym es i j : edat es i j = edat es j i.
Proof. unfold edat. f_equal. induction es as [|e r IH]; simpl; auto. rewrite joins_sym, IH. reflexivity. Qed.

Lemma edat_app a b i j : edat (a ++ b) i j = match edat a i j with Some d => Some d | None => edat b i j end.
Proof. unfold edat. induction a as [|e r IH]; simpl; auto. destruct (joins i j e); simpl; auto. Qed.

Lemma edat_filter_keep p es i j :
  (forall e, In e es -> joins i j e = true -> p e = true) -> edat (filter p es) i j = edat es i j.
Proof.
  unfold edat. induction es as [|e r IH]; simpl; auto. intro H.
  destruct (joins i j e) eqn:J.
  - rewrite (H e); simpl; auto. rewrite J. reflexivity.
  - destruct (p e); simpl; [rewrite J|]; apply IH; intros; apply H; simpl; auto.
Qed.

Lemma edat_filter_drop p es i j :
  (forall e, In e es -> joins i j e = true -> p e = false) -> edat (filter p es) i j = None.
Proof.
  unfold edat. induction es as [|e r IH]; simpl; auto. intro H.
  destruct (p e) eqn:P; simpl.
  - destruct (joins i j e) eqn:J; [rewrite (H e) in P; simpl; auto; discriminate|].
    apply IH; intros; apply H; simpl; auto.
  - apply IH; intros; apply H; simpl; auto.
Qed.

Lemma edat_map f es i j :
  (forall e, e_a (f e) = e_a e /\ e_b (f e) = e_b e /\ edata_of (f e) = edata_of e) ->
  edat (map f es) i j = edat es i j.
Proof.
  intro H. unfold edat. induction es as [|e r IH]; simpl; auto.
  destruct (H e) as (A & B' & D). unfold joins at 1. rewrite A, B'. fold (joins i j e).
  destruct (joins i j e); simpl; [rewrite D; reflexivity | exact IH].
Qed.

Lemma edat_none_iff es i j : edat es i j = None <-> has_edge i j es = false.
Proof.
  unfold edat, has_edge. induction es as [|e r IH]; simpl; [tauto|].
  destruct (joins i j e); simpl; [split; discriminate | exact IH].
Qed.

Lemma joins_pairb u x e : joins u x (mkEdge u x (e_cls e) (e_oth e) (e_con e)) = true.
Proof. unfold joins; simpl. rewrite !N.eqb_refl. reflexivity. Qed.

Lemma joins_mk i j u x c o f : joins i j (mkEdge u x c o f) = pairb u x i j.
Proof.
  unfold joins, pairb; simpl. rewrite (N.eqb_sym u i), (N.eqb_sym x j), (N.eqb_sym u j), (N.eqb_sym x i).
  rewrite (andb_comm (j =? u) (i =? x)). reflexivity.
Qed.

Lemma pairb_joins u x i j e : pairb u x i j = true -> joins i j e = joins u x e.
Proof.
  unfold pairb. rewrite orb_true_iff, !andb_true_iff, !N.eqb_eq. intros [[-> ->]|[-> ->]]; [reflexivity|apply joins_sym].
Qed.

(* re-attaching one connection of v to u: "insert at {u, x} unless a connection is already there" *)
Lemma reattach_edat u v es e i j :
  other v e <> v ->
  let x := other v e in
  edat (reattach u v es e) i j =
  if pairb u x i j then match edat es u x with Some d => Some d | None => Some (edata_of e) end
  else edat es i j.
Proof.
  intros NV x. unfold reattach. fold (other v e). fold x.
  assert ((if x =? v then u else x) = x) as -> by (apply N.eqb_neq in NV; fold x in NV; rewrite NV; reflexivity).
  destruct (has_edge u x es) eqn:HE.
  - assert (edat (flag_edge u x es) i j = edat es i j) as ->.
    { unfold flag_edge. apply edat_map. intro e0. destruct (joins u x e0); simpl; auto. }
    destruct (pairb u x i j) eqn:P; auto.
    assert (edat es i j = edat es u x) as ->.
    { unfold edat. f_equal. clear HE. induction es as [|e0 r IH]; simpl; auto.
      rewrite (pairb_joins u x i j e0 P). destruct (joins u x e0); auto. }
    destruct (edat es u x) eqn:D; auto. apply edat_none_iff in D. congruence.
  - rewrite edat_app. destruct (pairb u x i j) eqn:P.
    + assert (edat es i j = edat es u x) as ->.
      { unfold edat. f_equal. clear HE. induction es as [|e0 r IH]; simpl; auto.
        rewrite (pairb_joins u x i j e0 P). destruct (joins u x e0); auto. }
      apply edat_none_iff in HE. rewrite HE. unfold edat; simpl. rewrite joins_mk, P. reflexivity.
    + destruct (edat es i j); auto. unfold edat; simpl. rewrite joins_mk, P. reflexivity.
Qed.

(* the first connection of the list ev whose other endpoint (seen from v) is x *)
Definition pick (v x : N) (ev : list edge) : option edata :=
  option_map edata_of (find (fun e => other v e =? x) ev).

Lemma fold_reattach_edat u v : forall ev es i j,
  (forall e, In e ev -> other v e <> v /\ other v e <> u) ->
  edat (fold_left (reattach u v) ev es) i j =
  match edat es i j with
  | Some d => Some d
  | None => if i =? u then pick v j ev else if j =? u then pick v i ev else None
  end.
Proof.
  induction ev as [|e r IH]; intros es i j H; simpl.
  - destruct (edat es i j); auto. unfold pick; simpl. destruct (i =? u); auto. destruct (j =? u); auto.
  - destruct (H e (or_introl eq_refl)) as [NV NU].
    rewrite IH; [|intros; apply H; simpl; auto].
    rewrite (reattach_edat u v es e i j NV). cbv zeta.
    unfold pick; simpl.
    destruct (pairb u (other v e) i j) eqn:P.
    + unfold pairb in P. apply orb_true_iff in P. rewrite !andb_true_iff, !N.eqb_eq in P.
      destruct P as [[-> ->]|[-> ->]].
      * rewrite !N.eqb_refl. simpl. destruct (edat es u (other v e)); reflexivity.
      * assert (other v e =? u = false) as -> by (apply N.eqb_neq; auto). rewrite !N.eqb_refl. simpl.
        rewrite (edat_sym es (other v e) u). destruct (edat es u (other v e)); reflexivity.
    + destruct (edat es i j); auto.
      unfold pairb in P. apply orb_false_iff in P as [P1 P2].
      destruct (i =? u) eqn:Iu.
      * simpl in P1. rewrite N.eqb_sym in P1. rewrite P1. reflexivity.
      * destruct (j =? u) eqn:Ju; auto. rewrite andb_true_r in P2. rewrite N.eqb_sym in P2. rewrite P2. reflexivity.
Qed.

Lemma find_filter_agree {A} (inc p1 p2 : A -> bool) l :
  (forall e, p2 e = inc e && p1 e) -> find p1 (filter inc l) = find p2 l.
Proof.
  intro H. induction l as [|e r IH]; simpl; auto. rewrite (H e).
  destruct (inc e); simpl; [destruct (p1 e); auto | exact IH].
Qed.

Lemma joins_other v x e : x <> v -> joins v x e = incident v e && (other v e =? x).
Proof.
  intro NX. unfold joins, incident, other.
  destruct (N.eqb_spec (e_a e) v) as [A|A], (N.eqb_spec (e_b e) v) as [B|B],
           (N.eqb_spec (e_a e) x) as [C|C], (N.eqb_spec (e_b e) x) as [D|D];
    simpl; try reflexivity; try congruence.
Qed.

Lemma pick_incident v x es : x <> v ->
  pick v x (filter (fun e => (e_a e =? v) || (e_b e =? v)) es) = edat es v x.
Proof.
  intro NX. unfold pick, edat. f_equal. apply (find_filter_agree (incident v)). intro e. apply joins_other. exact NX.
Qed.

Lemma edat_some_of_in es a b e : In e es -> joins a b e = true -> edat es a b <> None.
Proof.
  intros Hin J. unfold edat. destruct (find (joins a b) es) eqn:F; simpl; [discriminate|].
  apply (find_none _ _ F) in Hin. congruence.
Qed.

Lemma incident_other_joins v e : incident v e = true -> joins v (other v e) e = true.
Proof.
  unfold incident, other, joins.
  destruct (N.eqb_spec (e_a e) v) as [A|A], (N.eqb_spec (e_b e) v) as [B|B]; simpl; intro H; try discriminate;
    rewrite ?N.eqb_refl, ?A, ?B, ?N.eqb_refl; simpl; auto using orb_true_r.
Qed.

Lemma joins_not_incident i j v e : joins i j e = true -> i <> v -> j <> v -> incident v e = false.
Proof.
  unfold joins, incident. intros H NI NJ.
  apply orb_true_iff in H. rewrite !andb_true_iff, !N.eqb_eq in H.
  destruct H as [[A B]|[A B]]; rewrite A, B; apply orb_false_iff; split; apply N.eqb_neq; auto.
Qed.

Lemma joins_incident_l v j e : joins v j e = true -> incident v e = true.
Proof.
  unfold joins, incident. intro H. apply orb_true_iff in H. rewrite !andb_true_iff, !N.eqb_eq in H.
  destruct H as [[A B]|[A B]]; [rewrite A | rewrite B]; rewrite N.eqb_refl; auto. apply orb_true_r.
Qed.

(* what contracted_nodes(u, v) does to the connection data *)
Lemma contract_edat u v st i j :
  u <> v -> edat (s_edges st) v v = None -> edat (s_edges st) u v = None ->
  edat (s_edges (contract u v st)) i j =
  if (i =? v) || (j =? v) then None
  else match edat (s_edges st) i j with
       | Some d => Some d
       | None => if i =? u then edat (s_edges st) v j else if j =? u then edat (s_edges st) v i else None
       end.
Proof.
  intros NE SV UV. set (es := s_edges st) in *.
  set (ev := filter (fun e => (e_a e =? v) || (e_b e =? v)) es).
  set (es1 := filter (fun e => negb (e_a e =? v) && negb (e_b e =? v)) es).
  assert (s_edges (contract u v st) = pop_contraction u (fold_left (reattach u v) ev es1)) as -> by reflexivity.
  assert (edat (pop_contraction u (fold_left (reattach u v) ev es1)) i j = edat (fold_left (reattach u v) ev es1) i j) as ->.
  { unfold pop_contraction. apply edat_map. intro e. destruct ((e_a e =? u) || (e_b e =? u)); simpl; auto. }
  assert (forall e, In e ev -> other v e <> v /\ other v e <> u) as PRE.
  { intros e He. unfold ev in He. apply filter_In in He as [He Inc]. fold (incident v e) in Inc.
    pose proof (incident_other_joins v e Inc) as J. split; intro X; rewrite X in J.
    - apply (edat_some_of_in es v v e He J). exact SV.
    - rewrite joins_sym in J. apply (edat_some_of_in es u v e He J). exact UV. }
  rewrite (fold_reattach_edat u v ev es1 i j PRE).
  assert (forall e, negb (e_a e =? v) && negb (e_b e =? v) = negb (incident v e)) as NI.
  { intro e. unfold incident. rewrite negb_orb. reflexivity. }
  assert (pick v v ev = None) as PVV.
  { unfold pick. destruct (find (fun e => other v e =? v) ev) eqn:F; auto.
    apply find_some in F as [F1 F2]. apply N.eqb_eq in F2. destruct (PRE e F1). contradiction. }
  destruct (N.eqb_spec i v) as [Iv|Iv]; [|destruct (N.eqb_spec j v) as [Jv|Jv]]; simpl.
  - subst i. assert (edat es1 v j = None) as ->.
    { apply edat_filter_drop. intros e _ J. rewrite NI. rewrite (joins_incident_l v j e J). reflexivity. }
    assert (v =? u = false) as -> by (apply N.eqb_neq; auto).
    destruct (j =? u); auto.
  - subst j. assert (edat es1 i v = None) as ->.
    { apply edat_filter_drop. intros e _ J. rewrite NI. rewrite joins_sym in J. rewrite (joins_incident_l v i e J). reflexivity. }
    assert (v =? u = false) as -> by (apply N.eqb_neq; auto).
    destruct (i =? u); auto.
  - assert (edat es1 i j = edat es i j) as ->.
    { apply edat_filter_keep. intros e _ J. rewrite NI. rewrite (joins_not_incident i j v e J Iv Jv). reflexivity. }
    destruct (edat es i j); auto.
    unfold ev. rewrite !pick_incident; auto.
Qed.

(* ---------- the abstraction of a graph's connections, read through the node lookup ---------- *)
Lemma nid_of_int_some g st i x :
  nid_of_int (of_gid g st) i = Some x -> exists n, In n (s_nodes st) /\ n_gid n = g /\ n_int n = i /\ n_nid n = x.
Proof.
  unfold nid_of_int. destruct (find (fun n => n_int n =? i) (of_gid g st)) as [n|] eqn:F; [|discriminate].
  intro H; inversion H; subst. apply find_some in F as [F1 F2]. apply N.eqb_eq in F2.
  unfold of_gid in F1. apply filter_In in F1 as [F1 G]. apply N.eqb_eq in G. exists n. auto.
Qed.

Lemma nid_of_int_at g st n :
  uniq (s_nodes st) -> In n (s_nodes st) -> n_gid n = g -> nid_of_int (of_gid g st) (n_int n) = Some (n_nid n).
Proof.
  intros U Hn G. unfold nid_of_int.
  destruct (find (fun m => n_int m =? n_int n) (of_gid g st)) as [m|] eqn:F.
  - apply find_some in F as [F1 F2]. apply N.eqb_eq in F2. unfold of_gid in F1. apply filter_In in F1 as [F1 _].
    assert (m = n) by (apply (Cbm14RefFold.uniq_inj (s_nodes st)); auto). subst. reflexivity.
  - exfalso. assert (In n (of_gid g st)) as X by (unfold of_gid; apply filter_In; split; auto; apply N.eqb_eq; auto).
    apply (find_none _ _ F) in X. rewrite N.eqb_refl in X. discriminate.
Qed.

Lemma minmax_eq x y a b :
  (N.min x y, N.max x y) = (N.min a b, N.max a b) <-> (x = a /\ y = b) \/ (x = b /\ y = a).
Proof.
  split.
  - intro H. injection H as H1 H2. lia.
  - intros [[-> ->]|[-> ->]]; auto. rewrite N.min_comm, N.max_comm. reflexivity.
Qed.

Lemma ekey_refl k : ekey_eqb k k = true.
Proof. apply ekey_eqb_eq. reflexivity. Qed.

Definition edge_abs (g : N) (st : store) (e : edge) : list (ekey * edata) :=
  match nid_of_int (of_gid g st) (e_a e), nid_of_int (of_gid g st) (e_b e) with
  | Some a, Some b => [((N.min a b, N.max a b), (e_cls e, e_oth e))]
  | _, _ => []
  end.

Lemma abs_edges_flat g st : abs_edges g st = flat_map (edge_abs g st) (s_edges st).
Proof. reflexivity. Qed.

Lemma gete_flat_map {A} (f : A -> list (ekey * edata)) (p : A -> bool) (d : A -> edata) k l :
  (forall e, gete k (f e) = if p e then Some (d e) else None) ->
  gete k (flat_map f l) = option_map d (find p l).
Proof.
  intro H. induction l as [|e r IH]; simpl; auto.
  unfold gete in *. rewrite (get_app ekey_eqb), H. destruct (p e); simpl; auto.
Qed.

Theorem abs_edges_get g st a b :
  uniq (s_nodes st) -> ukeys (s_nodes st) ->
  gete (N.min a b, N.max a b) (abs_edges g st) =
  match at_ g a (s_nodes st), at_ g b (s_nodes st) with
  | Some na, Some nb => edat (s_edges st) (n_int na) (n_int nb)
  | _, _ => None
  end.
Proof.
  intros U K. rewrite abs_edges_flat.
  (* a connection abstracts to this key iff it joins the two nodes *)
  assert (forall e x y, nid_of_int (of_gid g st) (e_a e) = Some x -> nid_of_int (of_gid g st) (e_b e) = Some y ->
            (N.min x y, N.max x y) = (N.min a b, N.max a b) ->
            exists na nb, at_ g a (s_nodes st) = Some na /\ at_ g b (s_nodes st) = Some nb /\
                          joins (n_int na) (n_int nb) e = true) as FWD.
  { intros e x y Hx Hy E.
    apply nid_of_int_some in Hx as (n1 & I1 & G1 & E1 & X1). apply nid_of_int_some in Hy as (n2 & I2 & G2 & E2 & X2).
    apply minmax_eq in E as [[-> ->]|[-> ->]].
    - exists n1, n2. split; [apply at_uniq; auto|]. split; [apply at_uniq; auto|].
      unfold joins. rewrite E1, E2, !N.eqb_refl. reflexivity.
    - exists n2, n1. split; [apply at_uniq; auto|]. split; [apply at_uniq; auto|].
      unfold joins. rewrite E1, E2, !N.eqb_refl. simpl. apply orb_true_r. }
  destruct (at_ g a (s_nodes st)) as [na|] eqn:Aa, (at_ g b (s_nodes st)) as [nb|] eqn:Ab.
  - unfold edat. apply (gete_flat_map (edge_abs g st) (joins (n_int na) (n_int nb)) edata_of). intro e.
    apply at_In in Aa as (Ia & Ga & Na). apply at_In in Ab as (Ib & Gb & Nb).
    destruct (joins (n_int na) (n_int nb) e) eqn:J.
    + unfold joins in J. apply orb_true_iff in J. rewrite !andb_true_iff, !N.eqb_eq in J.
      unfold edge_abs. destruct J as [[Ea Eb]|[Ea Eb]]; rewrite Ea, Eb,
        (nid_of_int_at g st na U Ia Ga), (nid_of_int_at g st nb U Ib Gb), Na, Nb.
      * unfold gete; simpl. rewrite ekey_refl. reflexivity.
      * unfold gete; simpl. rewrite N.min_comm, N.max_comm, ekey_refl. reflexivity.
    + unfold edge_abs.
      destruct (nid_of_int (of_gid g st) (e_a e)) as [x|] eqn:Hx; [|reflexivity].
      destruct (nid_of_int (of_gid g st) (e_b e)) as [y|] eqn:Hy; [|reflexivity].
      unfold gete; simpl. destruct (ekey_eqb (N.min a b, N.max a b) (N.min x y, N.max x y)) eqn:E; auto.
      apply ekey_eqb_eq in E. symmetry in E.
      destruct (FWD e x y Hx Hy E) as (na' & nb' & A1 & A2 & J').
      inversion A1; inversion A2; subst. congruence.
  - transitivity (option_map edata_of (find (fun _ : edge => false) (s_edges st))).
    + apply (gete_flat_map (edge_abs g st) (fun _ => false) edata_of). intro e. unfold edge_abs.
      destruct (nid_of_int (of_gid g st) (e_a e)) as [x|] eqn:Hx; [|reflexivity].
      destruct (nid_of_int (of_gid g st) (e_b e)) as [y|] eqn:Hy; [|reflexivity].
      unfold gete; simpl. destruct (ekey_eqb (N.min a b, N.max a b) (N.min x y, N.max x y)) eqn:E; auto.
      apply ekey_eqb_eq in E. symmetry in E. destruct (FWD e x y Hx Hy E) as (? & ? & ? & X & _). congruence.
    + induction (s_edges st); simpl; auto.
  - transitivity (option_map edata_of (find (fun _ : edge => false) (s_edges st))).
    + apply (gete_flat_map (edge_abs g st) (fun _ => false) edata_of). intro e. unfold edge_abs.
      destruct (nid_of_int (of_gid g st) (e_a e)) as [x|] eqn:Hx; [|reflexivity].
      destruct (nid_of_int (of_gid g st) (e_b e)) as [y|] eqn:Hy; [|reflexivity].
      unfold gete; simpl. destruct (ekey_eqb (N.min a b, N.max a b) (N.min x y, N.max x y)) eqn:E; auto.
      apply ekey_eqb_eq in E. symmetry in E. destruct (FWD e x y Hx Hy E) as (? & ? & X & _ & _). congruence.
    + induction (s_edges st); simpl; auto.
  - transitivity (option_map edata_of (find (fun _ : edge => false) (s_edges st))).
    + apply (gete_flat_map (edge_abs g st) (fun _ => false) edata_of). intro e. unfold edge_abs.
      destruct (nid_of_int (of_gid g st) (e_a e)) as [x|] eqn:Hx; [|reflexivity].
      destruct (nid_of_int (of_gid g st) (e_b e)) as [y|] eqn:Hy; [|reflexivity].
      unfold gete; simpl. destruct (ekey_eqb (N.min a b, N.max a b) (N.min x y, N.max x y)) eqn:E; auto.
      apply ekey_eqb_eq in E. symmetry in E. destruct (FWD e x y Hx Hy E) as (? & ? & X & _ & _). congruence.
    + induction (s_edges st); simpl; auto.
Qed.

(* keys are ordered pairs *)
Lemma abs_edges_norm g st k d : In (k, d) (abs_edges g st) -> fst k <= snd k.
Proof.
  rewrite abs_edges_flat. intro H. apply in_flat_map in H as (e & _ & H). unfold edge_abs in H.
  destruct (nid_of_int (of_gid g st) (e_a e)); [|destruct H].
  destruct (nid_of_int (of_gid g st) (e_b e)); [|destruct H].
  destruct H as [H|[]]. inversion H; subst. simpl. lia.
Qed.

Lemma abs_edges_unordered g st x y : y < x -> gete (x, y) (abs_edges g st) = None.
Proof.
  intro L. unfold gete. apply (get_None_notin ekey_eqb ekey_eqb_eq). intro H.
  apply in_map_iff in H as ([k d] & E & Hin). simpl in E. subst k. apply abs_edges_norm in Hin. simpl in Hin. lia.
Qed.

Lemma ordered_minmax x y : x <= y -> (x, y) = (N.min x y, N.max x y).
Proof. intro L. rewrite N.min_l, N.max_r; auto. Qed.

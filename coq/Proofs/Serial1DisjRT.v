(* C01 proofs for the second store flavour (Model/Serial1Disjoint.v, NetworkXGraphStorageDisjoint after fix
   74c0984): what the four entry points do to a serialized graph of this store - on a free graph id, on an id
   that already holds nodes (re-stamping entry points: skipped; direct entry points: REPLACED), and that no other
   graph is touched. *)
From Coq Require Import String.
From Coq Require Import List NArith ZArith Bool Lia.
From FIM Require Import Base.Str Model.Serial1Text Model.Serial1Graph Model.Serial1Json Model.Serial1Corr Model.Serial1Disjoint.
From FIM Require Import Proofs.Serial1Text Proofs.Serial1Doc Proofs.Serial1Store Proofs.Serial1Main.
Import ListNotations.
Open Scope N_scope.

Lemma dget_dset_same s gid g : dget (dset s gid g) gid = g.
Proof.
  induction s as [|[k g'] r IH]; simpl; [rewrite str_eqb_refl; reflexivity|].
  destruct (str_eqb k gid) eqn:E; simpl; rewrite E; [reflexivity|exact IH].
Qed.

Lemma dget_dset_other s gid g other : other <> gid -> dget (dset s gid g) other = dget s other.
Proof.
  intro NE. induction s as [|[k g'] r IH]; simpl.
  - destruct (str_eqb gid other) eqn:E; [apply str_eqb_eq in E; congruence|reflexivity].
  - destruct (str_eqb k gid) eqn:E; simpl.
    + apply str_eqb_eq in E. subst k. destruct (str_eqb gid other) eqn:E2; [apply str_eqb_eq in E2; congruence|reflexivity].
    + destruct (str_eqb k other); [reflexivity|exact IH].
Qed.

(* the copies this store files: ids always start at 1 *)
Definition d_copy_of (gid : str) (g : nxg) : nxg := stamp gid (relabelled 1 g).
Definition d_copy_direct (g : nxg) : nxg := relabelled 1 g.

Lemma d_content_copy gid g : NoDup (map fst (g_nodes g)) -> closed g ->
  content (d_copy_of gid g) = content (stamp gid g).
Proof. intros ND CL. unfold d_copy_of. rewrite !content_stamp, (content_relabelled _ g ND CL). reflexivity. Qed.

Lemma d_add_graph_free s gid g :
  nonempty (dget s gid) = false -> NoDup (map fst (g_nodes g)) -> closed g -> graph_ids_ok g = true ->
  d_add_graph s gid g = (dset s gid (d_copy_of gid g), ROk gid).
Proof.
  intros F ND CL IDS. unfold d_add_graph. rewrite F, (relabel_spec _ g ND CL).
  assert (IDS' : forallb (fun n => truthy (pget P_NodeID (snd n))) (g_nodes (relabelled 1 g)) = true).
  { unfold graph_ids_ok in IDS. rewrite <- IDS. apply (forallb_snd (fun ps => truthy (pget P_NodeID ps))).
    simpl. apply map_snd_zip_ids. }
  rewrite IDS'. reflexivity.
Qed.

Lemma d_add_graph_busy s gid g : nonempty (dget s gid) = true -> d_add_graph s gid g = (s, ROk gid).
Proof. intro B. unfold d_add_graph. rewrite B. reflexivity. Qed.

Lemma d_add_graph_direct_spec s gid g : NoDup (map fst (g_nodes g)) -> closed g ->
  d_add_graph_direct s gid g = (dset s gid (d_copy_direct g), ROk gid).
Proof. intros ND CL. unfold d_add_graph_direct. rewrite (relabel_spec _ g ND CL). reflexivity. Qed.

(* ---------- re-stamping entry points (import_graph_from_string / _from_file) ---------- *)
(* onto a graph id that holds no nodes: the copy is filed, nothing else changes *)
Theorem d_roundtrip_restamp_free f ep s gid gid' g :
  is_direct ep = false -> dget s gid = g -> g_nodes g <> [] ->
  fmt_ok f g = true -> graph_ids_ok g = true -> nonempty (dget s gid') = false ->
  exists t s',
    d_serialize_graph s gid f = Some (Some t)
    /\ d_import_via ep s t gid' = (s', ROk gid')
    /\ dget s' gid' = d_copy_of gid' g
    /\ content (dget s' gid') = content (restamp gid' g)
    /\ (forall other, other <> gid' -> dget s' other = dget s other).
Proof.
  intros D E NE OK IDS FR.
  destruct (ser_read f g OK) as (t & SE & RD).
  destruct (graph_shape_parts _ (fmt_ok_shape f g OK)) as [ND CL].
  exists t, (dset s gid' (d_copy_of gid' g)).
  split; [unfold d_serialize_graph; rewrite E, SE; reflexivity|]. split; [|split; [|split]].
  - unfold d_import_via. rewrite D. unfold file_trip, d_import_string. rewrite RD, (nonempty_b _ NE).
    apply d_add_graph_free; assumption.
  - apply dget_dset_same.
  - rewrite dget_dset_same. apply d_content_copy; assumption.
  - intros other NEQ. apply dget_dset_other, NEQ.
Qed.

(* onto a graph id that already holds nodes (in particular onto the source id itself): the call returns
   normally and the store is exactly as before - the text is NOT imported *)
Theorem d_roundtrip_restamp_busy f ep s gid gid' g :
  is_direct ep = false -> dget s gid = g -> g_nodes g <> [] -> fmt_ok f g = true ->
  nonempty (dget s gid') = true ->
  exists t, d_serialize_graph s gid f = Some (Some t) /\ d_import_via ep s t gid' = (s, ROk gid').
Proof.
  intros D E NE OK BUSY.
  destruct (ser_read f g OK) as (t & SE & RD).
  exists t. split; [unfold d_serialize_graph; rewrite E, SE; reflexivity|].
  unfold d_import_via. rewrite D. unfold file_trip, d_import_string. rewrite RD, (nonempty_b _ NE).
  apply d_add_graph_busy, BUSY.
Qed.

(* ---------- direct entry points (import_graph_from_string_direct / _from_file_direct) ---------- *)
(* the graph id is read from the text and whatever that id held is REPLACED by the copy *)
Theorem d_roundtrip_direct f ep s gid g :
  is_direct ep = true -> dget s gid = g -> g_nodes g <> [] -> fmt_ok f g = true ->
  (forall n, In n (g_nodes g) -> has_gid gid n = true) ->
  forall gid', exists t s',
    d_serialize_graph s gid f = Some (Some t)
    /\ d_import_via ep s t gid' = (s', ROk gid)
    /\ dget s' gid = d_copy_direct g
    /\ content (dget s' gid) = content g
    /\ (forall other, other <> gid -> dget s' other = dget s other).
Proof.
  intros D E NE OK HG gid'.
  destruct (ser_read f g OK) as (t & SE & RD).
  destruct (graph_shape_parts _ (fmt_ok_shape f g OK)) as [ND CL].
  exists t, (dset s gid (d_copy_direct g)).
  split; [unfold d_serialize_graph; rewrite E, SE; reflexivity|]. split; [|split; [|split]].
  - unfold d_import_via. rewrite D. unfold file_trip, d_import_string_direct.
    rewrite (get_graph_id_spec t _ _ RD NE HG), RD, (nonempty_b _ NE).
    apply d_add_graph_direct_spec; assumption.
  - apply dget_dset_same.
  - rewrite dget_dset_same. apply content_relabelled; assumption.
  - intros other NEQ. apply dget_dset_other, NEQ.
Qed.

(* a text that names a graph id other than the one it is filed under in this store (possible after a
   direct load): the direct import files the copy under the id the TEXT names and replaces that graph *)
Theorem d_direct_replaces f ep s src gid g :
  is_direct ep = true -> dget s src = g -> g_nodes g <> [] -> fmt_ok f g = true ->
  (forall n, In n (g_nodes g) -> has_gid gid n = true) ->
  forall gid', exists t s',
    d_serialize_graph s src f = Some (Some t)
    /\ d_import_via ep s t gid' = (s', ROk gid)
    /\ dget s' gid = d_copy_direct g
    /\ (forall other, other <> gid -> dget s' other = dget s other).
Proof.
  intros D E NE OK HG gid'.
  destruct (ser_read f g OK) as (t & SE & RD).
  destruct (graph_shape_parts _ (fmt_ok_shape f g OK)) as [ND CL].
  exists t, (dset s gid (d_copy_direct g)).
  split; [unfold d_serialize_graph; rewrite E, SE; reflexivity|]. split; [|split].
  - unfold d_import_via. rewrite D. unfold file_trip, d_import_string_direct.
    rewrite (get_graph_id_spec t _ _ RD NE HG), RD, (nonempty_b _ NE).
    apply d_add_graph_direct_spec; assumption.
  - apply dget_dset_same.
  - intros other NEQ. apply dget_dset_other, NEQ.
Qed.

(* the copies are again well formed: serializing them again denotes exactly the copy *)
Lemma d_copy_of_fmt_ok f gid g : gid_ok f gid = true -> fmt_ok f g = true -> fmt_ok f (d_copy_of gid g) = true.
Proof. exact (copy_of_fmt_ok f {| s_nodes := []; s_edges := []; s_next := 1 |} gid g). Qed.
Lemma d_copy_direct_fmt_ok f g : fmt_ok f g = true -> fmt_ok f (d_copy_direct g) = true.
Proof. exact (copy_direct_fmt_ok f {| s_nodes := []; s_edges := []; s_next := 1 |} g). Qed.

Theorem d_reserialize_restamp f gid' g : fmt_ok f g = true -> gid_ok f gid' = true ->
  exists t2, serialize f (d_copy_of gid' g) = Some t2 /\ text_graph t2 = Some (d_copy_of gid' g).
Proof. intros OK GO. apply ser_read, d_copy_of_fmt_ok; assumption. Qed.

Theorem d_reserialize_direct f g : fmt_ok f g = true ->
  exists t2, serialize f (d_copy_direct g) = Some t2 /\ text_graph t2 = Some (d_copy_direct g).
Proof. intros OK. apply ser_read, d_copy_direct_fmt_ok, OK. Qed.

(* an absent graph id serializes as the empty graph, whose text no entry point accepts *)
Theorem d_empty_text_refused f ep s gid gid' : dget s gid = empty_graph ->
  exists t, d_serialize_graph s gid f = Some (Some t) /\ d_import_via ep s t gid' = (s, RErrImport).
Proof.
  intro E. unfold d_serialize_graph. rewrite E.
  destruct f; [exists (TGraphML {| d_keys := []; d_nodes := []; d_edges := [] |})|exists (TJson {| j_nodes := []; j_links := [] |})];
    (split; [reflexivity|]); destruct ep; reflexivity.
Qed.

(* ---------- the boolean check run on every API-built snapshot implies every hypothesis of the theorems ---------- *)
Theorem api_check_domain tbl g : api_graph_ok tbl g = true ->
  fmt_ok GraphMLFmt g = true /\ fmt_ok JsonFmt g = true /\ graph_ids_ok g = true
  /\ names_ok tbl = true /\ graph_json_ok g = true /\ Serial1Json.graph_json_text_ok tbl g = true.
Proof.
  unfold api_graph_ok. rewrite !andb_true_iff. intros [[[[[W I] J] _] N] T].
  simpl. rewrite W, (graph_wf_shape g W), J. repeat split; assumption.
Qed.

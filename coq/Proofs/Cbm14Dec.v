(* C14 - the decidable checkers imply the propositional hypotheses; concrete witnesses. *)
From Coq Require Import List NArith Bool Lia Permutation.
From FIM Require Import Model.Cbm14Spec Proofs.Cbm14Assoc Proofs.Cbm14Merge Proofs.Cbm14Unmerge Proofs.Cbm14Inv
     Proofs.Cbm14Hist.
Import ListNotations.
Open Scope N_scope.

Lemma nodupb_sound {A} (eqb : A -> A -> bool) (eqb_eq : forall a b, eqb a b = true <-> a = b) l :
  nodupb eqb l = true -> NoDup l.
Proof.
  induction l as [|x r IH]; simpl; intro H; constructor.
  - apply andb_true_iff in H as [H _]. apply negb_true_iff in H. intro X.
    assert (existsb (eqb x) r = true); [|congruence].
    apply existsb_exists. exists x. split; auto. apply eqb_eq. reflexivity.
  - apply IH. apply andb_true_iff in H. tauto.
Qed.

Lemma wf_admb_sound A : wf_admb A = true -> wf_adm A.
Proof.
  unfold wf_admb, wf_adm. rewrite !andb_true_iff. intros [[H1 H2] H3]. repeat split.
  - apply (nodupb_sound N.eqb N.eqb_eq); auto.
  - apply (nodupb_sound ekey_eqb ekey_eqb_eq); auto.
  - apply in_map_iff in H as (kd & E & Hin). rewrite forallb_forall in H3. specialize (H3 kd Hin).
    subst. apply andb_true_iff in H3. tauto.
  - apply in_map_iff in H as (kd & E & Hin). rewrite forallb_forall in H3. specialize (H3 kd Hin).
    subst. apply andb_true_iff in H3. tauto.
Qed.

Lemma props_eqb_eq a : forall b, props_eqb a b = true -> a = b.
Proof.
  induction a as [|[x1 x2] a IH]; destruct b as [|[y1 y2] b]; simpl; try discriminate; auto.
  rewrite !andb_true_iff, !N.eqb_eq. intros [[E1 E2] E3]. subst. f_equal. auto.
Qed.

Lemma edata_eqb_eq a b : edata_eqb a b = true -> a = b.
Proof.
  destruct a, b; unfold edata_eqb; simpl. rewrite andb_true_iff, N.eqb_eq. intros [? H].
  apply props_eqb_eq in H. subst. reflexivity.
Qed.

Lemma compatibleb_sound A B : compatibleb A B = true -> compatible A B.
Proof.
  unfold compatibleb, compatible. rewrite andb_true_iff, !forallb_forall. intros [H1 H2]. split.
  - intros k a b Ha Hb. apply (get_Some_In N.eqb Neq) in Ha. specialize (H1 _ Ha). simpl in H1.
    rewrite Hb in H1. apply andb_true_iff in H1 as [X Y]. apply N.eqb_eq in X. apply props_eqb_eq in Y. auto.
  - intros e d d' Ha Hb. apply (get_Some_In ekey_eqb ekey_eqb_eq) in Ha. specialize (H2 _ Ha). simpl in H2.
    rewrite Hb in H2. apply edata_eqb_eq. exact H2.
Qed.

Lemma one_speakerb_sound A B : one_speakerb A B = true -> one_speaker A B.
Proof.
  unfold one_speakerb, one_speaker. rewrite forallb_forall. intros H k a b Ha Hb.
  apply (get_Some_In N.eqb Neq) in Ha. specialize (H _ Ha). simpl in H. rewrite Hb in H.
  apply andb_true_iff in H as [X Y]. apply negb_true_iff in X, Y. auto.
Qed.

Lemma consistentb_sound As : consistentb As = true -> consistent As.
Proof.
  unfold consistentb, consistent, pairwise_compatible. rewrite andb_true_iff, forallb_forall. intros [H1 H2].
  assert (forall A B, In A As -> In B As -> adm_id A <> adm_id B -> compatibleb A B && one_speakerb A B = true) as X.
  { intros A B HA HB NE. specialize (H2 A HA). rewrite forallb_forall in H2. specialize (H2 B HB).
    apply orb_true_iff in H2 as [E|E]; auto. apply N.eqb_eq in E. contradiction. }
  split; [split|].
  - apply (nodupb_sound N.eqb N.eqb_eq); auto.
  - intros A B HA HB NE. apply compatibleb_sound. specialize (X A B HA HB NE). apply andb_true_iff in X. tauto.
  - intros A B HA HB NE. apply one_speakerb_sound. specialize (X A B HA HB NE). apply andb_true_iff in X. tauto.
Qed.

Lemma Forall_wf_admb As : forallb wf_admb As = true -> Forall wf_adm As.
Proof. rewrite forallb_forall, Forall_forall. intros H A HA. apply wf_admb_sound. auto. Qed.

Lemma not_contributorb_sound g C : not_contributorb g C = true -> not_contributor g C.
Proof.
  unfold not_contributorb, not_contributor. rewrite forallb_forall. intros H k c Hc Hin.
  apply (get_Some_In N.eqb Neq) in Hc. specialize (H _ Hc). simpl in H. apply negb_true_iff in H.
  apply mem_In in Hin. congruence.
Qed.

Lemma no_new_inner_edgesb_sound C A : no_new_inner_edgesb C A = true -> no_new_inner_edges C A.
Proof.
  unfold no_new_inner_edgesb, no_new_inner_edges. rewrite forallb_forall. intros H e He H1 H2.
  apply hase_get in He as [d Hd]. apply (get_Some_In ekey_eqb ekey_eqb_eq) in Hd.
  specialize (H _ Hd). simpl in H. rewrite H1, H2 in H. exact H.
Qed.

Lemma merge_all_wf As C :
  forallb wf_admb As = true -> nodupb N.eqb (map adm_id As) = true -> merge_all As = Some C -> wf_cbm C.
Proof.
  intros W ND H. apply (Inv_wf_cbm As). apply family_inv; auto.
  - apply Forall_wf_admb; auto.
  - apply (nodupb_sound N.eqb N.eqb_eq); auto.
Qed.

(* ---------- concrete delegation models (node ids 10.., classes 1-3, delegation contents 7/8) ---------- *)
Definition pA (cls : N) (ld cd : option N) : anode := mkA cls [(5, 6)] ld cd.
(* A1 and A2 share the ADJACENT stitch nodes 10 - 11; node 10 is delegated by A2; A3 is disjoint *)
Definition A1 : adm := mkAdm 1 [(10, pA 1 None None); (11, pA 2 None None); (12, pA 3 (Some 7) (Some 8))]
                              [((10, 11), (4, [])); ((10, 12), (4, []))].
Definition A2 : adm := mkAdm 2 [(11, pA 2 None None); (10, pA 1 (Some 7) None); (13, pA 3 None (Some 8))]
                              [((10, 11), (4, [])); ((11, 13), (4, []))].
Definition A3 : adm := mkAdm 3 [(13, pA 3 None None); (14, pA 3 None None)] [((13, 14), (4, []))].
(* A4 shares node 10 with A1 but no connection *)
Definition A4 : adm := mkAdm 4 [(10, pA 1 (Some 7) None); (15, pA 3 None (Some 8))] [((10, 15), (4, []))].
(* B1 has 10, B3 has 11, B2 has both and the connection between them *)
Definition B1 : adm := mkAdm 1 [(10, pA 1 None None)] [].
Definition B3 : adm := mkAdm 3 [(11, pA 2 None None)] [].
Definition B2 : adm := mkAdm 2 [(10, pA 1 None None); (11, pA 2 None None)] [((10, 11), (4, []))].
(* D speaks for node 12, which A1 already delegates *)
Definition D2 : adm := mkAdm 2 [(12, pA 3 (Some 7) None)] [].

Lemma fam_A_consistent : consistent [A1; A2; A3] /\ Forall wf_adm [A1; A2; A3].
Proof. split; [apply consistentb_sound | apply Forall_wf_admb]; vm_compute; reflexivity. Qed.

Lemma fam_B_consistent : consistent [B1; B3; B2] /\ Forall wf_adm [B1; B3; B2].
Proof. split; [apply consistentb_sound | apply Forall_wf_admb]; vm_compute; reflexivity. Qed.

Definition the (o : option cbm) : cbm := match o with Some C => C | None => empty end.
Definition CA1 : cbm := the (merge_all [A1]).
Definition CB13 : cbm := the (merge_all [B1; B3]).

Lemma wf_CA1 : wf_cbm CA1.
Proof. apply (merge_all_wf [A1]); vm_compute; reflexivity. Qed.
Lemma wf_CB13 : wf_cbm CB13.
Proof. apply (merge_all_wf [B1; B3]); vm_compute; reflexivity. Qed.

(* (1) the full statement "merge then unmerge restores the combined model" is FALSE of the model (and of the
   code) without "no new inner connection": the family [B1; B3; B2] is consistent, yet unmerging B2 leaves its
   connection 10 - 11 behind (connections carry no contributor record) *)
Theorem unmerge_inverse_edge_refuted :
  exists C A C', wf_cbm C /\ wf_adm A /\ not_contributor (adm_id A) C /\
                 smerge C A = Some C' /\ ~ eqv (sunmerge C' (adm_id A)) C.
Proof.
  exists CB13, B2, (the (smerge CB13 B2)). split; [exact wf_CB13|]. split; [apply wf_admb_sound; vm_compute; reflexivity|].
  split; [apply not_contributorb_sound; vm_compute; reflexivity|].
  split; [vm_compute; reflexivity|].
  intros [_ H]. specialize (H (10, 11)). vm_compute in H. discriminate.
Qed.

(* (2) without "a shared element is described identically" the result DOES depend on the merge order: the
   combined model keeps the class / plain properties of whichever model was merged first *)
Definition P1 : adm := mkAdm 1 [(10, mkA 1 [(5, 6)] None None)] [].
Definition P2 : adm := mkAdm 2 [(10, mkA 1 [(5, 7)] None None); (11, mkA 2 [] None (Some 8))] [((10, 11), (4, []))].
Theorem order_dependent_refuted :
  exists A B C C', wf_adm A /\ wf_adm B /\ one_speaker A B /\
                   merge_all [A; B] = Some C /\ merge_all [B; A] = Some C' /\ ~ eqv C C'.
Proof.
  exists P1, P2, (the (merge_all [P1; P2])), (the (merge_all [P2; P1])).
  split; [apply wf_admb_sound; vm_compute; reflexivity|]. split; [apply wf_admb_sound; vm_compute; reflexivity|].
  split; [apply one_speakerb_sound; vm_compute; reflexivity|].
  split; [vm_compute; reflexivity|]. split; [vm_compute; reflexivity|].
  intros [H _]. specialize (H 10). vm_compute in H. destruct H as (_ & H & _). discriminate.
Qed.

(* non-vacuity instances *)
Lemma ex_order :
  exists C C', merge_all [A1; A2; A3] = Some C /\ merge_all [A3; A2; A1] = Some C' /\
               getn 10 (nodes C) = Some (mkC 1 [(5, 6)] [1; 2] (Some (2, 7)) None) /\
               getn 10 (nodes C') = Some (mkC 1 [(5, 6)] [2; 1] (Some (2, 7)) None).
Proof. eexists. eexists. repeat split; vm_compute; reflexivity. Qed.

Lemma ex_unmerge :
  wf_cbm CA1 /\ wf_adm A2 /\ not_contributor (adm_id A2) CA1 /\ no_new_inner_edges CA1 A2 /\
  exists C', smerge CA1 A2 = Some C' /\ hasn 13 (nodes C') = true /\ hasn 13 (nodes (sunmerge C' 2)) = false /\
             gete (10, 11) (edges C') = Some (4, []).
Proof.
  split; [exact wf_CA1|]. split; [apply wf_admb_sound; vm_compute; reflexivity|].
  split; [apply not_contributorb_sound; vm_compute; reflexivity|].
  split; [apply no_new_inner_edgesb_sound; vm_compute; reflexivity|].
  eexists. repeat split; vm_compute; reflexivity.
Qed.

Lemma ex_double_speaker : smerge CA1 D2 = None.
Proof. vm_compute. reflexivity. Qed.

Definition ex_ops : list hop :=
  [HMerge A1; HSnap 100; HMerge A2; HUnmerge 1; HMerge A3; HRollback 100; HMerge A3; HUnmerge 9].
Lemma ex_history :
  Forall op_wf ex_ops /\
  map fst (nodes (h_cur (hrun hinit ex_ops))) = [10; 11; 12; 13; 14] /\ map adm_id (h_ms (hrun hinit ex_ops)) = [1; 3].
Proof.
  split; [|split; vm_compute; reflexivity].
  unfold ex_ops. repeat (apply Forall_cons; [simpl; try exact I; try (apply wf_admb_sound; vm_compute; reflexivity)|]).
  apply Forall_nil.
Qed.

Lemma ex_rollback :
  hasn 100 (h_snaps (hrun hinit [HMerge A1])) = false /\
  forallb (fun o => negb (touches 100 o)) [HMerge A2; HSnap 101; HUnmerge 1; HRollback 101; HMerge A3] = true /\
  nodes (h_cur (hrun (hstep (hrun hinit [HMerge A1]) (HSnap 100)) [HMerge A2; HSnap 101; HUnmerge 1; HRollback 101; HMerge A3]))
    <> nodes (h_cur (hrun hinit [HMerge A1])).
Proof. split; [|split]; vm_compute; try reflexivity. discriminate. Qed.

(* two snapshots outstanding at the same time, the model changed in between, rolled back in either order: each
   rollback gives the model of ITS snapshot (instance of rollback_restores; a later HSnap with another id is one of
   the "operations not using that snapshot id") *)
Lemma ex_two_snapshots :
  let s1 := hrun hinit [HMerge A1] in
  let s2 := hrun hinit [HMerge A1; HSnap 100; HMerge A2] in
  let mid := [HMerge A2; HSnap 101; HMerge A3] in
  forallb (fun o => negb (touches 100 o)) mid = true /\
  h_cur (hrun hinit ([HMerge A1; HSnap 100] ++ mid ++ [HRollback 100])) = h_cur s1 /\
  h_cur (hrun hinit ([HMerge A1; HSnap 100] ++ mid ++ [HRollback 101])) = h_cur s2 /\
  h_cur (hrun hinit ([HMerge A1; HSnap 100] ++ mid ++ [HRollback 101; HRollback 100])) = h_cur s1 /\
  nodes (h_cur s1) <> nodes (h_cur s2).
Proof. repeat split; try (vm_compute; reflexivity). vm_compute. discriminate. Qed.

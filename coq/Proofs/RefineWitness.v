(* C05: concrete witnesses (evaluated by vm_compute) - documented differences of the two storage flavours
   OUTSIDE the quantifier of C05 (import / clone), and non-vacuity instances of the proved theorems.  The same histories are replayed on the real
   code by harness/c05.py (refuted_witnesses) on every run. *)
From Coq Require Import List NArith Bool.
From FIM Require Import Base.Assoc Model.Store Model.StoreDisjoint Model.PGSpec.
From FIM Require Import Proofs.IsolationShared Proofs.RefineUnique.
Import ListNotations.
Open Scope N_scope.

(* interned names used below: g0=10 g1=11 n0=20 n1=21 c0=30 r0=40 p0=50 v0=60 *)
Definition w_reimport : list op :=
  [OAddNode 10 20 30 None; OImport 10 (mkI [(1, [(k_nodeid, PV 21); (k_class, PV 30)])] []); OListIds 10].
Definition w_merge : list op :=
  [OAddNode 10 20 30 (Some [(50, PV 60)]); OAddNode 11 20 30 None; OMerge 10 20 11 (Some [(50, s_overwrite)])].

Definition results_eqb (a b : list res) : bool := list_eqb res_eqb a b.

Lemma all_in_scope (f : op -> bool) l : forallb f l = true -> forall o, In o l -> f o = true.
Proof. intro H. now apply forallb_forall. Qed.

(* import onto a live id: replaced vs kept *)
Lemma agree_reimport_live_refuted :
  exists ops, (forall o, In o ops -> in_spec_scope o = true) /\
              results_eqb (sresults init_store ops) (dresults init_dstore ops) = false.
Proof. exists w_reimport. split; [apply all_in_scope|]; vm_compute; reflexivity. Qed.

(* merge_nodes raising KeyError (policy needs a property the other node lacks) changes nothing *)
Lemma merge_fails_nonvacuous :
  snd (sstep (srun (firstn 2 w_merge) init_store) (OMerge 10 20 11 (Some [(50, s_overwrite)]))) = Err EKey /\
  fst (sstep (srun (firstn 2 w_merge) init_store) (OMerge 10 20 11 (Some [(50, s_overwrite)]))) = srun (firstn 2 w_merge) init_store.
Proof. vm_compute. split; reflexivity. Qed.

(* ---------- non-vacuity instances ---------- *)
(* a 12-step history inside refine_scope0 with existing partners, two graphs, links, updates, listing *)
Definition w_agree : list op :=
  [OAddNode 10 20 30 None; OAddNode 10 21 31 (Some [(50, PV 60)]); OAddLink 10 20 40 21 None;
   OAddNode 11 20 30 None; OAddNode 10 20 31 None; OUpdNode 10 20 50 (PV 61); OUnsetNode 10 20 k_name;
   OUnsetNode 10 21 51; OUpdLink 10 21 20 40 50 (PV 60); OMatching 10 11; OListIds 10; ODelNode 10 20;
   OGetLink 10 20 21; ODelGraph 11; OGraphExists 11; OMatching 10 11].

Lemma agree_nonvacuous :
  forallb refine_scope0 w_agree = true /\
  sresults init_store w_agree =
    [Ok RUnit; Ok RUnit; Ok RUnit; Ok RUnit; Err EQuery; Ok RUnit; Err EQuery; Ok RUnit; Ok RUnit;
     Ok (RVals [PV 20]); Ok (RVals [PV 20; PV 21]); Ok RUnit; Err EQuery; Ok RUnit; Ok (RBool false); Ok (RVals [])] /\
  dresults init_dstore w_agree = sresults init_store w_agree.
Proof. vm_compute. repeat split. Qed.

Lemma merge_nonvacuous :
  let ops := [OAddNode 10 20 30 (Some [(50, PV 60)]); OAddNode 10 21 30 None; OAddLink 10 20 40 21 None;
              OAddNode 11 20 30 (Some [(50, PV 61)]); OAddNode 11 22 30 None; OAddLink 11 20 40 22 None] in
  let s := srun ops init_store in
  exists G', s_merge (sg s) 10 20 11 (Some [(50, s_combine)]) = (G', Ok RUnit) /\
             nx_node G' 1 = Some [(k_graphid, PV 10); (k_nodeid, PV 20); (k_class, PV 30); (50, PL [PV 60; PV 61])] /\
             nx_node G' 3 = None /\ nx_edge G' 1 2 <> None /\ nx_edge G' 1 4 <> None.
Proof. eexists. vm_compute. repeat split; discriminate. Qed.

(* C10: the slice-level theorems.  Generic part (any tables with table_ok, any flag setting), then the
   instances for the pinned tables: the repaired code (both flags true), the current code, the refutation
   witnesses, the recorded site, the connect-time guardrail. *)
From Coq Require Import List ZArith String Bool NArith Lia ZifyBool Permutation.
From FIM Require Import Base.C10Types Gen.Constraints Model.Validate10 Model.C10Pinned Model.C10Spec
  Proofs.Validate10Lemmas Proofs.Validate10Service Proofs.Validate10Tables.
Import ListNotations.
Open Scope Z_scope.

Section Generic.
Variable T : tables.
Hypothesis Hok : table_ok T = true.

Lemma instance_limited_never : forall l, existsb (instance_limited T) l = false.
Proof.
  induction l as [|s r IH]; simpl; [reflexivity|]. rewrite IH, orb_false_r. unfold instance_limited.
  destruct (assoc (s_type s) (t_services T)) as [rc|] eqn:Ha; [|reflexivity].
  destruct (table_ok_service T _ _ Hok Ha) as [Hi _]. unfold NL. rewrite Hi, Z.eqb_refl. reflexivity.
Qed.

Lemma validate_spec : forall cf es sl sts,
  validate T cf es sl = (sts, Ok) <->
  (forall n, In n (sl_nodes sl) -> node_in_scope cf n -> node_allowed T n) /\
  Forall2 (svc_ok T es) (sl_services sl) sts.
Proof.
  intros cf es sl sts. unfold validate. rewrite <- (nodes_spec T cf (sl_nodes sl) Hok).
  destruct (check_all (validate_node T) (filter (visible cf) (sl_nodes sl))) as [|e] eqn:En.
  - destruct (validate_services T es (sl_services sl)) as [sts' res] eqn:Es.
    rewrite instance_limited_never. destruct res as [|e].
    + split.
      * intros H. inversion H. subst. split; [reflexivity|]. apply validate_services_spec; assumption.
      * intros [_ H]. apply (validate_services_spec T es _ _ Hok) in H. rewrite Es in H. inversion H. reflexivity.
    + split; [intros H; inversion H|]. intros [_ H].
      apply (validate_services_spec T es _ _ Hok) in H. rewrite Es in H. inversion H.
  - split; [intros H; inversion H | intros [H _]; discriminate].
Qed.

Lemma Forall_exists_Forall2 : forall A B (P : A -> B -> Prop) l,
  (forall x, In x l -> exists y, P x y) -> exists l', Forall2 P l l'.
Proof.
  intros A B P l. induction l as [|x r IH]; intros H.
  - exists []. constructor.
  - destruct (H x (or_introl eq_refl)) as [y Hy]. destruct IH as [l' Hl'].
    + intros z Hz. apply H. right. exact Hz.
    + exists (y :: l'). constructor; assumption.
Qed.

Lemma Forall2_In_l : forall A B (P : A -> B -> Prop) l l' x, Forall2 P l l' -> In x l -> exists y, In y l' /\ P x y.
Proof.
  intros A B P l l' x H. induction H as [|a b r r' Hab Hr IH]; intros [].
  - subst. exists b. simpl. auto.
  - destruct (IH H) as [y [H1 H2]]. exists y. simpl. auto.
Qed.

Theorem validate_iff : forall cf es sl, snd (validate T cf es sl) = Ok <-> allowed T cf es sl.
Proof.
  intros cf es sl. unfold allowed. split.
  - intros H. destruct (validate T cf es sl) as [sts res] eqn:E. simpl in H. subst res.
    apply validate_spec in E. destruct E as [Hn Hs]. split; [exact Hn|].
    intros s Hin. destruct (Forall2_In_l _ _ _ _ _ s Hs Hin) as [a [_ Ha]]. exists a. exact Ha.
  - intros [Hn Hs]. destruct (Forall_exists_Forall2 _ _ (svc_ok T es) (sl_services sl) Hs) as [sts Hsts].
    assert (validate T cf es sl = (sts, Ok)) as E by (apply validate_spec; auto). rewrite E. reflexivity.
Qed.

Theorem site_recorded : forall cf es sl sts,
  validate T cf es sl = (sts, Ok) -> Forall2 (svc_ok T es) (sl_services sl) sts.
Proof. intros cf es sl sts H. apply validate_spec in H. apply H. Qed.

(* the full specification implies every weakened one *)
Lemma svc_ok_mono : forall es s a, svc_ok T true s a -> svc_ok T es s a.
Proof.
  intros es s a [r [eps [H1 [H2 [H3 [H4 [H5 H6]]]]]]]. exists r, eps. repeat (split; [assumption|]).
  split; [|exact H6]. destruct H5 as [H5|[Hns [Hown [sites [Hnd [Hin [Hlen Hd]]]]]]]; [left; exact H5|].
  right. split; [exact Hns|]. split; [exact Hown|]. exists sites. repeat (split; [assumption|]).
  destruct Hd as [Hd|[[a0 [Hone Hd]]|Hd]]; [left; exact Hd| |right; right; exact Hd].
  right. left. exists a0. split; [exact Hone|]. destruct Hd as [Hd|[d [Hd1 [Hd2 Hd3]]]]; [left; exact Hd|].
  right. exists d. split; [exact Hd1|]. split; [exact Hd2|]. intros _. apply Hd3. reflexivity.
Qed.

Lemma allowed_mono : forall cf es sl, allowed T true true sl -> allowed T cf es sl.
Proof.
  intros cf es sl [Hn Hs]. split.
  - intros n Hin _. apply Hn; [exact Hin|]. left. reflexivity.
  - intros s Hin. destruct (Hs s Hin) as [a Ha]. exists a. apply svc_ok_mono, Ha.
Qed.

Lemma singleton_members : forall (l : list osite) a, NoDup l -> (forall b, In b l <-> b = a) -> l = [a].
Proof.
  intros l a Hnd H. destruct l as [|x [|y t]].
  - exfalso. apply (proj2 (H a) eq_refl).
  - f_equal. apply H. left. reflexivity.
  - exfalso. assert (x = a) by (apply H; simpl; auto). assert (y = a) by (apply H; simpl; auto).
    subst. inversion Hnd. apply H2. left. reflexivity.
Qed.

(* what exactly is missing from the current code: the two hypotheses restore the full specification *)
Lemma allowed_strengthen : forall cf es sl, allowed T cf es sl ->
  facilities_meet_constraints T sl -> declared_sites_agree T sl -> allowed T true true sl.
Proof.
  intros cf es sl [Hn Hs] Hfac Hdecl. split.
  - intros n Hin _. destruct (String.eqb (n_type n) S_Facility) eqn:E.
    + apply String.eqb_eq in E. apply Hfac; assumption.
    + apply String.eqb_neq in E. apply Hn; [exact Hin|]. right. exact E.
  - intros s Hin. destruct (Hs s Hin) as [a [r [eps [H1 [H2 [H3 [H4 [H5 H6]]]]]]]]. exists a, r, eps.
    repeat (split; [assumption|]). split; [|exact H6].
    destruct H5 as [H5|[Hns [Hown [sites [Hnd [Hmem [Hlen Hd]]]]]]]; [left; exact H5|].
    right. split; [exact Hns|]. split; [exact Hown|]. exists sites. repeat (split; [assumption|]).
    destruct Hd as [Hd|[[a0 [Hone Hd]]|Hd]]; [left; exact Hd| |right; right; exact Hd].
    right. left. exists a0. split; [exact Hone|]. destruct Hd as [Hd|[d [Hd1 [Hd2 _]]]]; [left; exact Hd|].
    right. exists d. split; [exact Hd1|]. split; [exact Hd2|]. intros _.
    apply (Hdecl s r eps d a0 Hin H1 Hns H2 Hd1). intros b. rewrite <- Hmem. subst sites. simpl.
    split; [intros [H|[]]; auto | intros H; left; auto].
Qed.

(* conversely the full specification implies the two hypotheses (used for the non-vacuity examples) *)
Lemma allowed_facilities : forall sl, allowed T true true sl -> facilities_meet_constraints T sl.
Proof. intros sl [Hn _] n Hin _. apply Hn; [exact Hin|]. left. reflexivity. Qed.

Lemma allowed_declared_agree : forall sl, allowed T true true sl -> declared_sites_agree T sl.
Proof.
  intros sl [_ Hs] s r eps d a Hin Ha Hns He Hd Hsp.
  destruct (Hs s Hin) as [aft [r' [eps' [H1 [H2 [_ [_ [H5 _]]]]]]]].
  rewrite Ha in H1. inversion H1. subst r'.
  apply node_ifaces_spec in H2, He. rewrite H2 in He. inversion He. subst eps'.
  destruct H5 as [[H _]|[_ [_ [sites [Hnd [Hmem [_ H]]]]]]]; [contradiction|].
  assert (sites = [a]) as Hsi.
  { apply singleton_members; [exact Hnd|]. intros b. rewrite Hmem. apply Hsp. }
  subst sites. destruct H as [[H _]|[[a0 [Hone [[H _]|[d' [H1' [_ Hag]]]]]]|[H _]]].
  - discriminate.
  - congruence.
  - inversion Hone. subst a0. rewrite Hd in H1'. inversion H1'. subst d'. apply Hag. reflexivity.
  - simpl in H. lia.
Qed.

(* the recorded site, spelled out *)
Lemma recorded_declared : forall es s d after, svc_ok T es s after -> s_site s = Some d -> after = Some d.
Proof.
  intros es s d after [r [eps [_ [_ [_ [_ [H5 _]]]]]]] Hd.
  destruct H5 as [[_ H]|[_ [_ [sites [_ [_ [_ H]]]]]]]; [congruence|].
  destruct H as [[_ H]|[[a [_ [[H _]|[d' [H1 [H2 _]]]]]]|[_ [H _]]]]; congruence.
Qed.

Lemma recorded_inferred : forall es s after r eps a, svc_ok T es s after ->
  assoc (s_type s) (t_services T) = Some r -> sc_num_sites r <> t_no_limit T ->
  Forall2 attached_to (s_ifaces s) eps -> (forall b, spans eps b <-> b = a) ->
  s_site s = None -> after = a.
Proof.
  intros es s after r eps a [r' [eps' [H1 [H2 [_ [_ [H5 _]]]]]]] Ha Hns He Hsp Hnone.
  rewrite Ha in H1. inversion H1. subst r'.
  apply node_ifaces_spec in H2, He. rewrite H2 in He. inversion He. subst eps'.
  destruct H5 as [[H _]|[_ [_ [sites [Hnd [Hmem [_ H]]]]]]]; [contradiction|].
  assert (sites = [a]) as Hs.
  { apply singleton_members; [exact Hnd|]. intros b. rewrite Hmem. apply Hsp. }
  subst sites. destruct H as [[H _]|[[a0 [Hone [[_ H]|[d [H _]]]]]|[H _]]].
  - discriminate.
  - inversion Hone. subst. reflexivity.
  - congruence.
  - simpl in H. lia.
Qed.

(* connect time *)
Lemma guard_refuses_iff : forall st it, guard T st it <> Ok <-> In (st, it) (t_guardrails T).
Proof.
  intros st it. unfold guard.
  destruct (existsb (fun p => String.eqb (fst p) st && String.eqb (snd p) it) (t_guardrails T)) eqn:E.
  - split; [|discriminate]. intros _. apply existsb_exists in E. destruct E as [[a b] [Hin He]].
    simpl in He. apply andb_true_iff in He. destruct He as [H1 H2].
    apply String.eqb_eq in H1, H2. subst. exact Hin.
  - split; [intros H; exfalso; apply H; reflexivity|]. intros Hin.
    assert (existsb (fun p => String.eqb (fst p) st && String.eqb (snd p) it) (t_guardrails T) = true) as C.
    { apply existsb_exists. exists (st, it). split; [exact Hin|]. simpl. rewrite !String.eqb_refl. reflexivity. }
    congruence.
Qed.

(* a refused combination is one no valid slice contains *)
Lemma guard_only_unsupported : guard_consistent T = true ->
  forall st it, guard T st it <> Ok ->
  forall cf es sl s i e, In s (sl_services sl) -> s_type s = st -> In i (s_ifaces s) -> attached_to i e ->
    ep_type e = it -> snd (validate T cf es sl) <> Ok.
Proof.
  intros Hgc st it Hg cf es sl s i e Hs Hst Hi Hat Het Hv.
  apply guard_refuses_iff in Hg. unfold guard_consistent in Hgc. rewrite forallb_forall in Hgc.
  specialize (Hgc _ Hg). cbn [fst snd] in Hgc.
  apply validate_iff in Hv. destruct Hv as [_ Hv]. destruct (Hv s Hs) as [a [r [eps [H1 [H2 [_ [_ [_ [_ [_ H8]]]]]]]]]].
  rewrite Hst in H1. rewrite H1 in Hgc.
  destruct (sc_itypes r) as [|t rit] eqn:Er; [discriminate|].
  apply negb_true_iff in Hgc. apply mem_false in Hgc. apply Hgc. rewrite <- Het.
  assert (exists e', In e' eps /\ attached_to i e') as [e' [He' Hat']].
  { clear - H2 Hi. induction H2 as [|i0 e0 l l' Hie Hl IH]; [destruct Hi|].
    destruct Hi as [<-|Hi]; [exists e0; simpl; auto|]. destruct (IH Hi) as [e' [A B]]. exists e'. simpl. auto. }
  apply node_side_spec in Hat, Hat'. rewrite Hat in Hat'. inversion Hat'. subst e'.
  apply H8; [discriminate|exact He'].
Qed.

End Generic.

(* ================= instances for the pinned tables ================= *)

Definition allowed_full := allowed pinned_tables true true.

Theorem validate_iff_repaired : forall sl, snd (validate pinned_tables true true sl) = Ok <-> allowed_full sl.
Proof. intros sl. apply validate_iff. exact pinned_table_ok. Qed.

Theorem validate_cur_exact : forall sl,
  snd (validate_cur sl) = Ok <-> allowed pinned_tables cur_checks_facilities cur_enforces_declared_site sl.
Proof. intros sl. unfold validate_cur. rewrite table_pinned. apply validate_iff. exact pinned_table_ok. Qed.

Theorem validate_cur_iff : forall sl, snd (validate_cur sl) = Ok <-> allowed_full sl.
Proof. exact validate_cur_exact. Qed.

Theorem connect_interface_guarded : forall st it,
  connect_method gen_tables cur_connect_interface_guarded st it = connect_ctor gen_tables st it.
Proof. reflexivity. Qed.

Theorem validate_cur_complete : forall sl, allowed_full sl -> snd (validate_cur sl) = Ok.
Proof. intros sl H. apply validate_cur_exact. apply allowed_mono. exact H. Qed.

Theorem validate_cur_sound_partial : forall sl, snd (validate_cur sl) = Ok ->
  facilities_meet_constraints pinned_tables sl -> declared_sites_agree pinned_tables sl -> allowed_full sl.
Proof.
  intros sl H Hf Hd.
  apply (allowed_strengthen pinned_tables cur_checks_facilities cur_enforces_declared_site);
    [apply validate_cur_exact, H | exact Hf | exact Hd].
Qed.

(* the witnesses: what the harness replays on the real code *)
Definition witness_declared_site : slice :=
  mk_slice [mk_anode "VM" ["site"; "attached_components_info"]]
           [mk_asvc "OVS" None [] [mk_if "SharedPort" (Some (Some 1%N)) (Some [mk_ep "ServicePort" None])];
            mk_asvc "L2Bridge" (Some 2%N) [] [mk_if "ServicePort" None (Some [mk_ep "SharedPort" (Some (Some 1%N))])]].

Definition witness_facility : slice :=
  mk_slice [mk_anode "Facility" ["site"; "image_type"; "image_ref"]]
           [mk_asvc "VLAN" None [] [mk_if "FacilityPort" (Some (Some 1%N)) None]].

Theorem site_recorded_cur : forall sl sts, validate_cur sl = (sts, Ok) ->
  Forall2 (svc_ok pinned_tables cur_enforces_declared_site) (sl_services sl) sts.
Proof.
  intros sl sts. unfold validate_cur. rewrite table_pinned. apply site_recorded. exact pinned_table_ok.
Qed.

Theorem recorded_site_unique : forall es s a b, svc_ok pinned_tables es s a -> svc_ok pinned_tables es s b -> a = b.
Proof. intros es s a b. apply svc_ok_unique. exact pinned_table_ok. Qed.

Theorem recorded_inferred_pinned : forall es s after r eps a, svc_ok pinned_tables es s after ->
  assoc (s_type s) (t_services pinned_tables) = Some r -> sc_num_sites r <> t_no_limit pinned_tables ->
  Forall2 attached_to (s_ifaces s) eps -> (forall b, spans eps b <-> b = a) ->
  s_site s = None -> after = a.
Proof. intros es s after r eps a H1 H2 H3 H4 H5 H6. exact (recorded_inferred pinned_tables pinned_table_ok es s after r eps a H1 H2 H3 H4 H5 H6). Qed.

Theorem recorded_declared_pinned : forall es s d after, svc_ok pinned_tables es s after -> s_site s = Some d -> after = Some d.
Proof. intros es s d after H1 H2. exact (recorded_declared pinned_tables es s d after H1 H2). Qed.

Theorem allowed_full_hyps : forall sl, allowed_full sl ->
  facilities_meet_constraints pinned_tables sl /\ declared_sites_agree pinned_tables sl.
Proof.
  intros sl H. split; [apply allowed_facilities, H | apply (allowed_declared_agree pinned_tables pinned_table_ok), H].
Qed.

(* non-vacuity material: a valid two-site slice with a facility, a declared site that agrees, an inferred
   site and a port mirror whose required 'site' is satisfied by the inference *)
Definition example_valid : slice :=
  mk_slice [mk_anode "VM" ["site"; "attached_components_info"]; mk_anode "Server" ["site"; "attached_components_info"];
            mk_anode "Facility" ["site"]]
   [mk_asvc "OVS" None [] [mk_if "DedicatedPort" (Some (Some 1%N)) (Some [mk_ep "ServicePort" None]);
                           mk_if "DedicatedPort" (Some (Some 1%N)) (Some [mk_ep "ServicePort" None])];
    mk_asvc "OVS" None [] [mk_if "DedicatedPort" (Some (Some 2%N)) (Some [mk_ep "ServicePort" None]);
                           mk_if "DedicatedPort" (Some (Some 2%N)) (Some [mk_ep "ServicePort" None])];
    mk_asvc "VLAN" None [] [mk_if "FacilityPort" (Some (Some 2%N)) (Some [mk_ep "ServicePort" None])];
    mk_asvc "L2PTP" None [] [mk_if "ServicePort" None (Some [mk_ep "DedicatedPort" (Some (Some 1%N))]);
                             mk_if "ServicePort" None (Some [mk_ep "FacilityPort" (Some (Some 2%N))])];
    mk_asvc "L2Bridge" (Some 2%N) [] [mk_if "ServicePort" None (Some [mk_ep "DedicatedPort" (Some (Some 2%N))])];
    mk_asvc "PortMirror" None ["mirror_port"; "mirror_direction"]
            [mk_if "ServicePort" None (Some [mk_ep "DedicatedPort" (Some (Some 1%N))])]].

Theorem example_valid_allowed : allowed_full example_valid.
Proof. apply validate_iff_repaired. vm_compute. reflexivity. Qed.

Theorem example_valid_sites :
  validate_cur example_valid = ([Some 1%N; Some 2%N; Some 2%N; None; Some 2%N; Some 1%N], Ok).
Proof. vm_compute. reflexivity. Qed.

Theorem example_invalid_rejected :   (* an L2PTP with a shared port, and a switch with an image *)
  snd (validate_cur (mk_slice [] [mk_asvc "L2PTP" None []
        [mk_if "ServicePort" None (Some [mk_ep "SharedPort" (Some (Some 1%N))]);
         mk_if "ServicePort" None (Some [mk_ep "DedicatedPort" (Some (Some 2%N))])]])) = Err ETopology /\
  snd (validate_cur (mk_slice [mk_anode "Switch" ["site"; "image_type"; "image_ref"]] [])) = Err ETopology.
Proof. split; vm_compute; reflexivity. Qed.

(* guardrail *)
Theorem guard_exact : forall st it,
  connect_ctor gen_tables st it <> Ok <-> (st = "L2PTP"%string /\ it = "SharedPort"%string).
Proof.
  intros st it. unfold connect_ctor. rewrite table_pinned, guard_refuses_iff. simpl. split.
  - intros [H|[]]. inversion H. auto.
  - intros [-> ->]. left. reflexivity.
Qed.

Theorem guard_refusal_is_topology_error : forall st it, connect_ctor gen_tables st it <> Ok ->
  connect_ctor gen_tables st it = Err ETopology.
Proof. intros st it. unfold connect_ctor, guard. destruct (existsb _ _); [reflexivity|intros H; exfalso; apply H; reflexivity]. Qed.

Theorem guardrail_only_unsupported_pinned : forall st it, connect_ctor gen_tables st it <> Ok ->
  forall cf es sl s i e, In s (sl_services sl) -> s_type s = st -> In i (s_ifaces s) -> attached_to i e ->
    ep_type e = it -> snd (validate gen_tables cf es sl) <> Ok.
Proof.
  intros st it. unfold connect_ctor. rewrite table_pinned.
  apply (guard_only_unsupported pinned_tables pinned_table_ok pinned_guard_consistent).
Qed.

Theorem connect_interface_repaired : forall st it,
  connect_method gen_tables true st it = connect_ctor gen_tables st it.
Proof. reflexivity. Qed.

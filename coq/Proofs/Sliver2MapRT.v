(* C02: from_props (to_props a) = normalize a, generically from the table check.
   Nothing here computes on the regenerated tables: the lemmas are stated for any kind k whose tables
   pass `tables_symmetric k`; only Proofs/Sliver2Tables.v evaluates that check (by vm_compute). *)
From Coq Require Import List String NArith Bool Lia.
From FIM Require Import Base.Str Model.Sliver2Kinds Gen.PropMap Model.Sliver2Map Model.Sliver2WF
  Proofs.Sliver2Assoc.
Import ListNotations.

(* the lemmas of this file must not depend on the CONTENT of the regenerated tables *)
Local Opaque enums type_enum to_base from_base to_specific from_specific setters getters init_attrs
  sliver_property_to_graph no_unset_properties child_keys node_id_prop.

Definition gp (te : to_entry) : string := snd (fst te).
Definition at_ (te : to_entry) : string := fst (fst te).

(* ---------- A. the dictionary to_props builds ---------- *)
Lemma to_props_entries_spec a : forall T acc P,
  NoDup (map gp T) -> to_props_entries T a acc = Ok P ->
  (forall te, In te T -> exists o, to_entry_val a te = Ok o /\
      alookup (gp te) P = match o with Some p => Some p | None => alookup (gp te) acc end)
  /\ (forall g, ~ In g (map gp T) -> alookup g P = alookup g acc).
Proof.
  induction T as [|t r IH]; intros acc P ND H; simpl in *.
  - inversion H; subst. split; [intros ? []| reflexivity].
  - inversion ND as [|? ? NI ND']; subst.
    destruct (to_entry_val a t) as [o|e] eqn:Et; simpl in H; [|discriminate].
    set (acc' := match o with Some p => aset (snd (fst t)) p acc | None => acc end) in *.
    destruct (IH acc' P ND' H) as [IH1 IH2].
    assert (Hacc' : forall g, g <> gp t -> alookup g acc' = alookup g acc).
    { intros g Hg. unfold acc'. destruct o; [|reflexivity].
      apply alookup_aset_other. intro E. apply Hg. symmetry. exact E. }
    split.
    + intros te [Hte|Hte].
      * subst te. exists o. split; [exact Et|].
        rewrite (IH2 (gp t) NI). unfold acc'. destruct o; [|reflexivity].
        apply alookup_aset_same.
      * destruct (IH1 te Hte) as [o' [Ho' Hl]]. exists o'. split; [exact Ho'|].
        rewrite Hl. destruct o'; [reflexivity|].
        apply Hacc'. intro E. apply NI. rewrite <- E. apply in_map. exact Hte.
    + intros g Hg. rewrite IH2 by (intro; apply Hg; right; assumption).
      apply Hacc'. intro E. apply Hg. left. symmetry. exact E.
Qed.

Lemma to_props_entries_ok a : forall T acc,
  (forall te, In te T -> is_ok (to_entry_val a te) = true) -> exists P, to_props_entries T a acc = Ok P.
Proof.
  induction T as [|t r IH]; intros acc H; simpl.
  - eexists; reflexivity.
  - assert (Ht := H t (or_introl eq_refl)).
    destruct (to_entry_val a t) as [o|e]; simpl in *; [|discriminate].
    apply IH. intros te Hte. apply H. right. exact Hte.
Qed.

Lemma to_props_keys a : forall T acc P,
  to_props_entries T a acc = Ok P -> forall g, In g (akeys P) -> In g (akeys acc) \/ In g (map gp T).
Proof.
  induction T as [|t r IH]; intros acc P H g Hg; simpl in *.
  - inversion H; subst. left; exact Hg.
  - destruct (to_entry_val a t) as [o|e]; simpl in H; [|discriminate].
    destruct (IH _ _ H g Hg) as [Hin|Hin]; [|right; right; exact Hin].
    destruct o as [p|]; [|left; exact Hin].
    destruct (string_dec g (snd (fst t))) as [E|N]; [right; left; symmetry; exact E|].
    left. destruct (alookup_in_keys g _ Hin) as [v Hv].
    rewrite alookup_aset_other in Hv by (intro E; apply N; symmetry; exact E).
    apply alookup_some_in in Hv. apply (in_map fst) in Hv. exact Hv.
Qed.

(* ---------- B. the attribute store from_props builds ---------- *)
Lemma from_step_eq k d acc fe :
  from_step k d acc fe =
  bind acc (fun cur => bind (from_val k d fe) (fun xv => Ok (aset (fst xv) (snd xv) cur))).
Proof.
  destruct fe as [[kw g] dc]. unfold from_step, from_val. simpl.
  destruct acc as [cur|e]; simpl; [|reflexivity].
  destruct (find_setter k kw) as [[x st]|]; simpl; [|reflexivity].
  destruct (dec_val k dc (pget g d)); simpl; [|reflexivity].
  destruct (apply_setter st a); reflexivity.
Qed.

Lemma fold_from_err k d : forall F e, fold_left (from_step k d) F (Err e) = Err e.
Proof. induction F as [|f r IH]; intro e; simpl; [reflexivity|]. rewrite from_step_eq. simpl. apply IH. Qed.

Lemma fold_from_spec k d : forall F cur r,
  fold_left (from_step k d) F (Ok cur) = Ok r ->
  exists xs, Forall2 (fun fe xv => from_val k d fe = Ok xv) F xs /\ r = asets xs cur.
Proof.
  induction F as [|f F IH]; intros cur r H; simpl in H.
  - inversion H; subst. exists []. split; [constructor | reflexivity].
  - rewrite from_step_eq in H. simpl in H.
    destruct (from_val k d f) as [xv|e] eqn:Ef; simpl in H.
    + destruct (IH _ _ H) as [xs [HF Hr]]. exists (xv :: xs). split; [constructor; assumption | exact Hr].
    + rewrite fold_from_err in H. discriminate.
Qed.

Lemma fold_from_build k d : forall F xs cur,
  Forall2 (fun fe xv => from_val k d fe = Ok xv) F xs ->
  fold_left (from_step k d) F (Ok cur) = Ok (asets xs cur).
Proof.
  induction F as [|f F IH]; intros xs cur H; inversion H; subst; simpl; [reflexivity|].
  rewrite from_step_eq. simpl. rewrite H2. simpl. apply IH. assumption.
Qed.

(* ---------- C. one attribute through both tables: pure case analysis ---------- *)
Definition out_str (o : option pval) : option str :=
  match o with Some (Some s) => Some s | _ => None end.

Definition expected (dc : dec) (ov : option fval) : option fval :=
  match ov with
  | Some v => Some v
  | None => match dc with DFromJson c NKWrap => Some (FObj c None) | _ => None end
  end.

Lemma str_eqb_false_of_negb a b : negb (str_eqb a b) = true -> str_eqb a b = false.
Proof. destruct (str_eqb a b); [discriminate | reflexivity]. Qed.

Lemma core_primary k a x g e dc st o ov :
  (forall y, e <> EImagePair y) ->
  inv_ok (RPrimary e) dc st = true ->
  val_ok k (RPrimary e) dc st a x = true ->
  alookup x a = Some ov ->
  to_entry_val a (x, g, e) = Ok o ->
  bind (dec_val k dc (out_str o)) (apply_setter st) = Ok (expected dc ov).
Proof.
  intros Hnp Hinv Hval Hx Hto.
  unfold val_ok, aget in Hval. rewrite Hx in Hval.
  unfold to_entry_val in Hto. rewrite Hx in Hto.
  destruct e; try (exfalso; eapply Hnp; reflexivity);
  destruct dc as [ |c nk|en| |df|c|i|i]; simpl in Hinv; try discriminate;
  destruct st as [[c'|]| | | |[c'|]]; simpl in Hinv; try discriminate.
  all: destruct ov as [v|]; [destruct v|]; simpl in Hval, Hto; try discriminate.
  all: try (destruct df; try discriminate).
  all: try (match type of Hto with context [match ?c with Some _ => _ | None => _ end] => destruct c end).
  all: inversion Hto; subst o; simpl.
  all: try match goal with cn : option str |- _ => destruct cn end.
  all: unfold json_text_ok, not_json_const in *.
  all: repeat match goal with
       | H : (_ && _) = true |- _ => apply andb_true_iff in H as [? ?]
       | H : String.eqb _ _ = true |- _ => apply String.eqb_eq in H; subst
       | H : negb (str_eqb _ _) = true |- _ => apply str_eqb_false_of_negb in H
       | H : is_member _ _ = true |- _ => rewrite H
       | H : str_eqb _ _ = false |- _ => rewrite H
       end.
  all: simpl; rewrite ?String.eqb_refl; try reflexivity.
  all: try (destruct nk; try discriminate; simpl; rewrite ?String.eqb_refl; reflexivity).
  all: try (destruct b; reflexivity).
Qed.

Lemma no_comma_cons c s : no_comma (c :: s) = true -> N.eqb c comma = false /\ no_comma s = true.
Proof.
  unfold no_comma. simpl. intro H. apply negb_true_iff in H. apply orb_false_iff in H as [H1 H2].
  rewrite N.eqb_sym. split; [exact H1 | rewrite H2; reflexivity].
Qed.

Lemma split_comma_nocomma s : forall cur, no_comma s = true -> split_comma s cur = [rev cur ++ s].
Proof.
  induction s as [|c s IH]; intros cur H; simpl.
  - rewrite app_nil_r. reflexivity.
  - apply no_comma_cons in H as [H1 H2]. rewrite H1. rewrite IH by exact H2.
    simpl. rewrite <- app_assoc. reflexivity.
Qed.

Lemma split_comma_pair r t : forall cur, no_comma r = true -> no_comma t = true ->
  split_comma (r ++ comma :: t) cur = [rev cur ++ r; t].
Proof.
  induction r as [|c r IH]; intros cur Hr Ht; simpl.
  - rewrite ?N.eqb_refl. rewrite app_nil_r. rewrite split_comma_nocomma by exact Ht. reflexivity.
  - apply no_comma_cons in Hr as [H1 H2]. rewrite H1. rewrite IH by assumption.
    simpl. rewrite <- app_assoc. reflexivity.
Qed.

Lemma rsplit_nocomma t : no_comma t = true -> rsplit_comma t = None.
Proof.
  induction t as [|c t IH]; intro H; [reflexivity|].
  apply no_comma_cons in H as [H1 H2]. simpl. rewrite (IH H2). rewrite H1. reflexivity.
Qed.

Lemma rsplit_pair r t : no_comma t = true -> rsplit_comma (r ++ comma :: t) = Some (r, t).
Proof.
  intro Ht. induction r as [|c r IH]; simpl.
  - rewrite (rsplit_nocomma t Ht). reflexivity.
  - rewrite IH. reflexivity.
Qed.

Lemma core_pair_primary k a x y g dc st o ov :
  inv_ok (RPrimary (EImagePair y)) dc st = true ->
  val_ok k (RPrimary (EImagePair y)) dc st a x = true ->
  alookup x a = Some ov ->
  to_entry_val a (x, g, EImagePair y) = Ok o ->
  bind (dec_val k dc (out_str o)) (apply_setter st) = Ok (expected dc ov).
Proof.
  intros Hinv Hval Hx Hto.
  destruct dc as [ |c nk|en| |df|c|i|i]; simpl in Hinv; try discriminate.
  all: destruct i; [|discriminate].
  all: destruct st as [[c'|]| | | |[c'|]]; simpl in Hinv; try discriminate.
  all: unfold val_ok, aget in Hval; unfold to_entry_val in Hto; rewrite Hx in Hval, Hto.
  all: destruct ov as [[r| | | | | | ]|]; try discriminate.
  all: try (destruct (alookup y a) as [[vy|]|]; try discriminate; inversion Hto; subst o; reflexivity).
  - destruct (alookup y a) as [[[t| | | | | | ]|]|]; try discriminate.
    apply andb_true_iff in Hval as [Hr Ht]. simpl in Hr.
    simpl in Hto. inversion Hto; subst o. simpl.
    rewrite (split_comma_pair r t [] Hr Ht). reflexivity.
  - destruct (alookup y a) as [[[t| | | | | | ]|]|]; try discriminate.
    apply andb_true_iff in Hval as [Hr Ht].
    simpl in Hto. inversion Hto; subst o. simpl.
    rewrite (rsplit_pair r t Ht). reflexivity.
Qed.

Lemma core_pair_partner k a x x0 g dc st o ov :
  inv_ok (RPartner x0) dc st = true ->
  val_ok k (RPartner x0) dc st a x = true ->
  alookup x a = Some ov ->
  to_entry_val a (x0, g, EImagePair x) = Ok o ->
  bind (dec_val k dc (out_str o)) (apply_setter st) = Ok (expected dc ov).
Proof.
  intros Hinv Hval Hx Hto.
  destruct dc as [ |c nk|en| |df|c|i|i]; simpl in Hinv; try discriminate.
  all: destruct i as [|[|i]]; try discriminate.
  all: destruct st as [[c'|]| | | |[c'|]]; simpl in Hinv; try discriminate.
  all: unfold val_ok, aget in Hval; unfold to_entry_val in Hto; rewrite Hx in Hval, Hto.
  all: destruct (alookup x0 a) as [[[r| | | | | | ]|]|]; try discriminate.
  all: try (destruct ov as [v|]; try discriminate; inversion Hto; subst o; reflexivity).
  - destruct ov as [[t| | | | | | ]|]; try discriminate.
    apply andb_true_iff in Hval as [Hr Ht]. simpl in Hr.
    simpl in Hto. inversion Hto; subst o. simpl.
    rewrite (split_comma_pair r t [] Hr Ht). reflexivity.
  - destruct ov as [[t| | | | | | ]|]; try discriminate.
    apply andb_true_iff in Hval as [Hr Ht].
    simpl in Hto. inversion Hto; subst o. simpl.
    rewrite (rsplit_pair r t Ht). reflexivity.
Qed.

(* ---------- D. assembling ---------- *)
Lemma list_eqb_string_eq : forall a b, list_eqb String.eqb a b = true -> a = b.
Proof.
  induction a as [|x a IH]; destruct b as [|y b]; simpl; intro H; try discriminate; [reflexivity|].
  apply andb_true_iff in H as [H1 H2]. apply String.eqb_eq in H1. f_equal; [exact H1 | apply IH; exact H2].
Qed.

Lemma find_unique {A} (f : A -> option string) (l : list A) x a :
  NoDup (flat_map (fun b => match f b with Some y => [y] | None => [] end) l) ->
  In a l -> f a = Some x ->
  find (fun b => match f b with Some y => String.eqb y x | None => false end) l = Some a.
Proof.
  induction l as [|b l IH]; simpl; intros ND Hin Hf; [contradiction|].
  destruct Hin as [E|Hin].
  - subst b. rewrite Hf. rewrite String.eqb_refl. reflexivity.
  - destruct (f b) as [y|] eqn:Eb.
    + simpl in ND. inversion ND as [|? ? NI ND']; subst.
      destruct (String.eqb y x) eqn:E.
      * apply String.eqb_eq in E. subst y. exfalso. apply NI.
        apply in_flat_map. exists a. split; [exact Hin|]. rewrite Hf. left. reflexivity.
      * apply IH; assumption.
    + apply IH; assumption.
Qed.

Lemma bind_pair {A B} (m : res A) (f : A -> res B) (x : string) w :
  bind m f = Ok w -> bind m (fun v => bind (f v) (fun v' => Ok (x, v'))) = Ok (x, w).
Proof. destruct m; simpl; [|discriminate]. intro H. rewrite H. reflexivity. Qed.

Lemma pget_out g P o :
  alookup g P = match o with Some p => Some p | None => None end -> pget g P = out_str o.
Proof. unfold pget. intro H. rewrite H. destruct o as [[s|]|]; reflexivity. Qed.

Lemma to_entry_ok k a x g e dc st ov :
  val_ok k (RPrimary e) dc st a x = true -> alookup x a = Some ov ->
  is_ok (to_entry_val a (x, g, e)) = true.
Proof.
  intros Hval Hx. unfold val_ok, aget in Hval. unfold to_entry_val. rewrite Hx in *.
  destruct e.
  7: { destruct ov as [[r| | | | | | ]|]; try discriminate.
       - destruct (alookup partner a) as [[[t| | | | | | ]|]|]; try discriminate. reflexivity.
       - destruct (alookup partner a) as [[vy|]|]; reflexivity. }
  all: destruct dc as [ |c nk|en| |df|c|i|i]; try discriminate;
       destruct st as [[c'|]| | | |[c'|]]; try discriminate;
       destruct ov as [[]|]; try discriminate; try reflexivity.
Qed.

Lemma alookup_normalize k (a : attrs) x ov :
  alookup x a = Some ov ->
  alookup x (normalize k a) = Some (match ov with Some v => Some v | None => absent_reads k x end).
Proof.
  unfold normalize. induction a as [|[x' o'] r IH]; simpl; intro H; [discriminate|].
  destruct (String.eqb x x') eqn:E.
  - apply String.eqb_eq in E. subst. inversion H; subst. reflexivity.
  - apply IH. exact H.
Qed.

Lemma normalize_keys k (a : attrs) : akeys (normalize k a) = akeys a.
Proof. unfold normalize, akeys. rewrite map_map. simpl. reflexivity. Qed.

Lemma to_entry_none_ok a x g e : alookup x a = Some None -> is_ok (to_entry_val a (x, g, e)) = true.
Proof.
  intro Hx. unfold to_entry_val. rewrite Hx. destruct e; try reflexivity.
Qed.

Lemma wf_parts k a : attrs_wf k a = true ->
  akeys a = data_attrs k /\ (forall x, In x (data_attrs k) -> attr_ok k a x = true).
Proof.
  intro Hwf. unfold attrs_wf in Hwf. apply andb_true_iff in Hwf as [H1 H2]. split.
  - apply list_eqb_string_eq. exact H1.
  - intros x Hx. rewrite forallb_forall in H2. apply (H2 x Hx).
Qed.

Section RoundTrip.
  Variable k : kind.
  Variable a : attrs.
  Hypothesis Hsym : tables_symmetric k = true.
  Hypothesis Hkeys : akeys a = data_attrs k.

  Lemma sym_parts :
    NoDup (data_attrs k) /\ NoDup (map gp (to_table k)) /\ NoDup (map at_ (to_table k)) /\ NoDup (targets k)
    /\ (forall fe, In fe (from_table k) -> exists x, target k fe = Some x /\ In x (data_attrs k))
    /\ (forall te, In te (to_table k) -> In (at_ te) (data_attrs k))
    /\ (forall te, In te (to_table k) -> partner_ok k te = true)
    /\ (forall x, In x (data_attrs k) -> entry_ok k x = true).
  Proof.
    pose proof Hsym as Hs. unfold tables_symmetric in Hs. repeat rewrite andb_true_iff in Hs.
    destruct Hs as [[[[[[[[S1 S2] S3] S4] S5] S6] S7] S8] S9].
    split; [apply nodupb_NoDup; exact S1|].
    split; [apply nodupb_NoDup; exact S2|].
    split; [apply nodupb_NoDup; exact S3|].
    split; [apply nodupb_NoDup; exact S4|].
    split; [|split; [|split]].
    - intros fe Hfe. rewrite forallb_forall in S5. specialize (S5 fe Hfe).
      destruct (target k fe) as [x|]; [|discriminate]. exists x. split; [reflexivity|]. apply mem_true_iff. exact S5.
    - intros te Hte. rewrite forallb_forall in S6. apply mem_true_iff. apply (S6 te Hte).
    - intros te Hte. rewrite forallb_forall in S7. apply (S7 te Hte).
    - intros x Hx. rewrite forallb_forall in S8. apply (S8 x Hx).
  Qed.

  (* the to-entry that writes attribute x, when x has a statement of its own *)
  Lemma to_for_primary x g e :
    to_for k x = Some (g, RPrimary e) -> In (x, g, e) (to_table k).
  Proof.
    unfold to_for. destruct (find (fun te => String.eqb (fst (fst te)) x) (to_table k)) as [[[x' g'] e']|] eqn:Ef.
    - intro H. inversion H; subst. apply find_some in Ef as [Hin He]. simpl in He.
      apply String.eqb_eq in He. subst. exact Hin.
    - destruct (find (is_partner_of x) (to_table k)) as [[[x0 g0] e0]|]; intro H; discriminate.
  Qed.

  Lemma to_for_partner x g x0 :
    to_for k x = Some (g, RPartner x0) -> In (x0, g, EImagePair x) (to_table k).
  Proof.
    unfold to_for. destruct (find (fun te => String.eqb (fst (fst te)) x) (to_table k)) as [[[x' g'] e']|] eqn:Ef.
    - intro H. discriminate.
    - destruct (find (is_partner_of x) (to_table k)) as [[[x1 g1] e1]|] eqn:Ep; intro H; [|discriminate].
      inversion H; subst. apply find_some in Ep as [Hin He]. unfold is_partner_of in He. simpl in He.
      destruct e1; try discriminate. apply String.eqb_eq in He. subst. exact Hin.
  Qed.

  Lemma in_to_table_to_for x g e : In (x, g, e) (to_table k) -> to_for k x = Some (g, RPrimary e).
  Proof.
    intro Hin. destruct sym_parts as [_ [_ [NDa _]]].
    unfold to_for.
    assert (F : find (fun te => match Some (at_ te) with Some y => String.eqb y x | None => false end) (to_table k)
                = Some (x, g, e)).
    { apply (find_unique (fun te => Some (at_ te))); [|exact Hin|reflexivity].
      clear - NDa. induction (to_table k) as [|t r IH]; simpl in *; [constructor|].
      inversion NDa; subst. constructor; [|apply IH; assumption].
      intro Hc. apply H1. clear - Hc. induction r as [|u r IH]; simpl in *; [contradiction|].
      destruct Hc as [Hc|Hc]; [left; exact Hc | right; apply IH; exact Hc]. }
    change (find (fun te => String.eqb (fst (fst te)) x) (to_table k) = Some (x, g, e)) in F.
    rewrite F. reflexivity.
  Qed.

  Lemma from_for_of_entry fe x :
    In fe (from_table k) -> target k fe = Some x ->
    exists st, find_setter k (fst (fst fe)) = Some (x, st) /\ from_for k x = Some (snd (fst fe), snd fe, st).
  Proof.
    intros Hin Ht. destruct sym_parts as [_ [_ [_ [NDt _]]]].
    unfold from_for. unfold targets in NDt.
    rewrite (find_unique (target k) (from_table k) x fe NDt Hin Ht).
    destruct fe as [[kw g] dc]. simpl. unfold target in Ht. simpl in Ht.
    destruct (find_setter k kw) as [[x' st]|]; [|discriminate].
    inversion Ht; subst. exists st. split; reflexivity.
  Qed.

  Lemma to_props_defined_weak :
    (forall x, In x (data_attrs k) -> aget x a = None \/ attr_ok k a x = true) ->
    exists P', to_props k a = Ok P'.
  Proof.
    intro Hweak.
    destruct sym_parts as [NDd [NDg [NDa [NDt [Hfrom [Hto [Hpart Hent]]]]]]].
    unfold to_props. apply to_props_entries_ok. intros [[x g] e] Hte.
    assert (Hxd := Hto _ Hte). unfold at_ in Hxd. simpl in Hxd.
    destruct (alookup_in_keys x a) as [ov Hov]; [rewrite Hkeys; exact Hxd|].
    destruct (Hweak x Hxd) as [Hn|Hattr_x].
    - unfold aget in Hn. rewrite Hov in Hn. subst ov. eapply to_entry_none_ok. exact Hov.
    - unfold attr_ok in Hattr_x.
      rewrite (in_to_table_to_for x g e Hte) in Hattr_x.
      destruct (from_for k x) as [[[g2 dc] st]|]; [|discriminate].
      eapply to_entry_ok; eauto.
  Qed.

  Variable P : props.
  Hypothesis HP : to_props k a = Ok P.

  Definition rd (fe : from_entry) : string * option fval :=
    match target k fe with
    | Some x => (x, match aget x a with Some v => Some v | None => absent_reads k x end)
    | None => (EmptyString, None)
    end.

  Lemma from_val_rd fe :
    In fe (from_table k) -> (forall x, target k fe = Some x -> attr_ok k a x = true) ->
    from_val k P fe = Ok (rd fe).
  Proof.
    intros Hin Hattr.
    destruct sym_parts as [NDd [NDg [NDa [NDt [Hfrom [Hto [Hpart Hent]]]]]]].
    destruct (Hfrom fe Hin) as [x [Htx Hxd]].
    destruct (from_for_of_entry fe x Hin Htx) as [st [Hfs Hff]].
    assert (Hent_x := Hent x Hxd). assert (Hattr_x := Hattr x Htx).
    unfold entry_ok in Hent_x. unfold attr_ok in Hattr_x. rewrite Hff in Hent_x, Hattr_x.
    destruct (to_for k x) as [[g1 r]|] eqn:Etf; [|discriminate].
    apply andb_true_iff in Hent_x as [Hg Hinv]. apply String.eqb_eq in Hg. subst g1.
    destruct (alookup_in_keys x a) as [ov Hov]; [rewrite Hkeys; exact Hxd|].
    unfold rd. rewrite Htx. unfold aget. rewrite Hov.
    unfold absent_reads. rewrite Hff.
    unfold from_val. rewrite Hfs.
    destruct fe as [[kw g] dc]. simpl in *.
    unfold to_props in HP.
    destruct (to_props_entries_spec a (to_table k) [] P NDg HP) as [Hspec _].
    assert (Hexp : expected dc ov = match ov with Some v => Some v | None =>
                     match dc with DFromJson c NKWrap => Some (FObj c None) | _ => None end end) by reflexivity.
    destruct r as [e|x0].
    - apply to_for_primary in Etf.
      destruct (Hspec _ Etf) as [o [Ho Hl]]. simpl in Hl. unfold gp in Hl. simpl in Hl.
      rewrite (pget_out g P o Hl).
      replace (match ov with Some v => Some v | None => match dc with
               | DFromJson c NKWrap => Some (FObj c None) | _ => None end end) with (expected dc ov)
        by (destruct ov; [reflexivity|]; destruct dc as [ |? []| | | | | | ]; reflexivity).
      apply bind_pair.
      destruct e; try (eapply core_primary; eauto; intros y Hy; discriminate).
      eapply core_pair_primary; eauto.
    - apply to_for_partner in Etf.
      destruct (Hspec _ Etf) as [o [Ho Hl]]. simpl in Hl. unfold gp in Hl. simpl in Hl.
      rewrite (pget_out g P o Hl).
      replace (match ov with Some v => Some v | None => match dc with
               | DFromJson c NKWrap => Some (FObj c None) | _ => None end end) with (expected dc ov)
        by (destruct ov; [reflexivity|]; destruct dc as [ |? []| | | | | | ]; reflexivity).
      apply bind_pair. eapply core_pair_partner; eauto.
  Qed.

  Lemma map_rd_keys : akeys (map rd (from_table k)) = targets k.
  Proof.
    destruct sym_parts as [_ [_ [_ [_ [Hfrom _]]]]].
    unfold targets, akeys. induction (from_table k) as [|fe F IH]; simpl; [reflexivity|].
    destruct (Hfrom fe (or_introl eq_refl)) as [x [Hx _]]. unfold rd at 1. rewrite Hx. simpl.
    f_equal. apply IH. intros fe' H'. apply Hfrom. right. exact H'.
  Qed.

  Hypothesis Hattr : forall x, In x (data_attrs k) -> attr_ok k a x = true.

  Lemma from_props_value : from_props k P = Ok (asets (map rd (from_table k)) (blank k)).
  Proof.
    unfold from_props. apply fold_from_build.
    assert (H : forall fe, In fe (from_table k) -> from_val k P fe = Ok (rd fe)).
    { intros fe Hfe. apply from_val_rd; [exact Hfe|]. intros x Hx. apply Hattr.
      destruct sym_parts as [_ [_ [_ [_ [Hfrom _]]]]]. destruct (Hfrom fe Hfe) as [x' [Hx' Hd]].
      rewrite Hx in Hx'. inversion Hx'; subst. exact Hd. }
    induction (from_table k) as [|fe F IH]; simpl; constructor.
    - apply H. left; reflexivity.
    - apply IH. intros fe' H'. apply H. right; exact H'.
  Qed.

  Lemma roundtrip_value : asets (map rd (from_table k)) (blank k) = normalize k a.
  Proof.
    destruct sym_parts as [NDd [NDg [NDa [NDt [Hfrom [Hto [Hpart Hent]]]]]]].
    assert (HK : akeys (asets (map rd (from_table k)) (blank k)) = akeys (blank k)).
    { apply asets_keys. intros xv Hxv. apply in_map_iff in Hxv as [fe [E Hfe]]. subst xv.
      destruct (Hfrom fe Hfe) as [x [Hx Hd]]. unfold rd. rewrite Hx. simpl. exact Hd. }
    apply assoc_ext.
    - rewrite HK, normalize_keys, Hkeys. reflexivity.
    - rewrite HK. exact NDd.
    - intros x Hx. rewrite HK in Hx. change (In x (data_attrs k)) in Hx.
      assert (He := Hent x Hx). unfold entry_ok in He.
      destruct (to_for k x) as [[g1 r]|]; [|discriminate].
      destruct (from_for k x) as [[[g2 dc] st]|] eqn:Eff; [|discriminate].
      unfold from_for in Eff.
      destruct (find (fun fe => match target k fe with Some y => String.eqb y x | None => false end) (from_table k))
        as [fe|] eqn:Efind; [|discriminate].
      apply find_some in Efind as [Hfe Ht].
      destruct (target k fe) as [y|] eqn:Ety; [|discriminate]. apply String.eqb_eq in Ht. subst y.
      destruct (alookup_in_keys x a) as [ov Hov]; [rewrite Hkeys; exact Hx|].
      rewrite (alookup_normalize k a x ov Hov).
      apply asets_lookup_in.
      + rewrite map_rd_keys. exact NDt.
      + apply in_map_iff. exists fe. split; [|exact Hfe]. unfold rd. rewrite Ety. unfold aget. rewrite Hov. reflexivity.
  Qed.

End RoundTrip.

(* from_props (to_props a) is the normalized a, for every class whose tables pass the check *)
Theorem props_roundtrip_generic k a :
  tables_symmetric k = true -> attrs_wf k a = true ->
  bind (to_props k a) (from_props k) = Ok (normalize k a).
Proof.
  intros Hs Hw. destruct (wf_parts k a Hw) as [Hk Ha].
  destruct (to_props_defined_weak k a Hs Hk) as [P HP]; [intros x Hx; right; apply Ha; exact Hx|].
  rewrite HP. simpl.
  rewrite (from_props_value k a Hs Hk P HP Ha). f_equal. apply roundtrip_value; assumption.
Qed.

Lemma normalize_normal k a : is_normal k a = true -> normalize k a = a.
Proof.
  unfold is_normal, normalize. induction a as [|[x o] r IH]; simpl; intro H; [reflexivity|].
  apply andb_true_iff in H as [H1 H2]. rewrite IH by exact H2. f_equal.
  destruct o; [reflexivity|]. destruct (absent_reads k x); [discriminate | reflexivity].
Qed.

Lemma normalize_absent_none k a :
  absent_none k = true -> akeys a = data_attrs k -> normalize k a = a.
Proof.
  intros Hn Hk. unfold absent_none in Hn. rewrite forallb_forall in Hn. rewrite <- Hk in Hn. clear Hk.
  unfold normalize. induction a as [|[x o] r IH]; simpl; [reflexivity|].
  rewrite IH by (intros y Hy; apply Hn; right; exact Hy). f_equal.
  destruct o; [reflexivity|]. specialize (Hn x (or_introl eq_refl)).
  destruct (absent_reads k x); [discriminate | reflexivity].
Qed.

Theorem props_roundtrip_exact_generic k a :
  tables_symmetric k = true -> absent_none k = true -> attrs_wf k a = true ->
  bind (to_props k a) (from_props k) = Ok a.
Proof.
  intros Hs Hn Hw. rewrite (props_roundtrip_generic k a Hs Hw).
  rewrite (normalize_absent_none k a Hn); [reflexivity|]. apply (wf_parts k a Hw).
Qed.

(* C14 - sunmerge key by key; unmerge is the inverse of merge; the invariant of all histories
   (elements appear once, contributors exact, delegations keyed by a contributor, union of the merged
   models); rollback; witness of the way the code falls short (connection residue). *)
From Coq Require Import List NArith Bool Lia Permutation.
From FIM Require Import Model.Cbm14Spec Proofs.Cbm14Assoc Proofs.Cbm14Merge.
Import ListNotations.
Open Scope N_scope.

Definition nodup_keys (C : cbm) : Prop := NoDup (map fst (nodes C)) /\ NoDup (map fst (edges C)).

Lemma smerge_nodup C A C' : wf_adm A -> nodup_keys C -> smerge C A = Some C' -> nodup_keys C'.
Proof.
  intros (WA1 & WA2 & _) [N1 N2] H. apply smerge_Some in H as (_ & Hn & He). unfold nodup_keys.
  rewrite Hn, He. unfold merge_nodes, merge_edges. split.
  - apply NoDup_keys_app.
    + rewrite (keys_map (fun k c => match getn k (adm_nodes A) with Some a => upd (adm_id A) a c | None => c end)). exact N1.
    + rewrite (keys_map (fun _ a => stamp (adm_id A) a)). apply NoDup_keys_filter. exact WA1.
    + intros k H1 H2.
      rewrite (keys_map (fun k c => match getn k (adm_nodes A) with Some a => upd (adm_id A) a c | None => c end)) in H1.
      rewrite (keys_map (fun _ a => stamp (adm_id A) a)) in H2.
      apply in_map_iff in H2 as ([k' a] & E & Hin). simpl in E; subst k'.
      apply filter_In in Hin as [_ Hq]. simpl in Hq.
      apply (has_true_iff N.eqb Neq) in H1. unfold hasn in Hq. rewrite H1 in Hq. discriminate.
  - apply NoDup_keys_app.
    + exact N2.
    + apply NoDup_keys_filter. exact WA2.
    + intros k H1 H2.
      apply in_map_iff in H2 as ([k' a] & E & Hin). simpl in E; subst k'.
      apply filter_In in Hin as [_ Hq]. simpl in Hq.
      apply (has_true_iff ekey_eqb ekey_eqb_eq) in H1. unfold hase in Hq. rewrite H1 in Hq. discriminate.
Qed.

(* ---------- sunmerge, key by key ---------- *)
Lemma sunmerge_get_node C g k :
  NoDup (map fst (nodes C)) ->
  getn k (nodes (sunmerge C g)) =
  match getn k (nodes C) with
  | Some c => if alive (unm g c) then Some (unm g c) else None
  | None => None
  end.
Proof.
  intro ND. unfold sunmerge; simpl. unfold getn.
  rewrite (get_filter_val N.eqb Neq (fun kc => alive (snd kc))).
  - rewrite (get_map N.eqb Neq (fun _ c => unm g c)). destruct (get N.eqb k (nodes C)); reflexivity.
  - rewrite (keys_map (fun _ c => unm g c)). exact ND.
Qed.

Lemma sunmerge_get_edge C g e :
  NoDup (map fst (edges C)) ->
  gete e (edges (sunmerge C g)) =
  match gete e (edges C) with
  | Some d => if hasn (fst e) (nodes (sunmerge C g)) && hasn (snd e) (nodes (sunmerge C g)) then Some d else None
  | None => None
  end.
Proof.
  intro ND. unfold sunmerge at 1; simpl. unfold gete.
  rewrite (get_filter_val ekey_eqb ekey_eqb_eq); auto.
Qed.

Lemma sunmerge_nodup C g : nodup_keys C -> nodup_keys (sunmerge C g).
Proof.
  intros [N1 N2]. unfold nodup_keys, sunmerge; simpl. split.
  - apply NoDup_keys_filter. rewrite (keys_map (fun _ c => unm g c)). exact N1.
  - apply NoDup_keys_filter. exact N2.
Qed.

(* ---------- unmerge is the inverse of merge ---------- *)
Definition keyed (C : cbm) : Prop :=
  forall k c g x, getn k (nodes C) = Some c -> (c_ld c = Some (g, x) \/ c_cd c = Some (g, x)) -> In g (c_con c).
Definition no_dangling (C : cbm) : Prop :=
  forall e, hase e (edges C) = true -> hasn (fst e) (nodes C) = true /\ hasn (snd e) (nodes C) = true.
Definition all_alive (C : cbm) : Prop := forall k c, getn k (nodes C) = Some c -> alive c = true.
(* what every combined model built by the operations satisfies (see hinv_all below) *)
Definition wf_cbm (C : cbm) : Prop := nodup_keys C /\ all_alive C /\ keyed C /\ no_dangling C.
Definition not_contributor (g : N) (C : cbm) : Prop :=
  forall k c, getn k (nodes C) = Some c -> ~ In g (c_con c).
(* the merged model brings no connection between two elements that are already there *)
Definition no_new_inner_edges (C : cbm) (A : adm) : Prop :=
  forall e, hase e (adm_edges A) = true -> hasn (fst e) (nodes C) = true -> hasn (snd e) (nodes C) = true ->
            hase e (edges C) = true.

Lemma filter_notin g l : ~ In g l -> filter (fun x => negb (x =? g)) l = l.
Proof.
  induction l as [|x r IH]; simpl; auto. intro H.
  destruct (x =? g) eqn:E; simpl.
  - apply N.eqb_eq in E; subst. exfalso; apply H; auto.
  - rewrite IH; auto.
Qed.

Lemma filter_app_self g l : ~ In g l -> filter (fun x => negb (x =? g)) (l ++ [g]) = l.
Proof.
  intro H. rewrite filter_app, filter_notin; auto. simpl. rewrite N.eqb_refl. simpl. apply app_nil_r.
Qed.

Lemma drop_d_other g d : (forall g' x, d = Some (g', x) -> g' <> g) -> drop_d g d = d.
Proof.
  destruct d as [[g' x]|]; simpl; auto. intro H.
  destruct (g' =? g) eqn:E; auto. apply N.eqb_eq in E. exfalso. eapply H; eauto.
Qed.

Lemma drop_join g c a : (forall g' x, c = Some (g', x) -> g' <> g) -> drop_d g (join_d g c a) = c.
Proof.
  destruct c as [[g' x]|]; simpl.
  - intro H. destruct (g' =? g) eqn:E; auto. apply N.eqb_eq in E. exfalso. eapply H; eauto.
  - intros _. destruct a; simpl; auto. rewrite N.eqb_refl. reflexivity.
Qed.

Lemma unm_upd g a c :
  ~ In g (c_con c) -> (forall g' x, c_ld c = Some (g', x) -> g' <> g) -> (forall g' x, c_cd c = Some (g', x) -> g' <> g) ->
  unm g (upd g a c) = c.
Proof.
  intros H1 H2 H3. destruct c as [cl ot co ld cd]; unfold unm, upd; simpl in *.
  rewrite filter_app_self, !drop_join; auto.
Qed.

Lemma unm_same g c :
  ~ In g (c_con c) -> (forall g' x, c_ld c = Some (g', x) -> g' <> g) -> (forall g' x, c_cd c = Some (g', x) -> g' <> g) ->
  unm g c = c.
Proof.
  intros H1 H2 H3. destruct c as [cl ot co ld cd]; unfold unm; simpl in *.
  rewrite filter_notin, !drop_d_other; auto.
Qed.

Lemma unmerge_nodes C A C' k :
  wf_cbm C -> wf_adm A -> not_contributor (adm_id A) C -> smerge C A = Some C' ->
  getn k (nodes (sunmerge C' (adm_id A))) = getn k (nodes C).
Proof.
  intros (ND & AL & KY & _) WA NC H.
  pose proof (smerge_nodup _ _ _ WA ND H) as [ND' _].
  rewrite sunmerge_get_node; auto. rewrite (smerge_get_node _ _ _ k H).
  destruct (getn k (nodes C)) as [c|] eqn:Hc.
  - assert (forall g' x, c_ld c = Some (g', x) -> g' <> adm_id A) as K1.
    { intros g' x E E'. subst. eapply NC; eauto. }
    assert (forall g' x, c_cd c = Some (g', x) -> g' <> adm_id A) as K2.
    { intros g' x E E'. subst. eapply NC; eauto. }
    destruct (getn k (adm_nodes A)).
    + rewrite unm_upd; eauto. rewrite (AL k c Hc). reflexivity.
    + rewrite unm_same; eauto. rewrite (AL k c Hc). reflexivity.
  - destruct (getn k (adm_nodes A)); auto.
    unfold unm, stamp, alive; simpl. rewrite N.eqb_refl. reflexivity.
Qed.

Lemma unmerge_edges C A C' e :
  wf_cbm C -> wf_adm A -> not_contributor (adm_id A) C -> no_new_inner_edges C A -> smerge C A = Some C' ->
  gete e (edges (sunmerge C' (adm_id A))) = gete e (edges C).
Proof.
  intros WC WA NC NI H. pose proof WC as (ND & AL & KY & DG).
  pose proof (smerge_nodup _ _ _ WA ND H) as [_ ND'].
  rewrite sunmerge_get_edge; auto.
  assert (forall k, hasn k (nodes (sunmerge C' (adm_id A))) = hasn k (nodes C)) as HH.
  { intro k. unfold hasn, has. fold (@getn cnode). rewrite (unmerge_nodes C A C' k); auto. }
  rewrite !HH. rewrite (smerge_get_edge _ _ _ e H).
  destruct (gete e (edges C)) as [d|] eqn:Ec.
  - assert (hase e (edges C) = true) as X by (unfold hase, has; fold (@gete edata); rewrite Ec; reflexivity).
    destruct (DG e X) as [-> ->]. reflexivity.
  - destruct (gete e (adm_edges A)) as [d|] eqn:Ea; auto.
    destruct (hasn (fst e) (nodes C)) eqn:X1, (hasn (snd e) (nodes C)) eqn:X2; simpl; auto.
    assert (hase e (adm_edges A) = true) as Y by (unfold hase, has; fold (@gete edata); rewrite Ea; reflexivity).
    specialize (NI e Y X1 X2). unfold hase, has in NI. fold (@gete edata) in NI. rewrite Ec in NI. discriminate.
Qed.

Theorem unmerge_inverse C A C' :
  wf_cbm C -> wf_adm A -> not_contributor (adm_id A) C -> no_new_inner_edges C A ->
  smerge C A = Some C' -> eqv (sunmerge C' (adm_id A)) C.
Proof.
  intros WC WA NC NI H. split.
  - intro k. rewrite (unmerge_nodes C A C' k); auto; try apply WC.
    destruct (getn k (nodes C)); simpl; auto using eqv_node_refl.
  - intro e. apply (unmerge_edges C A C' e); auto.
Qed.

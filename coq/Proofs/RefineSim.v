(* C05: forward simulation between the graph-object methods over one nx.Graph (Model/Store.v, used by
   both storage flavours) and the reference model (Model/PGSpec.v), through the abstraction
   abs_nxg G g = reference graph of what graph id g sees of G. *)
From Coq Require Import List NArith Bool Lia.
From FIM Require Import Base.Assoc Model.Store Model.StoreDisjoint Model.PGSpec.
From FIM Require Import Proofs.IsolationBase Proofs.IsolationShared Proofs.IsolationFrame Proofs.RefineUnique.
Import ListNotations.
Open Scope N_scope.

(* ---------- generic list facts ---------- *)
Lemma NoDup_map_fst_filter {B} (f : N * B -> bool) (l : list (N * B)) :
  NoDup (map fst l) -> NoDup (map fst (filter f l)).
Proof.
  induction l as [|[i q] r IH]; simpl; intro H; [constructor|]. inversion H; subst.
  destruct (f (i, q)); simpl; [constructor|]; auto.
  intro Hin. apply H2. apply in_map_iff in Hin as [x [E Hx]]. apply filter_In in Hx as [Hx _].
  apply in_map_iff. eauto.
Qed.

Lemma filter_filter_and {A} (f h : A -> bool) l : filter f (filter h l) = filter (fun x => h x && f x) l.
Proof. induction l as [|x r IH]; simpl; [reflexivity|]. destruct (h x); simpl; [destruct (f x)|]; now rewrite IH. Qed.

Lemma filter_map_snd {A B} (f : B -> bool) (l : list (A * B)) :
  filter f (map snd l) = map snd (filter (fun x => f (snd x)) l).
Proof. induction l as [|[a b] r IH]; simpl; [reflexivity|]. destruct (f b); simpl; now rewrite IH. Qed.

Lemma find_filter_pass {A} (f h : A -> bool) l :
  (forall x, f x = true -> h x = true) -> find f (filter h l) = find f l.
Proof.
  intro H. induction l as [|x r IH]; simpl; [reflexivity|].
  destruct (h x) eqn:Eh; simpl.
  - destruct (f x); [reflexivity | exact IH].
  - destruct (f x) eqn:Ef; [rewrite (H x Ef) in Eh; discriminate | exact IH].
Qed.

Lemma find_map {A B} (f : B -> bool) (K : A -> B) l :
  find f (map K l) = option_map K (find (fun x => f (K x)) l).
Proof. induction l as [|x r IH]; simpl; [reflexivity|]. destruct (f (K x)); [reflexivity | exact IH]. Qed.

Lemma find_ext_in {A} (f h : A -> bool) l : (forall x, In x l -> f x = h x) -> find f l = find h l.
Proof.
  intro H. induction l as [|x r IH]; simpl; [reflexivity|].
  rewrite (H x (or_introl eq_refl)). destruct (h x); [reflexivity|]. apply IH. intros; apply H; now right.
Qed.

Lemma filter_set_node_in (f : node -> bool) x ps ps' l :
  aget x l = Some ps -> f (x, ps) = true -> f (x, ps') = true ->
  filter f (set_node x ps' l) = set_node x ps' (filter f l).
Proof.
  induction l as [|[i q] r IH]; [reflexivity|]. cbn [aget set_node]. intros Hget H1 H2.
  rewrite N.eqb_sym in Hget. destruct (N.eqb i x) eqn:E.
  - apply N.eqb_eq in E; subst i. inversion Hget; subst q. cbn [filter]. rewrite H1, H2. cbn [set_node].
    now rewrite N.eqb_refl.
  - cbn [filter]. destruct (f (i, q)); cbn [set_node]; [rewrite E; f_equal|]; now apply IH.
Qed.

Lemma skey_is_nid_key q a : skey_is (nid_key q) a = nid_is a q.
Proof.
  unfold nid_key, nid_is, has_val. destruct (aget k_nodeid q) as [[x| |l|l]|]; reflexivity.
Qed.

(* every link joins two stored nodes (a structural fact of nx.Graph) *)
Definition EClosed (G : nxg) : Prop := forall a b ps, In (a, b, ps) (ge G) -> In a (ids G) /\ In b (ids G).

Lemma shape3 {A B C} (l : list (A * B)) (x y z : C) :
  (match map fst l with [] => x | [_] => y | _ => z end) = (match map snd l with [] => x | [_] => y | _ => z end).
Proof. destruct l as [|a [|b r]]; reflexivity. Qed.
Lemma shape2 {A B C} (l : list (A * B)) (x y : C) :
  (match map fst l with [] => x | _ => y end) = (match map snd l with [] => x | _ => y end).
Proof. destruct l as [|a r]; reflexivity. Qed.

(* ---------- the setting: one nx.Graph, one graph id ---------- *)
Section Sim.
Variable G : nxg.
Variable g : N.
Hypothesis Hnd : NoDup (ids G).
Hypothesis Hcl : EClosed G.

Definition vns : list node := fst (view G g).
Definition ves : list edge := snd (view G g).

Lemma abs_unfold : abs_nxg G g = mkSG (map snd vns) (map (abs_edge vns) ves).
Proof. reflexivity. Qed.

Lemma vns_nodup : NoDup (map fst vns).
Proof. unfold vns, view. simpl. now apply NoDup_map_fst_filter. Qed.

Lemma vns_ids : map fst vns = ids_in G g.
Proof. reflexivity. Qed.

Lemma vns_in i ps : In (i, ps) vns -> aget i vns = Some ps /\ nx_node G i = Some ps /\ in_g g (i, ps) = true.
Proof.
  intro H. split; [apply NoDup_In_aget; [apply vns_nodup | exact H]|].
  unfold vns, view in H. simpl in H. apply filter_In in H as [H1 H2]. split; [|exact H2].
  unfold nx_node. now apply NoDup_In_aget.
Qed.

Lemma vns_aget i ps : aget i vns = Some ps -> In (i, ps) vns.
Proof. apply aget_In. Qed.

(* the nodes of g that carry NodeID n *)
Definition FN (n : N) : list node := filter (fun nd => nid_is n (snd nd)) vns.

Lemma search_FN n : search G [(k_nodeid, n); (k_graphid, g)] = map fst (FN n).
Proof.
  unfold search, FN, vns, view. simpl. rewrite filter_filter_and. f_equal. apply filter_ext.
  intros [i ps]. unfold matches, in_g, nid_is. simpl. rewrite andb_true_r. apply andb_comm.
Qed.

Lemma spec_FN n : filter (nid_is n) (sn (abs_nxg G g)) = map snd (FN n).
Proof. rewrite abs_unfold. simpl. apply filter_map_snd. Qed.

Lemma find_node_FN n : find_node G g n = match FN n with [(x, _)] => Some x | _ => None end.
Proof.
  unfold find_node. rewrite search_FN. destruct (FN n) as [|[x ps] [|y r]]; reflexivity.
Qed.

Lemma sp_find_FN n : sp_find (abs_nxg G g) n = match FN n with [(_, ps)] => Some ps | _ => None end.
Proof.
  unfold sp_find. rewrite spec_FN. destruct (FN n) as [|[x ps] [|y r]]; reflexivity.
Qed.

Lemma FN_single n x ps :
  FN n = [(x, ps)] ->
  aget x vns = Some ps /\ nx_node G x = Some ps /\ in_g g (x, ps) = true /\ nid_is n ps = true /\
  (forall i q, In (i, q) vns -> nid_is n q = N.eqb i x).
Proof.
  intro H.
  assert (Hin : In (x, ps) (FN n)) by (rewrite H; now left).
  unfold FN in Hin. apply filter_In in Hin as [Hin Hn]. simpl in Hn.
  destruct (vns_in x ps Hin) as [A [B C]]. repeat split; auto.
  intros i q Hiq. destruct (nid_is n q) eqn:E.
  - assert (In (i, q) (FN n)) by (unfold FN; apply filter_In; now split).
    rewrite H in H0. destruct H0 as [H0|[]]. inversion H0; subst. symmetry. apply N.eqb_refl.
  - symmetry. apply N.eqb_neq. intro Eq. subst i.
    destruct (vns_in x q Hiq) as [A' _]. rewrite A in A'. inversion A'; subst q. congruence.
Qed.

(* ---------- node reads ---------- *)
Lemma sim_get_node n : pg_get_node G g n = sp_get_node (abs_nxg G g) n.
Proof.
  unfold pg_get_node, sp_get_node. rewrite find_node_FN, sp_find_FN.
  destruct (FN n) as [|[x ps] [|y r]] eqn:E; try reflexivity.
  destruct (FN_single n x ps E) as [_ [B _]]. now rewrite B.
Qed.

Lemma node_ids_of_vals (l : list node) :
  (forall i ps, In (i, ps) l -> nx_node G i = Some ps) ->
  node_ids_of G (map fst l) = vals_of (map snd l).
Proof.
  induction l as [|[i ps] r IH]; intro H; simpl; [reflexivity|].
  rewrite (H i ps (or_introl eq_refl)). rewrite IH by (intros; apply H; now right). reflexivity.
Qed.

Lemma search_vns preds :
  search G ((k_graphid, g) :: preds) = map fst (filter (fun nd => matches preds (snd nd)) vns).
Proof.
  unfold search, vns, view. simpl. rewrite filter_filter_and. f_equal.
Qed.

Lemma sim_by preds : ids_result G (search G ((k_graphid, g) :: preds)) = sp_by (abs_nxg G g) preds.
Proof.
  unfold ids_result, sp_by, vals_result. rewrite search_vns, abs_unfold. simpl.
  rewrite filter_map_snd. rewrite node_ids_of_vals; [reflexivity|].
  intros i ps Hin. apply filter_In in Hin as [Hin _]. now apply vns_in.
Qed.

Lemma find_all_vns : find_all G g = match vns with [] => None | _ => Some (map fst vns) end.
Proof.
  unfold find_all. rewrite search_graphid_ids_in, <- vns_ids. now destruct vns.
Qed.

Lemma sim_list_ids : pg_list_ids G g = sp_list_ids (abs_nxg G g).
Proof.
  unfold pg_list_ids, sp_list_ids. rewrite find_all_vns, abs_unfold. simpl.
  destruct vns as [|nd r] eqn:E; [reflexivity|].
  unfold ids_result, vals_result. rewrite <- E. rewrite node_ids_of_vals; [now rewrite E|].
  intros i ps Hin. now apply vns_in.
Qed.

Lemma sim_graph_exists : pg_graph_exists G g = sp_exists (abs_nxg G g).
Proof.
  unfold pg_graph_exists, sp_exists. rewrite search_graphid_ids_in, <- vns_ids, abs_unfold. simpl.
  now destruct vns.
Qed.

Lemma sim_node_exists n c : pg_node_exists G g n c = sp_node_exists (abs_nxg G g) n c.
Proof.
  unfold pg_node_exists, sp_node_exists. rewrite search_vns, abs_unfold. simpl. rewrite filter_map_snd.
  apply shape3.
Qed.

Lemma sim_unique c name : pg_unique G g c name = sp_unique (abs_nxg G g) c name.
Proof.
  unfold pg_unique, sp_unique. rewrite search_vns, abs_unfold. simpl. rewrite filter_map_snd.
  apply shape2.
Qed.

(* ---------- node updates ---------- *)
Lemma map_snd_set_node n x ps f (l : list node) :
  NoDup (map fst l) -> filter (fun nd => nid_is n (snd nd)) l = [(x, ps)] ->
  map snd (set_node x (f ps) l) = map (fun q => if nid_is n q then f q else q) (map snd l).
Proof.
  induction l as [|[i q] r IH]; [discriminate|]. cbn [map fst filter snd set_node]. intros Hnd' HF.
  inversion Hnd'; subst. destruct (nid_is n q) eqn:E.
  - injection HF as Ei Eq Etl. subst i q. rewrite N.eqb_refl. cbn [map snd]. f_equal.
    clear -Etl. induction r as [|[j q'] r IH]; [reflexivity|]. cbn [filter snd] in Etl. cbn [map snd].
    destruct (nid_is n q') eqn:E'; [discriminate|]. f_equal. now apply IH.
  - assert (Hx : In x (map fst r)).
    { assert (In (x, ps) (filter (fun nd => nid_is n (snd nd)) r)) by (rewrite HF; now left).
      apply filter_In in H as [H _]. change x with (fst (x, ps)). now apply in_map. }
    assert (N.eqb i x = false) by (apply N.eqb_neq; intro; subst; contradiction).
    rewrite H. cbn [map snd]. f_equal. now apply IH.
Qed.

Lemma key_nid_set_node x ps ps' a :
  aget x vns = Some ps -> nid_key ps' = nid_key ps -> key_nid (set_node x ps' vns) a = key_nid vns a.
Proof.
  intros Hx Hk. unfold key_nid. rewrite aget_set_node. destruct (N.eqb a x) eqn:E; [|reflexivity].
  apply N.eqb_eq in E; subst a. now rewrite Hx.
Qed.

(* what g sees after the properties of its node x were replaced, GraphID kept *)
Lemma view_set_node_in n x ps ps' :
  FN n = [(x, ps)] -> in_g g (x, ps') = true ->
  view (nx_set_node G x ps') g = (set_node x ps' vns, ves).
Proof.
  intros HF Hg. destruct (FN_single n x ps HF) as [A [B [C _]]].
  assert (E : filter (in_g g) (set_node x ps' (gn G)) = set_node x ps' vns).
  { unfold vns, view. simpl. now apply (filter_set_node_in (in_g g) x ps ps'). }
  unfold view, ids_in, nx_set_node. cbn [gn ge]. rewrite E. f_equal.
  rewrite map_fst_set_node. reflexivity.
Qed.

Lemma sim_node_update n f x ps :
  FN n = [(x, ps)] -> in_g g (x, f ps) = true -> nid_key (f ps) = nid_key ps ->
  abs_nxg (nx_set_node G x (f ps)) g = sp_map_node (abs_nxg G g) n f.
Proof.
  intros HF Hg Hk. destruct (FN_single n x ps HF) as [A _].
  unfold abs_nxg at 1. rewrite (view_set_node_in n x ps (f ps) HF Hg). unfold abs_of_view. cbn [fst snd].
  rewrite abs_unfold. unfold sp_map_node. cbn [sn se]. f_equal.
  - apply map_snd_set_node; [apply vns_nodup | exact HF].
  - apply map_ext. intros [[a b] q]. unfold abs_edge. now rewrite !(key_nid_set_node x ps (f ps)).
Qed.

Lemma nid_key_keeps ps ps' : keeps_identity ps ps' -> nid_key ps' = nid_key ps.
Proof.
  intro H.
  assert (K : forall x, has_val ps' k_nodeid x = has_val ps k_nodeid x) by (intro x; apply H).
  unfold nid_key. unfold has_val in K.
  destruct (aget k_nodeid ps') as [v'|]; destruct (aget k_nodeid ps) as [v|].
  - destruct v' as [a| |l|l]; destruct v as [b| |l'|l']; try reflexivity.
    + specialize (K a). simpl in K. rewrite N.eqb_refl in K. symmetry in K. apply N.eqb_eq in K. now subst.
    + specialize (K a). simpl in K. rewrite N.eqb_refl in K. discriminate.
    + specialize (K a). simpl in K. rewrite N.eqb_refl in K. discriminate.
    + specialize (K a). simpl in K. rewrite N.eqb_refl in K. discriminate.
    + specialize (K b). simpl in K. rewrite N.eqb_refl in K. discriminate.
    + specialize (K b). simpl in K. rewrite N.eqb_refl in K. discriminate.
    + specialize (K b). simpl in K. rewrite N.eqb_refl in K. discriminate.
  - destruct v' as [a| |l|l]; try reflexivity.
    specialize (K a). simpl in K. rewrite N.eqb_refl in K. discriminate.
  - destruct v as [b| |l|l]; try reflexivity.
    specialize (K b). simpl in K. rewrite N.eqb_refl in K. discriminate.
  - reflexivity.
Qed.

Lemma in_g_keeps x ps ps' : keeps_identity ps ps' -> in_g g (x, ps) = true -> in_g g (x, ps') = true.
Proof. intros H Hg. unfold in_g in *. simpl in *. destruct (H g) as [_ H2]. now rewrite H2. Qed.

(* a guarded single-node update whose function leaves NodeID / GraphID alone *)
Lemma sim_with_node (n : N) (guard : bool) (f : props -> props) :
  (forall ps, keeps_identity ps (f ps)) ->
  let impl := if guard then (G, Err EQuery) else
              match find_node G g n with
              | None => (G, Err EQuery)
              | Some id => match nx_node G id with
                           | None => (G, Err EOther)
                           | Some ps => (nx_set_node G id (f ps), Ok RUnit)
                           end
              end in
  abs_nxg (fst impl) g = fst (sp_with_node (abs_nxg G g) n guard f) /\
  snd impl = snd (sp_with_node (abs_nxg G g) n guard f).
Proof.
  intros Hf. cbv zeta. unfold sp_with_node. destruct guard; [split; reflexivity|].
  rewrite find_node_FN, sp_find_FN.
  destruct (FN n) as [|[x ps] [|y r]] eqn:E; try (split; reflexivity).
  destruct (FN_single n x ps E) as [A [B [C _]]]. rewrite B. cbn [fst snd]. split; [|reflexivity].
  apply sim_node_update; auto.
  - eapply in_g_keeps; eauto.
  - now apply nid_key_keeps.
Qed.

(* ---------- bulk update ---------- *)
Lemma filter_map_cond {A} (f : A -> bool) (F U : A -> A) l :
  (forall x, In x l -> f x = true -> f (F x) = true /\ F x = U x) ->
  (forall x, In x l -> f x = false -> f (F x) = false) ->
  filter f (map F l) = map U (filter f l).
Proof.
  induction l as [|x r IH]; intros H1 H2; [reflexivity|]. cbn [map filter].
  assert (IH' : filter f (map F r) = map U (filter f r))
    by (apply IH; intros; [apply H1 | apply H2]; auto; now right).
  destruct (f x) eqn:E.
  - destruct (H1 x (or_introl eq_refl) E) as [A1 A2]. rewrite A1, A2. cbn [map]. now rewrite IH'.
  - rewrite (H2 x (or_introl eq_refl) E). exact IH'.
Qed.

Lemma not_in_g_not_member i ps : In (i, ps) (gn G) -> in_g g (i, ps) = false -> memN i (ids_in G g) = false.
Proof.
  intros Hin Hg. apply memN_false. intro Hm. unfold ids_in in Hm.
  apply in_map_iff in Hm as [[j q] [Hj Hf]]. simpl in Hj; subst j. apply filter_In in Hf as [Hq Hgq].
  pose proof (NoDup_In_aget i q (gn G) Hnd Hq). pose proof (NoDup_In_aget i ps (gn G) Hnd Hin). congruence.
Qed.

Lemma aget_map_upd (U : props -> props) (l : list node) a :
  aget a (map (fun nd => (fst nd, U (snd nd))) l) = option_map U (aget a l).
Proof. induction l as [|[i q] r IH]; simpl; [reflexivity|]. destruct (N.eqb a i); [reflexivity | exact IH]. Qed.

Lemma sim_update_nodes p v :
  ident_key p = false ->
  abs_nxg (fst (pg_update_nodes G g p v)) g = fst (sp_update_nodes (abs_nxg G g) p v) /\
  snd (pg_update_nodes G g p v) = snd (sp_update_nodes (abs_nxg G g) p v).
Proof.
  intro Hp. apply orb_false_iff in Hp as [Hp1 Hp2]. apply N.eqb_neq in Hp1, Hp2.
  unfold pg_update_nodes, sp_update_nodes. rewrite find_all_vns. rewrite abs_unfold. cbn [sn se].
  destruct vns as [|nd0 r0] eqn:Ev; [cbn [fst snd map]; split; [rewrite abs_unfold, Ev|]; reflexivity|]. cbn [map].
  destruct (N.eqb p k_class); [cbn [fst snd map]; split; [rewrite abs_unfold, Ev|]; reflexivity|]. cbn [fst snd]. split; [|reflexivity].
  change (fst nd0 :: map fst r0) with (map fst (nd0 :: r0)). rewrite <- Ev. rewrite vns_ids.
  set (U := fun nd : node => (fst nd, aset p v (snd nd))).
  assert (E1 : filter (in_g g) (upd_nodes (ids_in G g) p v (gn G)) = map U vns).
  { unfold vns, view. cbn [fst]. unfold upd_nodes. apply filter_map_cond.
    - intros [i q] Hin Hg. cbn [fst snd]. split.
      + destruct (memN i (ids_in G g)); [|exact Hg]. unfold in_g in *. cbn [snd] in *.
        rewrite has_val_aset_other by congruence. exact Hg.
      + assert (memN i (ids_in G g) = true).
        { apply memN_In. unfold ids_in. apply in_map_iff. exists (i, q). split; [reflexivity|]. apply filter_In. now split. }
        now rewrite H.
    - intros [i q] Hin Hg. cbn [fst snd]. now rewrite (not_in_g_not_member i q Hin Hg). }
  unfold ids_in in E1.
  unfold abs_nxg, view, ids_in. cbn [gn ge]. rewrite E1. unfold abs_of_view. cbn [fst snd].
  change (aset p v (snd nd0) :: map (aset p v) (map snd r0)) with (map (aset p v) (map snd (nd0 :: r0))).
  rewrite <- Ev.
  f_equal.
  - rewrite !map_map. reflexivity.
  - match goal with |- context [filter (in_ids ?l) (ge G)] => assert (E2 : l = ids_in G g) end.
    { rewrite <- vns_ids. clear. induction vns as [|[i q] r IH]; [reflexivity|]. cbn [map fst]. now rewrite IH. }
    rewrite E2. change (filter (in_ids (ids_in G g)) (ge G)) with ves.
    apply map_ext. intros [[a b] q].
    unfold abs_edge, key_nid. unfold U. rewrite !aget_map_upd.
    assert (K : forall o, match option_map (aset p v) o with Some ps => nid_key ps | None => None end
                          = match o with Some ps => nid_key ps | None => None end).
    { intros [ps|]; [|reflexivity]. cbn [option_map]. unfold nid_key. now rewrite aget_aset_other by congruence. }
    now rewrite !K.
Qed.

(* ---------- add / delete node ---------- *)
Lemma aget_app_fresh (l : list node) i ps a : ~ In i (map fst l) -> In a (map fst l) -> aget a (l ++ [(i, ps)]) = aget a l.
Proof.
  intros Hi Ha. induction l as [|[j q] r IH]; [contradiction|]. cbn [app aget].
  destruct (N.eqb a j) eqn:E; [reflexivity|]. apply IH.
  - intro H. apply Hi. now right.
  - destruct Ha as [Ha|Ha]; [simpl in Ha; subst; rewrite N.eqb_refl in E; discriminate | exact Ha].
Qed.

Lemma ves_endpoints a b q : In (a, b, q) ves -> In a (map fst vns) /\ In b (map fst vns).
Proof.
  unfold ves, view. cbn [snd]. intro H. apply filter_In in H as [_ H]. unfold in_ids in H.
  apply andb_true_iff in H as [H1 H2]. apply memN_In in H1, H2. rewrite vns_ids. now split.
Qed.

Lemma sim_add_node newid n c ps G' :
  nx_node G newid = None ->
  match ps with Some u => ident_free u = true | None => True end ->
  pg_add_node G g newid n c ps = Some G' ->
  abs_nxg G' g = fst (sp_add_node (abs_nxg G g) g n c ps) /\ snd (sp_add_node (abs_nxg G g) g n c ps) = Ok RUnit.
Proof.
  intros Hfresh Hps Hadd. unfold pg_add_node in Hadd. unfold sp_add_node.
  assert (Es : search G [(k_graphid, g); (k_nodeid, n)] = map fst (FN n)).
  { rewrite <- search_FN. unfold search. f_equal. apply filter_ext. intros [i q]. unfold matches. simpl.
    rewrite !andb_true_r. apply andb_comm. }
  rewrite Es in Hadd. rewrite spec_FN.
  destruct (FN n) as [|x r] eqn:EF; [|discriminate]. cbn [map fst snd].
  set (base := blank_attrs g n c) in *.
  set (final := match ps with Some u => aupdate u base | None => base end).
  assert (EG' : G' = mkG (gn G ++ [(newid, final)]) (ge G)).
  { assert (E1 : nx_add_node G newid base = mkG (gn G ++ [(newid, base)]) (ge G)) by (unfold nx_add_node; now rewrite Hfresh).
    rewrite E1 in Hadd. unfold final. destruct ps as [u|]; [|now inversion Hadd].
    assert (E2 : nx_node (mkG (gn G ++ [(newid, base)]) (ge G)) newid = Some base).
    { rewrite <- E1. now apply nx_node_add_fresh. }
    rewrite E2 in Hadd. inversion Hadd. unfold nx_set_node. cbn [gn ge]. f_equal.
    unfold nx_node in Hfresh. clear -Hfresh. induction (gn G) as [|[j q] r IH]; cbn [app set_node aget] in *.
    - now rewrite N.eqb_refl.
    - rewrite N.eqb_sym. destruct (N.eqb newid j); [discriminate|]. f_equal. now apply IH. }
  assert (Hfg : in_g g (newid, final) = true).
  { unfold final, in_g. cbn [snd]. destruct ps as [u|].
    - apply andb_true_iff in Hps as [H1 _]. apply negb_true_iff in H1.
      rewrite has_val_aupdate_notin by exact H1. apply blank_in_g.
    - apply blank_in_g. }
  split; [|reflexivity]. subst G'. unfold abs_nxg, view, ids_in. cbn [gn ge].
  rewrite filter_app. cbn [filter]. rewrite Hfg. change (filter (in_g g) (gn G)) with vns.
  rewrite map_app. cbn [map fst].
  assert (Hni : ~ In newid (map fst vns)).
  { intro H. rewrite vns_ids in H. apply ids_in_incl in H. unfold nx_node in Hfresh.
    apply aget_None_notin in Hfresh. contradiction. }
  match goal with |- context [filter (in_ids (?l ++ [newid])) (ge G)] =>
    assert (Ees : filter (in_ids (l ++ [newid])) (ge G) = ves) end.
  { unfold ves, view. cbn [snd]. rewrite <- vns_ids. apply filter_ext_in. intros [[a b] q] Hin.
    unfold in_ids. unfold memN. rewrite !existsb_app. cbn [existsb]. rewrite !orb_false_r.
    assert (Ha : N.eqb a newid = false).
    { apply N.eqb_neq. intro E; subst a. destruct (Hcl _ _ _ Hin) as [H1 _].
      unfold nx_node in Hfresh. apply aget_None_notin in Hfresh. contradiction. }
    assert (Hb : N.eqb b newid = false).
    { apply N.eqb_neq. intro E; subst b. destruct (Hcl _ _ _ Hin) as [_ H1].
      unfold nx_node in Hfresh. apply aget_None_notin in Hfresh. contradiction. }
    now rewrite Ha, Hb, !orb_false_r. }
  rewrite Ees. unfold abs_of_view. cbn [fst snd sn se].
  rewrite map_app. cbn [map snd]. f_equal.
  change (filter (in_ids (map fst vns)) (ge G)) with ves.
  apply map_ext_in. intros [[a b] q] Hin. destruct (ves_endpoints a b q Hin) as [Ha Hb].
  unfold abs_edge, key_nid. now rewrite !aget_app_fresh by assumption.
Qed.

Lemma sim_add_node_fail newid n c ps :
  pg_add_node G g newid n c ps = None ->
  sp_add_node (abs_nxg G g) g n c ps = (abs_nxg G g, Err EQuery).
Proof.
  intro Hadd. unfold pg_add_node in Hadd. unfold sp_add_node.
  assert (Es : search G [(k_graphid, g); (k_nodeid, n)] = map fst (FN n)).
  { rewrite <- search_FN. unfold search. f_equal. apply filter_ext. intros [i q]. unfold matches. simpl.
    rewrite !andb_true_r. apply andb_comm. }
  rewrite Es in Hadd. rewrite spec_FN. destruct (FN n) as [|x r]; [|reflexivity].
  cbn [map] in Hadd. destruct ps; [destruct (nx_node _ newid)|]; discriminate.
Qed.

(* ---------- the NodeID key of a node of g identifies it ---------- *)
Lemma key_is n x ps p :
  FN n = [(x, ps)] -> In p (map fst vns) -> skey_is (key_nid vns p) n = N.eqb p x.
Proof.
  intros HF Hp. apply in_map_iff in Hp as [[i q] [Hi Hin]]. simpl in Hi; subst i.
  destruct (vns_in p q Hin) as [A _]. unfold key_nid. rewrite A, skey_is_nid_key.
  destruct (FN_single n x ps HF) as [_ [_ [_ [_ K]]]]. now apply K.
Qed.

Lemma key_of_found n x ps : FN n = [(x, ps)] -> key_nid vns x = Some n.
Proof.
  intro HF. destruct (FN_single n x ps HF) as [A [_ [_ [Hn _]]]]. unfold key_nid. rewrite A.
  unfold nid_is, has_val in Hn. unfold nid_key. destruct (aget k_nodeid ps) as [[m| |l|l]|]; try discriminate.
  simpl in Hn. apply N.eqb_eq in Hn. now subst.
Qed.

Lemma found_in_ids n x ps : FN n = [(x, ps)] -> In x (map fst vns).
Proof.
  intro HF. destruct (FN_single n x ps HF) as [A _]. apply aget_In in A. change x with (fst (x, ps)). now apply in_map.
Qed.

(* ---------- delete node ---------- *)
Lemma aget_filter_ne (l : list node) x a : a <> x -> aget a (filter (fun nd => negb (N.eqb (fst nd) x)) l) = aget a l.
Proof.
  intro Hne. induction l as [|[i q] r IH]; [reflexivity|]. cbn [filter fst].
  destruct (N.eqb i x) eqn:E; cbn [negb aget].
  - apply N.eqb_eq in E; subst i. assert (N.eqb a x = false) by now apply N.eqb_neq. now rewrite H.
  - destruct (N.eqb a i); [reflexivity | exact IH].
Qed.

Lemma filter_map_comm {A B} (f : B -> bool) (K : A -> B) l : filter f (map K l) = map K (filter (fun x => f (K x)) l).
Proof. induction l as [|x r IH]; simpl; [reflexivity|]. destruct (f (K x)); simpl; now rewrite IH. Qed.

Lemma memN_filter_ne l a x : memN a (filter (fun i => negb (N.eqb i x)) l) = memN a l && negb (N.eqb a x).
Proof.
  induction l as [|i r IH]; [reflexivity|]. cbn [filter]. destruct (N.eqb i x) eqn:E; cbn [negb].
  - rewrite IH. unfold memN at 2. cbn [existsb]. fold (memN a r). apply N.eqb_eq in E; subst i.
    destruct (N.eqb a x) eqn:E2; cbn [negb orb]; [now rewrite andb_false_r | reflexivity].
  - unfold memN at 1 2. cbn [existsb]. fold (memN a r) (memN a (filter (fun i0 => negb (N.eqb i0 x)) r)).
    rewrite IH. destruct (N.eqb a i) eqn:E2; cbn [orb]; [|reflexivity].
    apply N.eqb_eq in E2; subst i. now rewrite E.
Qed.

Lemma sim_delete_node n :
  abs_nxg (fst (pg_delete_node G g n)) g = fst (sp_delete_node (abs_nxg G g) n) /\
  snd (pg_delete_node G g n) = snd (sp_delete_node (abs_nxg G g) n).
Proof.
  unfold pg_delete_node, sp_delete_node. rewrite find_node_FN, sp_find_FN.
  destruct (FN n) as [|[x ps] [|y r]] eqn:E; try (split; reflexivity).
  cbn [fst snd]. split; [|reflexivity].
  destruct (FN_single n x ps E) as [A [B [C [D K]]]].
  assert (E1 : filter (in_g g) (filter (fun n0 : node => negb (N.eqb (fst n0) x)) (gn G))
               = filter (fun n0 : node => negb (N.eqb (fst n0) x)) vns).
  { unfold vns, view. cbn [fst]. rewrite !filter_filter_and. apply filter_ext. intro nd. apply andb_comm. }
  assert (E2 : map fst (filter (fun n0 : node => negb (N.eqb (fst n0) x)) vns) = filter (fun i => negb (N.eqb i x)) (map fst vns)).
  { apply (map_fst_filter_fst (fun i => negb (N.eqb i x))). }
  assert (E3 : filter (in_ids (map fst (filter (fun n0 : node => negb (N.eqb (fst n0) x)) vns)))
                      (filter (fun e => negb (edge_touches x e)) (ge G))
               = filter (fun e => negb (edge_touches x e)) ves).
  { unfold ves, view. cbn [snd]. rewrite <- vns_ids. rewrite !filter_filter_and. apply filter_ext.
    intros [[a b] q]. rewrite E2. unfold in_ids, edge_touches. rewrite !memN_filter_ne.
    destruct (memN a (map fst vns)), (memN b (map fst vns)), (N.eqb a x), (N.eqb b x); reflexivity. }
  unfold abs_nxg at 1. unfold view, ids_in, nx_remove_node. cbn [gn ge]. unfold node in *. rewrite E1, E3.
  unfold abs_of_view. cbn [fst snd]. rewrite abs_unfold. cbn [sn se]. f_equal.
  - rewrite filter_map_snd. f_equal. apply filter_ext_in. intros [i q] Hin. cbn [fst snd].
    now rewrite (K i q Hin).
  - rewrite filter_map_comm.
    assert (E4 : filter (fun e => negb (sedge_touches n (abs_edge vns e))) ves = filter (fun e => negb (edge_touches x e)) ves).
    { apply filter_ext_in. intros [[a b] q] Hin. destruct (ves_endpoints a b q Hin) as [Ha Hb].
      unfold abs_edge, sedge_touches, edge_touches. now rewrite (key_is n x ps a E Ha), (key_is n x ps b E Hb). }
    rewrite E4. apply map_ext_in. intros [[a b] q] Hin. apply filter_In in Hin as [Hin Ht].
    unfold edge_touches in Ht. apply negb_true_iff in Ht. apply orb_false_iff in Ht as [Ha Hb].
    apply N.eqb_neq in Ha, Hb. unfold abs_edge, key_nid. now rewrite !aget_filter_ne by assumption.
Qed.

(* ---------- links ---------- *)
Lemma sedge_is_abs a b ia psa ib psb e :
  FN a = [(ia, psa)] -> FN b = [(ib, psb)] -> In e ves -> sedge_is a b (abs_edge vns e) = edge_is ia ib e.
Proof.
  intros Ha Hb Hin. destruct e as [[p q] d]. destruct (ves_endpoints p q d Hin) as [Hp Hq].
  unfold abs_edge, sedge_is, edge_is.
  now rewrite (key_is a ia psa p Ha Hp), (key_is b ib psb q Hb Hq), (key_is b ib psb p Hb Hp), (key_is a ia psa q Ha Hq).
Qed.

Lemma edge_is_in_ids ia ib e : In ia (map fst vns) -> In ib (map fst vns) -> edge_is ia ib e = true -> in_ids (ids_in G g) e = true.
Proof.
  intros Ha Hb. destruct e as [[p q] d]. unfold edge_is, in_ids. rewrite <- vns_ids. intro H.
  apply memN_In in Ha, Hb.
  apply orb_true_iff in H as [H|H]; apply andb_true_iff in H as [H1 H2]; apply N.eqb_eq in H1, H2; subst; now rewrite Ha, Hb.
Qed.

Lemma nx_edge_ves ia ib : In ia (map fst vns) -> In ib (map fst vns) -> find (edge_is ia ib) (ge G) = find (edge_is ia ib) ves.
Proof.
  intros Ha Hb. unfold ves, view. cbn [snd]. symmetry. apply find_filter_pass. intros e He. exact (edge_is_in_ids ia ib e Ha Hb He).
Qed.

Lemma sp_edge_corr a b ia psa ib psb :
  FN a = [(ia, psa)] -> FN b = [(ib, psb)] -> sp_edge (abs_nxg G g) a b = nx_edge G ia ib.
Proof.
  intros Ha Hb. unfold sp_edge, nx_edge. rewrite abs_unfold. cbn [se]. rewrite find_map.
  rewrite (find_ext_in _ (edge_is ia ib)) by (intros e He; eapply sedge_is_abs; eauto).
  rewrite (nx_edge_ves ia ib) by (eapply found_in_ids; eauto).
  destruct (find (edge_is ia ib) ves) as [[[p q] d]|]; reflexivity.
Qed.

Lemma find_link_corr a b :
  match find_link G g a b with
  | Some (ia, ib, ps) => (exists psa psb, FN a = [(ia, psa)] /\ FN b = [(ib, psb)]) /\ nx_edge G ia ib = Some ps /\
                         sp_find_link (abs_nxg G g) a b = Some ps
  | None => sp_find_link (abs_nxg G g) a b = None
  end.
Proof.
  unfold find_link, sp_find_link. rewrite !find_node_FN, !sp_find_FN.
  destruct (FN a) as [|[ia psa] [|y r]] eqn:Ea; try reflexivity;
  destruct (FN b) as [|[ib psb] [|y' r']] eqn:Eb; try reflexivity.
  rewrite (sp_edge_corr a b ia psa ib psb Ea Eb).
  destruct (nx_edge G ia ib) as [ps|] eqn:E; [|reflexivity].
  repeat split; eauto.
Qed.

Lemma sim_get_link a b : pg_get_link G g a b = sp_get_link (abs_nxg G g) a b.
Proof.
  unfold pg_get_link, sp_get_link. pose proof (find_link_corr a b) as H.
  destruct (find_link G g a b) as [[[ia ib] ps]|]; [destruct H as [_ [_ H]]|]; now rewrite H.
Qed.

(* replacing the properties of the first link between ia and ib *)
Fixpoint map_first_edge (ia ib : N) (f : props -> props) (l : list edge) : list edge :=
  match l with
  | [] => []
  | e :: r => if edge_is ia ib e then (fst (fst e), snd (fst e), f (snd e)) :: r else e :: map_first_edge ia ib f r
  end.

Lemma set_edge_first ia ib f ps l :
  (match find (edge_is ia ib) l with Some (_, _, q) => Some q | None => None end) = Some ps ->
  set_edge ia ib (f ps) l = map_first_edge ia ib f l.
Proof.
  induction l as [|[[p q] d] r IH]; [discriminate|]. cbn [find set_edge map_first_edge].
  destruct (edge_is ia ib (p, q, d)).
  - intro H. inversion H. reflexivity.
  - intro H. f_equal. now apply IH.
Qed.

Lemma filter_set_edge_in I ia ib ps l :
  memN ia I = true -> memN ib I = true ->
  filter (in_ids I) (set_edge ia ib ps l) = set_edge ia ib ps (filter (in_ids I) l).
Proof.
  intros Ha Hb. induction l as [|[[p q] d] r IH]; [reflexivity|]. cbn [set_edge].
  destruct (edge_is ia ib (p, q, d)) eqn:E.
  - assert (in_ids I (p, q, d) = true).
    { unfold edge_is in E. unfold in_ids.
      apply orb_true_iff in E as [E|E]; apply andb_true_iff in E as [E1 E2]; apply N.eqb_eq in E1, E2; subst; now rewrite Ha, Hb. }
    cbn [fst snd filter]. assert (in_ids I (p, q, ps) = true) by exact H. rewrite H, H0. cbn [set_edge]. now rewrite E.
  - cbn [filter]. destruct (in_ids I (p, q, d)); cbn [set_edge]; [rewrite E; f_equal|]; exact IH.
Qed.

Lemma sp_map_edge_corr a b ia psa ib psb f :
  FN a = [(ia, psa)] -> FN b = [(ib, psb)] ->
  sp_map_edge (abs_nxg G g) a b f = mkSG (map snd vns) (map (abs_edge vns) (map_first_edge ia ib f ves)).
Proof.
  intros Ha Hb. unfold sp_map_edge. rewrite abs_unfold. cbn [sn se]. f_equal.
  assert (K : forall e, In e ves -> sedge_is a b (abs_edge vns e) = edge_is ia ib e) by (intros; eapply sedge_is_abs; eauto).
  induction ves as [|[[p q] d] r IH]; [reflexivity|]. cbn [map map_first_edge].
  rewrite (K (p, q, d)) by now left. destruct (edge_is ia ib (p, q, d)).
  - reflexivity.
  - cbn [map]. f_equal. apply IH. intros; apply K; now right.
Qed.

Lemma abs_set_edge ia ib ps' :
  In ia (map fst vns) -> In ib (map fst vns) ->
  abs_nxg (nx_set_edge G ia ib ps') g = mkSG (map snd vns) (map (abs_edge vns) (set_edge ia ib ps' ves)).
Proof.
  intros Ha Hb. unfold abs_nxg, view, ids_in, nx_set_edge. cbn [gn ge].
  change (map fst (filter (in_g g) (gn G))) with (map fst vns).
  rewrite filter_set_edge_in by (now apply memN_In). reflexivity.
Qed.

Lemma sim_with_link a b kind (guard : bool) f :
  abs_nxg (fst (with_link G g a b kind guard f)) g = fst (sp_with_link (abs_nxg G g) a b kind guard f) /\
  snd (with_link G g a b kind guard f) = snd (sp_with_link (abs_nxg G g) a b kind guard f).
Proof.
  unfold with_link, sp_with_link. destruct guard; [split; reflexivity|].
  pose proof (find_link_corr a b) as H.
  destruct (find_link G g a b) as [[[ia ib] ps]|]; [|rewrite H; split; reflexivity].
  destruct H as [[psa [psb [Ha Hb]]] [He Hs]]. rewrite Hs.
  destruct (has_val ps k_class kind); [|split; reflexivity]. cbn [fst snd]. split; [|reflexivity].
  rewrite abs_set_edge by (eapply found_in_ids; eauto).
  rewrite (sp_map_edge_corr a b ia psa ib psb f Ha Hb). f_equal. f_equal.
  apply set_edge_first. unfold nx_edge in He. rewrite (nx_edge_ves ia ib) in He by (eapply found_in_ids; eauto). exact He.
Qed.

Lemma sim_add_link a rel b ps :
  abs_nxg (fst (pg_add_link G g a rel b ps)) g = fst (sp_add_link (abs_nxg G g) a rel b ps) /\
  snd (pg_add_link G g a rel b ps) = snd (sp_add_link (abs_nxg G g) a rel b ps).
Proof.
  unfold pg_add_link, sp_add_link. rewrite !find_node_FN, !sp_find_FN.
  destruct (FN a) as [|[ia psa] [|y r]] eqn:Ea; try (split; reflexivity);
  destruct (FN b) as [|[ib psb] [|y' r']] eqn:Eb; try (split; reflexivity).
  assert (Hia : In ia (map fst vns)) by (eapply found_in_ids; eauto).
  assert (Hib : In ib (map fst vns)) by (eapply found_in_ids; eauto).
  assert (K : forall attrs,
             abs_nxg (nx_add_edge G ia ib attrs) g =
             fst (match sp_edge (abs_nxg G g) a b with
                  | Some _ => (sp_map_edge (abs_nxg G g) a b (aupdate attrs), Ok RUnit)
                  | None => (mkSG (sn (abs_nxg G g)) (se (abs_nxg G g) ++ [(Some a, Some b, attrs)]), Ok RUnit)
                  end) /\
             Ok RUnit = snd (match sp_edge (abs_nxg G g) a b with
                  | Some _ => (sp_map_edge (abs_nxg G g) a b (aupdate attrs), Ok RUnit)
                  | None => (mkSG (sn (abs_nxg G g)) (se (abs_nxg G g) ++ [(Some a, Some b, attrs)]), Ok RUnit)
                  end)).
  { intro attrs. rewrite (sp_edge_corr a b ia psa ib psb Ea Eb). unfold nx_add_edge.
    destruct (nx_edge G ia ib) as [q|] eqn:E; cbn [fst snd]; (split; [|reflexivity]).
    - rewrite abs_set_edge by assumption. rewrite (sp_map_edge_corr a b ia psa ib psb _ Ea Eb). f_equal. f_equal.
      apply set_edge_first. unfold nx_edge in E. now rewrite (nx_edge_ves ia ib) in E by assumption.
    - unfold abs_nxg at 1. unfold view, ids_in. cbn [gn ge]. change (map fst (filter (in_g g) (gn G))) with (map fst vns).
      rewrite filter_app. cbn [filter]. unfold in_ids at 2. apply memN_In in Hia, Hib. rewrite Hia, Hib. cbn [andb].
      change (filter (in_ids (map fst vns)) (ge G)) with ves. change (filter (in_g g) (gn G)) with vns.
      unfold abs_of_view. cbn [fst snd]. rewrite abs_unfold. cbn [sn se]. rewrite map_app. cbn [map].
      unfold abs_edge at 2. now rewrite (key_of_found a ia psa Ea), (key_of_found b ib psb Eb). }
  destruct ps as [upd|]; cbn [fst snd].
  - destruct (ahas k_class upd); [split; reflexivity|]. apply K.
  - apply K.
Qed.

Lemma filter_in_ids_nil (l : list edge) : filter (in_ids []) l = [].
Proof. induction l as [|[[a b] q] r IH]; [reflexivity|]. cbn [filter]. exact IH. Qed.

(* ---------- delete graph ---------- *)
Lemma sim_del_graph : abs_nxg (nx_remove_nodes G (search G [(k_graphid, g)])) g = empty_sg.
Proof.
  unfold abs_nxg, view, ids_in, nx_remove_nodes. cbn [gn ge]. rewrite search_graphid_ids_in.
  assert (E : filter (in_g g) (filter (fun n => negb (memN (fst n) (ids_in G g))) (gn G)) = []).
  { apply filter_filter_nil. intros [i ps] Hin Hg. apply negb_false_iff. apply memN_In. unfold ids_in.
    apply in_map_iff. exists (i, ps). split; [reflexivity|]. apply filter_In. now split. }
  rewrite E. cbn [map]. rewrite filter_in_ids_nil. reflexivity.
Qed.

End Sim.

(* C01 proofs: node-link JSON at the value level, the store (add_graph / add_graph_direct / extract)
   and the importer glue. *)
From Coq Require Import String.
From Coq Require Import List NArith ZArith Bool Lia.
From FIM Require Import Base.Str Model.Serial1Text Model.Serial1Graph Proofs.Serial1Text Proofs.Serial1Doc.
Import ListNotations.
Open Scope N_scope.
Local Arguments N.eqb : simpl nomatch.

(* ---------- membership / lookup ---------- *)
Lemma memN_In k l : memN k l = true <-> In k l.
Proof.
  unfold memN. rewrite existsb_exists. split.
  - intros (x & Hx & E). apply N.eqb_eq in E. subst. exact Hx.
  - intro H. exists k. split; [exact H|apply N.eqb_refl].
Qed.
Lemma memN_false k l : memN k l = false <-> ~ In k l.
Proof. rewrite <- memN_In. destruct (memN k l); split; intro H; try congruence; try discriminate; try (exfalso; apply H; reflexivity). Qed.

Lemma nodupN_NoDup l : nodupN l = true <-> NoDup l.
Proof.
  induction l as [|x l IH]; simpl.
  - split; intro; [constructor|reflexivity].
  - rewrite andb_true_iff, negb_true_iff, memN_false, IH. split.
    + intros [H1 H2]. constructor; assumption.
    + intro H. inversion H; subst. split; assumption.
Qed.

Lemma lookup_app {V} k (a b : list (N * V)) :
  lookup k (a ++ b) = match lookup k a with Some x => Some x | None => lookup k b end.
Proof.
  induction a as [|[k' v] r IH]; [reflexivity|]. simpl. destruct (N.eqb k' k); [reflexivity|exact IH].
Qed.
Lemma lookup_none {V} k (l : list (N * V)) : ~ In k (map fst l) -> lookup k l = None.
Proof.
  induction l as [|[k' v] r IH]; intro H; [reflexivity|]. simpl.
  destruct (N.eqb_spec k' k) as [->|NE]; [exfalso; apply H; left; reflexivity|].
  apply IH. intro Hin. apply H. right. exact Hin.
Qed.
Lemma lookup_some {V} k (l : list (N * V)) : In k (map fst l) -> exists v, lookup k l = Some v.
Proof.
  induction l as [|[k' v] r IH]; intro H; [destruct H|]. simpl.
  destruct (N.eqb_spec k' k) as [->|NE]; [exists v; reflexivity|].
  destruct H as [H|H]; [simpl in H; congruence|]. apply IH, H.
Qed.
Lemma lookup_In {V} k (l : list (N * V)) v : lookup k l = Some v -> In k (map fst l).
Proof.
  induction l as [|[k' w] r IH]; [discriminate|]. simpl.
  destruct (N.eqb_spec k' k) as [->|NE]; [intros _; left; reflexivity|]. intro H. right. apply IH, H.
Qed.

(* ---------- node-link JSON ---------- *)
Lemma jset_notin k v o : ~ In k (map fst o) -> jset k v o = o ++ [(k, v)].
Proof.
  induction o as [|[k' w] r IH]; intro H; [reflexivity|]. simpl.
  destruct (N.eqb_spec k' k) as [->|NE]; [exfalso; apply H; left; reflexivity|].
  rewrite IH; [reflexivity|]. intro Hin. apply H. right. exact Hin.
Qed.
Lemma map_fst_jprops ps : map fst (jprops ps) = map fst ps.
Proof. unfold jprops. rewrite map_map. reflexivity. Qed.

Lemma junprops_app skip a b :
  junprops skip (a ++ b) = match junprops skip a, junprops skip b with
                           | Some x, Some y => Some (x ++ y) | _, _ => None end.
Proof.
  induction a as [|[k v] r IH]; simpl.
  - destruct (junprops skip b); reflexivity.
  - destruct (skip k); [exact IH|]. destruct v as [p|n].
    + rewrite IH. destruct (junprops skip r), (junprops skip b); reflexivity.
    + destruct (junprops skip b); reflexivity.
Qed.
Lemma junprops_jprops skip ps : (forall k, In k (map fst ps) -> skip k = false) -> junprops skip (jprops ps) = Some ps.
Proof.
  induction ps as [|[k v] r IH]; intro H; [reflexivity|]. simpl.
  rewrite (H k (or_introl eq_refl)). rewrite IH; [reflexivity|]. intros k' Hk. apply H. right. exact Hk.
Qed.

Theorem json_roundtrip g : graph_json_ok g = true -> jread (jwrite g) = Some g.
Proof.
  unfold graph_json_ok. rewrite andb_true_iff, !forallb_forall. intros [HN HE].
  unfold jread, jwrite. cbn [j_nodes j_links].
  rewrite (opt_list_Forall2 _ (fun _ _ => True) _ (g_nodes g)).
  - rewrite (opt_list_Forall2 _ (fun _ _ => True) _ (g_edges g)); [destruct g; reflexivity|].
    clear HN. induction (g_edges g) as [|[[u v] ps] r IH]; constructor.
    + specialize (HE _ (or_introl eq_refl)). simpl in HE. apply andb_true_iff in HE as [HS HT].
      apply negb_true_iff, memN_false in HS. apply negb_true_iff, memN_false in HT.
      rewrite (jset_notin P_source) by (rewrite map_fst_jprops; exact HS).
      rewrite (jset_notin P_target).
      2:{ rewrite map_app, map_fst_jprops. intro H. apply in_app_or in H as [H|[H|[]]]; [exact (HT H)|discriminate]. }
      unfold jget. rewrite !lookup_app.
      rewrite (lookup_none P_source (jprops ps)) by (rewrite map_fst_jprops; exact HS).
      rewrite (lookup_none P_target (jprops ps)) by (rewrite map_fst_jprops; exact HT).
      simpl. rewrite <- app_assoc, junprops_app, junprops_jprops.
      * simpl. rewrite app_nil_r. reflexivity.
      * intros k Hk. apply orb_false_iff. split; apply N.eqb_neq; intro E; subst; [exact (HS Hk)|exact (HT Hk)].
    + apply IH. intros x Hx. apply HE. right. exact Hx.
  - clear HE. induction (g_nodes g) as [|[k ps] r IH]; constructor.
    + specialize (HN _ (or_introl eq_refl)). simpl in HN. apply negb_true_iff, memN_false in HN. cbv beta. cbn [fst snd].
      rewrite (jset_notin P_id) by (rewrite map_fst_jprops; exact HN).
      unfold jget. rewrite lookup_app, (lookup_none P_id (jprops ps)) by (rewrite map_fst_jprops; exact HN).
      simpl. rewrite junprops_app, junprops_jprops.
      * simpl. rewrite app_nil_r. reflexivity.
      * intros k' Hk. apply N.eqb_neq. intro E; subst. exact (HN Hk).
    + apply IH. intros x Hx. apply HN. right. exact Hx.
Qed.

(* ---------- relabelling to fresh integer ids ---------- *)
Fixpoint zip_ids (k : N) (ns : list gnode) : list gnode :=
  match ns with
  | [] => []
  | (_, ps) :: r => (k, ps) :: zip_ids (N.succ k) r
  end.
Definition ren (m : list (nkey * N)) (u : nkey) : N := match lookup u m with Some i => i | None => 0 end.
Definition relabelled (first : N) (g : nxg) : nxg :=
  let m := numbering first (g_nodes g) in
  {| g_nodes := zip_ids first (g_nodes g);
     g_edges := map (fun e => let '(u, v, ps) := e in (ren m u, ren m v, ps)) (g_edges g) |}.

Lemma map_snd_zip_ids k ns : map snd (zip_ids k ns) = map snd ns.
Proof. revert k. induction ns as [|[key ps] r IH]; intro k; [reflexivity|]. simpl. rewrite IH. reflexivity. Qed.

Lemma zip_ids_range k ns i : In i (map fst (zip_ids k ns)) -> k <= i < k + N.of_nat (List.length ns).
Proof.
  revert k. induction ns as [|[key ps] r IH]; intros k H; [destruct H|]. simpl in H. destruct H as [<-|H].
  - simpl List.length. lia.
  - apply IH in H. simpl List.length. lia.
Qed.

Lemma zip_ids_nodup k ns : NoDup (map fst (zip_ids k ns)).
Proof.
  revert k. induction ns as [|[key ps] r IH]; intro k; simpl; constructor; [|apply IH].
  intro H. apply zip_ids_range in H. lia.
Qed.

Lemma numbering_fst k ns : map fst (numbering k ns) = map fst ns.
Proof. revert k. induction ns as [|[key ps] r IH]; intro k; [reflexivity|]. simpl. rewrite IH. reflexivity. Qed.

(* the node with key u gets id i, and under id i sits what sat under u *)
Lemma numbering_lookup ns : forall first u, NoDup (map fst ns) -> In u (map fst ns) ->
  exists i, lookup u (numbering first ns) = Some i /\ lookup i (zip_ids first ns) = lookup u ns /\ first <= i.
Proof.
  induction ns as [|[key ps] r IH]; intros first u ND Hin; [destruct Hin|].
  inversion ND; subst. simpl. destruct (N.eqb_spec key u) as [->|NE].
  - exists first. rewrite N.eqb_refl. split; [reflexivity|]. split; [reflexivity|lia].
  - destruct Hin as [E|Hin]; [simpl in E; congruence|].
    destruct (IH (N.succ first) u H2 Hin) as (i & L1 & L2 & L3).
    exists i. split; [exact L1|]. split; [|lia].
    destruct (N.eqb_spec first i); [lia|]. exact L2.
Qed.

Lemma relabel_nodes ns : forall first m, NoDup (map fst ns) ->
  (forall n, In n ns -> lookup (fst n) m = lookup (fst n) (numbering first ns)) ->
  opt_list (fun n => match lookup (fst n) m with Some i => Some (i, snd n) | None => None end) ns
  = Some (zip_ids first ns).
Proof.
  induction ns as [|[key ps] r IH]; intros first m ND H; [reflexivity|].
  inversion ND; subst. cbn [opt_list fst snd].
  pose proof (H (key, ps) (or_introl eq_refl)) as H0. cbn [fst numbering lookup] in H0. rewrite N.eqb_refl in H0.
  rewrite H0.
  rewrite (IH (N.succ first) m H3); [reflexivity|].
  intros n Hn. rewrite (H n (or_intror Hn)). cbn [numbering lookup].
  destruct (N.eqb_spec key (fst n)) as [E|NE]; [|reflexivity].
  exfalso. apply H2. rewrite E. apply in_map, Hn.
Qed.

Definition closed (g : nxg) : Prop :=
  forall e, In e (g_edges g) -> In (fst (fst e)) (map fst (g_nodes g)) /\ In (snd (fst e)) (map fst (g_nodes g)).

Lemma relabel_spec first g : NoDup (map fst (g_nodes g)) -> closed g -> relabel first g = Some (relabelled first g).
Proof.
  intros ND CL. unfold relabel, relabelled.
  rewrite (relabel_nodes _ first _ ND (fun n _ => eq_refl)).
  rewrite (opt_list_Forall2 _ (fun _ _ => True) _
             (map (fun e => let '(u, v, ps) := e in
                            (ren (numbering first (g_nodes g)) u, ren (numbering first (g_nodes g)) v, ps)) (g_edges g))).
  - reflexivity.
  - revert CL. unfold closed. generalize (numbering_lookup (g_nodes g) first).
    generalize (numbering first (g_nodes g)) as m. intros m HL CL.
    induction (g_edges g) as [|[[u v] ps] r IH]; simpl; constructor.
    + destruct (CL _ (or_introl eq_refl)) as [A B]. simpl in A, B.
      destruct (HL u ND A) as (i & Li & _). destruct (HL v ND B) as (j & Lj & _).
      unfold ren. rewrite Li, Lj. reflexivity.
    + apply IH. intros e He. apply CL. right. exact He.
Qed.

(* relabelling does not change the content *)
Lemma content_relabelled first g : NoDup (map fst (g_nodes g)) -> closed g ->
  content (relabelled first g) = content g.
Proof.
  intros ND CL. unfold content. f_equal.
  - simpl. apply map_snd_zip_ids.
  - simpl. rewrite map_map. apply map_ext_in. intros [[u v] ps] He.
    destruct (CL _ He) as [A B]. simpl in A, B.
    destruct (numbering_lookup _ first u ND A) as (i & Li & Zi & _).
    destruct (numbering_lookup _ first v ND B) as (j & Lj & Zj & _).
    unfold node_id_of, ren. simpl. rewrite Li, Lj, Zi, Zj. reflexivity.
Qed.

Lemma relabelled_closed first g : NoDup (map fst (g_nodes g)) -> closed g -> closed (relabelled first g).
Proof.
  intros ND CL e He. simpl in He. apply in_map_iff in He as ([[u v] ps] & <- & H0).
  destruct (CL _ H0) as [A B]. simpl in A, B.
  destruct (numbering_lookup _ first u ND A) as (i & Li & Zi & _).
  destruct (numbering_lookup _ first v ND B) as (j & Lj & Zj & _).
  destruct (lookup_some u (g_nodes g) A) as (pu & Pu). destruct (lookup_some v (g_nodes g) B) as (pv & Pv).
  unfold ren. simpl. rewrite Li, Lj. split.
  - eapply lookup_In. rewrite Zi. exact Pu.
  - eapply lookup_In. rewrite Zj. exact Pv.
Qed.

(* ---------- dict update ---------- *)
Lemma pget_pset_same k v ps : pget k (pset k v ps) = Some v.
Proof.
  induction ps as [|[k' w] r IH]; simpl; [rewrite N.eqb_refl; reflexivity|].
  destruct (N.eqb_spec k' k) as [->|NE]; simpl; [rewrite N.eqb_refl; reflexivity|].
  destruct (N.eqb_spec k' k); [contradiction|exact IH].
Qed.
Lemma pget_pset_other k k2 v ps : k <> k2 -> pget k2 (pset k v ps) = pget k2 ps.
Proof.
  intro NE. induction ps as [|[k' w] r IH]; simpl.
  - destruct (N.eqb_spec k k2); [contradiction|reflexivity].
  - destruct (N.eqb_spec k' k) as [->|NE2]; simpl.
    + destruct (N.eqb_spec k k2); [contradiction|reflexivity].
    + destruct (N.eqb k' k2); [reflexivity|exact IH].
Qed.

Lemma has_gid_stamped gid k ps : has_gid gid (k, pset P_GraphID (PStr gid) ps) = true.
Proof. unfold has_gid, node_gid. simpl. rewrite pget_pset_same. apply str_eqb_refl. Qed.

(* ---------- the store ---------- *)
Definition bounded (s : store) : Prop :=
  (forall n, In n (s_nodes s) -> fst n < s_next s)
  /\ (forall e, In e (s_edges s) -> fst (fst e) < s_next s /\ snd (fst e) < s_next s).

Lemma store_wf_bounded s : store_wf s = true -> bounded s.
Proof.
  unfold store_wf. rewrite !andb_true_iff, !forallb_forall. intros [[_ HN] HE]. split.
  - intros n Hn. apply N.ltb_lt. apply HN, Hn.
  - intros [[u v] ps] He. specialize (HE _ He). simpl in HE. apply andb_true_iff in HE as [A B].
    apply memN_In in A. apply memN_In in B.
    apply in_map_iff in A as (na & <- & Ha). apply in_map_iff in B as (nb & <- & Hb).
    split; apply N.ltb_lt; apply HN; assumption.
Qed.

Lemma del_graph_bounded s gid : bounded s -> bounded (del_graph s gid).
Proof.
  intros [HN HE]. split; simpl.
  - intros n Hn. apply filter_In in Hn as [Hn _]. apply HN, Hn.
  - intros e He. apply filter_In in He as [He _]. apply HE, He.
Qed.

Lemma filter_none {A} (p : A -> bool) l : (forall x, In x l -> p x = false) -> filter p l = [].
Proof.
  induction l as [|x l IH]; intro H; [reflexivity|]. simpl. rewrite (H x (or_introl eq_refl)).
  apply IH. intros y Hy. apply H. right. exact Hy.
Qed.
Lemma filter_all {A} (p : A -> bool) l : (forall x, In x l -> p x = true) -> filter p l = l.
Proof.
  induction l as [|x l IH]; intro H; [reflexivity|]. simpl. rewrite (H x (or_introl eq_refl)).
  f_equal. apply IH. intros y Hy. apply H. right. exact Hy.
Qed.

Definition cleared (s : store) (gid : str) : store :=
  if existsb (has_gid gid) (s_nodes s) then del_graph s gid else s.

Lemma cleared_no_gid s gid : forall n, In n (s_nodes (cleared s gid)) -> has_gid gid n = false.
Proof.
  unfold cleared. destruct (existsb (has_gid gid) (s_nodes s)) eqn:E; intros n Hn.
  - simpl in Hn. apply filter_In in Hn as [_ H]. apply negb_true_iff in H. exact H.
  - destruct (has_gid gid n) eqn:H; [|reflexivity].
    assert (existsb (has_gid gid) (s_nodes s) = true) by (apply existsb_exists; exists n; split; assumption). congruence.
Qed.
Lemma cleared_bounded s gid : bounded s -> bounded (cleared s gid).
Proof. unfold cleared. destruct (existsb _ _); [apply del_graph_bounded|auto]. Qed.
Lemma cleared_next s gid : s_next (cleared s gid) = s_next s.
Proof. unfold cleared. destruct (existsb _ _); reflexivity. Qed.

(* after merging a graph whose node ids are fresh and all carry [gid], extracting [gid] returns it *)
Lemma extract_merge s gid t :
  bounded s -> (forall n, In n (s_nodes s) -> has_gid gid n = false) ->
  g_nodes t <> [] -> (forall n, In n (g_nodes t) -> has_gid gid n = true /\ s_next s <= fst n) ->
  closed t -> extract (merge s t) gid = Some t.
Proof.
  intros [BN BE] NG NE HT CL. unfold extract, merge. cbn [s_nodes s_edges].
  rewrite filter_app, (filter_none _ _ NG), (filter_all _ (g_nodes t)) by (intros n Hn; apply HT, Hn).
  cbn [app]. destruct t as [tn te]. cbn [g_nodes g_edges] in *.
  destruct tn as [|n0 ns0]; [congruence|]. f_equal. f_equal.
  rewrite filter_app. rewrite filter_none, filter_all; [reflexivity| |].
  - intros [[u v] ps] He. destruct (CL _ He) as [A B]. cbn [fst snd g_nodes] in A, B.
    apply memN_In in A. apply memN_In in B. rewrite A, B. reflexivity.
  - intros [[u v] ps] He. destruct (BE _ He) as [A _]. cbn [fst snd] in A.
    apply andb_false_iff. left. apply memN_false. intro H.
    apply in_map_iff in H as (n & E & Hn). destruct (HT _ Hn) as [_ G]. lia.
Qed.

Lemma forallb_snd {A B} (f : B -> bool) (l l2 : list (A * B)) : map snd l = map snd l2 ->
  forallb (fun n => f (snd n)) l = forallb (fun n => f (snd n)) l2.
Proof.
  revert l2. induction l as [|x l IH]; intros [|y l2] H; try discriminate; [reflexivity|].
  simpl in *. inversion H. rewrite H1, (IH l2 H2). reflexivity.
Qed.

Lemma content_stamp gid g : content (stamp gid g) = (map (pset P_GraphID (PStr gid)) (fst (content g)), snd (content g)).
Proof.
  unfold content, stamp. simpl. f_equal.
  - rewrite !map_map. reflexivity.
  - apply map_ext. intros [[u v] ps]. unfold node_id_of. simpl.
    assert (L : forall k, match lookup k (map (fun n : gnode => (fst n, pset P_GraphID (PStr gid) (snd n))) (g_nodes g)) with
                          | Some ps0 => pget P_NodeID ps0 | None => None end
                          = match lookup k (g_nodes g) with Some ps0 => pget P_NodeID ps0 | None => None end).
    { intro k. induction (g_nodes g) as [|[k' w] r IH]; [reflexivity|]. simpl.
      destruct (N.eqb k' k); [apply pget_pset_other; discriminate|exact IH]. }
    rewrite !L. reflexivity.
Qed.

Definition copy_of (s : store) (gid : str) (g : nxg) : nxg := stamp gid (relabelled (s_next s) g).
Definition copy_direct (s : store) (g : nxg) : nxg := relabelled (s_next s) g.

Lemma content_copy s gid g : NoDup (map fst (g_nodes g)) -> closed g ->
  content (copy_of s gid g) = content (stamp gid g).
Proof. intros ND CL. unfold copy_of. rewrite !content_stamp, (content_relabelled _ g ND CL). reflexivity. Qed.

Theorem add_graph_spec s gid g :
  bounded s -> NoDup (map fst (g_nodes g)) -> closed g -> graph_ids_ok g = true -> g_nodes g <> [] ->
  exists s', add_graph s gid g = (s', ROk gid) /\ extract s' gid = Some (copy_of s gid g).
Proof.
  intros B ND CL IDS NE. unfold add_graph, copy_of. fold (cleared s gid).
  rewrite (relabel_spec _ g ND CL). rewrite <- (cleared_next s gid).
  set (s1 := cleared s gid). set (t := relabelled (s_next s1) g).
  assert (IDS' : forallb (fun n => truthy (pget P_NodeID (snd n))) (g_nodes t) = true).
  { unfold graph_ids_ok in IDS. rewrite <- IDS. apply (forallb_snd (fun ps => truthy (pget P_NodeID ps))).
    simpl. apply map_snd_zip_ids. }
  rewrite IDS'. exists (merge s1 (stamp gid t)). split; [reflexivity|].
  apply extract_merge.
  - apply cleared_bounded, B.
  - apply cleared_no_gid.
  - simpl. destruct (g_nodes g) as [|[k ps] r]; [congruence|discriminate].
  - intros n Hn. simpl in Hn. apply in_map_iff in Hn as ([k ps] & <- & H0). split; [apply has_gid_stamped|].
    simpl. apply (in_map fst) in H0. apply zip_ids_range in H0. simpl in H0. lia.
  - intros e He. simpl in He. destruct (relabelled_closed (s_next s1) g ND CL e He) as [A C]. simpl.
    rewrite map_map. simpl. split; assumption.
Qed.

Theorem add_graph_direct_spec s gid g :
  bounded s -> NoDup (map fst (g_nodes g)) -> closed g -> (forall n, In n (g_nodes g) -> has_gid gid n = true) ->
  g_nodes g <> [] ->
  exists s', add_graph_direct s gid g = (s', ROk gid) /\ extract s' gid = Some (copy_direct s g).
Proof.
  intros B ND CL HG NE. unfold add_graph_direct, copy_direct. fold (cleared s gid).
  rewrite (relabel_spec _ g ND CL). rewrite <- (cleared_next s gid).
  set (s1 := cleared s gid). set (t := relabelled (s_next s1) g).
  exists (merge s1 t). split; [reflexivity|].
  apply extract_merge.
  - apply cleared_bounded, B.
  - apply cleared_no_gid.
  - simpl. destruct (g_nodes g) as [|[k ps] r]; [congruence|discriminate].
  - intros n Hn. split.
    + assert (In (snd n) (map snd (g_nodes g))) as H1.
      { simpl in Hn. rewrite <- (map_snd_zip_ids (s_next s1)). apply in_map, Hn. }
      apply in_map_iff in H1 as (n0 & E & H0). specialize (HG _ H0).
      unfold has_gid in *. rewrite <- E. exact HG.
    + simpl in Hn. apply (in_map fst) in Hn. apply zip_ids_range in Hn. lia.
  - apply relabelled_closed; assumption.
Qed.

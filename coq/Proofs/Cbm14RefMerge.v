(* C14 - refinement, node part: merge_adm on the store model does to the nodes of the combined graph exactly
   what smerge does to the abstract combined model. *)
From Coq Require Import List NArith Bool Lia.
From FIM Require Import Model.Cbm14Store Model.Cbm14Spec Model.Cbm14Abs Proofs.Cbm14Assoc Proofs.Cbm14Merge
     Proofs.Cbm14Frame Proofs.Cbm14RefBase Proofs.Cbm14RefPrep Proofs.Cbm14RefFold.
Import ListNotations.
Open Scope N_scope.

(* ---------- re-homing: GraphID tmp -> cbm ---------- *)
Definition rh (cbm tmp : N) (n : node) : node := if n_gid n =? tmp then set_gid cbm n else n.

Lemma rh_at_cbm_keep cbm tmp k ns : cbm <> tmp -> at_ tmp k ns = None -> at_ cbm k (map (rh cbm tmp) ns) = at_ cbm k ns.
Proof.
  intro NE. unfold at_, rh. induction ns as [|m r IH]; simpl; auto.
  destruct (n_gid m =? tmp) eqn:T; simpl.
  - apply N.eqb_eq in T. rewrite N.eqb_refl.
    assert (n_gid m =? cbm = false) as -> by (apply N.eqb_neq; congruence). simpl.
    destruct (n_nid m =? k); simpl; [discriminate|auto].
  - destruct ((n_gid m =? cbm) && (n_nid m =? k)); auto.
Qed.

Lemma rh_at_cbm_new cbm tmp k ns : cbm <> tmp -> at_ cbm k ns = None ->
  at_ cbm k (map (rh cbm tmp) ns) = option_map (set_gid cbm) (at_ tmp k ns).
Proof.
  intro NE. unfold at_, rh. induction ns as [|m r IH]; simpl; auto.
  destruct (n_gid m =? tmp) eqn:T; simpl.
  - apply N.eqb_eq in T. rewrite N.eqb_refl.
    assert (n_gid m =? cbm = false) as -> by (apply N.eqb_neq; congruence). simpl.
    destruct (n_nid m =? k); simpl; auto.
  - destruct (n_gid m =? cbm); simpl; auto. destruct (n_nid m =? k); simpl; [discriminate|auto].
Qed.

Lemma rh_at_other cbm tmp g k ns : g <> cbm -> g <> tmp -> at_ g k (map (rh cbm tmp) ns) = at_ g k ns.
Proof.
  intros G1 G2. unfold at_, rh. induction ns as [|m r IH]; simpl; auto.
  destruct (n_gid m =? tmp) eqn:T; simpl.
  - apply N.eqb_eq in T. assert (cbm =? g = false) as -> by (apply N.eqb_neq; congruence).
    assert (n_gid m =? g = false) as -> by (apply N.eqb_neq; congruence). simpl. exact IH.
  - destruct ((n_gid m =? g) && (n_nid m =? k)); auto.
Qed.

Lemma rh_at_tmp cbm tmp k ns : cbm <> tmp -> at_ tmp k (map (rh cbm tmp) ns) = None.
Proof.
  intro NE. apply at_none. intros n Hn G _. apply in_map_iff in Hn as (m & E & _). subst n. unfold rh in G.
  destruct (n_gid m =? tmp) eqn:T; simpl in G; [congruence|]. apply N.eqb_neq in T. contradiction.
Qed.

Lemma rh_id cbm tmp ns : (forall n, In n ns -> n_gid n <> tmp) -> map (rh cbm tmp) ns = ns.
Proof.
  intro H. rewrite <- (map_id ns) at 2. apply map_ext_in. intros n Hn. unfold rh.
  assert (n_gid n =? tmp = false) as -> by (apply N.eqb_neq; auto). reflexivity.
Qed.

Lemma NoDup_map_inj_in {A B} (f : A -> B) l :
  (forall x y, In x l -> In y l -> f x = f y -> x = y) -> NoDup l -> NoDup (map f l).
Proof.
  induction l as [|a r IH]; simpl; intros H ND; [constructor|]. inversion ND; subst. constructor.
  - intro X. apply in_map_iff in X as (y & E & Hy). assert (a = y) by (apply H; auto). subst. contradiction.
  - apply IH; auto.
Qed.

Lemma rh_J nx cbm tmp ns :
  cbm <> tmp -> J nx ns -> (forall k, at_ cbm k ns = None \/ at_ tmp k ns = None) -> J nx (map (rh cbm tmp) ns).
Proof.
  intros NE (U & B & K) EX.
  assert (forall m, n_int (rh cbm tmp m) = n_int m) as RI by (intro m; unfold rh; destruct (n_gid m =? tmp); reflexivity).
  split; [|split].
  - unfold uniq. rewrite map_map. rewrite (map_ext _ n_int RI). exact U.
  - intros n Hn. apply in_map_iff in Hn as (m & E & Hm). subst. rewrite RI. auto.
  - unfold ukeys. rewrite map_map. apply NoDup_map_inj_in; [|apply (NoDup_map_inv n_int); exact U].
    intros x y Hx Hy E. unfold rh, key in E.
    destruct (n_gid x =? tmp) eqn:Tx, (n_gid y =? tmp) eqn:Ty; simpl in E.
    + apply N.eqb_eq in Tx, Ty. apply (ukeys_inj ns x y K Hx Hy). unfold key. inversion E. congruence.
    + apply N.eqb_eq in Tx. inversion E as [[E1 E2]]. exfalso.
      destruct (EX (n_nid x)) as [X|X].
      * eapply (at_none_inv cbm (n_nid x) ns y X Hy); congruence.
      * eapply (at_none_inv tmp (n_nid x) ns x X Hx); congruence.
    + apply N.eqb_eq in Ty. inversion E as [[E1 E2]]. exfalso.
      destruct (EX (n_nid y)) as [X|X].
      * eapply (at_none_inv cbm (n_nid y) ns x X Hx); congruence.
      * eapply (at_none_inv tmp (n_nid y) ns y X Hy); congruence.
    + apply (ukeys_inj ns x y K Hx Hy). exact E.
Qed.

(* ---------- the images of the source nodes, read by NodeID ---------- *)
Lemma find_img adm tmp k l tn :
  Forall2 (img adm tmp) l tn ->
  match find (fun n => n_nid n =? k) l with
  | Some a => exists t, find (fun n => n_nid n =? k) tn = Some t /\ img adm tmp a t
  | None => find (fun n => n_nid n =? k) tn = None
  end.
Proof.
  induction 1 as [|a t l tn R F IH]; simpl; auto.
  assert (n_nid t = n_nid a) as E by apply R. rewrite E.
  destruct (n_nid a =? k); eauto.
Qed.

Lemma at_all_gid g k tn : (forall n, In n tn -> n_gid n = g) -> at_ g k tn = find (fun n => n_nid n =? k) tn.
Proof.
  intro H. unfold at_. induction tn as [|m r IH]; simpl; auto.
  assert (n_gid m =? g = true) as -> by (apply N.eqb_eq; apply H; simpl; auto). simpl.
  destruct (n_nid m =? k); auto. apply IH. intros; apply H; simpl; auto.
Qed.

Lemma img_at adm tmp k ns tn :
  Forall2 (img adm tmp) (gnodes adm ns) tn ->
  match at_ adm k ns with
  | Some a => exists t, at_ tmp k tn = Some t /\ img adm tmp a t
  | None => at_ tmp k tn = None
  end.
Proof.
  intro F. rewrite at_gnodes.
  assert (forall n, In n tn -> n_gid n = tmp) as AT.
  { intros n Hn. destruct (Forall2_in_r _ _ _ _ F Hn) as (a & _ & R). apply R. }
  rewrite (at_all_gid tmp k tn AT). apply find_img. exact F.
Qed.

(* ---------- abstraction of the merged / re-homed node ---------- *)
Lemma speaks_abs d : wf_del d = true -> speaks d = is_some (abs_del d).
Proof. destruct d as [| |[|[g c] [|? ?]]]; simpl; auto; discriminate. Qed.

Lemma speaks_rw adm da dt : rw_d adm da = inl dt -> speaks dt = is_some (src_del da) /\ wf_del dt = true.
Proof.
  destruct da as [| |[|[g c] [|? ?]]]; simpl; intro H; inversion H; subst; simpl; auto.
Qed.

Lemma del_join adm dc da dt :
  wf_del dc = true -> rw_d adm da = inl dt -> abs_del (upd_d dc dt) = join_d adm (abs_del dc) (src_del da).
Proof.
  intros W R. unfold upd_d.
  destruct dc as [| |[|[g c] [|? ?]]]; simpl in *; try discriminate; auto;
  destruct da as [| |[|[g' c'] [|? ?]]]; simpl in *; inversion R; subst; simpl; auto.
Qed.

Lemma del_stamp adm da dt : rw_d adm da = inl dt -> abs_del dt = option_map (pair adm) (src_del da).
Proof. destruct da as [| |[|[g' c'] [|? ?]]]; simpl; intro R; inversion R; subst; simpl; auto. Qed.

Lemma wf_upd_d dc dt : wf_del dc = true -> wf_del dt = true -> wf_del (upd_d dc dt) = true.
Proof. intros. unfold upd_d. destruct (speaks dc); auto. destruct (speaks dt); auto. Qed.

Lemma absn_mrg adm tmp c a t l :
  wf_cnode c = true -> n_si c = SIds l -> img adm tmp a t ->
  absn (mrg adm c t l) = upd adm (absa a) (absn c) /\ wf_cnode (mrg adm c t l) = true.
Proof.
  intros W S (_ & _ & _ & _ & _ & RL & RC). unfold wf_cnode in W. rewrite S in W.
  apply andb_true_iff in W as [W WC]. simpl in W.
  split.
  - unfold absn, mrg, upd; simpl. rewrite S. simpl. f_equal; apply del_join; auto.
  - unfold wf_cnode, mrg; simpl.
    rewrite !wf_upd_d; auto; [apply (speaks_rw _ _ _ RC) | apply (speaks_rw _ _ _ RL)].
Qed.

Lemma absn_rehomed adm tmp cbm a t :
  img adm tmp a t -> absn (set_gid cbm t) = stamp adm (absa a) /\ wf_cnode (set_gid cbm t) = true.
Proof.
  intros (_ & _ & C & O & S & RL & RC). split.
  - unfold absn, stamp; simpl. rewrite C, O, S. simpl. f_equal; apply del_stamp; auto.
  - unfold wf_cnode; simpl. rewrite S. simpl.
    rewrite (proj2 (speaks_rw _ _ _ RL)), (proj2 (speaks_rw _ _ _ RC)). reflexivity.
Qed.

Lemma clash_double adm tmp c a t :
  wf_cnode c = true -> img adm tmp a t -> clash (absn c) (absa a) = double_speaker c t.
Proof.
  intros W (_ & _ & _ & _ & _ & RL & RC). unfold wf_cnode in W.
  apply andb_true_iff in W as [W WC]. apply andb_true_iff in W as [_ WL].
  unfold clash, double_speaker, absn, absa; simpl.
  rewrite (speaks_abs _ WL), (speaks_abs _ WC), (proj1 (speaks_rw _ _ _ RL)), (proj1 (speaks_rw _ _ _ RC)). reflexivity.
Qed.

(* ---------- what the node list looks like just before the final re-homing ---------- *)
Definition table (cbm adm tmp : N) (ns ns3 : list node) : Prop :=
  forall k,
    match at_ cbm k ns, at_ adm k ns with
    | Some c, Some a => exists t l, img adm tmp a t /\ n_si c = SIds l /\ double_speaker c t = false /\
                                    at_ cbm k ns3 = Some (mrg adm c t l) /\ at_ tmp k ns3 = None
    | Some c, None => at_ cbm k ns3 = Some c /\ at_ tmp k ns3 = None
    | None, Some a => exists t, img adm tmp a t /\ at_ cbm k ns3 = None /\ at_ tmp k ns3 = Some t
    | None, None => at_ cbm k ns3 = None /\ at_ tmp k ns3 = None
    end.

Lemma table_refines nx cbm adm tmp st ns3 :
  J (s_next st) (s_nodes st) -> cbm_wf cbm (s_nodes st) -> cbm <> tmp -> adm <> cbm ->
  J nx ns3 -> table cbm adm tmp (s_nodes st) ns3 ->
  (forall g k, g <> cbm -> g <> tmp -> at_ g k ns3 = at_ g k (s_nodes st)) ->
  let fin := map (rh cbm tmp) ns3 in
  conflict (abs_cbm cbm st) (abs_adm adm st) = false /\
  (forall k, option_map absn (at_ cbm k fin) =
             getn k (merge_nodes adm (abs_nodes cbm st) (abs_adm_nodes adm st))) /\
  J nx fin /\ cbm_wf cbm fin /\
  (forall g k, g <> cbm -> g <> tmp -> at_ g k fin = at_ g k (s_nodes st)) /\
  (forall k, at_ tmp k fin = None).
Proof.
  intros Jst W NE NA J3 T OT fin. pose proof Jst as (U & B & K).
  assert (forall k, at_ cbm k ns3 = None \/ at_ tmp k ns3 = None) as EX.
  { intro k. specialize (T k). destruct (at_ cbm k (s_nodes st)), (at_ adm k (s_nodes st)).
    - destruct T as (t & l & _ & _ & _ & _ & X). auto.
    - destruct T; auto.
    - destruct T as (t & _ & X & _). auto.
    - destruct T; auto. }
  split; [|split; [|split; [|split; [|split]]]].
  - (* no refusal *)
    destruct (conflict (abs_cbm cbm st) (abs_adm adm st)) eqn:CF; auto. exfalso.
    unfold conflict in CF. apply existsb_exists in CF as ([k a'] & Hin & X). simpl in *.
    unfold abs_adm_nodes in Hin. apply in_map_iff in Hin as (a & E & Ha). inversion E; subst; clear E.
    unfold of_gid in Ha. apply filter_In in Ha as [Ha Ga]. apply N.eqb_eq in Ga.
    rewrite getn_abs in X. destruct (at_ cbm (n_nid a) (s_nodes st)) as [c|] eqn:Hc; simpl in X; [|discriminate].
    specialize (T (n_nid a)). rewrite Hc, (at_uniq adm (n_nid a) _ a K Ha Ga eq_refl) in T.
    destruct T as (t & l & IM & _ & DS & _).
    apply at_In in Hc as (Hc & Gc & _).
    rewrite (clash_double adm tmp c a t (W c Hc Gc) IM) in X. congruence.
  - (* the merged nodes *)
    intro k. rewrite get_merge_nodes, getn_abs, getn_abs_adm. specialize (T k).
    destruct (at_ cbm k (s_nodes st)) as [c|] eqn:Hc, (at_ adm k (s_nodes st)) as [a|] eqn:Ha; simpl.
    + destruct T as (t & l & IM & S & _ & A1 & A2).
      unfold fin. rewrite (rh_at_cbm_keep cbm tmp k ns3 NE A2), A1. simpl.
      apply at_In in Hc as (Hc' & Gc & _).
      rewrite (proj1 (absn_mrg adm tmp c a t l (W c Hc' Gc) S IM)). reflexivity.
    + destruct T as [A1 A2]. unfold fin. rewrite (rh_at_cbm_keep cbm tmp k ns3 NE A2), A1. reflexivity.
    + destruct T as (t & IM & A1 & A2). unfold fin. rewrite (rh_at_cbm_new cbm tmp k ns3 NE A1), A2. simpl.
      rewrite (proj1 (absn_rehomed adm tmp cbm a t IM)). reflexivity.
    + destruct T as [A1 A2]. unfold fin. rewrite (rh_at_cbm_keep cbm tmp k ns3 NE A2), A1. reflexivity.
  - apply rh_J; auto.
  - (* nodes of the combined graph stay well-formed *)
    intros n Hn Gn. unfold fin in Hn. apply in_map_iff in Hn as (m & E & Hm). subst n.
    destruct J3 as (U3 & B3 & K3).
    unfold rh in *. destruct (n_gid m =? tmp) eqn:Tm.
    + (* a re-homed image *)
      apply N.eqb_eq in Tm. specialize (T (n_nid m)).
      pose proof (at_uniq tmp (n_nid m) ns3 m K3 Hm Tm eq_refl) as AT.
      destruct (at_ cbm (n_nid m) (s_nodes st)), (at_ adm (n_nid m) (s_nodes st)) as [a|].
      * destruct T as (t & l & _ & _ & _ & _ & X). congruence.
      * destruct T; congruence.
      * destruct T as (t & IM & _ & X). rewrite AT in X. injection X as Q. rewrite Q. apply (absn_rehomed adm tmp cbm a t IM).
      * destruct T; congruence.
    + (* a node that was in the combined graph: merged or untouched *)
      specialize (T (n_nid m)).
      pose proof (at_uniq cbm (n_nid m) ns3 m K3 Hm Gn eq_refl) as AT.
      destruct (at_ cbm (n_nid m) (s_nodes st)) as [c|] eqn:Hc, (at_ adm (n_nid m) (s_nodes st)) as [a|].
      * destruct T as (t & l & IM & S & _ & X & _). rewrite AT in X. injection X as Q. rewrite Q.
        apply at_In in Hc as (Hc' & Gc & _). apply (absn_mrg adm tmp c a t l (W c Hc' Gc) S IM).
      * destruct T as [X _]. rewrite AT in X. injection X as Q. rewrite Q. apply at_In in Hc as (Hc' & Gc & _). auto.
      * destruct T as (t & _ & X & _). congruence.
      * destruct T; congruence.
  - intros g k G1 G2. unfold fin. rewrite rh_at_other; auto.
  - intro k. apply rh_at_tmp; auto.
Qed.

(* ---------- merge_adm reaches such a node list ---------- *)
Lemma merge_adm_eq cbm adm tmp st :
  merge_adm cbm adm tmp st =
  if negb (gexists adm st) then OErr EAssert st else
  match rw_nodes adm tmp (s_nodes (clone adm tmp st)) with
  | inr e => OErr e (clone adm tmp st)
  | inl ns =>
    let st2 := prep_store adm tmp st ns in
    if negb (gexists cbm st2) then rehome tmp cbm st2 else
    let common := filter (fun x => existsb (fun c => n_nid c =? x) (of_gid cbm st2)) (map n_nid (of_gid tmp st2)) in
    if existsb (fun x => match find_node cbm x st2, find_node tmp x st2 with
                         | Some c, Some t => double_speaker c t | _, _ => false end) common
    then OErrU EPGQ else
    match fold_left (merge_one cbm tmp adm) common (Some st2) with
    | None => OErrU EAttr
    | Some st3 => if gexists tmp st3 then rehome tmp cbm st3 else OOk st3
    end
  end.
Proof. reflexivity. Qed.

Lemma in_nids g k ns : In k (map n_nid (gnodes g ns)) <-> exists n, at_ g k ns = Some n.
Proof.
  split.
  - intro H. apply in_map_iff in H as (n & E & Hn). unfold gnodes in Hn. apply filter_In in Hn as [Hn G].
    apply N.eqb_eq in G. destruct (at_ g k ns) as [m|] eqn:A; eauto.
    exfalso. eapply at_none_inv; eauto.
  - intros [n A]. apply at_In in A as (Hn & G & E). apply in_map_iff. exists n. split; auto.
    unfold gnodes. apply filter_In. split; auto. apply N.eqb_eq. exact G.
Qed.

Lemma existsb_nid k l : existsb (fun c => n_nid c =? k) l = true <-> In k (map n_nid l).
Proof.
  rewrite existsb_exists, in_map_iff. split; intros (x & A & B'); exists x.
  - apply N.eqb_eq in B'. auto.
  - split; [tauto|]. apply N.eqb_eq. tauto.
Qed.

Lemma existsb_false_in {A} (f : A -> bool) l x : existsb f l = false -> In x l -> f x = false.
Proof.
  intros H Hx. destruct (f x) eqn:E; auto.
  assert (existsb f l = true) by (apply existsb_exists; eauto). congruence.
Qed.

Lemma fold_merge_one_next cbm tmp adm l : forall s s',
  fold_left (merge_one cbm tmp adm) l (Some s) = Some s' -> s_next s' = s_next s.
Proof.
  induction l as [|x r IH]; intros s s' H.
  - simpl in H. inversion H; reflexivity.
  - change (fold_left (merge_one cbm tmp adm) (x :: r) (Some s))
      with (fold_left (merge_one cbm tmp adm) r (merge_one cbm tmp adm (Some s) x)) in H.
    destruct (merge_one cbm tmp adm (Some s) x) as [s1|] eqn:E.
    + rewrite (IH _ _ H). simpl in E.
      destruct (find_node cbm x s); [|discriminate]. destruct (find_node tmp x s); [|discriminate].
      destruct (n_si n); try discriminate. inversion E; subst. reflexivity.
    + exfalso. clear - H. induction r; simpl in H; [discriminate|auto].
Qed.

Lemma no_gid_at g st : gexists g st = false -> forall k, at_ g k (s_nodes st) = None.
Proof. intros H k. apply at_other_gid. apply notmp_of_fresh. exact H. Qed.

Lemma gexists_at g st : gexists g st = true -> exists k n, at_ g k (s_nodes st) = Some n.
Proof.
  unfold gexists. intro H. apply existsb_exists in H as (n & Hn & G). apply N.eqb_eq in G.
  exists (n_nid n). destruct (at_ g (n_nid n) (s_nodes st)) as [m|] eqn:A; eauto.
  exfalso. eapply at_none_inv; eauto.
Qed.

Lemma merge_table cbm adm tmp st st' :
  J (s_next st) (s_nodes st) -> cbm_wf cbm (s_nodes st) -> cbm <> tmp -> gexists tmp st = false ->
  merge_adm cbm adm tmp st = OOk st' ->
  exists ns3, s_nodes st' = map (rh cbm tmp) ns3 /\ J (s_next st') ns3 /\ table cbm adm tmp (s_nodes st) ns3 /\
              (forall g k, g <> cbm -> g <> tmp -> at_ g k ns3 = at_ g k (s_nodes st)).
Proof.
  intros Jst W NE FR H. rewrite merge_adm_eq in H.
  destruct (negb (gexists adm st)); [discriminate|].
  destruct (rw_nodes adm tmp (s_nodes (clone adm tmp st))) as [ns2|] eqn:R; [|discriminate].
  destruct (prep_spec adm tmp st ns2 Jst FR R) as (tn & E2 & IM & J2).
  set (st2 := prep_store adm tmp st ns2) in *. cbv zeta in H.
  pose proof (notmp_of_fresh tmp st FR) as NT.
  assert (forall n, In n tn -> n_gid n = tmp) as TT.
  { intros n Hn. destruct (Forall2_in_r _ _ _ _ IM Hn) as (a & _ & I). apply I. }
  assert (forall k, at_ cbm k (s_nodes st2) = at_ cbm k (s_nodes st)) as Acbm.
  { intro k. rewrite E2, at_app. destruct (at_ cbm k (s_nodes st)); auto.
    apply at_other_gid. intros n Hn. rewrite (TT n Hn). auto. }
  assert (forall k, at_ tmp k (s_nodes st2) = at_ tmp k tn) as Atmp.
  { intro k. rewrite E2, at_app. rewrite (at_other_gid tmp k (s_nodes st) NT). reflexivity. }
  assert (forall g k, g <> tmp -> at_ g k (s_nodes st2) = at_ g k (s_nodes st)) as Aoth.
  { intros g k G. rewrite E2, at_app. destruct (at_ g k (s_nodes st)); auto.
    apply at_other_gid. intros n Hn. rewrite (TT n Hn). auto. }
  pose proof (fun k => img_at adm tmp k (s_nodes st) tn IM) as IA.
  destruct (negb (gexists cbm st2)) eqn:GC.
  - (* the combined graph is empty: the clone simply becomes the combined graph *)
    apply negb_true_iff in GC. unfold rehome in H. destruct (gexists tmp st2); [|discriminate].
    inversion H; subst st'; clear H.
    assert (J (s_next st2) (s_nodes st2)) as J2' by (rewrite E2; exact J2).
    exists (s_nodes st2). split; [reflexivity|]. split; [exact J2'|]. split.
    + intro k. pose proof (no_gid_at cbm st2 GC k) as N2. rewrite <- Acbm, N2. specialize (IA k).
      destruct (at_ adm k (s_nodes st)) as [a|].
      * destruct IA as (t & At & I). exists t. rewrite Atmp. auto.
      * rewrite Atmp. auto.
    + intros g k _ G. apply Aoth; auto.
  - (* the loop over the common nodes *)
    set (common := filter (fun x => existsb (fun c => n_nid c =? x) (of_gid cbm st2)) (map n_nid (of_gid tmp st2))) in *.
    destruct (existsb _ common) eqn:DS; [discriminate|].
    destruct (fold_left (merge_one cbm tmp adm) common (Some st2)) as [st3|] eqn:F; [|discriminate].
    pose proof (fold_merge_one_next _ _ _ _ _ _ F) as NX.
    pose proof (fold_merge_one_nodes cbm tmp adm common (Some st2)) as FN. rewrite F in FN. simpl in FN.
    symmetry in FN.
    assert (NoDup common) as NDc.
    { unfold common. apply NoDup_filter. apply (ukeys_nids tmp). rewrite E2. apply J2. }
    assert (forall k, In k common <-> (exists t, at_ tmp k (s_nodes st2) = Some t) /\ (exists c, at_ cbm k (s_nodes st2) = Some c)) as INC.
    { intro k. unfold common. rewrite filter_In, existsb_nid. unfold of_gid. fold (gnodes tmp (s_nodes st2)) (gnodes cbm (s_nodes st2)).
      rewrite !in_nids. tauto. }
    assert (J (s_next st2) (s_nodes st2)) as J2' by (rewrite E2; exact J2).
    destruct (fold_spec (s_next st2) cbm tmp adm NE common _ _ J2' NDc FN) as (J3 & I1 & I2 & I3).
    assert (s_nodes st' = map (rh cbm tmp) (s_nodes st3) /\ s_next st' = s_next st3) as [ES EN].
    { destruct (gexists tmp st3) eqn:G3.
      - unfold rehome in H. rewrite G3 in H. inversion H; subst. auto.
      - inversion H; subst. split; auto. symmetry. apply rh_id. apply notmp_of_fresh. exact G3. }
    exists (s_nodes st3). split; auto. split; [rewrite EN, NX; exact J3|]. split.
    + intro k. specialize (IA k).
      destruct (at_ cbm k (s_nodes st)) as [c|] eqn:Hc, (at_ adm k (s_nodes st)) as [a|] eqn:Ha.
      * destruct IA as (t & At & I).
        assert (In k common) as KC by (apply INC; rewrite Atmp, Acbm; eauto).
        destruct (I1 k c t KC) as [B1 B2]; [rewrite Acbm; auto | rewrite Atmp; auto|].
        pose proof Hc as Hc0.
        apply at_In in Hc as (Hc' & Gc & _). pose proof (W c Hc' Gc) as Wc.
        unfold wf_cnode in Wc. destruct (n_si c) as [| |l] eqn:S; try discriminate.
        exists t, l. split; [exact I|]. split; [reflexivity|]. split; [|split; [exact B1|exact B2]].
        pose proof (existsb_false_in _ _ k DS KC) as X. cbv beta in X.
        rewrite !find_node_at, Acbm, Atmp, At, Hc0 in X. exact X.
      * assert (~ In k common) as KC by (intro X; apply INC in X as [[t X] _]; rewrite Atmp in X; congruence).
        destruct (I2 k KC) as [B1 B2]. rewrite B1, B2, Acbm, Atmp, Hc. auto.
      * destruct IA as (t & At & I).
        assert (~ In k common) as KC by (intro X; apply INC in X as [_ [c X]]; rewrite Acbm in X; congruence).
        destruct (I2 k KC) as [B1 B2]. exists t. rewrite B1, B2, Acbm, Atmp, Hc. auto.
      * assert (~ In k common) as KC by (intro X; apply INC in X as [_ [c X]]; rewrite Acbm in X; congruence).
        destruct (I2 k KC) as [B1 B2]. rewrite B1, B2, Acbm, Atmp, Hc. auto.
    + intros g k G1 G2. rewrite I3; auto.
Qed.

(* ---------- the theorem: node part of "merge_adm refines smerge" ---------- *)
Theorem merge_refines_nodes cbm adm tmp st st' :
  J (s_next st) (s_nodes st) -> cbm_wf cbm (s_nodes st) -> cbm <> tmp -> adm <> cbm -> gexists tmp st = false ->
  merge_adm cbm adm tmp st = OOk st' ->
  conflict (abs_cbm cbm st) (abs_adm adm st) = false /\
  (forall k, getn k (abs_nodes cbm st') = getn k (merge_nodes adm (abs_nodes cbm st) (abs_adm_nodes adm st))) /\
  J (s_next st') (s_nodes st') /\ cbm_wf cbm (s_nodes st') /\
  (forall g k, g <> cbm -> g <> tmp -> at_ g k (s_nodes st') = at_ g k (s_nodes st)) /\
  (forall k, at_ tmp k (s_nodes st') = None).
Proof.
  intros Jst W NE NA FR H.
  destruct (merge_table cbm adm tmp st st' Jst W NE FR H) as (ns3 & ES & J3 & T & OT).
  destruct (table_refines (s_next st') cbm adm tmp st ns3 Jst W NE NA J3 T OT) as (C1 & C2 & C3 & C4 & C5 & C6).
  rewrite ES. repeat split; auto.
  - intro k. rewrite getn_abs, ES. apply C2.
  - apply C3.
  - apply C3.
  - apply C3.
Qed.

(* C03: the JSONField family -- round trip, canonical form, forward compatibility, update *)
From Coq Require Import String List NArith ZArith Bool Lia Permutation.
From FIM Require Import Base.Str Base.Json Base.JsonRT Gen.CodecGen Model.CodecField Model.CodecMisc Model.CodecWf
     Proofs.CodecAssoc.
Import ListNotations.

Lemma no_obj_jsort : forall v, no_obj v = true -> jsort v = v.
Proof.
  apply (json_ind2 (fun v => no_obj v = true -> jsort v = v)); try reflexivity.
  - intros l HF H. simpl in *. f_equal.
    induction HF as [|x l Hx HF IH]; [reflexivity|]. simpl in H. apply andb_true_iff in H as [H1 H2].
    simpl. rewrite (Hx H1), (IH H2). reflexivity.
  - intros m _ H. discriminate H.
Qed.

Lemma brace_not_absent t : absent_text (123%N :: t) = false.
Proof. reflexivity. Qed.

Section FieldProofs.
  Variable V : str -> json -> bool.

  Lemma set_fields_fold c fg kw : forall o,
    (forall k v, In (k, v) kw -> elem_ok V c k v = true /\ ahas k o = true) ->
    set_fields V c fg kw o = Ok (aset_all kw o).
  Proof.
    induction kw as [|[k v] kw IH]; intros o H; [reflexivity|].
    destruct (H k v (or_introl eq_refl)) as [He Hk].
    unfold elem_ok in He. apply andb_true_iff in He as [He1 He2].
    cbn [set_fields]. destruct (check_value c v); [discriminate|].
    rewrite Hk.
    assert (E : jc_validated c && negb (V k v) = false).
    { destruct (jc_validated c); [|reflexivity]. simpl in He2. rewrite He2. reflexivity. }
    rewrite E. rewrite IH; [reflexivity|].
    intros k' v' Hin. destruct (H k' v' (or_intror Hin)) as [A B]. split; [exact A|apply ahas_aset; exact B].
  Qed.

  Lemma wf_keys c o : wf_obj V c o = true -> map fst o = map fst (jc_fields c).
  Proof. unfold wf_obj. intro H. apply andb_true_iff in H as [H _]. apply list_eqb_str_eq. exact H. Qed.

  Lemma wf_field c o k v : wf_obj V c o = true -> In (k, v) o -> field_ok V c k v = true.
  Proof.
    unfold wf_obj. intros H Hin. apply andb_true_iff in H as [_ H]. rewrite forallb_forall in H.
    exact (H (k, v) Hin).
  Qed.

  Lemma cls_nodup c : cls_ok V c = true -> NoDup (map fst (jc_fields c)).
  Proof. unfold cls_ok. intro H. apply andb_true_iff in H as [H _]. apply nodup_keys_NoDup. exact H. Qed.

  Lemma cls_field c k d : cls_ok V c = true -> In (k, d) (jc_fields c) ->
    str_ok k = true /\ jwfb d = true /\ no_obj d = true /\
    (dropped (jc_json_drop c) d = true \/ elem_ok V c k d = true).
  Proof.
    unfold cls_ok. intros H Hin. apply andb_true_iff in H as [_ H]. rewrite forallb_forall in H.
    specialize (H (k, d) Hin). cbn [fst snd] in H.
    apply andb_true_iff in H as [H H5]. apply andb_true_iff in H as [H H4].
    apply andb_true_iff in H as [H1 H3]. apply orb_true_iff in H5. tauto.
  Qed.

  Lemma semi_keys c o : semi_wf V c o = true -> map fst o = map fst (jc_fields c).
  Proof. unfold semi_wf. intro H. apply andb_true_iff in H as [H _]. apply list_eqb_str_eq. exact H. Qed.

  Lemma semi_field c o k v : semi_wf V c o = true -> In (k, v) o -> semi_ok V c k v = true.
  Proof.
    unfold semi_wf. intros H Hin. apply andb_true_iff in H as [_ H]. rewrite forallb_forall in H.
    exact (H (k, v) Hin).
  Qed.

  Lemma wf_semi c o : wf_obj V c o = true -> semi_wf V c o = true.
  Proof.
    unfold wf_obj, semi_wf. intro H. apply andb_true_iff in H as [H1 H2]. rewrite H1. cbn [andb].
    apply forallb_forall. intros [k v] Hin. rewrite forallb_forall in H2. specialize (H2 (k, v) Hin).
    cbn [fst snd] in *. unfold field_ok in H2. unfold semi_ok. destruct (aget k (jc_fields c)); [|discriminate].
    apply orb_true_iff in H2 as [H2|H2]; [rewrite H2; reflexivity|].
    apply andb_true_iff in H2 as [H2 F4]. apply andb_true_iff in H2 as [H2 F3]. apply andb_true_iff in H2 as [F1 F2].
    rewrite F1, F3, F4. apply orb_true_r.
  Qed.

  Lemma dropped_is_default c o k v : wf_obj V c o = true -> In (k, v) o ->
    dropped (jc_json_drop c) v = true -> aget k (jc_fields c) = Some v.
  Proof.
    intros W Hin Hd. pose proof (wf_field c o k v W Hin) as F. unfold field_ok in F.
    destruct (aget k (jc_fields c)) as [d|]; [|discriminate].
    apply orb_true_iff in F as [F|F].
    - apply json_eqb_eq in F. congruence.
    - apply andb_true_iff in F as [F _]. apply andb_true_iff in F as [F _]. apply andb_true_iff in F as [_ F].
      rewrite Hd in F. discriminate.
  Qed.

  Lemma kept_props c o : cls_ok V c = true -> semi_wf V c o = true ->
    forall k v, In (k, v) (kept (jc_json_drop c) o) ->
    elem_ok V c k v = true /\ jwfb v = true /\ no_obj v = true /\ str_ok k = true
    /\ ahas k (jc_fields c) = true.
  Proof.
    intros C W k v Hin. unfold kept in Hin. apply filter_In in Hin as [Hin Hd]. cbn [snd] in Hd.
    apply negb_true_iff in Hd.
    pose proof (semi_field c o k v W Hin) as F. unfold semi_ok in F.
    destruct (aget k (jc_fields c)) as [d|] eqn:G; [|discriminate].
    pose proof (cls_field c k d C (aget_in _ _ _ G)) as (P1 & P3 & P4 & P5).
    assert (HK : ahas k (jc_fields c) = true) by (unfold ahas; rewrite G; reflexivity).
    apply orb_true_iff in F as [F|F].
    - apply json_eqb_eq in F. subst d. destruct P5 as [P5|P5]; [congruence|]. tauto.
    - apply andb_true_iff in F as [F F4]. apply andb_true_iff in F as [F1 F3].
      tauto.
  Qed.

  Lemma aget_map_val {A} (f : str -> A -> A) k (o : list (str * A)) :
    aget k (map (fun kv => (fst kv, f (fst kv) (snd kv))) o) = option_map (f k) (aget k o).
  Proof.
    induction o as [|[k0 v0] o IH]; simpl; [reflexivity|].
    destruct (str_eqb_spec k k0) as [->|N]; [reflexivity|exact IH].
  Qed.

  Lemma of_dict_kept_norm c o sd : cls_ok V c = true -> semi_wf V c o = true ->
    Permutation sd (kept (jc_json_drop c) o) -> of_dict V c sd = Ok (norm_obj c o).
  Proof.
    intros C W HP. unfold of_dict, defaults.
    pose proof (cls_nodup c C) as NDf. pose proof (semi_keys c o W) as K.
    assert (NDo : NoDup (map fst o)) by (rewrite K; exact NDf).
    assert (NDk : NoDup (map fst (kept (jc_json_drop c) o))) by (apply filter_keys_NoDup; exact NDo).
    assert (NDs : NoDup (map fst sd)).
    { eapply Permutation_NoDup; [apply Permutation_sym; apply Permutation_map; exact HP|exact NDk]. }
    assert (KN : map fst (norm_obj c o) = map fst o) by (unfold norm_obj; rewrite map_map; reflexivity).
    rewrite set_fields_fold.
    - f_equal. symmetry. apply assoc_ext.
      + rewrite KN. rewrite aset_all_keys; [exact K|].
        intros [k v] Hin. cbn [fst].
        pose proof (kept_props c o C W k v (Permutation_in _ HP Hin)) as (_ & _ & _ & _ & Q). exact Q.
      + rewrite KN. exact NDo.
      + intro k. rewrite (aset_all_get sd _ k NDs).
        rewrite (aget_perm sd _ k HP NDs).
        unfold kept. rewrite (aget_filter (fun v => negb (dropped (jc_json_drop c) v)) k o NDo).
        unfold norm_obj.
        rewrite (aget_map_val (fun k v => if dropped (jc_json_drop c) v then fld k (jc_fields c) else v) k o).
        destruct (aget k o) as [v|] eqn:G; cbn [option_map].
        * destruct (dropped (jc_json_drop c) v) eqn:D; simpl; [|reflexivity].
          assert (IN : In k (map fst (jc_fields c))).
          { rewrite <- K. apply in_map_iff. exists (k, v). split; [reflexivity|apply aget_in; exact G]. }
          apply ahas_in in IN. unfold ahas in IN. unfold fld.
          destruct (aget k (jc_fields c)); [reflexivity|discriminate].
        * symmetry. apply aget_none_notin. rewrite <- K. apply aget_none_notin. exact G.
    - intros k v Hin.
      pose proof (kept_props c o C W k v (Permutation_in _ HP Hin)) as (Q1 & _ & _ & _ & Q). tauto.
  Qed.

  Lemma norm_wf_id c o : cls_ok V c = true -> wf_obj V c o = true -> norm_obj c o = o.
  Proof.
    intros C W. unfold norm_obj. rewrite <- (map_id o) at 2. apply map_ext_in. intros [k v] Hin. cbn [fst snd].
    destruct (dropped (jc_json_drop c) v) eqn:D; [|reflexivity].
    pose proof (dropped_is_default c o k v W Hin D) as G. unfold fld. rewrite G. reflexivity.
  Qed.

  Lemma of_dict_kept c o sd : cls_ok V c = true -> wf_obj V c o = true ->
    Permutation sd (kept (jc_json_drop c) o) -> of_dict V c sd = Ok o.
  Proof.
    intros C W HP. rewrite (of_dict_kept_norm c o sd C (wf_semi c o W) HP). rewrite (norm_wf_id c o C W). reflexivity.
  Qed.

  Lemma kept_jwfb c o : cls_ok V c = true -> semi_wf V c o = true -> jwfb (JObj (kept (jc_json_drop c) o)) = true.
  Proof.
    intros C W. cbn [jwfb]. apply andb_true_iff. split.
    - apply forallb_forall. intros [k v] Hin. cbn [fst snd].
      pose proof (kept_props c o C W k v Hin) as (_ & Q2 & _ & Q4 & _). rewrite Q2, Q4. reflexivity.
    - apply NoDup_nodup_keys. apply filter_keys_NoDup. rewrite (semi_keys c o W). exact (cls_nodup c C).
  Qed.

  Lemma kept_jsort c o : cls_ok V c = true -> semi_wf V c o = true ->
    jsort (JObj (kept (jc_json_drop c) o)) = JObj (sort_kv (kept (jc_json_drop c) o)).
  Proof.
    intros C W. cbn [jsort]. f_equal. f_equal.
    rewrite <- (map_id (kept (jc_json_drop c) o)) at 2. apply map_ext_in.
    intros [k v] Hin. cbn [fst snd].
    pose proof (kept_props c o C W k v Hin) as (_ & _ & Q3 & _). rewrite (no_obj_jsort v Q3). reflexivity.
  Qed.

  Lemma filter_all {A} (p : A -> bool) l : (forall x, In x l -> p x = true) -> filter p l = l.
  Proof.
    induction l as [|x l IH]; intro H; [reflexivity|]. simpl. rewrite (H x (or_introl eq_refl)).
    rewrite IH; [reflexivity|]. intros y Hy. apply H. right. exact Hy.
  Qed.

  Lemma kept_all_known c o (sd : obj) : cls_ok V c = true -> semi_wf V c o = true ->
    Permutation sd (kept (jc_json_drop c) o) -> filter (known_key c) sd = sd.
  Proof.
    intros C W HP. apply filter_all. intros [k v] Hin. unfold known_key. cbn [fst].
    pose proof (kept_props c o C W k v (Permutation_in _ HP Hin)) as (_ & _ & _ & _ & Q). exact Q.
  Qed.

  (* encode / decode of ANY value the class accepts (also one with fields the encoder drops): the result is the
     normalised value -- dropped fields come back as their defaults *)
  Theorem field_reencode c o : cls_ok V c = true -> semi_wf V c o = true ->
    from_json V c (Some (to_json c o))
    = Ok (if nothing_kept c o && jc_json_blank c then None else Some (norm_obj c o)).
  Proof.
    intros C W. unfold to_json, nothing_kept.
    destruct (kept (jc_json_drop c) o) as [|kv d] eqn:K.
    - destruct (jc_json_blank c); [reflexivity|].
      cbn [andb]. unfold from_json.
      change (absent_text (jprint (JObj []))) with false. cbv iota.
      change (jparse (jprint (JObj []))) with (Some (JObj [])). cbv iota.
      unfold of_jv. cbn [filter].
      rewrite (of_dict_kept_norm c o [] C W); [reflexivity|]. rewrite K. constructor.
    - cbn [andb]. rewrite <- K.
      pose proof (kept_jwfb c o C W) as J. pose proof (kept_jsort c o C W) as SJ.
      unfold from_json.
      assert (A : absent_text (jprint (jsort (JObj (kept (jc_json_drop c) o)))) = false).
      { rewrite SJ. cbn [jprint]. apply brace_not_absent. }
      rewrite A.
      change (jprint (jsort (JObj (kept (jc_json_drop c) o)))) with (jdumps true (JObj (kept (jc_json_drop c) o))).
      rewrite (jparse_jdumps true _ J). rewrite SJ. unfold of_jv.
      pose proof (sort_kv_perm (kept (jc_json_drop c) o)) as HP.
      rewrite (kept_all_known c o _ C W HP).
      rewrite (of_dict_kept_norm c o _ C W HP). reflexivity.
  Qed.

  (* the encoded text of a constructible value decodes to that value; a value with nothing to encode is
     encoded as '' and decoded as absent *)
  Theorem field_roundtrip c o : cls_ok V c = true -> wf_obj V c o = true ->
    from_json V c (Some (to_json c o)) = Ok (if nothing_kept c o && jc_json_blank c then None else Some o).
  Proof.
    intros C W. rewrite (field_reencode c o C (wf_semi c o W)). rewrite (norm_wf_id c o C W). reflexivity.
  Qed.

  (* canonical: re-encoding what was decoded gives the identical text *)
  Theorem field_canonical c o y : cls_ok V c = true -> wf_obj V c o = true ->
    from_json V c (Some (to_json c o)) = Ok (Some y) -> to_json c y = to_json c o.
  Proof.
    intros C W H. rewrite (field_roundtrip c o C W) in H.
    destruct (nothing_kept c o && jc_json_blank c); [discriminate|]. congruence.
  Qed.

  (* ---------------- forward compatibility ---------------- *)
  Lemma ahas_aset_same k k' v (o : obj) : ahas k' o = true -> ahas k (aset k' v o) = ahas k o.
  Proof.
    intro H. unfold ahas in *. rewrite aget_aset. destruct (str_eqb_spec k k') as [->|N]; [|reflexivity].
    destruct (aget k' o); [reflexivity|discriminate].
  Qed.

  Definition some_res (r : res obj) : res (option obj) := match r with Ok o => Ok (Some o) | Err e => Err e end.

  (* a text decodes exactly as its known part: unknown keys, whatever their values, are ignored, nothing is
     raised because of them and no known key is dropped *)
  Theorem field_forward_compat c t d : jparse t = Some (JObj d) -> absent_text t = false ->
    from_json V c (Some t) = some_res (of_dict V c (filter (known_key c) d)).
  Proof. intros P A. unfold from_json. rewrite A, P. reflexivity. Qed.

  (* two texts with the same known entries decode alike *)
  Theorem field_forward_compat_same c t t' d d' : jparse t = Some (JObj d) -> jparse t' = Some (JObj d') ->
    absent_text t = false -> absent_text t' = false ->
    filter (known_key c) d' = filter (known_key c) d -> from_json V c (Some t') = from_json V c (Some t).
  Proof.
    intros P P' A A' E. rewrite (field_forward_compat c t d P A), (field_forward_compat c t' d' P' A'), E. reflexivity.
  Qed.

  (* ... in particular the encoding of a constructible value with unknown keys spliced in anywhere decodes to
     that value *)
  Theorem field_forward_compat_value c o t d : cls_ok V c = true -> wf_obj V c o = true ->
    jparse t = Some (JObj d) -> absent_text t = false ->
    Permutation (filter (known_key c) d) (kept (jc_json_drop c) o) ->
    from_json V c (Some t) = Ok (Some o).
  Proof.
    intros C W P A HP. rewrite (field_forward_compat c t d P A).
    rewrite (of_dict_kept c o _ C W HP). reflexivity.
  Qed.

  (* ---------------- update (copy with changes) ---------------- *)
  Lemma set_fields_strict_inv c kw : forall o y, set_fields V c false kw o = Ok y ->
    y = aset_all kw o /\ (forall kv, In kv kw -> ahas (fst kv) o = true /\ elem_ok V c (fst kv) (snd kv) = true).
  Proof.
    induction kw as [|[k v] kw IH]; intros o y H.
    - injection H as <-. split; [reflexivity|]. intros kv [].
    - cbn [set_fields] in H. unfold elem_ok.
      destruct (check_value c v) eqn:CV; [discriminate|].
      destruct (ahas k o) eqn:K; [|discriminate].
      destruct (jc_validated c && negb (V k v)) eqn:VV; [discriminate|].
      destruct (IH _ _ H) as [E Q]. split; [exact E|].
      intros kv [<-|Hin].
      + cbn [fst snd]. split; [exact K|]. rewrite CV. simpl.
        destruct (jc_validated c); [|reflexivity]. simpl in *. apply negb_false_iff in VV. exact VV.
      + destruct (Q kv Hin) as [Q1 Q2]. split; [|exact Q2].
        rewrite <- Q1. symmetry. apply ahas_aset_same. exact K.
  Qed.

  Theorem update_spec c o kw y : NoDup (map fst kw) -> update V c o kw = Ok y ->
    map fst y = map fst o
    /\ (forall k, aget k y = match aget k kw with Some v => Some v | None => aget k o end)
    /\ (forall k v, In (k, v) kw -> ahas k o = true /\ elem_ok V c k v = true).
  Proof.
    intros ND H. unfold update in H. destruct (set_fields_strict_inv c kw o y H) as [-> Q].
    split; [|split].
    - apply aset_all_keys. intros kv Hin. exact (proj1 (Q kv Hin)).
    - intro k. apply aset_all_get. exact ND.
    - intros k v Hin. exact (Q (k, v) Hin).
  Qed.

  (* nothing done to the lists of the result reaches the original *)
  Theorem update_original_independent o kw marker : orig_after_result_lists_grow o kw marker = o.
  Proof. reflexivity. Qed.

  Theorem update_nil c o : update V c o [] = Ok o.
  Proof. reflexivity. Qed.
End FieldProofs.

(* C02: element level - get after set returns the stored value, get after unset returns the absent
   value.  Generic in the class k (tables enter only through the boolean checks). *)
From Coq Require Import List String NArith Bool Lia.
From FIM Require Import Base.Str Model.Sliver2Kinds Gen.PropMap Model.Sliver2Map Model.Sliver2WF
  Proofs.Sliver2Assoc Proofs.Sliver2MapRT.
Import ListNotations.

(* the lemmas of this file must not depend on the CONTENT of the regenerated tables *)
Local Opaque enums type_enum to_base from_base to_specific from_specific setters getters init_attrs
  sliver_property_to_graph no_unset_properties child_keys node_id_prop.

Lemma from_val_cong k d1 d2 fe :
  pget (snd (fst fe)) d1 = pget (snd (fst fe)) d2 -> from_val k d1 fe = from_val k d2 fe.
Proof. unfold from_val. intro H. rewrite H. reflexivity. Qed.

Lemma from_val_target k d fe xv : from_val k d fe = Ok xv -> target k fe = Some (fst xv).
Proof.
  unfold from_val, target. destruct (find_setter k (fst (fst fe))) as [[x st]|]; [|discriminate].
  destruct (dec_val k (snd fe) (pget (snd (fst fe)) d)); simpl; [|discriminate].
  destruct (apply_setter st a); simpl; intro H; inversion H; reflexivity.
Qed.

Lemma Forall2_in_l {A B} (R : A -> B -> Prop) l1 l2 a :
  Forall2 R l1 l2 -> In a l1 -> exists b, In b l2 /\ R a b.
Proof.
  induction 1 as [|x y l1 l2 HR HF IH]; intro Hin; [contradiction|].
  destruct Hin as [E|Hin].
  - subst. exists y. split; [left; reflexivity | exact HR].
  - destruct (IH Hin) as [b [Hb HRb]]. exists b. split; [right; exact Hb | exact HRb].
Qed.

Lemma forall_exists_Forall2 {A B} (R : A -> B -> Prop) (l : list A) :
  (forall a, In a l -> exists b, R a b) -> exists l2, Forall2 R l l2.
Proof.
  induction l as [|a l IH]; intro H.
  - exists []. constructor.
  - destruct (H a (or_introl eq_refl)) as [b Hb].
    destruct IH as [l2 Hl2]; [intros a' Ha'; apply H; right; exact Ha'|].
    exists (b :: l2). constructor; assumption.
Qed.

Lemma from_props_all_ok k d r :
  from_props k d = Ok r -> forall fe, In fe (from_table k) -> exists xv, from_val k d fe = Ok xv.
Proof.
  unfold from_props. intros H fe Hfe.
  destruct (fold_from_spec k d _ _ _ H) as [xs [HF _]].
  destruct (Forall2_in_l _ _ _ fe HF Hfe) as [b [_ Hb]]. exists b. exact Hb.
Qed.

Lemma keys_of_vals k d : forall F xs,
  Forall2 (fun fe xv => from_val k d fe = Ok xv) F xs ->
  akeys xs = flat_map (fun fe => match target k fe with Some x => [x] | None => [] end) F.
Proof.
  induction 1 as [|fe xv F xs H HF IH]; simpl; [reflexivity|].
  rewrite (from_val_target _ _ _ _ H). simpl. f_equal. exact IH.
Qed.

Lemma from_props_lookup k d :
  tables_symmetric k = true ->
  (forall fe, In fe (from_table k) -> exists xv, from_val k d fe = Ok xv) ->
  exists r, from_props k d = Ok r /\
    forall fe xv, In fe (from_table k) -> from_val k d fe = Ok xv -> alookup (fst xv) r = Some (snd xv).
Proof.
  intros Hs Hall.
  destruct (forall_exists_Forall2 (fun fe xv => from_val k d fe = Ok xv) (from_table k) Hall) as [xs HF].
  exists (asets xs (blank k)). split.
  - unfold from_props. apply fold_from_build. exact HF.
  - intros fe xv Hfe Hv.
    destruct (Forall2_in_l _ _ _ fe HF Hfe) as [b [Hb Hb']].
    rewrite Hv in Hb'. inversion Hb'; subst b.
    destruct (sym_parts k Hs) as [_ [_ [_ [NDt _]]]].
    apply asets_lookup_in.
    + rewrite (keys_of_vals k d _ _ HF). exact NDt.
    + destruct xv; exact Hb.
Qed.

Lemma akeys_aset_notin {V} k (v : V) l : ~ In k (akeys l) -> akeys (aset k v l) = akeys l ++ [k].
Proof.
  induction l as [|[k' v'] r IH]; simpl; intro H; [reflexivity|].
  destruct (String.eqb k k') eqn:E.
  - apply String.eqb_eq in E. subst. exfalso. apply H. left. reflexivity.
  - simpl. f_equal. apply IH. intro; apply H; right; assumption.
Qed.

Lemma NoDup_snoc {A} (l : list A) k : NoDup l -> ~ In k l -> NoDup (l ++ [k]).
Proof.
  induction l as [|x l IH]; simpl; intros ND H.
  - constructor; [intros []|constructor].
  - inversion ND; subst. constructor.
    + intro Hc. apply in_app_or in Hc as [Hc|[Hc|[]]]; [contradiction|]. subst. apply H. left. reflexivity.
    + apply IH; [assumption|]. intro; apply H; right; assumption.
Qed.

Lemma to_props_nodup a : forall T acc P,
  NoDup (map gp T) -> NoDup (akeys acc) -> (forall g, In g (akeys acc) -> ~ In g (map gp T)) ->
  to_props_entries T a acc = Ok P -> NoDup (akeys P).
Proof.
  induction T as [|t r IH]; intros acc P ND NDacc Hdis H; simpl in H.
  - inversion H; subst. exact NDacc.
  - inversion ND as [|? ? NI ND']; subst.
    destruct (to_entry_val a t) as [o|e]; simpl in H; [|discriminate].
    destruct o as [p|].
    + assert (Hn : ~ In (snd (fst t)) (akeys acc)).
      { intro Hc. apply (Hdis _ Hc). left. reflexivity. }
      apply (IH _ _ ND') in H; [exact H| |].
      * rewrite akeys_aset_notin by exact Hn. apply NoDup_snoc; assumption.
      * intros g Hg. rewrite akeys_aset_notin in Hg by exact Hn. apply in_app_or in Hg as [Hg|[Hg|[]]].
        -- intro Hc. apply (Hdis g Hg). right. exact Hc.
        -- subst g. exact NI.
    + apply (IH _ _ ND') in H; [exact H | exact NDacc |].
      intros g Hg Hc. apply (Hdis g Hg). right. exact Hc.
Qed.

Lemma to_props_result_nodup k a P : tables_symmetric k = true -> to_props k a = Ok P -> NoDup (akeys P).
Proof.
  intros Hs HP. destruct (sym_parts k Hs) as [_ [NDg _]].
  unfold to_props in HP.
  refine (to_props_nodup a (to_table k) [] P NDg _ _ HP).
  - simpl. constructor.
  - intros g Hg. simpl in Hg. contradiction.
Qed.

(* a property that to_props wrote belongs to an attribute whose value is of its kind *)
Lemma emitted_attr_ok k a P fe x pv :
  tables_symmetric k = true -> akeys a = data_attrs k ->
  (forall y, In y (data_attrs k) -> aget y a = None \/ attr_ok k a y = true) ->
  to_props k a = Ok P -> In fe (from_table k) -> target k fe = Some x ->
  alookup (snd (fst fe)) P = Some pv -> attr_ok k a x = true.
Proof.
  intros Hs Hkeys Hweak HP Hfe Htx Hl.
  destruct (sym_parts k Hs) as [NDd [NDg [NDa [NDt [Hfrom [Hto [Hpart Hent]]]]]]].
  destruct (Hfrom fe Hfe) as [x' [Htx' Hxd]]. rewrite Htx in Htx'. inversion Htx'; subst x'.
  destruct (Hweak x Hxd) as [Hn|Hok]; [|exact Hok].
  destruct (from_for_of_entry k Hs fe x Hfe Htx) as [st [Hfs Hff]].
  assert (He := Hent x Hxd). unfold entry_ok in He. rewrite Hff in He.
  unfold attr_ok. rewrite Hff.
  destruct (to_for k x) as [[g1 r]|] eqn:Etf; [|discriminate].
  apply andb_true_iff in He as [Hg Hinv]. apply String.eqb_eq in Hg. subst g1.
  destruct (alookup_in_keys x a) as [ov Hov]; [rewrite Hkeys; exact Hxd|].
  unfold aget in Hn. rewrite Hov in Hn. subst ov.
  unfold to_props in HP.
  destruct (to_props_entries_spec a (to_table k) [] P NDg HP) as [Hspec _].
  destruct r as [e|x0].
  - apply to_for_primary in Etf. destruct (Hspec _ Etf) as [o [Ho Hlk]].
    unfold gp in Hlk. simpl in Hlk. rewrite Hl in Hlk.
    destruct o as [p|]; [|discriminate].
    unfold to_entry_val in Ho. rewrite Hov in Ho.
    destruct e; try discriminate.
    (* only the unguarded statement (EJsonDumpsAlways) writes an attribute that is None *)
    destruct (snd fe) as [ |c nk|en| |df|c|i|i]; simpl in Hinv; try discriminate.
    destruct df; [|discriminate].
    destruct st as [[c'|]| | | |[c'|]]; simpl in Hinv; try discriminate.
    unfold val_ok, aget. rewrite Hov. reflexivity.
  - apply to_for_partner in Etf. destruct (Hspec _ Etf) as [o [Ho Hlk]].
    unfold gp in Hlk. simpl in Hlk. rewrite Hl in Hlk.
    destruct o as [p|]; [|discriminate].
    unfold to_entry_val in Ho. rewrite Hov in Ho.
    destruct (alookup x0 a) as [[vx|]|]; discriminate.
Qed.

(* an attribute that holds a value of its kind is written *)
Lemma to_entry_emits k a x g e dc st w :
  (forall y, e <> EImagePair y) ->
  val_ok k (RPrimary e) dc st a x = true -> alookup x a = Some (Some w) ->
  exists pv, to_entry_val a (x, g, e) = Ok (Some pv).
Proof.
  intros Hnp Hval Hx. unfold val_ok, aget in Hval. unfold to_entry_val. rewrite Hx in *.
  destruct e; try (exfalso; eapply Hnp; reflexivity).
  all: destruct dc as [ |c nk|en| |df|c|i|i]; try discriminate;
       destruct st as [[c'|]| | | |[c'|]]; try discriminate;
       destruct w; try discriminate; simpl; eexists; reflexivity.
Qed.

Lemma apply_setter_some st v o : apply_setter st (Some v) = Ok o -> exists w, o = Some w.
Proof.
  destruct st as [[c|]| | | |[c|]]; simpl.
  - destruct (val_class v) as [c'|]; [destruct (String.eqb c c')|]; intro H; inversion H; eexists; reflexivity.
  - intro H; inversion H; eexists; reflexivity.
  - destruct v; intro H; inversion H; eexists; reflexivity.
  - destruct v; intro H; inversion H; eexists; reflexivity.
  - destruct v; intro H; inversion H; eexists; reflexivity.
  - destruct (val_class v) as [c'|]; [destruct (String.eqb c c')|]; intro H; inversion H; eexists; reflexivity.
  - intro H; inversion H; eexists; reflexivity.
Qed.

Lemma weak_parts k a : attrs_wf_weak k a = true ->
  akeys a = data_attrs k /\ (forall x, In x (data_attrs k) -> aget x a = None \/ attr_ok k a x = true).
Proof.
  intro H. unfold attrs_wf_weak in H. apply andb_true_iff in H as [H1 H2]. split.
  - apply list_eqb_string_eq. exact H1.
  - intros x Hx. rewrite forallb_forall in H2. specialize (H2 x Hx).
    destruct (aget x a); [right; exact H2 | left; reflexivity].
Qed.

Lemma readable_parts k d : readable k d = true -> (exists r, from_props k d = Ok r) /\ NoDup (akeys d).
Proof.
  unfold readable. intro H. apply andb_true_iff in H as [H1 H2]. split.
  - destruct (from_props k d) as [r|]; [eexists; reflexivity | discriminate].
  - apply nodupb_NoDup. exact H2.
Qed.

Lemma settable_parts k p x : settable k p = Some x ->
  exists st gk, find_setter k p = Some (x, st) /\ find_getter k p = Some (x, gk) /\ In x (data_attrs k).
Proof.
  unfold settable. destruct (find_setter k p) as [[x1 st]|]; [|discriminate].
  destruct (find_getter k p) as [[x2 gk]|]; [|discriminate].
  destruct (String.eqb x1 x2 && mem x1 (data_attrs k)) eqn:E; [|discriminate].
  intro H. inversion H; subst. apply andb_true_iff in E as [E1 E2].
  apply String.eqb_eq in E1. subst. exists st, gk. repeat split. apply mem_true_iff. exact E2.
Qed.

(* the from-entry that assigns attribute x *)
Lemma from_entry_of_attr k x :
  tables_symmetric k = true -> In x (data_attrs k) ->
  exists fe, In fe (from_table k) /\ target k fe = Some x.
Proof.
  intros Hs Hx. destruct (sym_parts k Hs) as [_ [_ [_ [_ [_ [_ [_ Hent]]]]]]].
  assert (He := Hent x Hx). unfold entry_ok in He.
  destruct (to_for k x) as [[g1 r]|]; [|discriminate].
  destruct (from_for k x) as [[[g2 dc] st]|] eqn:Eff; [|discriminate].
  unfold from_for in Eff.
  destruct (find (fun fe => match target k fe with Some y => String.eqb y x | None => false end) (from_table k))
    as [fe|] eqn:Efind; [|discriminate].
  apply find_some in Efind as [Hfe Ht]. exists fe. split; [exact Hfe|].
  destruct (target k fe) as [y|]; [|discriminate]. apply String.eqb_eq in Ht. subst. reflexivity.
Qed.

(* ---------- writing a blank sliver over the node's properties ---------- *)
(* an attribute that holds a value of its kind is written, also as one half of the image pair *)
Lemma attr_emits k a x w :
  tables_symmetric k = true -> In x (data_attrs k) -> attr_ok k a x = true -> alookup x a = Some (Some w) ->
  exists g r pv, to_for k x = Some (g, r) /\
    match r with
    | RPrimary e => to_entry_val a (x, g, e) = Ok (Some pv)
    | RPartner x0 => to_entry_val a (x0, g, EImagePair x) = Ok (Some pv)
    end.
Proof.
  intros Hs Hxd Hok Hx. unfold attr_ok in Hok.
  destruct (to_for k x) as [[g r]|] eqn:Etf; [|discriminate Hok].
  destruct (from_for k x) as [[[g2 dc] st]|]; [|discriminate Hok].
  exists g, r.
  destruct r as [e|x0].
  - destruct e.
    7: { unfold val_ok, aget in Hok. rewrite Hx in Hok. unfold to_entry_val. rewrite Hx.
         destruct w as [r0| | | | | | ]; try discriminate Hok.
         destruct (alookup partner a) as [[[t0| | | | | | ]|]|]; try discriminate Hok.
         eexists. split; reflexivity. }
    all: match goal with
         | |- exists pv, _ /\ to_entry_val ?aa (?xx, ?gg, ?e) = _ =>
             destruct (to_entry_emits k aa xx gg e dc st w) as [pv Hpv];
               [intros y H; discriminate H | exact Hok | exact Hx | exists pv; split; [reflexivity | exact Hpv]]
         end.
  - unfold val_ok, aget in Hok. rewrite Hx in Hok. unfold to_entry_val. rewrite Hx.
    destruct (alookup x0 a) as [[[r0| | | | | | ]|]|]; try discriminate Hok.
    destruct w as [t0| | | | | | ]; try discriminate Hok.
    eexists. split; reflexivity.
Qed.

(* an attribute that is None is not written, unless its statement is the unguarded one *)
Lemma attr_skipped k a x g r :
  to_for k x = Some (g, r) -> alookup x a = Some None -> always_written k x = false ->
  match r with
  | RPrimary e => to_entry_val a (x, g, e) = Ok None
  | RPartner x0 => to_entry_val a (x0, g, EImagePair x) = Ok None
  end.
Proof.
  intros Etf Hx Hal. unfold always_written in Hal. rewrite Etf in Hal.
  destruct r as [e|x0]; unfold to_entry_val; rewrite ?Hx.
  - destruct e; try reflexivity. discriminate Hal.
  - destruct (alookup x0 a) as [[v|]|]; reflexivity.
Qed.

Section Update.
  Variables (k : kind) (a1 : attrs) (d pd : props).
  Hypothesis Hs : tables_symmetric k = true.
  Hypothesis Hwk : attrs_wf_weak k a1 = true.
  Hypothesis Hrd : readable k d = true.
  Hypothesis Hpd : to_props k a1 = Ok pd.

  Lemma upd_cases fe : In fe (from_table k) ->
    (alookup (snd (fst fe)) pd = None /\ from_val k (aupdate d pd) fe = from_val k d fe) \/
    (exists pv, alookup (snd (fst fe)) pd = Some pv /\ from_val k (aupdate d pd) fe = Ok (rd k a1 fe)).
  Proof.
    intro Hfe. destruct (weak_parts k a1 Hwk) as [Hkeys Hweak].
    assert (NDpd := to_props_result_nodup k a1 pd Hs Hpd).
    rewrite aupdate_is_asets.
    destruct (alookup (snd (fst fe)) pd) as [pv|] eqn:El.
    - right. exists pv. split; [reflexivity|].
      rewrite <- (from_val_rd k a1 Hs Hkeys pd Hpd fe Hfe).
      + apply from_val_cong. unfold pget.
        rewrite (asets_lookup_in pd d _ pv NDpd (alookup_some_in _ _ _ El)). rewrite El. reflexivity.
      + intros x' Hx'. eapply emitted_attr_ok; eauto.
    - left. split; [reflexivity|]. apply from_val_cong. unfold pget.
      rewrite asets_lookup_notin; [reflexivity|].
      intro Hc. destruct (alookup_in_keys _ _ Hc) as [v' Hv']. rewrite Hv' in El. discriminate El.
  Qed.

  Lemma upd_readable :
    exists r, from_props k (aupdate d pd) = Ok r /\
      forall fe xv, In fe (from_table k) -> from_val k (aupdate d pd) fe = Ok xv ->
                    alookup (fst xv) r = Some (snd xv).
  Proof.
    destruct (readable_parts k d Hrd) as [[r0 Hr0] _].
    apply from_props_lookup; [exact Hs|].
    intros fe Hfe. destruct (upd_cases fe Hfe) as [[_ Heq]|[pv [_ Heq]]]; rewrite Heq.
    - apply (from_props_all_ok k d r0 Hr0 fe Hfe).
    - eexists. reflexivity.
  Qed.

  (* the graph property of attribute x, as to_props wrote (or did not write) it *)
  Lemma pd_lookup x g r : In x (data_attrs k) -> to_for k x = Some (g, r) ->
    exists o, alookup g pd = match o with Some p => Some p | None => None end /\
      match r with
      | RPrimary e => to_entry_val a1 (x, g, e) = Ok o
      | RPartner x0 => to_entry_val a1 (x0, g, EImagePair x) = Ok o
      end.
  Proof.
    intros Hxd Etf. destruct (sym_parts k Hs) as [_ [NDg _]].
    assert (Hpd' := Hpd). unfold to_props in Hpd'.
    destruct (to_props_entries_spec a1 (to_table k) [] pd NDg Hpd') as [Hspec _].
    destruct r as [e|x0].
    - apply to_for_primary in Etf. destruct (Hspec _ Etf) as [o [Ho Hl]]. exists o. split; [exact Hl | exact Ho].
    - apply to_for_partner in Etf. destruct (Hspec _ Etf) as [o [Ho Hl]]. exists o. split; [exact Hl | exact Ho].
  Qed.

  Lemma entry_of_attr x : In x (data_attrs k) ->
    exists fe g r st, In fe (from_table k) /\ target k fe = Some x /\ snd (fst fe) = g /\
                      to_for k x = Some (g, r) /\ find_setter k (fst (fst fe)) = Some (x, st).
  Proof.
    intro Hxd. destruct (from_entry_of_attr k x Hs Hxd) as [fe [Hfe Htx]].
    destruct (from_for_of_entry k Hs fe x Hfe Htx) as [st [Hfs Hff]].
    destruct (sym_parts k Hs) as [_ [_ [_ [_ [_ [_ [_ Hent]]]]]]].
    assert (He := Hent x Hxd). unfold entry_ok in He. rewrite Hff in He.
    destruct (to_for k x) as [[g r]|] eqn:Etf; [|discriminate He].
    apply andb_true_iff in He as [Hg _]. apply String.eqb_eq in Hg.
    exists fe, g, r, st. repeat split; try assumption. symmetry. exact Hg.
  Qed.

  (* reading back an attribute the blank sliver carries *)
  Theorem upd_get_written p x w :
    settable k p = Some x -> aget x a1 = Some w -> get_property k p (aupdate d pd) = Ok (Some w).
  Proof.
    intros Hset Hw. destruct (settable_parts k p x Hset) as [st0 [gk [Hfs [Hfg Hxd]]]].
    destruct (weak_parts k a1 Hwk) as [Hkeys Hweak].
    destruct (alookup_in_keys x a1) as [ov Hov]; [rewrite Hkeys; exact Hxd|].
    unfold aget in Hw. rewrite Hov in Hw. subst ov.
    assert (Hattr : attr_ok k a1 x = true).
    { destruct (Hweak x Hxd) as [Hn|Hok]; [|exact Hok]. unfold aget in Hn. rewrite Hov in Hn. discriminate Hn. }
    destruct (entry_of_attr x Hxd) as [fe [g [r [st [Hfe [Htx [Eg [Etf _]]]]]]]].
    destruct (attr_emits k a1 x w Hs Hxd Hattr Hov) as [g' [r' [pv [Etf' Hem]]]].
    rewrite Etf in Etf'. inversion Etf'; subst g' r'.
    destruct (pd_lookup x g r Hxd Etf) as [o [Hl Ho]].
    assert (Ho' : o = Some pv) by (destruct r; rewrite Hem in Ho; inversion Ho; reflexivity). subst o.
    destruct upd_readable as [rr [Hr Hlk]].
    unfold get_property. rewrite Hr. cbn [bind]. rewrite Hfg.
    destruct (upd_cases fe Hfe) as [[Hnone _]|[pv' [_ Heq]]].
    - rewrite Eg in Hnone. rewrite Hl in Hnone. discriminate Hnone.
    - specialize (Hlk fe _ Hfe Heq). unfold rd in Hlk. rewrite Htx in Hlk. cbn [fst snd] in Hlk.
      unfold aget in Hlk. rewrite Hov in Hlk. rewrite Hlk. reflexivity.
  Qed.

  (* frame: a property the blank sliver does not carry reads as before *)
  Theorem upd_get_frame p x :
    settable k p = Some x -> aget x a1 = None -> always_written k x = false ->
    get_property k p (aupdate d pd) = get_property k p d.
  Proof.
    intros Hset Hw Hal. destruct (settable_parts k p x Hset) as [st0 [gk [Hfs [Hfg Hxd]]]].
    destruct (weak_parts k a1 Hwk) as [Hkeys Hweak].
    destruct (alookup_in_keys x a1) as [ov Hov]; [rewrite Hkeys; exact Hxd|].
    unfold aget in Hw. rewrite Hov in Hw. subst ov.
    destruct (entry_of_attr x Hxd) as [fe [g [r [st [Hfe [Htx [Eg [Etf _]]]]]]]].
    assert (Hsk := attr_skipped k a1 x g r Etf Hov Hal).
    destruct (pd_lookup x g r Hxd Etf) as [o [Hl Ho]].
    assert (Ho' : o = None) by (destruct r; rewrite Hsk in Ho; inversion Ho; reflexivity). subst o.
    destruct upd_readable as [rr [Hr Hlk]].
    destruct (readable_parts k d Hrd) as [[r0 Hr0] _].
    destruct (from_props_lookup k d Hs (from_props_all_ok k d r0 Hr0)) as [r0' [Hr0' Hlk0]].
    rewrite Hr0 in Hr0'. inversion Hr0'; subst r0'.
    unfold get_property. rewrite Hr, Hr0. cbn [bind]. rewrite Hfg.
    destruct (from_props_all_ok k d r0 Hr0 fe Hfe) as [xv Hxv].
    destruct (upd_cases fe Hfe) as [[_ Heq]|[pv' [Hsome _]]].
    - rewrite <- Heq in Hxv. assert (E1 := Hlk fe xv Hfe Hxv). rewrite Heq in Hxv.
      assert (E0 := Hlk0 fe xv Hfe Hxv).
      assert (Et := from_val_target k d fe xv Hxv). rewrite Htx in Et.
      assert (Ex : fst xv = x) by (inversion Et; reflexivity).
      rewrite Ex in E1, E0. rewrite E1, E0. reflexivity.
    - rewrite Eg in Hsome. rewrite Hl in Hsome. discriminate Hsome.
  Qed.
End Update.

(* ---------- get after unset ---------- *)
Lemma absent_ok_entry k fe :
  absent_ok k = true -> In fe (from_table k) -> mem (snd (fst fe)) no_unset_properties = false ->
  exists x, target k fe = Some x /\ from_val k [] fe = Ok (x, unset_reads k x).
Proof.
  intros Ha Hfe Hm. unfold absent_ok in Ha. rewrite forallb_forall in Ha. specialize (Ha fe Hfe).
  rewrite Hm in Ha. simpl in Ha.
  destruct (target k fe) as [x|]; [|discriminate]. exists x. split; [reflexivity|].
  destruct (from_val k [] fe) as [[x' v]|]; [|discriminate].
  apply andb_true_iff in Ha as [Hx Hv]. apply String.eqb_eq in Hx. subst x'.
  destruct v as [[ | |c [|]| | | | ]|]; destruct (unset_reads k x) as [[ | |c' [|]| | | | ]|]; try discriminate.
  - apply String.eqb_eq in Hv. subst. reflexivity.
  - apply Bool.eqb_prop in Hv. subst. reflexivity.
  - reflexivity.
Qed.

Theorem unset_get_generic k p d x g :
  tables_symmetric k = true -> absent_ok k = true ->
  settable k p = Some x -> alookup p sliver_property_to_graph = Some g ->
  mem g no_unset_properties = false -> unset_map_ok k p = true -> readable k d = true ->
  exists d', set_property k p None d = Ok d' /\ get_property k p d' = Ok (unset_reads k x).
Proof.
  intros Hs Ha Hset Hmap Hnu Hum Hrd.
  destruct (settable_parts k p x Hset) as [st [gk [Hfs [Hfg Hxd]]]].
  destruct (readable_parts k d Hrd) as [[r0 Hr0] NDd].
  exists (aremove g d). split.
  { unfold set_property, set_property_with, unset_property. rewrite Hmap, Hnu. reflexivity. }
  assert (Hall : forall fe, In fe (from_table k) ->
            (snd (fst fe) = g /\ from_val k (aremove g d) fe = from_val k [] fe) \/
            (snd (fst fe) <> g /\ from_val k (aremove g d) fe = from_val k d fe)).
  { intros fe Hfe. destruct (string_dec (snd (fst fe)) g) as [E|N].
    - left. split; [exact E|]. apply from_val_cong. unfold pget. rewrite E.
      rewrite (alookup_aremove_same g d NDd). reflexivity.
    - right. split; [exact N|]. apply from_val_cong. unfold pget.
      rewrite alookup_aremove_other by (intro E; apply N; symmetry; exact E). reflexivity. }
  assert (Hok : forall fe, In fe (from_table k) -> exists xv, from_val k (aremove g d) fe = Ok xv).
  { intros fe Hfe. destruct (Hall fe Hfe) as [[E Heq]|[N Heq]]; rewrite Heq.
    - destruct (absent_ok_entry k fe Ha Hfe) as [x' [_ Hv]]; [rewrite E; exact Hnu|]. eexists; exact Hv.
    - apply (from_props_all_ok k d r0 Hr0 fe Hfe). }
  destruct (from_props_lookup k (aremove g d) Hs Hok) as [r [Hr Hlk]].
  unfold get_property. rewrite Hr. cbn [bind]. rewrite Hfg.
  destruct (from_entry_of_attr k x Hs Hxd) as [fe [Hfe Htx]].
  destruct (from_for_of_entry k Hs fe x Hfe Htx) as [st' [Hfs' Hff]].
  destruct (sym_parts k Hs) as [_ [_ [_ [_ [_ [_ [_ Hent]]]]]]].
  assert (He := Hent x Hxd). unfold entry_ok in He. rewrite Hff in He.
  unfold unset_map_ok in Hum. rewrite Hset, Hmap in Hum.
  destruct (to_for k x) as [[g1 r1]|]; [|discriminate].
  apply String.eqb_eq in Hum. subst g1.
  apply andb_true_iff in He as [Hg _]. apply String.eqb_eq in Hg.
  destruct (Hall fe Hfe) as [[_ Heq]|[N _]]; [|exfalso; apply N; symmetry; exact Hg].
  destruct (absent_ok_entry k fe Ha Hfe) as [x' [Htx' Hv]]; [rewrite <- Hg; exact Hnu|].
  rewrite Htx in Htx'. inversion Htx'; subst x'.
  rewrite <- Heq in Hv. specialize (Hlk fe _ Hfe Hv). cbn [fst snd] in Hlk. rewrite Hlk. reflexivity.
Qed.

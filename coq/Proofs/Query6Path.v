(* C06 proofs, part 2: shortest path (breadth-first reach sets) and path-with-hops (simple-path enumeration)
   of Model/Query6.v: soundness, minimality, emptiness iff no path. *)
From Coq Require Import List NArith ZArith Bool Lia Arith.
From FIM Require Import Model.Query6 Proofs.Query6Nbr.
Import ListNotations.
Open Scope N_scope.

Lemma NoDup_app_r {A} (l1 l2 : list A) : NoDup (l1 ++ l2) -> NoDup l2.
Proof. induction l1 as [|a l1 IH]; simpl; intros H; auto. inversion H; auto. Qed.

Section Paths.
Variable G : graph.
Notation adj := (adjb G).
Notation nodes := (ints G).

Definition all_in (r : list N) : bool := forallb (fun y => mem y nodes) r.

Lemma all_in_In r : all_in r = true <-> forall y, In y r -> In y nodes.
Proof.
  unfold all_in. rewrite forallb_forall. split; intros H y Hy; specialize (H y Hy); apply mem_In; auto.
Qed.

Lemma is_path_iff p a z :
  is_path G p a z = true <->
  exists r, p = a :: r /\ pathf adj a r z = true /\ In a nodes /\ all_in r = true.
Proof.
  unfold is_path. destruct p as [|x r].
  - split; [discriminate|]. intros (r & E & _); discriminate.
  - simpl. split.
    + intros H. apply andb_true_iff in H as [H H3]. apply andb_true_iff in H as [H1 H2].
      apply andb_true_iff in H3 as [H3 H4]. apply N.eqb_eq in H1. subst.
      exists r. repeat split; auto. apply mem_In; auto.
    + intros (r' & E & H2 & H3 & H4). inversion E; subst.
      rewrite N.eqb_refl, H2. simpl. apply andb_true_iff. split; auto. apply mem_In; auto.
Qed.

(* ---------- pathf ---------- *)
Lemma pathf_suffix w l1 x l2 z : pathf adj w (l1 ++ x :: l2) z = true -> pathf adj x l2 z = true.
Proof.
  revert w. induction l1 as [|y l1 IH]; simpl; intros w H; apply andb_true_iff in H as [_ H]; eauto.
Qed.

Lemma pathf_last x r z : pathf adj x r z = true -> r <> [] -> In z r.
Proof.
  revert x. induction r as [|w r IH]; simpl; intros x H Hne. congruence.
  apply andb_true_iff in H as [_ H]. destruct r as [|w' r'].
  - simpl in H. apply N.eqb_eq in H. auto.
  - right. eapply IH; eauto. discriminate.
Qed.

(* every walk contains a simple one *)
Lemma loop_removal x r z :
  pathf adj x r z = true ->
  exists r', pathf adj x r' z = true /\ NoDup (x :: r') /\ incl r' r.
Proof.
  revert x. induction r as [|w t IH]; intros x H.
  - exists []. repeat split; auto. constructor; auto. constructor. apply incl_refl.
  - simpl in H. apply andb_true_iff in H as [Ha H]. destruct (IH w H) as (r'' & P & ND & I).
    destruct (in_dec N.eq_dec x (w :: r'')) as [Hin|Hnin].
    + destruct Hin as [E|Hin].
      * subst w. exists r''. repeat split; auto. apply incl_tl; auto.
      * apply in_split in Hin as (l1 & l2 & E). subst r''.
        exists l2. repeat split.
        -- eapply pathf_suffix; eauto.
        -- inversion ND as [|? ? _ ND']; subst. apply NoDup_app_r in ND'. exact ND'.
        -- apply incl_tl. eapply incl_tran; [|exact I]. intros y Hy. apply in_or_app. right. right. auto.
    + exists (w :: r''). repeat split.
      * simpl. rewrite Ha, P. reflexivity.
      * constructor; auto.
      * intros y [->|Hy]; [left; auto|right; apply I; auto].
Qed.

(* ---------- reach sets ---------- *)
Lemma step_incl S x : In x S -> In x (step G S).
Proof. intros. unfold step. apply in_or_app. auto. Qed.

Lemma reach_mono k : forall S x, In x S -> In x (reachS G k S).
Proof. induction k as [|k IH]; simpl; intros S x H; auto. apply IH. apply step_incl; auto. Qed.

Lemma step_adj S x w : In x S -> adj x w = true -> In w nodes -> In w (step G S).
Proof.
  intros Hx Ha Hw. unfold step. apply in_or_app. destruct (mem w S) eqn:E.
  - left. apply mem_In; auto.
  - right. apply filter_In. split; auto. rewrite E. simpl. apply existsb_exists. eauto.
Qed.

Lemma reach_complete k : forall S x r z,
  In x S -> pathf adj x r z = true -> all_in r = true -> (length r <= k)%nat -> In z (reachS G k S).
Proof.
  induction k as [|k IH]; intros S x r z Hx P A L.
  - destruct r; simpl in L; [|lia]. simpl in P. apply N.eqb_eq in P. subst. simpl. auto.
  - simpl. destruct r as [|w r].
    + simpl in P. apply N.eqb_eq in P. subst. apply reach_mono. apply step_incl; auto.
    + simpl in P, A, L. apply andb_true_iff in P as [Ha P]. apply andb_true_iff in A as [Hw A].
      apply (IH (step G S) w r z); auto; try lia.
      eapply step_adj; eauto. apply mem_In; auto.
Qed.

Lemma reach_sound k : forall S z,
  In z (reachS G k S) ->
  exists x r, In x S /\ pathf adj x r z = true /\ all_in r = true /\ (length r <= k)%nat.
Proof.
  induction k as [|k IH]; simpl; intros S z H.
  - exists z, []. simpl. rewrite N.eqb_refl. auto.
  - destruct (IH _ _ H) as (x' & r' & Hx' & P & A & L).
    unfold step in Hx'. apply in_app_or in Hx' as [Hx'|Hx'].
    + exists x', r'. repeat split; auto.
    + apply filter_In in Hx' as [Hn Hb]. apply andb_true_iff in Hb as [_ Hb].
      apply existsb_exists in Hb as (x & Hx & Ha).
      exists x, (x' :: r'). simpl. rewrite Ha, P, A. repeat split; auto; try lia.
      apply andb_true_iff. split; auto. apply mem_In; auto.
Qed.

(* ---------- least ---------- *)
Lemma least_Some f : forall fuel k j,
  least f k fuel = Some j -> f j = true /\ (k <= j)%nat /\ forall i, (k <= i < j)%nat -> f i = false.
Proof.
  induction fuel as [|fuel IH]; simpl; intros k j H; destruct (f k) eqn:E.
  - inversion H; subst. repeat split; auto. intros; lia.
  - discriminate.
  - inversion H; subst. repeat split; auto. intros; lia.
  - apply IH in H as (H1 & H2 & H3). repeat split; auto; try lia.
    intros i Hi. destruct (Nat.eq_dec i k); [subst; auto|apply H3; lia].
Qed.

Lemma least_None f : forall fuel k,
  least f k fuel = None -> forall i, (k <= i <= k + fuel)%nat -> f i = false.
Proof.
  induction fuel as [|fuel IH]; simpl; intros k H i Hi; destruct (f k) eqn:E; try discriminate.
  - assert (i = k) by lia. subst; auto.
  - destruct (Nat.eq_dec i k); [subst; auto|]. apply (IH _ H). lia.
Qed.

(* ---------- build ---------- *)
Lemma build_ok k : forall x z,
  In x nodes -> mem z (reachS G k [x]) = true ->
  exists p, build G k x z = Some p /\ is_path G p x z = true /\ (length p <= k + 1)%nat.
Proof.
  induction k as [|k IH]; intros x z Hx Hr; apply mem_In in Hr.
  - simpl in Hr. destruct Hr as [->|[]]. exists [z].
    split; [simpl; rewrite N.eqb_refl; reflexivity|]. split; [|simpl; lia].
    apply is_path_iff. exists []. simpl. rewrite N.eqb_refl. auto.
  - simpl. destruct (x =? z) eqn:E.
    + apply N.eqb_eq in E. subst. exists [z]. repeat split; auto.
      * apply is_path_iff. exists []. simpl. rewrite N.eqb_refl. auto.
      * simpl; lia.
    + apply reach_sound in Hr as (x0 & r & Hx0 & P & A & L). destruct Hx0 as [->|[]].
      destruct r as [|w r]; [simpl in P; congruence|].
      simpl in P, A, L. apply andb_true_iff in P as [Ha P]. apply andb_true_iff in A as [Hw A].
      apply mem_In in Hw.
      assert (Hz : In z (reachS G k [w])).
      { apply (reach_complete k [w] w r z); auto; try lia. left; auto. }
      destruct (find (fun w0 => adj x0 w0 && mem z (reachS G k [w0])) nodes) as [w'|] eqn:F.
      * apply find_some in F as [Hw' Hb]. apply andb_true_iff in Hb as [Ha' Hz'].
        destruct (IH w' z Hw' Hz') as (p' & B & IP & LP). rewrite B. simpl.
        exists (x0 :: p'). repeat split; auto; [|simpl; lia].
        apply is_path_iff in IP as (r' & Ep & P' & _ & A'). subst p'.
        apply is_path_iff. exists (w' :: r'). simpl. rewrite Ha', P', A'. repeat split; auto.
        apply andb_true_iff. split; auto. apply mem_In; auto.
      * exfalso. apply (find_none _ _ F) in Hw. rewrite Ha in Hw. simpl in Hw.
        apply mem_In in Hz. congruence.
Qed.

(* ---------- nx.shortest_path ---------- *)
Lemma sp_sound_min a z p :
  In a nodes -> sp_int G a z = Some p ->
  is_path G p a z = true /\ forall q, is_path G q a z = true -> (length p <= length q)%nat.
Proof.
  intros Ha H. unfold sp_int in H.
  destruct (least _ 0 (length (g_nodes G))) as [k|] eqn:LE; try discriminate.
  apply least_Some in LE as (Fk & _ & Fmin).
  destruct (build_ok k a z Ha Fk) as (p' & B & IP & LP). rewrite B in H. inversion H; subst.
  split; auto. intros q Hq. apply is_path_iff in Hq as (r & Eq & P & _ & A). subst q. simpl.
  destruct (le_lt_dec k (length r)) as [Hle|Hlt]; [lia|].
  exfalso. specialize (Fmin (length r) (conj (Nat.le_0_l _) Hlt)).
  assert (Hz : In z (reachS G (length r) [a])).
  { apply (reach_complete (length r) [a] a r z); auto. left; auto. }
  apply mem_In in Hz. congruence.
Qed.

Lemma sp_none a z :
  In a nodes -> sp_int G a z = None -> forall q, is_path G q a z = false.
Proof.
  intros Ha H q. apply not_true_is_false. intro Hq. unfold sp_int in H.
  apply is_path_iff in Hq as (r & Eq & P & _ & A). subst q.
  destruct (loop_removal _ _ _ P) as (r' & P' & ND & I).
  assert (A' : all_in r' = true).
  { apply all_in_In. intros y Hy. apply (proj1 (all_in_In r) A). apply I; auto. }
  assert (L : (length (a :: r') <= length nodes)%nat).
  { apply NoDup_incl_length; auto. intros y [->|Hy]; auto. apply (proj1 (all_in_In r') A'); auto. }
  simpl in L. unfold ints in L. rewrite map_length in L.
  assert (Hz : In z (reachS G (length r') [a])).
  { apply (reach_complete (length r') [a] a r' z); auto. left; auto. }
  apply mem_In in Hz.
  destruct (least _ 0 (length (g_nodes G))) as [k|] eqn:LE.
  - apply least_Some in LE as (Fk & _ & _).
    destruct (build_ok k a z Ha Fk) as (p' & B & _). congruence.
  - assert (Hf := least_None _ _ _ LE (length r')). simpl in Hf. rewrite Hf in Hz; [discriminate|lia].
Qed.

(* ---------- nx.all_simple_paths ---------- *)
Lemma simple_paths_sound k : forall x z vis p,
  ~ In x vis -> In p (simple_paths G k x z vis) ->
  exists r, p = x :: r /\ pathf adj x r z = true /\ NoDup p /\ (forall y, In y p -> ~ In y vis) /\
            all_in r = true /\ (length r <= k)%nat.
Proof.
  induction k as [|k IH]; intros x z vis p Hv Hp; cbn [simple_paths] in Hp; destruct (x =? z) eqn:E.
  - destruct Hp as [<-|[]]. exists []. simpl. rewrite E. repeat split; auto.
    + constructor; auto. constructor.
    + intros y [<-|[]]; auto.
  - destruct Hp.
  - destruct Hp as [<-|[]]. exists []. simpl. rewrite E. repeat split; auto; try lia.
    + constructor; auto. constructor.
    + intros y [<-|[]]; auto.
  - apply in_flat_map in Hp as (w & Hw & Hp).
    destruct (adj x w && negb (mem w (x :: vis))) eqn:C; [|destruct Hp].
    apply andb_true_iff in C as [Ha Hn]. apply negb_true_iff in Hn. apply mem_false in Hn.
    apply in_map_iff in Hp as (p' & Ep & Hp'). subst p.
    destruct (IH w z (x :: vis) p' Hn Hp') as (r' & Ep' & P & ND & Hd & A & L). subst p'.
    exists (w :: r'). simpl. rewrite Ha, P, A. repeat split; auto; try lia.
    + constructor; auto. intro Hin. apply (Hd x Hin). left; auto.
    + intros y [<-|Hy]; auto. intro Hy'. apply (Hd y Hy). right; auto.
    + apply andb_true_iff. split; auto. apply mem_In; auto.
Qed.

Lemma simple_paths_complete k : forall x z vis r,
  pathf adj x r z = true -> NoDup (x :: r) -> (forall y, In y (x :: r) -> ~ In y vis) ->
  all_in r = true -> (length r <= k)%nat -> In (x :: r) (simple_paths G k x z vis).
Proof.
  induction k as [|k IH]; intros x z vis r P ND Hd A L.
  - destruct r; simpl in L; [|lia]. simpl in P. simpl. rewrite P. left; auto.
  - cbn [simple_paths]. destruct (x =? z) eqn:E.
    + apply N.eqb_eq in E. subst z. destruct r as [|w r]; [left; auto|].
      exfalso. assert (Hin : In x (w :: r)) by (eapply pathf_last; eauto; discriminate).
      inversion ND; auto.
    + destruct r as [|w r]; [simpl in P; congruence|].
      simpl in P, A, L. apply andb_true_iff in P as [Ha P]. apply andb_true_iff in A as [Hw A].
      apply in_flat_map. exists w. split; [apply mem_In; auto|].
      assert (Hn : ~ In w (x :: vis)).
      { intros [Ew|Hv]. - subst w. inversion ND as [|? ? Hx _]; subst. apply Hx. left; auto.
        - apply (Hd w); auto. right; left; auto. }
      rewrite Ha. rewrite (proj2 (mem_false _ _) Hn). simpl.
      apply in_map. apply IH; auto; try lia.
      * inversion ND; auto.
      * intros y Hy [Ey|Hv].
        -- subst y. inversion ND as [|? ? Hx _]; subst. auto.
        -- apply (Hd y); auto. right; auto.
Qed.

(* ---------- the result-update loop ---------- *)
Definition upd (result p : list N) : list N :=
  match result with [] => p | _ => if (length p <? length result)%nat then p else result end.

Lemma pick_acc : forall (l : list (list N)) acc,
  (forall p, In p l -> p <> []) -> acc <> [] ->
  let res := fold_left upd l acc in
  res <> [] /\ (res = acc \/ In res l) /\ (length res <= length acc)%nat /\
  forall p, In p l -> (length res <= length p)%nat.
Proof.
  induction l as [|p l IH]; intros acc Hne Hacc; simpl.
  - repeat split; auto. intros p [].
  - set (acc' := upd acc p).
    assert (Hacc' : acc' <> [] /\ (acc' = acc \/ acc' = p) /\ (length acc' <= length acc)%nat /\
                    (length acc' <= length p)%nat).
    { unfold acc', upd. destruct acc as [|a0 acc0]; [congruence|].
      destruct (length p <? length (a0 :: acc0))%nat eqn:C.
      - apply Nat.ltb_lt in C. repeat split; auto; try lia. apply Hne. left; auto.
      - apply Nat.ltb_ge in C. repeat split; auto. }
    destruct Hacc' as (N1 & N2 & N3 & N4).
    destruct (IH acc' (fun q Hq => Hne q (or_intror Hq)) N1) as (R1 & R2 & R3 & R4).
    repeat split; auto; try lia.
    + destruct R2 as [R2|R2]; [|right; right; auto].
      rewrite R2. destruct N2 as [E|E]; rewrite E; auto.
    + intros q [<-|Hq]; [lia|apply R4; auto].
Qed.

Lemma pick_shortest_spec l :
  (forall p, In p l -> p <> []) ->
  (l = [] -> pick_shortest l = []) /\
  (l <> [] -> In (pick_shortest l) l /\ forall p, In p l -> (length (pick_shortest l) <= length p)%nat).
Proof.
  intros Hne. split; [intros ->; reflexivity|]. intros Hl.
  destruct l as [|p l]; [congruence|]. unfold pick_shortest. simpl.
  change (fold_left _ l p) with (fold_left upd l p).
  destruct (pick_acc l p (fun q Hq => Hne q (or_intror Hq)) (Hne p (or_introl eq_refl))) as (R1 & R2 & R3 & R4).
  split.
  - destruct R2 as [->|R2]; [left; auto|right; auto].
  - intros q [<-|Hq]; auto.
Qed.

(* ---------- get_nodes_on_path_with_hops over internal keys ---------- *)
Lemma hop_candidates a z hops cutoff q :
  In a nodes -> (0 <= cutoff)%Z ->
  (In q (filter (qualifies G hops)
           (simple_paths G (Nat.min (Z.to_nat cutoff) (length (g_nodes G))) a z [])) <->
   hop_path G a z hops cutoff q).
Proof.
  intros Ha Hc. rewrite filter_In. unfold hop_path. split.
  - intros [Hq Q]. apply simple_paths_sound in Hq as (r & E & P & ND & _ & A & L); auto.
    subst q. repeat split; auto.
    + apply is_path_iff. exists r. auto.
    + simpl length. lia.
  - intros (IP & ND & Q & L). split; auto.
    apply is_path_iff in IP as (r & E & P & _ & A). subst q.
    apply simple_paths_complete; auto.
    assert (L2 : (length (a :: r) <= length nodes)%nat).
    { apply NoDup_incl_length; auto. intros y [->|Hy]; auto. apply (proj1 (all_in_In r) A); auto. }
    simpl length in *. unfold ints in L2. rewrite map_length in L2. lia.
Qed.

Lemma pwh_spec a z hops cutoff :
  In a nodes ->
  let p := pwh_int G a z hops cutoff in
  (p = [] <-> forall q, ~ hop_path G a z hops cutoff q) /\
  (p <> [] -> hop_path G a z hops cutoff p /\
              forall q, hop_path G a z hops cutoff q -> (length p <= length q)%nat).
Proof.
  intros Ha p. unfold p, pwh_int. destruct (cutoff <? 0)%Z eqn:C.
  - apply Z.ltb_lt in C. split; [|congruence]. split; auto. intros _ q (IP & _ & _ & L).
    apply is_path_iff in IP as (r & E & _). subst q. simpl length in L. lia.
  - apply Z.ltb_ge in C.
    set (L := filter (qualifies G hops) (simple_paths G (Nat.min (Z.to_nat cutoff) (length (g_nodes G))) a z [])).
    assert (HL : forall q, In q L <-> hop_path G a z hops cutoff q) by (intro q; apply hop_candidates; auto).
    assert (Hne : forall q, In q L -> q <> []).
    { intros q Hq. apply HL in Hq as (IP & _). apply is_path_iff in IP as (r & E & _). subst; discriminate. }
    destruct (pick_shortest_spec L Hne) as [S1 S2]. split.
    + split.
      * intros E q Hq. apply HL in Hq. destruct L as [|q0 L0] eqn:EL; [destruct Hq|].
        destruct S2 as [S2 _]; [discriminate|]. rewrite E in S2. apply (Hne [] S2). reflexivity.
      * intros Hno. apply S1. destruct L as [|q0 L0] eqn:EL; auto.
        exfalso. apply (Hno q0). apply HL. left; auto.
    + intros Hp. assert (HLne : L <> []) by (intro E; apply Hp; apply S1; auto).
      destruct (S2 HLne) as [S3 S4]. split.
      * apply HL; auto.
      * intros q Hq. apply S4. apply HL; auto.
Qed.

End Paths.

(* C14 - refinement, node part: unmerge_adm / snapshot / rollback on the store model against sunmerge and the
   snapshot map of the abstract model. *)
From Coq Require Import List NArith Bool Lia.
From FIM Require Import Model.Cbm14Store Model.Cbm14Spec Model.Cbm14Abs Proofs.Cbm14Assoc Proofs.Cbm14Merge
     Proofs.Cbm14Unmerge Proofs.Cbm14Inv Proofs.Cbm14Frame Proofs.Cbm14RefBase Proofs.Cbm14RefPrep Proofs.Cbm14RefFold Proofs.Cbm14RefMerge.
Import ListNotations.
Open Scope N_scope.

(* contributors recorded once *)
Definition con_nodup (cbm : N) (ns : list node) : Prop :=
  forall n, In n ns -> n_gid n = cbm -> NoDup (abs_con (n_si n)).

Lemma remove_first_filter g l : NoDup l -> remove_first g l = filter (fun x => negb (x =? g)) l.
Proof.
  induction l as [|x r IH]; simpl; auto. intro ND; inversion ND; subst.
  destruct (x =? g) eqn:E; simpl.
  - apply N.eqb_eq in E; subst. symmetry. apply filter_notin. exact H1.
  - rewrite IH; auto.
Qed.

Lemma mem_false_filter g l : Cbm14Store.mem g l = false -> filter (fun x => negb (x =? g)) l = l.
Proof.
  intro H. apply filter_notin. intro X.
  assert (Cbm14Store.mem g l = true); [|congruence].
  unfold Cbm14Store.mem. apply existsb_exists. exists g. split; auto. apply N.eqb_refl.
Qed.

Lemma unm_d_abs g d : wf_del d = true ->
  exists d', unm_d g d = Some d' /\ abs_del d' = drop_d g (abs_del d) /\ wf_del d' = true.
Proof.
  destruct d as [| |[|[k c] [|? ?]]]; simpl; try discriminate; intros _; eauto.
  unfold Cbm14Store.mem. simpl. rewrite (N.eqb_sym g k). destruct (k =? g) eqn:E; simpl.
  - exists DStr0. auto.
  - exists (DDict [(k, c)]). auto.
Qed.

(* what unmerge does to one node of the combined graph *)
Definition con_ok (n : node) : Prop := NoDup (abs_con (n_si n)) /\ abs_con (n_si n) <> [].

Lemma unm_node_abs g n :
  wf_cnode n = true -> con_ok n ->
  exists n' del, unm_node g n = inl (Some (n', del)) /\
                 del = negb (alive (unm g (absn n))) /\
                 key n' = key n /\ n_int n' = n_int n /\
                 (del = false -> absn n' = unm g (absn n) /\ wf_cnode n' = true /\ con_ok n').
Proof.
  intros W [ND NEm]. unfold wf_cnode in W. apply andb_true_iff in W as [W WC]. apply andb_true_iff in W as [WS WL].
  destruct (n_si n) as [| |l] eqn:S; try discriminate. simpl in ND, NEm.
  unfold unm_node. rewrite S.
  destruct (unm_d_abs g (n_cd n) WC) as (cd' & UC & AC & WC'). destruct (unm_d_abs g (n_ld n) WL) as (ld' & UL & AL & WL').
  destruct (Cbm14Store.mem g l) eqn:M.
  - rewrite (remove_first_filter g l ND).
    destruct (filter (fun x => negb (x =? g)) l) as [|y r] eqn:FL.
    + rewrite UC, UL. eexists. exists true. split; [reflexivity|]. unfold alive, unm, absn; simpl. rewrite S; simpl. rewrite FL.
      repeat split; auto; discriminate.
    + simpl. rewrite UC, UL.
      eexists. exists false. split; [reflexivity|]. unfold alive, unm, absn, con_ok; simpl. rewrite S; simpl. rewrite FL.
      split; [reflexivity|]. split; [reflexivity|]. split; [reflexivity|]. intros _. split; [|split; [|split]].
      * rewrite AL, AC. reflexivity.
      * unfold wf_cnode; simpl. rewrite WL', WC'. reflexivity.
      * rewrite <- FL. apply NoDup_filter. exact ND.
      * discriminate.
  - rewrite UC, UL.
    eexists. exists false. split; [reflexivity|]. unfold alive, unm, absn, con_ok; simpl. rewrite S; simpl.
    rewrite (mem_false_filter g l M).
    split; [destruct l; [contradiction|reflexivity]|]. split; [reflexivity|]. split; [reflexivity|]. intros _.
    split; [|split; [|split]]; auto.
    + rewrite AL, AC. reflexivity.
    + unfold wf_cnode; simpl. rewrite S, WL', WC'. reflexivity.
Qed.

Definition cbm_ok (cbm : N) (ns : list node) : Prop :=
  forall n, In n ns -> n_gid n = cbm -> wf_cnode n = true /\ con_ok n.

(* the node list produced by unm_nodes, and the internal ids it schedules for deletion *)
Definition unm_rel (cbm g : N) (ds : list N) (n n' : node) : Prop :=
  if n_gid n =? cbm
  then exists del, unm_node g n = inl (Some (n', del)) /\ (del = true -> In (n_int n) ds)
  else n' = n.

Lemma Forall2_impl' {A B} (R R' : A -> B -> Prop) l l' :
  (forall a b, R a b -> R' a b) -> Forall2 R l l' -> Forall2 R' l l'.
Proof. intros H F. induction F; constructor; auto. Qed.

Lemma unm_nodes_spec cbm g : forall l l' ds,
  unm_nodes cbm g l = inl (Some (l', ds)) ->
  Forall2 (unm_rel cbm g ds) l l' /\
  (forall i, In i ds -> exists n n', In n l /\ n_gid n = cbm /\ n_int n = i /\ unm_node g n = inl (Some (n', true))).
Proof.
  induction l as [|n r IH]; simpl; intros l' ds H.
  - inversion H; subst. split; [constructor|]. intros i [].
  - destruct (n_gid n =? cbm) eqn:T.
    + destruct (unm_node g n) as [[[n' d]|]|] eqn:U; try discriminate.
      destruct (unm_nodes cbm g r) as [[[r' ds']|]|]; try discriminate. inversion H; subst; clear H.
      destruct (IH r' ds' eq_refl) as (F & D). pose proof T as T'. apply N.eqb_eq in T. split.
      * constructor.
        -- unfold unm_rel. rewrite T'.
           exists d. split; auto. intro; subst d. simpl. auto.
        -- eapply Forall2_impl'; [|exact F]. intros a b R. unfold unm_rel in *.
           destruct (n_gid a =? cbm); auto. destruct R as (del & R1 & R2). exists del. split; auto.
           intro X. specialize (R2 X). destruct d; simpl; auto.
      * intros i Hi. destruct d.
        -- destruct Hi as [Hi|Hi]; [exists n, n'; auto|].
           destruct (D i Hi) as (m & m' & ? & ? & ? & ?). exists m, m'. auto.
        -- destruct (D i Hi) as (m & m' & ? & ? & ? & ?). exists m, m'. auto.
    + destruct (unm_nodes cbm g r) as [[[r' ds']|]|]; try discriminate. inversion H; subst; clear H.
      destruct (IH r' ds eq_refl) as (F & D). split.
      * constructor; auto. unfold unm_rel. rewrite T. reflexivity.
      * intros i Hi. destruct (D i Hi) as (m & m' & ? & ? & ? & ?). exists m, m'. auto.
Qed.

Lemma unm_nodes_total cbm g : forall l,
  cbm_ok cbm l -> exists l' ds, unm_nodes cbm g l = inl (Some (l', ds)).
Proof.
  induction l as [|n r IH]; intro W; simpl; [eauto|].
  destruct IH as (r' & ds & ->); [intros m Hm; apply W; simpl; auto|].
  destruct (n_gid n =? cbm) eqn:T; [|eauto].
  apply N.eqb_eq in T. destruct (W n (or_introl eq_refl) T) as [W1 W2].
  destruct (unm_node_abs g n W1 W2) as (n' & del & -> & _). eauto.
Qed.

Lemma fold_delete_nodes ds : forall s,
  s_nodes (fold_left (fun s i => delete_node i s) ds s) = filter (fun n => negb (memN (n_int n) ds)) (s_nodes s) /\
  s_next (fold_left (fun s i => delete_node i s) ds s) = s_next s.
Proof.
  induction ds as [|i r IH]; intro s; simpl.
  - split; auto. induction (s_nodes s) as [|n l IHl]; simpl; auto. f_equal. exact IHl.
  - destruct (IH (delete_node i s)) as [-> ->]. split; auto. simpl.
    induction (s_nodes s) as [|n l IHl]; simpl; auto.
    rewrite (N.eqb_sym (n_int n) i). destruct (i =? n_int n) eqn:E; simpl; auto.
    destruct (memN (n_int n) r); simpl; auto. f_equal. exact IHl.
Qed.

Lemma Forall2_in_l {A B} (R : A -> B -> Prop) l l' x : Forall2 R l l' -> In x l -> exists y, In y l' /\ R x y.
Proof.
  induction 1; simpl; [tauto|]. intros [E|Hin]; [subst; eauto|]. destruct (IHForall2 Hin) as (y0 & ? & ?). eauto.
Qed.

Theorem unmerge_refines_nodes cbm g st :
  J (s_next st) (s_nodes st) -> cbm_ok cbm (s_nodes st) -> gexists cbm st = true ->
  exists st', unmerge_adm cbm g st = OOk st' /\
    (forall k, getn k (abs_nodes cbm st') = getn k (nodes (sunmerge (abs_cbm cbm st) g))) /\
    J (s_next st') (s_nodes st') /\ cbm_ok cbm (s_nodes st') /\
    (forall h k, h <> cbm -> at_ h k (s_nodes st') = at_ h k (s_nodes st)).
Proof.
  intros (U & B & K) W GE. unfold unmerge_adm. rewrite GE. cbn [negb].
  destruct (unm_nodes_total cbm g (s_nodes st) W) as (ns' & ds & UN). rewrite UN.
  destruct (unm_nodes_spec cbm g _ _ _ UN) as (F & D).
  eexists. split; [reflexivity|].
  destruct (fold_delete_nodes ds (mkStore ns' (s_edges st) (s_next st))) as [EN EX]. simpl in EN, EX.
  set (fin := filter (fun n => negb (memN (n_int n) ds)) ns') in *.
  (* every node keeps its internal id and key *)
  assert (forall n n', unm_rel cbm g ds n n' -> In n (s_nodes st) -> n_int n' = n_int n /\ key n' = key n) as PK.
  { intros n n' R Hn. unfold unm_rel in R. destruct (n_gid n =? cbm) eqn:T; [|subst; auto].
    apply N.eqb_eq in T. destruct R as (del & R & _). destruct (W n Hn T) as [W1 W2].
    destruct (unm_node_abs g n W1 W2) as (m & del' & E & _ & Kk & Ki & _). rewrite R in E. inversion E; subst. auto. }
  assert (map n_int ns' = map n_int (s_nodes st) /\ map key ns' = map key (s_nodes st)) as [MI MK].
  { clear - F PK. induction F as [|a b l l' R F IH]; simpl; auto.
    destruct (PK a b R (or_introl eq_refl)) as [-> ->].
    destruct IH as [-> ->]; auto. intros n n' R' Hn. apply PK; simpl; auto. }
  assert (J (s_next st) fin) as Jf.
  { unfold fin. split; [|split].
    - unfold uniq. apply NoDup_map_filter. rewrite MI. exact U.
    - intros n Hn. apply filter_In in Hn as [Hn _].
      assert (In (n_int n) (map n_int (s_nodes st))) as X by (rewrite <- MI; apply in_map; auto).
      apply in_map_iff in X as (m & E & Hm). rewrite <- E. auto.
    - unfold ukeys. apply NoDup_map_filter. rewrite MK. exact K. }
  (* which internal ids are scheduled for deletion *)
  assert (forall n n' del, In n (s_nodes st) -> n_gid n = cbm -> unm_node g n = inl (Some (n', del)) ->
                           (In (n_int n) ds <-> del = true)) as DEL.
  { intros n n' del Hn Gn Un. split.
    - intro Hi. destruct (D _ Hi) as (m & m' & Hm & Gm & Im & Um).
      assert (m = n) by (apply (uniq_inj (s_nodes st)); auto). subst m. rewrite Un in Um. inversion Um. reflexivity.
    - intro; subst del. destruct (Forall2_in_l _ _ _ _ F Hn) as (y & _ & R). unfold unm_rel in R.
      assert (n_gid n =? cbm = true) as T by (apply N.eqb_eq; auto). rewrite T in R.
      destruct R as (del & R1 & R2). rewrite Un in R1. inversion R1; subst. auto. }
  (* the node found under (cbm, k) afterwards *)
  assert (forall k, at_ cbm k fin =
                    match at_ cbm k (s_nodes st) with
                    | Some n => match unm_node g n with
                                | inl (Some (n', false)) => Some n'
                                | _ => None end
                    | None => None end) as AT.
  { intro k. destruct Jf as (Uf & Bf & Kf).
    destruct (at_ cbm k (s_nodes st)) as [n|] eqn:A.
    - apply at_In in A as (Hn & Gn & Nn). destruct (W n Hn Gn) as [W1 W2].
      destruct (unm_node_abs g n W1 W2) as (n' & del & Un & _ & Kk & Ki & _). rewrite Un.
      destruct (Forall2_in_l _ _ _ _ F Hn) as (y & Hy & R). unfold unm_rel in R.
      assert (n_gid n =? cbm = true) as T by (apply N.eqb_eq; auto). rewrite T in R.
      destruct R as (del0 & R1 & _). rewrite Un in R1. inversion R1; subst y del0; clear R1.
      destruct del.
      + apply at_none. intros m Hm Gm Nm. unfold fin in Hm. apply filter_In in Hm as [Hm ND].
        apply negb_true_iff in ND. apply memN_false in ND.
        destruct (Forall2_in_r _ _ _ _ F Hm) as (n0 & Hn0 & R0).
        destruct (PK n0 m R0 Hn0) as [I0 K0].
        assert (n0 = n) by (apply (ukeys_inj (s_nodes st)); auto; rewrite <- K0; unfold key; congruence). subst n0.
        apply ND. rewrite I0. apply (DEL n n' true Hn Gn Un). reflexivity.
      + apply at_uniq; auto.
        * unfold fin. apply filter_In. split; auto. apply negb_true_iff. apply memN_false.
          rewrite Ki. intro X. apply (DEL n n' false Hn Gn Un) in X. discriminate.
        * unfold key in Kk. inversion Kk. congruence.
        * unfold key in Kk. inversion Kk. congruence.
    - apply at_none. intros m Hm Gm Nm. unfold fin in Hm. apply filter_In in Hm as [Hm _].
      destruct (Forall2_in_r _ _ _ _ F Hm) as (n0 & Hn0 & R0). destruct (PK n0 m R0 Hn0) as [_ K0].
      unfold key in K0. inversion K0. eapply (at_none_inv cbm k (s_nodes st) n0 A Hn0); congruence. }
  split; [|split; [|split]].
  - intro k.
    assert (NoDup (map fst (nodes (abs_cbm cbm st)))) as NDk.
    { simpl. rewrite keys_abs. apply (ukeys_nids cbm). exact K. }
    rewrite (sunmerge_get_node (abs_cbm cbm st) g k NDk). simpl nodes. rewrite !getn_abs, EN, AT.
    destruct (at_ cbm k (s_nodes st)) as [n|] eqn:A; simpl; auto.
    apply at_In in A as (Hn & Gn & Nn). destruct (W n Hn Gn) as [W1 W2].
    destruct (unm_node_abs g n W1 W2) as (n' & del & Un & Ed & _ & _ & Ab). rewrite Un.
    destruct del; simpl.
    + symmetry in Ed. apply negb_true_iff in Ed. rewrite Ed. reflexivity.
    + symmetry in Ed. apply negb_false_iff in Ed. rewrite Ed. destruct (Ab eq_refl) as [-> _]. reflexivity.
  - rewrite EN, EX. exact Jf.
  - rewrite EN. intros m Hm Gm. unfold fin in Hm. apply filter_In in Hm as [Hm ND].
    apply negb_true_iff in ND. apply memN_false in ND.
    destruct (Forall2_in_r _ _ _ _ F Hm) as (n0 & Hn0 & R0). destruct (PK n0 m R0 Hn0) as [I0 K0].
    assert (n_gid n0 = cbm) as G0 by (unfold key in K0; inversion K0; congruence).
    unfold unm_rel in R0. assert (n_gid n0 =? cbm = true) as T by (apply N.eqb_eq; auto). rewrite T in R0.
    destruct R0 as (del & Un & _). destruct (W n0 Hn0 G0) as [W1 W2].
    destruct (unm_node_abs g n0 W1 W2) as (n' & del' & Un' & _ & _ & _ & Ab). rewrite Un in Un'. inversion Un'; subst n' del'.
    destruct del.
    + exfalso. apply ND. rewrite I0. apply (DEL n0 m true Hn0 G0 Un). reflexivity.
    + destruct (Ab eq_refl) as (_ & X & Y). auto.
  - intros h k NEh. rewrite EN.
    destruct (at_ h k (s_nodes st)) as [n|] eqn:A.
    + apply at_In in A as (Hn & Gn & Nn). destruct Jf as (_ & _ & Kf). apply at_uniq; auto.
      destruct (Forall2_in_l _ _ _ _ F Hn) as (y & Hy & R). unfold unm_rel in R.
      assert (n_gid n =? cbm = false) as T by (apply N.eqb_neq; congruence). rewrite T in R. subst y.
      unfold fin. apply filter_In. split; auto. apply negb_true_iff. apply memN_false. intro X.
      destruct (D _ X) as (m & m' & Hm & Gm & Im & _).
      assert (m = n) by (apply (uniq_inj (s_nodes st)); auto). subst m. congruence.
    + apply at_none. intros m Hm Gm Nm. unfold fin in Hm. apply filter_In in Hm as [Hm _].
      destruct (Forall2_in_r _ _ _ _ F Hm) as (n0 & Hn0 & R0). destruct (PK n0 m R0 Hn0) as [_ K0].
      unfold key in K0. inversion K0. eapply (at_none_inv h k (s_nodes st) n0 A Hn0); congruence.
Qed.

(* merge keeps "contributors recorded once, at least one" when the merged model is not yet a contributor *)
Theorem merge_keeps_ok cbm adm tmp st st' :
  J (s_next st) (s_nodes st) -> cbm_ok cbm (s_nodes st) -> cbm <> tmp -> gexists tmp st = false ->
  (forall n, In n (s_nodes st) -> n_gid n = cbm -> ~ In adm (abs_con (n_si n))) ->
  merge_adm cbm adm tmp st = OOk st' -> cbm_ok cbm (s_nodes st').
Proof.
  intros Jst W NE FR NC H.
  assert (cbm_wf cbm (s_nodes st)) as W0 by (intros n Hn Gn; apply (W n Hn Gn)).
  destruct (merge_table cbm adm tmp st st' Jst W0 NE FR H) as (ns3 & ES & J3 & T & OT).
  rewrite ES. intros n Hn Gn. apply in_map_iff in Hn as (m & E & Hm). subst n.
  destruct J3 as (U3 & B3 & K3). unfold rh in *. destruct (n_gid m =? tmp) eqn:Tm.
  - apply N.eqb_eq in Tm. specialize (T (n_nid m)).
    pose proof (at_uniq tmp (n_nid m) ns3 m K3 Hm Tm eq_refl) as AT.
    destruct (at_ cbm (n_nid m) (s_nodes st)), (at_ adm (n_nid m) (s_nodes st)) as [a|].
    + destruct T as (t & l & _ & _ & _ & _ & X). congruence.
    + destruct T; congruence.
    + destruct T as (t & IM & _ & X). rewrite AT in X. injection X as Q. rewrite Q.
      split; [apply (absn_rehomed adm tmp cbm a t IM)|].
      destruct IM as (_ & _ & _ & _ & S & _). unfold con_ok; simpl. rewrite S. simpl.
      split; [repeat constructor; simpl; tauto | discriminate].
    + destruct T; congruence.
  - specialize (T (n_nid m)).
    pose proof (at_uniq cbm (n_nid m) ns3 m K3 Hm Gn eq_refl) as AT.
    destruct (at_ cbm (n_nid m) (s_nodes st)) as [c|] eqn:Hc, (at_ adm (n_nid m) (s_nodes st)) as [a|].
    + destruct T as (t & l & IM & S & _ & X & _). rewrite AT in X. injection X as Q. rewrite Q.
      apply at_In in Hc as (Hc' & Gc & _). destruct (W c Hc' Gc) as [W1 [W2 W3]].
      split; [apply (absn_mrg adm tmp c a t l W1 S IM)|].
      specialize (NC c Hc' Gc). rewrite S in W2, NC. simpl in W2, NC.
      unfold con_ok, mrg; simpl. split.
      * apply NoDup_snoc; auto.
      * destruct l; discriminate.
    + destruct T as [X _]. rewrite AT in X. injection X as Q. rewrite Q. apply at_In in Hc as (Hc' & Gc & _). auto.
    + destruct T as (t & _ & X & _). congruence.
    + destruct T; congruence.
Qed.

(* C02: lemmas on the insertion-ordered string-keyed dictionaries of Model/Sliver2Map.v *)
From Coq Require Import List String NArith Bool.
From FIM Require Import Base.Str Model.Sliver2Kinds Gen.PropMap Model.Sliver2Map Model.Sliver2WF.
Import ListNotations.

Lemma alookup_aset_same {V} k (v : V) l : alookup k (aset k v l) = Some v.
Proof.
  induction l as [|[k' v'] r IH]; simpl.
  - rewrite String.eqb_refl. reflexivity.
  - destruct (String.eqb k k') eqn:E; simpl.
    + rewrite E. reflexivity.
    + rewrite E. exact IH.
Qed.

Lemma alookup_aset_other {V} k k' (v : V) l : k <> k' -> alookup k' (aset k v l) = alookup k' l.
Proof.
  intro N. induction l as [|[k2 v2] r IH]; simpl.
  - destruct (String.eqb k' k) eqn:E; [apply String.eqb_eq in E; congruence | reflexivity].
  - destruct (String.eqb k k2) eqn:E; simpl.
    + apply String.eqb_eq in E. subst k2.
      destruct (String.eqb k' k) eqn:E2; [apply String.eqb_eq in E2; congruence | reflexivity].
    + destruct (String.eqb k' k2); [reflexivity | exact IH].
Qed.

Lemma akeys_aset_in {V} k (v : V) l : In k (akeys l) -> akeys (aset k v l) = akeys l.
Proof.
  induction l as [|[k' v'] r IH]; simpl; intro H; [contradiction|].
  destruct (String.eqb k k') eqn:E; simpl.
  - reflexivity.
  - f_equal. apply IH. destruct H as [H|H]; [|exact H].
    subst k'. rewrite String.eqb_refl in E. discriminate.
Qed.

Lemma alookup_in_keys {V} k (l : list (string * V)) : In k (akeys l) -> exists v, alookup k l = Some v.
Proof.
  induction l as [|[k' v'] r IH]; simpl; intro H; [contradiction|].
  destruct (String.eqb k k') eqn:E; [eexists; reflexivity|].
  apply IH. destruct H as [H|H]; [|exact H]. subst. rewrite String.eqb_refl in E. discriminate.
Qed.

Lemma alookup_not_in {V} k (l : list (string * V)) : ~ In k (akeys l) -> alookup k l = None.
Proof.
  induction l as [|[k' v'] r IH]; simpl; intro H; [reflexivity|].
  destruct (String.eqb k k') eqn:E.
  - apply String.eqb_eq in E. subst. exfalso. apply H. left. reflexivity.
  - apply IH. intro; apply H; right; assumption.
Qed.

Lemma alookup_some_in {V} k (v : V) l : alookup k l = Some v -> In (k, v) l.
Proof.
  induction l as [|[k' v'] r IH]; simpl; intro H; [discriminate|].
  destruct (String.eqb k k') eqn:E.
  - apply String.eqb_eq in E. inversion H; subst. left; reflexivity.
  - right. apply IH. exact H.
Qed.

Lemma alookup_nodup_in {V} k (v : V) l : NoDup (akeys l) -> In (k, v) l -> alookup k l = Some v.
Proof.
  induction l as [|[k' v'] r IH]; simpl; intros ND H; [contradiction|].
  inversion ND as [|? ? NI ND']; subst.
  destruct H as [H|H].
  - inversion H; subst. rewrite String.eqb_refl. reflexivity.
  - destruct (String.eqb k k') eqn:E.
    + apply String.eqb_eq in E. subst. exfalso. apply NI. apply (in_map fst) in H. exact H.
    + apply IH; assumption.
Qed.

(* two dictionaries with the same keys in the same order and the same bindings are equal *)
Lemma assoc_ext {V} (l1 l2 : list (string * V)) :
  akeys l1 = akeys l2 -> NoDup (akeys l1) ->
  (forall k, In k (akeys l1) -> alookup k l1 = alookup k l2) -> l1 = l2.
Proof.
  revert l2. induction l1 as [|[k v] r IH]; intros [|[k2 v2] r2] HK ND HL; simpl in *; try discriminate; [reflexivity|].
  inversion HK; subst k2. inversion ND as [|? ? NI ND']; subst.
  assert (v = v2).
  { specialize (HL k (or_introl eq_refl)). rewrite String.eqb_refl in HL. congruence. }
  subst v2. f_equal. apply IH; try assumption.
  intros k' Hk'. specialize (HL k' (or_intror Hk')).
  destruct (String.eqb k' k) eqn:E; [|exact HL].
  apply String.eqb_eq in E. subst. contradiction.
Qed.

(* a sequence of assignments *)
Definition asets {V} (xs : list (string * V)) (cur : list (string * V)) : list (string * V) :=
  fold_left (fun c xv => aset (fst xv) (snd xv) c) xs cur.

Lemma asets_keys {V} (xs cur : list (string * V)) :
  (forall xv, In xv xs -> In (fst xv) (akeys cur)) -> akeys (asets xs cur) = akeys cur.
Proof.
  revert cur. induction xs as [|[x v] r IH]; intros cur H; simpl; [reflexivity|].
  unfold asets in *. simpl. rewrite IH.
  - apply akeys_aset_in. apply (H (x, v)). left; reflexivity.
  - intros xv Hin. rewrite akeys_aset_in by (apply (H (x, v)); left; reflexivity).
    apply H. right; exact Hin.
Qed.

Lemma asets_lookup_notin {V} (xs cur : list (string * V)) k :
  ~ In k (akeys xs) -> alookup k (asets xs cur) = alookup k cur.
Proof.
  revert cur. induction xs as [|[x v] r IH]; intros cur H; simpl; [reflexivity|].
  unfold asets in *. simpl. rewrite IH.
  - apply alookup_aset_other. intro; subst. apply H. left; reflexivity.
  - intro; apply H; right; assumption.
Qed.

Lemma asets_lookup_in {V} (xs cur : list (string * V)) k v :
  NoDup (akeys xs) -> In (k, v) xs -> alookup k (asets xs cur) = Some v.
Proof.
  revert cur. induction xs as [|[x w] r IH]; intros cur ND H; simpl in *; [contradiction|].
  inversion ND as [|? ? NI ND']; subst.
  unfold asets in *. simpl. destruct H as [H|H].
  - injection H as Hx Hw. subst x w.
    change (alookup k (asets r (aset k v cur)) = Some v).
    rewrite asets_lookup_notin by exact NI. apply alookup_aset_same.
  - apply IH; assumption.
Qed.

Lemma aupdate_is_asets {V} (d e : list (string * V)) : aupdate d e = asets e d.
Proof. reflexivity. Qed.

Lemma alookup_aremove_same {V} k (l : list (string * V)) : NoDup (akeys l) -> alookup k (aremove k l) = None.
Proof.
  induction l as [|[k' v'] r IH]; simpl; intro ND; [reflexivity|].
  inversion ND as [|? ? NI ND']; subst.
  destruct (String.eqb k k') eqn:E.
  - apply String.eqb_eq in E. subst. apply alookup_not_in. exact NI.
  - simpl. rewrite E. apply IH. exact ND'.
Qed.

Lemma alookup_aremove_other {V} k k' (l : list (string * V)) : k <> k' -> alookup k' (aremove k l) = alookup k' l.
Proof.
  intro N. induction l as [|[k2 v2] r IH]; simpl; [reflexivity|].
  destruct (String.eqb k k2) eqn:E.
  - apply String.eqb_eq in E. subst k2.
    destruct (String.eqb k' k) eqn:E2; [apply String.eqb_eq in E2; congruence | reflexivity].
  - simpl. destruct (String.eqb k' k2); [reflexivity | exact IH].
Qed.

Lemma mem_true_iff s l : mem s l = true <-> In s l.
Proof.
  unfold mem. rewrite existsb_exists. split.
  - intros [x [H E]]. apply String.eqb_eq in E. subst. exact H.
  - intro H. exists s. split; [exact H | apply String.eqb_refl].
Qed.

Lemma nodupb_NoDup l : nodupb l = true -> NoDup l.
Proof.
  induction l as [|x r IH]; simpl; intro H; [constructor|].
  apply andb_true_iff in H as [H1 H2]. constructor; [|apply IH; exact H2].
  intro Hin. apply mem_true_iff in Hin. rewrite Hin in H1. discriminate.
Qed.

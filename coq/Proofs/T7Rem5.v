(* C07 - the removal calls keep the rules: remove_node / remove_facility / remove_switch / Node.remove_component. *)
From Coq Require Import String List NArith ZArith Bool Arith Lia.
From FIM Require Import Base.Str Gen.Rules Model.T7Graph Model.T7Ops Model.T7WF Model.T7Steps Model.T7Rel
     Proofs.T7Tables Proofs.T7WFRefl Proofs.T7Frame Proofs.T7Units Proofs.T7Api Proofs.T7Api2 Proofs.T7Api3
     Proofs.T7RelUnits Proofs.T7RelRun Proofs.T7RelCp Proofs.T7Api4 Proofs.T7RelAdd Proofs.T7Api5 Proofs.T7Api6
     Proofs.T7Rem Proofs.T7Rem2 Proofs.T7Rem3 Proofs.T7Rem4.
Import ListNotations.

(* ---- the interface lists the calls hand to the disconnection loop ---------------------------------------------------- *)
Definition CPs (g : graph) (x : str) : list str := map snd (second_nb g x Has KNS KCP).

Lemma CPs_flat g x : CPs g x = flat_map (fun sv => filter (fun k => negb (str_eqb k x)) (any_nb g sv KCP)) (first_nb g x Has KNS).
Proof.
  unfold CPs, second_nb. induction (first_nb g x Has KNS) as [|l L IH]; simpl; [reflexivity|].
  rewrite map_app, IH, map_map. simpl. rewrite map_id. reflexivity.
Qed.

Lemma any_nb_connects g sv : ns_cp_connects g = true -> cls_is g sv KNS = true -> any_nb g sv KCP = first_nb g sv Connects KCP.
Proof.
  intros X C. unfold any_nb, first_nb. f_equal. apply filter_ext_in. intros [j r] Hin. simpl.
  destruct (cls_is g j KCP) eqn:Cj; [|rewrite andb_false_r; reflexivity]. rewrite andb_true_r. symmetry.
  apply In_nbrs in Hin as [e [He [Er Hends]]]. unfold ns_cp_connects in X. rewrite forallb_forall in X. specialize (X e He).
  rewrite Er in X. destruct Hends as [[E1 E2]|[E1 E2]]; rewrite E1, E2, C, Cj in X; simpl in X; rewrite ?orb_true_r in X; exact X.
Qed.

Lemma In_CPs g x i : ns_cp_connects g = true -> cls_is g x KCP = false ->
  In i (CPs g x) <-> exists sv, In sv (first_nb g x Has KNS) /\ In i (first_nb g sv Connects KCP).
Proof.
  intros X Cx. rewrite CPs_flat, in_flat_map. split.
  - intros [sv [Hsv Hi]]. exists sv. split; [exact Hsv|]. apply filter_In in Hi as [Hi _].
    rewrite (any_nb_connects g sv X) in Hi; [exact Hi | apply In_first_nb in Hsv; tauto].
  - intros [sv [Hsv Hi]]. exists sv. split; [exact Hsv|]. apply filter_In. split.
    + rewrite (any_nb_connects g sv X); [exact Hi | apply In_first_nb in Hsv; tauto].
    + apply negb_true_iff. apply str_eqb_neq. intro Ex. subst i. apply In_first_nb in Hi as [_ Hi]. congruence.
Qed.

Lemma conn_points_of_run x s k : sane (sg s) -> cls_is (sg s) x k = true -> existsb (cls_eqb k) [KNode; KComp; KComposite] = true ->
  conn_points_of x s = (s, Ok (CPs (sg s) x)).
Proof.
  intros Hs C Hk. unfold conn_points_of. unfold bind at 1. rewrite (check_class_run x [KNode; KComp; KComposite] s k Hs C Hk).
  destruct (find1_run x s Hs (cls_is_has_id _ _ _ C)) as [n [E _]].
  unfold q_second_nb, bind. rewrite E. reflexivity.
Qed.
Lemma components_of_run x s : sane (sg s) -> cls_is (sg s) x KNode = true ->
  components_of x s = (s, Ok (first_nb (sg s) x Has KComp)).
Proof.
  intros Hs C. unfold components_of. unfold bind at 1. rewrite (check_class_run x [KNode] s KNode Hs C eq_refl).
  apply q_first_nb_ok; [exact Hs | eapply cls_is_has_id; eauto].
Qed.
Lemma node_interface_list_run x s : sane (sg s) -> cls_is (sg s) x KNode = true ->
  node_interface_list x s = (s, Ok (CPs (sg s) x ++ flat_map (CPs (sg s)) (first_nb (sg s) x Has KComp))).
Proof.
  intros Hs C. unfold node_interface_list. unfold bind at 1. rewrite (conn_points_of_run x s KNode Hs C eq_refl).
  unfold bind at 1. rewrite (components_of_run x s Hs C). unfold bind at 1.
  rewrite (concatM_pure conn_points_of (CPs (sg s)) _ s); [reflexivity|].
  intros c Hc. apply (conn_points_of_run c s KComp Hs); [apply In_first_nb in Hc; tauto | reflexivity].
Qed.

(* ---- names of nodes are unique ---------------------------------------------------------------------------------------- *)
Lemma FOP_filter_le1 {A} (R : A -> A -> Prop) (P : A -> bool) l :
  ForallOrdPairs R l -> (forall a b, In a l -> In b l -> P a = true -> P b = true -> R a b -> False) -> length (filter P l) <= 1.
Proof.
  induction l as [|a l IH]; simpl; intros F H; [lia|]. inversion F as [|? ? Hall Hrest]; subst.
  assert (IH' : length (filter P l) <= 1) by (apply IH; [exact Hrest | intros x y Hx Hy; apply H; right; assumption]).
  destruct (P a) eqn:Pa; [|exact IH']. simpl.
  destruct (filter P l) as [|b l'] eqn:Ef; [simpl; lia|]. exfalso.
  assert (Hb : In b (filter P l)) by (rewrite Ef; left; reflexivity). apply filter_In in Hb as [Hb Pb].
  rewrite Forall_forall in Hall. apply (H a b); [left; reflexivity | right; exact Hb | exact Pa | exact Pb | apply Hall; exact Hb].
Qed.

Lemma node_name_unique g n name : WF g -> In n (gnodes g) -> ncls n = KNode -> nname n = Some name -> nodes_named g KNode name = [n].
Proof.
  intros W Hn Kn Nn. unfold nodes_named.
  assert (Le : length (filter (fun m => cls_eqb (ncls m) KNode && ostr_eqb (nname m) (Some name)) (gnodes g)) <= 1).
  { apply (FOP_filter_le1 _ _ _ (wf_names _ W)). intros a b _ _ Pa Pb Hc.
    apply andb_true_iff in Pa as [Ka Na]. apply andb_true_iff in Pb as [Kb Nb]. apply cls_eqb_eq in Ka. apply cls_eqb_eq in Kb.
    apply ostr_eqb_eq in Na. apply ostr_eqb_eq in Nb. unfold name_clash, scope_of in Hc. rewrite Ka, Kb, Na, Nb, str_eqb_refl in Hc.
    simpl in Hc. discriminate Hc. }
  assert (Hin : In n (filter (fun m => cls_eqb (ncls m) KNode && ostr_eqb (nname m) (Some name)) (gnodes g))).
  { apply filter_In. split; [exact Hn|]. rewrite Kn, Nn. simpl. apply str_eqb_refl. }
  destruct (filter _ (gnodes g)) as [|a [|b l]]; simpl in *; [contradiction | | lia]. destruct Hin as [->|[]]. reflexivity.
Qed.

Lemma filter_comm {A} (P Q : A -> bool) l : filter P (filter Q l) = filter Q (filter P l).
Proof. induction l as [|a l IH]; simpl; [reflexivity|]. destruct (P a) eqn:Pa; destruct (Q a) eqn:Qa; simpl; rewrite ?Pa, ?Qa, IH; reflexivity. Qed.

Lemma find_node_by_name_run g0 d n name s : WF g0 -> sg s = remove_set g0 d -> In n (gnodes g0) -> d (nid n) = false ->
  ncls n = KNode -> nname n = Some name -> find_node_by_name name KNode s = (s, Ok (nid n)).
Proof.
  intros W G Hn Dn Kn Nn. unfold find_node_by_name, bind, getg. rewrite G. unfold nodes_named, remove_set. simpl.
  rewrite filter_comm. fold (nodes_named g0 KNode name). rewrite (node_name_unique g0 n name W Hn Kn Nn). simpl. rewrite Dn. reflexivity.
Qed.

(* after the disconnection loop over a list that holds the interfaces of the service sv, none of them (nor of their
   sub-interfaces) has a service-port peer left *)
Lemma NoSP_from_phase g0 E d1 ifs sv :
  WF g0 -> subs_under_dedicated g0 = true -> cls_is g0 sv KNS = true -> sane (remove_set g0 d1) ->
  (forall x, In x (first_nb g0 sv Connects KCP) -> In x ifs) ->
  (forall c z, In c (loop_list g0 ifs) -> d1 c = false -> In z (peers (remove_set g0 d1) c) -> typ_is g0 z sServicePort = false) ->
  NoSPat g0 E d1 (remove_set g0 d1) sv.
Proof.
  intros W X Cs Sn Hin N1 x c z Hx Dx Hc Hz Tz. exfalso.
  assert (Cx : cls_is g0 x KCP = true) by (apply In_first_nb in Hx; tauto).
  assert (Hl : In c (loop_list g0 ifs)).
  { unfold loop_list. apply in_flat_map. exists x. split; [apply Hin; exact Hx|]. destruct Hc as [->|Hc]; [left; reflexivity|]. right.
    rewrite (first_nb_remove g0 d1 x _ _ Dx) in Hc. apply filter_In in Hc as [Hc _].
    destruct (own_port_children g0 W sv x c Cs Hx Hc) as [Tx [Tc _]].
    assert (Td : typ_is g0 x sDedicatedPort = true).
    { apply In_first_nb in Hc as [Hadj Cc]. apply In_nbrs in Hadj as [e [He [_ Hends]]].
      unfold subs_under_dedicated in X. rewrite forallb_forall in X. specialize (X e He).
      assert (Dc : typ_is g0 c sDedicatedPort = false) by (apply (typ_is_excl _ _ _ _ Tc); reflexivity).
      destruct Hends as [[E1 E2]|[E1 E2]]; rewrite E1, E2, Cx, Cc, Dc in X; simpl in X; rewrite ?orb_false_r in X; exact X. }
    rewrite Td. exact Hc. }
  assert (Dc : d1 c = false).
  { destruct (d1 c) eqn:Dc; [|reflexivity]. exfalso.
    assert (Hc' : has_id (remove_set g0 d1) c = false).
    { destruct (has_id (remove_set g0 d1) c) eqn:Q; [|reflexivity]. apply has_id_remove_inv in Q. destruct Q; congruence. }
    rewrite (peers_absent _ c Sn Hc') in Hz. destruct Hz. }
  rewrite (N1 c z Hl Dc Hz) in Tz. discriminate.
Qed.

Lemma remove_node_core fl hint n name s s' r :
  WF (sg s) -> subs_under_dedicated (sg s) = true -> ns_cp_connects (sg s) = true -> one_sp_peer (sg s) = true ->
  fl_skip_gone fl = true -> In n (gnodes (sg s)) -> ncls n = KNode -> nname n = Some name ->
  (ifs <- node_interface_list (nid n) ;; (disconnect_loop fl hint ifs ;;; (x <- find_node_by_name name KNode ;; remove_network_node x))) s = (s', r) ->
  WF (sg s').
Proof.
  intros W X X2 P FL Hn Kn Nn H. set (g0 := sg s) in *. set (x := nid n) in *.
  assert (Cx : cls_is g0 x KNode = true) by (unfold x; rewrite (cls_is_node g0 n _ (wf_ids _ W) Hn), Kn; reflexivity).
  pose proof (WF_WFr g0) as WR. apply WR in W as Wr. pose proof (WFr_sane _ _ _ Wr) as Sn0.
  unfold bind at 1 in H. rewrite (node_interface_list_run x s Sn0 Cx) in H. fold g0 in H.
  set (COMPS := first_nb g0 x Has KComp) in *.
  set (ifs := CPs g0 x ++ flat_map (CPs g0) COMPS) in *.
  set (NSSall := first_nb g0 x Has KNS ++ flat_map (fun c => first_nb g0 c Has KNS) COMPS).
  assert (Cc : forall c, In c COMPS -> cls_is g0 c KComp = true) by (intros c Hc; apply In_first_nb in Hc; tauto).
  assert (Csv : forall sv, In sv NSSall -> cls_is g0 sv KNS = true).
  { intros sv Hsv. unfold NSSall in Hsv. apply in_app_or in Hsv as [Hsv|Hsv]; [apply In_first_nb in Hsv; tauto|].
    apply in_flat_map in Hsv as [c [_ Hsv]]. apply In_first_nb in Hsv. tauto. }
  assert (Hifs : forall i, In i ifs <-> exists sv, In sv NSSall /\ In i (first_nb g0 sv Connects KCP)).
  { intro i. unfold ifs, NSSall. rewrite in_app_iff, (In_CPs g0 x i X2 (cls_is_unique _ _ _ KCP Cx ltac:(discriminate))). split.
    - intros [[sv [A B]]|Hi]; [exists sv; split; [apply in_or_app; left; exact A | exact B]|].
      apply in_flat_map in Hi as [c [Hc Hi]]. apply (In_CPs g0 c i X2 (cls_is_unique _ _ _ KCP (Cc c Hc) ltac:(discriminate))) in Hi as [sv [A B]].
      exists sv. split; [apply in_or_app; right; apply in_flat_map; exists c; auto | exact B].
    - intros [sv [A B]]. apply in_app_or in A as [A|A]; [left; exists sv; auto|]. right.
      apply in_flat_map in A as [c [Hc A]]. apply in_flat_map. exists c. split; [exact Hc|].
      apply (In_CPs g0 c i X2 (cls_is_unique _ _ _ KCP (Cc c Hc) ltac:(discriminate))). exists sv. auto. }
  assert (Cifs : forall i, In i ifs -> cls_is g0 i KCP = true).
  { intros i Hi. apply Hifs in Hi as [sv [_ Hi]]. apply In_first_nb in Hi. tauto. }
  set (E := fun y => str_eqb y x || mem_str y COMPS || mem_str y NSSall || mem_str y ifs).
  assert (EN : forall y, E y = true -> cls_is g0 y KLink = false).
  { intros y Hy. unfold E in Hy. repeat (apply orb_true_iff in Hy as [Hy|Hy]).
    - apply str_eqb_eq in Hy. subst y. apply (cls_is_unique _ _ _ _ Cx). discriminate.
    - apply mem_str_In in Hy. apply (cls_is_unique _ _ _ _ (Cc y Hy)). discriminate.
    - apply mem_str_In in Hy. apply (cls_is_unique _ _ _ _ (Csv y Hy)). discriminate.
    - apply mem_str_In in Hy. apply (cls_is_unique _ _ _ _ (Cifs y Hy)). discriminate. }
  assert (Eifs : forall i, In i ifs -> E i = true).
  { intros i Hi. unfold E. apply mem_str_In in Hi. rewrite Hi. apply orb_true_r. }
  assert (Ensv : forall sv, In sv NSSall -> E sv = true).
  { intros sv Hsv. unfold E. apply mem_str_In in Hsv. rewrite Hsv. rewrite orb_true_r. reflexivity. }
  destruct (disconnect_phase g0 W X P E EN fl hint ifs s eq_refl FL Cifs (fun i Hi _ => Eifs i Hi)) as [d1 [R1 [I1 [K1 N1]]]].
  unfold bind at 1 in H. rewrite R1 in H.
  set (s1 := mkSt (remove_set g0 d1) (sdr s)) in *.
  assert (Dx : d1 x = false) by (apply (Kl_keeps g0 d1 KNode x K1 Cx); discriminate).
  unfold bind at 1 in H. rewrite (find_node_by_name_run g0 d1 n name s1 W eq_refl Hn Dx Kn Nn) in H. fold x in H.
  assert (Ready : forall sv, In sv NSSall -> NsReady g0 E d1 sv).
  { intros sv Hsv. split; [apply Ensv; exact Hsv|]. split.
    - intros i Hi. apply Eifs. apply Hifs. exists sv. auto.
    - apply (NoSP_from_phase g0 E d1 ifs sv W X (Csv sv Hsv)); [apply (InvD_sane _ _ _ _ I1) | | exact N1].
      intros i Hi. apply Hifs. exists sv. auto. }
  destruct (remove_node_run g0 W E d1 s1 x I1 (cls_is_has_id _ _ _ Cx) Dx Cx) as [d2 [R2 [I2 [S2 [D2x [D2c [D2s PG2]]]]]]].
  - intros c Hc. split; [unfold E; apply mem_str_In in Hc; fold COMPS in Hc; rewrite Hc, orb_true_r; reflexivity|].
    intros sv Hsv. apply Ready. unfold NSSall. apply in_or_app. right. apply in_flat_map. exists c. auto.
  - intros sv Hsv. apply Ready. unfold NSSall. apply in_or_app. left. exact Hsv.
  - simpl in R2, I2. rewrite R2 in H. inversion H; subst s' r. simpl.
    assert (Dsv : forall sv, In sv NSSall -> d2 sv = true).
    { intros sv Hsv. unfold NSSall in Hsv. apply in_app_or in Hsv as [Hsv|Hsv]; [apply D2s; exact Hsv|].
      apply in_flat_map in Hsv as [c [Hc Hsv]].
      assert (Dc : d1 c = false) by (apply (Kl_keeps g0 d1 KComp c K1 (Cc c Hc)); discriminate).
      destruct (D2c c Hc Dc) as [_ Q]. apply Q. exact Hsv. }
    assert (PG1 : PortsGone g0 d1).
    { intros sv i Cs Ds _. rewrite (Kl_keeps g0 d1 KNS sv K1 Cs) in Ds; [discriminate | discriminate | discriminate]. }
    apply (finish g0 E d2 _ I2). intros y Hy _. unfold E in Hy. repeat (apply orb_true_iff in Hy as [Hy|Hy]).
    + apply str_eqb_eq in Hy. subst y. exact D2x.
    + apply mem_str_In in Hy. assert (Dc : d1 y = false) by (apply (Kl_keeps g0 d1 KComp y K1 (Cc y Hy)); discriminate).
      destruct (D2c y Hy Dc) as [Q _]. exact Q.
    + apply mem_str_In in Hy. apply Dsv. exact Hy.
    + apply mem_str_In in Hy. apply Hifs in Hy as [sv [Hsv Hi]]. apply (PG2 PG1 sv y (Csv sv Hsv) (Dsv sv Hsv) Hi).
Qed.

Lemma find_view_node name (P : node -> bool) g n :
  find (has_name name) (filter (fun m => cls_eqb (ncls m) KNode && P m) (gnodes g)) = Some n ->
  In n (gnodes g) /\ ncls n = KNode /\ nname n = Some name.
Proof.
  intro H. apply find_some in H as [H1 H2]. apply filter_In in H1 as [H1 H3]. apply andb_true_iff in H3 as [H3 _].
  split; [exact H1|]. split; [apply cls_eqb_eq; exact H3|]. unfold has_name in H2. apply ostr_eqb_eq. exact H2.
Qed.

(* Topology.remove_node *)
Theorem api_t_remove_node fl hint name s s' r :
  WF (sg s) -> subs_under_dedicated (sg s) = true -> ns_cp_connects (sg s) = true -> one_sp_peer (sg s) = true ->
  fl_skip_gone fl = true -> t_remove_node fl hint name s = (s', r) -> WF (sg s').
Proof.
  intros W X X2 P FL H. unfold t_remove_node in H. unfold bind at 1 in H. unfold getg at 1 in H.
  destruct (find (has_name name) (nodes_view (sg s))) as [n|] eqn:F; [|apply raise_inv in H as [-> _]; exact W].
  unfold nodes_view in F. apply find_view_node in F as [Hn [Kn Nn]].
  eapply remove_node_core; eauto.
Qed.

(* Topology.remove_facility *)
Theorem api_t_remove_facility fl hint name s s' r :
  WF (sg s) -> subs_under_dedicated (sg s) = true -> ns_cp_connects (sg s) = true -> one_sp_peer (sg s) = true ->
  fl_skip_gone fl = true -> t_remove_facility fl hint name s = (s', r) -> WF (sg s').
Proof.
  intros W X X2 P FL H. unfold t_remove_facility in H.
  peel H W. peel H W. peel H W.
  unfold bind at 1 in H. unfold getg at 1 in H.
  match type of H with context [find ?f ?l] => destruct (find f l) as [n|] eqn:F end; [|apply raise_inv in H as [-> _]; exact W].
  unfold facilities_view in F. apply find_view_node in F as [Hn [Kn Nn]].
  eapply remove_node_core; eauto.
Qed.

(* Topology.remove_switch *)
Theorem api_t_remove_switch fl hint name s s' r :
  WF (sg s) -> subs_under_dedicated (sg s) = true -> ns_cp_connects (sg s) = true -> one_sp_peer (sg s) = true ->
  fl_skip_gone fl = true -> t_remove_switch fl hint name s = (s', r) -> WF (sg s').
Proof.
  intros W X X2 P FL H. unfold t_remove_switch in H.
  peel H W. peel H W. peel H W.
  eapply api_t_remove_node; eauto.
Qed.

Lemma reads_components_of x : reads (components_of x).
Proof. unfold components_of. auto 8 with reads. Qed.
#[export] Hint Resolve reads_components_of : reads.
Lemma components_of_val x s s' l : components_of x s = (s', Ok l) -> s' = s /\ l = first_nb (sg s) x Has KComp.
Proof.
  unfold components_of. intro H. apply bind_inv in H as [[s1 [[] [H1 H2]]]|[e [_ H]]]; [|discriminate].
  apply check_class_val in H1 as [-> _]. apply q_first_nb_val in H2 as [-> [-> _]]. auto.
Qed.

(* Node.remove_component *)
Theorem api_node_remove_component fl hint nd name s s' r :
  WF (sg s) -> subs_under_dedicated (sg s) = true -> ns_cp_connects (sg s) = true -> one_sp_peer (sg s) = true ->
  fl_skip_gone fl = true -> node_remove_component fl hint nd name s = (s', r) -> WF (sg s').
Proof.
  intros W X X2 P FL H. unfold node_remove_component in H.
  apply bind_reads in H; [| auto with reads].
  destruct H as [[s1 [cs [Hm [Hg H]]]] | [e [Hr Hg]]]; [| rewrite Hg; exact W].
  apply components_of_val in Hm as [-> ->]. clear Hg.
  apply bind_reads in H; [| auto with reads].
  destruct H as [[s1 [c [Hm [Hg H]]]] | [e [Hr Hg]]]; [| rewrite Hg; exact W].
  apply find_by_name_lazy_val in Hm as [-> Hc]. clear Hg.
  set (g0 := sg s) in *.
  assert (Cc : cls_is g0 c KComp = true) by (apply In_first_nb in Hc; tauto).
  pose proof (WF_WFr g0) as WR. apply WR in W as Wr. pose proof (WFr_sane _ _ _ Wr) as Sn0.
  unfold bind at 1 in H. rewrite (conn_points_of_run c s KComp Sn0 Cc eq_refl) in H. fold g0 in H.
  set (ifs := CPs g0 c) in *. set (NSS := first_nb g0 c Has KNS).
  assert (Csv : forall sv, In sv NSS -> cls_is g0 sv KNS = true) by (intros sv Hsv; apply In_first_nb in Hsv; tauto).
  assert (Hifs : forall i, In i ifs <-> exists sv, In sv NSS /\ In i (first_nb g0 sv Connects KCP)).
  { intro i. apply (In_CPs g0 c i X2). apply (cls_is_unique _ _ _ _ Cc). discriminate. }
  assert (Cifs : forall i, In i ifs -> cls_is g0 i KCP = true).
  { intros i Hi. apply Hifs in Hi as [sv [_ Hi]]. apply In_first_nb in Hi. tauto. }
  set (E := fun y => str_eqb y c || mem_str y NSS || mem_str y ifs).
  assert (EN : forall y, E y = true -> cls_is g0 y KLink = false).
  { intros y Hy. unfold E in Hy. repeat (apply orb_true_iff in Hy as [Hy|Hy]).
    - apply str_eqb_eq in Hy. subst y. apply (cls_is_unique _ _ _ _ Cc). discriminate.
    - apply mem_str_In in Hy. apply (cls_is_unique _ _ _ _ (Csv y Hy)). discriminate.
    - apply mem_str_In in Hy. apply (cls_is_unique _ _ _ _ (Cifs y Hy)). discriminate. }
  assert (Eifs : forall i, In i ifs -> E i = true).
  { intros i Hi. unfold E. apply mem_str_In in Hi. rewrite Hi. apply orb_true_r. }
  destruct (disconnect_phase g0 W X P E EN fl hint ifs s eq_refl FL Cifs (fun i Hi _ => Eifs i Hi)) as [d1 [R1 [I1 [K1 N1]]]].
  unfold bind at 1 in H. rewrite R1 in H.
  set (s1 := mkSt (remove_set g0 d1) (sdr s)) in *.
  assert (Dc : d1 c = false) by (apply (Kl_keeps g0 d1 KComp c K1 Cc); discriminate).
  destruct (remove_comp_run g0 W E d1 s1 c I1 (cls_is_has_id _ _ _ Cc) Dc Cc) as [d2 [R2 [I2 [S2 [D2c [D2s [PG2 _]]]]]]].
  - intros sv Hsv. split; [unfold E; apply mem_str_In in Hsv; fold NSS in Hsv; rewrite Hsv, orb_true_r; reflexivity|]. split.
    + intros i Hi. apply Eifs. apply Hifs. exists sv. auto.
    + apply (NoSP_from_phase g0 E d1 ifs sv W X (Csv sv Hsv)); [apply (InvD_sane _ _ _ _ I1) | | exact N1].
      intros i Hi. apply Hifs. exists sv. auto.
  - simpl in R2, I2. rewrite R2 in H. inversion H; subst s' r. simpl.
    assert (PG1 : PortsGone g0 d1).
    { intros sv i Cs Ds _. rewrite (Kl_keeps g0 d1 KNS sv K1 Cs) in Ds; [discriminate | discriminate | discriminate]. }
    apply (finish g0 E d2 _ I2). intros y Hy _. unfold E in Hy. repeat (apply orb_true_iff in Hy as [Hy|Hy]).
    + apply str_eqb_eq in Hy. subst y. exact D2c.
    + apply mem_str_In in Hy. apply D2s. exact Hy.
    + apply mem_str_In in Hy. apply Hifs in Hy as [sv [Hsv Hi]]. apply (PG2 PG1 sv y (Csv sv Hsv) (D2s sv Hsv) Hi).
Qed.

(* C08 proofs, part 7: after a removal that returns normally, the set of deleted ids is CLOSED under
   containment: a deleted node takes its components and services with it, a deleted component its
   services, a deleted service its ports, a deleted port the sub-interfaces that hang on it alone (CI),
   a deleted connection point its two-ended links (LI).  Together with "the addressed element is
   deleted" this gives: everything the element owns is deleted. *)
From Coq Require Import List NArith Bool Lia Arith PeanoNat.
From FIM Require Import Model.T8Graph Model.T8Ops Proofs.T8Frame Proofs.T8Query Proofs.T8Hoare Proofs.T8Sound
     Proofs.T8Complete.
Import ListNotations.

Section Closed.
Variable g0 : graph.

Definition cl (x : N) : Prop := class_of g0 x = CCP \/ class_of g0 x = CLink.
Definition NIc (D : list N) : Prop :=
  forall s i, In s D -> class_of g0 s = CNS -> In i (cpn g0 s) -> In i D.
Definition CoIc (X : N -> Prop) (D : list N) : Prop :=
  forall c s, In c D -> ~ X c -> class_of g0 c = CComp -> In s (first_neighbor g0 c RHas CNS) -> In s D.
Definition NoIc (X : N -> Prop) (D : list N) : Prop :=
  forall n y, In n D -> ~ X n -> class_of g0 n = CNode ->
              (In y (first_neighbor g0 n RHas CComp) \/ In y (first_neighbor g0 n RHas CNS)) -> In y D.
Definition J4 (X : N -> Prop) (s : st) : Prop :=
  J2 g0 s /\ NIc (snd s) /\ CoIc X (snd s) /\ NoIc X (snd s).

Definition good (X : N -> Prop) (D' : list N) (x : N) : Prop :=
  (class_of g0 x = CNS -> forall i, In i (cpn g0 x) -> In i D') /\
  (class_of g0 x = CComp -> ~ X x -> forall s, In s (first_neighbor g0 x RHas CNS) -> In s D') /\
  (class_of g0 x = CNode -> ~ X x ->
   forall y, (In y (first_neighbor g0 x RHas CComp) \/ In y (first_neighbor g0 x RHas CNS)) -> In y D').

Lemma cl_good X D' x : cl x -> good X D' x.
Proof. intros [H|H]; repeat split; intros H'; congruence. Qed.

Lemma J4_transfer X s s' :
  J4 X s -> J2 g0 s' -> (forall x, In x (snd s) -> In x (snd s')) ->
  (forall x, In x (snd s') -> In x (snd s) \/ good X (snd s') x) -> J4 X s'.
Proof.
  intros [_ [HN [HC HO]]] HJ Hsub Hnew. split; [exact HJ|]. split; [|split].
  - intros s0 i Hs Hc Hi. destruct (Hnew s0 Hs) as [H|[H _]]; [apply Hsub; apply (HN s0 i H Hc Hi) | apply H; assumption].
  - intros c s0 Hc Hx Hcl Hs. destruct (Hnew c Hc) as [H|[_ [H _]]];
      [apply Hsub; apply (HC c s0 H Hx Hcl Hs) | apply H; assumption].
  - intros n y Hn Hx Hcl Hy. destruct (Hnew n Hn) as [H|[_ [_ H]]];
      [apply Hsub; apply (HO n y H Hx Hcl Hy) | apply H; assumption].
Qed.

Lemma J4_weaken (X Y : N -> Prop) s : (forall x, X x -> Y x) -> J4 X s -> J4 Y s.
Proof.
  intros HXY [HJ [HN [HC HO]]]. split; [exact HJ|]. split; [exact HN|]. split.
  - intros c s0 Hc Hx. apply HC; [exact Hc | intro; apply Hx; auto].
  - intros n y Hn Hx. apply HO; [exact Hn | intro; apply Hx; auto].
Qed.

Lemma J4_unexcept X c s : J4 (fun y => X y \/ y = c) s -> good X (snd s) c -> J4 X s.
Proof.
  intros [HJ [HN [HC HO]]] [_ [G2 G3]]. split; [exact HJ|]. split; [exact HN|]. split.
  - intros c0 s0 Hc Hx Hcl Hs. destruct (N.eq_dec c0 c) as [->|Hne].
    + apply G2; assumption.
    + apply (HC c0 s0 Hc); [intros [H|H]; [apply Hx; exact H | apply Hne; exact H] | exact Hcl | exact Hs].
  - intros n y Hn Hx Hcl Hy. destruct (N.eq_dec n c) as [->|Hne].
    + apply G3; assumption.
    + apply (HO n y Hn); [intros [H|H]; [apply Hx; exact H | apply Hne; exact H] | exact Hcl | exact Hy].
Qed.

Lemma J4_cons X s : J4 X s -> cons g0 s.
Proof. intros [[C _] _]. exact C. Qed.

(* classes of what remove_cp_and_links deletes when called on a connection point *)
Lemma cp_del_list_class s n x :
  cons g0 s -> class_of g0 n = CCP -> In x (cp_del_list (fst s) n true) -> cl x.
Proof.
  intros C Hn Hx. apply cp_del_list_In in Hx. destruct Hx as [Hx|Hx].
  - unfold cp_family in Hx. rewrite dedup_In in Hx. destruct Hx as [<-|Hx]; [left; exact Hn|].
    apply filter_In in Hx. destruct Hx as [Hx _]. rewrite C in Hx.
    apply first_neighbor_restrict in Hx; [|discriminate]. destruct Hx as [Hx _].
    left. apply (cpn_class g0 n). exact Hx.
  - apply cp_links_In in Hx. destruct Hx as [i [_ [Hx _]]]. rewrite C in Hx.
    apply first_neighbor_restrict in Hx; [|discriminate]. destruct Hx as [Hx _].
    right. apply first_neighbor_In in Hx. tauto.
Qed.

Lemma remove_cp_J4 X n s s' :
  J4 X s -> class_of g0 n = CCP -> remove_cp_and_links n true s = (inl tt, s') ->
  J4 X s' /\ In n (snd s') /\ (forall x, In x (snd s) -> In x (snd s')).
Proof.
  intros HJ Hn E. pose proof HJ as [HJ2 _]. pose proof (J4_cons X s HJ) as C.
  destruct (remove_cp_ok g0 n true s s' C E) as [_ [_ H]].
  assert (Hsub : forall x, In x (snd s) -> In x (snd s')) by (intros x Hx; apply H; right; exact Hx).
  split; [|split; [|exact Hsub]].
  - apply (J4_transfer X s s' HJ (remove_cp_CI g0 n s s' HJ2 Hn E) Hsub).
    intros x Hx. apply H in Hx. destruct Hx as [Hx|Hx]; [right | left; exact Hx].
    apply cl_good. apply (cp_del_list_class s n x C Hn Hx).
  - apply H. left. apply cp_del_list_In. left. apply in_family_cur.
Qed.

Lemma cur_fn s x r c y : cons g0 s -> c <> COther ->
  (In y (first_neighbor (fst s) x r c) <-> In y (first_neighbor g0 x r c) /\ ~ In x (snd s) /\ ~ In y (snd s)).
Proof. intros C Hc. rewrite C. apply first_neighbor_restrict. exact Hc. Qed.

Lemma remove_ns_J4 X n s s' :
  J4 X s -> remove_ns n s = (inl tt, s') ->
  J4 X s' /\ In n (snd s') /\ (forall x, In x (snd s) -> In x (snd s')).
Proof.
  intros HJ E. pose proof (J4_cons X s HJ) as C. unfold remove_ns in E.
  apply bind_ok in E. destruct E as [[] [s1 [E1 E]]]. apply need_class_ok in E1. destruct E1 as [Hh [Hc ->]].
  apply bind_ok in E. destruct E as [ifs [s1 [E1 E]]]. apply get_ok in E1. destruct E1 as [-> ->].
  apply bind_ok in E. destruct E as [[] [s2 [E1 E]]].
  destruct (cons_has g0 s n C Hh) as [Hnd _].
  assert (Hc0 : class_of g0 n = CNS) by (rewrite <- (cons_class g0 s n C Hnd); exact Hc).
  pose proof HJ as [HJ2 _].
  destruct (delete_J2 g0 n CNS s tt s2 HJ2 Hc ltac:(discriminate) E1) as [HJ2' HD2].
  apply for_each_set_ok in E.
  set (Jl := fun st : st => J2 g0 st /\ (forall x, In x (snd st) -> In x (n :: snd s) \/ cl x)
                            /\ (forall x, In x (n :: snd s) -> In x (snd st))).
  assert (L : Jl s' /\ forall i, In i (first_neighbor (fst s) n RConnects CCP) -> In i (snd s')).
  { apply (for_each_ok_all (fun i => remove_cp_and_links i true) Jl (fun i st => In i (snd st))
                           (first_neighbor (fst s) n RConnects CCP)) with (s := s2); [| | |exact E].
    - intros i t1 t2 Hi [A [B B']] Et.
      apply (cur_fn s n RConnects CCP i C) in Hi; [|discriminate]. destruct Hi as [Hi _].
      assert (Hic : class_of g0 i = CCP) by (apply (cpn_class g0 n); exact Hi).
      destruct A as [Ct Ar].
      destruct (remove_cp_ok g0 i true t1 t2 Ct Et) as [_ [_ H]].
      split; [split; [apply (remove_cp_CI g0 i t1 t2 (conj Ct Ar) Hic Et)|split]|].
      + intros x Hx. apply H in Hx. destruct Hx as [Hx|Hx]; [right; apply (cp_del_list_class t1 i x Ct Hic Hx) | apply B; exact Hx].
      + intros x Hx. apply H. right. apply B'. exact Hx.
      + apply H. left. apply cp_del_list_In. left. apply in_family_cur.
    - intros x y t1 t2 _ [[Ct _] _] Hx Et. destruct (remove_cp_ok g0 y true t1 t2 Ct Et) as [_ [_ H]].
      apply H. right. exact Hx.
    - split; [exact HJ2'|]. rewrite HD2. split; intros x Hx; [left; exact Hx | exact Hx]. }
  destruct L as [[HJs' [Hnew Hold]] Hifs].
  assert (Hsub : forall x, In x (snd s) -> In x (snd s')) by (intros x Hx; apply Hold; right; exact Hx).
  split; [|split; [apply Hold; left; reflexivity | exact Hsub]].
  apply (J4_transfer X s s' HJ HJs' Hsub).
  intros x Hx. destruct (Hnew x Hx) as [[<-|H]|H]; [right | left; exact H | right; apply cl_good; exact H].
  split; [|split]; try (intros H'; congruence).
  intros _ i Hi. destruct (in_dec N.eq_dec i (snd s)) as [Hid|Hid]; [apply Hsub; exact Hid|].
  apply Hifs. apply (cur_fn s n RConnects CCP i C); [discriminate | auto].
Qed.

(* a loop of J4-preserving, trace-extending bodies, each of which deletes its argument *)
Lemma loop_J4 X (f : N -> M unit) l :
  (forall i s1 s2, In i l -> J4 X s1 -> f i s1 = (inl tt, s2) ->
                   J4 X s2 /\ In i (snd s2) /\ (forall x, In x (snd s1) -> In x (snd s2))) ->
  forall s s', J4 X s -> for_each_set f l s = (inl tt, s') ->
  J4 X s' /\ (forall i, In i l -> In i (snd s')) /\ (forall x, In x (snd s) -> In x (snd s')).
Proof.
  intros Hf s s' HJ E. apply for_each_set_ok in E.
  set (Jl := fun st : st => J4 X st /\ forall x, In x (snd s) -> In x (snd st)).
  assert (L : Jl s' /\ forall i, In i l -> In i (snd s')).
  { apply (for_each_ok_all f Jl (fun i st => In i (snd st)) l) with (s := s); [| | |exact E].
    - intros i t1 t2 Hi [A B] Et. destruct (Hf i t1 t2 Hi A Et) as [A' [Hi' Hs]].
      split; [split; [exact A' | intros x Hx; apply Hs; apply B; exact Hx] | exact Hi'].
    - intros x y t1 t2 Hy [A _] Hx Et. destruct (Hf y t1 t2 Hy A Et) as [_ [_ Hs]]. apply Hs. exact Hx.
    - split; [exact HJ | auto]. }
  destruct L as [[A B] Hl]. auto.
Qed.

Lemma remove_component_J4 X c s s' :
  J4 X s -> remove_component c s = (inl tt, s') ->
  J4 X s' /\ In c (snd s') /\ (forall x, In x (snd s) -> In x (snd s')).
Proof.
  intros HJ E. pose proof (J4_cons X s HJ) as C. unfold remove_component in E.
  apply bind_ok in E. destruct E as [[] [s1 [E1 E]]]. apply need_class_ok in E1. destruct E1 as [Hh [Hc ->]].
  apply bind_ok in E. destruct E as [nss [s1 [E1 E]]]. apply get_ok in E1. destruct E1 as [-> ->].
  apply bind_ok in E. destruct E as [[] [s2 [E1 E]]].
  destruct (cons_has g0 s c C Hh) as [Hcd _].
  assert (Hc0 : class_of g0 c = CComp) by (rewrite <- (cons_class g0 s c C Hcd); exact Hc).
  pose proof HJ as [HJ2 _].
  destruct (delete_J2 g0 c CComp s tt s2 HJ2 Hc ltac:(discriminate) E1) as [HJ2' HD2].
  set (X' := fun y => X y \/ y = c).
  assert (HJ' : J4 X' s2).
  { apply (J4_transfer X' s s2 (J4_weaken X X' s (fun x H => or_introl H) HJ) HJ2').
    - intros x Hx. rewrite HD2. right. exact Hx.
    - intros x Hx. rewrite HD2 in Hx. destruct Hx as [<-|Hx]; [right | left; exact Hx].
      split; [|split]; try (intros H'; congruence). intros _ Hx. exfalso. apply Hx. right. reflexivity. }
  destruct (loop_J4 X' remove_ns _ (fun i t1 t2 _ A Et => remove_ns_J4 X' i t1 t2 A Et) s2 s' HJ' E)
    as [HJs' [Hl Hsub2]].
  assert (Hsub : forall x, In x (snd s) -> In x (snd s')).
  { intros x Hx. apply Hsub2. rewrite HD2. right. exact Hx. }
  split; [|split; [apply Hsub2; rewrite HD2; left; reflexivity | exact Hsub]].
  apply (J4_unexcept X c s' HJs').
  split; [|split]; try (intros H'; congruence).
  intros _ _ s0 Hs0. destruct (in_dec N.eq_dec s0 (snd s)) as [Hd|Hd]; [apply Hsub; exact Hd|].
  apply Hl. apply (cur_fn s c RHas CNS s0 C); [discriminate | auto].
Qed.

Lemma remove_node_graph_J4 X n s s' :
  J4 X s -> remove_node_graph n s = (inl tt, s') ->
  J4 X s' /\ In n (snd s') /\ (forall x, In x (snd s) -> In x (snd s')).
Proof.
  intros HJ E. pose proof (J4_cons X s HJ) as C. unfold remove_node_graph in E.
  apply bind_ok in E. destruct E as [[] [s1 [E1 E]]]. apply need_class_ok in E1. destruct E1 as [Hh [Hc ->]].
  apply bind_ok in E. destruct E as [comps [s1 [E1 E]]]. apply get_ok in E1. destruct E1 as [-> ->].
  apply bind_ok in E. destruct E as [[] [s1 [E1 E]]].
  destruct (cons_has g0 s n C Hh) as [Hnd _].
  assert (Hc0 : class_of g0 n = CNode) by (rewrite <- (cons_class g0 s n C Hnd); exact Hc).
  destruct (loop_J4 X remove_component _ (fun i t1 t2 _ A Et => remove_component_J4 X i t1 t2 A Et) s s1 HJ E1)
    as [HJ1 [Hl1 Hsub1]].
  pose proof (J4_cons X s1 HJ1) as C1.
  apply bind_ok in E. destruct E as [nss [s1' [E2 E]]]. apply get_ok in E2. destruct E2 as [-> ->].
  apply bind_ok in E. destruct E as [[] [s2 [E2 E]]].
  pose proof E2 as E2'. apply delete_ok in E2'. destruct E2' as [Hh1 _].
  destruct (cons_has g0 s1 n C1 Hh1) as [Hnd1 _].
  assert (Hc1 : class_of (fst s1) n = CNode) by (rewrite (cons_class g0 s1 n C1 Hnd1); exact Hc0).
  pose proof HJ1 as [HJ12 _].
  destruct (delete_J2 g0 n CNode s1 tt s2 HJ12 Hc1 ltac:(discriminate) E2) as [HJ2' HD2].
  set (X' := fun y => X y \/ y = n).
  assert (HJ' : J4 X' s2).
  { apply (J4_transfer X' s1 s2 (J4_weaken X X' s1 (fun x H => or_introl H) HJ1) HJ2').
    - intros x Hx. rewrite HD2. right. exact Hx.
    - intros x Hx. rewrite HD2 in Hx. destruct Hx as [<-|Hx]; [right | left; exact Hx].
      split; [|split]; try (intros H'; congruence). intros _ Hx. exfalso. apply Hx. right. reflexivity. }
  destruct (loop_J4 X' remove_ns _ (fun i t1 t2 _ A Et => remove_ns_J4 X' i t1 t2 A Et) s2 s' HJ' E)
    as [HJs' [Hl Hsub2]].
  assert (Hsub12 : forall x, In x (snd s1) -> In x (snd s')).
  { intros x Hx. apply Hsub2. rewrite HD2. right. exact Hx. }
  assert (Hsub : forall x, In x (snd s) -> In x (snd s')) by (intros x Hx; apply Hsub12; apply Hsub1; exact Hx).
  split; [|split; [apply Hsub2; rewrite HD2; left; reflexivity | exact Hsub]].
  apply (J4_unexcept X n s' HJs').
  split; [|split]; try (intros H'; congruence).
  intros _ _ y [Hy|Hy].
  - destruct (in_dec N.eq_dec y (snd s)) as [Hd|Hd]; [apply Hsub; exact Hd|].
    apply Hsub12. apply Hl1. apply (cur_fn s n RHas CComp y C); [discriminate | auto].
  - destruct (in_dec N.eq_dec y (snd s1)) as [Hd|Hd]; [apply Hsub12; exact Hd|].
    apply Hl. apply (cur_fn s1 n RHas CNS y C1); [discriminate | auto].
Qed.

(* ---- API level: J4 is kept by every returning program built from connection-point removals ---- *)
Definition PresJ {A} (X : N -> Prop) (m : M A) : Prop :=
  forall s r s', J4 X s -> m s = (inl r, s') -> J4 X s' /\ (forall x, In x (snd s) -> In x (snd s')).

Lemma PresJ_ret {A} X (x : A) : PresJ X (ret x).
Proof. intros s r s' HJ E. apply ret_ok in E. destruct E as [_ ->]. auto. Qed.
Lemma PresJ_fail {A} X e : PresJ X (@fail A e).
Proof. intros s r s' HJ E. discriminate. Qed.
Lemma PresJ_get {A} X (f : graph -> A) : PresJ X (m_get f).
Proof. intros s r s' HJ E. apply get_ok in E. destruct E as [_ ->]. auto. Qed.
Lemma PresJ_read {A} X (f : graph -> A + exn) : PresJ X (m_read f).
Proof. intros s r s' HJ E. apply read_ok in E. destruct E as [_ ->]. auto. Qed.
Lemma PresJ_guard X b e : PresJ X (guard b e).
Proof. intros s r s' HJ E. apply guard_ok in E. destruct E as [_ ->]. auto. Qed.
Lemma PresJ_uniq X l e1 e2 : PresJ X (uniq l e1 e2).
Proof. intros s r s' HJ E. apply uniq_ok in E. destruct E as [_ ->]. auto. Qed.
Lemma PresJ_bind {A B} X (m : M A) (f : A -> M B) :
  PresJ X m -> (forall x s s1, J4 X s -> m s = (inl x, s1) -> PresJ X (f x)) -> PresJ X (bind m f).
Proof.
  intros Hm Hf s r s' HJ E. apply bind_ok in E. destruct E as [x [s1 [E1 E2]]].
  destruct (Hm s x s1 HJ E1) as [HJ1 Hs1]. destruct (Hf x s s1 HJ E1 s1 r s' HJ1 E2) as [HJ' Hs'].
  split; [exact HJ' | intros y Hy; apply Hs'; apply Hs1; exact Hy].
Qed.
Lemma PresJ_bind' {A B} X (m : M A) (f : A -> M B) :
  PresJ X m -> (forall x, PresJ X (f x)) -> PresJ X (bind m f).
Proof. intros Hm Hf. apply PresJ_bind; [exact Hm | intros x s s1 _ _; apply Hf]. Qed.
Lemma PresJ_bind_get {A B} X (q : graph -> A) (f : A -> M B) :
  (forall s, J4 X s -> PresJ X (f (q (fst s)))) -> PresJ X (bind (m_get q) f).
Proof.
  intros Hf. apply PresJ_bind; [apply PresJ_get|]. intros x s s1 HJ E.
  apply get_ok in E. destruct E as [-> ->]. apply Hf. exact HJ.
Qed.
Lemma PresJ_for_each_set {A} X (f : A -> M unit) l : (forall x, In x l -> PresJ X (f x)) -> PresJ X (for_each_set f l).
Proof.
  intros Hf s r s' HJ E. destruct r. apply for_each_set_ok in E.
  set (Jl := fun st : st => J4 X st /\ forall x, In x (snd s) -> In x (snd st)).
  apply (for_each_ok_inv f Jl l) with (s := s); [| |exact E].
  - intros x t1 t2 Hx [HA HB] Et. destruct (Hf x Hx t1 tt t2 HA Et) as [HA' HB'].
    split; [exact HA' | intros y Hy; apply HB'; apply HB; exact Hy].
  - split; [exact HJ | auto].
Qed.

Lemma PresJ_remove_cp_at X (q : graph -> N) :
  (forall s, J4 X s -> class_of g0 (q (fst s)) = CCP) ->
  forall s r s', J4 X s -> remove_cp_and_links (q (fst s)) true s = (inl r, s') ->
                 J4 X s' /\ (forall x, In x (snd s) -> In x (snd s')).
Proof.
  intros Hq s r s' HJ E. destruct r.
  destruct (remove_cp_J4 X _ s s' HJ (Hq s HJ) E) as [A [_ B]]. auto.
Qed.

Lemma peer_cps_class s i x : cons g0 s -> In x (peer_cps (fst s) i) -> class_of g0 x = CCP.
Proof.
  intros C H. unfold peer_cps in H. apply in_flat_map in H. destruct H as [l [_ H]].
  apply removeN_In in H. destruct H as [H _]. rewrite C in H.
  apply nbrs_cls_restrict in H; [|discriminate]. destruct H as [H _]. apply nbrs_cls_In in H. tauto.
Qed.

Lemma PresJ_disconnect_interface X i : PresJ X (disconnect_interface i).
Proof.
  unfold disconnect_interface. apply PresJ_bind'; [apply PresJ_read | intros _].
  apply PresJ_bind_get. intros s HJ.
  destruct (get_peers_typed (fst s) i T_ServicePort) as [[|x [|y r]]|] eqn:E;
    try apply PresJ_ret; try apply PresJ_fail.
  assert (Hx : class_of g0 x = CCP).
  { destruct (get_peers_typed_In _ _ _ _ x E (or_introl eq_refl)) as [Hp _].
    apply (peer_cps_class s i x (J4_cons X s HJ) Hp). }
  apply PresJ_bind'; [|intros _; apply PresJ_ret].
  intros t r t' HJt Et. destruct r. destruct (remove_cp_J4 X x t t' HJt Hx Et) as [A [_ B]]. auto.
Qed.

Lemma PresJ_disconnect_peers_of X i : PresJ X (disconnect_peers_of i).
Proof.
  unfold disconnect_peers_of. apply PresJ_bind'; [apply PresJ_read | intros _].
  apply PresJ_bind'; [apply PresJ_get | intros p].
  destruct p as [[|x [|y r]]|]; try apply PresJ_ret; try apply PresJ_fail.
  apply PresJ_bind'; [apply PresJ_get | intros par].
  destruct par as [|s [|s' r']]; try apply PresJ_fail.
  apply PresJ_bind'; [apply PresJ_disconnect_interface | intros _; apply PresJ_ret].
Qed.

Lemma PresJ_disconnect_step X i : PresJ X (disconnect_step i).
Proof.
  unfold disconnect_step. apply PresJ_bind'; [apply PresJ_get | intros b].
  destruct b; [apply PresJ_disconnect_peers_of | apply PresJ_ret].
Qed.


Lemma PresJ_of3 X (m : M unit) :
  (forall s s', J4 X s -> m s = (inl tt, s') -> J4 X s' /\ (forall x, In x (snd s) -> In x (snd s'))) -> PresJ X m.
Proof. intros H s r s' HJ E. destruct r. apply H; assumption. Qed.

Lemma PresJ_remove_ns X n : PresJ X (remove_ns n).
Proof. apply PresJ_of3. intros s s' HJ E. destruct (remove_ns_J4 X n s s' HJ E) as [A [_ B]]. auto. Qed.
Lemma PresJ_remove_component X n : PresJ X (remove_component n).
Proof. apply PresJ_of3. intros s s' HJ E. destruct (remove_component_J4 X n s s' HJ E) as [A [_ B]]. auto. Qed.
Lemma PresJ_remove_node_graph X n : PresJ X (remove_node_graph n).
Proof. apply PresJ_of3. intros s s' HJ E. destruct (remove_node_graph_J4 X n s s' HJ E) as [A [_ B]]. auto. Qed.

Lemma PresJ_remove_link_graph X n : PresJ X (remove_link_graph n).
Proof.
  intros s r s' HJ E. unfold remove_link_graph in E.
  apply bind_ok in E. destruct E as [[] [s1 [E1 E]]]. apply need_class_ok in E1. destruct E1 as [Hh [Hc ->]].
  pose proof (J4_cons X s HJ) as C. destruct (cons_has g0 s n C Hh) as [Hnd _].
  assert (Hc0 : class_of g0 n = CLink) by (rewrite <- (cons_class g0 s n C Hnd); exact Hc).
  pose proof HJ as [HJ2 _].
  destruct (delete_J2 g0 n CLink s r s' HJ2 Hc ltac:(discriminate) E) as [HJ2' HD].
  assert (Hsub : forall x, In x (snd s) -> In x (snd s')) by (intros x Hx; rewrite HD; right; exact Hx).
  split; [|exact Hsub]. apply (J4_transfer X s s' HJ HJ2' Hsub).
  intros x Hx. rewrite HD in Hx. destruct Hx as [<-|Hx]; [right; apply cl_good; right; exact Hc0 | left; exact Hx].
Qed.

Lemma PresJ_node_tail X nm n :
  PresJ X (bind (m_get (fun g => disc_list g (node_interface_list g n))) (fun ifs =>
           bind (for_each_set disconnect_step ifs) (fun _ =>
           bind (m_get (fun g => by_name g CNode nm)) (fun all =>
           bind (uniq all EQuery EQuery) (fun n' => remove_node_graph n'))))).
Proof.
  apply PresJ_bind'; [apply PresJ_get | intros ifs].
  apply PresJ_bind'; [apply PresJ_for_each_set; intros i _; apply PresJ_disconnect_step | intros _].
  apply PresJ_bind'; [apply PresJ_get | intros all].
  apply PresJ_bind'; [apply PresJ_uniq | intros n']. apply PresJ_remove_node_graph.
Qed.

Lemma PresJ_api_remove_node X nm : PresJ X (api_remove_node nm).
Proof.
  unfold api_remove_node. apply PresJ_bind'; [apply PresJ_get | intros cands].
  apply PresJ_bind'; [apply PresJ_uniq | intros n]. apply PresJ_node_tail.
Qed.

Lemma PresJ_api_remove_facility X nm : PresJ X (api_remove_facility nm).
Proof.
  unfold api_remove_facility. apply PresJ_bind'; [apply PresJ_get | intros all].
  apply PresJ_bind'; [apply PresJ_uniq | intros n].
  apply PresJ_bind'; [apply PresJ_get | intros t].
  apply PresJ_bind'; [apply PresJ_guard | intros _]. apply PresJ_node_tail.
Qed.

Lemma PresJ_api_remove_switch X nm : PresJ X (api_remove_switch nm).
Proof.
  unfold api_remove_switch. apply PresJ_bind'; [apply PresJ_get | intros all].
  apply PresJ_bind'; [apply PresJ_uniq | intros n].
  apply PresJ_bind'; [apply PresJ_get | intros t].
  apply PresJ_bind'; [apply PresJ_guard | intros _]. apply PresJ_api_remove_node.
Qed.

Lemma PresJ_api_remove_link X nm : PresJ X (api_remove_link nm).
Proof.
  unfold api_remove_link. apply PresJ_bind'; [apply PresJ_get | intros all].
  apply PresJ_bind'; [apply PresJ_uniq | intros n].
  apply PresJ_bind'; [apply PresJ_get | intros sp].
  apply PresJ_bind'; [apply PresJ_guard | intros _]. apply PresJ_remove_link_graph.
Qed.

Lemma PresJ_remove_ns_disconnecting X s : PresJ X (remove_ns_disconnecting s).
Proof.
  unfold remove_ns_disconnecting. apply PresJ_bind'; [apply PresJ_get | intros ifs].
  apply PresJ_bind'; [apply PresJ_for_each_set; intros i _; apply PresJ_disconnect_step | intros _].
  apply PresJ_remove_ns.
Qed.

Lemma PresJ_api_remove_ns_topo X nm : PresJ X (api_remove_ns_topo nm).
Proof.
  unfold api_remove_ns_topo. apply PresJ_bind'; [apply PresJ_get | intros all].
  apply PresJ_bind'; [apply PresJ_uniq | intros n]. apply PresJ_remove_ns_disconnecting.
Qed.

Lemma PresJ_need_class X n c : PresJ X (need_class n c).
Proof. unfold need_class. apply PresJ_bind'; [apply PresJ_read | intros x; apply PresJ_guard]. Qed.

Lemma PresJ_api_remove_component X n c : PresJ X (api_remove_component n c).
Proof.
  unfold api_remove_component. apply PresJ_bind'; [apply PresJ_need_class | intros _].
  apply PresJ_bind'; [apply PresJ_get | intros cs].
  apply PresJ_bind'; [apply PresJ_uniq | intros c'].
  apply PresJ_bind'; [apply PresJ_get | intros ifs].
  apply PresJ_bind'; [apply PresJ_for_each_set; intros i _; apply PresJ_disconnect_step | intros _].
  apply PresJ_remove_component.
Qed.

Lemma PresJ_api_node_remove_ns X n sname : PresJ X (api_node_remove_ns n sname).
Proof.
  unfold api_node_remove_ns. apply PresJ_bind'; [apply PresJ_read | intros x].
  apply PresJ_bind'; [apply PresJ_guard | intros _].
  apply PresJ_bind'; [apply PresJ_get | intros ss].
  apply PresJ_bind'; [apply PresJ_uniq | intros s]. apply PresJ_remove_ns_disconnecting.
Qed.

Lemma PresJ_api_disconnect X i c : PresJ X (api_disconnect i c).
Proof.
  unfold api_disconnect. apply PresJ_bind'; [apply PresJ_disconnect_interface | intros r].
  destruct r; apply PresJ_ret.
Qed.

Lemma child_by_name_class s p nm i :
  cons g0 s -> In i (child_by_name (fst s) (first_neighbor (fst s) p RConnects CCP) nm) -> class_of g0 i = CCP.
Proof.
  intros C H. unfold child_by_name in H. apply filter_In in H. destruct H as [H _].
  apply (cur_fn s p RConnects CCP i C) in H; [|discriminate]. destruct H as [H _].
  apply (cpn_class g0 p). exact H.
Qed.

Lemma PresJ_get_uniq {B} X (q : graph -> list N) e1 e2 (f : N -> M B) :
  (forall s n, J4 X s -> q (fst s) = [n] -> PresJ X (f n)) ->
  PresJ X (bind (m_get q) (fun x => bind (uniq x e1 e2) f)).
Proof.
  intros H. apply PresJ_bind_get. intros s HJ.
  destruct (q (fst s)) as [|a [|b r]] eqn:E; simpl.
  - intros t r t' _ Et. unfold bind, fail in Et. discriminate.
  - intros t r t' HJt Et. unfold bind, ret in Et. simpl in Et. exact (H s a HJ E t r t' HJt Et).
  - intros t r' t' _ Et. unfold bind, fail in Et. discriminate.
Qed.

Lemma PresJ_remove_cp X i : class_of g0 i = CCP -> PresJ X (remove_cp_and_links i true).
Proof.
  intros Hi. apply PresJ_of3. intros s s' HJ E. destruct (remove_cp_J4 X i s s' HJ Hi E) as [A [_ B]]. auto.
Qed.

Lemma PresJ_api_remove_interface X ex s0 iname c : PresJ X (api_remove_interface ex s0 iname c).
Proof.
  unfold api_remove_interface. apply PresJ_bind'; [apply PresJ_guard | intros _].
  apply PresJ_bind'; [apply PresJ_read | intros x].
  apply PresJ_bind'; [apply PresJ_guard | intros _].
  apply PresJ_get_uniq. intros s i HJ E.
  assert (Hi : class_of g0 i = CCP).
  { apply (child_by_name_class s s0 iname i (J4_cons X s HJ)). rewrite E. left. reflexivity. }
  apply PresJ_bind'; [apply PresJ_remove_cp; exact Hi | intros _; apply PresJ_ret].
Qed.

Lemma PresJ_remove_if_there X c : PresJ X (remove_if_there c).
Proof.
  unfold remove_if_there. apply PresJ_bind_get. intros s HJ.
  destruct (has_node (fst s) c && cls_eqb (class_of (fst s) c) CCP) eqn:Eb; [|apply PresJ_ret].
  apply andb_true_iff in Eb. destruct Eb as [Hh Hc].
  pose proof (J4_cons X s HJ) as C. destruct (cons_has g0 s c C Hh) as [Hd _].
  apply PresJ_remove_cp. rewrite <- (cons_class g0 s c C Hd).
  destruct (class_of (fst s) c); simpl in Hc; try discriminate; reflexivity.
Qed.

Lemma PresJ_api_unpeer6 X a b ca cb : PresJ X (api_unpeer6 a b ca cb).
Proof.
  unfold api_unpeer6. apply PresJ_bind'; [apply PresJ_read | intros x].
  apply PresJ_bind'; [apply PresJ_guard | intros _].
  apply PresJ_bind'; [apply PresJ_get | intros ps].
  destruct ps as [|p ps']; [apply PresJ_fail|].
  apply PresJ_bind'; [apply PresJ_for_each_set; intros c _; apply PresJ_remove_if_there | intros _; apply PresJ_ret].
Qed.

Lemma PresJ_api_prune X : PresJ X api_prune.
Proof.
  unfold api_prune.
  apply PresJ_bind'; [apply PresJ_get | intros ns_].
  apply PresJ_bind'; [apply PresJ_get | intros cs].
  apply PresJ_bind'; [apply PresJ_get | intros ss].
  apply PresJ_bind_get. intros s0 HJ0.
  apply PresJ_bind'; [apply PresJ_for_each_set; intros nm _; apply PresJ_api_remove_node | intros _].
  apply PresJ_bind'; [apply PresJ_for_each_set; intros cn _; apply PresJ_api_remove_component | intros _].
  apply PresJ_bind'; [apply PresJ_for_each_set; intros s _; apply PresJ_remove_ns | intros _].
  apply PresJ_for_each_set. intros i Hi. apply PresJ_remove_cp.
  rewrite dedup_In in Hi. apply filter_In in Hi. destruct Hi as [Hi _].
  apply in_flat_map in Hi. destruct Hi as [s [_ Hi]]. unfold ns_interfaces in Hi.
  apply (cur_fn s0 s RConnects CCP i (J4_cons X s0 HJ0)) in Hi; [|discriminate]. destruct Hi as [Hi _].
  apply (cpn_class g0 s). exact Hi.
Qed.

Lemma PresJ_guarded X (q : graph -> bool) (m : M unit) :
  PresJ X m -> PresJ X (bind (m_get q) (fun b : bool => if b then m else ret tt)).
Proof. intros Hm. apply PresJ_bind'; [apply PresJ_get | intros b]. destruct b; [exact Hm | apply PresJ_ret]. Qed.

Lemma PresJ_prune_if7 X i : PresJ X (prune_if7 i).
Proof.
  unfold prune_if7, exists_as. apply PresJ_bind_get. intros s HJ.
  destruct (has_node (fst s) i && cls_eqb (class_of (fst s) i) CCP) eqn:Eb; [|apply PresJ_ret].
  apply andb_true_iff in Eb. destruct Eb as [Hh Hc].
  pose proof (J4_cons X s HJ) as C. destruct (cons_has g0 s i C Hh) as [Hd _].
  assert (Hi : class_of g0 i = CCP).
  { rewrite <- (cons_class g0 s i C Hd). destruct (class_of (fst s) i); simpl in Hc; try discriminate; reflexivity. }
  apply PresJ_bind'; [apply PresJ_get | intros ifs].
  apply PresJ_bind'; [apply PresJ_for_each_set; intros j _; apply PresJ_disconnect_step | intros _].
  apply PresJ_remove_cp. exact Hi.
Qed.

Lemma PresJ_api_prune7 X : PresJ X api_prune7.
Proof.
  unfold api_prune7.
  apply PresJ_bind'; [apply PresJ_get | intros ns_].
  apply PresJ_bind'; [apply PresJ_get | intros cs].
  apply PresJ_bind'; [apply PresJ_get | intros ss].
  apply PresJ_bind'; [apply PresJ_get | intros is_].
  apply PresJ_bind'; [apply PresJ_for_each_set; intros nn _; unfold prune_node7, exists_as; apply PresJ_guarded; apply PresJ_api_remove_node | intros _].
  apply PresJ_bind'; [apply PresJ_for_each_set; intros cn _; unfold prune_comp7, exists_as; apply PresJ_guarded; apply PresJ_api_remove_component | intros _].
  apply PresJ_bind'; [apply PresJ_for_each_set; intros s _; unfold prune_ns7, exists_as; apply PresJ_guarded; apply PresJ_remove_ns_disconnecting | intros _].
  apply PresJ_for_each_set. intros i _. apply PresJ_prune_if7.
Qed.

End Closed.

(* ---- statements about `exec` ---- *)
Definition Closed (g : graph) (D : list N) : Prop :=
  LI g D /\ CI g D /\ NIc g D /\ CoIc g (fun _ => False) D /\ NoIc g (fun _ => False) D.

Lemma J4_init g : J4 g (fun _ => False) (g, []).
Proof.
  split; [split; [|split] | split; [|split]].
  - unfold cons. simpl. symmetry. apply restrict_nil.
  - intros l i j _ [].
  - intros i x [].
  - intros s i [].
  - intros c s [].
  - intros n y [].
Qed.

Lemma PresJ_run {A} g (m : M A) r g' tr :
  PresJ g (fun _ => False) m -> run m g = (inl r, (g', tr)) -> Closed g tr.
Proof.
  intros Hm E. unfold run in E. destruct (Hm (g, []) r (g', tr) (J4_init g) E) as [[[_ [HL HK]] [HA [HB HC]]] _].
  simpl in *. repeat split; assumption.
Qed.

Lemma PresJ_then_ret {A B} g X (m : M A) (v : B) : PresJ g X m -> PresJ g X (bind m (fun _ => ret v)).
Proof. intros Hm. apply PresJ_bind'; [exact Hm | intros _; apply PresJ_ret]. Qed.

(* every operation except remove_child_interface (parents are kept on purpose) and unpeer (no check
   that the path ends are connection points) *)
Definition closing (o : op) : bool :=
  match o with ORemoveChild _ _ | OUnpeer _ _ | OPrune8 | OPrune9 => false | _ => true end.

Theorem closed_exec ex o cs g r g' tr :
  closing o = true -> run (exec ex o cs) g = (inl r, (g', tr)) -> Closed g tr.
Proof.
  intros Hc E. destruct o; simpl in Hc; try discriminate; simpl in E.
  - apply (PresJ_run g _ _ _ _ (PresJ_then_ret g _ _ _ (PresJ_api_remove_node g _ name)) E).
  - apply (PresJ_run g _ _ _ _ (PresJ_then_ret g _ _ _ (PresJ_api_remove_facility g _ name)) E).
  - apply (PresJ_run g _ _ _ _ (PresJ_then_ret g _ _ _ (PresJ_api_remove_switch g _ name)) E).
  - apply (PresJ_run g _ _ _ _ (PresJ_then_ret g _ _ _ (PresJ_api_remove_link g _ name)) E).
  - apply (PresJ_run g _ _ _ _ (PresJ_then_ret g _ _ _ (PresJ_api_remove_ns_topo g _ name)) E).
  - apply (PresJ_run g _ _ _ _ (PresJ_then_ret g _ _ _ (PresJ_api_remove_component g _ n cname)) E).
  - apply (PresJ_run g _ _ _ _ (PresJ_then_ret g _ _ _ (PresJ_api_node_remove_ns g _ n sname)) E).
  - refine (PresJ_run g _ _ _ _ _ E).
    apply PresJ_bind'; [apply PresJ_api_disconnect | intros c; apply PresJ_ret].
  - refine (PresJ_run g _ _ _ _ _ E).
    apply PresJ_bind'; [apply PresJ_api_unpeer6 | intros c; apply PresJ_ret].
  - refine (PresJ_run g _ _ _ _ _ E).
    apply PresJ_bind'; [apply PresJ_api_remove_interface | intros c; apply PresJ_ret].
  - apply (PresJ_run g _ _ _ _ (PresJ_then_ret g _ _ _ (PresJ_api_prune g _)) E).
  - apply (PresJ_run g _ _ _ _ (PresJ_then_ret g _ _ _ (PresJ_api_prune7 g _)) E).
Qed.

(* closedness + "the element is deleted" = "everything the element owns is deleted" *)
Lemma closed_O_ns g D s x : Closed g D -> In s D -> class_of g s = CNS -> O_ns g s x -> In x D.
Proof.
  intros [_ [K [Nc _]]] Hs Hc [->|[i [Hi Hx]]]; [exact Hs|].
  assert (Hid : In i D) by (apply (Nc s i Hs Hc Hi)).
  destruct Hx as [->|[_ Hx]]; [exact Hid | apply (K i x Hid Hx)].
Qed.

Lemma closed_O_comp g D c x : Closed g D -> In c D -> class_of g c = CComp -> O_comp g c x -> In x D.
Proof.
  intros HC Hc Hcl [->|[s [Hs Hx]]]; [exact Hc|].
  pose proof HC as [_ [_ [_ [Co _]]]].
  assert (Hsd : In s D) by (apply (Co c s Hc (fun H => H) Hcl Hs)).
  apply (closed_O_ns g D s x HC Hsd); [|exact Hx]. apply first_neighbor_In in Hs. tauto.
Qed.

Lemma closed_O_node g D n x : Closed g D -> In n D -> class_of g n = CNode -> O_node g n x -> In x D.
Proof.
  intros HC Hn Hcl [->|[[c [Hc Hx]]|[s [Hs Hx]]]]; [exact Hn| |];
    pose proof HC as [_ [_ [_ [_ No]]]].
  - assert (Hcd : In c D) by (apply (No n c Hn (fun H => H) Hcl); left; exact Hc).
    apply (closed_O_comp g D c x HC Hcd); [|exact Hx]. apply first_neighbor_In in Hc. tauto.
  - assert (Hsd : In s D) by (apply (No n s Hn (fun H => H) Hcl); right; exact Hs).
    apply (closed_O_ns g D s x HC Hsd); [|exact Hx]. apply first_neighbor_In in Hs. tauto.
Qed.

Lemma closed_O_cp g D i x : Closed g D -> In i D -> O_cp g i true x -> In x D.
Proof. intros [_ [K _]] Hi [->|[_ Hx]]; [exact Hi | apply (K i x Hi Hx)]. Qed.

(* C02, graph route, part 2: what the readers see in graph_of t - every sliver's node, and as
   neighbours of a sliver exactly its kids of the requested class, in order. *)
From Coq Require Import List String NArith Bool.
From FIM Require Import Base.Str Model.Sliver2Kinds Gen.PropMap Model.Sliver2Map Model.Sliver2WF
  Model.Sliver2Deep Model.Sliver2DeepWF Model.Sliver2Graph Model.Sliver2GraphWF
  Proofs.Sliver2Assoc Proofs.Sliver2MapRT Proofs.Sliver2Elem Proofs.Sliver2DeepRT Proofs.Sliver2GraphW.
Import ListNotations.

Local Opaque enums type_enum to_base from_base to_specific from_specific setters getters init_attrs
  sliver_property_to_graph no_unset_properties child_keys node_id_prop add_interface_descends all_tables_ok.

Lemma id_inj (l : list tree) u v :
  NoDup (map id_of l) -> In u l -> In v l -> id_of u = id_of v -> u = v.
Proof.
  induction l as [|x l IH]; simpl; intros ND Hu Hv E; [contradiction|].
  inversion ND as [|? ? NI ND']; subst.
  destruct Hu as [Hu|Hu]; destruct Hv as [Hv|Hv]; subst.
  - reflexivity.
  - exfalso. apply NI. rewrite E. apply in_map. exact Hv.
  - exfalso. apply NI. rewrite <- E. apply in_map. exact Hu.
  - apply IH; assumption.
Qed.

Lemma filter_none {A} (f : A -> bool) l : (forall x, In x l -> f x = false) -> filter f l = [].
Proof.
  induction l as [|x l IH]; simpl; intro H; [reflexivity|].
  rewrite (H x (or_introl eq_refl)). apply IH. intros y Hy. apply H. right. exact Hy.
Qed.

Lemma existsb_id_false x ids : ~ In x ids -> existsb (str_eqb x) ids = false.
Proof.
  induction ids as [|y ids IH]; simpl; intro H; [reflexivity|].
  rewrite str_eqb_neq by (intro E; apply H; left; symmetry; exact E). simpl.
  apply IH. intro Hc. apply H. right. exact Hc.
Qed.

Lemma existsb_id_true x ids : In x ids -> existsb (str_eqb x) ids = true.
Proof.
  intro H. apply existsb_exists. exists x. split; [exact H | apply str_eqb_refl].
Qed.

Definition iskid (u v : tree) : bool := existsb (str_eqb (id_of v)) (map id_of (kids u)).

Definition forest (l : list tree) : list tree := flat_map subtrees l.

Lemma forest_cons c l : forest (c :: l) = subtrees c ++ forest l.
Proof. reflexivity. Qed.

Lemma forest_app l1 l2 : forest (l1 ++ l2) = forest l1 ++ forest l2.
Proof. unfold forest. apply flat_map_app. Qed.

Lemma in_forest_head c l : In c l -> In c (forest l).
Proof. intro H. apply in_flat_map. exists c. split; [exact H|]. rewrite subtrees_eq. left. reflexivity. Qed.

(* among the slivers of a forest, those whose id is the id of a root are the roots, in order *)
Lemma forest_filter (P : tree -> bool) : forall l,
  NoDup (map id_of (forest l)) ->
  filter (fun v => existsb (str_eqb (id_of v)) (map id_of l) && P v) (forest l) = filter P l.
Proof.
  induction l as [|c l IH]; intro ND; [reflexivity|].
  rewrite forest_cons in *. rewrite map_app in ND. rewrite (subtrees_eq c) in *. simpl in ND.
  rewrite filter_app. cbn [filter app map existsb]. rewrite str_eqb_refl. cbn [orb andb].
  assert (NDtail : NoDup (map id_of (forest l))).
  { inversion ND as [|? ? _ ND']; subst. apply (NoDup_app_right _ _ ND'). }
  assert (Hdesc : filter (fun v => (str_eqb (id_of v) (id_of c) || existsb (str_eqb (id_of v)) (map id_of l)) && P v)
                         (flat_map subtrees (kids c)) = []).
  { apply filter_none. intros d Hd.
    assert (H1 : str_eqb (id_of d) (id_of c) = false).
    { apply str_eqb_neq. intro E. inversion ND as [|? ? NI _]; subst. apply NI. rewrite <- E.
      apply in_or_app. left. apply in_map. exact Hd. }
    assert (H2 : existsb (str_eqb (id_of d)) (map id_of l) = false).
    { apply existsb_id_false. intro Hc. apply in_map_iff in Hc as [k [Ek Hk]].
      inversion ND as [|? ? _ ND']; subst.
      apply (NoDup_app_disj _ _ (id_of d) ND'); [apply in_map; exact Hd|].
      rewrite <- Ek. apply in_map. apply in_forest_head. exact Hk. }
    rewrite H1, H2. reflexivity. }
  assert (Htail : filter (fun v => (str_eqb (id_of v) (id_of c) || existsb (str_eqb (id_of v)) (map id_of l)) && P v)
                         (forest l) = filter P l).
  { rewrite <- (IH NDtail). apply filter_ext_in. intros v Hv.
    assert (H1 : str_eqb (id_of v) (id_of c) = false).
    { apply str_eqb_neq. intro E. inversion ND as [|? ? NI _]; subst. apply NI. rewrite <- E.
      apply in_or_app. right. apply in_map. exact Hv. }
    rewrite H1. reflexivity. }
  rewrite Hdesc, Htail. destruct (P c); reflexivity.
Qed.

Lemma subtrees_forest t : subtrees t = t :: forest (kids t).
Proof. apply subtrees_eq. Qed.

Lemma kid_ids_in u c : In u (subtrees c) -> forall x, In x (map id_of (kids u)) -> In x (map id_of (subtrees c)).
Proof.
  intros Hu x Hx. apply in_map_iff in Hx as [k [E Hk]]. subst x. apply in_map.
  apply (subtrees_trans c u k Hu). apply in_kids_subtrees. exact Hk.
Qed.

Lemma kid_ids_strict c : forall x, In x (map id_of (kids c)) -> In x (map id_of (forest (kids c))).
Proof.
  intros x Hx. apply in_map_iff in Hx as [k [E Hk]]. subst x. apply in_map. apply in_forest_head. exact Hk.
Qed.

(* kids of a strict descendant lie strictly below the root *)
Lemma kid_ids_below t u : In u (forest (kids t)) ->
  forall x, In x (map id_of (kids u)) -> In x (map id_of (forest (kids t))).
Proof.
  intros Hu x Hx. unfold forest in Hu. apply in_flat_map in Hu as [c [Hc Hu]].
  apply (kid_ids_in u c Hu) in Hx. apply in_map_iff in Hx as [v [E Hv]]. subst x. apply in_map.
  apply in_flat_map. exists c. split; assumption.
Qed.

(* among all slivers of the tree, those whose id is the id of a kid of u are the kids of u, in order *)
Lemma filter_children (P : tree -> bool) : forall t,
  NoDup (map id_of (subtrees t)) -> forall u, In u (subtrees t) ->
  filter (fun v => iskid u v && P v) (subtrees t) = filter P (kids u).
Proof.
  apply (kids_ind (fun t => NoDup (map id_of (subtrees t)) -> forall u, In u (subtrees t) ->
           filter (fun v => iskid u v && P v) (subtrees t) = filter P (kids u))).
  intros t IH ND u Hu. rewrite subtrees_forest in *. simpl in ND.
  inversion ND as [|? ? NI ND']; subst.
  destruct Hu as [E|Hu].
  - subst u. cbn [filter]. unfold iskid at 1.
    rewrite existsb_id_false by (intro Hc; apply NI; apply kid_ids_strict; exact Hc).
    cbn [andb]. unfold iskid. apply forest_filter. exact ND'.
  - cbn [filter]. unfold iskid at 1.
    rewrite existsb_id_false by (intro Hc; apply NI; apply (kid_ids_below t u Hu); exact Hc).
    cbn [andb].
    assert (Hu' := Hu). unfold forest in Hu'. apply in_flat_map in Hu' as [c [Hc Huc]].
    destruct (in_split c (kids t) Hc) as [l1 [l2 El]].
    rewrite El in ND' |- *. rewrite forest_app, forest_cons in ND' |- *. rewrite !map_app in ND'.
    rewrite !filter_app.
    assert (NDc : NoDup (map id_of (subtrees c))).
    { apply NoDup_app_right in ND'. apply NoDup_app_left in ND'. exact ND'. }
    assert (H1 : filter (fun v => iskid u v && P v) (forest l1) = []).
    { apply filter_none. intros v Hv. unfold iskid. rewrite existsb_id_false; [reflexivity|].
      intro Hk. apply (kid_ids_in u c Huc) in Hk.
      apply (NoDup_app_disj _ _ (id_of v) ND'); [apply in_map; exact Hv | apply in_or_app; left; exact Hk]. }
    assert (H2 : filter (fun v => iskid u v && P v) (forest l2) = []).
    { apply filter_none. intros v Hv. unfold iskid. rewrite existsb_id_false; [reflexivity|].
      intro Hk. apply (kid_ids_in u c Huc) in Hk. apply NoDup_app_right in ND'.
      apply (NoDup_app_disj _ _ (id_of v) ND'); [exact Hk | apply in_map; exact Hv]. }
    rewrite H1, H2. rewrite app_nil_r. cbn [app].
    apply (IH c Hc NDc u Huc).
Qed.

(* ---------- edges ---------- *)
Lemma in_edges_of : forall t e, In e (edges_of t) <->
  exists p c, In p (subtrees t) /\ In c (kids p) /\ e = link_to p c.
Proof.
  apply (kids_ind (fun t => forall e, In e (edges_of t) <->
           exists p c, In p (subtrees t) /\ In c (kids p) /\ e = link_to p c)).
  intros t IH e. rewrite edges_of_eq. split.
  - intro H. apply in_flat_map in H as [c [Hc H]]. destruct H as [E|H].
    + exists t, c. split; [rewrite subtrees_eq; left; reflexivity|]. split; [exact Hc | symmetry; exact E].
    + apply (IH c Hc) in H as [p [c' [Hp [Hc' E]]]]. exists p, c'. split; [|split; assumption].
      apply (subtrees_trans t c p); [apply in_kids_subtrees; exact Hc | exact Hp].
  - intros [p [c [Hp [Hc E]]]]. rewrite subtrees_eq in Hp. destruct Hp as [Ep|Hp].
    + subst p. apply in_flat_map. exists c. split; [exact Hc | left; symmetry; exact E].
    + apply in_flat_map in Hp as [k [Hk Hp]]. apply in_flat_map. exists k. split; [exact Hk|].
      right. apply (IH k Hk). exists p, c. auto.
Qed.

Section Reading.
  Variable t : tree.
  Hypothesis ND : NoDup (map id_of (subtrees t)).
  Let G := graph_of t.

  Lemma gids_G : gids G = map id_of (subtrees t).
  Proof. unfold G, graph_of, gids. simpl. apply ids_rec. Qed.

  Lemma find_in_G u : In u (subtrees t) -> find_node G (id_of u) = Some (rec_of u).
  Proof.
    intro Hu. change (id_of u) with (g_id (rec_of u)). apply find_node_in.
    - rewrite gids_G. exact ND.
    - unfold G, graph_of. simpl. apply in_map. exact Hu.
  Qed.

  Lemma adjacent_iff u v rel : In u (subtrees t) -> In v (subtrees t) ->
    adjacent_via G (id_of u) rel (id_of v) = true <->
    (In v (kids u) /\ relk (t_kind v) = rel) \/ (In u (kids v) /\ relk (t_kind u) = rel).
  Proof.
    intros Hu Hv. unfold adjacent_via. rewrite existsb_exists. split.
    - intros [[[x r] y] [He Hc]]. unfold G, graph_of in He. simpl in He.
      apply in_edges_of in He as [p [c [Hp [Hc' E]]]]. unfold link_to in E. inversion E; subst x r y.
      assert (Hcs : In c (subtrees t)) by (apply (subtrees_trans t p c Hp); apply in_kids_subtrees; exact Hc').
      apply andb_true_iff in Hc as [Hr Hxy]. apply String.eqb_eq in Hr.
      apply orb_true_iff in Hxy as [Hxy|Hxy]; apply andb_true_iff in Hxy as [H1 H2];
        apply str_eqb_eq in H1; apply str_eqb_eq in H2.
      + left. rewrite (id_inj _ p u ND Hp Hu H1) in *. rewrite (id_inj _ c v ND Hcs Hv H2) in *. auto.
      + right. rewrite (id_inj _ c u ND Hcs Hu H1) in *. rewrite (id_inj _ p v ND Hp Hv H2) in *. auto.
    - intros [[Hk Hr]|[Hk Hr]].
      + exists (link_to u v). split.
        * unfold G, graph_of. simpl. apply in_edges_of. exists u, v. auto.
        * unfold link_to. rewrite Hr, String.eqb_refl, !str_eqb_refl. reflexivity.
      + exists (link_to v u). split.
        * unfold G, graph_of. simpl. apply in_edges_of. exists v, u. auto.
        * unfold link_to. rewrite Hr, String.eqb_refl, !str_eqb_refl. simpl. apply orb_true_r.
  Qed.

  Lemma filter_map_comm {A B} (f : B -> bool) (h : A -> B) l : filter f (map h l) = map h (filter (fun x => f (h x)) l).
  Proof. induction l as [|x l IH]; simpl; [reflexivity|]. destruct (f (h x)); simpl; rewrite IH; reflexivity. Qed.

  (* the neighbours of u of class L via rel are its kids of that class, provided its parent is not one *)
  Lemma neighbours u rel L : In u (subtrees t) ->
    (forall v, In v (subtrees t) -> In u (kids v) -> relk (t_kind u) = rel -> class_label (t_kind v) <> L) ->
    get_first_neighbor G (id_of u) rel L =
    Ok (map id_of (filter (fun c => String.eqb (class_label (t_kind c)) L && String.eqb (relk (t_kind c)) rel) (kids u))).
  Proof.
    intros Hu Hpar. unfold get_first_neighbor. rewrite (find_in_G u Hu).
    change (g_nodes G) with (map rec_of (subtrees t)). rewrite filter_map_comm. rewrite map_map.
    change (fun x => g_id (rec_of x)) with id_of. f_equal. f_equal.
    rewrite <- (filter_children _ t ND u Hu).
    apply filter_ext_in. intros v Hv. cbn [g_label g_id rec_of].
    destruct (String.eqb (class_label (t_kind v)) L) eqn:EL.
    - change (graph_of t) with G. destruct (adjacent_via G (id_of u) rel (id_of v)) eqn:EA.
      + apply (adjacent_iff u v rel Hu Hv) in EA. destruct EA as [[Hk Hr]|[Hk Hr]].
        * unfold iskid. rewrite existsb_id_true by (apply in_map; exact Hk).
          rewrite Hr, String.eqb_refl. reflexivity.
        * exfalso. apply String.eqb_eq in EL. apply (Hpar v Hv Hk Hr EL).
      + cbn [andb]. symmetry. apply andb_false_iff.
        destruct (iskid u v) eqn:EK; [right|left; reflexivity].
        destruct (String.eqb (relk (t_kind v)) rel) eqn:ER; [|reflexivity].
        exfalso. apply String.eqb_eq in ER. unfold iskid in EK. apply existsb_exists in EK as [x [Hx Ex]].
        apply str_eqb_eq in Ex. apply in_map_iff in Hx as [k [Ek Hk]].
        assert (Hks : In k (subtrees t)) by (apply (subtrees_trans t u k Hu); apply in_kids_subtrees; exact Hk).
        assert (k = v) by (apply (id_inj _ k v ND Hks Hv); congruence). subst k.
        assert (adjacent_via G (id_of u) rel (id_of v) = true)
          by (apply (adjacent_iff u v rel Hu Hv); left; auto).
        congruence.
    - cbn [andb]. rewrite andb_false_r. reflexivity.
  Qed.
End Reading.

(* ---------- the same facts when the tree is written into a graph that already has content ---------- *)
Lemma find_node_app_old g N E x : In x (gids g) -> find_node (gapp g N E) x = find_node g x.
Proof.
  intro Hx. unfold find_node, gapp. cbn [g_nodes]. unfold gids in Hx.
  induction (g_nodes g) as [|n l IH]; simpl in *; [contradiction|].
  destruct (str_eqb (g_id n) x) eqn:E0; [reflexivity|].
  apply IH. destruct Hx as [Hx|Hx]; [|exact Hx]. subst. rewrite str_eqb_refl in E0. discriminate E0.
Qed.

Section Grown.
  Variables (g0 : graph) (parent : option tree) (t : tree).
  Hypothesis Hg0 : good g0.
  Hypothesis NDall : NoDup (gids g0 ++ map id_of (subtrees t)).
  Hypothesis Hpar : forall pt, parent = Some pt -> In (id_of pt) (gids g0).
  Let G' := grown g0 parent t.

  Lemma NDt : NoDup (map id_of (subtrees t)).
  Proof. apply (NoDup_app_right _ _ NDall). Qed.

  Lemma new_not_old x : In x (map id_of (subtrees t)) -> ~ In x (gids g0).
  Proof. intros Hn Ho. exact (NoDup_app_disj _ _ x NDall Ho Hn). Qed.

  Lemma find_in_grown u : In u (subtrees t) -> find_node G' (id_of u) = Some (rec_of u).
  Proof.
    intro Hu. change (id_of u) with (g_id (rec_of u)). apply find_node_in.
    - unfold G'. rewrite gids_grown. exact NDall.
    - unfold G', grown, gapp. cbn [g_nodes]. apply in_or_app. right. apply in_map. exact Hu.
  Qed.

  Definition edge_hits (x : str) (rel : string) (y : str) (e : gedge) : bool :=
    let '(a, r, b) := e in
    String.eqb r rel && ((str_eqb a x && str_eqb b y) || (str_eqb b x && str_eqb a y)).

  Lemma adjacent_is_existsb g x rel y : adjacent_via g x rel y = existsb (edge_hits x rel y) (g_edges g).
  Proof. unfold adjacent_via, edge_hits. reflexivity. Qed.

  Lemma old_edges_miss x rel y : ~ In x (gids g0) -> existsb (edge_hits x rel y) (g_edges g0) = false.
  Proof.
    intro Hx. destruct Hg0 as [_ EC].
    destruct (existsb (edge_hits x rel y) (g_edges g0)) eqn:E; [|reflexivity].
    apply existsb_exists in E as [[[a r] b] [He Hh]]. destruct (EC a r b He) as [Ha Hb].
    unfold edge_hits in Hh. apply andb_true_iff in Hh as [_ Hh]. apply orb_true_iff in Hh as [Hh|Hh];
      apply andb_true_iff in Hh as [H1 _]; apply str_eqb_eq in H1; subst; contradiction.
  Qed.

  Lemma old_edges_miss_r x rel y : ~ In y (gids g0) -> existsb (edge_hits x rel y) (g_edges g0) = false.
  Proof.
    intro Hy. destruct Hg0 as [_ EC].
    destruct (existsb (edge_hits x rel y) (g_edges g0)) eqn:E; [|reflexivity].
    apply existsb_exists in E as [[[a r] b] [He Hh]]. destruct (EC a r b He) as [Ha Hb].
    unfold edge_hits in Hh. apply andb_true_iff in Hh as [_ Hh]. apply orb_true_iff in Hh as [Hh|Hh];
      apply andb_true_iff in Hh as [_ H2]; apply str_eqb_eq in H2; subst; contradiction.
  Qed.

  Lemma tree_edges_miss x rel y : ~ In x (map id_of (subtrees t)) -> existsb (edge_hits x rel y) (edges_of t) = false.
  Proof.
    intro Hx. destruct (existsb (edge_hits x rel y) (edges_of t)) eqn:E; [|reflexivity].
    apply existsb_exists in E as [[[a r] b] [He Hh]]. destruct (edges_of_ids t a r b He) as [Ha Hb].
    unfold edge_hits in Hh. apply andb_true_iff in Hh as [_ Hh]. apply orb_true_iff in Hh as [Hh|Hh];
      apply andb_true_iff in Hh as [H1 _]; apply str_eqb_eq in H1; subst; contradiction.
  Qed.

  Lemma tree_edges_miss_r x rel y : ~ In y (map id_of (subtrees t)) -> existsb (edge_hits x rel y) (edges_of t) = false.
  Proof.
    intro Hy. destruct (existsb (edge_hits x rel y) (edges_of t)) eqn:E; [|reflexivity].
    apply existsb_exists in E as [[[a r] b] [He Hh]]. destruct (edges_of_ids t a r b He) as [Ha Hb].
    unfold edge_hits in Hh. apply andb_true_iff in Hh as [_ Hh]. apply orb_true_iff in Hh as [Hh|Hh];
      apply andb_true_iff in Hh as [_ H2]; apply str_eqb_eq in H2; subst; contradiction.
  Qed.

  Lemma adjacent_grown x rel y :
    adjacent_via G' x rel y =
    existsb (edge_hits x rel y) (g_edges g0) || existsb (edge_hits x rel y) (plink parent t)
    || existsb (edge_hits x rel y) (edges_of t).
  Proof.
    rewrite adjacent_is_existsb. unfold G', grown, gapp. cbn [g_edges]. rewrite !existsb_app. apply orb_assoc.
  Qed.

  (* inside the new tree, adjacency is that of the tree alone *)
  Lemma adjacent_inside u v rel : In u (subtrees t) -> In v (subtrees t) ->
    adjacent_via G' (id_of u) rel (id_of v) = adjacent_via (graph_of t) (id_of u) rel (id_of v).
  Proof.
    intros Hu Hv. rewrite adjacent_grown.
    rewrite old_edges_miss by (apply new_not_old; apply in_map; exact Hu).
    assert (Hpl : existsb (edge_hits (id_of u) rel (id_of v)) (plink parent t) = false).
    { destruct parent as [pt|] eqn:Ep; [|reflexivity]. simpl. rewrite orb_false_r. unfold link_to.
      assert (Hold := Hpar pt eq_refl).
      destruct (String.eqb (relk (t_kind t)) rel); [|reflexivity]. simpl.
      rewrite (str_eqb_neq (id_of pt) (id_of u)) by (intro E; apply (new_not_old (id_of u)); [apply in_map; exact Hu | rewrite <- E; exact Hold]).
      rewrite (str_eqb_neq (id_of pt) (id_of v)) by (intro E; apply (new_not_old (id_of v)); [apply in_map; exact Hv | rewrite <- E; exact Hold]).
      rewrite andb_false_r. reflexivity. }
    rewrite Hpl. reflexivity.
  Qed.

  (* the neighbours of a sliver of the new tree: those it has in the tree alone, provided the node the
     tree hangs under is not of the requested class via the requested relation *)
  Lemma neighbours_grown u rel L : In u (subtrees t) ->
    (forall pt n, parent = Some pt -> find_node g0 (id_of pt) = Some n -> u = t ->
                  relk (t_kind t) = rel -> g_label n <> L) ->
    get_first_neighbor G' (id_of u) rel L = get_first_neighbor (graph_of t) (id_of u) rel L.
  Proof.
    intros Hu Hroot. unfold get_first_neighbor. rewrite (find_in_grown u Hu).
    rewrite (find_in_G t NDt u Hu). f_equal. f_equal.
    change (g_nodes G') with (g_nodes g0 ++ map rec_of (subtrees t)). rewrite filter_app.
    assert (Hold : filter (fun n => String.eqb (g_label n) L && adjacent_via G' (id_of u) rel (g_id n)) (g_nodes g0) = []).
    { apply filter_none. intros n Hn.
      destruct (String.eqb (g_label n) L) eqn:EL; [|reflexivity]. cbn [andb].
      assert (Hnold : In (g_id n) (gids g0)) by (apply in_map; exact Hn).
      rewrite adjacent_grown.
      rewrite old_edges_miss by (apply new_not_old; apply in_map; exact Hu).
      rewrite tree_edges_miss_r by (intro Hc; exact (new_not_old _ Hc Hnold)).
      rewrite orb_false_r. cbn [orb].
      destruct parent as [pt|] eqn:Ep; [|reflexivity]. simpl. rewrite orb_false_r. unfold link_to.
      destruct (String.eqb (relk (t_kind t)) rel) eqn:Er; [|reflexivity]. cbn [andb].
      assert (Hpo := Hpar pt eq_refl).
      rewrite (str_eqb_neq (id_of pt) (id_of u)) by (intro E; apply (new_not_old (id_of u)); [apply in_map; exact Hu | rewrite <- E; exact Hpo]).
      cbn [andb orb].
      destruct (str_eqb (id_of t) (id_of u)) eqn:Etu; [|reflexivity]. cbn [andb].
      destruct (str_eqb (id_of pt) (g_id n)) eqn:Epn; [|reflexivity].
      exfalso. apply str_eqb_eq in Etu. apply str_eqb_eq in Epn. apply String.eqb_eq in Er. apply String.eqb_eq in EL.
      assert (Hroot_t : In t (subtrees t)) by (rewrite subtrees_eq; left; reflexivity).
      assert (Eu : u = t) by (apply (id_inj _ u t NDt Hu Hroot_t); symmetry; exact Etu).
      assert (Hfn : find_node g0 (id_of pt) = Some n).
      { rewrite Epn. apply find_node_in; [apply Hg0 | exact Hn]. }
      exact (Hroot pt n eq_refl Hfn Eu Er EL). }
    rewrite Hold. cbn [app].
    unfold graph_of. cbn [g_nodes].
    apply filter_ext_in. intros n Hn. apply in_map_iff in Hn as [v [E Hv]]. subst n.
    cbn [g_id rec_of g_label]. rewrite (adjacent_inside u v rel Hu Hv). reflexivity.
  Qed.

  (* FRAME: nothing that was in the graph changes, except that the node the tree hangs under gains the
     tree's root as a neighbour *)
  Lemma frame_find x : In x (gids g0) -> find_node G' x = find_node g0 x.
  Proof. intro Hx. unfold G', grown. apply find_node_app_old. exact Hx. Qed.

  Lemma frame_neighbours x rel L : In x (gids g0) ->
    (forall pt, parent = Some pt -> id_of pt <> x) ->
    get_first_neighbor G' x rel L = get_first_neighbor g0 x rel L.
  Proof.
    intros Hx Hnp. unfold get_first_neighbor. rewrite (frame_find x Hx).
    destruct (find_node g0 x) as [nx|]; [|reflexivity]. f_equal. f_equal.
    change (g_nodes G') with (g_nodes g0 ++ map rec_of (subtrees t)). rewrite filter_app.
    assert (Hxn : ~ In x (map id_of (subtrees t))) by (intro Hc; exact (new_not_old x Hc Hx)).
    assert (Hpl : forall y, existsb (edge_hits x rel y) (plink parent t) = false).
    { intro y. destruct parent as [pt|] eqn:Ep; [|reflexivity]. simpl. rewrite orb_false_r. unfold link_to.
      rewrite (str_eqb_neq (id_of pt) x) by (apply Hnp; reflexivity).
      rewrite (str_eqb_neq (id_of t) x) by (intro E; apply Hxn; rewrite <- E; rewrite subtrees_eq; left; reflexivity).
      rewrite !andb_false_l. rewrite andb_false_r. reflexivity. }
    assert (Hnew : filter (fun n => String.eqb (g_label n) L && adjacent_via G' x rel (g_id n)) (map rec_of (subtrees t)) = []).
    { apply filter_none. intros n Hn. apply in_map_iff in Hn as [v [E Hv]]. subst n. cbn [g_id rec_of g_label].
      rewrite adjacent_grown. rewrite old_edges_miss_r by (apply new_not_old; apply in_map; exact Hv).
      rewrite Hpl. rewrite tree_edges_miss by exact Hxn. rewrite andb_false_r. reflexivity. }
    rewrite Hnew. rewrite app_nil_r.
    apply filter_ext_in. intros n Hn. rewrite adjacent_grown. rewrite Hpl.
    rewrite tree_edges_miss by exact Hxn. rewrite !orb_false_r. rewrite <- adjacent_is_existsb. reflexivity.
  Qed.
End Grown.

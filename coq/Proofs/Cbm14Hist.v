(* C14 - unmerge preserves the invariant; every history satisfies it; rollback; families. *)
From Coq Require Import List NArith Bool Lia Permutation.
From FIM Require Import Model.Cbm14Spec Proofs.Cbm14Assoc Proofs.Cbm14Merge Proofs.Cbm14Unmerge Proofs.Cbm14Inv.
Import ListNotations.
Open Scope N_scope.

Lemma alive_exists (c : cnode) : alive c = true <-> exists g, In g (c_con c).
Proof.
  unfold alive. destruct (c_con c) as [|g r]; split; simpl; eauto; try discriminate. intros [g []].
Qed.

Lemma drop_d_some g d g' x : drop_d g d = Some (g', x) -> d = Some (g', x) /\ g' <> g.
Proof.
  destruct d as [[k y]|]; simpl; [|discriminate]. destruct (k =? g) eqn:E; [discriminate|].
  intro H; inversion H; subst. split; auto. intro; subst. rewrite N.eqb_refl in E. discriminate.
Qed.

Lemma in_filter_ids (Ms : list adm) g A :
  In A (filter (fun A => negb (adm_id A =? g)) Ms) <-> In A Ms /\ adm_id A <> g.
Proof.
  rewrite filter_In, negb_true_iff, N.eqb_neq. tauto.
Qed.

Lemma Inv_sunmerge Ms C g :
  Inv Ms C -> Inv (filter (fun A => negb (adm_id A =? g)) Ms) (sunmerge C g).
Proof.
  intros (ND & AL & DG & NDI & WF & CE & KB). pose proof ND as [ND1 ND2].
  assert (forall k, getn k (nodes (sunmerge C g)) =
                    match getn k (nodes C) with
                    | Some c => if alive (unm g c) then Some (unm g c) else None | None => None end) as GN.
  { intro k. apply sunmerge_get_node; auto. }
  unfold Inv. split; [|split; [|split; [|split; [|split; [|split]]]]].
  - apply sunmerge_nodup; auto.
  - intros k c'. rewrite GN. destruct (getn k (nodes C)) as [c|]; [|discriminate].
    destruct (alive (unm g c)) eqn:E; [|discriminate]. intro X; inversion X; subst. exact E.
  - intros e He. unfold hase, has in He. fold (@gete edata) in He.
    rewrite sunmerge_get_edge in He; auto.
    destruct (gete e (edges C)); [|discriminate].
    destruct (hasn (fst e) (nodes (sunmerge C g))), (hasn (snd e) (nodes (sunmerge C g))); simpl in He; auto; discriminate.
  - clear - NDI. induction Ms as [|A Ms IH]; simpl in *; auto.
    inversion NDI; subst. destruct (negb (adm_id A =? g)); simpl; auto.
    constructor; auto. intro H. apply H1. apply in_map_iff in H as (B & E & HB).
    apply filter_In in HB as [HB _]. rewrite <- E. apply in_map. exact HB.
  - rewrite Forall_forall in *. intros A HA. apply WF. apply in_filter_ids in HA. tauto.
  - intro k. rewrite GN. specialize (CE k).
    destruct (getn k (nodes C)) as [c|] eqn:Hc.
    + assert (forall g', In g' (c_con (unm g c)) <->
                exists A, In A (filter (fun A => negb (adm_id A =? g)) Ms) /\ adm_id A = g' /\ hasn k (adm_nodes A) = true) as X.
      { intro g'. unfold unm; simpl. rewrite filter_In, negb_true_iff, N.eqb_neq, CE. split.
        - intros [(A & HA & E & Hk) NE]. exists A. rewrite in_filter_ids. subst. auto.
        - intros (A & HA & E & Hk). apply in_filter_ids in HA as [HA NE]. subst. split; eauto. }
      destruct (alive (unm g c)) eqn:E; auto.
      intros A HA. destruct (hasn k (adm_nodes A)) eqn:Hk; auto.
      assert (exists g', In g' (c_con (unm g c))) as Y by (exists (adm_id A); apply X; eauto).
      apply alive_exists in Y. congruence.
    + intros A HA. apply CE. apply in_filter_ids in HA. tauto.
  - intros k c' g' x. rewrite GN. destruct (getn k (nodes C)) as [c|] eqn:Hc; [|discriminate].
    destruct (alive (unm g c)); [|discriminate]. intro X; inversion X; subst; clear X.
    destruct (KB k c g' x Hc) as [K1 K2]. unfold unm; simpl. split; intro L; apply drop_d_some in L as [L NE].
    + destruct (K1 L) as (A & a & HA & E & R). exists A, a. rewrite in_filter_ids. subst. auto.
    + destruct (K2 L) as (A & a & HA & E & R). exists A, a. rewrite in_filter_ids. subst. auto.
Qed.

(* ---------- all histories ---------- *)
Definition op_wf (o : hop) : Prop := match o with HMerge A => wf_adm A | _ => True end.
Definition HInv (s : hstate) : Prop :=
  Inv (h_ms s) (h_cur s) /\ Forall (fun kv => Inv (snd (snd kv)) (fst (snd kv))) (h_snaps s).

Lemma mem_In g l : mem g l = true <-> In g l.
Proof.
  unfold mem. rewrite existsb_exists. split.
  - intros (x & H & E). apply N.eqb_eq in E. subst. exact H.
  - intro H. exists g. split; auto. apply N.eqb_refl.
Qed.

Lemma HInv_step s o : HInv s -> op_wf o -> HInv (hstep s o).
Proof.
  intros [I S] W. destruct o as [A|g|id|id]; simpl.
  - destruct (mem (adm_id A) (map adm_id (h_ms s))) eqn:M; [split; auto|].
    destruct (smerge (h_cur s) A) as [C|] eqn:E; [|split; auto].
    split; simpl; auto. eapply Inv_smerge; eauto.
    intro H. apply mem_In in H. congruence.
  - split; simpl; auto. apply Inv_sunmerge; auto.
  - destruct (hasn id (h_snaps s)); split; simpl; auto.
  - destruct (getn id (h_snaps s)) as [[C ms]|] eqn:E; [|split; auto].
    split; simpl.
    + apply (get_Some_In N.eqb Neq) in E. rewrite Forall_forall in S. apply (S _ E).
    + rewrite Forall_forall in *. intros kv H. apply filter_In in H as [H _]. auto.
Qed.

Lemma HInv_run ops : forall s, HInv s -> Forall op_wf ops -> HInv (hrun s ops).
Proof.
  induction ops as [|o ops IH]; intros s I W; simpl; auto.
  inversion W; subst. apply IH; auto. apply HInv_step; auto.
Qed.

Lemma HInv_init : HInv hinit.
Proof. split; simpl; [apply Inv_empty | constructor]. Qed.

Theorem hinv_all ops : Forall op_wf ops -> HInv (hrun hinit ops).
Proof. intro W. apply HInv_run; auto using HInv_init. Qed.

(* ---------- rollback ---------- *)
Definition touches (id : N) (o : hop) : bool :=
  match o with HSnap i => i =? id | HRollback i => i =? id | _ => false end.

Lemma snaps_frame id ops : forall s,
  forallb (fun o => negb (touches id o)) ops = true ->
  getn id (h_snaps (hrun s ops)) = getn id (h_snaps s).
Proof.
  induction ops as [|o ops IH]; intros s H; simpl in *; auto.
  apply andb_true_iff in H as [H1 H2]. rewrite IH; auto. clear IH H2.
  destruct o as [A|g|i|i]; simpl in *.
  - destruct (mem (adm_id A) (map adm_id (h_ms s))); auto. destruct (smerge (h_cur s) A); auto.
  - reflexivity.
  - destruct (hasn i (h_snaps s)); auto. simpl. unfold getn; simpl.
    rewrite N.eqb_sym. apply negb_true_iff in H1. rewrite H1. reflexivity.
  - destruct (getn i (h_snaps s)) as [[C ms]|]; auto. simpl.
    unfold getn. rewrite (get_filter_key N.eqb Neq (fun k => negb (k =? i))).
    rewrite N.eqb_sym. rewrite H1. reflexivity.
Qed.

Theorem rollback_restores s id ops :
  hasn id (h_snaps s) = false ->
  forallb (fun o => negb (touches id o)) ops = true ->
  let s' := hstep (hrun (hstep s (HSnap id)) ops) (HRollback id) in
  h_cur s' = h_cur s /\ h_ms s' = h_ms s.
Proof.
  intros F T. simpl. rewrite F. rewrite snaps_frame; auto. simpl.
  unfold getn; simpl. rewrite N.eqb_refl. simpl. auto.
Qed.

(* ---------- families: merge_all ---------- *)
Lemma Inv_merge_from As : forall Ms C D,
  Inv Ms C -> Forall wf_adm As -> NoDup (map adm_id (Ms ++ As)) -> merge_from C As = Some D ->
  Inv (Ms ++ As) D.
Proof.
  induction As as [|A As IH]; intros Ms C D I W ND H.
  - unfold merge_from in H; simpl in H. inversion H; subst. rewrite app_nil_r. exact I.
  - rewrite merge_from_cons in H. destruct (smerge C A) as [C1|] eqn:S; [|discriminate].
    inversion W; subst.
    replace (Ms ++ A :: As) with ((Ms ++ [A]) ++ As) in * by (rewrite <- app_assoc; reflexivity).
    eapply IH; eauto. eapply Inv_smerge; eauto.
    rewrite !map_app in ND. simpl in ND. rewrite <- app_assoc in ND. simpl in ND.
    apply NoDup_remove_2 in ND. rewrite in_app_iff in ND. tauto.
Qed.

Theorem family_inv As C :
  Forall wf_adm As -> NoDup (map adm_id As) -> merge_all As = Some C -> Inv As C.
Proof.
  intros W ND H. change As with ([] ++ As). eapply Inv_merge_from; eauto using Inv_empty.
Qed.

(* connections and plain data of a merged family (merging only) *)
Definition from_family (Ms : list adm) (C : cbm) : Prop :=
  (forall e, hase e (edges C) = true <-> exists A, In A Ms /\ hase e (adm_edges A) = true) /\
  (forall e d, gete e (edges C) = Some d -> exists A, In A Ms /\ gete e (adm_edges A) = Some d) /\
  (forall k c, getn k (nodes C) = Some c ->
       exists A a, In A Ms /\ getn k (adm_nodes A) = Some a /\ c_cls c = a_cls a /\ c_oth c = a_oth a).

Lemma hase_get {V} e (l : list (ekey * V)) : hase e l = true <-> exists v, gete e l = Some v.
Proof. apply (has_get ekey_eqb). Qed.

Lemma from_family_smerge Ms C A C' :
  from_family Ms C -> smerge C A = Some C' -> from_family (Ms ++ [A]) C'.
Proof.
  intros (F1 & F2 & F3) H. split; [|split].
  - intro e. rewrite hase_get. rewrite (smerge_get_edge _ _ _ e H). split.
    + intros [v Hv]. destruct (gete e (edges C)) as [d|] eqn:Ec.
      * assert (hase e (edges C) = true) as X by (apply hase_get; eauto).
        apply F1 in X as (B & HB & HE). exists B. rewrite in_app_iff. auto.
      * destruct (gete e (adm_edges A)) eqn:Ea; [|discriminate].
        exists A. rewrite in_app_iff. simpl. split; auto. apply hase_get; eauto.
    + intros (B & HB & HE). rewrite in_app_iff in HB. destruct HB as [HB|[HB|[]]].
      * assert (hase e (edges C) = true) as X by (apply F1; eauto).
        apply hase_get in X as [d ->]. eauto.
      * subst. apply hase_get in HE as [d ->]. destruct (gete e (edges C)) as [d'|]; eauto.
  - intros e d. rewrite (smerge_get_edge _ _ _ e H).
    destruct (gete e (edges C)) as [d'|] eqn:Ec.
    + intro X. inversion X; subst.
      destruct (F2 e d Ec) as (B & HB & HE). exists B. rewrite in_app_iff. auto.
    + destruct (gete e (adm_edges A)) eqn:Ea; [|discriminate]. intro X; inversion X; subst.
      exists A. rewrite in_app_iff. simpl. auto.
  - intros k c. rewrite (smerge_get_node _ _ _ k H).
    destruct (getn k (nodes C)) as [c0|] eqn:Hc.
    + intro X. destruct (F3 k c0 Hc) as (B & b & HB & Hb & E1 & E2).
      exists B, b. rewrite in_app_iff.
      destruct (getn k (adm_nodes A)); inversion X; subst; simpl; auto.
    + destruct (getn k (adm_nodes A)) as [a|] eqn:Ha; [|discriminate]. intro X; inversion X; subst.
      exists A, a. rewrite in_app_iff. simpl. auto.
Qed.

Lemma from_family_merge_from As : forall Ms C D,
  from_family Ms C -> merge_from C As = Some D -> from_family (Ms ++ As) D.
Proof.
  induction As as [|A As IH]; intros Ms C D F H.
  - unfold merge_from in H; simpl in H. inversion H; subst. rewrite app_nil_r. exact F.
  - rewrite merge_from_cons in H. destruct (smerge C A) as [C1|] eqn:S; [|discriminate].
    replace (Ms ++ A :: As) with ((Ms ++ [A]) ++ As) by (rewrite <- app_assoc; reflexivity).
    eapply IH; eauto using from_family_smerge.
Qed.

Theorem family_union As C : merge_all As = Some C -> from_family As C.
Proof.
  intro H. change As with ([] ++ As). eapply from_family_merge_from; eauto.
  split; [|split]; simpl.
  - intro e. split; [discriminate | intros (A & [] & _)].
  - discriminate.
  - discriminate.
Qed.

(* ---------- a consistent family is never refused ---------- *)
Definition one_speaker (A B : adm) : Prop :=
  forall k a b, getn k (adm_nodes A) = Some a -> getn k (adm_nodes B) = Some b ->
    is_some (a_ld a) && is_some (a_ld b) = false /\ is_some (a_cd a) && is_some (a_cd b) = false.
Definition consistent (As : list adm) : Prop :=
  pairwise_compatible As /\
  (forall A B, In A As -> In B As -> adm_id A <> adm_id B -> one_speaker A B).

Lemma no_conflict Ms C A :
  Inv Ms C -> wf_adm A -> (forall B, In B Ms -> one_speaker B A) -> conflict C A = false.
Proof.
  intros I WA OS. apply conflict_false; auto. intros k a c Ha Hc.
  destruct I as (_ & _ & _ & _ & _ & _ & KB).
  unfold clash. apply orb_false_iff. split.
  - destruct (c_ld c) as [[g x]|] eqn:L; auto. simpl.
    destruct (KB k c g x Hc) as [K1 _]. destruct (K1 L) as (B & b & HB & _ & Hb & Lb).
    destruct (OS B HB k b a Hb Ha) as [X _]. rewrite Lb in X. simpl in X. exact X.
  - destruct (c_cd c) as [[g x]|] eqn:L; auto. simpl.
    destruct (KB k c g x Hc) as [_ K2]. destruct (K2 L) as (B & b & HB & _ & Hb & Lb).
    destruct (OS B HB k b a Hb Ha) as [_ X]. rewrite Lb in X. simpl in X. exact X.
Qed.

Lemma total_from As : forall Ms C,
  Inv Ms C -> Forall wf_adm As -> NoDup (map adm_id (Ms ++ As)) ->
  (forall A B, In A (Ms ++ As) -> In B (Ms ++ As) -> adm_id A <> adm_id B -> one_speaker A B) ->
  exists D, merge_from C As = Some D.
Proof.
  induction As as [|A As IH]; intros Ms C I W ND OS.
  - exists C. reflexivity.
  - inversion W; subst. rewrite merge_from_cons.
    assert (~ In (adm_id A) (map adm_id Ms)) as NI.
    { rewrite !map_app in ND. simpl in ND. apply NoDup_remove_2 in ND. rewrite in_app_iff in ND. tauto. }
    assert (conflict C A = false) as CF.
    { eapply no_conflict; eauto. intros B HB.
      apply OS; [rewrite in_app_iff; auto | rewrite in_app_iff; simpl; auto | ].
      intro E. apply NI. rewrite <- E. apply in_map. exact HB. }
    destruct (smerge_defined _ _ CF) as [C1 S]. rewrite S.
    replace (Ms ++ A :: As) with ((Ms ++ [A]) ++ As) in * by (rewrite <- app_assoc; reflexivity).
    eapply IH; eauto. eapply Inv_smerge; eauto.
Qed.

Theorem family_total As : Forall wf_adm As -> consistent As -> exists C, merge_all As = Some C.
Proof.
  intros W [[ND _] OS]. apply (total_from As [] empty); auto using Inv_empty.
Qed.

(* the refusal itself: two models speaking for the same resource *)
Theorem double_speaker_rejected C A k c a :
  getn k (nodes C) = Some c -> In (k, a) (adm_nodes A) -> clash c a = true -> smerge C A = None.
Proof.
  intros Hc Ha X. unfold smerge.
  assert (conflict C A = true) as ->; auto.
  unfold conflict. apply existsb_exists. exists (k, a). simpl. rewrite Hc. auto.
Qed.

(* C11: completeness, nothing spurious, accumulation and storage-order independence of the authorization
   attributes, derived from the closed forms of Proofs/Collect11Attrs.v. *)
From Coq Require Import List ZArith NArith Bool String Permutation Lia.
From FIM Require Import Base.Str Gen.CollectGen Model.Collect11 Model.Collect11Spec Proofs.Collect11Tables Proofs.Collect11Attrs.
Import ListNotations.

(* ------------------------------------------------------------------ selecting one key of `required` *)
Definition sel (k : N) (ps : list (N * aval)) : list aval := map snd (filter (fun p => N.eqb (fst p) k) ps).

Lemma sel_app k a b : sel k (a ++ b) = sel k a ++ sel k b.
Proof. unfold sel. rewrite filter_app, map_app. reflexivity. Qed.

Lemma sel_tag k k' l : sel k (tag k' l) = if N.eqb k' k then l else [].
Proof.
  unfold sel, tag. induction l as [|v r IH]; simpl; [destruct (N.eqb k' k); reflexivity|].
  destruct (N.eqb k' k) eqn:E; simpl; rewrite IH; reflexivity.
Qed.

Lemma sel_flat_map {A} k (g : A -> list (N * aval)) l : sel k (flat_map g l) = flat_map (fun x => sel k (g x)) l.
Proof. induction l as [|x r IH]; simpl; [reflexivity|]. rewrite sel_app, IH. reflexivity. Qed.

Lemma flat_map_nil {A B} (g : A -> list B) l : (forall x, g x = []) -> flat_map g l = [].
Proof. intro H. induction l as [|x r IH]; simpl; [reflexivity|]. rewrite H, IH. reflexivity. Qed.

Lemma flat_map_ext' {A B} (g h : A -> list B) l : (forall x, g x = h x) -> flat_map g l = flat_map h l.
Proof. intro H. induction l as [|x r IH]; simpl; [reflexivity|]. rewrite H, IH. reflexivity. Qed.

Lemma sel_In k v ps : In v (sel k ps) <-> In (k, v) ps.
Proof.
  unfold sel. rewrite in_map_iff. split.
  - intros [[k0 v0] [H1 H2]]. simpl in H1. subst v0. apply filter_In in H2 as [H2 H3]. simpl in H3.
    apply N.eqb_eq in H3. subst. exact H2.
  - intro H. exists (k, v). split; [reflexivity|]. apply filter_In. split; [exact H | simpl; apply N.eqb_refl].
Qed.

Lemma required_of_sel k s : required_of k s = sel k (required s).
Proof. reflexivity. Qed.

Lemma required_of_split k s :
  required_of k s = flat_map (fun n => sel k (required_node n)) (sl_nodes s)
                    ++ flat_map (fun v => sel k (required_svc (sl_ports s) v)) (sl_svcs s)
                    ++ (if N.eqb A_RESOURCE_FACILITY_PORT k then map AS (sl_facs s) else []).
Proof.
  rewrite required_of_sel. unfold required. rewrite !sel_app, !sel_flat_map, sel_tag. reflexivity.
Qed.

Lemma sel_typed_base k ports v : memN k base_keys = true -> sel k (svc_typed_site ports v) = [].
Proof.
  intro H. unfold svc_typed_site.
  assert (E4 : N.eqb A_RESOURCE_FABNETV4_EXT k = false).
  { apply N.eqb_neq. intro; subst k. vm_compute in H. discriminate. }
  assert (E6 : N.eqb A_RESOURCE_FABNETV6_EXT k = false).
  { apply N.eqb_neq. intro; subst k. vm_compute in H. discriminate. }
  assert (Ep : N.eqb A_RESOURCE_MIRROR_SITE k = false).
  { apply N.eqb_neq. intro; subst k. vm_compute in H. discriminate. }
  destruct (N.eqb (s_type v) ST_FABNetv4Ext).
  { change [(A_RESOURCE_FABNETV4_EXT, AS (site_or_unknown v))] with (tag A_RESOURCE_FABNETV4_EXT [AS (site_or_unknown v)]).
    rewrite sel_tag, E4. reflexivity. }
  destruct (N.eqb (s_type v) ST_FABNetv6Ext).
  { change [(A_RESOURCE_FABNETV6_EXT, AS (site_or_unknown v))] with (tag A_RESOURCE_FABNETV6_EXT [AS (site_or_unknown v)]).
    rewrite sel_tag, E6. reflexivity. }
  destruct (N.eqb (s_type v) ST_PortMirror && mirror_outside ports v).
  { change [(A_RESOURCE_MIRROR_SITE, AS (site_or_unknown v))] with (tag A_RESOURCE_MIRROR_SITE [AS (site_or_unknown v)]).
    rewrite sel_tag, Ep. reflexivity. }
  reflexivity.
Qed.

Ltac selnode := intro n; unfold required_node; rewrite !sel_app, !sel_tag; keq; rewrite ?app_nil_r; reflexivity.
Ltac selsvc := intro v; unfold required_svc; rewrite !sel_app, !sel_tag, sel_typed_base by (vm_compute; reflexivity);
               keq; rewrite ?app_nil_r; reflexivity.

Lemma req_cpu s : required_of A_RESOURCE_CPU s = flat_map node_cpu (sl_nodes s).
Proof.
  rewrite required_of_split. keq.
  rewrite (flat_map_ext' _ node_cpu) by selnode.
  rewrite (flat_map_nil (fun v => sel A_RESOURCE_CPU (required_svc (sl_ports s) v))) by selsvc.
  rewrite !app_nil_r. reflexivity.
Qed.
Lemma req_ram s : required_of A_RESOURCE_RAM s = flat_map node_ram (sl_nodes s).
Proof.
  rewrite required_of_split. keq.
  rewrite (flat_map_ext' _ node_ram) by selnode.
  rewrite (flat_map_nil (fun v => sel A_RESOURCE_RAM (required_svc (sl_ports s) v))) by selsvc.
  rewrite !app_nil_r. reflexivity.
Qed.
Lemma req_disk s : required_of A_RESOURCE_DISK s = flat_map node_disk (sl_nodes s).
Proof.
  rewrite required_of_split. keq.
  rewrite (flat_map_ext' _ node_disk) by selnode.
  rewrite (flat_map_nil (fun v => sel A_RESOURCE_DISK (required_svc (sl_ports s) v))) by selsvc.
  rewrite !app_nil_r. reflexivity.
Qed.
Lemma req_comp s : required_of A_RESOURCE_COMPONENT s = flat_map node_comps (sl_nodes s).
Proof.
  rewrite required_of_split. keq.
  rewrite (flat_map_ext' _ node_comps) by selnode.
  rewrite (flat_map_nil (fun v => sel A_RESOURCE_COMPONENT (required_svc (sl_ports s) v))) by selsvc.
  rewrite !app_nil_r. reflexivity.
Qed.
Lemma req_bw s : required_of A_RESOURCE_BW s = flat_map svc_bw (sl_svcs s).
Proof.
  rewrite required_of_split. keq.
  rewrite (flat_map_nil (fun n => sel A_RESOURCE_BW (required_node n))) by selnode.
  rewrite (flat_map_ext' _ svc_bw) by selsvc.
  rewrite !app_nil_r. reflexivity.
Qed.
Lemma req_fac s : required_of A_RESOURCE_FACILITY_PORT s = map AS (sl_facs s).
Proof.
  rewrite required_of_split. keq.
  rewrite (flat_map_nil (fun n => sel A_RESOURCE_FACILITY_PORT (required_node n))) by selnode.
  rewrite (flat_map_nil (fun v => sel A_RESOURCE_FACILITY_PORT (required_svc (sl_ports s) v))) by selsvc.
  reflexivity.
Qed.
Lemma req_site s : required_of A_RESOURCE_SITE s = flat_map node_site (sl_nodes s) ++ flat_map svc_site (sl_svcs s).
Proof.
  rewrite required_of_split. keq.
  rewrite (flat_map_ext' _ node_site) by selnode.
  rewrite (flat_map_ext' _ svc_site) by selsvc.
  rewrite !app_nil_r. reflexivity.
Qed.

Lemma req_typed k s : In k [A_RESOURCE_FABNETV4_EXT; A_RESOURCE_FABNETV6_EXT; A_RESOURCE_MIRROR_SITE] ->
  required_of k s = flat_map (typed_of k (sl_ports s)) (sl_svcs s).
Proof.
  intro Hk. rewrite required_of_split.
  assert (Hn : forall n, sel k (required_node n) = []).
  { intro n. unfold required_node. rewrite !sel_app, !sel_tag.
    destruct Hk as [Hk|[Hk|[Hk|[]]]]; subst k; keq; reflexivity. }
  assert (Hs : forall v, sel k (required_svc (sl_ports s) v) = typed_of k (sl_ports s) v).
  { intro v. unfold required_svc. rewrite !sel_app, !sel_tag.
    destruct Hk as [Hk|[Hk|[Hk|[]]]]; subst k; keq; reflexivity. }
  rewrite (flat_map_nil _ _ Hn), (flat_map_ext' _ _ _ Hs).
  destruct Hk as [Hk|[Hk|[Hk|[]]]]; subst k; keq; rewrite app_nil_r; reflexivity.
Qed.

(* ------------------------------------------------------------------ master statements (any starting mapping) *)
Theorem multi_closed m s k : In k multi_keys -> getk k (topo_pure m s) = getk k m ++ required_of k s.
Proof.
  intro Hk. rewrite topo_getk. unfold multi_keys in Hk.
  destruct Hk as [Hk|[Hk|[Hk|[Hk|[Hk|[Hk|[]]]]]]]; subst k.
  - rewrite final_cpu, req_cpu. reflexivity.
  - rewrite final_ram, req_ram. reflexivity.
  - rewrite final_disk, req_disk. reflexivity.
  - rewrite final_bw, req_bw. reflexivity.
  - rewrite final_comp, req_comp. reflexivity.
  - rewrite final_fac, req_fac. reflexivity.
Qed.

Theorem set_closed m s k : In k set_keys -> getk k (topo_pure m s) = addus (required_of k s) (getk k m).
Proof.
  intro Hk. rewrite topo_getk. unfold set_keys in Hk.
  destruct Hk as [Hk|Hk].
  - subst k. rewrite final_site, req_site. reflexivity.
  - rewrite final_nonbase by (destruct Hk as [Hk|[Hk|[Hk|[]]]]; subst k; vm_compute; reflexivity).
    rewrite req_typed by exact Hk.
    rewrite (flat_map_ext' _ (typed_of k (sl_ports s))); [reflexivity|].
    intro v. apply typed_contrib_spec. exact Hk.
Qed.

Theorem type_closed m s : getk A_RESOURCE_TYPE (topo_pure m s) = if has_switch s then sw_val else getk A_RESOURCE_TYPE m.
Proof. rewrite topo_getk. apply final_type. Qed.

Definition collected_keys : list N := A_RESOURCE_TYPE :: multi_keys ++ set_keys.

Lemma typed_contrib_other k ports v :
  ~ In k [A_RESOURCE_FABNETV4_EXT; A_RESOURCE_FABNETV6_EXT; A_RESOURCE_MIRROR_SITE] -> typed_contrib k ports v = [].
Proof.
  intro Hk. unfold typed_contrib, is_special.
  destruct (memN (s_type v) special_types) eqn:Es; [|reflexivity].
  destruct lut_v4 as [L4 _], lut_v6 as [L6 _], lut_pm as [Lp _].
  apply special_only in Es as [Es|[Es|Es]]; rewrite Es.
  - rewrite L4. destruct (in_slice_mirror ports v); [reflexivity|].
    destruct (N.eqb k A_RESOURCE_FABNETV4_EXT) eqn:E; [|reflexivity]. apply N.eqb_eq in E. subst. simpl in Hk. tauto.
  - rewrite L6. destruct (in_slice_mirror ports v); [reflexivity|].
    destruct (N.eqb k A_RESOURCE_FABNETV6_EXT) eqn:E; [|reflexivity]. apply N.eqb_eq in E. subst. simpl in Hk. tauto.
  - rewrite Lp. destruct (in_slice_mirror ports v); [reflexivity|].
    destruct (N.eqb k A_RESOURCE_MIRROR_SITE) eqn:E; [|reflexivity]. apply N.eqb_eq in E. subst. simpl in Hk. tauto.
Qed.

Theorem other_closed m s k : ~ In k collected_keys -> getk k (topo_pure m s) = getk k m.
Proof.
  intro Hk. rewrite topo_getk.
  assert (Hb : memN k base_keys = false).
  { apply memN_false. intro H. apply Hk. unfold collected_keys, multi_keys, set_keys, base_keys in *. simpl in *. tauto. }
  rewrite final_nonbase by exact Hb.
  rewrite flat_map_nil; [reflexivity|].
  intro v. apply typed_contrib_other. intro H. apply Hk. unfold collected_keys, multi_keys, set_keys. simpl in *. tauto.
Qed.

(* ------------------------------------------------------------------ a single topology collected into a fresh collector *)
Definition collected (s : slice) : attrs := topo_pure init_attrs s.

Lemma collect_is s : collect_topo init_attrs s = Ok (collected s).
Proof. apply collect_topo_ok. Qed.

Lemma run_topo s : run [OTopo s] = Ok (collected s).
Proof. unfold run. simpl. apply collect_topo_ok. Qed.

Lemma init_get k : k <> A_RESOURCE_TYPE -> getk k init_attrs = [].
Proof. intro H. simpl. apply N.eqb_neq in H. rewrite H. reflexivity. Qed.

Theorem multi_exact s k : In k multi_keys -> getk k (collected s) = required_of k s.
Proof.
  intro Hk. unfold collected. rewrite multi_closed by exact Hk.
  rewrite init_get; [reflexivity|].
  unfold multi_keys in Hk. destruct Hk as [Hk|[Hk|[Hk|[Hk|[Hk|[Hk|[]]]]]]]; subst k; intro E; vm_compute in E; discriminate.
Qed.

Theorem set_exact s k : In k set_keys -> getk k (collected s) = addus (required_of k s) [].
Proof.
  intro Hk. unfold collected. rewrite set_closed by exact Hk.
  rewrite init_get; [reflexivity|].
  unfold set_keys in Hk. destruct Hk as [Hk|[Hk|[Hk|[Hk|[]]]]]; subst k; intro E; vm_compute in E; discriminate.
Qed.

Theorem type_exact s : getk A_RESOURCE_TYPE (collected s) = resource_type s.
Proof.
  unfold collected, resource_type. rewrite type_closed. destruct (has_switch s); reflexivity.
Qed.

Theorem other_empty s k : ~ In k collected_keys -> getk k (collected s) = [].
Proof.
  intro Hk. unfold collected. rewrite other_closed by exact Hk. apply init_get.
  intro; subst. apply Hk. left. reflexivity.
Qed.

Lemma required_keys s k v : In (k, v) (required s) -> In k (multi_keys ++ set_keys).
Proof.
  unfold required. rewrite !in_app_iff, !in_flat_map. unfold multi_keys, set_keys.
  intros [[n [_ H]]|[[x [_ H]]|H]].
  - unfold required_node, tag in H. rewrite !in_app_iff, !in_map_iff in H.
    destruct H as [[? [E _]]|[[? [E _]]|[[? [E _]]|[[? [E _]]|[? [E _]]]]]]; inversion E; subst; simpl; tauto.
  - unfold required_svc, tag in H. rewrite !in_app_iff, !in_map_iff in H.
    destruct H as [[? [E _]]|[[? [E _]]|H]]; try (inversion E; subst; simpl; tauto).
    unfold svc_typed_site in H.
    destruct (N.eqb (s_type x) ST_FABNetv4Ext); [destruct H as [E|[]]; inversion E; subst; simpl; tauto|].
    destruct (N.eqb (s_type x) ST_FABNetv6Ext); [destruct H as [E|[]]; inversion E; subst; simpl; tauto|].
    destruct (N.eqb (s_type x) ST_PortMirror && mirror_outside (sl_ports s) x); [destruct H as [E|[]]; inversion E; subst; simpl; tauto|].
    destruct H.
  - unfold tag in H. apply in_map_iff in H as [? [E _]]. inversion E; subst. simpl. tauto.
Qed.

Theorem complete s k v : In (k, v) (required s) -> In v (getk k (collected s)).
Proof.
  intro H. pose proof (required_keys _ _ _ H) as Hk. apply in_app_iff in Hk as [Hk|Hk].
  - rewrite multi_exact by exact Hk. rewrite required_of_sel. apply sel_In. exact H.
  - rewrite set_exact by exact Hk. apply addus_In. right. rewrite required_of_sel. apply sel_In. exact H.
Qed.

Theorem nothing_spurious s k v : In v (getk k (collected s)) -> k = A_RESOURCE_TYPE \/ In (k, v) (required s).
Proof.
  intro H.
  destruct (N.eq_dec k A_RESOURCE_TYPE) as [E|E]; [left; exact E | right].
  destruct (in_dec N.eq_dec k multi_keys) as [Hm|Hm].
  { rewrite multi_exact in H by exact Hm. rewrite required_of_sel in H. apply sel_In. exact H. }
  destruct (in_dec N.eq_dec k set_keys) as [Hs|Hs].
  { rewrite set_exact in H by exact Hs. apply addus_In in H as [[]|H]. rewrite required_of_sel in H. apply sel_In. exact H. }
  rewrite other_empty in H; [destruct H|].
  unfold collected_keys. intro H0. destruct H0 as [H1|H1]; [congruence|].
  apply in_app_iff in H1 as [H1|H1]; [exact (Hm H1) | exact (Hs H1)].
Qed.

Theorem listed_once s k : In k set_keys -> NoDup (getk k (collected s)).
Proof. intro Hk. rewrite set_exact by exact Hk. apply addus_NoDup. constructor. Qed.

Theorem no_empty_entry s k : In k (keys (collected s)) <-> getk k (collected s) <> [].
Proof.
  split; [|apply getk_nonempty_key].
  apply (topo_NE init_attrs s init_NE).
Qed.

(* ------------------------------------------------------------------ storage-order / reload independence *)
Lemma Permutation_filter' {A} (f : A -> bool) l l' : Permutation l l' -> Permutation (filter f l) (filter f l').
Proof.
  induction 1; simpl.
  - constructor.
  - destruct (f x); [constructor|]; assumption.
  - destruct (f x), (f y); try constructor; try apply Permutation_refl.
  - eapply Permutation_trans; eassumption.
Qed.

Lemma sel_perm k a b : Permutation a b -> Permutation (sel k a) (sel k b).
Proof. intro H. unfold sel. apply Permutation_map, Permutation_filter'. exact H. Qed.

Lemma flat_map_Forall2_perm {A B} (g : A -> list B) (R : A -> A -> Prop) :
  (forall x y, R x y -> Permutation (g x) (g y)) ->
  forall l l', Forall2 R l l' -> Permutation (flat_map g l) (flat_map g l').
Proof.
  intros H l l' F. induction F; simpl; [constructor|].
  apply Permutation_app; [apply H; assumption | assumption].
Qed.

Lemma required_node_eqv n n' : node_eqv n n' -> Permutation (required_node n) (required_node n').
Proof.
  intros (Hk & Hn & Hs & Hc & Ha & Hp). unfold required_node, node_site, node_cpu, node_ram, node_disk, node_comps, tag.
  rewrite Hs, Hc. repeat apply Permutation_app_head. apply Permutation_map, Permutation_map. exact Hp.
Qed.

Lemma required_svc_ports p p' v : same_ports p p' -> required_svc p v = required_svc p' v.
Proof.
  intro H. unfold required_svc, svc_typed_site, mirror_outside. rewrite (mem_port_same _ _ _ H). reflexivity.
Qed.

Theorem required_eqv s s' : slice_eqv s s' -> Permutation (required s) (required s').
Proof.
  intros ((l & Hp & Hf) & Hs & Hfac & Hports). unfold required.
  apply Permutation_app; [|apply Permutation_app].
  - eapply Permutation_trans; [apply Permutation_flat_map; exact Hp|].
    apply (flat_map_Forall2_perm required_node node_eqv required_node_eqv). exact Hf.
  - rewrite (flat_map_ext' _ (required_svc (sl_ports s'))) by (intro v; apply required_svc_ports; exact Hports).
    apply Permutation_flat_map. exact Hs.
  - unfold tag. apply Permutation_map, Permutation_map. exact Hfac.
Qed.

Lemma existsb_perm {A} (f : A -> bool) l l' : Permutation l l' -> existsb f l = existsb f l'.
Proof.
  induction 1; simpl; try congruence.
  - destruct (f x), (f y); reflexivity.
Qed.

Lemma has_switch_eqv s s' : slice_eqv s s' -> has_switch s = has_switch s'.
Proof.
  intros ((l & Hp & Hf) & _). unfold has_switch. rewrite (existsb_perm _ _ _ Hp).
  clear Hp. induction Hf as [|x y l l' Hxy _ IH]; simpl; [reflexivity|].
  destruct Hxy as (Hk & _). rewrite Hk, IH. reflexivity.
Qed.

Lemma slice_perm_eqv s s' : slice_perm s s' -> slice_eqv s s'.
Proof.
  intros (Hn & Hs & Hf & Hp). unfold slice_eqv. split; [|tauto].
  exists (sl_nodes s'). split; [exact Hn|].
  clear. induction (sl_nodes s') as [|n r IH]; constructor; [|exact IH].
  unfold node_eqv. repeat split; apply Permutation_refl.
Qed.

Lemma addus_perm a b : Permutation a b -> Permutation (addus a []) (addus b []).
Proof.
  intro H. apply NoDup_Permutation; try (apply addus_NoDup; constructor).
  intro x. rewrite !addus_In. split; intros [[]|Hx]; right.
  - eapply Permutation_in; eassumption.
  - eapply Permutation_in; [apply Permutation_sym|]; eassumption.
Qed.

Theorem reload_invariant s s' k : slice_eqv s s' -> Permutation (getk k (collected s)) (getk k (collected s')).
Proof.
  intro H. pose proof (required_eqv _ _ H) as Hr.
  destruct (N.eq_dec k A_RESOURCE_TYPE) as [E|E].
  { subst k. rewrite !type_exact. unfold resource_type. rewrite (has_switch_eqv _ _ H). apply Permutation_refl. }
  destruct (in_dec N.eq_dec k multi_keys) as [Hm|Hm].
  { rewrite !multi_exact by exact Hm. rewrite !required_of_sel. apply sel_perm. exact Hr. }
  destruct (in_dec N.eq_dec k set_keys) as [Hs|Hs].
  { rewrite !set_exact by exact Hs. apply addus_perm. rewrite !required_of_sel. apply sel_perm. exact Hr. }
  assert (Hk : ~ In k collected_keys).
  { unfold collected_keys. intro H0. destruct H0 as [H1|H1]; [congruence|].
    apply in_app_iff in H1 as [H1|H1]; [exact (Hm H1) | exact (Hs H1)]. }
  rewrite !other_empty by exact Hk. constructor.
Qed.

Theorem reload_same_keys s s' k : slice_eqv s s' -> (In k (keys (collected s)) <-> In k (keys (collected s'))).
Proof.
  intro H. rewrite !no_empty_entry. pose proof (reload_invariant s s' k H) as P.
  split; intros Hn E; apply Hn.
  - rewrite E in P. apply Permutation_nil. apply Permutation_sym. exact P.
  - rewrite E in P. apply Permutation_nil. exact P.
Qed.

Theorem order_independent s s' k : slice_perm s s' -> Permutation (getk k (collected s)) (getk k (collected s')).
Proof. intro H. apply reload_invariant, slice_perm_eqv, H. Qed.

Theorem order_same_keys s s' k : slice_perm s s' -> (In k (keys (collected s)) <-> In k (keys (collected s'))).
Proof. intro H. apply reload_same_keys, slice_perm_eqv, H. Qed.

(* accumulation over two topologies collected into the same collector *)
Theorem accumulates_multi s1 s2 k : In k multi_keys ->
  getk k (topo_pure (collected s1) s2) = required_of k s1 ++ required_of k s2.
Proof. intro Hk. rewrite multi_closed by exact Hk. rewrite multi_exact by exact Hk. reflexivity. Qed.

Theorem accumulates_set s1 s2 k v : In k set_keys ->
  (In v (getk k (topo_pure (collected s1) s2)) <-> In v (required_of k s1) \/ In v (required_of k s2)).
Proof.
  intro Hk. rewrite set_closed by exact Hk. rewrite addus_In, set_exact by exact Hk. rewrite addus_In. simpl. tauto.
Qed.

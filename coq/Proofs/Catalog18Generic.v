(* C18: what holds of map_caps for EVERY catalogue and EVERY request without evaluating anything, from the one
   fact proved about Base/PySort.v (it returns a permutation of its input, Proofs/PySortPerm.v): the answer,
   when candidates exist, is the name of a catalogue entry that satisfies the request (sufficiency).
   Minimality is NOT of this kind: Capacities.__lt__ is the non-strict componentwise order, not a strict weak
   order, so "sorted and stable" does not determine which element a correct sort puts first -- two textbook
   stable sorts disagree (choice_depends_on_algorithm) -- and C18_sizing (Pareto-minimality of the shipped
   catalogue) has to go through what list.sort actually does. *)
From Coq Require Import List ZArith NArith Bool Lia Permutation.
From FIM Require Import Base.Str Base.PySort Gen.Catalog Model.Catalog18 Proofs.PySortPerm.
Import ListNotations.
Open Scope Z_scope.

Lemma caps3_eq_dec : forall x y : caps3, {x = y} + {x <> y}.
Proof. decide equality; [apply Z.eq_dec|decide equality; apply Z.eq_dec]. Qed.

Lemma ceq3_eq a b : ceq3 a b = true -> a = b.
Proof.
  destruct a as [[a1 a2] a3], b as [[b1 b2] b3]. unfold ceq3. cbn [core ram disk fst snd].
  rewrite !andb_true_iff, !Z.eqb_eq. intros [[-> ->] ->]. reflexivity.
Qed.

Lemma index_eq_spec x : forall l i, index_eq x l = Some i -> nth_error l i = Some x.
Proof.
  induction l as [|y l IH]; intros i H; simpl in H; [discriminate|].
  destruct (ceq3 y x) eqn:E.
  - inversion H; subst. apply ceq3_eq in E. subst. reflexivity.
  - destruct (index_eq x l) as [j|]; [|discriminate]. inversion H; subst. simpl. apply IH. reflexivity.
Qed.

Lemma nth_fst_snd : forall (cat : list inst_entry) i n c,
  nth_error (map fst cat) i = Some n -> nth_error (map snd cat) i = Some c ->
  exists e, nth_error cat i = Some e /\ fst e = n /\ snd e = c.
Proof.
  induction cat as [|e cat IH]; intros [|i] n c H1 H2; simpl in *; try discriminate.
  - inversion H1; inversion H2; subst. exists e. auto.
  - apply IH; assumption.
Qed.

Theorem map_caps_sufficient : forall cat req n,
  candidates cat req <> [] -> map_caps cat req = Some n ->
  exists e, In e cat /\ fst e = n /\ fits req (snd e) = true.
Proof.
  intros cat req n Hne H. unfold map_caps, pick in H.
  destruct (candidates cat req) as [|c cs] eqn:Ec; [congruence|].
  destruct (py_sort_first clt3 (c :: cs)) as [c0|] eqn:Es; [|discriminate].
  apply (py_sort_first_in caps3_eq_dec) in Es. rewrite <- Ec in Es.
  unfold candidates in Es. apply filter_In in Es. destruct Es as [_ Hfit].
  destruct (index_eq c0 (map snd cat)) as [i|] eqn:Ei; [|discriminate].
  apply index_eq_spec in Ei.
  destruct (nth_fst_snd cat i n c0 H Ei) as [e [En [Hn Hc]]].
  exists e. split; [eapply nth_error_In; eassumption|]. split; [exact Hn|]. congruence.
Qed.

(* nothing fits: the last key, for every catalogue *)
Theorem map_caps_fallback : forall cat req, candidates cat req = [] -> map_caps cat req = last_opt (map fst cat).
Proof. intros cat req H. unfold map_caps, pick. rewrite H. reflexivity. Qed.

(* the textbook stable insertion sort, with the same comparison *)
Fixpoint ins {A} (lt : A -> A -> bool) (x : A) (l : list A) : list A :=
  match l with
  | [] => [x]
  | y :: r => if lt x y then x :: y :: r else y :: ins lt x r
  end.
Definition ins_sort {A} (lt : A -> A -> bool) (l : list A) : list A := fold_left (fun acc x => ins lt x acc) l [].

Theorem choice_depends_on_algorithm :
  exists l, py_sort_first clt3 l = Some (5, 5, 5) /\ hd_error (ins_sort clt3 l) = Some (2, 2, 2) /\
            clt3 (2, 2, 2) (5, 5, 5) = true.
Proof. exists [(5, 5, 5); (1, 9, 1); (2, 2, 2)]. vm_compute. repeat split. Qed.

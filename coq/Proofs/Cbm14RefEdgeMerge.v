(* C14 - refinement, connections: merge_adm on the store model does to the connections of the combined graph
   exactly what smerge does ("an existing connection wins"); with the node part: the full refinement theorem. *)
From Coq Require Import List NArith Bool Lia.
From FIM Require Import Model.Cbm14Store Model.Cbm14Spec Model.Cbm14Abs Proofs.Cbm14Assoc Proofs.Cbm14Merge
     Proofs.Cbm14Frame Proofs.Cbm14RefBase Proofs.Cbm14RefPrep Proofs.Cbm14RefFold Proofs.Cbm14RefMerge
     Proofs.Cbm14RefUnmerge Proofs.Cbm14RefEdge Proofs.Cbm14RefEdgePrep Proofs.Cbm14RefEdgeLoop.
Import ListNotations.
Open Scope N_scope.

Definition img2 (adm tmp : N) (m : list (N * N)) (a t : node) : Prop :=
  img adm tmp a t /\ lookup m (n_int a) = Some (n_int t).

Lemma Forall2_and {A B} (R1 R2 : A -> B -> Prop) l l' :
  Forall2 R1 l l' -> Forall2 R2 l l' -> Forall2 (fun a b => R1 a b /\ R2 a b) l l'.
Proof. intro F. induction F; intro G; inversion G; subst; constructor; auto. Qed.

Lemma prep_full adm tmp st ns2 :
  J (s_next st) (s_nodes st) -> ebelow (s_next st) (s_edges st) -> gexists tmp st = false ->
  rw_nodes adm tmp (s_nodes (clone adm tmp st)) = inl ns2 ->
  let st2 := prep_store adm tmp st ns2 in
  exists tn m, s_nodes st2 = s_nodes st ++ tn /\
               s_edges st2 = s_edges st ++ clone_edges m (s_edges st) /\
               Forall2 (img2 adm tmp m) (of_gid adm st) tn /\ renaming (s_next st) m /\
               J (s_next st2) (s_nodes st ++ tn) /\ ebelow (s_next st2) (s_edges st2) /\
               s_next st <= s_next st2.
Proof.
  intros Jst EB FR R st2. pose proof Jst as (U & B & K).
  destruct (prep_spec adm tmp st ns2 Jst FR R) as (tn & E2 & IM & J2). fold st2 in E2, J2.
  pose proof (notmp_of_fresh tmp st FR) as NT.
  unfold st2, prep_store, map_gid, clone in *.
  destruct (clone_nodes tmp (s_next st) (of_gid adm st)) as [cn m] eqn:E.
  assert (NoDup (map n_int (of_gid adm st))) as NDI.
  { unfold of_gid. apply NoDup_map_filter. exact U. }
  destruct (clone_nodes_renaming tmp _ _ _ _ NDI E) as (FL & RN & DM).
  destruct (clone_nodes_spec _ _ _ _ _ E) as (S1 & S2 & S3).
  simpl in R, E2, J2 |- *.
  assert (forall n, In n cn -> n_gid n = tmp) as CT by (intros n Hn; apply (S1 n Hn)).
  destruct (rw_nodes_split adm tmp _ _ _ NT CT R) as (cn' & -> & F).
  assert (forall n, In n cn' -> n_gid n = tmp) as CT'.
  { intros n Hn. destruct (Forall2_in_r _ _ _ _ F Hn) as (t & Ht & Rt).
    apply rw_node_fields in Rt as (_ & G & _). rewrite G. auto. }
  rewrite (map_gid_split tmp (set_si (SIds [adm])) _ _ NT CT') in E2.
  apply app_inv_head in E2. subst tn.
  exists (map (set_si (SIds [adm])) cn'), m.
  split; [rewrite (map_gid_split tmp (set_si (SIds [adm])) _ _ NT CT'); reflexivity|].
  split; [reflexivity|]. split; [|split; [exact RN|split; [exact J2|split]]].
  - apply Forall2_and; [exact IM|].
    apply (Forall2_map_r (fun a t' => lookup m (n_int a) = Some (n_int t'))).
    + intros a b H. simpl. exact H.
    + eapply Forall2_trans3; [|exact FL|exact F].
      intros a b c L Rb. apply rw_node_fields in Rb as (I & _). rewrite I. exact L.
  - apply clone_edges_ebelow; auto. intros i v L. apply S3 in L. apply L.
  - lia.
Qed.

Lemma memN_rev_nil k l : memN k (rev l ++ []) = memN k l.
Proof.
  rewrite app_nil_r. destruct (memN k l) eqn:M.
  - apply memN_In. apply -> in_rev. apply memN_In. exact M.
  - apply memN_false. intro X. apply in_rev in X. apply memN_false in M. contradiction.
Qed.

Lemma find_img2 adm tmp m k l tn :
  Forall2 (img2 adm tmp m) l tn ->
  match find (fun n => n_nid n =? k) l with
  | Some a => exists t, find (fun n => n_nid n =? k) tn = Some t /\ img2 adm tmp m a t
  | None => find (fun n => n_nid n =? k) tn = None
  end.
Proof.
  induction 1 as [|a t l tn R F IH]; simpl; auto.
  assert (n_nid t = n_nid a) as E by apply R. rewrite E.
  destruct (n_nid a =? k); eauto.
Qed.

Lemma img2_at adm tmp m k ns tn :
  Forall2 (img2 adm tmp m) (gnodes adm ns) tn ->
  match at_ adm k ns with
  | Some a => exists t, at_ tmp k tn = Some t /\ img2 adm tmp m a t
  | None => at_ tmp k tn = None
  end.
Proof.
  intro F. rewrite at_gnodes.
  assert (forall n, In n tn -> n_gid n = tmp) as AT.
  { intros n Hn. destruct (Forall2_in_r _ _ _ _ F Hn) as (a & _ & R). apply R. }
  rewrite (at_all_gid tmp k tn AT). apply find_img2. exact F.
Qed.

Definition ci_of (cbm : N) (st : store) (k : N) : option N := option_map n_int (at_ cbm k (s_nodes st)).
Definition ti_of (tmp : N) (tn : list node) (k : N) : option N := option_map n_int (at_ tmp k tn).

Lemma merge_run cbm adm tmp st st' :
  J (s_next st) (s_nodes st) -> ebelow (s_next st) (s_edges st) -> cbm_wf cbm (s_nodes st) ->
  cbm <> tmp -> gexists tmp st = false ->
  (forall n, In n (of_gid adm st) -> edat (s_edges st) (n_int n) (n_int n) = None) ->
  merge_adm cbm adm tmp st = OOk st' ->
  exists tn m P ns3,
    Forall2 (img2 adm tmp m) (of_gid adm st) tn /\ renaming (s_next st) m /\
    J (s_next st') (s_nodes st ++ tn) /\
    s_nodes st' = map (rh cbm tmp) ns3 /\
    (forall k, memN k P = true <-> (exists c, at_ cbm k (s_nodes st) = Some c) /\ (exists t, at_ tmp k tn = Some t)) /\
    (forall k c t, memN k P = true -> at_ cbm k (s_nodes st) = Some c -> at_ tmp k tn = Some t ->
                   exists l, at_ cbm k ns3 = Some (mrg adm c t l) /\ at_ tmp k ns3 = None) /\
    (forall k, memN k P = false -> at_ cbm k ns3 = at_ cbm k (s_nodes st) /\ at_ tmp k ns3 = at_ tmp k tn) /\
    EI (ci_of cbm st) (ti_of tmp tn) (edat (s_edges st ++ clone_edges m (s_edges st))) P (s_edges st') /\
    ebelow (s_next st') (s_edges st').
Proof.
  intros Jst EB W NE FR NS H. rewrite merge_adm_eq in H.
  destruct (negb (gexists adm st)); [discriminate|].
  destruct (rw_nodes adm tmp (s_nodes (clone adm tmp st))) as [ns2|] eqn:R; [|discriminate].
  destruct (prep_full adm tmp st ns2 Jst EB FR R) as (tn & m & E2 & EE & IM & RN & J2 & EB2 & LE).
  set (st2 := prep_store adm tmp st ns2) in *. cbv zeta in H.
  pose proof (notmp_of_fresh tmp st FR) as NT.
  assert (forall n, In n tn -> n_gid n = tmp) as TT.
  { intros n Hn. destruct (Forall2_in_r _ _ _ _ IM Hn) as (a & _ & I). apply I. }
  assert (forall k, at_ cbm k (s_nodes st2) = at_ cbm k (s_nodes st)) as Acbm.
  { intro k. rewrite E2, at_app. destruct (at_ cbm k (s_nodes st)); auto.
    apply at_other_gid. intros n Hn. rewrite (TT n Hn). auto. }
  assert (forall k, at_ tmp k (s_nodes st2) = at_ tmp k tn) as Atmp.
  { intro k. rewrite E2, at_app. rewrite (at_other_gid tmp k (s_nodes st) NT). reflexivity. }
  set (ci := ci_of cbm st). set (ti := ti_of tmp tn).
  set (e0 := edat (s_edges st ++ clone_edges m (s_edges st))).
  pose proof J2 as (U2 & B2 & K2).
  (* facts about the internal ids *)
  assert (forall k i, ci k = Some i -> exists n, In n (s_nodes st) /\ n_gid n = cbm /\ n_nid n = k /\ n_int n = i) as CIN.
  { intros k i X. unfold ci, ci_of in X. destruct (at_ cbm k (s_nodes st)) as [n|] eqn:A; [|discriminate].
    inversion X; subst. apply at_In in A as (? & ? & ?). eauto. }
  assert (forall k i, ti k = Some i -> exists n, In n tn /\ n_gid n = tmp /\ n_nid n = k /\ n_int n = i) as TIN.
  { intros k i X. unfold ti, ti_of in X. destruct (at_ tmp k tn) as [n|] eqn:A; [|discriminate].
    inversion X; subst. apply at_In in A as (? & ? & ?). eauto. }
  assert (forall a b i, ci a = Some i -> ci b = Some i -> a = b) as CI.
  { intros a b i X Y. destruct (CIN a i X) as (n1 & I1 & _ & N1 & E1). destruct (CIN b i Y) as (n2 & I2 & _ & N2 & E2').
    assert (n1 = n2) by (apply (uniq_inj (s_nodes st ++ tn)); auto; [apply in_app_iff; auto|apply in_app_iff; auto|congruence]).
    congruence. }
  assert (forall a b i, ti a = Some i -> ti b = Some i -> a = b) as TI.
  { intros a b i X Y. destruct (TIN a i X) as (n1 & I1 & _ & N1 & E1). destruct (TIN b i Y) as (n2 & I2 & _ & N2 & E2').
    assert (n1 = n2) by (apply (uniq_inj (s_nodes st ++ tn)); auto; [apply in_app_iff; auto|apply in_app_iff; auto|congruence]).
    congruence. }
  assert (forall a b i, ci a = Some i -> ti b = Some i -> False) as CT.
  { intros a b i X Y. destruct (CIN a i X) as (n1 & I1 & G1 & N1 & E1). destruct (TIN b i Y) as (n2 & I2 & G2 & N2 & E2').
    assert (n1 = n2) by (apply (uniq_inj (s_nodes st ++ tn)); auto; [apply in_app_iff; auto|apply in_app_iff; auto|congruence]).
    subst. congruence. }
  assert (forall i j, e0 i j = e0 j i) as ES by (intros; apply edat_sym).
  assert (forall k i, ci k = Some i -> i < s_next st) as CLT.
  { intros k i X. destruct (CIN k i X) as (n & I1 & _ & _ & <-). apply Jst. exact I1. }
  assert (forall k i, ti k = Some i -> exists a, In a (of_gid adm st) /\ lookup m (n_int a) = Some i) as TLK.
  { intros k i X. destruct (TIN k i X) as (n & I1 & _ & _ & <-).
    destruct (Forall2_in_r _ _ _ _ IM I1) as (a & Ha & (_ & L)). eauto. }
  assert (forall k i, ti k = Some i -> s_next st <= i) as TGE.
  { intros k i X. destruct (TLK k i X) as (a & _ & L). apply RN in L. exact L. }
  assert (EI ci ti e0 [] (s_edges st2)) as E0.
  { rewrite EE. apply EI_init.
    - reflexivity.
    - intros a b i j X Y. rewrite edat_app.
      rewrite (edat_sym (s_edges st) i j), (edat_below _ _ j i EB (TGE b j Y)).
      apply (clone_edges_old (s_next st)); auto. eapply CLT; eauto.
    - reflexivity. }
  assert (forall k, ti k <> None -> tt ti e0 k k = None) as SL.
  { intros k X. unfold tt. destruct (ti k) as [i|] eqn:T; [|congruence].
    destruct (TLK k i T) as (a & Ha & L). unfold e0. rewrite edat_app, (edat_below _ _ i i EB (TGE k i T)).
    rewrite (clone_edges_edat (s_next st) m (s_edges st) (n_int a) (n_int a) i i RN L L). apply NS. exact Ha. }
  assert (J (s_next st2) (s_nodes st2)) as J2' by (rewrite E2; exact J2).
  destruct (negb (gexists cbm st2)) eqn:GC.
  - (* no combined graph yet *)
    apply negb_true_iff in GC. unfold rehome in H. destruct (gexists tmp st2); [|discriminate].
    inversion H; subst st'; clear H.
    assert (forall k, at_ cbm k (s_nodes st) = None) as NC by (intro k; rewrite <- Acbm; apply (no_gid_at cbm st2 GC)).
    exists tn, m, [], (s_nodes st2). split; auto. split; auto. split; [exact J2|]. split; [reflexivity|].
    split; [|split; [|split; [|split]]].
    + intro k. simpl. split; [discriminate|]. intros [[c X] _]. rewrite NC in X. discriminate.
    + intros k c t X. discriminate.
    + intros k _. rewrite Acbm, Atmp. auto.
    + exact E0.
    + exact EB2.
  - set (common := filter (fun x => existsb (fun c => n_nid c =? x) (of_gid cbm st2)) (map n_nid (of_gid tmp st2))) in *.
    destruct (existsb _ common) eqn:DS; [discriminate|].
    destruct (fold_left (merge_one cbm tmp adm) common (Some st2)) as [st3|] eqn:F; [|discriminate].
    pose proof (fold_merge_one_next _ _ _ _ _ _ F) as NX.
    pose proof (fold_merge_one_nodes cbm tmp adm common (Some st2)) as FN. rewrite F in FN. simpl in FN. symmetry in FN.
    assert (NoDup common) as NDc.
    { unfold common. apply NoDup_filter. apply (ukeys_nids tmp). apply J2'. }
    assert (forall k, In k common <-> (exists t, at_ tmp k (s_nodes st2) = Some t) /\ (exists c, at_ cbm k (s_nodes st2) = Some c)) as INC.
    { intro k. unfold common. rewrite filter_In, existsb_nid. unfold of_gid. fold (gnodes tmp (s_nodes st2)) (gnodes cbm (s_nodes st2)).
      rewrite !in_nids. tauto. }
    destruct (fold_spec (s_next st2) cbm tmp adm NE common _ _ J2' NDc FN) as (J3 & I1 & I2 & I3).
    assert (s_nodes st' = map (rh cbm tmp) (s_nodes st3) /\ s_next st' = s_next st3 /\ s_edges st' = s_edges st3) as (ES' & EN & EE').
    { destruct (gexists tmp st3) eqn:G3.
      - unfold rehome in H. rewrite G3 in H. inversion H; subst. auto.
      - inversion H; subst. split; auto. symmetry. apply rh_id. apply notmp_of_fresh. exact G3. }
    destruct (loop_edges cbm tmp adm (s_next st2) ci ti e0 CI TI CT ES NE common st2 st3 [] J2' EB2 NDc) as [EIf EBf]; auto.
    + intros k Hk. unfold ci, ti, ci_of, ti_of. rewrite Acbm, Atmp. auto.
    + intros k Hk. apply SL. apply INC in Hk as [[t X] _]. unfold ti, ti_of. rewrite <- Atmp, X. discriminate.
    + exists tn, m, (rev common ++ []), (s_nodes st3).
      split; auto. split; auto. split; [rewrite EN, NX; exact J2|]. split; auto.
      split; [|split; [|split; [|split]]].
      * intro k. rewrite memN_rev_nil, memN_In, INC, Acbm, Atmp. tauto.
      * intros k c t Mk Hc Ht. rewrite memN_rev_nil in Mk. apply memN_In in Mk.
        destruct (I1 k c t Mk) as [Q1 Q2]; [rewrite Acbm; auto|rewrite Atmp; auto|]. eauto.
      * intros k Mk. rewrite memN_rev_nil in Mk. apply memN_false in Mk.
        destruct (I2 k Mk) as [Q1 Q2]. rewrite Q1, Q2, Acbm, Atmp. auto.
      * rewrite EE'. exact EIf.
      * rewrite EE', EN, NX. exact EBf.
Qed.

Lemma match_ints {A} g a b ns (f : N -> N -> option A) :
  match at_ g a ns, at_ g b ns with Some na, Some nb => f (n_int na) (n_int nb) | _, _ => None end =
  match option_map n_int (at_ g a ns), option_map n_int (at_ g b ns) with Some i, Some j => f i j | _, _ => None end.
Proof. destruct (at_ g a ns), (at_ g b ns); reflexivity. Qed.

(* ---------- the connections of the combined graph after merge_adm ---------- *)
Theorem merge_refines_edges cbm adm tmp st st' :
  J (s_next st) (s_nodes st) -> ebelow (s_next st) (s_edges st) -> cbm_wf cbm (s_nodes st) ->
  cbm <> tmp -> adm <> cbm -> gexists tmp st = false ->
  (forall n, In n (of_gid adm st) -> edat (s_edges st) (n_int n) (n_int n) = None) ->
  merge_adm cbm adm tmp st = OOk st' ->
  (forall e, gete e (abs_edges cbm st') = gete e (merge_edges (abs_edges cbm st) (abs_edges adm st))) /\
  ebelow (s_next st') (s_edges st').
Proof.
  intros Jst EB W NE NA FR NS H.
  destruct (merge_refines_nodes cbm adm tmp st st' Jst W NE NA FR H) as (_ & _ & J' & _).
  destruct (merge_run cbm adm tmp st st' Jst EB W NE FR NS H)
    as (tn & m & P & ns3 & IM & RN & J2 & ES & MEM & MG & NM & EIf & EBf).
  split; [|exact EBf].
  set (ci := ci_of cbm st) in *. set (ti := ti_of tmp tn) in *.
  set (es := s_edges st) in *. set (e0 := edat (es ++ clone_edges m es)) in *.
  pose proof Jst as (U & B & K). pose proof J' as (U' & _ & K').
  assert (forall n, In n tn -> n_gid n = tmp) as TT.
  { intros n Hn. destruct (Forall2_in_r _ _ _ _ IM Hn) as (a & _ & (I & _)). apply I. }
  (* membership in the set of merged common nodes *)
  assert (forall k, memN k P = is_some (ci k) && is_some (ti k)) as MB.
  { intro k. unfold ci, ti, ci_of, ti_of. destruct (memN k P) eqn:M.
    - apply MEM in M as [[c ->] [t ->]]. reflexivity.
    - destruct (at_ cbm k (s_nodes st)) as [c|] eqn:A1, (at_ tmp k tn) as [t|] eqn:A2; simpl; auto.
      assert (memN k P = true) by (apply MEM; eauto). congruence. }
  (* the node of the combined graph with NodeID k afterwards *)
  assert (forall k, option_map n_int (at_ cbm k (s_nodes st')) =
                    match ci k with Some i => Some i | None => ti k end) as REP.
  { intro k. rewrite ES. unfold ci, ti, ci_of, ti_of. destruct (memN k P) eqn:M.
    - pose proof M as M0. apply MEM in M as [[c Hc] [t Ht]]. destruct (MG k c t M0 Hc Ht) as (l & Q1 & Q2).
      rewrite (rh_at_cbm_keep cbm tmp k ns3 NE Q2), Q1, Hc. reflexivity.
    - destruct (NM k M) as [Q1 Q2].
      destruct (at_ cbm k (s_nodes st)) as [c|] eqn:Hc.
      + destruct (at_ tmp k tn) as [t|] eqn:Ht.
        * assert (memN k P = true) by (apply MEM; eauto). congruence.
        * rewrite (rh_at_cbm_keep cbm tmp k ns3 NE Q2), Q1. reflexivity.
      + rewrite (rh_at_cbm_new cbm tmp k ns3 NE Q1), Q2. destruct (at_ tmp k tn); reflexivity. }
  (* connection data of the sources' images = connection data of the sources *)
  assert (forall a b, tt ti e0 a b =
            match at_ adm a (s_nodes st), at_ adm b (s_nodes st) with
            | Some sa, Some sb => edat es (n_int sa) (n_int sb) | _, _ => None end) as TTA.
  { intros a b. unfold tt, ti, ti_of.
    pose proof (img2_at adm tmp m a (s_nodes st) tn IM) as Ia. pose proof (img2_at adm tmp m b (s_nodes st) tn IM) as Ib.
    destruct (at_ adm a (s_nodes st)) as [sa|].
    - destruct Ia as (ta & -> & (_ & La)). simpl.
      destruct (at_ adm b (s_nodes st)) as [sb|].
      + destruct Ib as (tb & -> & (_ & Lb)). simpl. unfold e0. rewrite edat_app.
        assert (s_next st <= n_int ta) as GE by (apply RN in La; exact La).
        rewrite (edat_below _ _ (n_int ta) (n_int tb) EB GE).
        apply (clone_edges_edat (s_next st) m es _ _ _ _ RN La Lb).
      + rewrite Ib. reflexivity.
    - rewrite Ia. reflexivity. }
  assert (forall a b i j, ci a = Some i -> ci b = Some j -> e0 i j = edat es i j) as E0O.
  { intros a b i j X Y. unfold e0. rewrite edat_app. destruct (edat es i j); auto.
    apply (clone_edges_old (s_next st)); auto.
    unfold ci, ci_of in X. destruct (at_ cbm a (s_nodes st)) as [n|] eqn:A; [|discriminate].
    inversion X; subst. apply at_In in A as (A & _). apply B. exact A. }
  assert (forall a b, tt ti e0 a b = tt ti e0 b a) as TS.
  { intros a b. unfold tt. destruct (ti a), (ti b); auto. unfold e0. apply edat_sym. }
  destruct EIf as [I1 I2 I3].
  intros [x y]. rewrite get_merge_edges.
  destruct (N.ltb_spec y x) as [L|L].
  - rewrite !abs_edges_unordered; auto.
  - rewrite (ordered_minmax x y L).
    rewrite (abs_edges_get cbm st' x y U' K'), (abs_edges_get cbm st x y U K), (abs_edges_get adm st x y U K).
    rewrite <- TTA. rewrite (match_ints cbm x y (s_nodes st') (edat (s_edges st'))), !REP.
    rewrite (match_ints cbm x y (s_nodes st) (edat (s_edges st))). fold es. fold (ci_of cbm st x) (ci_of cbm st y). fold ci.
    assert (forall o : option edata, match o with Some d => Some d | None => None end = o) as OID by (intros [d|]; reflexivity).
    destruct (ci x) as [i|] eqn:Cx, (ci y) as [j|] eqn:Cy.
    + rewrite (I1 x y i j Cx Cy), (E0O x y i j Cx Cy), !MB, Cx, Cy. simpl.
      destruct (edat es i j); auto. rewrite OID.
      unfold tt. destruct (ti x), (ti y); reflexivity.
    + rewrite OID. destruct (ti y) as [j'|] eqn:Ty.
      * rewrite (I2 x y i j' Cx Ty); [|rewrite MB, Cy; reflexivity]. rewrite MB, Cx. simpl.
        unfold tt. rewrite Ty. destruct (ti x); reflexivity.
      * unfold tt. rewrite Ty. destruct (ti x); reflexivity.
    + rewrite OID. destruct (ti x) as [i'|] eqn:Tx.
      * rewrite edat_sym, (I2 y x j i' Cy Tx); [|rewrite MB, Cx; reflexivity]. rewrite MB, Cy, TS. simpl.
        unfold tt. rewrite Tx. destruct (ti y); reflexivity.
      * unfold tt. rewrite Tx. reflexivity.
    + rewrite OID. destruct (ti x) as [i'|] eqn:Tx, (ti y) as [j'|] eqn:Ty; unfold tt; rewrite ?Tx, ?Ty; auto.
      apply (I3 x y i' j' Tx Ty); rewrite MB, ?Cx, ?Cy; reflexivity.
Qed.

(* ---------- the full refinement theorem for merge_adm ---------- *)
Lemma eqv_of_gets C C' :
  (forall k, getn k (nodes C) = getn k (nodes C')) -> (forall e, gete e (edges C) = gete e (edges C')) -> eqv C C'.
Proof.
  intros H1 H2. split; auto. intro k. rewrite H1. destruct (getn k (nodes C')); simpl; auto using eqv_node_refl.
Qed.

Theorem merge_refines cbm adm tmp st st' :
  J (s_next st) (s_nodes st) -> ebelow (s_next st) (s_edges st) -> cbm_wf cbm (s_nodes st) ->
  cbm <> tmp -> adm <> cbm -> gexists tmp st = false ->
  (forall n, In n (of_gid adm st) -> edat (s_edges st) (n_int n) (n_int n) = None) ->
  merge_adm cbm adm tmp st = OOk st' ->
  exists C', smerge (abs_cbm cbm st) (abs_adm adm st) = Some C' /\
             (forall k, getn k (nodes (abs_cbm cbm st')) = getn k (nodes C')) /\
             (forall e, gete e (edges (abs_cbm cbm st')) = gete e (edges C')) /\
             eqv (abs_cbm cbm st') C'.
Proof.
  intros Jst EB W NE NA FR NS H.
  destruct (merge_refines_nodes cbm adm tmp st st' Jst W NE NA FR H) as (CF & MG & _).
  destruct (merge_refines_edges cbm adm tmp st st' Jst EB W NE NA FR NS H) as (ME & _).
  destruct (smerge_defined _ _ CF) as [C' SM]. exists C'. split; auto.
  apply smerge_Some in SM as (_ & EN & EE).
  assert (forall k, getn k (nodes (abs_cbm cbm st')) = getn k (nodes C')) as G1 by (intro k; rewrite EN; apply MG).
  assert (forall e, gete e (edges (abs_cbm cbm st')) = gete e (edges C')) as G2 by (intro e; rewrite EE; apply ME).
  split; auto. split; auto. apply eqv_of_gets; auto.
Qed.

(* C04: list-level lemmas about the nx.Graph primitives of Model/Store.v and about [view]. *)
From Coq Require Import List NArith Bool Lia.
From FIM Require Import Base.Assoc Model.Store.
Import ListNotations.
Open Scope N_scope.

(* ---------- small facts ---------- *)
Lemma memN_In x l : memN x l = true <-> In x l.
Proof.
  unfold memN. rewrite existsb_exists. split.
  - intros [y [Hy E]]. apply N.eqb_eq in E. now subst.
  - intro H. exists x. split; [exact H | apply N.eqb_refl].
Qed.

Lemma memN_false x l : memN x l = false <-> ~ In x l.
Proof.
  rewrite <- memN_In. destruct (memN x l); split; intro H; try congruence; try discriminate.
  all: try (exfalso; now apply H).
Qed.

Lemma is_pv_inj v a b : is_pv v a = true -> is_pv v b = true -> a = b.
Proof.
  destruct v; simpl; try discriminate. intros H1 H2.
  apply N.eqb_eq in H1, H2. congruence.
Qed.

Lemma has_val_inj ps k a b : has_val ps k a = true -> has_val ps k b = true -> a = b.
Proof.
  unfold has_val. destruct (aget k ps); try discriminate. apply is_pv_inj.
Qed.

Lemma in_g_other g g' n : in_g g n = true -> g <> g' -> in_g g' n = false.
Proof.
  unfold in_g. intros H Hne. destruct (has_val (snd n) k_graphid g') eqn:E; [|reflexivity].
  exfalso. apply Hne. eapply has_val_inj; eauto.
Qed.

Lemma has_val_aset_other ps p v k x : p <> k -> has_val (aset p v ps) k x = has_val ps k x.
Proof. intro H. unfold has_val. rewrite aget_aset_other by congruence. reflexivity. Qed.

Lemma has_val_aremove_other ps p k x : p <> k -> has_val (aremove p ps) k x = has_val ps k x.
Proof. intro H. unfold has_val. rewrite aget_aremove_other by congruence. reflexivity. Qed.

Lemma has_val_aupdate_notin ps upd k x : ahas k upd = false -> has_val (aupdate upd ps) k x = has_val ps k x.
Proof.
  intro H. unfold has_val. rewrite aget_aupdate_notin; [reflexivity|].
  unfold ahas in H. destruct (aget k upd); [discriminate | reflexivity].
Qed.

(* ---------- association lists of nodes ---------- *)
Lemma aget_In {V} (k : N) (v : V) l : aget k l = Some v -> In (k, v) l.
Proof.
  induction l as [|[k' v'] r IH]; simpl; [discriminate|].
  destruct (N.eqb k k') eqn:E.
  - intro H. inversion H; subst. apply N.eqb_eq in E; subst. now left.
  - intro H. right. now apply IH.
Qed.

Lemma aget_None_notin {V} (k : N) (l : list (N * V)) : aget k l = None <-> ~ In k (map fst l).
Proof.
  induction l as [|[k' v'] r IH]; simpl.
  - split; [intros _ [] | reflexivity].
  - destruct (N.eqb k k') eqn:E.
    + apply N.eqb_eq in E; subst. split; [discriminate | intro H; exfalso; apply H; now left].
    + apply N.eqb_neq in E. rewrite IH. split; intro H.
      * intros [H1|H1]; [congruence | now apply H].
      * intro H1. apply H. now right.
Qed.

Lemma NoDup_In_aget {V} (k : N) (v : V) l : NoDup (map fst l) -> In (k, v) l -> aget k l = Some v.
Proof.
  induction l as [|[k' v'] r IH]; simpl; [intros _ []|].
  intros Hnd [H|H].
  - inversion H; subst. now rewrite N.eqb_refl.
  - inversion Hnd; subst. destruct (N.eqb k k') eqn:E.
    + apply N.eqb_eq in E; subst. exfalso. apply H2. change k' with (fst (k', v)). now apply in_map.
    + now apply IH.
Qed.

Lemma map_fst_set_node id ps l : map fst (set_node id ps l) = map fst l.
Proof.
  induction l as [|[i q] r IH]; simpl; [reflexivity|].
  destruct (N.eqb i id) eqn:E; simpl; [|now rewrite IH].
  apply N.eqb_eq in E. now subst.
Qed.

Lemma filter_set_node (f : node -> bool) id ps ps' l :
  aget id l = Some ps -> f (id, ps) = false -> f (id, ps') = false ->
  filter f (set_node id ps' l) = filter f l.
Proof.
  induction l as [|[i q] r IH]; simpl; [reflexivity|].
  intros Hget Hf Hf'. rewrite N.eqb_sym in Hget.
  destruct (N.eqb i id) eqn:E.
  - apply N.eqb_eq in E; subst i. inversion Hget; subst q. simpl. now rewrite Hf, Hf'.
  - simpl. destruct (f (i, q)); [f_equal|]; now apply IH.
Qed.

Lemma aget_set_node id ps l k :
  aget k (set_node id ps l) = if N.eqb k id then (match aget id l with Some _ => Some ps | None => None end)
                              else aget k l.
Proof.
  induction l as [|[i q] r IH]; simpl.
  - now destruct (N.eqb k id).
  - destruct (N.eqb i id) eqn:E; simpl.
    + apply N.eqb_eq in E; subst i. rewrite N.eqb_refl.
      destruct (N.eqb k id) eqn:E2; reflexivity.
    + destruct (N.eqb k i) eqn:E3.
      * apply N.eqb_eq in E3; subst k. rewrite E. reflexivity.
      * rewrite IH. destruct (N.eqb k id) eqn:E2; [|reflexivity].
        apply N.eqb_eq in E2; subst k. rewrite N.eqb_sym, E. reflexivity.
Qed.

(* ---------- search ---------- *)
Lemma search_sound G preds x :
  NoDup (map fst (gn G)) -> In x (search G preds) ->
  exists ps, nx_node G x = Some ps /\ matches preds ps = true.
Proof.
  unfold search, nx_node. intros Hnd Hin.
  apply in_map_iff in Hin as [[i ps] [Hi Hf]]. simpl in Hi; subst i.
  apply filter_In in Hf as [Hin Hm]. exists ps. split; [|exact Hm].
  now apply NoDup_In_aget.
Qed.

Lemma matches_cons k v preds ps : matches ((k, v) :: preds) ps = has_val ps k v && matches preds ps.
Proof. reflexivity. Qed.

Lemma search_graphid_ids_in G g : search G [(k_graphid, g)] = ids_in G g.
Proof.
  unfold search, ids_in. f_equal. apply filter_ext. intros [i ps].
  unfold matches, in_g. simpl. now rewrite andb_true_r.
Qed.

Lemma find_node_sound G g n id :
  NoDup (map fst (gn G)) -> find_node G g n = Some id ->
  exists ps, nx_node G id = Some ps /\ in_g g (id, ps) = true /\ has_val ps k_nodeid n = true.
Proof.
  unfold find_node. intros Hnd H.
  destruct (search G [(k_nodeid, n); (k_graphid, g)]) as [|x [|y r]] eqn:E; try discriminate.
  inversion H; subst x.
  destruct (search_sound G [(k_nodeid, n); (k_graphid, g)] id Hnd) as [ps [H1 H2]]; [rewrite E; now left|].
  exists ps. split; [exact H1|]. simpl in H2. rewrite andb_true_r in H2.
  apply andb_true_iff in H2 as [Ha Hb]. unfold in_g. simpl. now split.
Qed.

(* a node of g is not among the nodes g' sees *)
Lemma not_in_other G g g' id ps :
  NoDup (map fst (gn G)) -> nx_node G id = Some ps -> in_g g (id, ps) = true -> g <> g' ->
  memN id (ids_in G g') = false.
Proof.
  intros Hnd Hget Hin Hne. apply memN_false. intro Hmem.
  unfold ids_in in Hmem. apply in_map_iff in Hmem as [[i q] [Hi Hf]]. simpl in Hi; subst i.
  apply filter_In in Hf as [Hq Hg'].
  assert (aget id (gn G) = Some q) by now apply NoDup_In_aget.
  unfold nx_node in Hget. rewrite H in Hget. inversion Hget; subst q.
  rewrite (in_g_other g g' (id, ps) Hin Hne) in Hg'. discriminate.
Qed.

Lemma find_node_not_in_other G g g' n id :
  NoDup (map fst (gn G)) -> find_node G g n = Some id -> g <> g' -> memN id (ids_in G g') = false.
Proof.
  intros Hnd Hf Hne. destruct (find_node_sound G g n id Hnd Hf) as [ps [H1 [H2 _]]].
  eapply not_in_other; eauto.
Qed.

(* ---------- view is insensitive to changes outside it ---------- *)
Lemma view_set_node G id ps ps' g' :
  nx_node G id = Some ps -> in_g g' (id, ps) = false -> in_g g' (id, ps') = false ->
  view (nx_set_node G id ps') g' = view G g'.
Proof.
  intros Hget H1 H2. unfold view, ids_in, nx_set_node. simpl.
  rewrite (filter_set_node (in_g g') id ps ps' (gn G) Hget H1 H2). reflexivity.
Qed.

Lemma in_ids_false_l I a b ps : memN a I = false -> in_ids I (a, b, ps) = false.
Proof. intro H. unfold in_ids. now rewrite H. Qed.
Lemma in_ids_false_r I a b ps : memN b I = false -> in_ids I (a, b, ps) = false.
Proof. intro H. unfold in_ids. rewrite H. apply andb_false_r. Qed.

Lemma edge_is_in_ids_false I a b e : memN a I = false -> edge_is a b e = true -> in_ids I e = false.
Proof.
  destruct e as [[x y] ps]. unfold edge_is. intros Hm H.
  apply orb_true_iff in H as [H|H]; apply andb_true_iff in H as [H1 H2];
    apply N.eqb_eq in H1, H2; subst.
  - now apply in_ids_false_l.
  - now apply in_ids_false_r.
Qed.

Lemma filter_set_edge I a b ps l :
  memN a I = false -> filter (in_ids I) (set_edge a b ps l) = filter (in_ids I) l.
Proof.
  intro Hm. induction l as [|[[x y] q] r IH]; [reflexivity|].
  cbn [set_edge]. destruct (edge_is a b (x, y, q)) eqn:E.
  - cbn [fst snd filter].
    rewrite (edge_is_in_ids_false I a b (x, y, q) Hm E).
    rewrite (edge_is_in_ids_false I a b (x, y, ps) Hm E). reflexivity.
  - cbn [filter]. destruct (in_ids I (x, y, q)); [f_equal|]; exact IH.
Qed.

Lemma view_set_edge G a b ps g' :
  memN a (ids_in G g') = false -> view (nx_set_edge G a b ps) g' = view G g'.
Proof.
  intro H. unfold view, nx_set_edge, ids_in. simpl. f_equal. now apply filter_set_edge.
Qed.

Lemma view_append_edge G a b attrs g' :
  memN a (ids_in G g') = false -> view (mkG (gn G) (ge G ++ [(a, b, attrs)])) g' = view G g'.
Proof.
  intro H. unfold view. cbn [gn ge].
  replace (ids_in (mkG (gn G) (ge G ++ [(a, b, attrs)])) g') with (ids_in G g') by reflexivity.
  f_equal. rewrite filter_app. cbn [filter]. rewrite (in_ids_false_l _ a b attrs H). apply app_nil_r.
Qed.

Lemma view_add_edge G a b attrs g' :
  memN a (ids_in G g') = false -> view (nx_add_edge G a b attrs) g' = view G g'.
Proof.
  intro H. unfold nx_add_edge. destruct (nx_edge G a b).
  - now apply view_set_edge.
  - now apply view_append_edge.
Qed.

Lemma filter_filter_irrelevant {A} (f h : A -> bool) l :
  (forall x, In x l -> h x = false -> f x = false) -> filter f (filter h l) = filter f l.
Proof.
  intro H. induction l as [|x r IH]; simpl; [reflexivity|].
  assert (IH' : filter f (filter h r) = filter f r) by (apply IH; intros; apply H; [now right|assumption]).
  destruct (h x) eqn:E; simpl.
  - now rewrite IH'.
  - rewrite (H x (or_introl eq_refl) E). exact IH'.
Qed.

Lemma view_remove_nodes G ids g' :
  (forall i, In i ids -> memN i (ids_in G g') = false) ->
  view (nx_remove_nodes G ids) g' = view G g'.
Proof.
  intro H. unfold view, nx_remove_nodes, ids_in. simpl.
  assert (E : filter (in_g g') (filter (fun n => negb (memN (fst n) ids)) (gn G)) = filter (in_g g') (gn G)).
  { apply filter_filter_irrelevant. intros [i ps] Hin Hh. simpl in Hh.
    apply negb_false_iff in Hh. apply memN_In in Hh. specialize (H i Hh).
    destruct (in_g g' (i, ps)) eqn:Eg; [|reflexivity]. exfalso.
    apply memN_false in H. apply H. unfold ids_in. apply in_map_iff. exists (i, ps). split; [reflexivity|].
    apply filter_In. now split. }
  rewrite E. f_equal. apply filter_filter_irrelevant.
  intros [[a b] ps] _ Hh. apply negb_false_iff in Hh. apply orb_true_iff in Hh as [Hh|Hh]; apply memN_In in Hh.
  - apply in_ids_false_l. fold (ids_in G g'). now apply H.
  - apply in_ids_false_r. fold (ids_in G g'). now apply H.
Qed.

Lemma view_remove_node G id g' :
  memN id (ids_in G g') = false -> view (nx_remove_node G id) g' = view G g'.
Proof.
  intro H. unfold view, nx_remove_node, ids_in. simpl.
  assert (E : filter (in_g g') (filter (fun n => negb (N.eqb (fst n) id)) (gn G)) = filter (in_g g') (gn G)).
  { apply filter_filter_irrelevant. intros [i ps] Hin Hh. simpl in Hh.
    apply negb_false_iff in Hh. apply N.eqb_eq in Hh; subst i.
    destruct (in_g g' (id, ps)) eqn:Eg; [|reflexivity]. exfalso.
    apply memN_false in H. apply H. unfold ids_in. apply in_map_iff. exists (id, ps). split; [reflexivity|].
    apply filter_In. now split. }
  rewrite E. f_equal. apply filter_filter_irrelevant.
  intros [[a b] ps] _ Hh. apply negb_false_iff in Hh. unfold edge_touches in Hh.
  apply orb_true_iff in Hh as [Hh|Hh]; apply N.eqb_eq in Hh; subst.
  - apply in_ids_false_l. exact H.
  - apply in_ids_false_r. exact H.
Qed.

Lemma view_add_node_fresh G id attrs g' :
  nx_node G id = None -> in_g g' (id, attrs) = false ->
  view (nx_add_node G id attrs) g' = view G g'.
Proof.
  intros Hn Hg. unfold nx_add_node. rewrite Hn. unfold view, ids_in. simpl.
  rewrite filter_app. simpl. rewrite Hg. rewrite app_nil_r. reflexivity.
Qed.

Lemma filter_map_stable {A} (f : A -> bool) (F : A -> A) l :
  (forall x, In x l -> f (F x) = f x /\ (f x = true -> F x = x)) -> filter f (map F l) = filter f l.
Proof.
  intro H. induction l as [|x r IH]; simpl; [reflexivity|].
  destruct (H x (or_introl eq_refl)) as [H1 H2]. rewrite H1.
  assert (IH' : filter f (map F r) = filter f r) by (apply IH; intros; apply H; now right).
  destruct (f x) eqn:E; [rewrite (H2 eq_refl)|]; now rewrite IH'.
Qed.

Lemma view_same_filter G' G g' :
  filter (in_g g') (gn G') = filter (in_g g') (gn G) -> ge G' = ge G -> view G' g' = view G g'.
Proof. intros H1 H2. unfold view, ids_in. now rewrite H1, H2. Qed.

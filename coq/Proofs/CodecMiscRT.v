(* C03: Tags, JSONData, PathInfo / ERO, MaintenanceInfo, typed tuples *)
From Coq Require Import String List NArith ZArith Bool Lia Permutation.
From FIM Require Import Base.Str Base.Json Base.JsonRT Gen.CodecGen Model.CodecField Model.CodecMisc Model.CodecWf
     Proofs.CodecAssoc.
Import ListNotations.

(* ------------------------------------------------------------------ Tags *)
Section TagsProofs.
  Variable VT : str -> bool.

  Lemma tags_each_ok t : forallb VT t = true -> tags_each VT (map JStr t) = Ok t.
  Proof.
    induction t as [|s t IH]; simpl; [reflexivity|]. intro H. apply andb_true_iff in H as [H1 H2].
    rewrite H1, (IH H2). reflexivity.
  Qed.

  Theorem tags_roundtrip t : tags_wf VT t = true ->
    tags_from_json VT (Some (tags_to_json t)) = Ok (Some t).
  Proof.
    unfold tags_wf. intro W.
    assert (W1 : forallb VT t = true /\ forallb str_ok t = true).
    { split; apply forallb_forall; intros x Hx; rewrite forallb_forall in W; specialize (W x Hx);
        apply andb_true_iff in W; tauto. }
    destruct W1 as [W1 W2].
    unfold tags_from_json, tags_to_json.
    assert (J : jwfb (JArr (map JStr t)) = true).
    { cbn [jwfb]. rewrite forallb_forall in *. intros y Hy. apply in_map_iff in Hy as (x & <- & Hx). exact (W2 x Hx). }
    cbn [jprint]. change (Nat.eqb (List.length (91%N :: ?x)) 0) with false.
    match goal with |- context [str_eqb (91%N :: ?x) ?n] => change (str_eqb (91%N :: x) n) with false end.
    cbn [orb]. cbv iota.
    change (91%N :: join sep_comma (map jprint (map JStr t)) ++ [93%N]) with (jprint (JArr (map JStr t))).
    rewrite (jparse_jprint _ J). cbn [tags_make]. rewrite (tags_each_ok t W1). rewrite List.app_nil_r. reflexivity.
  Qed.

  Theorem tags_canonical t u : tags_wf VT t = true ->
    tags_from_json VT (Some (tags_to_json t)) = Ok (Some u) -> tags_to_json u = tags_to_json t.
  Proof. intros W H. rewrite (tags_roundtrip t W) in H. congruence. Qed.

  (* every tag of a constructed Tags value passed the pattern *)
  Lemma tags_each_valid l t : tags_each VT l = Ok t -> forallb VT t = true.
  Proof.
    revert t. induction l as [|v l IH]; intros t H; simpl in H.
    - injection H as <-. reflexivity.
    - destruct v; try discriminate. simpl in H. destruct (VT s) eqn:E; [|discriminate].
      destruct (tags_each VT l) as [t'|] eqn:E2; [|discriminate]. injection H as <-.
      simpl. rewrite E. exact (IH t' eq_refl).
  Qed.

  Theorem tags_make_valid args t : tags_make VT args = Ok t -> forallb VT t = true.
  Proof.
    revert t. induction args as [|a args IH]; intros t H; cbn [tags_make] in H.
    - injection H as <-. reflexivity.
    - destruct (match a with JArr l => tags_each VT l | _ => tags_each VT [a] end) as [t1|] eqn:E1; [|discriminate].
      destruct (tags_make VT args) as [t2|] eqn:E2; [|discriminate]. injection H as <-.
      rewrite forallb_app. rewrite (IH t2 eq_refl), andb_true_r.
      destruct a; apply (tags_each_valid _ _ E1).
  Qed.
End TagsProofs.

(* ------------------------------------------------------------------ JSONData *)
Definition jd_input_wf (i : jd_input) : bool := match i with JDObj v => jwfb v | _ => true end.
Definition jd_value (i : jd_input) : option json :=
  match i with JDNone => Some (JObj []) | JDText s => jparse s | JDObj v => Some v end.

Theorem jd_roundtrip mx exn i t : (2 <= mx)%N -> jd_input_wf i = true -> jd_make mx exn i = Ok t ->
  jd_make mx exn (JDText (jd_json t)) = Ok t /\ jd_data t = jd_value i /\ jd_data t <> None.
Proof.
  intros M W H. unfold jd_json, jd_data. destruct i as [|s|v]; simpl in *.
  - injection H as <-. simpl.
    assert (E : (mx <? 2)%N = false) by (apply N.ltb_ge; exact M).
    change (N.of_nat 2) with 2%N. rewrite E. split; [reflexivity|]. split; [reflexivity|discriminate].
  - destruct (mx <? N.of_nat (List.length s))%N eqn:E; [discriminate|].
    destruct (jparse s) eqn:P; [|discriminate]. injection H as <-. rewrite E, P.
    split; [reflexivity|]. split; [reflexivity|discriminate].
  - destruct (mx <? N.of_nat (List.length (jprint v)))%N eqn:E; [discriminate|]. injection H as <-.
    rewrite E, (jparse_jprint v W). split; [reflexivity|]. split; [reflexivity|discriminate].
Qed.

Lemma jsondata_limits_ok : forallb (fun x => (2 <=? snd (fst x))%N) jsondata_classes = true.
Proof. reflexivity. Qed.

(* ------------------------------------------------------------------ PathInfo / ERO *)
Lemma strict_spellings : existsb (str_eqb (S"True")) ero_strict_true = true /\ existsb (str_eqb (S"False")) ero_strict_true = false.
Proof. split; reflexivity. Qed.

Theorem pi_roundtrip ero p : pinfo_wf ero p = true ->
  exists s, pi_to_json p = Ok s /\ pi_from_json ero (Some s) = Ok (if pinfo_nothing p then None else Some p).
Proof.
  destruct p as [ty pl st]. unfold pinfo_wf, pinfo_nothing. cbn [pi_type pi_payload pi_strict]. intro W.
  apply andb_true_iff in W as [W W3]. apply andb_true_iff in W as [W1 W2].
  destruct ty as [[|]|]; destruct pl as [j|a z]; try discriminate.
  - (* Path-typed, set() not called: '' and absent *)
    destruct j; try discriminate. exists []. split; reflexivity.
  - (* Path-typed, Path payload *)
    cbn [payload_wf] in W1. apply andb_true_iff in W1 as [Wa Wz].
    destruct ero, st as [b|]; try discriminate; eexists; (split; [reflexivity|]).
    + destruct b; unfold pi_from_json; cbn [pi_type pi_payload pi_strict ptype_str app payload_unset];
        (match goal with |- context [jprint ?v] =>
           assert (J : jwfb v = true) by (cbn; rewrite Wa, Wz; reflexivity);
           change (Nat.eqb (List.length (jprint v)) 0) with false; cbv iota; rewrite (jparse_jprint v J) end);
        reflexivity.
    + unfold pi_from_json; cbn [pi_type pi_payload pi_strict ptype_str app payload_unset];
        (match goal with |- context [jprint ?v] =>
           assert (J : jwfb v = true) by (cbn; rewrite Wa, Wz; reflexivity);
           change (Nat.eqb (List.length (jprint v)) 0) with false; cbv iota; rewrite (jparse_jprint v J) end);
        reflexivity.
  - (* Graph-typed: a graph id, or nothing *)
    cbn [payload_wf] in W1.
    destruct j; try discriminate.
    + exists []. split; reflexivity.
    + destruct ero, st as [b|]; try discriminate; eexists; (split; [reflexivity|]);
      try destruct b; unfold pi_from_json; cbn [pi_type pi_payload pi_strict ptype_str app payload_unset];
        (match goal with |- context [jprint ?v] =>
           assert (J : jwfb v = true) by (cbn in W1 |- *; rewrite ?W1; reflexivity);
           change (Nat.eqb (List.length (jprint v)) 0) with false; cbv iota; rewrite (jparse_jprint v J) end);
        reflexivity.
Qed.

Theorem pi_canonical ero p q s : pinfo_wf ero p = true -> pi_to_json p = Ok s ->
  pi_from_json ero (Some s) = Ok (Some q) -> pi_to_json q = Ok s.
Proof.
  intros W E H. destruct (pi_roundtrip ero p W) as (s' & E1 & E2). rewrite E in E1. injection E1 as <-.
  rewrite E2 in H. destruct (pinfo_nothing p); [discriminate|]. injection H as <-. exact E.
Qed.

(* forward compatibility: the decoder reads only type / payload / strict; any other key is ignored *)
Theorem pi_forward_compat ero d d' :
  (forall k, In k [k_type; k_payload; k_strict] -> aget k d' = aget k d) ->
  pi_of_jv ero (JObj d') = pi_of_jv ero (JObj d).
Proof.
  intro H. unfold pi_of_jv.
  rewrite (H k_type), (H k_payload), (H k_strict) by (simpl; tauto). reflexivity.
Qed.

Lemma aget_app_extra {V} k (d extra : list (str * V)) : aget k extra = None -> aget k (d ++ extra) = aget k d.
Proof.
  intro H. induction d as [|[k0 v0] d IH]; simpl; [exact H|]. destruct (str_eqb k k0); [reflexivity|exact IH].
Qed.

(* nothing set (set() never called) is encoded as empty text *)
Lemma pi_unset_empty p : pinfo_nothing p = true -> pi_to_json p = Ok [].
Proof. unfold pinfo_nothing, pi_to_json. intros ->. reflexivity. Qed.

(* ------------------------------------------------------------------ MaintenanceInfo *)
Lemma minfo_eta m : mi_lock m = true -> {| mi_nodes := mi_nodes m; mi_lock := true |} = m.
Proof. destruct m as [n l]. simpl. intros ->. reflexivity. Qed.

Lemma mstep_locked m o : mi_lock m = true ->
  fst (mstep m o) = m /\ (mutating o = true -> snd (mstep m o) = RErr e_maint).
Proof.
  intro L. destruct o; simpl; rewrite ?L; simpl; try (split; [reflexivity|]; intros; reflexivity || discriminate).
  split; [apply minfo_eta; exact L|discriminate].
Qed.

(* a finalized record cannot be altered: over EVERY sequence of operations the record stays the same and
   every mutating operation reports MaintenanceModeException *)
Theorem maint_finalized_immutable ops : forall m, mi_lock m = true ->
  fst (mrun m ops) = m /\
  Forall2 (fun o r => mutating o = true -> r = RErr e_maint) ops (snd (mrun m ops)).
Proof.
  induction ops as [|o ops IH]; intros m L; simpl.
  - split; [reflexivity|constructor].
  - destruct (mstep_locked m o L) as [E1 E2].
    destruct (mstep m o) as [m1 x] eqn:E. simpl in E1, E2. subst m1.
    destruct (IH m L) as [F1 F2]. destruct (mrun m ops) as [m2 xs]. simpl in *.
    split; [exact F1|constructor; [exact E2|exact F2]].
Qed.

(* copy(): an unfinalized record with the same entries *)
Theorem maint_copy_spec m : mi_nodes (mi_copy m) = mi_nodes m /\ mi_lock (mi_copy m) = false.
Proof. split; reflexivity. Qed.

(* whatever is done to the copy (and copy() itself) leaves the original -- entries, lock and therefore its encoding --
   exactly as it was: for ALL sequences of copy / operations on the copy *)
Theorem maint_copy_independent ops : forall s, forallb (fun o => negb (on_original o)) ops = true ->
  fst (fst (mrun2 s ops)) = fst s.
Proof.
  induction ops as [|o ops IH]; intros s H; [reflexivity|].
  cbn [forallb] in H. apply andb_true_iff in H as [Ho H]. cbn [mrun2].
  assert (E : fst (fst (mstep2 s o)) = fst s).
  { destruct o as [op| |op]; [discriminate|reflexivity|]. cbn [mstep2]. destruct (snd s) as [c|]; [|reflexivity].
    destruct (mstep c op). reflexivity. }
  destruct (mstep2 s o) as [s1 x]. specialize (IH s1 H). destruct (mrun2 s1 ops) as [s2 xs]. cbn [fst] in *. congruence.
Qed.

(* a finalized original survives EVERY mixed history (operations on it, copies, operations on the copies) *)
Theorem maint_finalized_immutable_with_copies ops : forall s, mi_lock (fst s) = true ->
  fst (fst (mrun2 s ops)) = fst s.
Proof.
  induction ops as [|o ops IH]; intros s L; [reflexivity|]. cbn [mrun2].
  assert (E : fst (fst (mstep2 s o)) = fst s).
  { destruct o as [op| |op]; [|reflexivity|].
    - cbn [mstep2]. pose proof (mstep_locked (fst s) op L) as [Q _]. destruct (mstep (fst s) op). exact Q.
    - cbn [mstep2]. destruct (snd s) as [c|]; [|reflexivity]. destruct (mstep c op). reflexivity. }
  destruct (mstep2 s o) as [s1 x]. assert (L1 : mi_lock (fst s1) = true) by (cbn [fst] in E; rewrite E; exact L).
  specialize (IH s1 L1). destruct (mrun2 s1 ops) as [s2 xs]. cbn [fst] in *. congruence.
Qed.

(* finalize is reached, and stays, from any state *)
Theorem maint_finalize_locks m : mi_lock (fst (mstep m MFinalize)) = true.
Proof. reflexivity. Qed.

Section MaintProofs.
  Variable VISO : str -> bool.

  Lemma mstate_roundtrip s : mstate_of_str (mstate_str s) = Some s.
  Proof. destruct s; reflexivity. Qed.
  Lemma mstate_str_ok s : str_ok (mstate_str s) = true.
  Proof. destruct s; reflexivity. Qed.

  Lemma iso_arg_ok o : iso_ok VISO o = true -> iso_arg VISO (Some (jopt_str o)) = Ok o.
  Proof.
    destruct o as [s|]; simpl; [|reflexivity]. intro H.
    apply andb_true_iff in H as [H H3]. apply andb_true_iff in H as [H1 H2].
    rewrite H3, H1. reflexivity.
  Qed.

  Lemma mentry_roundtrip e : mentry_wf VISO e = true -> mentry_of_jv VISO (mentry_json e) = Ok e.
  Proof.
    destruct e as [st dl en]. unfold mentry_wf. cbn [me_deadline me_end]. intro W.
    apply andb_true_iff in W as [W1 W2].
    unfold mentry_of_jv, mentry_json. cbn [me_state me_deadline me_end].
    change (aget k_state _) with (Some (match st with Some s => JStr (mstate_str s) | None => JNull end)). cbv iota beta.
    change (aget k_deadline _) with (Some (jopt_str dl)).
    change (aget k_end _) with (Some (jopt_str en)).
    rewrite (iso_arg_ok dl W1), (iso_arg_ok en W2).
    destruct st as [s|]; [rewrite mstate_roundtrip|]; reflexivity.
  Qed.

  Lemma mentry_jwfb e : mentry_wf VISO e = true -> jwfb (mentry_json e) = true.
  Proof.
    destruct e as [st dl en]. unfold mentry_wf. cbn [me_deadline me_end]. intro W.
    apply andb_true_iff in W as [W1 W2].
    assert (Q : forall o, iso_ok VISO o = true -> jwfb (jopt_str o) = true).
    { intros [s|]; simpl; [|reflexivity]. intro H. apply andb_true_iff in H as [H _]. apply andb_true_iff in H as [_ H]. exact H. }
    unfold mentry_json. cbn [jwfb forallb fst snd map me_state me_deadline me_end].
    rewrite (Q dl W1), (Q en W2).
    destruct st as [s|]; [cbn [jwfb]; rewrite mstate_str_ok|]; reflexivity.
  Qed.

  Lemma mentries_roundtrip nodes : forallb (fun ne => str_ok (fst ne) && mentry_wf VISO (snd ne)) nodes = true ->
    mentries_of VISO (map (fun ne => (fst ne, mentry_json (snd ne))) nodes) = Ok nodes.
  Proof.
    induction nodes as [|[n e] nodes IH]; [reflexivity|]. intro H. cbn [forallb fst snd] in H.
    apply andb_true_iff in H as [H1 H2]. apply andb_true_iff in H1 as [_ H1].
    cbn [map mentries_of fst snd].
    rewrite (mentry_roundtrip e H1), (IH H2). reflexivity.
  Qed.

  Theorem maint_roundtrip m : minfo_wf VISO m = true -> mi_lock m = true ->
    exists s, mi_to_json m = Ok s /\ mi_from_json VISO (Some s) = Ok (Some m).
  Proof.
    unfold minfo_wf. intros W L. apply andb_true_iff in W as [ND W].
    unfold mi_to_json. rewrite L. eexists. split; [reflexivity|].
    set (d := map (fun ne => (fst ne, mentry_json (snd ne))) (mi_nodes m)).
    assert (J : jwfb (JObj d) = true).
    { cbn [jwfb]. apply andb_true_iff. split.
      - subst d. apply forallb_forall. intros y Hy. apply in_map_iff in Hy as ([n e] & <- & Hx). cbn [fst snd].
        rewrite forallb_forall in W. specialize (W (n, e) Hx). cbn [fst snd] in W.
        apply andb_true_iff in W as [W1 W2]. rewrite W1, (mentry_jwfb e W2). reflexivity.
      - subst d. rewrite map_map. cbn [fst]. exact ND. }
    unfold mi_from_json. cbn [jprint].
    change (Nat.eqb (List.length (123%N :: ?x)) 0) with false. cbv iota.
    change (123%N :: join sep_comma (map (fun kv => print_str (fst kv) ++ sep_colon ++ jprint (snd kv)) d) ++ [125%N])
      with (jprint (JObj d)).
    rewrite (jparse_jprint _ J). unfold mi_of_jv. subst d.
    rewrite (mentries_roundtrip _ W). rewrite (minfo_eta m L). reflexivity.
  Qed.

  (* what the decoder returns is finalized *)
  Theorem maint_decoded_is_finalized t m : mi_from_json VISO t = Ok (Some m) -> mi_lock m = true.
  Proof.
    unfold mi_from_json. destruct t as [s|]; [|discriminate].
    destruct (Nat.eqb (List.length s) 0); [discriminate|].
    destruct (jparse s) as [j|]; [|discriminate]. unfold mi_of_jv.
    destruct j; try discriminate. destruct (mentries_of VISO m0); [|discriminate].
    intros [= <-]. reflexivity.
  Qed.

  (* forward compatibility at the node level: an additional node does not disturb the known ones *)
  Theorem maint_extra_node d n v l e : mentries_of VISO d = Ok l -> mentry_of_jv VISO v = Ok e ->
    mentries_of VISO (d ++ [(n, v)]) = Ok (l ++ [(n, e)]).
  Proof.
    revert l. induction d as [|[n0 v0] d IH]; intros l H He; simpl in *.
    - injection H as <-. rewrite He. reflexivity.
    - destruct (mentry_of_jv VISO v0); [|discriminate].
      destruct (mentries_of VISO d) as [l'|]; [|discriminate]. injection H as <-.
      rewrite (IH l' eq_refl He). reflexivity.
  Qed.
End MaintProofs.

(* forward compatibility inside an entry: only state / deadline / expected_end are read *)
Theorem maint_entry_forward_compat VISO d d' :
  (forall k, In k [k_state; k_deadline; k_end] -> aget k d' = aget k d) ->
  mentry_of_jv VISO (JObj d') = mentry_of_jv VISO (JObj d).
Proof.
  intro H. unfold mentry_of_jv.
  rewrite (H k_state), (H k_deadline), (H k_end) by (simpl; tauto). reflexivity.
Qed.

(* ------------------------------------------------------------------ typed tuples *)
Lemma lstrip_id s : match s with [] => True | c :: _ => py_space c = false end -> lstrip s = s.
Proof. destruct s as [|c r]; [reflexivity|]. simpl. intros ->. reflexivity. Qed.

Lemma split1_sep sep a b : existsb (N.eqb sep) a = false -> split1 sep (a ++ sep :: b) = Some (a, b).
Proof.
  induction a as [|c a IH]; simpl; intro H.
  - rewrite N.eqb_refl. reflexivity.
  - apply orb_false_iff in H as [H1 H2]. rewrite N.eqb_sym, H1. rewrite (IH H2). reflexivity.
Qed.

Lemma types_of_in cat t : In t (types_of cat) -> exists ct, In ct tuple_types /\ In t (snd ct).
Proof.
  unfold types_of. destruct (find _ tuple_types) as [ct|] eqn:E; [|intros []].
  intro H. exists ct. split; [|exact H]. apply find_some in E. tauto.
Qed.

Theorem tt_roundtrip_partial cat t : tuple_vocab_ok = true -> ttuple_wf cat t = true ->
  tval_plain (tt_val t) = true -> tt_fromstring cat (tt_string t) = Ok t.
Proof.
  intros VO W P. destruct t as [ty v]. unfold ttuple_wf in W. cbn [tt_type tt_val] in *.
  destruct v as [s|z]; [|discriminate]. unfold tval_plain in P.
  unfold tuple_vocab_ok in VO. apply andb_true_iff in VO as [VO L1]. apply andb_true_iff in VO as [VO SP].
  apply negb_true_iff in SP.
  assert (TN : type_name_ok ty = true).
  { apply existsb_exists in W as (x & Hx & E). apply str_eqb_eq in E. subst x.
    destruct (types_of_in cat ty Hx) as (ct & H1 & H2).
    rewrite forallb_forall in VO. specialize (VO ct H1). rewrite forallb_forall in VO. exact (VO ty H2). }
  unfold type_name_ok in TN. apply andb_true_iff in TN as [TN T3]. apply andb_true_iff in TN as [T1 T2].
  apply negb_true_iff in T1.
  assert (SE : tuple_separator = [sep_char]).
  { unfold sep_char. destruct tuple_separator as [|c [|c2 r]]; try discriminate. reflexivity. }
  unfold tt_fromstring, tt_string. cbn [tt_type tt_val tval_str]. rewrite SE.
  assert (ST : py_strip (ty ++ [sep_char] ++ s) = ty ++ [sep_char] ++ s).
  { assert (R : rev (ty ++ [sep_char] ++ s) = rev s ++ [sep_char] ++ rev ty).
    { rewrite !rev_app_distr. simpl. rewrite <- app_assoc. reflexivity. }
    unfold py_strip. rewrite (lstrip_id (ty ++ [sep_char] ++ s)).
    - rewrite R. rewrite (lstrip_id (rev s ++ [sep_char] ++ rev ty)).
      + rewrite <- R. apply rev_involutive.
      + destruct (rev s) as [|c r]; [exact SP|]. apply negb_true_iff in P. exact P.
    - destruct ty as [|c r]; [discriminate|]. apply negb_true_iff in T2. exact T2. }
  rewrite ST. cbn [List.app]. rewrite (split1_sep sep_char ty s T1).
  unfold tt_make. rewrite W. reflexivity.
Qed.

(* FULL statement (refuted): a typed tuple reads back as the value that was encoded *)
Lemma tt_int_value_refuted : exists cat t u, ttuple_wf cat t = true /\ tt_fromstring cat (tt_string t) = Ok u /\ u <> t
  /\ tt_string u = tt_string t.
Proof.
  exists (S"cap"), {| tt_type := S"ram"; tt_val := TVInt 1000 |}, {| tt_type := S"ram"; tt_val := TVStr (S"1000") |}.
  repeat split; try reflexivity. discriminate.
Qed.
Lemma tt_trailing_space_refuted : exists cat t u, ttuple_wf cat t = true /\ tt_fromstring cat (tt_string t) = Ok u /\ u <> t.
Proof.
  exists (S"label"), {| tt_type := S"mac"; tt_val := TVStr (S"x ") |}, {| tt_type := S"mac"; tt_val := TVStr (S"x") |}.
  repeat split; try reflexivity. discriminate.
Qed.

Lemma tuple_vocab_ok_true : tuple_vocab_ok = true.
Proof. reflexivity. Qed.

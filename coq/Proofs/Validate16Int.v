(* C16 proofs: py_int (the model of Python's int(str), base 10) accepts exactly the declarative integer
   literals `int_literal` of Model/Labels16Spec.v and returns their value. *)
From Coq Require Import List ZArith NArith Bool String Lia.
From FIM Require Import Base.Str Model.Labels16Types Gen.UnicodeClasses Gen.LabelValidators Model.Labels16 Model.Labels16Spec.
Import ListNotations.

(* ---------------- facts about the regenerated tables ---------------- *)

Lemma in_rng_range t c : in_rng t c = true -> exists lo hi, In (lo, hi) t /\ (lo <= c <= hi)%N.
Proof.
  induction t as [|[lo hi] t IH]; simpl; [discriminate|].
  destruct (N.ltb c lo) eqn:A; [discriminate|]. destruct (N.leb c hi) eqn:B.
  - intros _. exists lo, hi. apply N.ltb_ge in A. apply N.leb_le in B. split; [left; reflexivity | lia].
  - intro H. destruct (IH H) as (lo' & hi' & Hin & Hr). exists lo', hi'. split; [right; exact Hin | exact Hr].
Qed.

Lemma digit_val_in_range t c d : digit_val_in t c = Some d -> exists lo hi, In (lo, hi) t /\ (lo <= c <= hi)%N.
Proof.
  induction t as [|[lo hi] t IH]; simpl; [discriminate|].
  destruct (N.ltb c lo) eqn:A; [discriminate|]. destruct (N.leb c hi) eqn:B.
  - intros _. exists lo, hi. apply N.ltb_ge in A. apply N.leb_le in B. split; [left; reflexivity | lia].
  - intro H. destruct (IH H) as (lo' & hi' & Hin & Hr). exists lo', hi'. split; [right; exact Hin | exact Hr].
Qed.

Lemma tables_disjoint :
  forallb (fun a => forallb (fun b => N.ltb (snd a) (fst b) || N.ltb (snd b) (fst a)) int_space_ranges) int_digit_ranges = true.
Proof. vm_compute. reflexivity. Qed.

Lemma digit_not_space c d : digit_val c = Some d -> is_int_space c = false.
Proof.
  intro H. destruct (is_int_space c) eqn:E; [|reflexivity]. exfalso.
  apply digit_val_in_range in H as (lo & hi & Hin & Hr). apply in_rng_range in E as (lo' & hi' & Hin' & Hr').
  pose proof tables_disjoint as D. rewrite forallb_forall in D. specialize (D _ Hin). rewrite forallb_forall in D.
  specialize (D _ Hin'). cbn [fst snd] in D. apply orb_true_iff in D as [D|D]; apply N.ltb_lt in D; lia.
Qed.

Lemma small_facts :
  digit_val 95 = None /\ digit_val 43 = None /\ digit_val 45 = None /\ is_int_space 43 = false /\ is_int_space 45 = false.
Proof. repeat split; vm_compute; reflexivity. Qed.

Lemma digit_not_special c d : digit_val c = Some d -> N.eqb c 95 = false /\ N.eqb c 43 = false /\ N.eqb c 45 = false.
Proof.
  intro H. destruct small_facts as (A & B & C & _).
  repeat split; apply N.eqb_neq; intro; subst; congruence.
Qed.

(* ---------------- digits ---------------- *)

Lemma dg_first s ds : digit_groups s ds -> exists c r d, s = c :: r /\ digit_val c = Some d.
Proof. intro H; inversion H; subst; eauto. Qed.

Lemma dg_last s ds : digit_groups s ds -> exists r c d, s = r ++ [c] /\ digit_val c = Some d.
Proof.
  induction 1 as [c d H | c d s ds H G IH | c d s ds H G IH].
  - exists [], c, d. auto.
  - destruct IH as (r & c' & d' & -> & H'). exists (c :: r), c', d'. auto.
  - destruct IH as (r & c' & d' & -> & H'). exists (c :: 95%N :: r), c', d'. auto.
Qed.

Lemma digits_loop_spec s : forall ds,
  (digits_loop s false = Some ds <->
     (s = [] /\ ds = []) \/ digit_groups s ds \/ (exists s', s = 95%N :: s' /\ digit_groups s' ds)) /\
  (digits_loop s true = Some ds <-> digit_groups s ds).
Proof.
  induction s as [|c s IH]; intro ds.
  - cbn [digits_loop]. split; split; intro H.
    + inversion H; auto.
    + destruct H as [[_ ->]|[H|(s' & H & _)]]; [reflexivity | inversion H | discriminate].
    + discriminate.
    + inversion H.
  - cbn [digits_loop]. destruct (N.eqb c 95) eqn:E95.
    + apply N.eqb_eq in E95. subst c. split; split; intro H.
      * right; right. exists s. split; [reflexivity|]. apply (IH ds); exact H.
      * destruct H as [[H _]|[H|(s' & H & G)]]; [discriminate | | ].
        -- apply dg_first in H as (c & r & d & E & Hd). inversion E; subst. destruct small_facts as (A & _). congruence.
        -- inversion H; subst. apply (IH ds); exact G.
      * discriminate.
      * apply dg_first in H as (c & r & d & E & Hd). inversion E; subst. destruct small_facts as (A & _). congruence.
    + destruct (digit_val c) as [d|] eqn:Ed.
      * assert (Hcore : forall ds0, (match digits_loop s false with Some l => Some (d :: l) | None => None end) = Some ds0 <-> digit_groups (c :: s) ds0).
        { intro ds0. split.
          - destruct (digits_loop s false) as [l|] eqn:El; [|discriminate]. intro H. inversion H; subst ds0.
            destruct (proj1 (proj1 (IH l)) eq_refl) as [[-> ->]|[G|(s' & -> & G)]].
            + constructor; exact Ed.
            + apply DG_more; assumption.
            + apply DG_us; assumption.
          - intro H. inversion H as [c0 d0 Hd | c0 d0 s0 ds1 Hd G | c0 d0 s0 ds1 Hd G]; subst;
              assert (d0 = d) by congruence; subst d0.
            + cbn [digits_loop]. reflexivity.
            + rewrite (proj2 (proj1 (IH ds1))); [reflexivity | right; left; exact G].
            + rewrite (proj2 (proj1 (IH ds1))); [reflexivity | right; right; eauto]. }
        split; split; intro H.
        -- right; left. apply Hcore; exact H.
        -- destruct H as [[H _]|[H|(s' & H & _)]]; [discriminate | apply Hcore; exact H |].
           inversion H; subst. rewrite N.eqb_refl in E95. discriminate.
        -- apply Hcore; exact H.
        -- apply Hcore; exact H.
      * split; split; intro H; try discriminate.
        -- destruct H as [[H _]|[H|(s' & H & _)]]; [discriminate | |].
           ++ apply dg_first in H as (c' & r & d & E & Hd). inversion E; subst. congruence.
           ++ inversion H; subst. rewrite N.eqb_refl in E95. discriminate.
        -- apply dg_first in H as (c' & r & d & E & Hd). inversion E; subst. congruence.
Qed.

Lemma parse_digits_spec s ds : parse_digits s = Some ds <-> digit_groups s ds.
Proof.
  unfold parse_digits. destruct s as [|c r].
  - split; [discriminate | intro H; inversion H].
  - destruct (N.eqb c 95) eqn:E.
    + split; [discriminate|]. intro H. apply dg_first in H as (c' & r' & d & E' & Hd). inversion E'; subst.
      apply digit_not_special in Hd as (A & _). congruence.
    + rewrite (proj1 (digits_loop_spec (c :: r) ds)). split.
      * intros [[H _]|[H|(s' & H & _)]]; [discriminate | exact H |]. inversion H; subst. rewrite N.eqb_refl in E. discriminate.
      * auto.
Qed.

(* ---------------- white space ---------------- *)

Definition head_not (p : N -> bool) (s : str) : Prop := match s with [] => True | c :: _ => p c = false end.

Lemma drop_while_app p ws rest : forallb p ws = true -> head_not p rest -> drop_while p (ws ++ rest) = rest.
Proof.
  induction ws as [|w ws IH]; simpl; intros F H.
  - destruct rest as [|c r]; simpl in *; [reflexivity | rewrite H; reflexivity].
  - apply andb_true_iff in F as [F1 F2]. rewrite F1. apply IH; assumption.
Qed.

Lemma drop_while_split p s : exists ws, s = ws ++ drop_while p s /\ forallb p ws = true /\ head_not p (drop_while p s).
Proof.
  induction s as [|c s IH]; simpl.
  - exists []. auto.
  - destruct (p c) eqn:E.
    + destruct IH as (ws & E1 & F & H). exists (c :: ws). simpl. rewrite E, F. split; [f_equal; exact E1 | auto].
    + exists []. simpl. auto.
Qed.

Lemma forallb_rev {A} (p : A -> bool) l : forallb p (rev l) = forallb p l.
Proof.
  induction l as [|x l IH]; simpl; [reflexivity|]. rewrite forallb_app, IH. simpl. rewrite andb_true_r. apply andb_comm.
Qed.

Lemma strip_ws_of ws1 core l ws2 :
  forallb is_int_space ws1 = true -> forallb is_int_space ws2 = true ->
  head_not is_int_space (core ++ [l]) -> is_int_space l = false ->
  strip_ws (ws1 ++ (core ++ [l]) ++ ws2) = core ++ [l].
Proof.
  intros F1 F2 Hh Hl. unfold strip_ws. rewrite drop_while_app.
  - rewrite rev_app_distr. rewrite drop_while_app.
    + apply rev_involutive.
    + rewrite forallb_rev. exact F2.
    + rewrite rev_app_distr. simpl. exact Hl.
  - exact F1.
  - destruct core; simpl in *; exact Hh.
Qed.

Lemma strip_ws_split s : exists ws1 ws2, s = ws1 ++ strip_ws s ++ ws2 /\
  forallb is_int_space ws1 = true /\ forallb is_int_space ws2 = true.
Proof.
  unfold strip_ws. destruct (drop_while_split is_int_space s) as (ws1 & E1 & F1 & _).
  set (m := drop_while is_int_space s) in *.
  destruct (drop_while_split is_int_space (rev m)) as (ws2 & E2 & F2 & _).
  exists ws1, (rev ws2). split; [|split; [exact F1 | rewrite forallb_rev; exact F2]].
  rewrite E1 at 1. f_equal. rewrite <- (rev_involutive m) at 1. rewrite E2 at 1. rewrite rev_app_distr. reflexivity.
Qed.

(* ---------------- int() ---------------- *)

Definition limit_ok (ds : list N) : Prop :=
  int_max_str_digits = 0%N \/ (N.of_nat (List.length ds) <= int_max_str_digits)%N.

Lemma limit_test ds :
  (negb (N.eqb int_max_str_digits 0) && N.ltb int_max_str_digits (N.of_nat (List.length ds))) = false <-> limit_ok ds.
Proof.
  unfold limit_ok. destruct (N.eqb int_max_str_digits 0) eqn:E; cbn [negb andb].
  - apply N.eqb_eq in E. tauto.
  - apply N.eqb_neq in E. rewrite N.ltb_ge. split; [auto | intros [H|H]; [contradiction | exact H]].
Qed.

Theorem py_int_complete s z : int_literal s z -> py_int s = Some z.
Proof.
  intros (ws1 & sign & body & ws2 & ds & -> & F1 & F2 & Hs & G & L & ->).
  destruct (dg_last _ _ G) as (r & l & dl & Eb & Hl). destruct (dg_first _ _ G) as (c & r' & dc & Ec & Hc).
  pose proof (digit_not_space _ _ Hl) as Sl. pose proof (digit_not_space _ _ Hc) as Sc.
  destruct (digit_not_special _ _ Hc) as (_ & C43 & C45).
  destruct small_facts as (_ & _ & _ & S43 & S45).
  apply limit_test in L. apply parse_digits_spec in G.
  unfold py_int.
  destruct Hs as [-> | [-> | ->]]; cbn [app list_eqb].
  - replace (strip_ws (ws1 ++ body ++ ws2)) with body.
    + rewrite Ec in *. rewrite C43, C45, G, L. reflexivity.
    + rewrite Eb. symmetry. apply strip_ws_of; try assumption. rewrite <- Eb, Ec. exact Sc.
  - replace (strip_ws (ws1 ++ 43%N :: body ++ ws2)) with (43%N :: body).
    + cbn [N.eqb Pos.eqb]. rewrite G, L. reflexivity.
    + rewrite Eb. symmetry. apply (strip_ws_of ws1 (43%N :: r) l ws2); try assumption.
  - replace (strip_ws (ws1 ++ 45%N :: body ++ ws2)) with (45%N :: body).
    + cbn [N.eqb Pos.eqb]. rewrite G, L. cbn [N.eqb Pos.eqb andb]. reflexivity.
    + rewrite Eb. symmetry. apply (strip_ws_of ws1 (45%N :: r) l ws2); try assumption.
Qed.

Theorem py_int_sound s z : py_int s = Some z -> int_literal s z.
Proof.
  unfold py_int. destruct (strip_ws_split s) as (ws1 & ws2 & Es & F1 & F2).
  set (s1 := strip_ws s) in *. intro H.
  assert (Hgen : forall sign body neg, s1 = sign ++ body ->
            (sign = [] \/ sign = [43%N] \/ sign = [45%N]) -> neg = list_eqb N.eqb sign [45%N] ->
            match parse_digits body with
            | Some ds => if negb (N.eqb int_max_str_digits 0) && N.ltb int_max_str_digits (N.of_nat (List.length ds)) then None
                         else Some (if neg then (- Z.of_N (dec_value ds))%Z else Z.of_N (dec_value ds))
            | None => None
            end = Some z -> int_literal s z).
  { intros sign body neg E1 Hs Hn X. destruct (parse_digits body) as [ds|] eqn:P; [|discriminate].
    destruct (negb _ && _) eqn:L; [discriminate|]. inversion X; subst z neg.
    exists ws1, sign, body, ws2, ds. rewrite Es, E1, <- app_assoc.
    split; [reflexivity|]. split; [exact F1|]. split; [exact F2|]. split; [exact Hs|].
    split; [apply parse_digits_spec; exact P|]. split; [apply limit_test; exact L | reflexivity]. }
  destruct s1 as [|c r] eqn:E1.
  - apply (Hgen [] [] false); auto.
  - destruct (N.eqb c 43) eqn:C43.
    + apply N.eqb_eq in C43. subst c. apply (Hgen [43%N] r false); auto.
    + destruct (N.eqb c 45) eqn:C45.
      * apply N.eqb_eq in C45. subst c. apply (Hgen [45%N] r true); auto.
      * apply (Hgen [] (c :: r) false); auto.
Qed.

Theorem py_int_spec s z : py_int s = Some z <-> int_literal s z.
Proof. split; [apply py_int_sound | apply py_int_complete]. Qed.

(* plain runs of decimal digits: the value is the decimal value *)
Lemma digit_groups_plain s : s <> [] -> forall ds, Forall2 (fun c d => digit_val c = Some d) s ds -> digit_groups s ds.
Proof.
  induction s as [|c s IH]; intros Hn ds F; [contradiction|].
  inversion F as [|? d ? ds' Hd F']; subst. destruct s as [|c' s'].
  - inversion F'; subst. constructor; exact Hd.
  - apply DG_more; [exact Hd | apply IH; [discriminate | exact F']].
Qed.

Theorem py_int_plain_digits s ds : s <> [] -> Forall2 (fun c d => digit_val c = Some d) s ds -> limit_ok ds ->
  py_int s = Some (Z.of_N (dec_value ds)).
Proof.
  intros Hn F L. apply py_int_complete. exists [], [], s, [], ds. rewrite app_nil_r.
  repeat split; auto. apply digit_groups_plain; assumption.
Qed.

(* ---------------- a numeric label field, pinned: vlan ---------------- *)
From FIM Require Import Base.Regex Base.RegexSound Proofs.Validate16.

Lemma cls_digit_only c : cls_in catf false [CC cat_digit] c = is_re_digit c.
Proof. unfold cls_in. cbn [existsb citem_in]. change (catf cat_digit c) with (is_re_digit c). destruct (is_re_digit c); reflexivity. Qed.

Lemma forallb_ext_eq' {A} (p q : A -> bool) l : (forall x, p x = q x) -> forallb p l = forallb q l.
Proof. intro H. induction l as [|x l IH]; simpl; [reflexivity | rewrite H, IH; reflexivity]. Qed.

(* Labels(vlan=s) is accepted exactly when s is 1..4 decimal digits (any script) denoting 0..4096 *)
Theorem vlan_domain_pinned s :
  scalar_accepted (S"vlan") s = true <->
  (1 <= List.length s <= 4)%nat /\ forallb is_re_digit s = true /\ exists z, int_literal s z /\ (0 <= z <= 4096)%Z.
Proof.
  assert (Hk : mem_str (S"vlan") label_fields = true) by (vm_compute; reflexivity).
  assert (Hv : lookup (S"vlan") label_validators = Some (rep (Cls false [CC cat_digit]) 1 (Some 4))) by (lazy -[rep]; reflexivity).
  assert (Hl : lookup (S"vlan") label_lambdas = Some (RInt (mkbounds 0 CLe CLe 4096))) by (vm_compute; reflexivity).
  pose proof (accept_iff_domain false labels_init (S"vlan") (LStr s) Hk eq_refl) as A. cbn [elems] in A.
  unfold scalar_accepted. set (k := S"vlan") in *.
  assert (D : in_domain k s <->
              (1 <= List.length s <= 4)%nat /\ forallb is_re_digit s = true /\ exists z, int_literal s z /\ (0 <= z <= 4096)%Z).
  { unfold in_domain. rewrite Hv, Hl. split.
    - intros [H1 H2]. specialize (H1 _ eq_refl). specialize (H2 _ eq_refl). unfold re_lang in H1.
      apply lang_rep_cls in H1; [|lia]. destruct H1 as [L F]. rewrite (forallb_ext_eq' _ is_re_digit) in F by apply cls_digit_only.
      destruct H2 as (z & Hz & Hb). split; [exact L|]. split; [exact F|]. exists z. split; [apply py_int_spec; exact Hz|].
      unfold in_bounds in Hb. cbn in Hb. apply andb_true_iff in Hb as [B1 B2]. apply Z.leb_le in B1, B2. lia.
    - intros (L & F & z & Hz & Hb). split.
      + intros r Hr. assert (Er : r = rep (Cls false [CC cat_digit]) 1 (Some 4)) by congruence. rewrite Er.
        unfold re_lang. apply lang_rep_cls; [lia|]. split; [exact L|].
        rewrite (forallb_ext_eq' _ is_re_digit) by apply cls_digit_only. exact F.
      + intros rk Hr. assert (Er : rk = RInt (mkbounds 0 CLe CLe 4096)) by congruence. rewrite Er. exists z. split; [apply py_int_spec; exact Hz|].
        unfold in_bounds. cbn. apply andb_true_iff. split; apply Z.leb_le; lia. }
  rewrite <- D. destruct (snd (set_one false labels_init (k, LStr s))) eqn:E.
  - split; [discriminate|]. intro H. assert (X : Forall (in_domain k) [s]) by (constructor; [exact H | constructor]).
    apply A in X. discriminate.
  - split; [|reflexivity]. intros _. assert (X : Forall (in_domain k) [s]) by (apply A; reflexivity). inversion X; assumption.
Qed.

(* C14 - store level: merge_adm / unmerge_adm / snapshot / rollback do not alter any OTHER graph of the shared
   store (the source delegation models, the snapshots): its nodes with all their properties and the
   connections among them stay exactly as they were, hence its canonical view.  (Frame theorem over
   Model/Cbm14Store.v.) *)
From Coq Require Import List NArith Bool Lia.
From FIM Require Import Model.Cbm14Store.
Import ListNotations.
Open Scope N_scope.

Lemma memN_In x l : memN x l = true <-> In x l.
Proof.
  unfold memN. rewrite existsb_exists. split.
  - intros (y & H & E). apply N.eqb_eq in E. subst. exact H.
  - intro H. exists x. split; auto. apply N.eqb_refl.
Qed.
Lemma memN_false x l : memN x l = false <-> ~ In x l.
Proof. rewrite <- memN_In. destruct (memN x l); split; intros; congruence. Qed.

(* ---------- the part of the store that belongs to graph g ---------- *)
Definition gnodes (g : N) (ns : list node) : list node := filter (fun n => n_gid n =? g) ns.
Definition gE (I : list N) (es : list edge) : list edge := filter (touches I) es.
(* no connection leaves the graph *)
Definition closedI (I : list N) (es : list edge) : Prop :=
  forall e, In e es -> touches I e = true -> In (e_a e) I /\ In (e_b e) I.
Definition uniq (ns : list node) : Prop := NoDup (map n_int ns).
Definition below (nx : N) (ns : list node) : Prop := forall n, In n ns -> n_int n < nx.
Definition ebelow (nx : N) (es : list edge) : Prop := forall e, In e es -> e_a e < nx /\ e_b e < nx.

(* store invariant + g is closed *)
Definition Good (g : N) (st : store) : Prop :=
  uniq (s_nodes st) /\ below (s_next st) (s_nodes st) /\ ebelow (s_next st) (s_edges st) /\
  closedI (gints g st) (s_edges st).
(* what "g is untouched" means *)
Definition Same (g : N) (st st' : store) : Prop :=
  of_gid g st' = of_gid g st /\ gE (gints g st) (s_edges st') = gE (gints g st) (s_edges st).

Lemma Same_refl g st : Same g st st.
Proof. split; reflexivity. Qed.
Lemma Same_trans g a b c : Same g a b -> Same g b c -> Same g a c.
Proof.
  intros [H1 H2] [H3 H4]. split; [congruence|].
  unfold gints in *. rewrite H1 in H4. congruence.
Qed.
Lemma Same_gints g st st' : Same g st st' -> gints g st' = gints g st.
Proof. intros [H _]. unfold gints. rewrite H. reflexivity. Qed.

(* a node of another graph has an internal id that no node of g has *)
Lemma other_int g ns n : uniq ns -> In n ns -> n_gid n <> g -> ~ In (n_int n) (map n_int (gnodes g ns)).
Proof.
  unfold uniq, gnodes. induction ns as [|m r IH]; simpl; [tauto|].
  intros ND [E|Hin] NE; inversion ND; subst.
  - destruct (n_gid n =? g) eqn:G; [apply N.eqb_eq in G; contradiction|].
    intro X. apply H1. apply in_map_iff in X as (y & E & Hy). apply filter_In in Hy as [Hy _].
    rewrite <- E. apply in_map. exact Hy.
  - destruct (n_gid m =? g) eqn:G; simpl; auto.
    intros [E|X]; [|apply IH in X; auto].
    apply H1. rewrite E. apply in_map. exact Hin.
Qed.

(* ---------- edge-list transformations that leave g's connections alone ---------- *)
Definition EOk (I : list N) (es es' : list edge) : Prop :=
  gE I es' = gE I es /\ (closedI I es -> closedI I es').

Lemma EOk_refl I es : EOk I es es.
Proof. split; auto. Qed.
Lemma EOk_trans I a b c : closedI I a -> EOk I a b -> EOk I b c -> EOk I a c.
Proof. intros C [H1 H2] [H3 H4]. split; [congruence | auto]. Qed.

Lemma EOk_app I es new : (forall e, In e new -> touches I e = false) -> EOk I es (es ++ new).
Proof.
  intro H. split.
  - unfold gE. rewrite filter_app.
    assert (filter (touches I) new = []) as ->; [|apply app_nil_r].
    induction new as [|e r IH]; simpl; auto. rewrite (H e); simpl; auto. apply IH. intros; apply H; simpl; auto.
  - intros C e Hin T. apply in_app_iff in Hin as [Hin|Hin]; [auto|]. rewrite (H e Hin) in T. discriminate.
Qed.

Lemma EOk_filter I es p : (forall e, In e es -> touches I e = true -> p e = true) -> EOk I es (filter p es).
Proof.
  intro H. split.
  - unfold gE. induction es as [|e r IH]; simpl; auto.
    destruct (p e) eqn:P; simpl.
    + destruct (touches I e); [f_equal|]; apply IH; intros; apply H; simpl; auto.
    + destruct (touches I e) eqn:T.
      * rewrite (H e) in P; simpl; auto. discriminate.
      * apply IH; intros; apply H; simpl; auto.
  - intros C e Hin T. apply filter_In in Hin as [Hin _]. auto.
Qed.

Lemma EOk_map I es f :
  (forall e, e_a (f e) = e_a e /\ e_b (f e) = e_b e) ->
  (forall e, In e es -> touches I e = true -> f e = e) -> EOk I es (map f es).
Proof.
  intros Hf H. assert (forall e, touches I (f e) = touches I e) as TT.
  { intro e. unfold touches. destruct (Hf e) as [-> ->]. reflexivity. }
  split.
  - unfold gE. induction es as [|e r IH]; simpl; auto.
    rewrite TT. destruct (touches I e) eqn:T.
    + rewrite (H e); simpl; auto. f_equal. apply IH. intros; apply H; simpl; auto.
    + apply IH. intros; apply H; simpl; auto.
  - intros C e Hin T. apply in_map_iff in Hin as (e0 & E & Hin). subst. rewrite TT in T.
    destruct (Hf e0) as [-> ->]. auto.
Qed.

Lemma touches_false I e : ~ In (e_a e) I -> ~ In (e_b e) I -> touches I e = false.
Proof. intros A B. unfold touches. apply memN_false in A, B. rewrite A, B. reflexivity. Qed.

Lemma closed_other I es e x :
  closedI I es -> In e es -> ~ In x I -> (e_a e = x \/ e_b e = x) -> touches I e = false.
Proof.
  intros C Hin NX EX. destruct (touches I e) eqn:T; auto.
  destruct (C e Hin T) as [A B]. destruct EX; subst; contradiction.
Qed.

(* ---------- delete_node ---------- *)
Lemma EOk_delete I es i : closedI I es -> ~ In i I ->
  EOk I es (filter (fun e => negb (e_a e =? i) && negb (e_b e =? i)) es).
Proof.
  intros C NI. apply EOk_filter. intros e Hin T.
  destruct (C e Hin T) as [A B].
  destruct (e_a e =? i) eqn:E1; [apply N.eqb_eq in E1; subst; contradiction|].
  destruct (e_b e =? i) eqn:E2; [apply N.eqb_eq in E2; subst; contradiction|]. reflexivity.
Qed.

(* ---------- contract ---------- *)
Lemma joins_ends a b e : joins a b e = true -> (e_a e = a /\ e_b e = b) \/ (e_a e = b /\ e_b e = a).
Proof.
  unfold joins. rewrite orb_true_iff, !andb_true_iff, !N.eqb_eq. tauto.
Qed.

Lemma EOk_reattach I es u v e :
  closedI I es -> ~ In u I -> ~ In v I ->
  (let x0 := if e_a e =? v then e_b e else e_a e in ~ In (if x0 =? v then u else x0) I) ->
  EOk I es (reattach u v es e).
Proof.
  intros C NU NV NX. unfold reattach. simpl in NX.
  set (x := if (if e_a e =? v then e_b e else e_a e) =? v then u else (if e_a e =? v then e_b e else e_a e)) in *.
  destruct (has_edge u x es).
  - unfold flag_edge. apply EOk_map.
    + intro e0. destruct (joins u x e0); simpl; auto.
    + intros e0 Hin T. destruct (joins u x e0) eqn:J; auto.
      apply joins_ends in J. rewrite (closed_other I es e0 u C Hin NU) in T; [discriminate|tauto].
  - apply EOk_app. intros e0 [E|[]]. subst. apply touches_false; simpl; auto.
Qed.

Lemma EOk_fold_reattach I u v ev : forall es,
  closedI I es -> ~ In u I -> ~ In v I ->
  (forall e, In e ev -> let x0 := if e_a e =? v then e_b e else e_a e in ~ In (if x0 =? v then u else x0) I) ->
  EOk I es (fold_left (reattach u v) ev es).
Proof.
  induction ev as [|e r IH]; intros es C NU NV H; simpl; [apply EOk_refl|].
  assert (EOk I es (reattach u v es e)) as S by (apply EOk_reattach; auto; apply H; simpl; auto).
  eapply EOk_trans; eauto. apply IH; auto.
  - destruct S; auto.
  - intros; apply H; simpl; auto.
Qed.

Lemma EOk_contract I es u v :
  closedI I es -> ~ In u I -> ~ In v I ->
  EOk I es (fold_left (reattach u v) (filter (fun e => (e_a e =? v) || (e_b e =? v)) es)
                      (filter (fun e => negb (e_a e =? v) && negb (e_b e =? v)) es)).
Proof.
  intros C NU NV.
  assert (EOk I es (filter (fun e => negb (e_a e =? v) && negb (e_b e =? v)) es)) as S by (apply EOk_delete; auto).
  eapply EOk_trans; eauto. apply EOk_fold_reattach; auto.
  - destruct S; auto.
  - intros e Hin. apply filter_In in Hin as [Hin Hv]. simpl.
    assert (touches I e = false) as T.
    { apply (closed_other I es e v C Hin NV). apply orb_true_iff in Hv. rewrite !N.eqb_eq in Hv. tauto. }
    unfold touches in T. apply orb_false_iff in T as [TA TB]. apply memN_false in TA, TB.
    destruct (e_a e =? v); [destruct (e_b e =? v)|destruct (e_a e =? v)]; auto.
Qed.

Lemma EOk_pop I es u : closedI I es -> ~ In u I -> EOk I es (pop_contraction u es).
Proof.
  intros C NU. unfold pop_contraction. apply EOk_map.
  - intro e. destruct ((e_a e =? u) || (e_b e =? u)); simpl; auto.
  - intros e Hin T. destruct ((e_a e =? u) || (e_b e =? u)) eqn:J; auto.
    apply orb_true_iff in J. rewrite !N.eqb_eq in J.
    rewrite (closed_other I es e u C Hin NU) in T; [discriminate|tauto].
Qed.

(* ---------- node-list facts ---------- *)
Lemma gnodes_app g a b : gnodes g (a ++ b) = gnodes g a ++ gnodes g b.
Proof. apply filter_app. Qed.

Lemma gnodes_none g l : (forall n, In n l -> n_gid n <> g) -> gnodes g l = [].
Proof.
  induction l as [|n r IH]; simpl; auto. intro H.
  destruct (n_gid n =? g) eqn:E; [apply N.eqb_eq in E; exfalso; eapply H; simpl; eauto|].
  apply IH. intros; apply H; simpl; auto.
Qed.

Lemma gnodes_map g h l :
  (forall n, In n l -> (n_gid n = g -> h n = n) /\ (n_gid n <> g -> n_gid (h n) <> g)) ->
  gnodes g (map h l) = gnodes g l.
Proof.
  induction l as [|n r IH]; simpl; auto. intro H.
  destruct (H n (or_introl eq_refl)) as [H1 H2].
  destruct (n_gid n =? g) eqn:E.
  - apply N.eqb_eq in E. rewrite (H1 E). apply N.eqb_eq in E. rewrite E. f_equal. apply IH. intros; apply H; simpl; auto.
  - apply N.eqb_neq in E. specialize (H2 E). apply N.eqb_neq in H2. rewrite H2. apply IH. intros; apply H; simpl; auto.
Qed.

Lemma gnodes_filter g p l :
  (forall n, In n l -> n_gid n = g -> p n = true) -> gnodes g (filter p l) = gnodes g l.
Proof.
  induction l as [|n r IH]; simpl; auto. intro H.
  destruct (p n) eqn:P; simpl.
  - destruct (n_gid n =? g); [f_equal|]; apply IH; intros; apply H; simpl; auto.
  - destruct (n_gid n =? g) eqn:E.
    + apply N.eqb_eq in E. rewrite (H n) in P; simpl; auto. discriminate.
    + apply IH; intros; apply H; simpl; auto.
Qed.

Lemma NoDup_map_filter {A B} (f : A -> B) p l : NoDup (map f l) -> NoDup (map f (filter p l)).
Proof.
  induction l as [|x r IH]; simpl; auto. intro ND; inversion ND; subst.
  destruct (p x); simpl; auto. constructor; auto.
  intro H. apply H1. apply in_map_iff in H as (y & E & Hy). apply filter_In in Hy as [Hy _].
  rewrite <- E. apply in_map. exact Hy.
Qed.

Lemma in_gints g st n : In n (s_nodes st) -> n_gid n = g -> In (n_int n) (gints g st).
Proof.
  intros H E. unfold gints, of_gid. apply in_map. apply filter_In. split; auto. apply N.eqb_eq. exact E.
Qed.

Lemma not_in_gints g st n : uniq (s_nodes st) -> In n (s_nodes st) -> n_gid n <> g -> ~ In (n_int n) (gints g st).
Proof. intros U H NE. apply (other_int g (s_nodes st) n U H NE). Qed.

Definition Pres (g : N) (st st' : store) : Prop := Same g st st' /\ Good g st'.

(* ---------- delete_node ---------- *)
Lemma pres_delete g st i :
  Good g st -> ~ In i (gints g st) -> Pres g st (delete_node i st).
Proof.
  intros (U & B & EB & C) NI.
  assert (of_gid g (delete_node i st) = of_gid g st) as ON.
  { unfold of_gid, delete_node; simpl. apply (gnodes_filter g). intros m Hm Em.
    destruct (n_int m =? i) eqn:E; auto. apply N.eqb_eq in E.
    exfalso. apply NI. rewrite <- E. apply in_gints; auto. }
  destruct (EOk_delete (gints g st) (s_edges st) i C NI) as [E1 E2].
  split; [split; auto|].
  unfold Good. unfold gints at 1. rewrite ON. fold (gints g st). simpl. split; [|split; [|split]].
  - apply NoDup_map_filter. exact U.
  - intros m Hm. apply filter_In in Hm as [Hm _]. auto.
  - intros e H. apply filter_In in H as [H _]. apply (EB e H).
  - auto.
Qed.

(* ---------- replacing node records (same internal ids, g's nodes untouched) ---------- *)
Lemma pres_nodes g st ns' :
  Good g st -> map n_int ns' = map n_int (s_nodes st) -> gnodes g ns' = gnodes g (s_nodes st) ->
  Pres g st (mkStore ns' (s_edges st) (s_next st)).
Proof.
  intros (U & B & EB & C) HI HG.
  assert (of_gid g (mkStore ns' (s_edges st) (s_next st)) = of_gid g st) as ON by (unfold of_gid; simpl; exact HG).
  split; [split; auto|].
  unfold Good. unfold gints at 1. rewrite ON. fold (gints g st). simpl. split; [|split; [|split]]; auto.
  - unfold uniq. rewrite HI. exact U.
  - intros n Hn. assert (In (n_int n) (map n_int (s_nodes st))) as X by (rewrite <- HI; apply in_map; auto).
    apply in_map_iff in X as (m & E & Hm). rewrite <- E. auto.
Qed.

Lemma pres_map_gid g st t f :
  Good g st -> t <> g -> (forall n, n_int (f n) = n_int n /\ (n_gid n <> g -> n_gid (f n) <> g)) ->
  Pres g st (map_gid t f st).
Proof.
  intros G NE Hf. unfold map_gid. apply pres_nodes; auto.
  - rewrite map_map. apply map_ext. intro n. destruct (n_gid n =? t); auto. apply Hf.
  - apply gnodes_map. intros n _. split.
    + intro E. destruct (n_gid n =? t) eqn:T; auto. apply N.eqb_eq in T. congruence.
    + intro NG. destruct (n_gid n =? t); auto. apply Hf. auto.
Qed.

Lemma pres_upd_node g st c c' :
  Good g st -> In c (s_nodes st) -> n_gid c <> g -> n_int c' = n_int c -> n_gid c' <> g ->
  Pres g st (upd_node c' st).
Proof.
  intros G Hin NE EI NG. pose proof G as (U & _). unfold upd_node. apply pres_nodes; auto.
  - rewrite map_map. apply map_ext. intro n. destruct (n_int n =? n_int c') eqn:E; auto.
    apply N.eqb_eq in E. auto.
  - apply gnodes_map. intros n Hn. split.
    + intro Eg. destruct (n_int n =? n_int c') eqn:E; auto. apply N.eqb_eq in E.
      exfalso. apply (not_in_gints g st c U Hin NE). rewrite <- EI, <- E. apply in_gints; auto.
    + intro NG'. destruct (n_int n =? n_int c'); auto.
Qed.

Lemma rw_nodes_ok adm tmp g : tmp <> g -> forall l l',
  rw_nodes adm tmp l = inl l' -> map n_int l' = map n_int l /\ gnodes g l' = gnodes g l.
Proof.
  intros NE. induction l as [|n r IH]; simpl; intros l' H.
  - inversion H; subst. auto.
  - destruct (n_gid n =? tmp) eqn:T.
    + destruct (rw_node adm n) as [n'|] eqn:R; [|discriminate].
      destruct (rw_nodes adm tmp r) as [r'|]; [|discriminate]. inversion H; subst.
      destruct (IH r' eq_refl) as [I1 I2].
      assert (n_int n' = n_int n /\ n_gid n' = n_gid n) as [Ei Eg].
      { unfold rw_node in R. destruct (rw_d adm (n_ld n)); [|discriminate].
        destruct (rw_d adm (n_cd n)); [|discriminate]. inversion R; subst. simpl. auto. }
      simpl. rewrite Ei, Eg, I1. split; auto.
      apply N.eqb_eq in T. assert (n_gid n =? g = false) as -> by (apply N.eqb_neq; congruence). exact I2.
    + destruct (rw_nodes adm tmp r) as [r'|]; [|discriminate]. inversion H; subst.
      destruct (IH r' eq_refl) as [I1 I2]. simpl. rewrite I1, I2. auto.
Qed.

(* ---------- contract ---------- *)
Lemma fold_reattach_ebelow nx u v ev : forall es,
  u < nx -> ebelow nx es -> ebelow nx ev -> ebelow nx (fold_left (reattach u v) ev es).
Proof.
  induction ev as [|e r IH]; intros es Hu E1 E2; simpl; auto.
  apply IH; auto; [|intros x Hx; apply E2; simpl; auto].
  unfold reattach. destruct (E2 e (or_introl eq_refl)) as [Ea Eb].
  match goal with |- ebelow nx (if ?c then _ else _) => destruct c end.
  - unfold flag_edge. intros x Hx. apply in_map_iff in Hx as (y & E & Hy). subst.
    destruct (joins _ _ y); simpl; apply (E1 y Hy).
  - intros x Hx. apply in_app_iff in Hx as [Hx|[Hx|[]]]; [apply (E1 x Hx)|]. subst; simpl. split; auto.
    destruct (e_a e =? v); [destruct (e_b e =? v)|destruct (e_a e =? v)]; auto.
Qed.

Lemma pop_ebelow nx u es : ebelow nx es -> ebelow nx (pop_contraction u es).
Proof.
  intros E x Hx. unfold pop_contraction in Hx. apply in_map_iff in Hx as (y & Ey & Hy). subst.
  destruct ((e_a y =? u) || (e_b y =? u)); simpl; apply (E y Hy).
Qed.

Lemma pres_contract g st u v :
  Good g st -> ~ In u (gints g st) -> ~ In v (gints g st) -> u < s_next st ->
  Pres g st (contract u v st).
Proof.
  intros G NIc NIt Hu. pose proof G as (U & B & EB & C).
  destruct (pres_delete g st v G NIt) as [[ON _] (U1 & B1 & EB1 & _)].
  pose proof (EOk_contract (gints g st) (s_edges st) u v C NIc NIt) as K1.
  assert (EOk (gints g st) (s_edges st)
            (pop_contraction u (fold_left (reattach u v) (filter (fun e => (e_a e =? v) || (e_b e =? v)) (s_edges st))
                                          (filter (fun e => negb (e_a e =? v) && negb (e_b e =? v)) (s_edges st))))) as [E1 E2].
  { eapply EOk_trans; eauto. apply EOk_pop; auto. destruct K1; auto. }
  assert (of_gid g (contract u v st) = of_gid g st) as ON' by exact ON.
  split; [split; auto|].
  unfold Good. unfold gints at 1. rewrite ON'. fold (gints g st).
  unfold contract; simpl. split; [|split; [|split]]; auto.
  apply pop_ebelow. apply fold_reattach_ebelow; auto.
  intros e He. apply filter_In in He as [He _]. apply (EB e He).
Qed.

(* ---------- clone_graph ---------- *)
Lemma clone_nodes_spec new : forall l next ns m,
  clone_nodes new next l = (ns, m) ->
  (forall n, In n ns -> n_gid n = new /\ next <= n_int n /\ n_int n < next + N.of_nat (length l)) /\
  NoDup (map n_int ns) /\
  (forall k v, lookup m k = Some v -> next <= v /\ v < next + N.of_nat (length l)).
Proof.
  induction l as [|x r IH]; intros next ns m H; simpl in H.
  - inversion H; subst. split; [|split]; simpl; [tauto | constructor | discriminate].
  - destruct (clone_nodes new (N.succ next) r) as [ns0 m0] eqn:E. inversion H; subst; clear H.
    destruct (IH _ _ _ E) as (I1 & I2 & I3).
    assert (N.of_nat (length (x :: r)) = N.succ (N.of_nat (length r))) as L by (simpl length; lia).
    rewrite L. split; [|split].
    + intros n [Hn|Hn].
      * subst. simpl. lia.
      * destruct (I1 n Hn) as (? & ? & ?). repeat split; auto; lia.
    + simpl. constructor; auto. intro X. apply in_map_iff in X as (n & En & Hn).
      destruct (I1 n Hn) as (_ & ? & _). lia.
    + intros k v. simpl. destruct (n_int x =? k).
      * intro X; inversion X; subst. lia.
      * intro X. destruct (I3 k v X). lia.
Qed.

Lemma NoDup_app' {A} (a b : list A) :
  NoDup a -> NoDup b -> (forall x, In x a -> In x b -> False) -> NoDup (a ++ b).
Proof.
  induction a as [|x r IH]; simpl; auto. intros Na Nb D. inversion Na; subst. constructor.
  - rewrite in_app_iff. intros [?|?]; [contradiction|]. eapply D; eauto.
  - apply IH; auto. intros y Hy. apply D. auto.
Qed.

Lemma gints_below g st : below (s_next st) (s_nodes st) -> forall i, In i (gints g st) -> i < s_next st.
Proof.
  intros B i Hi. unfold gints, of_gid in Hi. apply in_map_iff in Hi as (n & E & Hn).
  apply filter_In in Hn as [Hn _]. subst. auto.
Qed.

Lemma pres_clone g st a new : Good g st -> new <> g -> Pres g st (clone a new st).
Proof.
  intros (U & B & EB & C) NE. unfold clone.
  destruct (clone_nodes new (s_next st) (of_gid a st)) as [cn m] eqn:E.
  destruct (clone_nodes_spec new _ _ _ _ E) as (S1 & S2 & S3).
  set (len := N.of_nat (length (of_gid a st))) in *.
  assert (forall e, In e (clone_edges m (s_edges st)) ->
            (s_next st <= e_a e /\ e_a e < s_next st + len) /\ (s_next st <= e_b e /\ e_b e < s_next st + len)) as CE.
  { intros e He. unfold clone_edges in He. apply in_flat_map in He as (e0 & _ & He).
    destruct (lookup m (e_a e0)) as [x|] eqn:La; [|destruct He].
    destruct (lookup m (e_b e0)) as [y|] eqn:Lb; [|destruct He].
    destruct He as [He|[]]. subst; simpl. split; eauto. }
  assert (of_gid g (mkStore (s_nodes st ++ cn) (s_edges st ++ clone_edges m (s_edges st)) (s_next st + len)) = of_gid g st) as ON.
  { unfold of_gid; simpl. fold (gnodes g (s_nodes st ++ cn)). rewrite gnodes_app.
    rewrite (gnodes_none g cn); [apply app_nil_r|]. intros n Hn. destruct (S1 n Hn) as [-> _]. exact NE. }
  assert (EOk (gints g st) (s_edges st) (s_edges st ++ clone_edges m (s_edges st))) as [E1 E2].
  { apply EOk_app. intros e He. destruct (CE e He) as [[? ?] [? ?]].
    apply touches_false; intro X; apply (gints_below g st B) in X; lia. }
  split; [split; auto|].
  unfold Good. unfold gints at 1. rewrite ON. fold (gints g st). simpl. split; [|split; [|split]]; auto.
  - unfold uniq. rewrite map_app. apply NoDup_app'; auto.
    intros x Hx Hy. apply in_map_iff in Hx as (n & En & Hn). apply in_map_iff in Hy as (n' & En' & Hn').
    specialize (B n Hn). destruct (S1 n' Hn') as (_ & ? & _). lia.
  - intros n Hn. apply in_app_iff in Hn as [Hn|Hn]; [specialize (B n Hn); lia|].
    destruct (S1 n Hn) as (_ & _ & ?). exact H.
  - intros e He. apply in_app_iff in He as [He|He]; [destruct (EB e He); lia|].
    destruct (CE e He) as [[? ?] [? ?]]. lia.
Qed.

(* ---------- composing ---------- *)
Lemma Pres_trans g a b c : Pres g a b -> Pres g b c -> Pres g a c.
Proof. intros [S1 _] [S2 G]. split; eauto using Same_trans. Qed.
Lemma Pres_refl g st : Good g st -> Pres g st st.
Proof. intro G. split; auto using Same_refl. Qed.

Definition out_pres (g : N) (st : store) (o : outcome) : Prop :=
  match o with OOk s' => Pres g st s' | OErr _ s' => Pres g st s' | OErrU _ => True end.

Lemma pres_rehome g st t new : Good g st -> t <> g -> new <> g -> out_pres g st (rehome t new st).
Proof.
  intros G T NN. unfold rehome. destruct (gexists t st); simpl; [|apply Pres_refl; auto].
  apply pres_map_gid; auto; intro n; simpl; auto.
Qed.

Lemma out_pres_trans g a b o : Pres g a b -> out_pres g b o -> out_pres g a o.
Proof. intros P. destruct o; simpl; eauto using Pres_trans. Qed.

Lemma find_node_some gid x st n : find_node gid x st = Some n -> In n (s_nodes st) /\ n_gid n = gid.
Proof.
  unfold find_node. intro H. apply find_some in H as [H1 H2]. split; auto.
  apply andb_true_iff in H2 as [H2 _]. apply N.eqb_eq. exact H2.
Qed.

Lemma pres_delete_list g l : forall st,
  Good g st -> (forall i, In i l -> ~ In i (gints g st)) ->
  Pres g st (fold_left (fun s i => delete_node i s) l st).
Proof.
  induction l as [|i r IH]; intros st G H; simpl; [apply Pres_refl; auto|].
  assert (Pres g st (delete_node i st)) as P by (apply pres_delete; auto; apply H; simpl; auto).
  eapply Pres_trans; eauto. destruct P as [S G']. apply IH; auto.
  intros j Hj. rewrite (Same_gints _ _ _ S). apply H; simpl; auto.
Qed.

Lemma pres_delete_graph g st t : Good g st -> t <> g -> Pres g st (delete_graph t st).
Proof.
  intros G NE. unfold delete_graph.
  assert (fold_left (fun s n => delete_node (n_int n) s) (of_gid t st) st =
          fold_left (fun s i => delete_node i s) (map n_int (of_gid t st)) st) as ->.
  { generalize st at 2 4. induction (of_gid t st) as [|n r IH]; simpl; auto. }
  apply pres_delete_list; auto. intros i Hi. apply in_map_iff in Hi as (n & E & Hn).
  unfold of_gid in Hn. apply filter_In in Hn as [Hn Hg]. apply N.eqb_eq in Hg. subst i.
  destruct G as (U & _). apply not_in_gints; auto. congruence.
Qed.

(* ---------- merge_adm ---------- *)
Lemma pres_merge_one g cbm tmp adm st0 : cbm <> g -> tmp <> g -> forall l st st',
  Pres g st0 st -> fold_left (merge_one cbm tmp adm) l (Some st) = Some st' -> Pres g st0 st'.
Proof.
  intros NC NT. induction l as [|x r IH]; intros st st' P H; simpl in H.
  - inversion H; subst. exact P.
  - destruct (find_node cbm x st) as [c|] eqn:Fc.
    2:{ exfalso. clear - H. induction r; simpl in H; [discriminate|auto]. }
    destruct (find_node tmp x st) as [t|] eqn:Ft.
    2:{ exfalso. clear - H. induction r; simpl in H; [discriminate|auto]. }
    destruct (n_si c) as [| |ids] eqn:Si.
    1,2: exfalso; clear - H; induction r; simpl in H; [discriminate|auto].
    apply find_node_some in Fc as [Hc Gc]. apply find_node_some in Ft as [Ht Gt].
    eapply IH; [|exact H]. clear H IH.
    destruct P as [S G]. pose proof G as (U & B & _).
    set (c' := set_si (SIds (ids ++ [adm])) (set_dels (upd_d (n_ld c) (n_ld t)) (upd_d (n_cd c) (n_cd t)) c)).
    assert (Pres g st (upd_node c' st)) as P1.
    { apply (pres_upd_node g st c c'); auto; simpl; congruence. }
    destruct P1 as [S1 G1].
    assert (Pres g (upd_node c' st) (contract (n_int c) (n_int t) (upd_node c' st))) as P2.
    { apply pres_contract; auto.
      - rewrite (Same_gints _ _ _ S1). apply not_in_gints; auto. congruence.
      - rewrite (Same_gints _ _ _ S1). apply not_in_gints; auto. congruence. }
    split; [|apply P2]. eapply Same_trans; [exact S|]. eapply Same_trans; [exact S1|apply P2].
Qed.

Theorem merge_adm_frame g cbm adm tmp st :
  Good g st -> cbm <> g -> tmp <> g -> out_pres g st (merge_adm cbm adm tmp st).
Proof.
  intros G NC NT. unfold merge_adm.
  destruct (negb (gexists adm st)); [simpl; apply Pres_refl; auto|].
  pose proof (pres_clone g st adm tmp G NT) as P1.
  destruct (rw_nodes adm tmp (s_nodes (clone adm tmp st))) as [ns|e] eqn:R; [|simpl; exact P1].
  destruct (rw_nodes_ok adm tmp g NT _ _ R) as [RI RG].
  assert (Pres g (clone adm tmp st) (mkStore ns (s_edges (clone adm tmp st)) (s_next (clone adm tmp st)))) as P2
    by (apply pres_nodes; auto; apply P1).
  pose proof (Pres_trans _ _ _ _ P1 P2) as P12.
  set (st1 := mkStore ns (s_edges (clone adm tmp st)) (s_next (clone adm tmp st))) in *.
  assert (Pres g st1 (map_gid tmp (set_si (SIds [adm])) st1)) as P3.
  { apply pres_map_gid; auto; try apply P2; intro n; simpl; auto. }
  pose proof (Pres_trans _ _ _ _ P12 P3) as P123.
  set (st2 := map_gid tmp (set_si (SIds [adm])) st1) in *.
  destruct (negb (gexists cbm st2)).
  - eapply out_pres_trans; eauto. apply pres_rehome; auto. apply P3.
  - match goal with |- out_pres _ _ (if ?c then _ else _) => destruct c end; [exact I|].
    match goal with |- out_pres _ _ (match ?f with _ => _ end) => destruct f as [st3|] eqn:F end; [|exact I].
    assert (Pres g st st3) as P4 by (exact (pres_merge_one g cbm tmp adm st NC NT _ st2 st3 P123 F)).
    destruct (gexists tmp st3); [|exact P4].
    eapply out_pres_trans; eauto. apply pres_rehome; auto. apply P4.
Qed.

(* ---------- unmerge_adm ---------- *)
Lemma unm_node_ok g n n' d : unm_node g n = inl (Some (n', d)) -> n_int n' = n_int n /\ n_gid n' = n_gid n.
Proof.
  unfold unm_node. destruct (n_si n) as [| |l]; try discriminate.
  - intro H; inversion H; subst; auto.
  - destruct (mem g l).
    + destruct (remove_first g l); simpl;
        (destruct (unm_d g (n_cd _)); [|discriminate]); (destruct (unm_d g (n_ld _)); [|discriminate]);
        intro H; inversion H; subst; simpl; auto.
    + simpl. destruct (unm_d g (n_cd n)); [|discriminate]. destruct (unm_d g (n_ld n)); [|discriminate].
      intro H; inversion H; subst; simpl; auto.
Qed.

Lemma unm_nodes_ok cbm gid g : cbm <> g -> forall l l' ds,
  unm_nodes cbm gid l = inl (Some (l', ds)) ->
  map n_int l' = map n_int l /\ gnodes g l' = gnodes g l /\
  (forall i, In i ds -> exists n, In n l /\ n_gid n = cbm /\ n_int n = i).
Proof.
  intro NE. induction l as [|n r IH]; simpl; intros l' ds H.
  - inversion H; subst. repeat split; auto. intros i [].
  - destruct (n_gid n =? cbm) eqn:T.
    + destruct (unm_node gid n) as [[[n' d]|]|] eqn:U; try discriminate.
      destruct (unm_nodes cbm gid r) as [[[r' ds']|]|]; try discriminate. inversion H; subst; clear H.
      destruct (IH r' ds' eq_refl) as (I1 & I2 & I3). destruct (unm_node_ok _ _ _ _ U) as [Ei Eg].
      apply N.eqb_eq in T.
      simpl. rewrite Ei, Eg, I1. split; [auto|split].
      * assert (n_gid n =? g = false) as -> by (apply N.eqb_neq; congruence). exact I2.
      * intros i Hi. destruct d.
        -- destruct Hi as [Hi|Hi]; [exists n; auto|]. destruct (I3 i Hi) as (m & ? & ? & ?). exists m; auto.
        -- destruct (I3 i Hi) as (m & ? & ? & ?). exists m; auto.
    + destruct (unm_nodes cbm gid r) as [[[r' ds']|]|]; try discriminate. inversion H; subst; clear H.
      destruct (IH r' ds eq_refl) as (I1 & I2 & I3). simpl. rewrite I1, I2. repeat split; auto.
      intros i Hi. destruct (I3 i Hi) as (m & ? & ? & ?). exists m; auto.
Qed.

Theorem unmerge_adm_frame g cbm gid st :
  Good g st -> cbm <> g -> out_pres g st (unmerge_adm cbm gid st).
Proof.
  intros G NC. unfold unmerge_adm.
  destruct (negb (gexists cbm st)); [simpl; apply Pres_refl; auto|].
  destruct (unm_nodes cbm gid (s_nodes st)) as [[[ns ds]|]|] eqn:U; simpl; auto.
  destruct (unm_nodes_ok cbm gid g NC _ _ _ U) as (I1 & I2 & I3).
  assert (Pres g st (mkStore ns (s_edges st) (s_next st))) as P1 by (apply pres_nodes; auto).
  eapply Pres_trans; eauto. destruct P1 as [S1 G1]. apply pres_delete_list; auto.
  intros i Hi. rewrite (Same_gints _ _ _ S1). destruct (I3 i Hi) as (n & Hn & Eg & Ei). subst i.
  destruct G as (U0 & _). apply not_in_gints; auto. congruence.
Qed.

(* ---------- snapshot / rollback ---------- *)
Theorem snapshot_frame g cbm new st : Good g st -> new <> g -> out_pres g st (snapshot cbm new st).
Proof.
  intros G NN. unfold snapshot. destruct (negb (gexists cbm st)); simpl; [apply Pres_refl; auto|].
  apply pres_clone; auto.
Qed.

Lemma rollback_gen_live b cbm sid st :
  gexists sid st = true -> gexists sid (delete_graph cbm st) = true ->
  rollback_gen b cbm sid st = rehome sid cbm (delete_graph cbm st).
Proof. intros G G'. unfold rollback_gen. destruct b; cbv zeta; [rewrite G|rewrite G']; reflexivity. Qed.

Theorem rollback_gen_frame b g cbm sid st :
  Good g st -> cbm <> g -> sid <> g -> out_pres g st (rollback_gen b cbm sid st).
Proof.
  intros G NC NS. unfold rollback_gen.
  pose proof (pres_delete_graph g st cbm G NC) as P1.
  destruct b; cbv zeta.
  - destruct (negb (gexists sid st)); simpl; [apply Pres_refl; auto|].
    eapply out_pres_trans; eauto. apply pres_rehome; auto. apply P1.
  - destruct (negb (gexists sid (delete_graph cbm st))); simpl; auto.
    eapply out_pres_trans; eauto. apply pres_rehome; auto. apply P1.
Qed.

Theorem rollback_frame g cbm sid st : Good g st -> cbm <> g -> sid <> g -> out_pres g st (rollback cbm sid st).
Proof. apply rollback_gen_frame. Qed.

(* ---------- the canonical view of g depends only on g's part of the store ---------- *)
Lemma nid_of_int_in ns i x : nid_of_int ns i = Some x -> In i (map n_int ns).
Proof.
  unfold nid_of_int. destruct (find (fun n => n_int n =? i) ns) as [n|] eqn:F; [|discriminate].
  intros _. apply find_some in F as [H E]. apply N.eqb_eq in E. subst. apply in_map. exact H.
Qed.

Lemma vedges_gE ns es : vedges_of ns es = vedges_of ns (gE (map n_int ns) es).
Proof.
  unfold vedges_of, gE. induction es as [|e r IH]; simpl; auto.
  destruct (touches (map n_int ns) e) eqn:T; simpl; [rewrite IH; reflexivity|].
  unfold touches in T. apply orb_false_iff in T as [TA TB]. apply memN_false in TA, TB.
  destruct (nid_of_int ns (e_a e)) eqn:A; [apply nid_of_int_in in A; contradiction|]. simpl. exact IH.
Qed.

Lemma Same_view g st st' : Same g st st' -> view_of g st' = view_of g st.
Proof.
  intros [H1 H2]. unfold view_of. rewrite H1. destruct (of_gid g st) as [|n ns] eqn:E; auto.
  rewrite (vedges_gE (n :: ns) (s_edges st')), (vedges_gE (n :: ns) (s_edges st)).
  unfold gints in H2. rewrite E in H2. rewrite H2. reflexivity.
Qed.

(* ---------- histories ---------- *)
From FIM Require Import Model.Cbm14Check.

(* g is none of the graphs the operation works on *)
Definition outside (cbm g : N) (o : op) : Prop :=
  g <> cbm /\ match o with
              | OpMerge _ tmp => g <> tmp
              | OpUnmerge _ => True
              | OpSnap new => g <> new
              | OpRollback sid => g <> sid
              end.

Theorem step_frame g cbm o st : Good g st -> outside cbm g o -> out_pres g st (step cbm o st).
Proof.
  intros G [NC H]. destruct o; simpl.
  - apply merge_adm_frame; auto.
  - apply unmerge_adm_frame; auto.
  - apply snapshot_frame; auto.
  - apply rollback_frame; auto.
Qed.

(* run a history on the store model; None when the code raised with unpredicted partial effects *)
Fixpoint run (cbm : N) (st : store) (ops : list op) : option store :=
  match ops with
  | [] => Some st
  | o :: r => match step cbm o st with
              | OOk st' => run cbm st' r
              | OErr _ st' => run cbm st' r
              | OErrU _ => None
              end
  end.

Theorem history_frame g cbm ops : forall st st',
  Good g st -> Forall (outside cbm g) ops -> run cbm st ops = Some st' ->
  view_of g st' = view_of g st /\ of_gid g st' = of_gid g st /\ Good g st'.
Proof.
  induction ops as [|o r IH]; intros st st' G F H; simpl in H.
  - inversion H; subst. auto.
  - inversion F; subst. pose proof (step_frame g cbm o st G H2) as P.
    destruct (step cbm o st) as [s1|e s1|e]; simpl in P; [| |discriminate];
      destruct P as [S G1]; destruct (IH s1 st' G1 H3 H) as (V & O & G2);
      (split; [rewrite V; apply Same_view; auto | split; [rewrite O; apply S | auto]]).
Qed.

(* the decidable invariant implies the propositional one *)
Lemma nodupN_sound l : nodupN l = true -> NoDup l.
Proof.
  induction l as [|x r IH]; simpl; intro H; constructor.
  - apply andb_true_iff in H as [H _]. apply negb_true_iff in H. apply memN_false. exact H.
  - apply IH. apply andb_true_iff in H. tauto.
Qed.

Lemma goodb_sound g st : goodb g st = true -> Good g st.
Proof.
  unfold goodb, Good. rewrite !andb_true_iff, !forallb_forall. intros [[[H1 H2] H3] H4].
  split; [|split; [|split]].
  - apply nodupN_sound. exact H1.
  - intros n Hn. apply N.ltb_lt. auto.
  - intros e He. specialize (H3 e He). apply andb_true_iff in H3. rewrite !N.ltb_lt in H3. exact H3.
  - intros e He T. specialize (H4 e He). rewrite T in H4. simpl in H4.
    apply andb_true_iff in H4. rewrite !memN_In in H4. exact H4.
Qed.

(* ---------- a concrete instance ---------- *)
Definition ex_store : store :=
  mkStore [mkNode 1 1 10 1 [] SAbs DAbs DAbs; mkNode 2 1 11 2 [] SAbs DAbs (DDict [(7, 8)]);
           mkNode 3 2 10 1 [] SAbs DAbs DAbs; mkNode 4 2 11 2 [] SAbs DAbs DAbs; mkNode 5 2 12 3 [] SAbs (DDict [(7, 9)]) DAbs]
          [mkEdge 1 2 4 [] false; mkEdge 3 4 4 [] false; mkEdge 4 5 4 [] false] 6.
Definition ex_sops : list op := [OpMerge 1 100; OpSnap 101; OpMerge 2 102; OpUnmerge 1; OpRollback 101; OpUnmerge 2].
Lemma ex_frame :
  goodb 1 ex_store = true /\ goodb 2 ex_store = true /\
  Forall (outside 0 1) ex_sops /\ Forall (outside 0 2) ex_sops /\
  exists st', run 0 ex_store ex_sops = Some st' /\
              map n_nid (of_gid 0 st') = [10; 11] /\ map n_si (of_gid 0 st') = [SIds [1]; SIds [1]].
Proof.
  split; [vm_compute; reflexivity|]. split; [vm_compute; reflexivity|].
  split; [repeat constructor; discriminate|]. split; [repeat constructor; discriminate|].
  eexists. split; [vm_compute; reflexivity|]. split; vm_compute; reflexivity.
Qed.

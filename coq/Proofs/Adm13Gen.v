(* C13: obligations on the regenerated table Gen/Adm13Gen.v *)
From Coq Require Import List NArith Bool.
From FIM Require Import Gen.Adm13Gen.
Import ListNotations.
Open Scope N_scope.

Lemma gen_ok_true : gen_ok = true.
Proof. reflexivity. Qed.

(* the trace calls of generate_adms, as the proofs of the closure clauses expect them *)
Lemma gen_shape :
  cp_label = CLS_ConnectionPoint /\
  trace_link = (REL_connects, CLS_Link, REL_connects, CLS_ConnectionPoint) /\
  trace_owner = [(REL_connects, CLS_NetworkService, REL_has, CLS_NetworkNode);
                 (REL_connects, CLS_NetworkService, REL_has, CLS_Component)] /\
  deleg_label_first = true.
Proof. repeat split; reflexivity. Qed.

(* C07 - the removal programs, units: deleting an owner (its elements become exempt orphans), dropping exemptions of
   elements that are gone, neighbourhoods after a removal. *)
From Coq Require Import String List NArith ZArith Bool Arith Lia.
From FIM Require Import Base.Str Gen.Rules Model.T7Graph Model.T7Ops Model.T7WF Model.T7Steps Model.T7Rel
     Proofs.T7Tables Proofs.T7WFRefl Proofs.T7Frame Proofs.T7Units Proofs.T7Api Proofs.T7Api2 Proofs.T7Api3
     Proofs.T7RelUnits Proofs.T7RelRun Proofs.T7RelCp Proofs.T7Api4 Proofs.T7RelAdd Proofs.T7Api5 Proofs.T7Api6.
Import ListNotations.

(* ---- neighbourhoods after a removal ------------------------------------------------------------------------- *)
Lemma first_nb_remove g d y r k :
  d y = false -> first_nb (remove_set g d) y r k = filter (fun j => negb (d j)) (first_nb g y r k).
Proof.
  intro Hy. unfold first_nb. rewrite (rs_nbrs g d y Hy).
  induction (nbrs g y) as [|[j r'] l IH]; simpl; [reflexivity|].
  destruct (d j) eqn:Dj; simpl.
  - rewrite IH. destruct (rel_eqb r' r && cls_is g j k); simpl; [rewrite Dj; reflexivity | reflexivity].
  - rewrite (rs_cls g d j k Dj). destruct (rel_eqb r' r && cls_is g j k); simpl; [rewrite Dj; simpl; f_equal; exact IH | exact IH].
Qed.
Lemma any_nb_remove g d y k :
  d y = false -> any_nb (remove_set g d) y k = filter (fun j => negb (d j)) (any_nb g y k).
Proof.
  intro Hy. unfold any_nb. rewrite (rs_nbrs g d y Hy).
  induction (nbrs g y) as [|[j r'] l IH]; simpl; [reflexivity|].
  destruct (d j) eqn:Dj; simpl.
  - rewrite IH. destruct (cls_is g j k); simpl; [rewrite Dj; reflexivity | reflexivity].
  - rewrite (rs_cls g d j k Dj). destruct (cls_is g j k); simpl; [rewrite Dj; simpl; f_equal; exact IH | exact IH].
Qed.

Lemma nb_where_remove_sub g d y (F : graph -> str -> rel -> bool) o :
  d y = false -> (forall j r, d j = false -> F (remove_set g d) j r = F g j r) ->
  In o (nb_where (remove_set g d) y (F (remove_set g d))) -> In o (nb_where g y (F g)) /\ d o = false.
Proof.
  intros Hy HF H. apply In_nb_where in H as [r [H1 H2]]. rewrite (rs_nbrs g d y Hy) in H1.
  apply filter_In in H1 as [H1 H3]. simpl in H3. apply negb_true_iff in H3. split; [|exact H3].
  apply In_nb_where. exists r. split; [exact H1|]. rewrite <- (HF o r H3). exact H2.
Qed.
Lemma scope_remove_sub g d n o :
  d (nid n) = false -> In o (scope_of (remove_set g d) n) -> In o (scope_of g n) /\ d o = false.
Proof.
  intros Hn H. unfold scope_of in *. destruct (ncls n); try destruct H.
  - unfold comp_owners in *.
    apply (nb_where_remove_sub g d (nid n) (fun g j r => rel_eqb r Has && (cls_is g j KNode || cls_is g j KComposite)) o Hn); [|exact H].
    intros j r Hj. rewrite !(rs_cls g d _ _ Hj). reflexivity.
  - unfold ns_owners in *.
    apply (nb_where_remove_sub g d (nid n) (fun g j r => rel_eqb r Has && (cls_is g j KNode || cls_is g j KComposite || cls_is g j KComp)) o Hn); [|exact H].
    intros j r Hj. rewrite !(rs_cls g d _ _ Hj). reflexivity.
  - unfold cp_owners in *.
    apply (nb_where_remove_sub g d (nid n) (fun g j r => rel_eqb r Connects && (cls_is g j KNS || typ_is g (nid n) sSubInterface && cls_is g j KCP && negb (typ_is g j sSubInterface))) o Hn); [|exact H].
    intros j r Hj. rewrite !(rs_cls g d _ _ Hj), (rs_typ g d _ _ Hj), (rs_typ g d _ _ Hn). reflexivity.
Qed.

(* ---- deleting an owner ---------------------------------------------------------------------------------------- *)
(* z is an element one of whose owners is x *)
Definition owned_in (g : graph) (x z : str) : bool :=
  existsb (fun n => str_eqb (nid n) z && mem_str x (scope_of g n)) (gnodes g).

Lemma WFr_delete_owner g eo ep x :
  WFr eo ep g -> cls_is g x KCP = false -> cls_is g x KLink = false ->
  WFr (fun z => eo z || owned_in g x z) ep (remove_set g (fun y => str_eqb y x)).
Proof.
  intros W C1 C2. apply (WFr_remove_set g _ eo ep _ ep W).
  intros n Hn Hd He. apply orb_false_iff in He as [He Ho]. split; [exact He|].
  assert (NO : forall o, In o (scope_of g n) -> str_eqb o x = false).
  { intros o Hin. destruct (str_eqb o x) eqn:E; [|reflexivity]. apply str_eqb_eq in E. subst o. exfalso.
    assert (X : owned_in g x (nid n) = true).
    { unfold owned_in. apply existsb_exists. exists n. split; [exact Hn|]. rewrite str_eqb_refl. simpl. apply mem_str_In. exact Hin. }
    congruence. }
  unfold scope_of in NO. destruct (ncls n) eqn:Hc; try exact I; try exact NO.
  split; [exact NO|]. intros Ht Hp. split; [exact Hp|]. intros l Hl. split.
  - destruct (str_eqb l x) eqn:E; [|reflexivity]. apply str_eqb_eq in E. subst l. apply In_first_nb in Hl as [_ Hl]. congruence.
  - intros y Hy. destruct (str_eqb y x) eqn:E; [|reflexivity]. apply str_eqb_eq in E. subst y. apply In_first_nb in Hy as [_ Hy]. congruence.
Qed.

(* exemptions matter only on the elements present, and the peer exemption only on service ports *)
Lemma WFr_restrict eo ep eo' ep' g :
  WFr eo ep g ->
  (forall n, In n (gnodes g) -> eo (nid n) = true -> eo' (nid n) = true) ->
  (forall n, In n (gnodes g) -> ncls n = KCP -> ntyp n = Some sServicePort -> ep (nid n) = true -> ep' (nid n) = true) ->
  WFr eo' ep' g.
Proof.
  intros [F V I E D St N] Ho Hp. constructor; auto.
  - intros n Hn He.
    assert (He0 : eo (nid n) = false) by (destruct (eo (nid n)) eqn:X; [rewrite (Ho n Hn X) in He; discriminate | reflexivity]).
    destruct (St n Hn He0) as [A [B C]]. split; [exact A|]. split; [|exact C].
    intro Hc. destruct (B Hc) as [B1 [B2 B3]]. repeat split; auto. intros Ht Hq. apply B3; [exact Ht|].
    destruct (ep (nid n)) eqn:X; [rewrite (Hp n Hn Hc Ht X) in Hq; discriminate | reflexivity].
  - eapply ForallOrdPairs_impl_in; [|exact N]. intros a b Ha Hb H Ea Eb. apply H.
    + destruct (eo (nid a)) eqn:X; [rewrite (Ho a Ha X) in Ea; discriminate | reflexivity].
    + destruct (eo (nid b)) eqn:X; [rewrite (Ho b Hb X) in Eb; discriminate | reflexivity].
Qed.

(* ---- the invariant of a removal call ----------------------------------------------------------------------------
   g0: the graph before the call (well-formed); E: the elements the call is going to delete for sure and that may be
   orphans / pending on the way; d: what has been deleted so far. *)
Section Rem.
Variable g0 : graph.
Hypothesis W0 : WF g0.
Variable E : str -> bool.

Definition InvD (d : str -> bool) (s : st) : Prop := sg s = remove_set g0 d /\ WFr E E (sg s).

Lemma InvD_init s : sg s = g0 -> InvD (fun _ => false) s.
Proof.
  intro H. split; [rewrite H; symmetry; apply remove_set_none|]. rewrite H. apply WF_WFr in W0.
  eapply WFr_mono; [| |exact W0]; intros x X; discriminate X.
Qed.

Lemma alive_has_id d s y : InvD d s -> has_id g0 y = true -> d y = false -> has_id (sg s) y = true.
Proof. intros [G _] H D. rewrite G. apply has_id_remove_keep; assumption. Qed.
Lemma has_id_alive d s y : InvD d s -> has_id (sg s) y = true -> has_id g0 y = true /\ d y = false.
Proof. intros [G _] H. rewrite G in H. apply has_id_remove_inv in H. exact H. Qed.
Lemma InvD_sane d s : InvD d s -> sane (sg s).
Proof. intros [_ W]. exact (WFr_sane _ _ _ W). Qed.

Lemma node_typ0 n t : In n (gnodes g0) -> typ_is g0 (nid n) t = ostr_eqb (ntyp n) (Some t).
Proof. intro H. apply typ_is_node; [apply (wf_ids _ W0) | exact H]. Qed.

(* remove_cp_and_links on an interface that is there; the service ports it strands are scheduled *)
Lemma step_remove_cp d s x :
  InvD d s -> has_id g0 x = true -> d x = false -> cls_is g0 x KCP = true ->
  (forall c z, (c = x \/ In c (first_nb (sg s) x Connects KCP)) -> In z (peers (sg s) c) ->
               typ_is g0 z sServicePort = true -> E z = true) ->
  let d' := fun y => d y || mem_str y (D_cp (sg s) x true) in
  remove_cp_and_links x true s = (mkSt (remove_set g0 d') (sdr s), Ok tt) /\ InvD d' (mkSt (remove_set g0 d') (sdr s)).
Proof.
  intros I Hx Dx Cx H2 d'. pose proof I as [G W].
  assert (Hxs : has_id (sg s) x = true) by (eapply alive_has_id; eauto).
  assert (Cxs : cls_is (sg s) x KCP = true) by (rewrite G, (rs_cls g0 d _ _ Dx); exact Cx).
  assert (Eq : remove_set (sg s) (fun y => mem_str y (D_cp (sg s) x true)) = remove_set g0 d').
  { rewrite G at 1. rewrite remove_set_twice. reflexivity. }
  split.
  - rewrite (cp_unit_run x true s (InvD_sane _ _ I) Hxs). rewrite Eq. reflexivity.
  - split; [reflexivity|]. simpl. rewrite <- Eq.
    pose proof (WFr_remove_cp (sg s) E E x true W Cxs (or_introl eq_refl)) as W1.
    apply (WFr_restrict _ _ _ _ _ W1); [auto|].
    intros n Hn Hc Ht He. apply orb_true_iff in He as [He|He]; [exact He|].
    apply In_remove_set_nodes in Hn as [Hn _].
    assert (Hn0 : In n (gnodes g0)) by (rewrite G in Hn; apply In_remove_set_nodes in Hn; tauto).
    unfold cp_stranded in He. apply existsb_exists in He as [c [Hc' Hz]]. apply mem_str_In in Hz.
    apply (H2 c (nid n)); [| exact Hz | rewrite (node_typ0 n _ Hn0), Ht; apply ostr_eqb_eq; reflexivity].
    unfold cp_ifs in Hc'. apply (proj1 (In_dedup _ _)) in Hc'. destruct Hc' as [<-|Hc']; [left; reflexivity|].
    right. unfold cp_extra in Hc'. apply filter_In in Hc'. tauto.
Qed.

(* deleting an owner whose elements are all scheduled *)
Lemma step_delete_owner d s x :
  InvD d s -> has_id g0 x = true -> d x = false -> cls_is g0 x KCP = false -> cls_is g0 x KLink = false ->
  (forall n, In n (gnodes g0) -> In x (scope_of g0 n) -> E (nid n) = true) ->
  let d' := fun y => d y || str_eqb y x in
  delete_node x s = (mkSt (remove_set g0 d') (sdr s), Ok tt) /\ InvD d' (mkSt (remove_set g0 d') (sdr s)).
Proof.
  intros I Hx Dx C1 C2 HO d'. pose proof I as [G W].
  assert (Hxs : has_id (sg s) x = true) by (eapply alive_has_id; eauto).
  assert (Eq : remove_set (sg s) (fun y => str_eqb y x) = remove_set g0 d').
  { rewrite G at 1. rewrite remove_set_twice. reflexivity. }
  split.
  - rewrite (delete_node_ok x s (InvD_sane _ _ I) Hxs). rewrite Eq. reflexivity.
  - split; [reflexivity|]. simpl. rewrite <- Eq.
    assert (C1s : cls_is (sg s) x KCP = false) by (rewrite G, (rs_cls g0 d _ _ Dx); exact C1).
    assert (C2s : cls_is (sg s) x KLink = false) by (rewrite G, (rs_cls g0 d _ _ Dx); exact C2).
    pose proof (WFr_delete_owner (sg s) E E x W C1s C2s) as W1.
    apply (WFr_restrict _ _ _ _ _ W1); [|auto].
    intros n Hn He. apply orb_true_iff in He as [He|He]; [exact He|].
    unfold owned_in in He. apply existsb_exists in He as [m [Hm Hb]]. apply andb_true_iff in Hb as [Em Hb].
    apply str_eqb_eq in Em. apply mem_str_In in Hb. rewrite <- Em.
    rewrite G in Hm. apply In_remove_set_nodes in Hm as [Hm0 Dm].
    rewrite G in Hb. apply (scope_remove_sub g0 d m x Dm) in Hb as [Hb _]. apply HO; assumption.
Qed.

(* at the end every scheduled element is gone *)
Lemma finish d s : InvD d s -> (forall y, E y = true -> has_id g0 y = true -> d y = true) -> WF (sg s).
Proof.
  intros [G W] H. apply WF_WFr.
  assert (X : forall n, In n (gnodes (sg s)) -> E (nid n) = true -> False).
  { intros n Hn He. rewrite G in Hn. apply In_remove_set_nodes in Hn as [Hn Dn].
    rewrite (H _ He) in Dn; [discriminate | apply has_id_In; eauto]. }
  apply (WFr_restrict _ _ _ _ _ W); [intros n Hn He | intros n Hn _ _ He]; exfalso; eauto.
Qed.
End Rem.

(* C14 - refinement, node part: order independence of merging, transferred to the store level. *)
From Coq Require Import List NArith Bool Lia Permutation.
From FIM Require Import Model.Cbm14Store Model.Cbm14Check Model.Cbm14Spec Model.Cbm14Abs Proofs.Cbm14Assoc Proofs.Cbm14Merge
     Proofs.Cbm14Unmerge Proofs.Cbm14Inv Proofs.Cbm14Hist Proofs.Cbm14Frame Proofs.Cbm14RefBase Proofs.Cbm14RefPrep
     Proofs.Cbm14RefFold Proofs.Cbm14RefMerge Proofs.Cbm14RefUnmerge Proofs.Cbm14RefSnap Proofs.Cbm14RefHist.
Import ListNotations.
Open Scope N_scope.

(* a history that merges the models l = [(adm, temporary id); ...] in this order *)
Definition mops (l : list (N * N)) : list op := map (fun p => OpMerge (fst p) (snd p)) l.
Definition adms_of (st0 : store) (l : list (N * N)) : list adm := map (fun p => abs_adm_n (fst p) st0) l.

Lemma gexists_of_gid g st : gexists g st = true <-> of_gid g st <> [].
Proof.
  unfold gexists, of_gid. induction (s_nodes st) as [|n r IH]; simpl.
  - split; [discriminate|tauto].
  - destruct (n_gid n =? g); simpl; [split; [discriminate|auto]|exact IH].
Qed.

(* the sources S stay as they are in st0 (frame theorem), so the abstract operations are merges of the
   abstractions taken in st0 *)
Definition sources_kept (S : list N) (st0 st : store) : Prop :=
  forall a, In a S -> gexists a st0 = true /\ Good a st /\ of_gid a st = of_gid a st0.

Lemma run_merges cbm st0 S : ~ In cbm S -> forall l st hs st' hs',
  NSim cbm st hs -> sources_kept S st0 st -> incl (map fst l) S ->
  pre_run cbm st hs (mops l) -> sim_run cbm st hs (mops l) = Some (st', hs') ->
  merge_from (h_cur hs) (adms_of st0 l) = Some (h_cur hs') /\ NSim cbm st' hs'.
Proof.
  intro NC. induction l as [|[adm tmp] r IH]; intros st hs st' hs' S0 SK IN P H.
  - simpl in H. inversion H; subst. split; auto.
  - cbn [mops map sim_run pre_run fst snd] in H, P. destruct P as [P0 P1].
    change (step cbm (OpMerge adm tmp) st) with (merge_adm cbm adm tmp st) in *.
    destruct (merge_adm cbm adm tmp st) as [s1| |] eqn:E; try discriminate.
    destruct (merge_not_refused cbm adm tmp st hs s1 S0 P0 E) as (C' & SM & HS).
    assert (NSim cbm s1 (hstep hs (hop_of st (OpMerge adm tmp)))) as S1 by (eapply nsim_step; eauto).
    cbn [hop_of] in *. rewrite HS in *.
    assert (In adm S) as IA by (apply IN; simpl; auto).
    assert (abs_adm_n adm st = abs_adm_n adm st0) as EA.
    { unfold abs_adm_n, abs_adm_nodes. destruct (SK adm IA) as (_ & _ & ->). reflexivity. }
    assert (sources_kept S st0 s1) as SK1.
    { intros a Ha. destruct (SK a Ha) as (G0 & GD & EQ). split; auto.
      assert (gexists a st = true) as GA by (apply gexists_of_gid; rewrite EQ; apply gexists_of_gid; exact G0).
      destruct P0 as (_ & _ & FR & _).
      assert (outside cbm a (OpMerge adm tmp)) as OUT.
      { split; [intro; subst; contradiction|]. intro; subst. congruence. }
      pose proof (step_frame a cbm (OpMerge adm tmp) st GD OUT) as PR.
      change (step cbm (OpMerge adm tmp) st) with (merge_adm cbm adm tmp st) in PR. rewrite E in PR.
      destruct PR as [[SN _] GD']. split; auto. rewrite SN. exact EQ. }
    destruct (IH s1 _ st' hs' S1 SK1) as [MF S']; auto.
    + intros x Hx. apply IN. simpl. auto.
    + split; auto. cbn [adms_of map fst]. rewrite merge_from_cons, <- EA, SM. exact MF.
Qed.

(* merging the same delegation models in two different orders (each merge with its own fresh temporary id)
   gives combined graphs whose nodes are equivalent: same class, properties, delegations, contributors as sets *)
Theorem store_order_independent_nodes cbm st hs l1 l2 st1 hs1 st2 hs2 :
  NSim cbm st hs ->
  Permutation (map fst l1) (map fst l2) -> ~ In cbm (map fst l1) ->
  (forall a, In a (map fst l1) -> gexists a st = true /\ Good a st) ->
  pairwise_compatible (adms_of st l1) ->
  pre_run cbm st hs (mops l1) -> sim_run cbm st hs (mops l1) = Some (st1, hs1) ->
  pre_run cbm st hs (mops l2) -> sim_run cbm st hs (mops l2) = Some (st2, hs2) ->
  forall k, opt_rel eqv_node (getn k (abs_nodes cbm st1)) (getn k (abs_nodes cbm st2)).
Proof.
  intros S0 PM NC GS PC P1 R1 P2 R2 k.
  assert (sources_kept (map fst l1) st st) as SK by (intros a Ha; destruct (GS a Ha); auto).
  destruct (run_merges cbm st (map fst l1) NC l1 st hs st1 hs1 S0 SK (incl_refl _) P1 R1) as [M1 S1].
  assert (incl (map fst l2) (map fst l1)) as I2 by (intros x Hx; eapply Permutation_in; [apply Permutation_sym; exact PM|exact Hx]).
  destruct (run_merges cbm st (map fst l1) NC l2 st hs st2 hs2 S0 SK I2 P2 R2) as [M2 S2].
  assert (Permutation (adms_of st l1) (adms_of st l2)) as PA.
  { unfold adms_of. rewrite <- (map_map fst (fun a => abs_adm_n a st) l1), <- (map_map fst (fun a => abs_adm_n a st) l2).
    apply Permutation_map. exact PM. }
  assert (Forall wf_adm (adms_of st l1)) as WF.
  { unfold adms_of. apply Forall_forall. intros A HA. apply in_map_iff in HA as (p & <- & _).
    apply wf_abs_adm_n. apply (ns_J _ _ _ S0). }
  destruct (merge_from_perm _ _ PA (h_cur hs) (h_cur hs1) WF PC M1) as (D' & M2' & [EQ _]).
  rewrite M2 in M2'. inversion M2'; subst D'.
  rewrite (ns_cur _ _ _ S1 k), (ns_cur _ _ _ S2 k). apply EQ.
Qed.

(* a concrete instance: the two sources of ex_store merged in both orders *)
From FIM Require Import Proofs.Cbm14Dec.
Lemma ex_order_store :
  let l1 := [(1, 100); (2, 101)] in let l2 := [(2, 100); (1, 101)] in
  NSim 0 ex_store hinit /\ Permutation (map fst l1) (map fst l2) /\ ~ In 0 (map fst l1) /\
  (forall a, In a (map fst l1) -> gexists a ex_store = true /\ Good a ex_store) /\
  pairwise_compatible (adms_of ex_store l1) /\
  pre_run 0 ex_store hinit (mops l1) /\ pre_run 0 ex_store hinit (mops l2) /\
  exists st1 hs1 st2 hs2, sim_run 0 ex_store hinit (mops l1) = Some (st1, hs1) /\
                          sim_run 0 ex_store hinit (mops l2) = Some (st2, hs2) /\
                          map n_si (of_gid 0 st1) = [SIds [1; 2]; SIds [1; 2]; SIds [2]] /\
                          map n_si (of_gid 0 st2) = [SIds [2; 1]; SIds [2; 1]; SIds [2]].
Proof.
  intros l1 l2. split.
  { apply nsim_init; [apply (rgoodb_sound 0); vm_compute; reflexivity | vm_compute; reflexivity]. }
  split; [apply perm_swap|]. split; [simpl; intros [X|[X|[]]]; discriminate|]. split.
  { intros a [<-|[<-|[]]]; (split; [vm_compute; reflexivity | apply goodb_sound; vm_compute; reflexivity]). }
  split; [apply (consistentb_sound (adms_of ex_store l1)); vm_compute; reflexivity|].
  split; [vm_compute; repeat split; try reflexivity; discriminate|].
  split; [vm_compute; repeat split; try reflexivity; discriminate|].
  eexists. eexists. eexists. eexists. split; [vm_compute; reflexivity|]. split; [vm_compute; reflexivity|].
  split; vm_compute; reflexivity.
Qed.

(* C09 - reasoning principles for the state-and-exception monad of Model/T9Graph.v:
   no_mut   : the program never changes the graph (checks, queries, id draws)
   atomic_if: if the program raises, the graph is what it was (under a precondition on the state)
   topo_*   : the same for the TopologyException outcome only (what the service constructor's handler sees) *)
From Coq Require Import List NArith Bool Lia.
From FIM Require Import Base.Str Model.T9Graph.
Import ListNotations.
Open Scope N_scope.

Definition no_mut {A} (m : M A) : Prop := forall s s' r, m s = (s', r) -> sg s' = sg s.
Definition atomic_if {A} (P : st -> Prop) (m : M A) : Prop :=
  forall s s' e, P s -> m s = (s', Err e) -> sg s' = sg s.
Definition atomic {A} (m : M A) : Prop := atomic_if (fun _ => True) m.

Lemma no_mut_ret {A} (a : A) : no_mut (ret a).
Proof. intros s s' r H; inversion H; reflexivity. Qed.
Lemma no_mut_raise {A} e : no_mut (@raise A e).
Proof. intros s s' r H; inversion H; reflexivity. Qed.
Lemma no_mut_guard b e : no_mut (guard b e).
Proof. destruct b; [apply no_mut_ret | apply no_mut_raise]. Qed.
Lemma no_mut_ask {A} (q : graph -> res A) : no_mut (ask q).
Proof. intros s s' r H; unfold ask in H; destruct (q (sg s)); inversion H; reflexivity. Qed.
Lemma no_mut_draw : no_mut draw.
Proof. intros s s' r H; unfold draw in H; destruct (sfresh s); inversion H; reflexivity. Qed.
Lemma no_mut_id_or_draw o : no_mut (id_or_draw o).
Proof. destruct o; [apply no_mut_ret | apply no_mut_draw]. Qed.
Lemma no_mut_opt_raise o : no_mut (opt_raise o).
Proof. destruct o; [apply no_mut_raise | apply no_mut_ret]. Qed.

Lemma no_mut_bind {A B} (m : M A) (k : A -> M B) :
  no_mut m -> (forall a, no_mut (k a)) -> no_mut (bind m k).
Proof.
  intros Hm Hk s s' r H. unfold bind in H.
  destruct (m s) as [s1 [a|e]] eqn:E.
  - apply Hk in H. apply Hm in E. congruence.
  - inversion H; subst. eapply Hm; eauto.
Qed.

Lemma atomic_if_weaken {A} (P Q : st -> Prop) (m : M A) :
  (forall s, Q s -> P s) -> atomic_if P m -> atomic_if Q m.
Proof. intros HPQ H s s' e HQ; apply H; auto. Qed.

Lemma atomic_of_no_mut {A} P (m : M A) : no_mut m -> atomic_if P m.
Proof. intros H s s' e _ E; eapply H; eauto. Qed.

(* a non-mutating prefix: the continuation must be atomic from the state the prefix leaves, about which
   we know the graph is the same and the prefix returned a *)
Lemma atomic_bind_nm {A B} (P : st -> Prop) (m : M A) (k : A -> M B) :
  no_mut m ->
  (forall a, atomic_if (fun s1 => exists s0, P s0 /\ m s0 = (s1, Ok a)) (k a)) ->
  atomic_if P (bind m k).
Proof.
  intros Hm Hk s s' e HP H. unfold bind in H.
  destruct (m s) as [s1 [a|e1]] eqn:E.
  - assert (sg s1 = sg s) by (eapply Hm; eauto).
    rewrite <- H0. eapply Hk; eauto.
  - inversion H; subst. eapply Hm; eauto.
Qed.

Lemma atomic_mutate P f : atomic_if P (mutate f).
Proof.
  intros s s' e _ H. unfold mutate in H. destruct (f (sg s)); inversion H; reflexivity.
Qed.

(* a last mutation followed by a return *)
Lemma atomic_mutate_ret {A} P f (a : A) : atomic_if P (mutate f ;;; ret a).
Proof.
  intros s s' e _ H. unfold bind, mutate, ret in H. destruct (f (sg s)); inversion H; reflexivity.
Qed.

(* ---- the TopologyException outcome *)
Definition topo_atomic {A} (m : M A) : Prop := forall s s', m s = (s', Err ETopology) -> sg s' = sg s.
Definition never_topo {A} (m : M A) : Prop := forall s s', m s <> (s', Err ETopology).

Lemma topo_atomic_of_no_mut {A} (m : M A) : no_mut m -> topo_atomic m.
Proof. intros H s s' E; eapply H; eauto. Qed.
Lemma topo_atomic_of_never {A} (m : M A) : never_topo m -> topo_atomic m.
Proof. intros H s s' E; exfalso; eapply H; eauto. Qed.

Lemma topo_atomic_bind_nm {A B} (m : M A) (k : A -> M B) :
  no_mut m -> (forall a, topo_atomic (k a)) -> topo_atomic (bind m k).
Proof.
  intros Hm Hk s s' H. unfold bind in H.
  destruct (m s) as [s1 [a|e1]] eqn:E.
  - apply Hk in H. apply Hm in E. congruence.
  - inversion H; subst. eapply Hm; eauto.
Qed.

Lemma never_topo_bind {A B} (m : M A) (k : A -> M B) :
  never_topo m -> (forall a, never_topo (k a)) -> never_topo (bind m k).
Proof.
  intros Hm Hk s s' H. unfold bind in H.
  destruct (m s) as [s1 [a|e1]] eqn:E.
  - eapply Hk; eauto.
  - inversion H; subst. eapply Hm; eauto.
Qed.

Lemma never_topo_ret {A} (a : A) : never_topo (ret a).
Proof. intros s s' H; inversion H. Qed.
Lemma never_topo_raise {A} e : e <> ETopology -> never_topo (@raise A e).
Proof. intros Hne s s' H; inversion H; congruence. Qed.
Lemma never_topo_guard b e : e <> ETopology -> never_topo (guard b e).
Proof. intros; destruct b; [apply never_topo_ret | apply never_topo_raise; auto]. Qed.
Lemma never_topo_draw : never_topo draw.
Proof. intros s s' H; unfold draw in H; destruct (sfresh s); inversion H. Qed.

(* primitive mutations only ever raise PropertyGraphQueryException *)
Lemma g_add_node_err n g e : g_add_node n g = Err e -> e = EQuery.
Proof. unfold g_add_node; destruct (has_node g (nid n)); intro H; inversion H; reflexivity. Qed.
Lemma find_node_err g x e : find_node g x = Err e -> e = EQuery.
Proof. unfold find_node; destruct (find_nodes g x) as [|? [|? ?]]; intro H; inversion H; reflexivity. Qed.
Lemma g_add_edge_err a r b g e : g_add_edge a r b g = Err e -> e = EQuery.
Proof.
  unfold g_add_edge. destruct (find_node g a) eqn:Ea; [|intro H; inversion H; subst; eapply find_node_err; eauto].
  destruct (find_node g b) eqn:Eb; [|intro H; inversion H; subst; eapply find_node_err; eauto].
  destruct (existsb _ _); intro H; inversion H.
Qed.
Lemma g_delete_node_err x g e : g_delete_node x g = Err e -> e = EQuery.
Proof.
  unfold g_delete_node. destruct (find_node g x) eqn:E; intro H; inversion H; subst.
  eapply find_node_err; eauto.
Qed.

Lemma never_topo_mutate f : (forall g e, f g = Err e -> e = EQuery) -> never_topo (mutate f).
Proof.
  intros Hf s s' H. unfold mutate in H. destruct (f (sg s)) eqn:E; inversion H; subst.
  apply Hf in E. discriminate.
Qed.
Lemma never_topo_add_node n : never_topo (m_add_node n).
Proof. apply never_topo_mutate; intros; eapply g_add_node_err; eauto. Qed.
Lemma never_topo_add_edge a r b : never_topo (m_add_edge a r b).
Proof. apply never_topo_mutate; intros; eapply g_add_edge_err; eauto. Qed.

Lemma never_topo_for_each {A} (l : list A) f : (forall x, never_topo (f x)) -> never_topo (for_each l f).
Proof.
  intro H; induction l; simpl; [apply never_topo_ret|].
  apply never_topo_bind; auto.
Qed.

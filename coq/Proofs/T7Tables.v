(* C07 - obligations over the regenerated tables (Gen/Rules.v): they are the pinned specification tables, the
   enum members the API can write are inside the published vocabularies (except the recorded gap), the
   ViewOnlyDict class body offers read methods only. *)
From Coq Require Import String List NArith Bool.
From FIM Require Import Base.Str Gen.Rules Model.T7Pinned Model.T7Graph Model.T7Ops Model.T7WF.
Import ListNotations.

Lemma tables_gen_ok : gen_ok = true.
Proof. reflexivity. Qed.

Definition all_tables :=
  (rule_classes, rule_types, rule_texts, rule_types_v4,
   (enum_node_types, enum_component_types, enum_interface_types, enum_service_types, enum_link_types),
   catalog, name_regexes, viewonly_bases, viewonly_methods).
Definition all_pinned :=
  (pinned_rule_classes, pinned_rule_types, pinned_rule_texts, pinned_rule_types_v4,
   (pinned_enum_node_types, pinned_enum_component_types, pinned_enum_interface_types, pinned_enum_service_types,
    pinned_enum_link_types),
   pinned_catalog, pinned_name_regexes, pinned_viewonly_bases, pinned_viewonly_methods).

Lemma tables_are_pinned : all_tables = all_pinned.
Proof. vm_compute. reflexivity. Qed.

(* type t may be written on a node of class c under the published rules *)
Definition type_allowed (c : cls) (t : str) : bool :=
  vocab_ok (mkNode [] c (Some t) (Some []) false).

Lemma mem_str_In x l : mem_str x l = true <-> In x l.
Proof.
  induction l as [|y l IH]; simpl; [split; [discriminate | tauto]|].
  rewrite orb_true_iff, IH, str_eqb_eq. split; intros [H|H]; auto.
Qed.

Lemma forallb_In {A} (f : A -> bool) l : forallb f l = true -> forall x, In x l -> f x = true.
Proof. intro H. apply forallb_forall. exact H. Qed.

Lemma node_types_in_vocab : forall t, In t enum_node_types -> type_allowed KNode t = true.
Proof. apply forallb_In. vm_compute. reflexivity. Qed.
Lemma component_types_in_vocab : forall t, In t enum_component_types -> type_allowed KComp t = true.
Proof. apply forallb_In. vm_compute. reflexivity. Qed.
Lemma interface_types_in_vocab : forall t, In t enum_interface_types -> type_allowed KCP t = true.
Proof. apply forallb_In. vm_compute. reflexivity. Qed.
Lemma link_types_in_vocab : forall t, In t enum_link_types -> type_allowed KLink t = true.
Proof. apply forallb_In. vm_compute. reflexivity. Qed.

Lemma service_types_in_vocab : forall t, In t enum_service_types -> type_allowed KNS t = true.
Proof. apply forallb_In. vm_compute. reflexivity. Qed.

(* the types the API itself chooses (component catalogue, facility / switch / peering constructs) *)
Definition builtin_types_ok : bool :=
  forallb (fun c => match c with (_, _, t, _) => type_allowed KComp t end) catalog &&
  forallb (type_allowed KCP) [sServicePort; sSubInterface; sDedicatedPort; sSharedPort; sFacilityPort] &&
  forallb (type_allowed KNS) [sOVS; sP4; sVLAN; sPortMirror] &&
  forallb (type_allowed KLink) [sL2Path; sPatch] &&
  forallb (type_allowed KNode) [sFacility; sSwitch] &&
  forallb (fun k => match class_name k with Some c => mem_str c rule_classes | None => false end)
          [KNode; KComp; KNS; KCP; KLink; KComposite].
Lemma builtin_types_in_vocab : builtin_types_ok = true.
Proof. vm_compute. reflexivity. Qed.

(* ViewOnlyDict(Mapping): every method defined in the class body is a read method *)
Definition read_methods : list str :=
  [S "__init__"; S "__iter__"; S "__len__"; S "__getitem__"; S "__repr__"; S "__str__"; S "__hash__";
   S "__contains__"; S "__eq__"; S "__ne__"; S "keys"; S "values"; S "items"; S "get"].
Lemma viewonly_is_read_only :
  viewonly_bases = [S "Mapping"] /\ forall m, In m viewonly_methods -> In m read_methods.
Proof.
  split; [vm_compute; reflexivity|].
  intros m Hin. apply mem_str_In.
  revert m Hin. apply forallb_In. vm_compute. reflexivity.
Qed.

(* C18: component_details / search_catalog return exactly what the catalogue holds (any catalogue). *)
From Coq Require Import List ZArith NArith Bool String.
From FIM Require Import Base.Str Base.PySort Gen.Catalog Model.Catalog18.
Import ListNotations.

Lemma last_opt_in {A} (l : list A) x : last_opt l = Some x -> In x l.
Proof.
  unfold last_opt. destruct (rev l) as [|y r] eqn:E; intro H; [discriminate|]. inversion H; subst.
  apply in_rev. rewrite E. left. reflexivity.
Qed.
Lemma last_opt_none {A} (l : list A) : last_opt l = None -> l = [].
Proof.
  unfold last_opt. destruct (rev l) as [|y r] eqn:E; intro H; [|discriminate].
  rewrite <- (rev_involutive l), E. reflexivity.
Qed.

Theorem component_details_exact : forall cat m,
  match component_details cat m with
  | Ok d => exists e, In e cat /\ e_model e = m /\ e_details e = d
  | Err c => c = S"CatalogException" /\ forall e, In e cat -> e_model e <> m
  end.
Proof.
  intros cat m. unfold component_details.
  destruct (last_opt (filter (fun e => str_eqb m (e_model e)) cat)) as [e|] eqn:E.
  - apply last_opt_in in E. apply filter_In in E. destruct E as [He Hm]. apply str_eqb_eq in Hm.
    exists e. auto.
  - split; [reflexivity|]. apply last_opt_none in E. intros e He Hm.
    assert (Hin : In e (filter (fun e => str_eqb m (e_model e)) cat)).
    { apply filter_In. split; [exact He|]. apply str_eqb_eq. auto. }
    rewrite E in Hin. exact Hin.
Qed.

Lemma dict_set_in k v : forall d k' v', In (k', v') (dict_set_s k v d) -> (k' = k /\ v' = v) \/ In (k', v') d.
Proof.
  induction d as [|[k0 v0] d IH]; intros k' v' H; simpl in H.
  - destruct H as [H|[]]. inversion H. auto.
  - destruct (str_eqb k0 k) eqn:E.
    + apply str_eqb_eq in E. subst. destruct H as [H|H]; [inversion H; auto|right; right; exact H].
    + destruct H as [H|H]; [right; left; exact H|]. destruct (IH _ _ H) as [H1|H1]; [left; exact H1|right; right; exact H1].
Qed.
Lemma dict_set_has k v : forall d, In (k, v) (dict_set_s k v d).
Proof.
  induction d as [|[k0 v0] d IH]; simpl; [left; reflexivity|].
  destruct (str_eqb k0 k) eqn:E; [apply str_eqb_eq in E; subst; left; reflexivity|right; exact IH].
Qed.
Lemma dict_set_keeps k v : forall d k' v', In (k', v') d -> exists v'', In (k', v'') (dict_set_s k v d).
Proof.
  induction d as [|[k0 v0] d IH]; intros k' v' H; [destruct H|]. simpl.
  destruct (str_eqb k0 k) eqn:E.
  - destruct H as [H|H]; [inversion H; subst; exists v; left; apply str_eqb_eq in E; subst; reflexivity|exists v'; right; exact H].
  - destruct H as [H|H]; [exists v'; left; exact H|]. destruct (IH _ _ H) as [v'' H']. exists v''. right. exact H'.
Qed.

Lemma fold_dict_sound : forall l d m dd,
  In (m, dd) (fold_left (fun d e => dict_set_s (e_model e) (e_details e) d) l d) ->
  In (m, dd) d \/ exists e, In e l /\ e_model e = m /\ e_details e = dd.
Proof.
  induction l as [|e l IH]; intros d m dd H; simpl in H; [left; exact H|].
  destruct (IH _ _ _ H) as [H1|[e' [He' H2]]].
  - destruct (dict_set_in _ _ _ _ _ H1) as [[-> ->]|H3]; [right; exists e; simpl; auto|left; exact H3].
  - right. exists e'. simpl. auto.
Qed.
Lemma fold_dict_keeps : forall l d k v, In (k, v) d ->
  exists v', In (k, v') (fold_left (fun d e => dict_set_s (e_model e) (e_details e) d) l d).
Proof.
  induction l as [|e l IH]; intros d k v H; simpl; [exists v; exact H|].
  destruct (dict_set_keeps (e_model e) (e_details e) d k v H) as [v'' H']. apply (IH _ _ _ H').
Qed.
Lemma fold_dict_complete : forall l d e, In e l ->
  exists v', In (e_model e, v') (fold_left (fun d e => dict_set_s (e_model e) (e_details e) d) l d).
Proof.
  induction l as [|e0 l IH]; intros d e H; [destruct H|]. simpl. destruct H as [->|H].
  - apply (fold_dict_keeps l _ (e_model e) (e_details e)). apply dict_set_has.
  - apply IH. exact H.
Qed.

Theorem search_catalog_exact : forall cat t,
  match search_catalog cat t with
  | Ok d => (forall m dd, In (m, dd) d -> exists e, In e cat /\ e_type e = t /\ e_model e = m /\ e_details e = dd) /\
            (forall e, In e cat -> e_type e = t -> exists dd, In (e_model e, dd) d)
  | Err c => c = S"CatalogException" /\ forall e, In e cat -> e_type e <> t
  end.
Proof.
  intros cat t. unfold search_catalog.
  destruct (filter (fun e => str_eqb t (e_type e)) cat) as [|e0 l] eqn:E.
  - split; [reflexivity|]. intros e He Ht.
    assert (Hin : In e (filter (fun e => str_eqb t (e_type e)) cat)) by (apply filter_In; split; [exact He|apply str_eqb_eq; auto]).
    rewrite E in Hin. exact Hin.
  - rewrite <- E. split.
    + intros m dd H. destruct (fold_dict_sound _ _ _ _ H) as [[]|[e [He [Hm Hd]]]].
      apply filter_In in He. destruct He as [He Ht]. apply str_eqb_eq in Ht. exists e. auto.
    + intros e He Ht. apply fold_dict_complete. apply filter_In. split; [exact He|apply str_eqb_eq; auto].
Qed.

(* a model_type that is not a member of the combined enumeration is refused with KeyError, in any catalogue *)
Theorem foreign_model_type_refused : forall cat name nsid ids labs parent,
  gen_component cat name (ByModelType 0) nsid ids labs parent = Err (S"KeyError").
Proof. reflexivity. Qed.

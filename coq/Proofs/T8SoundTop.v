(* C08 proofs, part 5: prune, and the statement "nothing else is deleted" for `exec`. *)
From Coq Require Import List NArith Bool Lia.
From FIM Require Import Model.T8Graph Model.T8Ops Proofs.T8Frame Proofs.T8Query Proofs.T8Hoare Proofs.T8Sound.
Import ListNotations.

(* what prune may delete: what removing a marked node / a marked component of a node / a marked service /
   a marked interface of a service may delete *)
Definition A_prune (g : graph) (x : N) : Prop :=
  (exists n, In n (prune_nodes g) /\ marked g n = true /\ A_node g (name_of g n) x) \/
  (exists c n, In (c, n) (prune_comps g) /\ marked g c = true /\ A_comp g n (name_of g c) x) \/
  (exists s, In s (prune_all_nss g) /\ marked g s = true /\ U_ns g s x) \/
  (exists s i, In s (prune_all_nss g) /\ In i (cpn g s) /\ marked g i = true /\ U_cp g i true x).

Definition A_prune7 (g : graph) (x : N) : Prop :=
  (exists n, In n (prune_nodes g) /\ marked g n = true /\ A_node g (name_of g n) x) \/
  (exists c n, In (c, n) (prune_comps g) /\ marked g c = true /\ A_comp g n (name_of g c) x) \/
  (exists s, In s (prune_all_nss g) /\ marked g s = true /\ A_ns g s x) \/
  (exists s i, In s (prune_all_nss g) /\ In i (cpn g s) /\ marked g i = true /\
               (U_cp g i true x \/ exists j, In j (disc_list g [i]) /\ U_disc g j x)).

Definition A_prune8 (g : graph) (x : N) : Prop :=
  (exists n, In n (prune_nodes g) /\ marked g n = true /\ A_node g (name_of g n) x) \/
  (exists c n, In (c, n) (prune_comps g) /\ marked g c = true /\ A_comp g n (name_of g c) x) \/
  (exists s, In s (prune_all_nss g) /\ marked g s = true /\ A_ns g s x) \/
  (exists s j i, In s (prune_all_nss g) /\ In j (cpn g s) /\ In i (disc_list g [j]) /\ marked g i = true /\
                 ((if N.eqb (type_of g i) T_SubInterface then U_cp g i false x else U_cp g i true x) \/
                  exists k, In k (disc_list g [i]) /\ U_disc g k x)).

(* C08-9: Facility nodes are visited too (removed with remove_facility, which may delete what remove_node may) *)
Definition A_prune9 (g : graph) (x : N) : Prop :=
  (exists n, In n (all_of_class g CNode) /\ marked g n = true /\ A_node g (name_of g n) x) \/
  (exists c n, In (c, n) (prune_comps g) /\ marked g c = true /\ A_comp g n (name_of g c) x) \/
  (exists s, In s (prune_all_nss g) /\ marked g s = true /\ A_ns g s x) \/
  (exists s j i, In s (prune_all_nss g) /\ In j (cpn g s) /\ In i (disc_list g [j]) /\ marked g i = true /\
                 ((if N.eqb (type_of g i) T_SubInterface then U_cp g i false x else U_cp g i true x) \/
                  exists k, In k (disc_list g [i]) /\ U_disc g k x)).

Definition allowed (g : graph) (o : op) (x : N) : Prop :=
  match o with
  | ORemoveNode nm | ORemoveFacility nm | ORemoveSwitch nm => A_node g nm x
  | ORemoveLink nm => In x (by_name g CLink nm)
  | ORemoveNsTopo nm => exists s, In s (by_name g CNS nm) /\ A_ns g s x
  | ORemoveComponent n c => A_comp g n c x
  | ONodeRemoveNs n sname => exists s, In s (first_neighbor g n RHas CNS) /\ name_of g s = sname /\ A_ns g s x
  | ODisconnect _ i => U_disc g i x
  | OUnpeer a b => exists xy, unpeer_ends g a b = Some [xy] /\ (U_cp g (fst xy) true x \/ U_cp g (snd xy) true x)
  | OUnpeer6 a b => exists xy, In xy (unpeer_pairs g a b) /\ (U_cp g (fst xy) true x \/ U_cp g (snd xy) true x)
  | ORemoveInterface s iname => exists i, In i (cpn g s) /\ name_of g i = iname /\ U_cp g i true x
  | ORemoveChild p iname => exists i, In i (cpn g p) /\ name_of g i = iname /\ (U_cp g i false x \/ U_disc g i x)
  | OPrune => A_prune g x
  | OPrune7 => A_prune7 g x
  | OPrune8 => A_prune8 g x
  | OPrune9 => A_prune9 g x
  end.

Section Top.
Variable g0 : graph.

Lemma marked_restrict d n : marked (restrict g0 d) n = true -> marked g0 n = true /\ ~ In n d.
Proof.
  unfold marked. rewrite find_node_restrict. destruct (memN n d) eqn:E; [discriminate|].
  intros H. split; [exact H | apply memN_false; exact E].
Qed.

Lemma prune_nodes_mono d n : In n (prune_nodes (restrict g0 d)) -> In n (prune_nodes g0) /\ ~ In n d.
Proof.
  unfold prune_nodes. intros H. apply filter_In in H. destruct H as [H1 H2].
  apply all_of_class_restrict in H1. destruct H1 as [H1 Hd]. split; [|exact Hd].
  apply filter_In. split; [exact H1|]. rewrite type_of_restrict in H2; [exact H2 | apply memN_false; exact Hd].
Qed.

Lemma prune_comps_mono d c n :
  In (c, n) (prune_comps (restrict g0 d)) -> In (c, n) (prune_comps g0) /\ ~ In c d.
Proof.
  unfold prune_comps. rewrite !in_flat_map. intros [m [Hm H]].
  apply in_map_iff in H. destruct H as [c' [E H]]. inversion E; subst c' m.
  apply first_neighbor_restrict in H; [|discriminate]. destruct H as [H [_ Hd]].
  split; [|exact Hd]. exists n. split; [apply (prune_nodes_mono d); exact Hm|].
  apply in_map_iff. exists c. auto.
Qed.

Lemma prune_seen_mono d s : In s (prune_seen_nss (restrict g0 d)) -> In s (prune_seen_nss g0) /\ ~ In s d.
Proof.
  unfold prune_seen_nss. rewrite !in_flat_map. intros [[c n] [Hcn H]]. simpl in H.
  apply first_neighbor_restrict in H; [|discriminate]. destruct H as [H [_ Hd]].
  split; [|exact Hd]. exists (c, n). split; [apply (prune_comps_mono d); exact Hcn | exact H].
Qed.

Lemma prune_all_nss_In g s : In s (prune_all_nss g) <-> In s (prune_seen_nss g) \/ In s (all_of_class g CNS).
Proof.
  unfold prune_all_nss, prune_other_nss. rewrite in_app_iff, filter_In, negb_true_iff. split.
  - intros [H|[H _]]; auto.
  - intros [H|H]; [left; exact H|].
    destruct (memN s (prune_seen_nss g)) eqn:E; [left; apply memN_In; exact E | right; auto].
Qed.

Lemma prune_all_nss_mono d s : In s (prune_all_nss (restrict g0 d)) -> In s (prune_all_nss g0) /\ ~ In s d.
Proof.
  rewrite !prune_all_nss_In. intros [H|H].
  - apply prune_seen_mono in H. tauto.
  - apply all_of_class_restrict in H. tauto.
Qed.

Lemma Sound_api_prune : Sound g0 (A_prune g0) api_prune.
Proof.
  unfold api_prune.
  apply Sound_bind_get. intros d1. apply Sound_bind_get. intros d2.
  apply Sound_bind_get. intros d3. apply Sound_bind_get. intros d4.
  apply Sound_bind'.
  { apply Inv_for_each_set. intros nm. apply Inv_api_remove_node. }
  { apply Sound_for_each_set. intros nm Hnm. split; [apply Inv_api_remove_node|].
    apply in_map_iff in Hnm. destruct Hnm as [n [En Hn]]. apply filter_In in Hn. destruct Hn as [Hn Hm].
    apply prune_nodes_mono in Hn. destruct Hn as [Hn Hd]. apply marked_restrict in Hm. destruct Hm as [Hm _].
    rewrite name_of_restrict in En; [|apply memN_false; exact Hd]. subst nm.
    apply (Sound_weaken g0 (A_node g0 (name_of g0 n))); [|apply Sound_api_remove_node].
    intros x Hx. left. exists n. auto. }
  intros _. apply Sound_bind'.
  { apply Inv_for_each_set. intros cn. apply Inv_api_remove_component. }
  { apply Sound_for_each_set. intros [cname n] Hcn. split; [apply Inv_api_remove_component|]. simpl.
    apply in_map_iff in Hcn. destruct Hcn as [[c n'] [E Hc]]. simpl in E. injection E as E1 E2. subst n'.
    apply filter_In in Hc. destruct Hc as [Hc Hm]. simpl in Hm.
    apply prune_comps_mono in Hc. destruct Hc as [Hc Hd]. apply marked_restrict in Hm. destruct Hm as [Hm _].
    rewrite name_of_restrict in E1; [|apply memN_false; exact Hd]. subst cname.
    apply (Sound_weaken g0 (A_comp g0 n (name_of g0 c))); [|apply Sound_api_remove_component].
    intros x Hx. right. left. exists c, n. auto. }
  intros _. apply Sound_bind'.
  { apply Inv_for_each_set. intros s. apply Inv_remove_ns. }
  { apply Sound_for_each_set. intros s Hs. split; [apply Inv_remove_ns|].
    rewrite dedup_In in Hs. apply filter_In in Hs. destruct Hs as [Hs Hm].
    apply prune_all_nss_mono in Hs. destruct Hs as [Hs _]. apply marked_restrict in Hm. destruct Hm as [Hm _].
    apply (Sound_weaken g0 (U_ns g0 s)); [|apply Sound_remove_ns].
    intros x Hx. right. right. left. exists s. auto. }
  intros _. apply Sound_for_each_set. intros i Hi. split; [apply Inv_remove_cp|].
  rewrite dedup_In in Hi. apply filter_In in Hi. destruct Hi as [Hi Hm].
  apply in_flat_map in Hi. destruct Hi as [s [Hs Hi]].
  apply prune_all_nss_mono in Hs. destruct Hs as [Hs _]. apply marked_restrict in Hm. destruct Hm as [Hm _].
  unfold ns_interfaces in Hi. apply first_neighbor_restrict in Hi; [|discriminate]. destruct Hi as [Hi _].
  apply (Sound_weaken g0 (U_cp g0 i true)); [|apply Sound_remove_cp].
  intros x Hx. right. right. right. exists s, i. auto.
Qed.

Lemma Sound_remove_if_there c : Sound g0 (U_cp g0 c true) (remove_if_there c).
Proof.
  unfold remove_if_there. apply Sound_bind'; [apply Inv_get | apply Sound_get | intros b].
  destruct b; [apply Sound_remove_cp | apply Sound_ret].
Qed.

Lemma unpeer6_ends_In ps c : In c (unpeer6_ends ps) -> exists xy, In xy ps /\ (c = fst xy \/ c = snd xy).
Proof.
  unfold unpeer6_ends. rewrite dedup_In, in_app_iff, !in_map_iff.
  intros [[xy [E H]]|[xy [E H]]]; exists xy; split; auto.
Qed.

Lemma Sound_api_prune7 : Sound g0 (A_prune7 g0) api_prune7.
Proof.
  unfold api_prune7.
  apply Sound_bind_get. intros d1. apply Sound_bind_get. intros d2.
  apply Sound_bind_get. intros d3. apply Sound_bind_get. intros d4.
  apply Sound_bind'.
  { apply Inv_for_each_set. intros nn. apply Inv_prune_node7. }
  { apply Sound_for_each_set. intros [nm n] Hnm. split; [apply Inv_prune_node7|].
    apply in_map_iff in Hnm. destruct Hnm as [n' [En Hn]]. injection En as En1 En2. subst n'.
    apply filter_In in Hn. destruct Hn as [Hn Hm].
    apply prune_nodes_mono in Hn. destruct Hn as [Hn Hd]. apply marked_restrict in Hm. destruct Hm as [Hm _].
    rewrite name_of_restrict in En1; [|apply memN_false; exact Hd]. subst nm.
    unfold prune_node7. apply Sound_bind'; [apply Inv_exists_as | apply Sound_get | intros b]. simpl.
    destruct b; [|apply Sound_ret].
    apply (Sound_weaken g0 (A_node g0 (name_of g0 n))); [|apply Sound_api_remove_node].
    intros x Hx. left. exists n. auto. }
  intros _. apply Sound_bind'.
  { apply Inv_for_each_set. intros cn. apply Inv_prune_comp7. }
  { apply Sound_for_each_set. intros [cname [c n]] Hcn. split; [apply Inv_prune_comp7|].
    apply in_map_iff in Hcn. destruct Hcn as [[c' n'] [E Hc]]. simpl in E. injection E as E1 E2 E3. subst c' n'.
    apply filter_In in Hc. destruct Hc as [Hc Hm]. simpl in Hm.
    apply prune_comps_mono in Hc. destruct Hc as [Hc Hd]. apply marked_restrict in Hm. destruct Hm as [Hm _].
    rewrite name_of_restrict in E1; [|apply memN_false; exact Hd]. subst cname.
    unfold prune_comp7. simpl. apply Sound_bind'; [apply Inv_exists_as | apply Sound_get | intros b].
    destruct b; [|apply Sound_ret].
    apply (Sound_weaken g0 (A_comp g0 n (name_of g0 c))); [|apply Sound_api_remove_component].
    intros x Hx. right. left. exists c, n. auto. }
  intros _. apply Sound_bind'.
  { apply Inv_for_each_set. intros s. apply Inv_prune_ns7. }
  { apply Sound_for_each_set. intros s Hs. split; [apply Inv_prune_ns7|].
    rewrite dedup_In in Hs. apply filter_In in Hs. destruct Hs as [Hs Hm].
    apply prune_all_nss_mono in Hs. destruct Hs as [Hs _]. apply marked_restrict in Hm. destruct Hm as [Hm _].
    unfold prune_ns7. apply Sound_bind'; [apply Inv_exists_as | apply Sound_get | intros b].
    destruct b; [|apply Sound_ret].
    apply (Sound_weaken g0 (A_ns g0 s)); [|apply Sound_remove_ns_disconnecting].
    intros x Hx. right. right. left. exists s. auto. }
  intros _. apply Sound_for_each_set. intros i Hi. split; [apply Inv_prune_if7|].
  rewrite dedup_In in Hi. apply filter_In in Hi. destruct Hi as [Hi Hm].
  apply in_flat_map in Hi. destruct Hi as [s [Hs Hi]].
  apply prune_all_nss_mono in Hs. destruct Hs as [Hs _]. apply marked_restrict in Hm. destruct Hm as [Hm _].
  unfold ns_interfaces in Hi. apply first_neighbor_restrict in Hi; [|discriminate]. destruct Hi as [Hi _].
  unfold prune_if7. apply Sound_bind'; [apply Inv_exists_as | apply Sound_get | intros b].
  destruct b; [|apply Sound_ret].
  apply Sound_bind_get. intros d5.
  apply Sound_bind'.
  { apply Inv_for_each_set. intros j. apply Inv_disconnect_step. }
  { apply (Sound_peers_loop g0 _ (fun j => In j (disc_list g0 [i]))).
    - intros j Hj. apply (disc_list_mono g0 d5); [auto | exact Hj].
    - intros j x Hj Hx. right. right. right. exists s, i. split; [exact Hs|]. split; [exact Hi|]. split; [exact Hm|].
      right. exists j. auto. }
  intros _. apply (Sound_weaken g0 (U_cp g0 i true)); [|apply Sound_remove_cp].
  intros x Hx. right. right. right. exists s, i. auto.
Qed.

Lemma Sound_api_prune8 : Sound g0 (A_prune8 g0) api_prune8.
Proof.
  unfold api_prune8.
  apply Sound_bind_get. intros d1. apply Sound_bind_get. intros d2.
  apply Sound_bind_get. intros d3. apply Sound_bind_get. intros d4.
  apply Sound_bind'.
  { apply Inv_for_each_set. intros nn. apply Inv_prune_node7. }
  { apply Sound_for_each_set. intros [nm n] Hnm. split; [apply Inv_prune_node7|].
    apply in_map_iff in Hnm. destruct Hnm as [n' [En Hn]]. injection En as En1 En2. subst n'.
    apply filter_In in Hn. destruct Hn as [Hn Hm].
    apply prune_nodes_mono in Hn. destruct Hn as [Hn Hd]. apply marked_restrict in Hm. destruct Hm as [Hm _].
    rewrite name_of_restrict in En1; [|apply memN_false; exact Hd]. subst nm.
    unfold prune_node7. apply Sound_bind'; [apply Inv_exists_as | apply Sound_get | intros b]. simpl.
    destruct b; [|apply Sound_ret].
    apply (Sound_weaken g0 (A_node g0 (name_of g0 n))); [|apply Sound_api_remove_node].
    intros x Hx. left. exists n. auto. }
  intros _. apply Sound_bind'.
  { apply Inv_for_each_set. intros cn. apply Inv_prune_comp7. }
  { apply Sound_for_each_set. intros [cname [c n]] Hcn. split; [apply Inv_prune_comp7|].
    apply in_map_iff in Hcn. destruct Hcn as [[c' n'] [E Hc]]. simpl in E. injection E as E1 E2 E3. subst c' n'.
    apply filter_In in Hc. destruct Hc as [Hc Hm]. simpl in Hm.
    apply prune_comps_mono in Hc. destruct Hc as [Hc Hd]. apply marked_restrict in Hm. destruct Hm as [Hm _].
    rewrite name_of_restrict in E1; [|apply memN_false; exact Hd]. subst cname.
    unfold prune_comp7. simpl. apply Sound_bind'; [apply Inv_exists_as | apply Sound_get | intros b].
    destruct b; [|apply Sound_ret].
    apply (Sound_weaken g0 (A_comp g0 n (name_of g0 c))); [|apply Sound_api_remove_component].
    intros x Hx. right. left. exists c, n. auto. }
  intros _. apply Sound_bind'.
  { apply Inv_for_each_set. intros s. apply Inv_prune_ns7. }
  { apply Sound_for_each_set. intros s Hs. split; [apply Inv_prune_ns7|].
    rewrite dedup_In in Hs. apply filter_In in Hs. destruct Hs as [Hs Hm].
    apply prune_all_nss_mono in Hs. destruct Hs as [Hs _]. apply marked_restrict in Hm. destruct Hm as [Hm _].
    unfold prune_ns7. apply Sound_bind'; [apply Inv_exists_as | apply Sound_get | intros b].
    destruct b; [|apply Sound_ret].
    apply (Sound_weaken g0 (A_ns g0 s)); [|apply Sound_remove_ns_disconnecting].
    intros x Hx. right. right. left. exists s. auto. }
  intros _. apply Sound_for_each_set. intros i Hi. split; [apply Inv_prune_if8|].
  rewrite dedup_In in Hi. apply filter_In in Hi. destruct Hi as [Hi Hm].
  apply in_flat_map in Hi. destruct Hi as [j [Hj Hi]].
  apply in_flat_map in Hj. destruct Hj as [s [Hs Hj]].
  apply prune_all_nss_mono in Hs. destruct Hs as [Hs _]. apply marked_restrict in Hm. destruct Hm as [Hm Hid].
  unfold ns_interfaces in Hj. apply first_neighbor_restrict in Hj; [|discriminate]. destruct Hj as [Hj _].
  assert (Hi0 : In i (disc_list g0 [j])).
  { apply (disc_list_mono g0 d4); [auto|]. unfold disc_list. simpl. rewrite app_nil_r. exact Hi. }
  unfold prune_if8. apply Sound_bind'; [apply Inv_exists_as | apply Sound_get | intros b].
  destruct b; [|apply Sound_ret].
  apply Sound_bind_get. intros d5.
  apply Sound_bind'.
  { apply Inv_for_each_set. intros k. apply Inv_disconnect_step. }
  { apply (Sound_peers_loop g0 _ (fun k => In k (disc_list g0 [i]))).
    - intros k Hk. apply (disc_list_mono g0 d5); [auto | exact Hk].
    - intros k x Hk Hx. right. right. right. exists s, j, i. repeat (split; [assumption|]).
      right. exists k. auto. }
  intros _. intros st0 Hst0 x Hx. unfold bind, m_get in Hx. simpl in Hx.
  assert (Hcase : In x (snd st0) \/ (if N.eqb (type_of g0 i) T_SubInterface then U_cp g0 i false x else U_cp g0 i true x)).
  { destruct (in_dec N.eq_dec i (snd st0)) as [Hd|Hd].
    - (* i is already gone: remove_cp_and_links raises before deleting anything *)
      left. assert (Hh : has_node (fst st0) i = false).
      { rewrite Hst0, has_node_restrict. assert (memN i (snd st0) = true) by (apply memN_In; exact Hd).
        rewrite H. reflexivity. }
      revert Hx. generalize (negb (N.eqb (type_of (fst st0) i) T_SubInterface)). intros dp Hx.
      unfold remove_cp_and_links, bind, m_nonempty, need_node, m_read in Hx.
      unfold has_node in Hh. destruct (gnodes (fst st0)); simpl in Hx; [exact Hx|].
      destruct (find_node (fst st0) i); [discriminate|]. simpl in Hx. exact Hx.
    - assert (Ety : type_of (fst st0) i = type_of g0 i).
      { rewrite Hst0. apply type_of_restrict. apply memN_false. exact Hd. }
      rewrite Ety in Hx.
      destruct (N.eqb (type_of g0 i) T_SubInterface); simpl in Hx.
      + exact (Sound_remove_cp g0 i false st0 Hst0 x Hx).
      + exact (Sound_remove_cp g0 i true st0 Hst0 x Hx). }
  destruct Hcase as [H|H]; [left; exact H|]. right. right. right. right. exists s, j, i.
  repeat (split; [assumption|]). left. exact H.
Qed.

Lemma Sound_api_prune9 : Sound g0 (A_prune9 g0) api_prune9.
Proof.
  unfold api_prune9.
  apply Sound_bind_get. intros d1. apply Sound_bind_get. intros d2.
  apply Sound_bind_get. intros d3. apply Sound_bind_get. intros d4.
  apply Sound_bind'.
  { apply Inv_for_each_set. intros nn. apply Inv_prune_node9. }
  { apply Sound_for_each_set. intros [nm n] Hnm. split; [apply Inv_prune_node9|].
    apply in_map_iff in Hnm. destruct Hnm as [n' [En Hn]]. injection En as En1 En2. subst n'.
    apply filter_In in Hn. destruct Hn as [Hn Hm].
    apply all_of_class_restrict in Hn. destruct Hn as [Hn Hd]. apply marked_restrict in Hm. destruct Hm as [Hm _].
    rewrite name_of_restrict in En1; [|apply memN_false; exact Hd]. subst nm.
    unfold prune_node9. apply Sound_bind'; [apply Inv_exists_as | apply Sound_get | intros b]. simpl.
    destruct b; [|apply Sound_ret].
    apply Sound_bind_get. intros d5.
    match goal with |- context [N.eqb ?a T_Facility] => destruct (N.eqb a T_Facility) end.
    - apply (Sound_weaken g0 (A_node g0 (name_of g0 n))); [|apply Sound_api_remove_facility].
      intros x Hx. left. exists n. auto.
    - apply (Sound_weaken g0 (A_node g0 (name_of g0 n))); [|apply Sound_api_remove_node].
      intros x Hx. left. exists n. auto. }
  intros _. apply Sound_bind'.
  { apply Inv_for_each_set. intros cn. apply Inv_prune_comp7. }
  { apply Sound_for_each_set. intros [cname [c n]] Hcn. split; [apply Inv_prune_comp7|].
    apply in_map_iff in Hcn. destruct Hcn as [[c' n'] [E Hc]]. simpl in E. injection E as E1 E2 E3. subst c' n'.
    apply filter_In in Hc. destruct Hc as [Hc Hm]. simpl in Hm.
    apply prune_comps_mono in Hc. destruct Hc as [Hc Hd]. apply marked_restrict in Hm. destruct Hm as [Hm _].
    rewrite name_of_restrict in E1; [|apply memN_false; exact Hd]. subst cname.
    unfold prune_comp7. simpl. apply Sound_bind'; [apply Inv_exists_as | apply Sound_get | intros b].
    destruct b; [|apply Sound_ret].
    apply (Sound_weaken g0 (A_comp g0 n (name_of g0 c))); [|apply Sound_api_remove_component].
    intros x Hx. right. left. exists c, n. auto. }
  intros _. apply Sound_bind'.
  { apply Inv_for_each_set. intros s. apply Inv_prune_ns7. }
  { apply Sound_for_each_set. intros s Hs. split; [apply Inv_prune_ns7|].
    rewrite dedup_In in Hs. apply filter_In in Hs. destruct Hs as [Hs Hm].
    apply prune_all_nss_mono in Hs. destruct Hs as [Hs _]. apply marked_restrict in Hm. destruct Hm as [Hm _].
    unfold prune_ns7. apply Sound_bind'; [apply Inv_exists_as | apply Sound_get | intros b].
    destruct b; [|apply Sound_ret].
    apply (Sound_weaken g0 (A_ns g0 s)); [|apply Sound_remove_ns_disconnecting].
    intros x Hx. right. right. left. exists s. auto. }
  intros _. apply Sound_for_each_set. intros i Hi. split; [apply Inv_prune_if8|].
  rewrite dedup_In in Hi. apply filter_In in Hi. destruct Hi as [Hi Hm].
  apply in_flat_map in Hi. destruct Hi as [j [Hj Hi]].
  apply in_flat_map in Hj. destruct Hj as [s [Hs Hj]].
  apply prune_all_nss_mono in Hs. destruct Hs as [Hs _]. apply marked_restrict in Hm. destruct Hm as [Hm Hid].
  unfold ns_interfaces in Hj. apply first_neighbor_restrict in Hj; [|discriminate]. destruct Hj as [Hj _].
  assert (Hi0 : In i (disc_list g0 [j])).
  { apply (disc_list_mono g0 d4); [auto|]. unfold disc_list. simpl. rewrite app_nil_r. exact Hi. }
  unfold prune_if8. apply Sound_bind'; [apply Inv_exists_as | apply Sound_get | intros b].
  destruct b; [|apply Sound_ret].
  apply Sound_bind_get. intros d5.
  apply Sound_bind'.
  { apply Inv_for_each_set. intros k. apply Inv_disconnect_step. }
  { apply (Sound_peers_loop g0 _ (fun k => In k (disc_list g0 [i]))).
    - intros k Hk. apply (disc_list_mono g0 d5); [auto | exact Hk].
    - intros k x Hk Hx. right. right. right. exists s, j, i. repeat (split; [assumption|]).
      right. exists k. auto. }
  intros _. intros st0 Hst0 x Hx. unfold bind, m_get in Hx. simpl in Hx.
  assert (Hcase : In x (snd st0) \/ (if N.eqb (type_of g0 i) T_SubInterface then U_cp g0 i false x else U_cp g0 i true x)).
  { destruct (in_dec N.eq_dec i (snd st0)) as [Hd|Hd].
    - (* i is already gone: remove_cp_and_links raises before deleting anything *)
      left. assert (Hh : has_node (fst st0) i = false).
      { rewrite Hst0, has_node_restrict. assert (memN i (snd st0) = true) by (apply memN_In; exact Hd).
        rewrite H. reflexivity. }
      revert Hx. generalize (negb (N.eqb (type_of (fst st0) i) T_SubInterface)). intros dp Hx.
      unfold remove_cp_and_links, bind, m_nonempty, need_node, m_read in Hx.
      unfold has_node in Hh. destruct (gnodes (fst st0)); simpl in Hx; [exact Hx|].
      destruct (find_node (fst st0) i); [discriminate|]. simpl in Hx. exact Hx.
    - assert (Ety : type_of (fst st0) i = type_of g0 i).
      { rewrite Hst0. apply type_of_restrict. apply memN_false. exact Hd. }
      rewrite Ety in Hx.
      destruct (N.eqb (type_of g0 i) T_SubInterface); simpl in Hx.
      + exact (Sound_remove_cp g0 i false st0 Hst0 x Hx).
      + exact (Sound_remove_cp g0 i true st0 Hst0 x Hx). }
  destruct Hcase as [H|H]; [left; exact H|]. right. right. right. right. exists s, j, i.
  repeat (split; [assumption|]). left. exact H.
Qed.

Lemma Sound_then_ret {A B} P (m : M A) (v : B) : Inv m -> Sound g0 P m -> Sound g0 P (bind m (fun _ => ret v)).
Proof. intros Im Hm. apply Sound_bind'; [exact Im | exact Hm | intros _; apply Sound_ret]. Qed.

Lemma Sound_run {A} P (m : M A) r g' tr : Sound g0 P m -> run m g0 = (r, (g', tr)) -> forall x, In x tr -> P x.
Proof.
  intros Hm E x Hx. unfold run in E.
  assert (C : cons g0 (g0, [])) by (unfold cons; simpl; symmetry; apply restrict_nil).
  specialize (Hm (g0, []) C x). rewrite E in Hm. simpl in Hm. destruct (Hm Hx) as [[]|H]. exact H.
Qed.

End Top.

Theorem sound_exec ex o cs g r g' tr :
  run (exec ex o cs) g = (r, (g', tr)) -> forall x, In x tr -> allowed g o x.
Proof.
  destruct o; simpl; intros E.
  - apply (Sound_run g _ _ _ _ _ (Sound_then_ret g _ _ _ (Inv_api_remove_node _) (Sound_api_remove_node g name)) E).
  - apply (Sound_run g _ _ _ _ _ (Sound_then_ret g _ _ _ (Inv_api_remove_facility _) (Sound_api_remove_facility g name)) E).
  - apply (Sound_run g _ _ _ _ _ (Sound_then_ret g _ _ _ (Inv_api_remove_switch _) (Sound_api_remove_switch g name)) E).
  - apply (Sound_run g _ _ _ _ _ (Sound_then_ret g _ _ _ (Inv_api_remove_link _) (Sound_api_remove_link g name)) E).
  - apply (Sound_run g _ _ _ _ _ (Sound_then_ret g _ _ _ (Inv_api_remove_ns_topo _) (Sound_api_remove_ns_topo g name)) E).
  - apply (Sound_run g _ _ _ _ _ (Sound_then_ret g _ _ _ (Inv_api_remove_component _ _) (Sound_api_remove_component g n cname)) E).
  - apply (Sound_run g _ _ _ _ _ (Sound_then_ret g _ _ _ (Inv_api_node_remove_ns _ _) (Sound_api_node_remove_ns g n sname)) E).
  - refine (Sound_run g _ _ _ _ _ _ E).
    apply Sound_bind'; [apply Inv_api_disconnect | apply Sound_api_disconnect | intros c; apply Sound_ret].
  - (* unpeer: the path is computed on g itself *)
    unfold run, api_unpeer, bind, need_node, m_read, m_get in E. simpl in E.
    destruct (find_node g a); [|inversion E; intros x []].
    destruct (find_node g b); [|inversion E; intros x []].
    destruct (unpeer_ends g a b) as [[|xy [|xy' l]]|] eqn:U; simpl in E;
      try (inversion E; intros x []; fail).
    + intros x Hx. exists xy. split; [reflexivity|].
      assert (S : Sound g (fun x => U_cp g (fst xy) true x \/ U_cp g (snd xy) true x)
                        (bind (api_unpeer_checked xy (nth 0 cs []) (nth 1 cs [])) (fun cc => ret [fst cc; snd cc]))).
      { apply Sound_bind'; [apply Inv_api_unpeer_checked | apply Sound_api_unpeer_checked | intros cc; apply Sound_ret]. }
      apply (Sound_run g _ _ r g' tr S); [|exact Hx].
      unfold run, bind. exact E.
    + match type of E with context [if ?c then _ else _] => destruct c end; simpl in E; inversion E; intros x [].
  - (* unpeer as rewritten by C08-6: the pairs are read on g itself *)
    unfold run, api_unpeer6, bind, need_node, m_read, m_get, guard in E. simpl in E.
    destruct (find_node g a) as [xa|]; [|inversion E; intros x []]. simpl in E.
    destruct (cls_eqb (ncls xa) CNS || cls_eqb (ncls xa) CLink); simpl in E; [|inversion E; intros x []].
    destruct (unpeer_pairs g a b) as [|p0 ps'] eqn:U; [inversion E; intros x []|].
    set (ps := p0 :: ps') in *.
    set (P := fun x => exists xy, In xy ps /\ (U_cp g (fst xy) true x \/ U_cp g (snd xy) true x)).
    assert (S : Sound g P (bind (for_each_set remove_if_there (unpeer6_ends ps)) (fun _ =>
                  bind (ret (filter (fun i => negb (memN i (map fst ps))) (nth 0 cs []),
                             filter (fun i => negb (memN i (map snd ps))) (nth 1 cs [])))
                       (fun cc => ret [fst cc; snd cc])))).
    { apply Sound_bind'.
      - apply Inv_for_each_set. intros c. apply Inv_remove_if_there.
      - apply Sound_for_each_set. intros c Hc. split; [apply Inv_remove_if_there|].
        apply (Sound_weaken g (U_cp g c true)); [|apply Sound_remove_if_there].
        intros x Hx. destruct (unpeer6_ends_In ps c Hc) as [xy [Hxy [->| ->]]]; exists xy; auto.
      - intros _. apply Sound_bind'; [apply Inv_ret | apply Sound_ret | intros cc; apply Sound_ret]. }
    apply (Sound_run g P _ r g' tr S). unfold run, bind, ret in *. simpl.
    destruct (for_each_set remove_if_there (unpeer6_ends ps) (g, [])) as [[u|e] s1] eqn:EF; simpl in *; exact E.
  - refine (Sound_run g _ _ _ _ _ _ E).
    apply Sound_bind'; [apply Inv_api_remove_interface | apply Sound_api_remove_interface | intros c; apply Sound_ret].
  - refine (Sound_run g _ _ _ _ _ _ E).
    apply Sound_bind'; [apply Inv_api_remove_child | apply Sound_api_remove_child | intros c; apply Sound_ret].
  - apply (Sound_run g _ _ _ _ _ (Sound_then_ret g _ _ _ Inv_api_prune (Sound_api_prune g)) E).
  - apply (Sound_run g _ _ _ _ _ (Sound_then_ret g _ _ _ Inv_api_prune7 (Sound_api_prune7 g)) E).
  - apply (Sound_run g _ _ _ _ _ (Sound_then_ret g _ _ _ Inv_api_prune8 (Sound_api_prune8 g)) E).
  - apply (Sound_run g _ _ _ _ _ (Sound_then_ret g _ _ _ Inv_api_prune9 (Sound_api_prune9 g)) E).
Qed.

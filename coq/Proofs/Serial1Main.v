(* C01 proofs: the round trip through serialize_graph and each of the four import entry points. *)
From Coq Require Import String.
From Coq Require Import List NArith ZArith Bool Lia.
From FIM Require Import Base.Str Model.Serial1Text Model.Serial1Graph.
From FIM Require Import Proofs.Serial1Text Proofs.Serial1Doc Proofs.Serial1Store.
Import ListNotations.
Open Scope N_scope.
Local Arguments N.eqb : simpl nomatch.

(* ---------- shape ---------- *)
Lemma graph_shape_parts g : graph_shape g = true -> NoDup (map fst (g_nodes g)) /\ closed g.
Proof.
  unfold graph_shape. rewrite andb_true_iff, forallb_forall. intros [ND CL]. split; [apply nodupN_NoDup, ND|].
  intros [[u v] ps] He. specialize (CL _ He). simpl in CL. apply andb_true_iff in CL as [A B].
  split; apply memN_In; assumption.
Qed.
Lemma graph_shape_intro g : NoDup (map fst (g_nodes g)) -> closed g -> graph_shape g = true.
Proof.
  intros ND CL. unfold graph_shape. rewrite andb_true_iff, forallb_forall. split; [apply nodupN_NoDup, ND|].
  intros [[u v] ps] He. destruct (CL _ He) as [A B]. apply andb_true_iff. split; apply memN_In; assumption.
Qed.
Lemma graph_wf_shape g : graph_wf g = true -> graph_shape g = true.
Proof.
  unfold graph_wf, graph_shape. rewrite !andb_true_iff. intros [[[A B] _] _]. split; assumption.
Qed.
Lemma fmt_ok_shape f g : fmt_ok f g = true -> graph_shape g = true.
Proof.
  destruct f; simpl; [apply graph_wf_shape|]. rewrite andb_true_iff. intros [A _]. exact A.
Qed.

(* ---------- what extract returns ---------- *)
Lemma extract_facts s gid g : extract s gid = Some g ->
  g_nodes g <> [] /\ (forall n, In n (g_nodes g) -> has_gid gid n = true).
Proof.
  unfold extract. destruct (filter (has_gid gid) (s_nodes s)) as [|n0 r] eqn:E; [discriminate|].
  intro H. inversion H; subst. clear H. cbn [g_nodes]. split; [discriminate|].
  intros n Hn. rewrite <- E in Hn. apply filter_In in Hn as [_ Hn]. exact Hn.
Qed.

Lemma nonempty_b g : g_nodes g <> [] -> nonempty g = true.
Proof. unfold nonempty. destruct (g_nodes g); [congruence|reflexivity]. Qed.

(* ---------- serialize, then read ---------- *)
Lemma ser_read f g : fmt_ok f g = true ->
  exists t, serialize f g = Some t /\ read_any t = Some g.
Proof.
  destruct f; simpl; intro H.
  - destruct (graphml_roundtrip g H) as (d & A & B). exists (TGraphML d). rewrite A. split; [reflexivity|exact B].
  - apply andb_true_iff in H as [_ J]. exists (TJson (jwrite g)). split; [reflexivity|]. simpl. apply json_roundtrip, J.
Qed.

(* ---------- get_graph_id ---------- *)
Lemma has_gid_inv gid n : has_gid gid n = true -> pget P_GraphID (snd n) = Some (PStr gid).
Proof.
  unfold has_gid, node_gid. destruct (pget P_GraphID (snd n)) as [[x|z|b]|]; try discriminate.
  intro H. apply str_eqb_eq in H. subst. reflexivity.
Qed.

Lemma all_same_spec gid l : (forall o, In o l -> o = Some (PStr gid)) -> all_same gid l = ROk gid.
Proof.
  induction l as [|o l IH]; intro H; [reflexivity|]. rewrite (H o (or_introl eq_refl)). simpl.
  rewrite str_eqb_refl. apply IH. intros o' Ho. apply H. right. exact Ho.
Qed.

Lemma get_graph_id_spec t g gid : read_any t = Some g -> g_nodes g <> [] ->
  (forall n, In n (g_nodes g) -> has_gid gid n = true) -> get_graph_id t = ROk gid.
Proof.
  intros R NE H. unfold get_graph_id. rewrite R.
  destruct (g_nodes g) as [|n0 r] eqn:E; [congruence|]. simpl.
  rewrite (has_gid_inv gid n0) by (apply H; left; reflexivity).
  apply all_same_spec. intros o Ho. apply in_map_iff in Ho as (n & <- & Hn). apply has_gid_inv, H. right. exact Hn.
Qed.

(* ---------- the round trip, entry point by entry point ---------- *)
Theorem roundtrip_restamp f ep s gid gid' g :
  is_direct ep = false -> store_wf s = true -> extract s gid = Some g ->
  fmt_ok f g = true -> graph_ids_ok g = true ->
  exists t s' g',
    serialize_graph s gid f = Some (Some t)
    /\ import_via ep s t gid' = (s', ROk gid')
    /\ extract s' gid' = Some g'
    /\ g' = copy_of s gid' g
    /\ content g' = content (restamp gid' g).
Proof.
  intros D W E OK IDS.
  destruct (ser_read f g OK) as (t & SE & RD).
  destruct (extract_facts _ _ _ E) as [NE _].
  destruct (graph_shape_parts _ (fmt_ok_shape f g OK)) as [ND CL].
  destruct (add_graph_spec s gid' g (store_wf_bounded s W) ND CL IDS NE) as (s' & AG & EX).
  exists t, s', (copy_of s gid' g). split; [unfold serialize_graph; rewrite E, SE; reflexivity|]. split; [|split; [|split]].
  - assert (I : import_string s t gid' = (s', ROk gid')).
    { unfold import_string. rewrite RD, (nonempty_b _ NE). exact AG. }
    destruct ep; try discriminate; exact I.
  - exact EX.
  - reflexivity.
  - apply content_copy; assumption.
Qed.

Theorem roundtrip_direct f ep s gid g :
  is_direct ep = true -> store_wf s = true -> extract s gid = Some g -> fmt_ok f g = true ->
  forall gid', exists t s' g',
    serialize_graph s gid f = Some (Some t)
    /\ import_via ep s t gid' = (s', ROk gid)
    /\ extract s' gid = Some g'
    /\ g' = copy_direct s g
    /\ content g' = content g.
Proof.
  intros D W E OK gid'.
  destruct (ser_read f g OK) as (t & SE & RD).
  destruct (extract_facts _ _ _ E) as [NE HG].
  destruct (graph_shape_parts _ (fmt_ok_shape f g OK)) as [ND CL].
  destruct (add_graph_direct_spec s gid g (store_wf_bounded s W) ND CL HG NE) as (s' & AG & EX).
  exists t, s', (copy_direct s g). split; [unfold serialize_graph; rewrite E, SE; reflexivity|]. split; [|split; [|split]].
  - assert (I : import_string_direct s t = (s', ROk gid)).
    { unfold import_string_direct. rewrite (get_graph_id_spec t _ _ RD NE HG), RD, (nonempty_b _ NE). exact AG. }
    destruct ep; try discriminate; exact I.
  - exact EX.
  - reflexivity.
  - apply content_relabelled; assumption.
Qed.

(* ---------- the imported copy is again a well-formed graph ---------- *)
Definition pn_ok (ps : props) : bool := props_ok ps && class_ok ps && class_str ps.

Lemma graph_wf_iff g : graph_wf g = true <->
  graph_shape g = true /\ (forall n, In n (g_nodes g) -> pn_ok (snd n) = true)
  /\ (forall e, In e (g_edges g) -> pn_ok (snd e) = true).
Proof.
  unfold graph_wf, graph_shape, pn_ok. rewrite !andb_true_iff, !forallb_forall. tauto.
Qed.

Lemma zip_ids_In k ns n : In n (zip_ids k ns) -> exists n0, In n0 ns /\ snd n0 = snd n.
Proof.
  revert k. induction ns as [|[key ps] r IH]; intros k H; [destruct H|]. simpl in H. destruct H as [<-|H].
  - exists (key, ps). split; [left; reflexivity|reflexivity].
  - destruct (IH _ H) as (n0 & A & B). exists n0. split; [right; exact A|exact B].
Qed.

Lemma relabelled_props k g :
  (forall n, In n (g_nodes (relabelled k g)) -> exists n0, In n0 (g_nodes g) /\ snd n0 = snd n)
  /\ (forall e, In e (g_edges (relabelled k g)) -> exists e0, In e0 (g_edges g) /\ snd e0 = snd e).
Proof.
  split.
  - intros n Hn. simpl in Hn. apply zip_ids_In in Hn. exact Hn.
  - intros e He. simpl in He. apply in_map_iff in He as ([[u v] ps] & <- & H0). exists (u, v, ps). split; [exact H0|reflexivity].
Qed.

Lemma relabelled_shape k g : graph_shape g = true -> graph_shape (relabelled k g) = true.
Proof.
  intro H. destruct (graph_shape_parts g H) as [ND CL]. apply graph_shape_intro.
  - simpl. apply zip_ids_nodup.
  - apply relabelled_closed; assumption.
Qed.

Lemma stamp_shape gid g : graph_shape g = true -> graph_shape (stamp gid g) = true.
Proof.
  unfold graph_shape. simpl. rewrite map_map. simpl. auto.
Qed.

Lemma pset_In k v ps kv : In kv (pset k v ps) -> kv = (k, v) \/ In kv ps.
Proof.
  induction ps as [|[k' w] r IH]; simpl; [intros [<-|[]]; left; reflexivity|].
  destruct (N.eqb_spec k' k) as [->|NE]; simpl.
  - intros [<-|H]; [left; reflexivity|right; right; exact H].
  - intros [<-|H]; [right; left; reflexivity|]. destruct (IH H) as [A|A]; [left; exact A|right; right; exact A].
Qed.

Lemma pset_names k v ps : In k (map fst ps) -> map fst (pset k v ps) = map fst ps.
Proof.
  induction ps as [|[k' w] r IH]; [intros []|]. simpl. destruct (N.eqb_spec k' k) as [->|NE]; simpl; [reflexivity|].
  intros [E|H]; [congruence|]. rewrite IH by exact H. reflexivity.
Qed.
Lemma pset_names_new k v ps : ~ In k (map fst ps) -> map fst (pset k v ps) = map fst ps ++ [k].
Proof.
  induction ps as [|[k' w] r IH]; [reflexivity|]. simpl. intro H. destruct (N.eqb_spec k' k) as [->|NE]; simpl.
  - exfalso. apply H. left. reflexivity.
  - rewrite IH; [reflexivity|]. intro Hin. apply H. right. exact Hin.
Qed.

Lemma pset_nodup k v ps : NoDup (map fst ps) -> NoDup (map fst (pset k v ps)).
Proof.
  intro ND. destruct (in_dec N.eq_dec k (map fst ps)) as [I|NI].
  - rewrite pset_names by exact I. exact ND.
  - rewrite pset_names_new by exact NI. apply NoDup_snoc; assumption.
Qed.

Lemma pn_ok_stamp gid ps : xml_legal gid = true -> pn_ok ps = true -> pn_ok (pset P_GraphID (PStr gid) ps) = true.
Proof.
  unfold pn_ok, props_ok. rewrite !andb_true_iff. intros L [[[ND LG] CO] CS]. repeat split.
  - apply nodupN_NoDup, pset_nodup, nodupN_NoDup, ND.
  - rewrite forallb_forall in *. intros kv Hkv. apply pset_In in Hkv as [->|H]; [exact L|apply LG, H].
  - unfold class_ok in *. rewrite pget_pset_other by discriminate. exact CO.
  - unfold class_str in *. rewrite forallb_forall in *. intros kv Hkv.
    apply pset_In in Hkv as [->|H]; [reflexivity|apply CS, H].
Qed.

Lemma copy_of_wf s gid g : xml_legal gid = true -> graph_wf g = true -> graph_wf (copy_of s gid g) = true.
Proof.
  intros L W. apply graph_wf_iff in W as (SH & PN & PE). apply graph_wf_iff. unfold copy_of.
  destruct (relabelled_props (s_next s) g) as [RN RE]. split; [|split].
  - apply stamp_shape, relabelled_shape, SH.
  - intros n Hn. simpl in Hn. apply in_map_iff in Hn as (n1 & <- & H1).
    destruct (RN n1 H1) as (n0 & H0 & E). simpl. rewrite <- E. apply pn_ok_stamp; [exact L|apply PN, H0].
  - intros e He. destruct (RE e He) as (e0 & H0 & E). rewrite <- E. apply PE, H0.
Qed.

Lemma copy_direct_wf s g : graph_wf g = true -> graph_wf (copy_direct s g) = true.
Proof.
  intro W. apply graph_wf_iff in W as (SH & PN & PE). apply graph_wf_iff. unfold copy_direct.
  destruct (relabelled_props (s_next s) g) as [RN RE]. split; [|split].
  - apply relabelled_shape, SH.
  - intros n Hn. destruct (RN n Hn) as (n0 & H0 & E). rewrite <- E. apply PN, H0.
  - intros e He. destruct (RE e He) as (e0 & H0 & E). rewrite <- E. apply PE, H0.
Qed.

Lemma graph_json_ok_iff g : graph_json_ok g = true <->
  (forall n, In n (g_nodes g) -> ~ In P_id (map fst (snd n)))
  /\ (forall e, In e (g_edges g) -> ~ In P_source (map fst (snd e)) /\ ~ In P_target (map fst (snd e))).
Proof.
  unfold graph_json_ok. rewrite andb_true_iff, !forallb_forall. split; intros [A B]; split.
  - intros n Hn. apply memN_false, negb_true_iff, A, Hn.
  - intros e He. specialize (B _ He). apply andb_true_iff in B as [B1 B2]. split; apply memN_false, negb_true_iff; assumption.
  - intros n Hn. apply negb_true_iff, memN_false, A, Hn.
  - intros e He. destruct (B _ He) as [B1 B2]. apply andb_true_iff. split; apply negb_true_iff, memN_false; assumption.
Qed.

Lemma copy_of_json_ok s gid g : graph_json_ok g = true -> graph_json_ok (copy_of s gid g) = true.
Proof.
  intros W. apply graph_json_ok_iff in W as (PN & PE). apply graph_json_ok_iff. unfold copy_of.
  destruct (relabelled_props (s_next s) g) as [RN RE]. split.
  - intros n Hn. simpl in Hn. apply in_map_iff in Hn as (n1 & <- & H1).
    destruct (RN n1 H1) as (n0 & H0 & E). simpl. rewrite <- E. intro H.
    apply in_map_iff in H as (kv & Ek & Hkv). apply pset_In in Hkv as [->|Hkv]; [discriminate|].
    apply (PN _ H0). rewrite <- Ek. apply in_map, Hkv.
  - intros e He. destruct (RE e He) as (e0 & H0 & E). rewrite <- E. apply PE, H0.
Qed.

Lemma copy_direct_json_ok s g : graph_json_ok g = true -> graph_json_ok (copy_direct s g) = true.
Proof.
  intros W. apply graph_json_ok_iff in W as (PN & PE). apply graph_json_ok_iff. unfold copy_direct.
  destruct (relabelled_props (s_next s) g) as [RN RE]. split.
  - intros n Hn. destruct (RN n Hn) as (n0 & H0 & E). rewrite <- E. apply PN, H0.
  - intros e He. destruct (RE e He) as (e0 & H0 & E). rewrite <- E. apply PE, H0.
Qed.

(* the graph id a caller passes has to be usable in the format *)
Definition gid_ok (f : fmt) (gid : str) : bool :=
  match f with GraphMLFmt => xml_legal gid | JsonFmt => true end.

Lemma copy_of_fmt_ok f s gid g : gid_ok f gid = true -> fmt_ok f g = true -> fmt_ok f (copy_of s gid g) = true.
Proof.
  destruct f; simpl.
  - intro L. apply copy_of_wf, L.
  - intros _. rewrite !andb_true_iff. intros [A B]. split; [|apply copy_of_json_ok, B].
    unfold copy_of. apply stamp_shape, relabelled_shape, A.
Qed.
Lemma copy_direct_fmt_ok f s g : fmt_ok f g = true -> fmt_ok f (copy_direct s g) = true.
Proof.
  destruct f; simpl; [apply copy_direct_wf|].
  rewrite !andb_true_iff. intros [A B]. split; [apply relabelled_shape, A|apply copy_direct_json_ok, B].
Qed.
(* ---------- serializing the copy again ---------- *)
(* the second text denotes exactly the imported copy *)
Theorem reserialize_restamp f s gid' g :
  fmt_ok f g = true -> gid_ok f gid' = true ->
  let copy := copy_of s gid' g in
  exists t2, serialize f copy = Some t2 /\ text_graph t2 = Some copy.
Proof.
  intros OK GO copy. apply (ser_read f copy). apply copy_of_fmt_ok; assumption.
Qed.

Theorem reserialize_direct f s g :
  fmt_ok f g = true ->
  let copy := copy_direct s g in
  exists t2, serialize f copy = Some t2 /\ text_graph t2 = Some copy.
Proof.
  intros OK copy. apply (ser_read f copy). apply copy_direct_fmt_ok, OK.
Qed.

(* ---------- validation after import ---------- *)
Lemma validate_iff jsonok g : validate jsonok g = true <->
  (forall n, In n (g_nodes g) -> (forall kv, In kv (snd n) -> jsonok (fst kv) (snd kv) = true) /\ pget P_Class (snd n) <> None)
  /\ (forall e, In e (g_edges g) -> pget P_Class (snd e) <> None).
Proof.
  unfold validate. rewrite andb_true_iff, !forallb_forall. split; intros [A B]; split.
  - intros n Hn. specialize (A _ Hn). cbv beta in A. apply andb_true_iff in A as [A1 A2]. rewrite forallb_forall in A1.
    split; [exact A1|]. destruct n as [k ps]. cbn [snd] in *. intro H. rewrite H in A2. discriminate.
  - intros e He. specialize (B _ He). cbv beta in B. destruct e as [[u v] ps]. cbn [snd] in *. intro H. rewrite H in B. discriminate.
  - intros n Hn. destruct (A _ Hn) as [A1 A2]. apply andb_true_iff. split; [apply forallb_forall, A1|].
    destruct n as [k ps]. cbn [snd] in *. destruct (pget P_Class ps); [reflexivity|congruence].
  - intros e He. specialize (B _ He). destruct e as [[u v] ps]. cbn [snd] in *. destruct (pget P_Class ps); [reflexivity|congruence].
Qed.

Theorem validate_copy_of jsonok s gid g :
  (forall v, jsonok P_GraphID v = true) -> validate jsonok g = true -> validate jsonok (copy_of s gid g) = true.
Proof.
  intros JG V. apply validate_iff in V as (VN & VE). apply validate_iff. unfold copy_of.
  destruct (relabelled_props (s_next s) g) as [RN RE]. split.
  - intros n Hn. simpl in Hn. apply in_map_iff in Hn as (n1 & <- & H1).
    destruct (RN n1 H1) as (n0 & H0 & E). simpl. rewrite <- E. destruct (VN _ H0) as [A B]. split.
    + intros kv Hkv. apply pset_In in Hkv as [->|H]; [apply JG|apply A, H].
    + rewrite pget_pset_other by discriminate. exact B.
  - intros e He. destruct (RE e He) as (e0 & H0 & E). rewrite <- E. apply VE, H0.
Qed.

Theorem validate_copy_direct jsonok s g : validate jsonok g = true -> validate jsonok (copy_direct s g) = true.
Proof.
  intros V. apply validate_iff in V as (VN & VE). apply validate_iff. unfold copy_direct.
  destruct (relabelled_props (s_next s) g) as [RN RE]. split.
  - intros n Hn. destruct (RN n Hn) as (n0 & H0 & E). rewrite <- E. apply VN, H0.
  - intros e He. destruct (RE e He) as (e0 & H0 & E). rewrite <- E. apply VE, H0.
Qed.

(* ---------- validation of the imported copy ---------- *)
Theorem validates_after_import_restamp jsonok f ep s gid gid' g :
  (forall v, jsonok P_GraphID v = true) ->
  is_direct ep = false -> store_wf s = true -> extract s gid = Some g ->
  fmt_ok f g = true -> graph_ids_ok g = true -> validate jsonok g = true ->
  exists t s' g', serialize_graph s gid f = Some (Some t) /\ import_via ep s t gid' = (s', ROk gid')
                  /\ extract s' gid' = Some g' /\ validate jsonok g' = true.
Proof.
  intros JG D W E OK I V.
  destruct (roundtrip_restamp f ep s gid gid' g D W E OK I) as (t & s' & g' & A1 & A2 & A3 & -> & _).
  exists t, s', (copy_of s gid' g). repeat split; try assumption. apply validate_copy_of; assumption.
Qed.

Theorem validates_after_import_direct jsonok f ep s gid g :
  is_direct ep = true -> store_wf s = true -> extract s gid = Some g ->
  fmt_ok f g = true -> validate jsonok g = true ->
  forall gid', exists t s' g', serialize_graph s gid f = Some (Some t) /\ import_via ep s t gid' = (s', ROk gid)
                  /\ extract s' gid = Some g' /\ validate jsonok g' = true.
Proof.
  intros D W E OK V gid'.
  destruct (roundtrip_direct f ep s gid g D W E OK gid') as (t & s' & g' & A1 & A2 & A3 & -> & _).
  exists t, s', (copy_direct s g). repeat split; try assumption. apply validate_copy_direct; assumption.
Qed.

(* C18: no state leaks between calls -- in the model.  Every response of a history is the function of that
   call's own arguments (by VALUE) and of the catalogue, and the catalogue state is the same after any history.
   The implementation is held to this by the `history` stream of harness/c18.py (request objects re-used and
   modified in place, results modified in place, repeated / interleaved calls). *)
From Coq Require Import List ZArith NArith Bool.
From FIM Require Import Base.Str Base.Corr Base.PySort Gen.Catalog Model.Catalog18.
Import ListNotations.

Lemma hstep_state s o : fst (hstep s o) = s.
Proof. destruct o; reflexivity. Qed.

Theorem hrun_state_unchanged : forall ops s, fst (hrun s ops) = s.
Proof.
  induction ops as [|o r IH]; intro s; simpl; [reflexivity|].
  destruct (hstep s o) as [s1 v] eqn:E1. destruct (hrun s1 r) as [s2 vs] eqn:E2. simpl.
  pose proof (IH s1) as H. rewrite E2 in H. simpl in H. pose proof (hstep_state s o) as H1. rewrite E1 in H1. simpl in H1.
  congruence.
Qed.

Theorem hrun_pointwise : forall ops s, snd (hrun s ops) = map (fun o => snd (hstep s o)) ops.
Proof.
  induction ops as [|o r IH]; intro s; simpl; [reflexivity|].
  destruct (hstep s o) as [s1 v] eqn:E1. destruct (hrun s1 r) as [s2 vs] eqn:E2. simpl.
  pose proof (hstep_state s o) as H1. rewrite E1 in H1. simpl in H1. subst s1.
  pose proof (IH s) as H. rewrite E2 in H. simpl in H. rewrite H. reflexivity.
Qed.

Theorem response_in_any_history : forall pre o post s,
  nth_error (snd (hrun s (pre ++ o :: post))) (List.length pre) = Some (snd (hstep s o)).
Proof.
  intros pre o post s. rewrite hrun_pointwise, map_app. simpl.
  rewrite nth_error_app2; rewrite map_length; [|apply le_n]. rewrite Nat.sub_diag. reflexivity.
Qed.

Theorem map_in_any_history : forall s pre req post,
  nth_error (snd (hrun s (pre ++ OpMap req :: post))) (List.length pre) = Some (observe_inst_in (s_inst s) req).
Proof. intros s pre req post. exact (response_in_any_history pre (OpMap req) post s). Qed.

Theorem gen_in_any_history : forall s pre c post,
  nth_error (snd (hrun s (pre ++ OpGen c :: post))) (List.length pre) = Some (gen_case_val (s_comp s) c).
Proof. intros s pre c post. exact (response_in_any_history pre (OpGen c) post s). Qed.

Theorem init_state_is_catalogues : s_inst init_state = catalogue /\ s_comp init_state = comp_catalog.
Proof. split; reflexivity. Qed.

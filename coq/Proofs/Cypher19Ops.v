(* C19: the obligations over the REGENERATED template table (Gen/Cypher.v): a genuinely finite domain -
   one template per session.run site / variant of the backend (plus one per statement nested in an escaped
   literal) - decided by vm_compute and lifted with forallb_forall, then combined with the unbounded soundness
   theorem of Cypher19Sound.  Everything here is table-driven: the same file compiles whether or not
   known_ops (Model/Cypher19.v) is empty. *)
From Coq Require Import List NArith Bool String.
Import ListNotations.
From FIM Require Import Base.Str Model.Cypher19 Gen.Cypher Proofs.Cypher19Sound.
Open Scope N_scope.

Lemma gen_ok_true : gen_ok = true.
Proof. reflexivity. Qed.

Lemma tmpl_ok_conforms t : tmpl_ok t = true -> conforms t.
Proof. intros H e e'. exact (tmpl_ok_sound t H e e'). Qed.

Lemma all_ops_partial_b : forallb (fun t => tmpl_ok t || excused t) gen_templates = true.
Proof. vm_compute. reflexivity. Qed.

Theorem all_ops_partial : forall t, In t gen_templates -> excused t = false -> conforms t.
Proof.
  intros t Hin Hex. pose proof all_ops_partial_b as H. rewrite forallb_forall in H.
  specialize (H t Hin). rewrite Hex, orb_false_r in H. exact (tmpl_ok_conforms t H).
Qed.

(* the list of excused operations is tight: each of them really has a template with a value-class hole,
   and nothing but a value-class hole excuses a template of such an operation *)
Lemma known_ops_tight :
  forallb (fun op => existsb (fun t => str_eqb (t_op t) op && has_value_hole (t_frags t)) gen_templates) known_ops = true.
Proof. vm_compute. reflexivity. Qed.

Lemma interface_constants_ok : forallb ident_okb gen_ident_constants = true.
Proof. vm_compute. reflexivity. Qed.

Lemma interface_constants_In : forall c, In c gen_ident_constants -> ident_okb c = true.
Proof. intros c H. pose proof interface_constants_ok as A. rewrite forallb_forall in A. exact (A c H). Qed.

(* nested statements: the parent contains the escape of the nested template *)
Lemma nested_ok_b : forallb (nested_pair_ok gen_templates) gen_nested = true.
Proof. vm_compute. reflexivity. Qed.

Theorem nested_denote :
  forall p, In p gen_nested ->
  exists tn tp, find_by_id gen_templates (fst p) = Some tn /\ find_by_id gen_templates (snd p) = Some tp /\
    forall e, idents_ok (t_frags tn) e ->
    exists a b, render (t_frags tp) e = a ++ esc_q (render (t_frags tn) e) ++ b.
Proof.
  intros p Hin. pose proof nested_ok_b as H. rewrite forallb_forall in H. specialize (H p Hin).
  unfold nested_pair_ok in H.
  destruct (find_by_id gen_templates (fst p)) as [tn|]; [|discriminate].
  destruct (find_by_id gen_templates (snd p)) as [tp|]; [|discriminate].
  exists tn, tp. split; [reflexivity|]. split; [reflexivity|].
  exact (nested_in_denotes _ _ H).
Qed.

(* ------------------------------------------------------------------------------------------- *)
(* the full statement (no operation excused): either it holds, or here is the witness            *)
(* ------------------------------------------------------------------------------------------- *)
Definition memN (v : N) (l : list N) : bool := existsb (N.eqb v) l.
Definition env_a : env := fun _ => S"a".
Definition env_b (fs : list frag) : env := fun v => if memN v (ident_vars fs) then S"a" else S"a""}) detach delete n //".

Definition witness_b (t : tmpl) : bool :=
  let fs := t_frags t in
  idents_okb fs env_a && negb (str_eqb (render fs env_a) (render fs (env_b fs)))
  && negb (wf_b (render fs (env_b fs)) (t_params t)).

Definition status_b : bool :=
  match find excused gen_templates with
  | Some t => witness_b t
  | None => forallb tmpl_ok gen_templates
  end.

Lemma status_b_ok : status_b = true.
Proof. vm_compute. reflexivity. Qed.

Lemma memN_In v l : In v l -> memN v l = true.
Proof. intro H. unfold memN. apply existsb_exists. exists v. split; [exact H|apply N.eqb_refl]. Qed.

Lemma witness_refutes t : witness_b t = true -> refuted_by_value t.
Proof.
  unfold witness_b. intro Hb.
  apply andb_true_iff in Hb as [Hb H3]. apply andb_true_iff in Hb as [H1 H2].
  exists env_a, (env_b (t_frags t)). split; [exact (idents_okb_ok _ _ H1)|].
  split.
  - intros v Hv. unfold env_a, env_b. rewrite (memN_In _ _ Hv). reflexivity.
  - split.
    + intro Heq. rewrite Heq, str_eqb_refl in H2. discriminate.
    + apply negb_true_iff in H3. exact H3.
Qed.

Theorem all_ops_status :
  match find excused gen_templates with
  | Some t => In t gen_templates /\ excused t = true /\ refuted_by_value t
  | None => forall t, In t gen_templates -> conforms t
  end.
Proof.
  pose proof status_b_ok as H. unfold status_b in H.
  destruct (find excused gen_templates) as [t|] eqn:Hf.
  - apply find_some in Hf as [Hin Hex]. split; [exact Hin|]. split; [exact Hex|]. exact (witness_refutes t H).
  - intros t Hin. rewrite forallb_forall in H. exact (tmpl_ok_conforms t (H t Hin)).
Qed.

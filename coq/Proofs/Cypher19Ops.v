(* C19: the obligations over the REGENERATED template table (Gen/Cypher.v): a genuinely finite domain -
   one template per session.run site / variant of the backend - decided by vm_compute and lifted with
   forallb_forall, then combined with the unbounded soundness theorem of Cypher19Sound. *)
From Coq Require Import List NArith Bool String.
Import ListNotations.
From FIM Require Import Base.Str Model.Cypher19 Gen.Cypher Proofs.Cypher19Sound.
Open Scope N_scope.

Lemma gen_ok_true : gen_ok = true.
Proof. reflexivity. Qed.

Lemma all_ops_partial_b : forallb (fun t => tmpl_ok t || excused t) gen_templates = true.
Proof. vm_compute. reflexivity. Qed.

Theorem all_ops_partial :
  forall t, In t gen_templates -> excused t = false ->
  forall e e', idents_ok (t_frags t) e -> agree_on (ident_vars (t_frags t)) e e' ->
  render (t_frags t) e = render (t_frags t) e' /\
  wf_b (render (t_frags t) e) (t_params t) = true /\ wf_b (render (t_frags t) e') (t_params t) = true.
Proof.
  intros t Hin Hex. pose proof all_ops_partial_b as H. rewrite forallb_forall in H.
  specialize (H t Hin). rewrite Hex, orb_false_r in H. exact (tmpl_ok_sound t H).
Qed.

(* the list of excused operations is tight: each of them really has a template with a value-class hole,
   and nothing but a value-class hole excuses a template of such an operation *)
Lemma known_ops_tight :
  forallb (fun op => existsb (fun t => str_eqb (t_op t) op && has_value_hole (t_frags t)) gen_templates) known_ops = true.
Proof. vm_compute. reflexivity. Qed.

Lemma interface_constants_ok : forallb ident_okb gen_ident_constants = true.
Proof. vm_compute. reflexivity. Qed.

Lemma interface_constants_In : forall c, In c gen_ident_constants -> ident_okb c = true.
Proof. intros c H. pose proof interface_constants_ok as A. rewrite forallb_forall in A. exact (A c H). Qed.

(* ------------------------------------------------------------------------------------------- *)
(* the full statement (no operation excused) is false of the current code: a witness              *)
(* ------------------------------------------------------------------------------------------- *)
Definition memN (v : N) (l : list N) : bool := existsb (N.eqb v) l.
Definition env_a : env := fun _ => S"a".
Definition env_b (fs : list frag) : env := fun v => if memN v (ident_vars fs) then S"a" else S"a""}) detach delete n //".

Definition refute_witness : option (tmpl * bool) :=
  match find excused gen_templates with
  | Some t => let fs := t_frags t in
              Some (t, idents_okb fs env_a
                       && negb (str_eqb (render fs env_a) (render fs (env_b fs)))
                       && negb (wf_b (render fs (env_b fs)) (t_params t)))
  | None => None
  end.

Lemma refute_witness_ok : exists t, refute_witness = Some (t, true).
Proof. vm_compute. eexists. reflexivity. Qed.

Lemma memN_In v l : In v l -> memN v l = true.
Proof. intro H. unfold memN. apply existsb_exists. exists v. split; [exact H|apply N.eqb_refl]. Qed.

Theorem all_ops_refuted :
  exists t e e', In t gen_templates /\ idents_ok (t_frags t) e /\ agree_on (ident_vars (t_frags t)) e e' /\
                 render (t_frags t) e <> render (t_frags t) e' /\
                 wf_b (render (t_frags t) e') (t_params t) = false.
Proof.
  destruct refute_witness_ok as [t Ht]. unfold refute_witness in Ht.
  destruct (find excused gen_templates) as [t0|] eqn:Hf; [|discriminate].
  inversion Ht as [[Ht0 Hb]]. subst t0. clear Ht.
  apply find_some in Hf as [Hin _].
  apply andb_true_iff in Hb as [Hb H3]. apply andb_true_iff in Hb as [H1 H2].
  exists t, env_a, (env_b (t_frags t)). split; [exact Hin|]. split; [exact (idents_okb_ok _ _ H1)|].
  split.
  - intros v Hv. unfold env_a, env_b. rewrite (memN_In _ _ Hv). reflexivity.
  - split.
    + intro Heq. rewrite Heq, str_eqb_refl in H2. discriminate.
    + apply negb_true_iff in H3. exact H3.
Qed.

(* C20 proofs, part 2: the interleaving theorem.  For ANY number of threads whose programs are accepted by the
   data automaton (counter reads/writes and node-map mutations only while holding the lock, in an order that
   keeps live ids below their counter) and ANY schedule, every reachable state has pairwise distinct live node
   keys (no insertion was absorbed by an existing node = no node lost, no live id handed out twice), no lock
   error, and whenever the lock is free every live id is below its counter (the next id handed out is fresh). *)
From Coq Require Import List NArith Bool String Lia PeanoNat.
From FIM Require Import Model.Locks20 Gen.Locks Model.Conc20 Proofs.Locks20Sound.
Import ListNotations.
Open Scope N_scope.

(* ---------------- counters ---------------- *)
Lemma find_filter_other (cs : list (N * N)) c c' :
  c' <> c ->
  find (fun kv => fst kv =? c') (filter (fun kv => negb (fst kv =? c)) cs) = find (fun kv => fst kv =? c') cs.
Proof.
  intro Hne. induction cs as [|[k v] cs IH]; simpl; [reflexivity|].
  destruct (k =? c) eqn:E1; simpl.
  - apply N.eqb_eq in E1. subst k. destruct (c =? c') eqn:E2; [apply N.eqb_eq in E2; congruence|exact IH].
  - destruct (k =? c'); [reflexivity|exact IH].
Qed.

Lemma getc_setc_same cs c v : getc (setc cs c v) c = v.
Proof. unfold getc, setc. simpl. rewrite N.eqb_refl. reflexivity. Qed.

Lemma getc_setc_other cs c v c' : c' <> c -> getc (setc cs c v) c' = getc cs c'.
Proof.
  intro Hne. unfold getc, setc. simpl.
  destruct (c =? c') eqn:E; [apply N.eqb_eq in E; congruence|].
  rewrite find_filter_other by exact Hne. reflexivity.
Qed.

(* ---------------- the invariant on the store ---------------- *)
Definition ND (s : shst) : Prop := NoDup (map nkey (nodes s)).
Definition Bnd (s : shst) (cell v : N) : Prop := forall n, In n (nodes s) -> ncell n = cell -> nid n < v.
Definition Oth (s : shst) (cell : N) : Prop :=
  forall n, In n (nodes s) -> ncell n <> cell -> nid n < getc (ctrs s) (ncell n).
Definition P (s : shst) (cell v : N) : Prop := ND s /\ Oth s cell /\ Bnd s cell v.
Definition Inv (s : shst) : Prop := ND s /\ forall n, In n (nodes s) -> nid n < getc (ctrs s) (ncell n).

Lemma Inv_P s cell : Inv s <-> P s cell (getc (ctrs s) cell).
Proof.
  unfold Inv, P, Oth, Bnd. split.
  - intros [H1 H2]. repeat split; auto. intros n Hin E. rewrite <- E. auto.
  - intros [H1 [H2 H3]]. split; auto. intros n Hin.
    destruct (N.eq_dec (ncell n) cell) as [E|E]; [rewrite E; auto|auto].
Qed.

Lemma P_mono s cell v v' : P s cell v -> v <= v' -> P s cell v'.
Proof. intros [H1 [H2 H3]] Hle. repeat split; auto. intros n Hin E. specialize (H3 n Hin E). lia. Qed.

Lemma P_setc s cell v w : P s cell v -> P (set_ctr s cell w) cell v.
Proof.
  intros [H1 [H2 H3]]. repeat split; auto.
  intros n Hin Hne. simpl in *. rewrite getc_setc_other by exact Hne. auto.
Qed.

Lemma NoDup_map_filter {A B} (f : A -> B) (g : A -> bool) l : NoDup (map f l) -> NoDup (map f (filter g l)).
Proof.
  induction l as [|x l IH]; simpl; intro H; [constructor|].
  inversion H; subst. destruct (g x); simpl; [|auto].
  constructor; [|auto]. intro Hin. apply H2.
  apply in_map_iff in Hin as [y [E Hy]]. apply filter_In in Hy as [Hy _].
  apply in_map_iff. exists y. auto.
Qed.

Lemma P_filter s cell v f : P s cell v -> P (set_nodes s (filter f (nodes s))) cell v.
Proof.
  intros [H1 [H2 H3]]. unfold P, ND, Oth, Bnd in *. simpl. repeat split.
  - apply NoDup_map_filter. exact H1.
  - intros n Hin. apply filter_In in Hin as [Hin _]. auto.
  - intros n Hin. apply filter_In in Hin as [Hin _]. auto.
Qed.

Lemma P_filter_cell s cell v :
  P s cell v -> P (set_nodes s (filter (fun n => negb (ncell n =? cell)) (nodes s))) cell 0.
Proof.
  intro H. destruct (P_filter s cell v (fun n => negb (ncell n =? cell)) H) as [H1 [H2 _]].
  repeat split; auto. intros n Hin E. simpl in Hin. apply filter_In in Hin as [_ Hf].
  rewrite E, N.eqb_refl in Hf. discriminate.
Qed.

Lemma P_nil s cell v : P (set_nodes s []) cell v.
Proof. unfold P, ND, Oth, Bnd; simpl. repeat split; try constructor; intros; contradiction. Qed.

Lemma NoDup_app_intro {A} (l1 l2 : list A) :
  NoDup l1 -> NoDup l2 -> (forall x, In x l1 -> ~ In x l2) -> NoDup (l1 ++ l2).
Proof.
  induction l1 as [|x l1 IH]; simpl; intros H1 H2 H3; [exact H2|].
  inversion H1; subst. constructor.
  - intro Hin. apply in_app_or in Hin as [Hin|Hin]; [auto|]. apply (H3 x); auto.
  - apply IH; auto.
Qed.

Lemma range_In cell b k g n :
  In n (range_nodes cell b k g) -> ncell n = cell /\ ngid n = g /\ b <= nid n /\ nid n < b + k.
Proof.
  unfold range_nodes. intro H. apply in_map_iff in H as [i [E Hi]]. apply in_seq in Hi. subst n.
  unfold ncell, ngid, nid; simpl. repeat split; lia.
Qed.

Lemma range_NoDup cell b k g : NoDup (map nkey (range_nodes cell b k g)).
Proof.
  unfold range_nodes. rewrite map_map. unfold nkey; simpl.
  assert (H : forall l, NoDup l -> NoDup (map (fun i : nat => (cell, b + N.of_nat i)) l)).
  { induction l as [|x l IH]; simpl; intro Hn; [constructor|]. inversion Hn; subst.
    constructor; [|auto]. intro Hin. apply in_map_iff in Hin as [y [E Hy]].
    inversion E. assert (y = x) by lia. subst. contradiction. }
  apply H. apply seq_NoDup.
Qed.

Lemma range_length cell b k g : List.length (range_nodes cell b k g) = N.to_nat k.
Proof. unfold range_nodes. rewrite map_length, seq_length. reflexivity. Qed.

Lemma P_range s cell b k g :
  P s cell b -> P (set_nodes s (range_nodes cell b k g ++ nodes s)) cell (b + k).
Proof.
  intros [H1 [H2 H3]]. unfold P, ND, Oth, Bnd in *. simpl. repeat split.
  - rewrite map_app. apply NoDup_app_intro; [apply range_NoDup|exact H1|].
    intros x Hx Hy. apply in_map_iff in Hx as [n [E Hn]]. apply in_map_iff in Hy as [m [E' Hm]].
    apply range_In in Hn as [C [_ [Lo _]]]. subst x.
    assert (ncell m = cell) by (unfold nkey, ncell in *; rewrite E'; exact C).
    assert (nid m = nid n) by (unfold nkey, nid in *; rewrite E'; reflexivity).
    specialize (H3 m Hm H). lia.
  - intros n Hin Hne. apply in_app_or in Hin as [Hin|Hin]; [|auto].
    apply range_In in Hin as [C _]. congruence.
  - intros n Hin E. apply in_app_or in Hin as [Hin|Hin].
    + apply range_In in Hin. lia.
    + specialize (H3 n Hin E). lia.
Qed.

Lemma P_cons s cell v g : P s cell v -> P (set_nodes s ((cell, v, g) :: nodes s)) cell (v + 1).
Proof.
  intro H. pose proof (P_range s cell v 1 g H) as H'. unfold range_nodes in H'. simpl in H'.
  rewrite N.add_0_r in H'. exact H'.
Qed.

Lemma count_range_empty s cell b k g :
  Bnd s cell 0 -> count_cell cell (range_nodes cell b k g ++ nodes s) = k.
Proof.
  intro H. unfold count_cell. rewrite filter_app, app_length.
  assert (E1 : filter (in_cell cell) (range_nodes cell b k g) = range_nodes cell b k g).
  { assert (Hall : forall l, (forall n, In n l -> ncell n = cell) -> filter (in_cell cell) l = l).
    { induction l as [|x l IH]; simpl; intro Hl; [reflexivity|].
      unfold in_cell at 1. rewrite (Hl x (or_introl eq_refl)), N.eqb_refl. f_equal.
      apply IH. intros n Hn. apply Hl. right; exact Hn. }
    apply Hall. intros n Hn. apply range_In in Hn as [C _]. exact C. }
  assert (E2 : filter (in_cell cell) (nodes s) = []).
  { assert (Hall : forall l, (forall n, In n l -> ncell n <> cell) -> filter (in_cell cell) l = []).
    { induction l as [|x l IH]; simpl; intro Hl; [reflexivity|].
      unfold in_cell at 1. destruct (ncell x =? cell) eqn:E.
      - apply N.eqb_eq in E. exfalso. apply (Hl x); auto.
      - apply IH. intros n Hn. apply Hl. right; exact Hn. }
    apply Hall. intros n Hn E. specialize (H n Hn E). lia. }
  rewrite E1, E2, range_length. simpl. lia.
Qed.

(* ---------------- what the holder knows in each automaton state ---------------- *)

Definition cs_of (c : cellsel) (l : lost) : N := cellof c (ag l).

Definition G (c : cellsel) (a : N) (s : shst) (l : lost) : Prop :=
  let cell := cs_of c l in
  let ctr := getc (ctrs s) cell in
  (a = 1 /\ P s cell ctr) \/
  (a = 2 /\ P s cell ctr /\ base l = ctr) \/
  (a = 3 /\ P s cell (base l) /\ ctr = base l + ak l) \/
  (a = 4 /\ P s cell (base l) /\ ctr = base l + 1) \/
  (a = 5 /\ P s cell (ctr + 1)) \/
  (a = 6 /\ P s cell ctr /\ base l = 1) \/
  (a = 7 /\ P s cell 0 /\ base l = 1) \/
  (a = 8 /\ P s cell (1 + count_cell cell (nodes s))).

Lemma G_ext c a s l l' : G c a s l -> ag l' = ag l -> ak l' = ak l -> base l' = base l -> G c a s l'.
Proof. unfold G, cs_of. intros H E1 E2 E3. rewrite E1, E2, E3. exact H. Qed.

Lemma csel_eqb_eq x y : csel_eqb x y = true -> x = y.
Proof. destruct x, y; simpl; congruence. Qed.

Lemma G_nonzero c a s l : G c a s l -> a <> 0.
Proof. unfold G. intro H. repeat (destruct H as [H|H]); destruct H as [-> _]; discriminate. Qed.

(* release is only accepted in states where the full invariant holds *)
Lemma G_release c a s l : G c a s l -> dataA c a KRel = Some 0 -> Inv s.
Proof.
  intros HG HR. apply (Inv_P s (cs_of c l)).
  unfold G in HG. fold (cs_of c l) in HG.
  repeat (destruct HG as [HG|HG]); destruct HG as [-> H]; simpl in HR; try discriminate.
  - exact H.
  - destruct H as [H _]. exact H.
  - destruct H as [H E]. apply (P_mono _ _ _ _ H). lia.
  - destruct H as [H E]. apply (P_mono _ _ _ _ H). lia.
  - destruct H as [H _]. exact H.
  - destruct H as [H _]. apply (P_mono _ _ _ _ H). lia.
Qed.

Lemma neutral_preserves c x s l :
  neutral_in c x = true ->
  fst (do_act x s l) = s /\ ag (snd (do_act x s l)) = ag l /\ ak (snd (do_act x s l)) = ak l
  /\ base (snd (do_act x s l)) = base l.
Proof. destruct x; simpl; intro H; try discriminate; auto. Qed.

Lemma free_preserves x s l :
  free_act x = true ->
  fst (do_act x s l) = s /\ ag (snd (do_act x s l)) = ag l /\ ak (snd (do_act x s l)) = ak l.
Proof. destruct x; simpl; intro H; try discriminate; auto. Qed.

Lemma do_act_args x s l : ag (snd (do_act x s l)) = ag l /\ ak (snd (do_act x s l)) = ak l.
Proof. destruct x; simpl; auto. Qed.

Ltac Gcase HG :=
  repeat (destruct HG as [HG|HG]);
  [ destruct HG as [-> HP] | destruct HG as [-> [HP HE]] | destruct HG as [-> [HP HE]]
  | destruct HG as [-> [HP HE]] | destruct HG as [-> HP] | destruct HG as [-> [HP HE]]
  | destruct HG as [-> [HP HE]] | destruct HG as [-> HP] ].

Lemma del_pred_cell c g n : del_pred c g n = true -> c = CArg -> ncell n = cellof c g.
Proof. intros H ->. simpl in *. apply N.eqb_eq in H. exact H. Qed.

(* the main transition lemma: an act allowed by the automaton takes G c a to G c a' *)
Lemma G_step c a x s l a' :
  G c a s l -> data_act c a x = Some a' ->
  G c a' (fst (do_act x s l)) (snd (do_act x s l)).
Proof.
  intros HG Hact. pose proof (G_nonzero _ _ _ _ HG) as Hnz.
  unfold data_act in Hact. apply N.eqb_neq in Hnz. rewrite Hnz in Hact.
  destruct (neutral_in c x) eqn:En.
  { inversion Hact; subst a'. destruct (neutral_preserves c x s l En) as [E1 [E2 [E3 E4]]].
    rewrite E1. apply (G_ext _ _ _ l); auto. }
  destruct x; simpl in En; try discriminate; simpl in Hact.
  - (* XRdBase *)
    destruct (csel_eqb c c0) eqn:Ec; simpl in Hact; [|discriminate]. apply csel_eqb_eq in Ec. subst c0.
    unfold G in *. simpl. fold (cs_of c l) in *. unfold cs_of. simpl. fold (cs_of c l).
    Gcase HG; simpl in Hact; try discriminate; inversion Hact; subst a';
      right; left; (split; [reflexivity|split; [exact HP|reflexivity]]).
  - (* XBase1 *)
    unfold G in *. simpl. fold (cs_of c l) in *. unfold cs_of. simpl. fold (cs_of c l).
    Gcase HG; simpl in Hact; try discriminate; inversion Hact; subst a';
      do 5 right; left; (split; [reflexivity|split; [exact HP|reflexivity]]).
  - (* XBump *)
    destruct (csel_eqb c c0) eqn:Ec; simpl in Hact; [|discriminate]. apply csel_eqb_eq in Ec. subst c0.
    unfold G in *. simpl. fold (cs_of c l) in *. set (cell := cs_of c l) in *.
    rewrite getc_setc_same.
    Gcase HG; simpl in Hact; try discriminate.
    + inversion Hact; subst a'. left. split; [reflexivity|].
      apply P_setc. apply (P_mono _ _ _ _ HP). destruct a0; simpl; lia.
    + destruct a0; inversion Hact; subst a'.
      * do 3 right; left. split; [reflexivity|]. split; [apply P_setc; rewrite HE; exact HP|simpl; lia].
      * do 2 right; left. split; [reflexivity|]. split; [apply P_setc; rewrite HE; exact HP|simpl; lia].
    + destruct a0; [|discriminate]. inversion Hact; subst a'. left. split; [reflexivity|].
      apply P_setc. exact HP.
  - (* XSetCtrLen *)
    destruct (csel_eqb c c0) eqn:Ec; simpl in Hact; [|discriminate]. apply csel_eqb_eq in Ec. subst c0.
    unfold G in *. simpl. fold (cs_of c l) in *. set (cell := cs_of c l) in *.
    rewrite getc_setc_same.
    Gcase HG; simpl in Hact; try discriminate. inversion Hact; subst a'.
    left. split; [reflexivity|]. apply P_setc. rewrite N.add_comm. exact HP.
  - (* XInsCtr *)
    destruct (csel_eqb c c0) eqn:Ec; simpl in Hact; [|discriminate]. apply csel_eqb_eq in Ec. subst c0.
    unfold G in *. simpl. fold (cs_of c l) in *. set (cell := cs_of c l) in *.
    Gcase HG; simpl in Hact; try discriminate. inversion Hact; subst a'.
    do 4 right; left. split; [reflexivity|]. apply (P_cons s cell _ (ag l)). exact HP.
  - (* XInsBase *)
    destruct (csel_eqb c c0) eqn:Ec; simpl in Hact; [|discriminate]. apply csel_eqb_eq in Ec. subst c0.
    unfold G in *. simpl. fold (cs_of c l) in *. set (cell := cs_of c l) in *.
    Gcase HG; simpl in Hact; try discriminate. inversion Hact; subst a'.
    left. split; [reflexivity|]. rewrite HE. apply (P_cons s cell _ (ag l)). exact HP.
  - (* XInsRange *)
    destruct (csel_eqb c c0) eqn:Ec; simpl in Hact; [|discriminate]. apply csel_eqb_eq in Ec. subst c0.
    unfold G in *. simpl. fold (cs_of c l) in *. set (cell := cs_of c l) in *.
    Gcase HG; simpl in Hact; try discriminate; inversion Hact; subst a'.
    + left. split; [reflexivity|]. rewrite HE. apply P_range. exact HP.
    + do 7 right. split; [reflexivity|].
      destruct HP as [Q1 [Q2 Q3]].
      rewrite (count_range_empty s cell (base l) (ak l) (ag l) Q3). rewrite HE.
      apply (P_range s cell 1 (ak l) (ag l)). rewrite <- HE. apply (P_mono s cell 0); [repeat split; auto|lia].
  - (* XDel *)
    destruct (csel_eqb c c0) eqn:Ec; simpl in Hact; [|discriminate]. apply csel_eqb_eq in Ec. subst c0.
    unfold G in *. simpl. fold (cs_of c l) in *. set (cell := cs_of c l) in *.
    Gcase HG; simpl in Hact; try discriminate.
    + inversion Hact; subst a'. left. split; [reflexivity|]. apply P_filter. exact HP.
    + inversion Hact; subst a'. right; left. split; [reflexivity|]. split; [apply P_filter; exact HP|exact HE].
    + inversion Hact; subst a'. do 2 right; left. split; [reflexivity|]. split; [apply P_filter; exact HP|exact HE].
    + inversion Hact; subst a'. do 3 right; left. split; [reflexivity|]. split; [apply P_filter; exact HP|exact HE].
    + destruct c; inversion Hact; subst a'.
      * do 5 right; left. split; [reflexivity|]. split; [apply P_filter; exact HP|exact HE].
      * do 6 right; left. split; [reflexivity|]. split; [|exact HE].
        unfold del_pred. exact (P_filter_cell s cell _ HP).
    + inversion Hact; subst a'. do 6 right; left. split; [reflexivity|]. split; [apply P_filter; exact HP|exact HE].
  - (* XDelAll *)
    unfold G in *. simpl. fold (cs_of c l) in *. set (cell := cs_of c l) in *.
    Gcase HG; simpl in Hact; try discriminate; inversion Hact; subst a'.
    + left. split; [reflexivity|apply P_nil].
    + right; left. split; [reflexivity|]. split; [apply P_nil|exact HE].
    + do 2 right; left. split; [reflexivity|]. split; [apply P_nil|exact HE].
    + do 3 right; left. split; [reflexivity|]. split; [apply P_nil|exact HE].
    + do 5 right; left. split; [reflexivity|]. split; [apply P_nil|exact HE].
    + do 6 right; left. split; [reflexivity|]. split; [apply P_nil|exact HE].
  - (* XReplace *)
    destruct (csel_eqb c c0) eqn:Ec; simpl in Hact; [|discriminate]. apply csel_eqb_eq in Ec. subst c0.
    unfold G in *. simpl. fold (cs_of c l) in *. set (cell := cs_of c l) in *.
    Gcase HG; simpl in Hact; try discriminate.
    destruct c eqn:Ecc; [discriminate|]. inversion Hact; subst a'.
    do 7 right. split; [reflexivity|].
    pose proof (P_filter_cell s cell _ HP) as Q. unfold del_pred.
    set (s1 := set_nodes s (filter (fun n => negb (ncell n =? cell)) (nodes s))) in *.
    destruct Q as [Q1 [Q2 Q3]].
    change (filter (fun n => negb (ncell n =? ag l)) (nodes s)) with (nodes s1).
    rewrite (count_range_empty s1 cell (base l) (ak l) (ag l) Q3). rewrite HE.
    apply (P_range s1 cell 1 (ak l) (ag l)). apply (P_mono s1 cell 0); [repeat split; auto|lia].
Qed.


(* ---------------- events ---------------- *)
Lemma ev_step c a k s l a' :
  G c a s l -> dataA c a k = Some a' -> k <> KAcq -> k <> KRel ->
  G c a' (fst (do_ev k s l)) (snd (do_ev k s l)).
Proof.
  intros HG Hk N1 N2. destruct k; try congruence; simpl in *.
  - apply (G_step c a a0 s l a' HG Hk).
  - pose proof (G_step c a a0 s l a' HG Hk) as H. destruct (do_act a0 s l) as [s' l'] eqn:E. simpl in *.
    apply (G_ext c a' s' l'); auto.
  - inversion Hk; subst. exact HG.
Qed.

Lemma ev_free c k s l a' :
  dataA c 0 k = Some a' -> k <> KAcq -> a' = 0 /\ fst (do_ev k s l) = s.
Proof.
  intros Hk N1. destruct k; try congruence; simpl in *.
  - discriminate.
  - unfold data_act in Hk. simpl in Hk. destruct (free_act a) eqn:Ef; [|discriminate].
    inversion Hk. split; [reflexivity|]. apply (free_preserves a s l Ef).
  - unfold data_act in Hk. simpl in Hk. destruct (free_act a) eqn:Ef; [|discriminate].
    inversion Hk. split; [reflexivity|]. destruct (do_act a s l) as [s' l'] eqn:E. simpl.
    pose proof (free_preserves a s l Ef) as [H _]. rewrite E in H. exact H.
  - inversion Hk. auto.
Qed.

(* ---------------- thread lists ---------------- *)
Lemma nth_error_upd_same {A} (l : list A) t x y : nth_error l t = Some x -> nth_error (upd l t y) t = Some y.
Proof.
  revert t; induction l as [|z l IH]; intros [|t]; simpl; intro H; try discriminate; auto.
Qed.
Lemma nth_error_upd_other {A} (l : list A) t u y : t <> u -> nth_error (upd l t y) u = nth_error l u.
Proof.
  revert t u; induction l as [|z l IH]; intros [|t] [|u]; simpl; intro H; try reflexivity; try congruence.
  apply IH. congruence.
Qed.

(* ---------------- the global invariant ---------------- *)
Definition accepted (c : cellsel) (a : N) (p : list instr) : Prop := accepti (dataA c) a p = Some 0.

Definition TInv (c : cellsel) (S : cst) (t : nat) (th : thread) : Prop :=
  exists a, accepted c a (fst th)
    /\ (a = 0 <-> holder S <> Some t)
    /\ (holder S = Some t -> G c a (sh S) (snd th)).

Definition J (c : cellsel) (S : cst) : Prop :=
  bad S = false
  /\ (forall t th, nth_error (thr S) t = Some th -> TInv c S t th)
  /\ (holder S = None -> Inv (sh S))
  /\ (forall t, holder S = Some t -> exists th, nth_error (thr S) t = Some th).

Lemma holder_dec (h : option nat) (t : nat) : h = Some t \/ h <> Some t.
Proof. destruct h as [u|]; [destruct (Nat.eq_dec u t); [left; congruence|right; congruence]|right; discriminate]. Qed.

Lemma mkJ c S :
  bad S = false ->
  (forall t th, nth_error (thr S) t = Some th -> TInv c S t th) ->
  (holder S = None -> Inv (sh S)) ->
  (forall t, holder S = Some t -> exists th, nth_error (thr S) t = Some th) -> J c S.
Proof. intros H1 H2 H3 H4. exact (conj H1 (conj H2 (conj H3 H4))). Qed.

Lemma mkT c S t th a :
  accepted c a (fst th) -> (a = 0 -> holder S <> Some t) -> (holder S <> Some t -> a = 0) ->
  (holder S = Some t -> G c a (sh S) (snd th)) -> TInv c S t th.
Proof. intros H1 H2 H3 H4. exists a. split; [exact H1|]. split; [split; assumption|exact H4]. Qed.

Lemma J_ev_case c S t k rest lo :
  J c S -> nth_error (thr S) t = Some (IEv k :: rest, lo) -> k <> KAcq -> k <> KRel ->
  J c (let (s', l') := do_ev k (sh S) lo in mkC (holder S) s' (upd (thr S) t (rest, l')) (bad S)).
Proof.
  intros HJ Et N1 N2. pose proof HJ as [Hbad [Hthr [Hinv Hex]]].
  destruct (Hthr t _ Et) as [a [Hacc [Hiff HG]]]. simpl in Hacc, HG. unfold accepted in Hacc.
  simpl in Hacc. destruct (dataA c a k) as [a1|] eqn:Hk; [|congruence].
  destruct (do_ev k (sh S) lo) as [s' l'] eqn:Ed.
  destruct (N.eq_dec a 0) as [->|Hne0].
  - destruct (ev_free c k (sh S) lo a1 Hk N1) as [-> Es].
    rewrite Ed in Es. simpl in Es. subst s'.
    assert (Hnh : holder S <> Some t) by (apply Hiff; reflexivity).
    apply mkJ; simpl; [exact Hbad| | exact Hinv | ].
    + intros u th Hu. destruct (Nat.eq_dec t u) as [->|Hne].
      * rewrite (nth_error_upd_same _ _ _ _ Et) in Hu. inversion Hu; subst th.
        apply (mkT c _ u _ 0); simpl; auto; congruence.
      * rewrite (nth_error_upd_other _ _ _ _ Hne) in Hu. exact (Hthr u th Hu).
    + intros u Hu. destruct (Nat.eq_dec t u) as [->|Hne]; [congruence|].
      rewrite (nth_error_upd_other _ _ _ _ Hne). auto.
  - assert (Hh : holder S = Some t).
    { destruct (holder_dec (holder S) t) as [H|H]; [exact H|]. apply Hiff in H. congruence. }
    pose proof (ev_step c a k (sh S) lo a1 (HG Hh) Hk N1 N2) as HG'.
    rewrite Ed in HG'. simpl in HG'.
    apply mkJ; simpl; [exact Hbad| | congruence | ].
    + intros u th Hu. destruct (Nat.eq_dec t u) as [->|Hne].
      * rewrite (nth_error_upd_same _ _ _ _ Et) in Hu. inversion Hu; subst th.
        apply (mkT c _ u _ a1); simpl; auto.
        -- intro; subst a1. exfalso. apply (G_nonzero _ _ _ _ HG'). reflexivity.
        -- congruence.
      * rewrite (nth_error_upd_other _ _ _ _ Hne) in Hu.
        destruct (Hthr u th Hu) as [au [A1 [A2 A3]]].
        assert (au = 0) by (apply A2; rewrite Hh; congruence). subst au.
        apply (mkT c _ u _ 0); simpl; auto; [intros _ H|intro H]; exfalso; apply Hne; congruence.
    + intros u Hu. rewrite Hh in Hu. inversion Hu; subst u. rewrite (nth_error_upd_same _ _ _ _ Et). eauto.
Qed.

Lemma J_step c S t : J c S -> J c (step S t).
Proof.
  intros HJ. pose proof HJ as [Hbad [Hthr [Hinv Hex]]]. unfold step.
  destruct (nth_error (thr S) t) as [[prog lo]|] eqn:Et; [|exact HJ].
  destruct prog as [|i rest]; [exact HJ|].
  destruct (Hthr t _ Et) as [a [Hacc [Hiff HG]]]. simpl in Hacc, HG. unfold accepted in Hacc.
  destruct i as [g k|k].
  - (* ICall *)
    simpl in Hacc. destruct (a =? 0) eqn:Ea; [|congruence]. apply N.eqb_eq in Ea. subst a.
    assert (Hnh : holder S <> Some t) by (apply Hiff; reflexivity).
    apply mkJ; simpl; [exact Hbad| | exact Hinv | ].
    + intros u th Hu. destruct (Nat.eq_dec t u) as [->|Hne].
      * rewrite (nth_error_upd_same _ _ _ _ Et) in Hu. inversion Hu; subst th.
        apply (mkT c _ u _ 0); simpl; auto; congruence.
      * rewrite (nth_error_upd_other _ _ _ _ Hne) in Hu. exact (Hthr u th Hu).
    + intros u Hu. destruct (Nat.eq_dec t u) as [->|Hne]; [congruence|].
      rewrite (nth_error_upd_other _ _ _ _ Hne). auto.
  - destruct k.
    + (* acquire *)
      simpl in Hacc. destruct (a =? 0) eqn:Ea; [|congruence]. apply N.eqb_eq in Ea. subst a.
      destruct (holder S) as [h|] eqn:Eh; [exact HJ|].
      apply mkJ; simpl; [exact Hbad| | discriminate | ].
      * intros u th Hu. destruct (Nat.eq_dec t u) as [->|Hne].
        -- rewrite (nth_error_upd_same _ _ _ _ Et) in Hu. inversion Hu; subst th.
           apply (mkT c _ u _ 1); simpl.
           ++ exact Hacc.
           ++ discriminate.
           ++ congruence.
           ++ intros _. left. split; [reflexivity|]. apply Inv_P. apply Hinv. reflexivity.
        -- rewrite (nth_error_upd_other _ _ _ _ Hne) in Hu.
           destruct (Hthr u th Hu) as [au [A1 [A2 A3]]].
           assert (au = 0) by (apply A2; rewrite Eh; discriminate). subst au.
           apply (mkT c _ u _ 0); simpl; auto; congruence.
      * intros u Hu. inversion Hu; subst u. rewrite (nth_error_upd_same _ _ _ _ Et). eauto.
    + (* release *)
      simpl in Hacc. destruct (dataA c a KRel) as [a1|] eqn:Er; [|simpl in Er; rewrite Er in Hacc; congruence].
      assert (a1 = 0).
      { simpl in Er. destruct ((a =? 1) || (a =? 2) || (a =? 3) || (a =? 4) || (a =? 6) || (a =? 7)); congruence. }
      subst a1.
      assert (Hacc' : accepti (dataA c) 0 rest = Some 0).
      { simpl in Er. rewrite Er in Hacc. exact Hacc. }
      assert (Hne0 : a <> 0).
      { intro; subst a. simpl in Er. discriminate. }
      assert (Hh : holder S = Some t).
      { destruct (holder_dec (holder S) t) as [H|H]; [exact H|]. apply Hiff in H. congruence. }
      rewrite Hh.
      apply mkJ; simpl; [exact Hbad| | | discriminate].
      * intros u th Hu. destruct (Nat.eq_dec t u) as [->|Hne].
        -- rewrite (nth_error_upd_same _ _ _ _ Et) in Hu. inversion Hu; subst th.
           apply (mkT c _ u _ 0); simpl; auto; try discriminate.
        -- rewrite (nth_error_upd_other _ _ _ _ Hne) in Hu.
           destruct (Hthr u th Hu) as [au [A1 [A2 A3]]].
           assert (au = 0) by (apply A2; rewrite Hh; congruence). subst au.
           apply (mkT c _ u _ 0); simpl; auto; try discriminate.
      * intros _. apply (G_release c a (sh S) lo (HG Hh) Er).
    + (* act *)
      apply (J_ev_case c S t (KAct a0) rest lo HJ Et); discriminate.
    + apply (J_ev_case c S t (KIf a0 c0 b) rest lo HJ Et); discriminate.
    + apply (J_ev_case c S t (KFault f) rest lo HJ Et); discriminate.
Qed.

Lemma J_init c progs : Forall (accepted c 0) progs -> J c (init progs).
Proof.
  intro H. apply mkJ; simpl.
  - reflexivity.
  - intros t th Ht. apply nth_error_In in Ht. apply in_map_iff in Ht as [p [E Hp]]. subst th.
    rewrite Forall_forall in H. apply (mkT c _ t _ 0); simpl; auto; discriminate.
  - intros _. split; [constructor|]. intros n Hn. contradiction.
  - discriminate.
Qed.

Lemma J_run c sched : forall S, J c S -> J c (run_sched S sched).
Proof.
  unfold run_sched. induction sched as [|t sched IH]; intros S H; simpl; [exact H|].
  apply IH. apply J_step. exact H.
Qed.

Lemma G_ND c a s l : G c a s l -> ND s.
Proof.
  unfold G, P. intro H. repeat (destruct H as [H|H]);
    repeat match goal with H : _ /\ _ |- _ => destruct H end; assumption.
Qed.

(* THE interleaving theorem, for programs accepted by the data automaton *)
Theorem interleaving_safe c progs sched :
  Forall (accepted c 0) progs ->
  let S := run_sched (init progs) sched in
  bad S = false /\ NoDup (map nkey (nodes (sh S))) /\ (holder S = None -> Inv (sh S)).
Proof.
  intros H S. pose proof (J_run c sched _ (J_init c progs H)) as HJ. fold S in HJ.
  destruct HJ as [Hbad [Hthr [Hinv Hex]]]. split; [exact Hbad|]. split; [|exact Hinv].
  destruct (holder S) as [t|] eqn:Eh.
  - destruct (Hex t eq_refl) as [th Ht]. destruct (Hthr t th Ht) as [a [_ [_ HG]]].
    rewrite Eh in HG. apply (G_ND c a _ _ (HG eq_refl)).
  - apply Hinv. reflexivity.
Qed.

(* ---------------- from checked methods to accepted programs ---------------- *)
Lemma accepti_evs tf a evs : accepti tf a (map (fun e : event => IEv (snd e)) evs) = accept tf a evs.
Proof.
  revert a; induction evs as [|[ln k] evs IH]; intro a; simpl; [reflexivity|].
  destruct (tf a k); [apply IH|reflexivity].
Qed.

Lemma accepti_app tf a p1 p2 :
  accepti tf a (p1 ++ p2) = match accepti tf a p1 with Some a1 => accepti tf a1 p2 | None => None end.
Proof.
  revert a; induction p1 as [|i p1 IH]; intro a; simpl; [reflexivity|].
  destruct i as [g k|k].
  - destruct (a =? 0); [apply IH|reflexivity].
  - destruct (tf a k); [apply IH|reflexivity].
Qed.

Lemma flatten_accepted c cs :
  (forall cl, In cl cs -> data_ok c (c_meth cl) = true) ->
  accepti (dataA c) 0 (flatten DeclFaults cs) = Some 0.
Proof.
  induction cs as [|cl cs IH]; intro H; [reflexivity|].
  unfold flatten in *. simpl. rewrite accepti_app, accepti_evs.
  destruct (meth_ok_sound (dataA c) DeclFaults 0 (c_meth cl) (H cl (or_introl eq_refl)) (c_path cl)) as [_ A].
  rewrite A. apply IH. intros cl' Hin. apply H. right; exact Hin.
Qed.

Definition table_ok (c : cellsel) (ms : list (string * stmt)) : bool := forallb (fun m => data_ok c (snd m)) ms.
Definition calls_from (ms : list (string * stmt)) (threads : list (list call)) : Prop :=
  forall th, In th threads -> forall cl, In cl th -> In (c_meth cl) (map snd ms).

Theorem interleaving_table c ms threads sched :
  table_ok c ms = true -> calls_from ms threads ->
  let S := run_sched (init (map (flatten DeclFaults) threads)) sched in
  bad S = false /\ NoDup (map nkey (nodes (sh S))) /\ (holder S = None -> Inv (sh S)).
Proof.
  intros Ht Hc. apply (interleaving_safe c). apply Forall_forall. intros p Hp.
  apply in_map_iff in Hp as [th [E Hth]]. subst p. unfold accepted.
  apply (flatten_accepted c th).
  intros cl Hcl. specialize (Hc th Hth cl Hcl). apply in_map_iff in Hc as [[name m] [E Hm]]. simpl in E. subst m.
  unfold table_ok in Ht. rewrite forallb_forall in Ht. apply (Ht _ Hm).
Qed.

(* ---------------- progress: nobody blocks for ever ---------------- *)
(* thread t can take a step: it has an instruction left and is not waiting for a held lock *)
Definition enabled (S : cst) (t : nat) : Prop :=
  exists i rest lo, nth_error (thr S) t = Some (i :: rest, lo) /\ (i = IEv KAcq -> holder S = None).
Definition unfinished (S : cst) : Prop :=
  exists t i rest lo, nth_error (thr S) t = Some (i :: rest, lo).

Lemma J_progress c S : J c S -> unfinished S -> exists t, enabled S t.
Proof.
  intros [Hbad [Hthr [Hinv Hex]]] [t [i [rest [lo Ht]]]].
  destruct (holder S) as [h|] eqn:Eh.
  - (* the holder itself is enabled: its program is not finished and does not start with an acquire *)
    destruct (Hex h eq_refl) as [[prog lh] Hh].
    destruct (Hthr h _ Hh) as [a [Hacc [Hiff _]]]. simpl in Hacc. unfold accepted in Hacc.
    assert (Hne : a <> 0). { intro E. apply Hiff in E. rewrite Eh in E. congruence. }
    destruct prog as [|j prog'].
    + simpl in Hacc. congruence.
    + exists h, j, prog', lh. split; [exact Hh|]. intro E. subst j. simpl in Hacc.
      destruct (a =? 0) eqn:Ea; [apply N.eqb_eq in Ea; congruence|discriminate].
  - exists t, i, rest, lo. split; [exact Ht|]. intros _. rewrite Eh. reflexivity.
Qed.

Lemma enabled_steps S t : enabled S t ->
  exists i rest lo lo', nth_error (thr S) t = Some (i :: rest, lo) /\ nth_error (thr (step S t)) t = Some (rest, lo').
Proof.
  intros [i [rest [lo [Ht Hen]]]]. exists i, rest, lo. unfold step. rewrite Ht.
  destruct i as [g k|k].
  - eexists. split; [reflexivity|]. simpl. apply (nth_error_upd_same _ _ _ _ Ht).
  - destruct k.
    + rewrite (Hen eq_refl). eexists. split; [reflexivity|]. simpl. apply (nth_error_upd_same _ _ _ _ Ht).
    + destruct (holder S); eexists; (split; [reflexivity|]); simpl; apply (nth_error_upd_same _ _ _ _ Ht).
    + destruct (do_ev (KAct a) (sh S) lo) as [s' l'] eqn:E. exists l'. split; [reflexivity|].
      simpl. apply (nth_error_upd_same _ _ _ _ Ht).
    + destruct (do_ev (KIf a c b) (sh S) lo) as [s' l'] eqn:E. exists l'. split; [reflexivity|].
      simpl. apply (nth_error_upd_same _ _ _ _ Ht).
    + eexists. split; [reflexivity|]. simpl. apply (nth_error_upd_same _ _ _ _ Ht).
Qed.

(* in every reachable state with an unfinished thread, some thread can execute its next instruction *)
Theorem no_deadlock c progs sched :
  Forall (accepted c 0) progs ->
  let S := run_sched (init progs) sched in
  unfinished S ->
  exists t i rest lo lo', nth_error (thr S) t = Some (i :: rest, lo) /\ nth_error (thr (step S t)) t = Some (rest, lo').
Proof.
  intros H S Hu. pose proof (J_run c sched _ (J_init c progs H)) as HJ. fold S in HJ.
  destruct (J_progress c S HJ Hu) as [t Ht]. exists t. apply enabled_steps. exact Ht.
Qed.

Theorem no_deadlock_table c ms threads sched :
  table_ok c ms = true -> calls_from ms threads ->
  let S := run_sched (init (map (flatten DeclFaults) threads)) sched in
  unfinished S ->
  exists t i rest lo lo', nth_error (thr S) t = Some (i :: rest, lo) /\ nth_error (thr (step S t)) t = Some (rest, lo').
Proof.
  intros Ht Hc. apply (no_deadlock c). apply Forall_forall. intros p Hp.
  apply in_map_iff in Hp as [th [E Hth]]. subst p. apply (flatten_accepted c th).
  intros cl Hcl. specialize (Hc th Hth cl Hcl). apply in_map_iff in Hc as [[name m] [E Hm]]. simpl in E. subst m.
  unfold table_ok in Ht. rewrite forallb_forall in Ht. apply (Ht _ Hm).
Qed.

(* a caller removing a node (delete_node) while nobody is inside the store keeps the invariant: ids come from the
   counter, so a gap left by a removal is never filled again *)
Lemma remove_keeps_Inv c s l : Inv s -> Inv (fst (do_act (XRemove c) s l)).
Proof.
  intro H. simpl. apply (Inv_P _ 0). apply (Inv_P s 0) in H.
  exact (P_filter s 0 _ _ H).
Qed.

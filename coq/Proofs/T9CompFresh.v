(* C09 - Node.add_component is atomic for EVERY exception when the ids it is going to use (caller-supplied or
   drawn) are pairwise distinct and not yet in the graph - the hypothesis that excludes exactly the defect of
   C09_add_component_atomic_refuted. *)
From Coq Require Import List NArith Bool Lia.
From FIM Require Import Base.Str Gen.T9Names Model.T9Graph Model.T9Ops Proofs.T9Monad Proofs.T9Simple Proofs.T9Ext
     Proofs.T9Connect.
Import ListNotations.
Open Scope N_scope.

(* the ids a sequence of `id_or_draw` calls yields from a supply *)
Fixpoint take_ids (l : list (option N)) (fresh : list N) : list N :=
  match l with
  | [] => []
  | Some x :: r => x :: take_ids r fresh
  | None :: r => match fresh with y :: f => y :: take_ids r f | [] => [] end
  end.

Definition component_id_requests (node_id : option N) (cat : res comp_spec) : list (option N) :=
  node_id :: match cat with
             | Ok spec => match cs_child spec with
                          | Some ch => map ci_id (cn_ifs ch) ++ [cn_id ch]
                          | None => []
                          end
             | Err _ => []
             end.
Definition component_ids (node_id : option N) (cat : res comp_spec) (fresh : list N) : list N :=
  take_ids (component_id_requests node_id cat) fresh.

Definition ids_fresh (g : graph) (l : list N) : bool :=
  nodupN l && forallb (fun x => negb (has_node g x)) l.

Lemma id_or_draw_take o s s1 x rest :
  id_or_draw o s = (s1, Ok x) -> sg s1 = sg s /\ take_ids (o :: rest) (sfresh s) = x :: take_ids rest (sfresh s1).
Proof.
  destruct o as [y|]; simpl.
  - unfold ret. intro H; inversion H; subst. auto.
  - intro H. apply draw_ok in H as (r & Hr & ->). simpl. rewrite Hr. auto.
Qed.

Lemma draw_if_ids_take l : forall s s1 out rest,
  draw_if_ids l s = (s1, Ok out) ->
  sg s1 = sg s /\ map fst out = l /\
  take_ids (map ci_id l ++ rest) (sfresh s) = map snd out ++ take_ids rest (sfresh s1).
Proof.
  induction l as [|c l IH]; intros s s1 out rest H; simpl in H.
  - unfold ret in H. inversion H; subst. simpl. auto.
  - apply bind_ok in H as (s2 & id & H1 & H). apply bind_ok in H as (s3 & r & H2 & H).
    apply ret_ok in H as [-> ->].
    destruct (id_or_draw_take _ _ _ _ (map ci_id l ++ rest) H1) as [G1 T1].
    destruct (IH _ _ _ rest H2) as (G2 & F2 & T2).
    split; [congruence|]. split; [simpl; congruence|].
    simpl map. simpl app. rewrite T1. rewrite T2. reflexivity.
Qed.

(* ---------------------------------------------------------------- the mutation sequence cannot fail *)
Lemma add_node_ok g n : has_node g (nid n) = false -> g_add_node n g = Ok (mkGraph (gnodes g ++ [n]) (gedges g)).
Proof. intro H. unfold g_add_node. rewrite H. reflexivity. Qed.

Lemma has_node_snoc g n e x : has_node (mkGraph (gnodes g ++ [n]) e) x = has_node g x || (nid n =? x).
Proof. unfold has_node; simpl. rewrite existsb_app. simpl. rewrite orb_false_r. reflexivity. Qed.

Lemma has_node_same_nodes g g' x : gnodes g' = gnodes g -> has_node g' x = has_node g x.
Proof. intro H. unfold has_node. rewrite H. reflexivity. Qed.

Definition found (g : graph) (x : N) : Prop := exists n, find_node g x = Ok n.

Lemma found_snoc g n e x : found g x -> has_node g (nid n) = false -> found (mkGraph (gnodes g ++ [n]) e) x.
Proof.
  intros [m Hm] Hn. exists m.
  assert (H := find_node_kept g n x m Hm Hn). unfold find_node, find_nodes in *. simpl in *. exact H.
Qed.
Lemma found_new g n e : has_node g (nid n) = false -> found (mkGraph (gnodes g ++ [n]) e) (nid n).
Proof.
  intro Hn. exists n. assert (H := find_node_added g n Hn). unfold find_node, find_nodes in *. simpl in *. exact H.
Qed.
Lemma found_same_nodes g g' x : gnodes g' = gnodes g -> found g x -> found g' x.
Proof. intros H [n Hn]. exists n. rewrite (find_node_same_nodes g g' x H). exact Hn. Qed.

(* one child interface: node + edge from the service *)
Lemma child_ifs_ok nsid : forall (ifs : list (child_if * N)) s,
  found (sg s) nsid ->
  NoDup (map snd ifs) -> (forall x, In x (map snd ifs) -> has_node (sg s) x = false) ->
  exists s', for_each ifs (fun ci =>
                m_add_node (mkNode (snd ci) cCP (ci_name (fst ci)) (ci_type (fst ci)) 0) ;;;
                m_add_edge nsid rConnects (snd ci)) s = (s', Ok tt).
Proof.
  induction ifs as [|ci ifs IH]; intros s Hns Hnd Hfresh; simpl.
  - eexists; reflexivity.
  - inversion Hnd as [|? ? Hnotin Hnd']; subst.
    assert (Hci : has_node (sg s) (snd ci) = false) by (apply Hfresh; left; reflexivity).
    set (n := mkNode (snd ci) cCP (ci_name (fst ci)) (ci_type (fst ci)) 0).
    unfold bind at 1. unfold bind at 1. unfold m_add_node, mutate.
    rewrite (add_node_ok (sg s) n Hci). simpl sg.
    set (g1 := mkGraph (gnodes (sg s) ++ [n]) (gedges (sg s))).
    assert (F1 : found g1 nsid) by (apply found_snoc; auto).
    assert (F2 : found g1 (snd ci)) by (apply (found_new (sg s) n); auto).
    destruct F1 as [a Ha]. destruct F2 as [b Hb].
    destruct (add_edge_ok nsid rConnects (snd ci) g1 a b Ha Hb) as [g2 Hg2].
    unfold m_add_edge, mutate. simpl sg. rewrite Hg2.
    assert (Hn2 : gnodes g2 = gnodes g1) by (eapply add_edge_nodes; eauto).
    apply IH; simpl.
    + apply (found_same_nodes g1 g2 nsid Hn2). exists a; exact Ha.
    + exact Hnd'.
    + intros x Hx. rewrite (has_node_same_nodes g1 g2 x Hn2). unfold g1. rewrite has_node_snoc.
      rewrite Hfresh by (right; exact Hx). simpl.
      apply N.eqb_neq. intro E. apply Hnotin. rewrite E. exact Hx.
Qed.

Lemma no_mut_draw_if_ids_l l : no_mut (draw_if_ids l).
Proof. induction l; simpl; nm. apply IHl. Qed.

Lemma nodupN_cons x l : nodupN (x :: l) = true -> ~ In x l /\ nodupN l = true.
Proof.
  simpl. intro H. apply andb_true_iff in H as [H1 H2]. split; auto.
  apply negb_true_iff in H1. intro Hin.
  assert (existsb (N.eqb x) l = true) by (apply existsb_exists; exists x; split; auto; apply N.eqb_refl). congruence.
Qed.

Lemma add_component_atomic_fresh fl pn name node_id spec_given nic sub_ids cat pure g fresh s' e :
  ids_fresh g (component_ids node_id cat fresh) = true ->
  op_add_component false fl pn name node_id spec_given nic sub_ids cat pure (mkSt g fresh) = (s', Err e) ->
  sg s' = g.
Proof.
  intros Hfresh H. unfold op_add_component in H.
  (* the checks before the first mutation *)
  apply bind_err_cases in H as [H|(s1 & names & H1 & H)];
    [exact (no_mut_ask _ _ _ _ H)|]. apply ask_ok in H1 as [-> Hnames]. simpl sg in Hnames.
  apply bind_err_cases in H as [H|(s1 & u1 & H1 & H)]; [exact (no_mut_guard _ _ _ _ _ H)|].
  apply guard_ok in H1 as [-> _].
  apply bind_err_cases in H as [H|(s1 & u2 & H1 & H)]; [exact (no_mut_guard _ _ _ _ _ H)|].
  apply guard_ok in H1 as [-> _].
  apply bind_err_cases in H as [H|(s1 & id & H1 & H)]; [exact (no_mut_id_or_draw _ _ _ _ H)|].
  unfold ids_fresh, component_ids, component_id_requests in Hfresh.
  destruct (id_or_draw_take _ _ _ _
              (match cat with
               | Ok spec => match cs_child spec with
                            | Some ch => map ci_id (cn_ifs ch) ++ [cn_id ch]
                            | None => []
                            end
               | Err _ => []
               end) H1) as [G1 T1]. simpl sg in G1. simpl sfresh in T1. rewrite T1 in Hfresh. clear H1.
  apply bind_err_cases in H as [H|(s2 & u3 & H1 & H)];
    [rewrite <- G1; exact (no_mut_guard _ _ _ _ _ H)|]. apply guard_ok in H1 as [-> _].
  apply bind_err_cases in H as [H|(s2 & u4 & H1 & H)];
    [rewrite <- G1; exact (no_mut_guard _ _ _ _ _ H)|]. apply guard_ok in H1 as [-> _].
  apply bind_err_cases in H as [H|(s2 & pname & H1 & H)];
    [rewrite <- G1; exact (no_mut_ask _ _ _ _ H)|]. apply ask_ok in H1 as [-> Hpn].
  destruct cat as [spec|e0]; [|rewrite <- G1; exact (no_mut_raise _ _ _ _ H)].
  assert (Hpnf : found (sg s1) pn).
  { unfold node_name in Hpn. destruct (find_node (sg s1) pn) eqn:Ef; [eexists; eauto|discriminate]. }
  apply andb_true_iff in Hfresh as [Hnd Hnew].
  apply nodupN_cons in Hnd as [Hid_notin Hnd].
  simpl forallb in Hnew. apply andb_true_iff in Hnew as [Hid_new Hnew]. apply negb_true_iff in Hid_new.
  rewrite <- G1 in Hid_new, Hnew.
  set (comp := mkNode id cComp name (cs_type spec) 0) in *.
  destruct (cs_child spec) as [ch|].
  - (* a component with a network service and interfaces *)
    apply bind_err_cases in H as [H|(s2 & drawn & H1 & H)].
    { rewrite <- G1.
      refine ((_ : no_mut (ifs <- draw_if_ids (cn_ifs ch);; nsid <- id_or_draw (cn_id ch);; ret (Some (ch, nsid, ifs)))) _ _ _ H).
      nm. apply no_mut_draw_if_ids_l. }
    apply bind_ok in H1 as (s3 & ifs & D1 & H1). apply bind_ok in H1 as (s4 & nsid & D2 & H1).
    apply ret_ok in H1 as [-> ->].
    destruct (draw_if_ids_take _ _ _ _ [cn_id ch] D1) as (G3 & F3 & T3).
    destruct (id_or_draw_take _ _ _ _ [] D2) as [G4 T4].
    rewrite T3, T4 in Hnd, Hnew, Hid_notin.
    change (take_ids [] (sfresh s4)) with (@nil N) in Hnd, Hnew, Hid_notin.
    apply bind_err_cases in H as [H|(s5 & u5 & H1 & H)];
      [rewrite <- G1, <- G3, <- G4; exact (no_mut_opt_raise _ _ _ _ H)|].
    assert (s5 = s4) as -> by (destruct pure; simpl in H1; unfold raise, ret in H1; inversion H1; reflexivity).
    clear H1.
    apply bind_err_cases in H as [H|(s6 & u0 & H0 & H)]; [unfold ret in H; discriminate|].
    apply ret_ok in H0 as [-> _].
    assert (G : sg s4 = sg s1) by congruence.
    (* first mutation: on failure nothing changed; on success nothing fails any more *)
    apply bind_err_cases in H as [H|(s5 & u6 & H1 & H)].
    { rewrite <- G1, <- G. exact (atomic_mutate (fun _ => True) _ _ _ _ I H). }
    exfalso.
    apply mutate_ok in H1 as (g1 & Hg1 & ->). rewrite G in Hg1. apply add_node_result in Hg1 as [_ ->].
    set (g1 := mkGraph (gnodes (sg s1) ++ [comp]) (gedges (sg s1))) in *.
    assert (Fpn : found g1 pn) by (apply found_snoc; auto).
    assert (Fid : found g1 id) by (apply (found_new (sg s1) comp); auto).
    destruct Fpn as [a Ha]. destruct Fid as [b Hb].
    destruct (add_edge_ok pn rHas id g1 a b Ha Hb) as [g2 Hg2].
    unfold bind at 1 in H. unfold m_add_edge at 1, mutate at 1 in H. simpl sg in H. rewrite Hg2 in H.
    assert (N2 : gnodes g2 = gnodes g1) by (eapply add_edge_nodes; eauto).
    (* the service node *)
    rewrite forallb_app in Hnew. apply andb_true_iff in Hnew as [Hifs_new Hns_new].
    simpl in Hns_new. rewrite andb_true_r in Hns_new. apply negb_true_iff in Hns_new.
    assert (Hns_ne : nsid <> id).
    { intro E. apply Hid_notin. apply in_app_iff. right. left. auto. }
    assert (Hns2 : has_node g2 nsid = false).
    { rewrite (has_node_same_nodes g1 g2 nsid N2). unfold g1. rewrite has_node_snoc. rewrite Hns_new. simpl.
      apply N.eqb_neq. auto. }
    set (nsn := mkNode nsid cNS (cn_name ch) (cn_type ch) 0) in *.
    unfold bind at 1 in H. unfold bind at 1 in H. unfold m_add_node at 1, mutate at 1 in H. simpl sg in H.
    rewrite (add_node_ok g2 nsn Hns2) in H.
    set (g3 := mkGraph (gnodes g2 ++ [nsn]) (gedges g2)) in *.
    assert (Fid3 : found g3 id).
    { apply found_snoc; auto. apply (found_same_nodes g1 g2 id N2). exists b; exact Hb. }
    assert (Fns3 : found g3 nsid) by (apply (found_new g2 nsn); auto).
    destruct Fid3 as [c Hc]. destruct Fns3 as [d Hd].
    destruct (add_edge_ok id rHas nsid g3 c d Hc Hd) as [g4 Hg4].
    unfold bind at 1 in H. unfold m_add_edge at 1, mutate at 1 in H. simpl sg in H. rewrite Hg4 in H.
    assert (N4 : gnodes g4 = gnodes g3) by (eapply add_edge_nodes; eauto).
    (* the interfaces *)
    apply nodupN_NoDup in Hnd. apply NoDup_remove in Hnd as [Hnd Hns_notin]. rewrite app_nil_r in Hnd, Hns_notin.
    destruct (child_ifs_ok nsid ifs (mkSt g4 (sfresh s4))) as [s6 H6].
    + simpl. apply (found_same_nodes g3 g4 nsid N4). exists d; exact Hd.
    + exact Hnd.
    + intros x Hx. simpl. rewrite (has_node_same_nodes g3 g4 x N4). unfold g3. rewrite has_node_snoc.
      rewrite (has_node_same_nodes g1 g2 x N2). unfold g1. rewrite has_node_snoc.
      rewrite forallb_forall in Hifs_new. specialize (Hifs_new x Hx). apply negb_true_iff in Hifs_new.
      rewrite Hifs_new. simpl.
      assert (x <> id) by (intro E; apply Hid_notin; apply in_app_iff; left; rewrite <- E; exact Hx).
      assert (x <> nsid) by (intro E; apply Hns_notin; rewrite <- E; exact Hx).
      rewrite (neqb_of_neq id x) by auto. rewrite (neqb_of_neq nsid x) by auto. reflexivity.
    + simpl sfresh in H. rewrite H6 in H. unfold bind, ret in H. discriminate.
  - (* a component without ports *)
    apply bind_err_cases in H as [H|(s2 & drawn & H1 & H)]; [rewrite <- G1; exact (no_mut_ret _ _ _ _ H)|].
    apply ret_ok in H1 as [-> ->].
    apply bind_err_cases in H as [H|(s5 & u5 & H1 & H)];
      [rewrite <- G1; exact (no_mut_opt_raise _ _ _ _ H)|].
    assert (s5 = s1) as -> by (destruct pure; simpl in H1; unfold raise, ret in H1; inversion H1; reflexivity).
    clear H1.
    apply bind_err_cases in H as [H|(s6 & u0 & H0 & H)]; [unfold ret in H; discriminate|].
    apply ret_ok in H0 as [-> _].
    apply bind_err_cases in H as [H|(s5 & u6 & H1 & H)].
    { rewrite <- G1. exact (atomic_mutate (fun _ => True) _ _ _ _ I H). }
    exfalso.
    apply mutate_ok in H1 as (g1 & Hg1 & ->). apply add_node_result in Hg1 as [_ ->].
    set (g1 := mkGraph (gnodes (sg s1) ++ [comp]) (gedges (sg s1))) in *.
    assert (Fpn : found g1 pn) by (apply found_snoc; auto).
    assert (Fid : found g1 id) by (apply (found_new (sg s1) comp); auto).
    destruct Fpn as [a Ha]. destruct Fid as [b Hb].
    destruct (add_edge_ok pn rHas id g1 a b Ha Hb) as [g2 Hg2].
    unfold bind at 1 in H. unfold m_add_edge at 1, mutate at 1 in H. simpl sg in H. rewrite Hg2 in H.
    unfold bind, ret in H. discriminate.
Qed.

From Coq Require Import String.
From FIM Require Import Proofs.T9Refuted.
(* the hypothesis holds for distinct new child ids and fails exactly on the refutation witness *)
Lemma ex_ids_fresh :
  ids_fresh g_two_nodes (component_ids (Some 20) (Ok (spec_smartnic 21 22 23)) supply) = true /\
  ids_fresh g_two_nodes (component_ids (Some 20) (Ok (spec_smartnic 21 22 22)) supply) = false /\
  ids_fresh g_two_nodes (component_ids None (Ok (mkCompSpec tNIC (Some (mkChildNs (S "x") tOVS None
                                         [mkChildIf (S "p") tSharedPort None])))) supply) = true.
Proof. vm_compute. auto. Qed.

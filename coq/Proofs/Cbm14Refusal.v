(* C14 - refusals that are not clean (store-level model): concrete witnesses, replayed on the implementation by the
   harness (known findings F5, F6, F7). *)
From Coq Require Import List NArith Bool.
From FIM Require Import Model.Cbm14Store Model.Cbm14Check.
Import ListNotations.
Open Scope N_scope.

(* source 1 and source 2 both delegate node 10; they also share node 11 *)
Definition rf_store : store :=
  mkStore [mkNode 1 1 10 1 [] SAbs DAbs (DDict [(7, 8)]); mkNode 2 1 11 2 [] SAbs DAbs DAbs; mkNode 3 1 12 3 [] SAbs DAbs DAbs;
           mkNode 4 2 10 1 [] SAbs DAbs (DDict [(7, 9)]); mkNode 5 2 11 2 [] SAbs DAbs DAbs; mkNode 6 2 13 3 [] SAbs DAbs DAbs]
          [mkEdge 1 2 4 [] false; mkEdge 4 5 4 [] false] 7.
Definition the_store (o : outcome) : store := match o with OOk s => s | OErr _ s => s | OErrU _ => rf_store end.
Definition rf_merged : store := the_store (merge_adm 0 1 100 rf_store).

(* F5: the second merge is refused at node 10; when node 11 is met first it is already merged, and in any case the
   temporary clone stays in the store *)
Theorem refused_merge_not_atomic :
  exists st', step_o 0 (OpMerge 2 101) [11; 10] rf_merged = OErr EPGQ st' /\
              view_of 0 st' <> view_of 0 rf_merged /\ gexists 101 st' = true /\
              exists st'', step_o 0 (OpMerge 2 101) [10; 11] rf_merged = OErr EPGQ st'' /\
                           view_of 0 st'' = view_of 0 rf_merged /\ gexists 101 st'' = true.
Proof.
  eexists. split; [vm_compute; reflexivity|]. split; [vm_compute; discriminate|]. split; [vm_compute; reflexivity|].
  eexists. split; [vm_compute; reflexivity|]. split; vm_compute; reflexivity.
Qed.

(* F6: a model that delegates nothing can be merged twice; one unmerge does not undo it *)
Definition rm_store : store :=
  mkStore [mkNode 1 1 10 1 [] SAbs DAbs DAbs; mkNode 2 1 11 2 [] SAbs DAbs DAbs] [mkEdge 1 2 4 [] false] 3.
Theorem remerge_not_refused :
  exists s1 s2 s3, merge_adm 0 1 100 rm_store = OOk s1 /\ merge_adm 0 1 101 s1 = OOk s2 /\
                   map n_si (of_gid 0 s2) = [SIds [1; 1]; SIds [1; 1]] /\
                   unmerge_adm 0 1 s2 = OOk s3 /\ map n_si (of_gid 0 s3) = [SIds [1]; SIds [1]].
Proof.
  eexists. eexists. eexists. split; [vm_compute; reflexivity|]. split; [vm_compute; reflexivity|].
  split; [vm_compute; reflexivity|]. split; vm_compute; reflexivity.
Qed.

(* F7: with the UNREPAIRED statement order (delete_graph before the lookup) rollback to a snapshot id that does not
   exist deletes the combined graph, then fails *)
Theorem rollback_unknown_destroys :
  exists s1 s2, merge_adm 0 1 100 rm_store = OOk s1 /\ gexists 0 s1 = true /\
                rollback_gen false 0 55 s1 = OErr EAssert s2 /\ gexists 0 s2 = false.
Proof.
  eexists. eexists. split; [vm_compute; reflexivity|]. split; [vm_compute; reflexivity|]. split; vm_compute; reflexivity.
Qed.

(* with the REPAIRED order (lookup first) the full statement holds: rollback to an unknown or already used snapshot id
   is refused and changes nothing *)
Theorem rollback_unknown_refused cbm sid st :
  gexists sid st = false -> rollback_gen true cbm sid st = OErr EAssert st.
Proof. intro G. unfold rollback_gen. rewrite G. reflexivity. Qed.

(* the model follows the source: which of the two the code does is regenerated on every run *)
From FIM Require Gen.Cbm14Gen.
Lemma gen_ok_true : Cbm14Gen.gen_ok = true.
Proof. reflexivity. Qed.
Lemma rollback_follows_source : rollback = rollback_gen Cbm14Gen.rollback_checks_first.
Proof. reflexivity. Qed.
